/-
C10 support: the association-list bookkeeping of `Air.firstBadLookup` / `CtlSpec.holds`
(`bump`, `bumpTuple`) computes, per key, the SUM of the weights bumped for that key.

All weights are elements of `GL = Fin GLP`: every `+`, `-`, `0` below is arithmetic modulo the
Goldilocks prime `p = GLP`, so "total weight 0" means "≡ 0 (mod p)", not "= 0 in ℤ".

Core Lean only (no Mathlib). The ring facts about `Fin GLP` come from `grind`'s built-in
commutative-ring instance for `Fin n`; nothing ever evaluates a number modulo `GLP`.
-/
import P2.Model.Air
namespace P2.Lemmas.StarkLookup
open P2 P2.Air

/-! ### the few facts about `+` in `GL` (mod p) that are used -/

theorem gl_add_comm (a b : GL) : a + b = b + a := by grind
theorem gl_add_assoc (a b c : GL) : a + b + c = a + (b + c) := by grind
theorem gl_add_zero (a : GL) : a + 0 = a := by grind
theorem gl_zero_add (a : GL) : 0 + a = a := by grind
/-- `a − b ≡ 0` iff `a ≡ b` (mod p), in the shape the lookup bookkeeping produces it -/
theorem gl_add_neg_eq_zero (a b : GL) : a + (0 - b) = 0 ↔ a = b := by grind

/-- sum of a list of weights, in `GL` (mod p) -/
def wsum (xs : List GL) : GL := xs.foldl (· + ·) 0

theorem foldl_add_init (xs : List GL) (a : GL) : xs.foldl (· + ·) a = a + xs.foldl (· + ·) 0 := by
  induction xs generalizing a with
  | nil => simp only [List.foldl_nil, gl_add_zero]
  | cons x xs ih =>
    simp only [List.foldl_cons]
    rw [ih (a + x), ih (0 + x), gl_zero_add, gl_add_assoc]

@[simp] theorem wsum_nil : wsum [] = 0 := rfl
theorem wsum_cons (x : GL) (xs : List GL) : wsum (x :: xs) = x + wsum xs := by
  simp only [wsum, List.foldl_cons]
  rw [foldl_add_init, gl_zero_add]

section
set_option linter.unusedSectionVars false
variable {κ : Type} [BEq κ] [LawfulBEq κ]

/-- `bump` / `bumpTuple` over an arbitrary key type -/
def bumpG (m : List (κ × GL)) (k : κ) (w : GL) : List (κ × GL) :=
  if m.any (fun p => p.1 == k) then m.map (fun p => if p.1 == k then (p.1, p.2 + w) else p)
  else (k, w) :: m

/-- total weight (in `GL`, i.e. mod p) carried by key `k` in a list of (key, weight) pairs; used
both for association lists and for raw event lists -/
def weight : List (κ × GL) → κ → GL
  | [], _ => 0
  | p :: m, k => (if p.1 == k then p.2 else 0) + weight m k

/-- the keys of the association list are pairwise distinct -/
def keysNodup (m : List (κ × GL)) : Prop := (m.map (·.1)).Nodup

@[simp] theorem weight_nil (k : κ) : weight ([] : List (κ × GL)) k = 0 := rfl
theorem weight_cons (p : κ × GL) (m : List (κ × GL)) (k : κ) :
    weight (p :: m) k = (if p.1 == k then p.2 else 0) + weight m k := rfl

/-- `weight` is the sum of the weights of the entries with that key, written with `filter` -/
theorem weight_eq_wsum (m : List (κ × GL)) (k : κ) :
    weight m k = wsum ((m.filter (·.1 == k)).map (·.2)) := by
  induction m with
  | nil => rfl
  | cons p m ih =>
    rw [weight_cons, ih]
    by_cases h : (p.1 == k) = true
    · simp only [h, if_true, List.filter_cons_of_pos, List.map_cons, wsum_cons]
    · simp only [h, Bool.false_eq_true, if_false, List.filter_cons_of_neg, not_false_eq_true,
        gl_zero_add]

/-- the same, as the literal `foldl` -/
theorem weight_eq_foldl (m : List (κ × GL)) (k : κ) :
    weight m k = (m.filter (·.1 == k)).foldl (· + ·.2) 0 := by
  rw [weight_eq_wsum, wsum, List.foldl_map]

theorem weight_append (m₁ m₂ : List (κ × GL)) (k : κ) :
    weight (m₁ ++ m₂) k = weight m₁ k + weight m₂ k := by
  induction m₁ with
  | nil => simp only [List.nil_append, weight_nil, gl_zero_add]
  | cons p m ih => simp only [List.cons_append, weight_cons, ih, gl_add_assoc]

theorem weight_eq_zero_of_not_any (m : List (κ × GL)) (k : κ)
    (h : m.any (fun p => p.1 == k) = false) : weight m k = 0 := by
  induction m with
  | nil => rfl
  | cons p m ih =>
    simp only [List.any_cons, Bool.or_eq_false_iff] at h
    simp only [weight_cons, h.1, Bool.false_eq_true, if_false, ih h.2, gl_add_zero]

theorem map_bump_of_not_any (m : List (κ × GL)) (k : κ) (w : GL)
    (h : m.any (fun p => p.1 == k) = false) :
    m.map (fun p => if p.1 == k then (p.1, p.2 + w) else p) = m := by
  induction m with
  | nil => rfl
  | cons p m ih =>
    simp only [List.any_cons, Bool.or_eq_false_iff] at h
    simp only [List.map_cons, h.1, Bool.false_eq_true, if_false, ih h.2]

theorem keysNodup_cons {p : κ × GL} {m : List (κ × GL)} :
    keysNodup (p :: m) ↔ m.any (fun q => q.1 == p.1) = false ∧ keysNodup m := by
  simp only [keysNodup, List.map_cons, List.nodup_cons, List.mem_map, List.any_eq_false,
    beq_iff_eq]
  constructor
  · rintro ⟨h1, h2⟩
    exact ⟨fun q hq he => h1 ⟨q, hq, he⟩, h2⟩
  · rintro ⟨h1, h2⟩
    exact ⟨fun ⟨q, hq, he⟩ => h1 q hq he, h2⟩

/-- the keys are untouched by the `map` branch of `bump` -/
theorem map_bump_keys (m : List (κ × GL)) (k : κ) (w : GL) :
    (m.map (fun p => if p.1 == k then (p.1, p.2 + w) else p)).map (·.1) = m.map (·.1) := by
  induction m with
  | nil => rfl
  | cons p m ih =>
    simp only [List.map_cons, ih]
    by_cases h : (p.1 == k) = true
    · simp only [h, if_true]
    · simp only [h, Bool.false_eq_true, if_false]

/-- weight after the `map` branch of `bump`, for a duplicate-free association list -/
theorem weight_map_bump (m : List (κ × GL)) (k k' : κ) (w : GL) (hm : keysNodup m) :
    weight (m.map (fun p => if p.1 == k then (p.1, p.2 + w) else p)) k' =
      weight m k' + (if m.any (fun p => p.1 == k) && k == k' then w else 0) := by
  induction m with
  | nil => simp only [List.map_nil, weight_nil, List.any_nil, Bool.false_and, Bool.false_eq_true,
      if_false, gl_add_zero]
  | cons p m ih =>
    obtain ⟨hp, hm'⟩ := keysNodup_cons.1 hm
    by_cases h : (p.1 == k) = true
    · have hk : p.1 = k := eq_of_beq h
      subst hk
      simp only [List.map_cons, BEq.rfl, if_true, List.any_cons, Bool.true_or, Bool.true_and,
        weight_cons, map_bump_of_not_any m p.1 w hp]
      by_cases h2 : (p.1 == k') = true
      · simp only [h2, if_true]
        grind
      · simp only [h2, Bool.false_eq_true, if_false, gl_add_zero]
    · simp only [List.map_cons, h, Bool.false_eq_true, if_false, List.any_cons, Bool.false_or,
        weight_cons, ih hm', gl_add_assoc]

/-- **`bump` adds `w` to the weight of `k` and leaves every other key alone** (needs distinct keys:
with a duplicated key the `map` branch would add `w` once per copy). `k' == k` is the lawful
boolean equality of the key type, i.e. `k' = k`. -/
theorem weight_bump (m : List (κ × GL)) (k k' : κ) (w : GL) (hm : keysNodup m) :
    weight (bumpG m k w) k' = weight m k' + (if k' == k then w else 0) := by
  unfold bumpG
  have hsymm : (k == k') = (k' == k) := by
    cases hb : (k' == k) with
    | true => rw [eq_of_beq hb]; exact BEq.rfl
    | false =>
      cases hc : (k == k') with
      | false => rfl
      | true => rw [eq_of_beq hc, BEq.rfl] at hb; cases hb
  by_cases h : m.any (fun p => p.1 == k) = true
  · rw [if_pos h, weight_map_bump m k k' w hm, h, Bool.true_and, hsymm]
  · rw [if_neg h, weight_cons]
    show (if (k == k') = true then w else 0) + weight m k' = _
    rw [hsymm, gl_add_comm]

/-- **`bump` keeps the keys distinct** -/
theorem bump_keys_nodup (m : List (κ × GL)) (k : κ) (w : GL) (hm : keysNodup m) :
    keysNodup (bumpG m k w) := by
  unfold bumpG
  by_cases h : m.any (fun p => p.1 == k) = true
  · rw [if_pos h]
    unfold keysNodup
    rw [map_bump_keys]
    exact hm
  · rw [if_neg h]
    exact keysNodup_cons.2 ⟨Bool.eq_false_iff.2 h, hm⟩

/-- in a duplicate-free association list the weight of a present key is its entry -/
theorem weight_of_mem (m : List (κ × GL)) (hm : keysNodup m) (p : κ × GL) (hp : p ∈ m) :
    weight m p.1 = p.2 := by
  induction m with
  | nil => cases hp
  | cons q m ih =>
    obtain ⟨hq, hm'⟩ := keysNodup_cons.1 hm
    rcases List.mem_cons.1 hp with rfl | hp'
    · simp only [weight_cons, BEq.rfl, if_true, weight_eq_zero_of_not_any m p.1 hq, gl_add_zero]
    · have hne : (q.1 == p.1) = false := by
        rw [List.any_eq_false] at hq
        cases hb : (q.1 == p.1) with
        | false => rfl
        | true =>
          have : q.1 = p.1 := eq_of_beq hb
          exact absurd (by rw [this]; exact BEq.rfl) (hq p hp')
      simp only [weight_cons, hne, Bool.false_eq_true, if_false, ih hm' hp', gl_zero_add]

theorem weight_eq_zero_of_all (m : List (κ × GL)) (h : m.all (fun p => p.2 == 0) = true)
    (k : κ) : weight m k = 0 := by
  induction m with
  | nil => rfl
  | cons p m ih =>
    simp only [List.all_cons, Bool.and_eq_true, beq_iff_eq] at h
    rw [weight_cons, ih h.2, h.1]
    by_cases hb : (p.1 == k) = true
    · simp only [hb, if_true, gl_add_zero]
    · simp only [hb, Bool.false_eq_true, if_false, gl_add_zero]

/-- **the final test of `firstBadLookup` / `holds`**: every stored weight is 0 iff every key has
total weight 0 (mod p) -/
theorem all_zero_iff (m : List (κ × GL)) (hm : keysNodup m) :
    m.all (fun p => p.2 == 0) = true ↔ ∀ k, weight m k = 0 := by
  constructor
  · exact weight_eq_zero_of_all m
  · intro h
    rw [List.all_eq_true]
    intro p hp
    rw [beq_iff_eq, ← weight_of_mem m hm p hp]
    exact h p.1

/-- the association list built from a list of (key, weight) events -/
def bumpAll (m0 : List (κ × GL)) (es : List (κ × GL)) : List (κ × GL) :=
  es.foldl (fun m e => bumpG m e.1 e.2) m0

theorem bumpAll_keys_nodup (es : List (κ × GL)) (m0 : List (κ × GL)) (hm : keysNodup m0) :
    keysNodup (bumpAll m0 es) := by
  induction es generalizing m0 with
  | nil => exact hm
  | cons e es ih => exact ih _ (bump_keys_nodup m0 e.1 e.2 hm)

/-- **bumping a whole event list**: the weight of `k` grows by the sum (mod p) of the weights of
the events with key `k` (`weight es k`, see `weight_eq_wsum` / `weight_eq_foldl` for the
`filter` form) -/
theorem weight_foldl_bump (es : List (κ × GL)) (m0 : List (κ × GL)) (hm : keysNodup m0) (k : κ) :
    weight (es.foldl (fun m e => bumpG m e.1 e.2) m0) k = weight m0 k + weight es k := by
  induction es generalizing m0 with
  | nil => simp only [List.foldl_nil, weight_nil, gl_add_zero]
  | cons e es ih =>
    rw [List.foldl_cons, ih _ (bump_keys_nodup m0 e.1 e.2 hm), weight_bump m0 e.1 k e.2 hm,
      weight_cons, gl_add_assoc]
    have hsymm : (k == e.1) = (e.1 == k) := by
      cases hb : (e.1 == k) with
      | true => rw [← eq_of_beq hb]; exact BEq.rfl
      | false =>
        cases hc : (k == e.1) with
        | false => rfl
        | true => rw [eq_of_beq hc, BEq.rfl] at hb; cases hb
    rw [hsymm]

/-- the `filter`/`foldl` form of `weight_foldl_bump` -/
theorem weight_foldl_bump' (es : List (κ × GL)) (m0 : List (κ × GL)) (hm : keysNodup m0) (k : κ) :
    weight (es.foldl (fun m e => bumpG m e.1 e.2) m0) k =
      weight m0 k + (es.filter (·.1 == k)).foldl (· + ·.2) 0 := by
  rw [weight_foldl_bump es m0 hm k, weight_eq_foldl es k]

theorem keysNodup_nil : keysNodup ([] : List (κ × GL)) := List.nodup_nil

/-- **what the whole bookkeeping decides**: starting from the empty list, "all stored weights are
0" iff every key has event-weight sum 0 (mod p) -/
theorem bumpAll_all_zero_iff (es : List (κ × GL)) :
    (es.foldl (fun m e => bumpG m e.1 e.2) []).all (fun p => p.2 == 0) = true ↔
      ∀ k, weight es k = 0 := by
  have h := all_zero_iff _ (bumpAll_keys_nodup es [] keysNodup_nil)
  simp only [bumpAll, weight_foldl_bump es [] keysNodup_nil, weight_nil, gl_zero_add] at h
  exact h

/-! ### algebra of `weight` on event lists (for splitting looking / looked sides) -/

theorem weight_flatMap_append {ι : Type} (f g : ι → List (κ × GL)) (rs : List ι) (k : κ) :
    weight (rs.flatMap fun r => f r ++ g r) k =
      weight (rs.flatMap f) k + weight (rs.flatMap g) k := by
  induction rs with
  | nil => simp only [List.flatMap_nil, weight_nil, gl_add_zero]
  | cons r rs ih =>
    simp only [List.flatMap_cons, weight_append, ih]
    grind

/-- negating every weight negates the total -/
theorem weight_map_neg (m : List (κ × GL)) (k : κ) :
    weight (m.map fun p => (p.1, 0 - p.2)) k = 0 - weight m k := by
  induction m with
  | nil => simp only [List.map_nil, weight_nil]; grind
  | cons p m ih =>
    simp only [List.map_cons, weight_cons, ih]
    by_cases hb : (p.1 == k) = true
    · simp only [hb, if_true]; grind
    · simp only [hb, Bool.false_eq_true, if_false]; grind

/-- the weight of a mapped list as an explicit indicator sum -/
theorem weight_map_eq_wsum {ι : Type} (g : ι → κ × GL) (xs : List ι) (k : κ) :
    weight (xs.map g) k = wsum (xs.map fun x => if (g x).1 == k then (g x).2 else 0) := by
  induction xs with
  | nil => rfl
  | cons x xs ih => simp only [List.map_cons, weight_cons, wsum_cons, ih]

/-- the weight of a concatenation of blocks is the sum of the block weights -/
theorem weight_flatMap_eq_wsum {ι : Type} (f : ι → List (κ × GL)) (rs : List ι) (k : κ) :
    weight (rs.flatMap f) k = wsum (rs.map fun r => weight (f r) k) := by
  induction rs with
  | nil => rfl
  | cons r rs ih => simp only [List.flatMap_cons, List.map_cons, weight_append, wsum_cons, ih]

end

/-! ### the model's `bump` / `bumpTuple` are `bumpG` -/

theorem bump_eq (m : List (GL × GL)) (k w : GL) : bump m k w = bumpG m k w := rfl
theorem bumpTuple_eq (m : List (List GL × GL)) (k : List GL) (w : GL) :
    bumpTuple m k w = bumpG m k w := rfl

end P2.Lemmas.StarkLookup
