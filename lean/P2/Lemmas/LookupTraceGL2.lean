/-
The row-level system of `P2.Lemmas.LookupTrace`, instantiated at the model's own field `GL2`
(`gl2Field`), IS what `Plonk.checkLookupConstraints` evaluates row by row: the named pieces of
`P2.Lemmas.LookupStructure` (the `let`s of the model, list folds over slot ranges) equal the
`Finset` products / sums of `Slots.lutProd`, `Slots.lutSumProdsMul`, … .
-/
import P2.Lemmas.GL2Field
import P2.Lemmas.LookupTrace
import P2.Lemmas.LookupStructure

namespace P2.Lemmas.LookupTraceGL2
open P2 Finset P2.Lemmas.GL2Field P2.Lemmas.LookupTrace

/-! ## list folds over a slot range as `Finset` products / sums over `chunk` (any field) -/

section folds
variable {K : Type} [Field K]

theorem prod_map_range (f : ℕ → K) (m : ℕ) :
    ((List.range m).map f).prod = ∏ i ∈ range m, f i := by
  induction m with
  | zero => simp
  | succ m ih => rw [List.range_succ, List.map_append, List.prod_append, ih, prod_range_succ]; simp

theorem sum_map_range (f : ℕ → K) (m : ℕ) :
    ((List.range m).map f).sum = ∑ i ∈ range m, f i := by
  induction m with
  | zero => simp
  | succ m ih => rw [List.range_succ, List.map_append, List.sum_append, ih, sum_range_succ]; simp

/-- the slot range of the model, as a list -/
def rangeList (d n p : ℕ) : List ℕ :=
  (List.range (min ((p + 1) * d) n - p * d)).map (· + p * d)

theorem prod_rangeList (d n p : ℕ) (g : ℕ → K) :
    ((rangeList d n p).map g).prod = ∏ i ∈ chunk d n p, g i := by
  rw [rangeList, List.map_map, prod_map_range, chunk, prod_Ico_eq_prod_range]
  apply prod_congr rfl
  intro i _
  simp [add_comm]

theorem sum_rangeList (d n p : ℕ) (g : ℕ → K) :
    ((rangeList d n p).map g).sum = ∑ i ∈ chunk d n p, g i := by
  rw [rangeList, List.map_map, sum_map_range, chunk, sum_Ico_eq_sum_range]
  apply sum_congr rfl
  intro i _
  simp [add_comm]

theorem foldl_prod_rangeList (d n p : ℕ) (g : ℕ → K) :
    (rangeList d n p).foldl (fun acc i => acc * g i) 1 = ∏ i ∈ chunk d n p, g i := by
  rw [Alg2.foldl_mul_form _ _ g (fun _ _ => rfl), one_mul, prod_rangeList]

theorem foldl_prod_erase_rangeList (d n p i : ℕ) (g : ℕ → K) :
    (rangeList d n p).foldl (fun acc j => if j ≠ i then acc * g j else acc) 1
      = ∏ j ∈ (chunk d n p).erase i, g j := by
  rw [Alg2.foldl_mul_form _ _ (fun j => if j ≠ i then g j else 1)
    (fun acc j => by by_cases h : j = i <;> simp [h]), one_mul, prod_rangeList,
    ← filter_ne', prod_filter]

theorem foldl_sum_rangeList (d n p : ℕ) (g : ℕ → K) :
    (rangeList d n p).foldl (fun acc i => acc + g i) 0 = ∑ i ∈ chunk d n p, g i := by
  rw [Alg2.foldl_add_form _ _ g (fun _ _ => rfl), zero_add, sum_rangeList]

end folds

/-! ## the model's pieces at `GL2` -/

attribute [local instance] gl2Field

namespace LS
export P2.Lemmas.LookupStructure (numSldc sel zRe zx zgx sldcPrev wire numLuSlots numLutSlots
  luDegree lutDegree dAlpha looked looking lutRange luRange lutProd luProd lutProdI luProdI
  luSumProds lutSumProdsMul sumTransition ldcTransition)
end LS

/-- the part of the trace the lookup terms read: per row the wire values and the values
`[zRe, z_0, …, z_{s−1}]` of the lookup polynomials (for one challenge index), and the four
lookup challenges -/
structure Trace where
  c : Plonk.CommonData
  wires : ℕ → List GL2
  zs : ℕ → List GL2
  deltas : List P2.GL

/-- the slot data of a trace: the combinations under challenge A and the multiplicity wires, the
slot counts and the slots per SLDC polynomial exactly as `check_lookup_constraints` computes them
from the configuration and `s` -/
def Trace.slots (t : Trace) (s : ℕ) : Slots GL2 where
  nLut := LS.numLutSlots t.c
  nLu := LS.numLuSlots t.c
  lutDeg := if s = 0 then 0 else (LS.numLutSlots t.c + s - 1) / s
  luDeg := LS.luDegree t.c
  looked := fun r i => LS.looked (t.wires r) t.deltas i
  mult := fun r i => LS.wire (t.wires r) (3 * i + 2)
  looking := fun r i => LS.looking (t.wires r) t.deltas i

/-- the SLDC values of a trace -/
def Trace.z (t : Trace) (r k : ℕ) : GL2 := LS.zx (t.zs r) k

/-- the challenge `α` -/
def Trace.alpha (t : Trace) : GL2 := LS.dAlpha t.deltas

theorem lutRange_eq (t : Trace) (L : Layout) (r : ℕ) (hlen : (t.zs r).length = L.s + 1) (p : ℕ) :
    LS.lutRange t.c (t.zs r) p = rangeList (t.slots L.s).lutDeg (t.slots L.s).nLut p := by
  simp only [LookupStructure.lutRange, LookupStructure.lutDegree, LookupStructure.numSldc, hlen,
    Nat.add_sub_cancel, rangeList, Trace.slots]

theorem luRange_eq (t : Trace) (s : ℕ) (p : ℕ) :
    LS.luRange t.c p = rangeList (t.slots s).luDeg (t.slots s).nLu p := rfl

theorem sldcPrev_eq (t : Trace) (L : Layout) (r : ℕ) (hlen : (t.zs r).length = L.s + 1) (p : ℕ) :
    LS.sldcPrev (t.zs r) (t.zs (r + 1)) p = prev L t.z r p := by
  cases p with
  | zero => simp only [LookupStructure.sldcPrev, LookupStructure.numSldc, hlen, Nat.add_sub_cancel,
      prev, Trace.z, LookupStructure.zgx, LookupStructure.zx, if_true]
  | succ p => simp [LookupStructure.sldcPrev, prev, Trace.z]

/-- `unfiltered_sum_transition` of the model on row `r` is the `VerifierRows.sre` expression -/
theorem sumTransition_eq (t : Trace) (L : Layout) (r : ℕ) (hlen : (t.zs r).length = L.s + 1)
    (p : ℕ) :
    LS.sumTransition t.c (t.wires r) (t.zs r) (t.zs (r + 1)) t.deltas p
      = (t.slots L.s).lutProd t.alpha r p * (t.z r p - prev L t.z r p)
        - (t.slots L.s).lutSumProdsMul t.alpha r p := by
  have hP : LS.lutProd t.c (t.wires r) (t.zs r) t.deltas p = (t.slots L.s).lutProd t.alpha r p := by
    rw [LookupStructure.lutProd, lutRange_eq t L r hlen]
    exact foldl_prod_rangeList _ _ _ (fun i => t.alpha - (t.slots L.s).looked r i)
  have hI : ∀ i, LS.lutProdI t.c (t.wires r) (t.zs r) t.deltas p i
      = ∏ j ∈ (chunk (t.slots L.s).lutDeg (t.slots L.s).nLut p).erase i,
          (t.alpha - (t.slots L.s).looked r j) := by
    intro i
    rw [LookupStructure.lutProdI, lutRange_eq t L r hlen]
    exact foldl_prod_erase_rangeList _ _ _ i (fun j => t.alpha - (t.slots L.s).looked r j)
  have hS : LS.lutSumProdsMul t.c (t.wires r) (t.zs r) t.deltas p
      = (t.slots L.s).lutSumProdsMul t.alpha r p := by
    rw [LookupStructure.lutSumProdsMul, lutRange_eq t L r hlen]
    simp only [hI]
    exact foldl_sum_rangeList _ _ _ (fun i => (t.slots L.s).mult r i *
      ∏ j ∈ (chunk (t.slots L.s).lutDeg (t.slots L.s).nLut p).erase i,
        (t.alpha - (t.slots L.s).looked r j))
  rw [LookupStructure.sumTransition, hP, hS, sldcPrev_eq t L r hlen]
  rfl

/-- `unfiltered_ldc_transition` of the model on row `r` is the `VerifierRows.ldc` expression -/
theorem ldcTransition_eq (t : Trace) (L : Layout) (r : ℕ) (hlen : (t.zs r).length = L.s + 1)
    (p : ℕ) :
    LS.ldcTransition t.c (t.wires r) (t.zs r) (t.zs (r + 1)) t.deltas p
      = (t.slots L.s).luProd t.alpha r p * (t.z r p - prev L t.z r p)
        + (t.slots L.s).luSumProds t.alpha r p := by
  have hP : LS.luProd t.c (t.wires r) t.deltas p = (t.slots L.s).luProd t.alpha r p := by
    rw [LookupStructure.luProd, luRange_eq t L.s]
    exact foldl_prod_rangeList _ _ _ (fun i => t.alpha - (t.slots L.s).looking r i)
  have hI : ∀ i, LS.luProdI t.c (t.wires r) t.deltas p i
      = ∏ j ∈ (chunk (t.slots L.s).luDeg (t.slots L.s).nLu p).erase i,
          (t.alpha - (t.slots L.s).looking r j) := by
    intro i
    rw [LookupStructure.luProdI, luRange_eq t L.s]
    exact foldl_prod_erase_rangeList _ _ _ i (fun j => t.alpha - (t.slots L.s).looking r j)
  have hS : LS.luSumProds t.c (t.wires r) t.deltas p = (t.slots L.s).luSumProds t.alpha r p := by
    rw [LookupStructure.luSumProds, luRange_eq t L.s]
    simp only [hI]
    rw [Slots.luSumProds]
    simp only [one_mul]
    exact foldl_sum_rangeList _ _ _ (fun i =>
      ∏ j ∈ (chunk (t.slots L.s).luDeg (t.slots L.s).nLu p).erase i,
        (t.alpha - (t.slots L.s).looking r j))
  rw [LookupStructure.ldcTransition, hP, hS, sldcPrev_eq t L r hlen]
  rfl

/-! ## the model's list on every row ⇔ `VerifierRows` -/

/-- the four lookup selector values on every row are those `selectors_lookup` sets for `L` -/
def SelectorsOf (L : Layout) (sels : ℕ → List GL2) : Prop :=
  ∀ r, LS.sel (sels r) 0 = ind (L.transSre r) ∧ LS.sel (sels r) 1 = ind (L.transLdc r) ∧
    LS.sel (sels r) 2 = ind (L.initSre r) ∧ LS.sel (sels r) 3 = ind (L.lastLdc r)

/-- on every row, the entries of the list `Plonk.checkLookupConstraints` builds (local values: the
row's; next values: the next row's) that involve the SLDC polynomials are zero: positions `0`
(LastLdc), `1` (InitSre) and `4 + #tables + 2·poly (+ 1)` for `poly < s` -/
def ModelRowsVanish (t : Trace) (L : Layout) (sels : ℕ → List GL2) : Prop :=
  ∀ r,
    (Plonk.checkLookupConstraints t.c (t.wires r) (t.zs r) (t.zs (r + 1)) (sels r) t.deltas)[0]?
      = some 0 ∧
    (Plonk.checkLookupConstraints t.c (t.wires r) (t.zs r) (t.zs (r + 1)) (sels r) t.deltas)[1]?
      = some 0 ∧
    ∀ p, p < L.s →
      (Plonk.checkLookupConstraints t.c (t.wires r) (t.zs r) (t.zs (r + 1)) (sels r) t.deltas)[
        4 + (t.c.numLookupSelectors - 4) + 2 * p]? = some 0 ∧
      (Plonk.checkLookupConstraints t.c (t.wires r) (t.zs r) (t.zs (r + 1)) (sels r) t.deltas)[
        4 + (t.c.numLookupSelectors - 4) + 2 * p + 1]? = some 0

/-- **the model evaluates the row-level system**: with the selector values of `selectors_lookup`
and `s + 1` lookup-polynomial values per row, the SLDC entries of `Plonk.checkLookupConstraints`
vanish on every row iff `VerifierRows` holds with the repaired pin `s − 1` -/
theorem modelRowsVanish_iff (t : Trace) (L : Layout) (sels : ℕ → List GL2)
    (hlen : ∀ r, (t.zs r).length = L.s + 1) (hsel : SelectorsOf L sels) :
    ModelRowsVanish t L sels ↔ VerifierRows L (t.slots L.s) t.alpha t.z (L.s - 1) := by
  have hn : ∀ r, LS.numSldc (t.zs r) = L.s := fun r => by
    rw [LookupStructure.numSldc, hlen r, Nat.add_sub_cancel]
  have pos := fun r => LookupStructure.checkLookupConstraints_positions t.c (t.wires r) (t.zs r)
    (t.zs (r + 1)) (sels r) t.deltas
  constructor
  · intro h
    refine ⟨fun r k hk => ?_, fun r k hk => ?_, fun r => ?_, fun r => ?_⟩
    · have h1 := ((pos r).2.2.2 k (by rw [hn r]; exact hk)).1
      rw [((h r).2.2 k hk).1, (hsel r).1, sumTransition_eq t L r (hlen r)] at h1
      exact (Option.some.inj h1).symm
    · have h1 := ((pos r).2.2.2 k (by rw [hn r]; exact hk)).2
      rw [((h r).2.2 k hk).2, (hsel r).2.1, ldcTransition_eq t L r (hlen r)] at h1
      exact (Option.some.inj h1).symm
    · have h1 := (pos r).2.1
      rw [(h r).2.1, (hsel r).2.2.1, hn r] at h1
      exact (Option.some.inj h1).symm
    · have h1 := (pos r).1
      rw [(h r).1, (hsel r).2.2.2, hn r] at h1
      exact (Option.some.inj h1).symm
  · intro h r
    refine ⟨?_, ?_, fun p hp => ⟨?_, ?_⟩⟩
    · rw [(pos r).1, (hsel r).2.2.2, hn r]
      exact congrArg some (h.last r)
    · rw [(pos r).2.1, (hsel r).2.2.1, hn r]
      exact congrArg some (h.init r)
    · rw [((pos r).2.2.2 p (by rw [hn r]; exact hp)).1, (hsel r).1, sumTransition_eq t L r (hlen r)]
      exact congrArg some (h.sre r p hp)
    · rw [((pos r).2.2.2 p (by rw [hn r]; exact hp)).2, (hsel r).2.1,
        ldcTransition_eq t L r (hlen r)]
      exact congrArg some (h.ldc r p hp)

end P2.Lemmas.LookupTraceGL2
