/-
C07, `BaseSumGate<B>` (`GateKind.baseSum b l`): wire 0 = sum, wires `1 .. l` = limbs.
Constraint 0 is `Σ_i limb_i · b^i − w0`, constraint `1+i` is the range check `∏_{d<b} (limb_i − d)`.
The generator (`BaseSplitGenerator`) writes limb `i := (s / b^i) % b` where `s` is the canonical
value of wire 0.
-/
import P2.Lemmas.C07
import Mathlib.Algebra.BigOperators.Group.Finset.Basic
import Mathlib.Algebra.BigOperators.GroupWithZero.Finset
import Mathlib.Algebra.BigOperators.Ring.Finset
import Mathlib.Data.ZMod.Basic
set_option linter.unusedSectionVars false
set_option linter.unusedSimpArgs false
set_option linter.unusedVariables false
namespace P2.Lemmas.C07
open P2 P2.Gates
section
variable {K : Type} [Field K] [DecidableEq K] [Inhabited K]

/-! ## helper lemmas: `reduceWithPowers`, `prod` -/

/-- Horner from the last element: one step -/
theorem reduceWithPowers_cons (x : K) (xs : List K) (a : K) :
    @FOps.reduceWithPowers K (FOps.ofField K) (x :: xs) a
      = x + a * @FOps.reduceWithPowers K (FOps.ofField K) xs a := by
  simp only [FOps.reduceWithPowers, List.foldr_cons]
  show List.foldr (fun x acc => acc * a + x) 0 xs * a + x = x + a * List.foldr (fun x acc => acc * a + x) 0 xs
  ring

/-- `reduce_with_powers` of the list `[f 0, …, f (n-1)]` is `Σ_i f i · a^i` -/
theorem reduceWithPowers_map_range (n : Nat) (f : Nat → K) (a : K) :
    @FOps.reduceWithPowers K (FOps.ofField K) ((List.range n).map f) a
      = ∑ i ∈ Finset.range n, f i * a ^ i := by
  induction n generalizing f with
  | zero => rfl
  | succ n ih =>
    rw [List.range_succ_eq_map, List.map_cons, List.map_map, reduceWithPowers_cons, ih,
      Finset.sum_range_succ', Finset.mul_sum]
    simp only [Function.comp, pow_zero, mul_one, pow_succ]
    rw [add_comm]
    congr 1
    apply Finset.sum_congr rfl
    intro i _
    ring

/-- `FOps.prod` (a left fold from `1`) is the list product -/
theorem fopsProd_eq (xs : List K) : @FOps.prod K (FOps.ofField K) xs = xs.prod := by
  simp only [FOps.prod]
  show List.foldl (· * ·) 1 xs = xs.prod
  rw [List.prod_eq_foldl]

theorem fopsProd_map_range (n : Nat) (f : Nat → K) :
    @FOps.prod K (FOps.ofField K) ((List.range n).map f) = ∏ d ∈ Finset.range n, f d := by
  rw [fopsProd_eq]
  induction n with
  | zero => simp
  | succ n ih => rw [List.range_succ, List.map_append, List.prod_append, ih, Finset.prod_range_succ]; simp

/-! ## closed forms of the constraints -/

theorem baseSum_con0 (b l : Nat) (v : EvalVars K) :
    con (.baseSum b l) v 0
      = (∑ i ∈ Finset.range l, v.wires[1 + i]! * (b : K) ^ i) - v.wires[0]! := by
  simp only [con, evalF, GateKind.evalUnfiltered, evalBaseSum, List.getD_cons_zero]
  rw [reduceWithPowers_map_range]
  rfl

theorem baseSum_con_succ' (b l : Nat) (v : EvalVars K) (i : Nat) :
    con (.baseSum b l) v (1 + i)
      = if i < l then ∏ d ∈ Finset.range b, (v.wires[1 + i]! - (d : K)) else 0 := by
  simp only [con, evalF, GateKind.evalUnfiltered, evalBaseSum, Nat.add_comm 1 i, List.getD_cons_succ,
    List.map_map, getD_map_range]
  split
  · simp only [Function.comp]
    rw [fopsProd_map_range, Nat.add_comm i 1]
    rfl
  · rfl

theorem baseSum_con_succ (b l : Nat) (v : EvalVars K) (i : Nat) (hi : i < l) :
    con (.baseSum b l) v (1 + i) = ∏ d ∈ Finset.range b, (v.wires[1 + i]! - (d : K)) := by
  rw [baseSum_con_succ', if_pos hi]

theorem baseSum_con_gt (b l : Nat) (v : EvalVars K) (j : Nat) (hj : l < j) :
    con (.baseSum b l) v j = 0 := by
  obtain ⟨i, rfl⟩ : ∃ i, j = 1 + i := ⟨j - 1, by omega⟩
  rw [baseSum_con_succ', if_neg (by omega)]

/-! ## (a) the generator's row satisfies the gate -/

/-- little-endian digits recompose to the value modulo `b^l` -/
theorem sum_digits_eq_mod (b s l : Nat) :
    ∑ i ∈ Finset.range l, (s / b ^ i % b) * b ^ i = s % b ^ l := by
  induction l with
  | zero => simp [Nat.mod_one]
  | succ l ih => rw [Finset.sum_range_succ, ih, Nat.mod_pow_succ, Nat.mul_comm]

/-- the range-check product vanishes at every `(d : K)` with `d < b` -/
theorem rangeCheck_natCast (b d : Nat) (hd : d < b) :
    ∏ e ∈ Finset.range b, (((d : ℕ) : K) - (e : K)) = 0 :=
  Finset.prod_eq_zero (Finset.mem_range.2 hd) (sub_self _)

/-- a root of the range-check product is some `(d : K)` with `d < b` -/
theorem rangeCheck_root (b : Nat) (x : K) (h : ∏ e ∈ Finset.range b, (x - (e : K)) = 0) :
    ∃ d, d < b ∧ x = (d : K) := by
  obtain ⟨d, hd, h0⟩ := Finset.prod_eq_zero_iff.1 h
  exact ⟨d, Finset.mem_range.1 hd, sub_eq_zero.1 h0⟩

/-- the sum constraint on a row carrying the generator's digits, WITHOUT the contract `s < b^l` -/
theorem baseSum_gen_con0 (b l s : Nat) (v : EvalVars K) (h0 : v.wires[0]! = (s : K))
    (hl : ∀ i, i < l → v.wires[1 + i]! = (((s / b ^ i) % b : ℕ) : K)) :
    con (.baseSum b l) v 0 = ((s % b ^ l : ℕ) : K) - (s : K) := by
  rw [baseSum_con0, h0, ← sum_digits_eq_mod, Nat.cast_sum]
  congr 1
  apply Finset.sum_congr rfl
  intro i hi
  rw [hl i (Finset.mem_range.1 hi), Nat.cast_mul, Nat.cast_pow]

/-- the range checks hold on a row carrying the generator's digits (needs `0 < b` only through
`% b < b`; for `b = 0` and `l > 0` the product is the empty product `1`) -/
theorem baseSum_gen_con_succ (b l s : Nat) (hb : 0 < b) (v : EvalVars K)
    (hl : ∀ i, i < l → v.wires[1 + i]! = (((s / b ^ i) % b : ℕ) : K)) (i : Nat) (hi : i < l) :
    con (.baseSum b l) v (1 + i) = 0 := by
  rw [baseSum_con_succ _ _ _ _ hi, hl i hi]
  exact rangeCheck_natCast _ _ (Nat.mod_lt _ hb)

/-- (a) `BaseSplitGenerator`'s row satisfies every constraint, in any characteristic, under the
gate's contract `s < b^l` -/
theorem baseSum_gen_sat (b l s : Nat) (hs : s < b ^ l) (v : EvalVars K)
    (h0 : v.wires[0]! = (s : K))
    (hl : ∀ i, i < l → v.wires[1 + i]! = (((s / b ^ i) % b : ℕ) : K)) :
    Sat (.baseSum b l) v := by
  rw [sat_iff_con]
  intro j
  rcases Nat.eq_zero_or_pos j with rfl | hj
  · rw [baseSum_gen_con0 b l s v h0 hl, Nat.mod_eq_of_lt hs, sub_self]
  · obtain ⟨i, rfl⟩ : ∃ i, j = 1 + i := ⟨j - 1, by omega⟩
    by_cases hi : i < l
    · have hb : 0 < b := by
        rcases Nat.eq_zero_or_pos b with rfl | hb
        · rw [Nat.zero_pow (by omega)] at hs; omega
        · exact hb
      exact baseSum_gen_con_succ b l s hb v hl i hi
    · exact baseSum_con_gt _ _ _ _ (by omega)

/-! ## (b) pinning of the limb wires by the sum constraint -/

/-- the sum constraint is affine in limb `i` with coefficient `b^i` -/
theorem baseSum_con0_diff (b l : Nat) (v v' : EvalVars K) (i : Nat) (hi : i < l)
    (hd : DiffersOnlyAt v v' (1 + i)) :
    con (.baseSum b l) v' 0 - con (.baseSum b l) v 0
      = (v'.wires[1 + i]! - v.wires[1 + i]!) * (b : K) ^ i := by
  rw [baseSum_con0, baseSum_con0, hd.same 0 (by omega)]
  have key : ∑ j ∈ Finset.range l, (v'.wires[1 + j]! * (b : K) ^ j - v.wires[1 + j]! * (b : K) ^ j)
      = (v'.wires[1 + i]! - v.wires[1 + i]!) * (b : K) ^ i := by
    rw [Finset.sum_eq_single i]
    · ring
    · intro j _ hj
      rw [hd.same (1 + j) (by omega), sub_self]
    · intro h
      exact absurd (Finset.mem_range.2 hi) h
  rw [Finset.sum_sub_distrib] at key
  linear_combination key

/-- (b) changing limb wire `1+i` of a row on which the sum constraint (index 0) vanishes makes it
non-zero, PROVIDED `(b : K)^i ≠ 0` -/
theorem baseSum_pinned (b l : Nat) (v v' : EvalVars K) (i : Nat) (hi : i < l)
    (hb : (b : K) ^ i ≠ 0)
    (hd : DiffersOnlyAt v v' (1 + i)) (h0 : con (.baseSum b l) v 0 = 0) :
    con (.baseSum b l) v' 0 ≠ 0 := by
  have h := baseSum_con0_diff b l v v' i hi hd
  rw [h0, sub_zero] at h
  rw [h]
  exact mul_ne_zero (sub_ne_zero.2 hd.diff) hb

/-- the side condition in the form `(b : K) ≠ 0 ∨ i = 0` -/
theorem baseSum_pinned' (b l : Nat) (v v' : EvalVars K) (i : Nat) (hi : i < l)
    (hb : (b : K) ≠ 0 ∨ i = 0)
    (hd : DiffersOnlyAt v v' (1 + i)) (h0 : con (.baseSum b l) v 0 = 0) :
    con (.baseSum b l) v' 0 ≠ 0 := by
  apply baseSum_pinned b l v v' i hi _ hd h0
  rcases hb with hb | rfl
  · exact pow_ne_zero _ hb
  · rw [pow_zero]; exact one_ne_zero

/-- the side condition is necessary: when `(b : K)^i = 0` (the characteristic divides `b`, `i > 0`)
the sum constraint does not see limb `i` at all -/
theorem baseSum_con0_blind (b l : Nat) (v v' : EvalVars K) (i : Nat) (hi : i < l)
    (hb : (b : K) ^ i = 0) (hd : DiffersOnlyAt v v' (1 + i)) :
    con (.baseSum b l) v' 0 = con (.baseSum b l) v 0 := by
  have h := baseSum_con0_diff b l v v' i hi hd
  rw [hb, mul_zero, sub_eq_zero] at h
  exact h

/-! ## (c) the other constraints -/

/-- (c) the range checks of the other limbs do not read wire `1+i` -/
theorem baseSum_others (b l : Nat) (v v' : EvalVars K) (i : Nat)
    (hd : DiffersOnlyAt v v' (1 + i)) (j : Nat) (hj : j ≠ i) :
    con (.baseSum b l) v' (1 + j) = con (.baseSum b l) v (1 + j) := by
  rw [baseSum_con_succ', baseSum_con_succ', hd.same (1 + j) (by omega)]

/-! ## uniqueness: a satisfying row carries exactly the digits -/

/-- a sum of in-range digits is below `b^l` and its digits are the given ones -/
theorem digits_of_sum (b l : Nat) (d : Nat → Nat) (hd : ∀ j, j < l → d j < b) :
    (∑ j ∈ Finset.range l, d j * b ^ j) < b ^ l ∧
      ∀ i, i < l → (∑ j ∈ Finset.range l, d j * b ^ j) / b ^ i % b = d i := by
  induction l with
  | zero => simp
  | succ l ih =>
    obtain ⟨ihlt, ihd⟩ := ih (fun j hj => hd j (by omega))
    have hdl : d l < b := hd l (by omega)
    have hbpos : 0 < b ^ l := Nat.pow_pos (by omega)
    rw [Finset.sum_range_succ]
    constructor
    · calc (∑ j ∈ Finset.range l, d j * b ^ j) + d l * b ^ l < b ^ l + d l * b ^ l := by omega
        _ = (d l + 1) * b ^ l := by ring
        _ ≤ b * b ^ l := Nat.mul_le_mul_right _ hdl
        _ = b ^ (l + 1) := by ring
    · intro i hi
      by_cases hil : i < l
      · rw [← Nat.mod_mul_right_div_self]
        have hdvd : b ^ i * b ∣ d l * b ^ l := by
          rw [← pow_succ]
          exact Dvd.dvd.mul_left (pow_dvd_pow b (by omega)) _
        obtain ⟨c, hc⟩ := hdvd
        rw [hc, Nat.add_mul_mod_self_left, Nat.mod_mul_right_div_self]
        exact ihd i hil
      · have : i = l := by omega
        subst this
        rw [Nat.add_mul_div_right _ _ hbpos, Nat.div_eq_of_lt ihlt, Nat.zero_add,
          Nat.mod_eq_of_lt hdl]

/-- uniqueness (the strongest form of (b), no condition on `b` itself): if `Nat.cast` is injective
on `[0, b^l)` then on a satisfying row whose sum wire is `(s : K)` with `s < b^l` every limb wire IS
the generator's digit -/
theorem baseSum_sat_unique (b l s : Nat) (hs : s < b ^ l)
    (hinj : ∀ m n, m < b ^ l → n < b ^ l → (m : K) = (n : K) → m = n)
    (v : EvalVars K) (hsat : Sat (.baseSum b l) v) (h0 : v.wires[0]! = (s : K)) :
    ∀ i, i < l → v.wires[1 + i]! = (((s / b ^ i) % b : ℕ) : K) := by
  rw [sat_iff_con] at hsat
  have hroot : ∀ i, i < l → ∃ d, d < b ∧ v.wires[1 + i]! = (d : K) := fun i hi =>
    rangeCheck_root b _ (by rw [← baseSum_con_succ _ _ _ _ hi]; exact hsat _)
  choose! d hd using hroot
  obtain ⟨hlt, hdig⟩ := digits_of_sum b l d (fun j hj => (hd j hj).1)
  have hsum : ((∑ j ∈ Finset.range l, d j * b ^ j : ℕ) : K) = (s : K) := by
    have h := hsat 0
    rw [baseSum_con0, h0, sub_eq_zero] at h
    rw [← h, Nat.cast_sum]
    apply Finset.sum_congr rfl
    intro j hj
    rw [(hd j (Finset.mem_range.1 hj)).2, Nat.cast_mul, Nat.cast_pow]
  have hN := hinj _ _ hlt hs hsum
  intro i hi
  rw [(hd i hi).2, ← hN, hdig i hi]

/-- under the same injectivity hypothesis: a row differing from a satisfying row (with in-range
sum) in one limb wire only does not satisfy the gate -/
theorem baseSum_pinned_sat (b l s : Nat) (hs : s < b ^ l)
    (hinj : ∀ m n, m < b ^ l → n < b ^ l → (m : K) = (n : K) → m = n)
    (v v' : EvalVars K) (i : Nat) (hi : i < l) (hd : DiffersOnlyAt v v' (1 + i))
    (hsat : Sat (.baseSum b l) v) (h0 : v.wires[0]! = (s : K)) :
    ¬ Sat (.baseSum b l) v' := by
  intro hsat'
  apply hd.diff
  rw [baseSum_sat_unique b l s hs hinj v hsat h0 i hi,
    baseSum_sat_unique b l s hs hinj v' hsat' (by rw [hd.same 0 (by omega), h0]) i hi]

/-- the injectivity hypothesis of `baseSum_sat_unique` holds when the characteristic is `0` or at
least `b^l` -/
theorem natCast_inj_of_charP (p : Nat) [CharP K p] (N : Nat) (hN : N ≤ p ∨ p = 0) :
    ∀ m n, m < N → n < N → (m : K) = (n : K) → m = n := by
  intro m n hm hn h
  rw [CharP.natCast_eq_natCast K p] at h
  unfold Nat.ModEq at h
  rcases hN with hN | rfl
  · rwa [Nat.mod_eq_of_lt (by omega), Nat.mod_eq_of_lt (by omega)] at h
  · simpa [Nat.mod_zero] using h

/-! ## the side condition of `baseSum_pinned` is necessary: a counterexample in characteristic 2 -/

section Counterexample

/-- base 2, two limbs, over `ZMod 2`: sum wire 0, limbs `(0, 0)` -/
def cexRow : EvalVars (ZMod 2) := ⟨#[], #[0, 0, 0], #[]⟩
/-- the same row with limb 1 changed to `1` (it "represents" `2 = 0`) -/
def cexRow' : EvalVars (ZMod 2) := ⟨#[], #[0, 0, 1], #[]⟩

theorem cex_differs : DiffersOnlyAt cexRow cexRow' (1 + 1) where
  constants := rfl
  pih := rfl
  same := by
    intro j hj
    match j, hj with
    | 0, _ => rfl
    | 1, _ => rfl
    | 2, h => exact absurd rfl h
    | j + 3, _ => simp [cexRow, cexRow']
  diff := by decide

theorem cex_sat : Sat (.baseSum 2 2) cexRow := by
  unfold Sat; decide

theorem cex_sat' : Sat (.baseSum 2 2) cexRow' := by
  unfold Sat; decide

/-- without `(b : K)^i ≠ 0`, (b) FAILS: two rows differing only in limb wire 2, both satisfying
ALL constraints of `BaseSumGate<2>` with 2 limbs over a field of characteristic 2 (and both with
the in-contract sum `0 < 2^2`) -/
theorem baseSum_pinned_needs_side_condition :
    ∃ v v' : EvalVars (ZMod 2), DiffersOnlyAt v v' (1 + 1) ∧ v.wires[0]! = ((0 : ℕ) : ZMod 2) ∧
      Sat (.baseSum 2 2) v ∧ Sat (.baseSum 2 2) v' :=
  ⟨cexRow, cexRow', cex_differs, rfl, cex_sat, cex_sat'⟩

end Counterexample

end

/-! ## phase 2: the model's generator output satisfies the gate over `GL` -/

section Phase2

/-- the generator's loop: positions `1 .. n` receive `f 0 .. f (n-1)`, everything else (and the
size) is unchanged -/
theorem foldl_set!_range {α : Type} [Inhabited α] (n : Nat) (f : Nat → α) (ws : Array α)
    (hsz : 1 + n ≤ ws.size) :
    ((List.range n).foldl (fun ws i => ws.set! (1 + i) (f i)) ws).size = ws.size ∧
      ∀ j, ((List.range n).foldl (fun ws i => ws.set! (1 + i) (f i)) ws)[j]!
        = if 1 ≤ j ∧ j < 1 + n then f (j - 1) else ws[j]! := by
  induction n with
  | zero =>
    refine ⟨rfl, fun j => ?_⟩
    rw [if_neg (by omega)]
    rfl
  | succ n ih =>
    obtain ⟨ihs, ihg⟩ := ih (by omega)
    rw [List.range_succ, List.foldl_append, List.foldl_cons, List.foldl_nil]
    refine ⟨by rw [size_set!, ihs], fun j => ?_⟩
    rw [getElem!_set!, ihg j, ihs]
    by_cases hj : j = 1 + n
    · subst hj
      rw [if_pos ⟨rfl, by omega⟩, if_pos ⟨by omega, by omega⟩]
      congr 1
      omega
    · rw [if_neg (fun h => hj h.1)]
      by_cases h2 : 1 ≤ j ∧ j < 1 + n
      · rw [if_pos h2, if_pos ⟨h2.1, by omega⟩]
      · rw [if_neg h2, if_neg (by omega)]

attribute [local instance] glField

/-- what `BaseSplitGenerator` (the model's `generate`) leaves on the row: the sum wire is the padded
input's wire 0, limb wire `1+i` holds digit `i` of its canonical value -/
theorem generate_baseSum (b l : Nat) (consts wires : Array P2.GL) :
    ((GateKind.baseSum b l).generate consts wires)[0]!
        = (wires ++ Array.replicate (1 + l - wires.size) 0)[0]! ∧
      ∀ i, i < l → ((GateKind.baseSum b l).generate consts wires)[1 + i]!
        = GL.ofNat (((wires ++ Array.replicate (1 + l - wires.size) 0)[0]!).val / b ^ i % b) := by
  simp only [GateKind.generate, GateKind.numWires]
  have hsz : 1 + l ≤ (wires ++ Array.replicate (1 + l - wires.size) (0 : P2.GL)).size := by
    rw [Array.size_append, Array.size_replicate]; omega
  obtain ⟨_, hg⟩ := foldl_set!_range l
    (fun i => GL.ofNat (((wires ++ Array.replicate (1 + l - wires.size) 0)[0]!).val / b ^ i % b))
    _ hsz
  constructor
  · rw [hg 0, if_neg (by omega)]
  · intro i hi
    rw [hg (1 + i), if_pos ⟨by omega, by omega⟩]
    simp only [Nat.add_sub_cancel_left]

/-- phase 2: under the gate's contract (the canonical value of the sum wire is below `b^l`) the
generated row satisfies every constraint of the executable evaluator over `GL` -/
theorem baseSum_generate_sat (b l : Nat) (consts wires pih : Array P2.GL)
    (hs : ((wires ++ Array.replicate (1 + l - wires.size) 0)[0]!).val < b ^ l) :
    ∀ c ∈ (GateKind.baseSum b l).evalUnfiltered (genRow (.baseSum b l) consts wires pih), c = 0 := by
  rw [evalGL_baseSum]
  obtain ⟨h0, hl⟩ := generate_baseSum b l consts wires
  refine baseSum_gen_sat b l _ hs _ ?_ ?_
  · show ((GateKind.baseSum b l).generate consts wires)[0]! = _
    rw [h0]
    exact (ZMod.natCast_zmod_val (n := GLP) _).symm
  · intro i hi
    show ((GateKind.baseSum b l).generate consts wires)[1 + i]! = _
    rw [hl i hi]
    rfl

/-- the same with a non-empty input row: the contract reads `wires[0].val < b^l` -/
theorem baseSum_generate_sat' (b l : Nat) (consts wires pih : Array P2.GL) (hw : 0 < wires.size)
    (hs : (wires[0]!).val < b ^ l) :
    ∀ c ∈ (GateKind.baseSum b l).evalUnfiltered (genRow (.baseSum b l) consts wires pih), c = 0 := by
  apply baseSum_generate_sat
  have : (wires ++ Array.replicate (1 + l - wires.size) (0 : P2.GL))[0]! = wires[0]! := by
    simp only [getElem!_def, Array.getElem?_append_left hw]
  rw [this]
  exact hs

/-- uniqueness over `GL`: when `b^l ≤ p` (no wrap-around) a satisfying row whose sum wire has
canonical value `< b^l` carries exactly the generator's digits -/
theorem baseSum_sat_unique_GL (b l : Nat) (hbl : b ^ l ≤ GLP) (v : EvalVars P2.GL)
    (hs : (v.wires[0]!).val < b ^ l) (hsat : Sat (.baseSum b l) v) :
    ∀ i, i < l → v.wires[1 + i]! = ((((v.wires[0]!).val / b ^ i) % b : ℕ) : P2.GL) := by
  have : CharP P2.GL GLP := ZMod.charP GLP
  exact baseSum_sat_unique b l _ hs (natCast_inj_of_charP GLP (b ^ l) (Or.inl hbl)) v hsat
    (ZMod.natCast_zmod_val (n := GLP) _).symm

/-- non-vacuity: `5 = 1 + 0·2 + 1·4` with three binary limbs -/
example : ∀ c ∈ (GateKind.baseSum 2 3).evalUnfiltered (genRow (.baseSum 2 3) #[] #[5] #[]), c = 0 :=
  baseSum_generate_sat' 2 3 _ _ _ (by decide) (by decide)

end Phase2
end P2.Lemmas.C07
