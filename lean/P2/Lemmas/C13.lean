/-
C13 helper lemmas: L0 word-arithmetic specifications (`reduce96`, `reduce128`, `glAdd`, `glMul`, …),
linearity of the frequency-domain MDS product, the Goldilocks `mds_layer` recombination, S-box and
constant layer, the native/recursive challenger simulation, and the `x^7` permutation over `ZMod P`.
-/
import P2.Model.PoseidonFast
import P2.Model.Challenger
import P2.Props.C13Gen
import Mathlib.Tactic.Ring
import Mathlib.Tactic.IntervalCases
import Mathlib.FieldTheory.Finite.Basic
namespace P2.Lemmas.C13
open P2 P2.L0 P2.PoseidonFast


/-! ### frequency-domain product = circulant (linearity) -/
theorem b1_0 : b1 0 = 16 := by decide
theorem b1_1 : b1 1 = 32 := by decide
theorem b1_2 : b1 2 = 16 := by decide
theorem b2_00 : b2 0 0 = 2 := by decide
theorem b2_01 : b2 0 1 = -1 := by decide
theorem b2_10 : b2 1 0 = -4 := by decide
theorem b2_11 : b2 1 1 = 1 := by decide
theorem b2_20 : b2 2 0 = 16 := by decide
theorem b2_21 : b2 2 1 = 1 := by decide
theorem b3_0 : b3 0 = -1 := by decide
theorem b3_1 : b3 1 = -8 := by decide
theorem b3_2 : b3 2 = 2 := by decide

theorem circulant_unfold (s0 s1 s2 s3 s4 s5 s6 s7 s8 s9 s10 s11 : Int) :
   (List.range 12).map (circulant #[s0,s1,s2,s3,s4,s5,s6,s7,s8,s9,s10,s11]) =
   [17*s0 + 15*s1 + 41*s2 + 16*s3 + 2*s4 + 28*s5 + 13*s6 + 13*s7 + 39*s8 + 18*s9 + 34*s10 + 20*s11,
    17*s1 + 15*s2 + 41*s3 + 16*s4 + 2*s5 + 28*s6 + 13*s7 + 13*s8 + 39*s9 + 18*s10 + 34*s11 + 20*s0,
    17*s2 + 15*s3 + 41*s4 + 16*s5 + 2*s6 + 28*s7 + 13*s8 + 13*s9 + 39*s10 + 18*s11 + 34*s0 + 20*s1,
    17*s3 + 15*s4 + 41*s5 + 16*s6 + 2*s7 + 28*s8 + 13*s9 + 13*s10 + 39*s11 + 18*s0 + 34*s1 + 20*s2,
    17*s4 + 15*s5 + 41*s6 + 16*s7 + 2*s8 + 28*s9 + 13*s10 + 13*s11 + 39*s0 + 18*s1 + 34*s2 + 20*s3,
    17*s5 + 15*s6 + 41*s7 + 16*s8 + 2*s9 + 28*s10 + 13*s11 + 13*s0 + 39*s1 + 18*s2 + 34*s3 + 20*s4,
    17*s6 + 15*s7 + 41*s8 + 16*s9 + 2*s10 + 28*s11 + 13*s0 + 13*s1 + 39*s2 + 18*s3 + 34*s4 + 20*s5,
    17*s7 + 15*s8 + 41*s9 + 16*s10 + 2*s11 + 28*s0 + 13*s1 + 13*s2 + 39*s3 + 18*s4 + 34*s5 + 20*s6,
    17*s8 + 15*s9 + 41*s10 + 16*s11 + 2*s0 + 28*s1 + 13*s2 + 13*s3 + 39*s4 + 18*s5 + 34*s6 + 20*s7,
    17*s9 + 15*s10 + 41*s11 + 16*s0 + 2*s1 + 28*s2 + 13*s3 + 13*s4 + 39*s5 + 18*s6 + 34*s7 + 20*s8,
    17*s10 + 15*s11 + 41*s0 + 16*s1 + 2*s2 + 28*s3 + 13*s4 + 13*s5 + 39*s6 + 18*s7 + 34*s8 + 20*s9,
    17*s11 + 15*s0 + 41*s1 + 16*s2 + 2*s3 + 28*s4 + 13*s5 + 13*s6 + 39*s7 + 18*s8 + 34*s9 + 20*s10] := by
  simp [circulant, circ, Gen.MDS_MATRIX_CIRC, List.range, List.range.loop]


theorem mdsFreq_unfold (s0 s1 s2 s3 s4 s5 s6 s7 s8 s9 s10 s11 : Int) :
   mdsMultiplyFreq #[s0,s1,s2,s3,s4,s5,s6,s7,s8,s9,s10,s11] =
   [17*s0 + 15*s1 + 41*s2 + 16*s3 + 2*s4 + 28*s5 + 13*s6 + 13*s7 + 39*s8 + 18*s9 + 34*s10 + 20*s11,
    17*s1 + 15*s2 + 41*s3 + 16*s4 + 2*s5 + 28*s6 + 13*s7 + 13*s8 + 39*s9 + 18*s10 + 34*s11 + 20*s0,
    17*s2 + 15*s3 + 41*s4 + 16*s5 + 2*s6 + 28*s7 + 13*s8 + 13*s9 + 39*s10 + 18*s11 + 34*s0 + 20*s1,
    17*s3 + 15*s4 + 41*s5 + 16*s6 + 2*s7 + 28*s8 + 13*s9 + 13*s10 + 39*s11 + 18*s0 + 34*s1 + 20*s2,
    17*s4 + 15*s5 + 41*s6 + 16*s7 + 2*s8 + 28*s9 + 13*s10 + 13*s11 + 39*s0 + 18*s1 + 34*s2 + 20*s3,
    17*s5 + 15*s6 + 41*s7 + 16*s8 + 2*s9 + 28*s10 + 13*s11 + 13*s0 + 39*s1 + 18*s2 + 34*s3 + 20*s4,
    17*s6 + 15*s7 + 41*s8 + 16*s9 + 2*s10 + 28*s11 + 13*s0 + 13*s1 + 39*s2 + 18*s3 + 34*s4 + 20*s5,
    17*s7 + 15*s8 + 41*s9 + 16*s10 + 2*s11 + 28*s0 + 13*s1 + 13*s2 + 39*s3 + 18*s4 + 34*s5 + 20*s6,
    17*s8 + 15*s9 + 41*s10 + 16*s11 + 2*s0 + 28*s1 + 13*s2 + 13*s3 + 39*s4 + 18*s5 + 34*s6 + 20*s7,
    17*s9 + 15*s10 + 41*s11 + 16*s0 + 2*s1 + 28*s2 + 13*s3 + 13*s4 + 39*s5 + 18*s6 + 34*s7 + 20*s8,
    17*s10 + 15*s11 + 41*s0 + 16*s1 + 2*s2 + 28*s3 + 13*s4 + 13*s5 + 39*s6 + 18*s7 + 34*s8 + 20*s9,
    17*s11 + 15*s0 + 41*s1 + 16*s2 + 2*s3 + 28*s4 + 13*s5 + 13*s6 + 39*s7 + 18*s8 + 34*s9 + 20*s10] := by
  simp only [mdsMultiplyFreq, fft4, ifft4, block1, block2, block3, b1_0, b1_1, b1_2, b2_00, b2_01, b2_10,
    b2_11, b2_20, b2_21, b3_0, b3_1, b3_2]
  simp only [List.cons.injEq, and_true]
  simp
  refine ⟨?_, ?_, ?_, ?_, ?_, ?_, ?_, ?_, ?_, ?_, ?_, ?_⟩ <;> ring

/-! ### L0 word arithmetic -/
theorem addNoCanon_spec (x y : Nat) (hx : x < W64) (hy : y < W64) (h : x + y < W64 + P) :
    (addNoCanon x y).trap = false ∧ (addNoCanon x y).val < W64 ∧
    (addNoCanon x y).val % P = (x + y) % P := by
  simp only [W64, P] at hx hy h
  simp only [addNoCanon, oadd64, cadd64, W64, EPS, P]
  by_cases hc : 18446744073709551616 ≤ x + y
  · simp only [hc, decide_true, if_true, decide_eq_false_iff_not]
    omega
  · simp only [hc, decide_false, Bool.false_eq_true, if_false, decide_eq_false_iff_not]
    omega

theorem addCanonicalU64_spec (a c : Nat) (ha : a < W64) (hc : c < P) :
    (addCanonicalU64 a c).trap = false ∧ (addCanonicalU64 a c).val < W64 ∧
    (addCanonicalU64 a c).val % P = (a + c) % P := by
  have := addNoCanon_spec a c ha (by simp only [W64, P] at *; omega) (by simp only [W64, P] at *; omega)
  exact this

theorem reduce96_spec (xlo xhi : Nat) (h1 : xlo < W64) (h2 : xhi < W32) :
    (reduce96 xlo xhi).trap = false ∧ (reduce96 xlo xhi).val < W64 ∧
    (reduce96 xlo xhi).val % P = (xlo + xhi * W64) % P := by
  have ht : xhi * EPS < W64 := by simp only [W64, W32, EPS] at *; omega
  have := addNoCanon_spec xlo (xhi * EPS) h1 ht (by simp only [W64, W32, EPS, P] at *; omega)
  simp only [reduce96, Nat.mod_eq_of_lt ht]
  refine ⟨?_, this.2.1, ?_⟩
  · simp only [this.1, Bool.false_or, decide_eq_false_iff_not]; omega
  · rw [this.2.2]; simp only [W64, W32, EPS, P] at *; omega

theorem glAdd_spec (a b : Nat) (ha : a < W64) (hb : b < W64) :
    (glAdd a b).trap = false ∧ (glAdd a b).val < W64 ∧ (glAdd a b).val % P = (a + b) % P := by
  simp only [W64] at ha hb
  simp only [glAdd, oadd64, cadd64, W64, EPS, P]
  by_cases hc : 18446744073709551616 ≤ a + b
  · simp only [hc, decide_true, if_true]
    by_cases hd : 18446744073709551616 ≤ (a + b) % 18446744073709551616 + 4294967295
    · have h1 : 18446744069414584321 < a := by omega
      have h2 : 18446744069414584321 < b := by omega
      have h3 : ¬ 18446744073709551616 ≤
          ((a + b) % 18446744073709551616 + 4294967295) % 18446744073709551616 + 4294967295 := by
        omega
      simp only [hd, h1, h2, h3, decide_true, decide_false, if_true, Bool.and_self, Bool.not_true,
        Bool.or_self, true_and]
      omega
    · simp only [hd, decide_false, Bool.false_eq_true, if_false, true_and]
      omega
  · simp only [hc, decide_false, Bool.false_eq_true, if_false, Nat.add_zero]
    have hd : ¬ 18446744073709551616 ≤ (a + b) % 18446744073709551616 := by omega
    simp only [hd, decide_false, Bool.false_eq_true, if_false, true_and]
    omega

theorem r128_t0 (xlo xhihi : Nat) (h1 : xlo < W64) (h2 : xhihi < W32) :
    let b := osub64 xlo xhihi
    let t0 : Res := if b.2 then csub64 b.1 EPS else ⟨b.1, false⟩
    t0.trap = false ∧ t0.val < W64 ∧ (t0.val + xhihi) % P = xlo % P := by
  simp only [W64, W32] at h1 h2
  simp only [osub64, csub64, W64, EPS, P]
  by_cases hc : xhihi ≤ xlo
  · simp only [hc, if_true, Bool.false_eq_true, if_false, true_and]
    omega
  · have h3 : 4294967295 ≤ xlo + 18446744073709551616 - xhihi := by omega
    simp only [hc, if_false, if_true, h3, true_and]
    omega

theorem r128_final (t0 xlo xhilo xhihi r x : Nat)
    (h0 : (t0 + xhihi) % 18446744069414584321 = xlo % 18446744069414584321)
    (hr : r % 18446744069414584321 = (t0 + xhilo * 4294967295) % 18446744069414584321)
    (hx : x = xlo + 18446744073709551616 * (xhilo + 4294967296 * xhihi)) :
    r % 18446744069414584321 = x % 18446744069414584321 := by
  omega

theorem reduce128_spec (x : Nat) (hx : x < W128) :
    (reduce128 x).trap = false ∧ (reduce128 x).val < W64 ∧ (reduce128 x).val % P = x % P := by
  have hlo : x % W64 < W64 := Nat.mod_lt _ (by decide)
  have hhh : x / W64 / W32 < W32 := by simp only [W128, W64, W32] at *; omega
  have hhl : x / W64 % W32 < W32 := Nat.mod_lt _ (by decide)
  have ht : x / W64 % W32 * EPS < W64 := by simp only [W64, W32, EPS] at *; omega
  obtain ⟨a1, a2, a3⟩ := r128_t0 (x % W64) (x / W64 / W32) hlo hhh
  simp only [reduce128, Nat.mod_eq_of_lt ht]
  generalize (if (osub64 (x % W64) (x / W64 / W32)).2 = true then
    csub64 (osub64 (x % W64) (x / W64 / W32)).1 EPS
    else ({ val := (osub64 (x % W64) (x / W64 / W32)).1, trap := false } : Res)) = t0 at a1 a2 a3 ⊢
  obtain ⟨b1, b2, b3⟩ := addNoCanon_spec t0.val (x / W64 % W32 * EPS) a2 ht
    (by simp only [W64, W32, EPS, P] at *; omega)
  refine ⟨?_, b2, ?_⟩
  · simp only [a1, b1, Bool.false_or, Bool.or_false, decide_eq_false_iff_not]; omega
  · simp only [W64, W32, EPS, P] at *
    exact r128_final t0.val (x % 18446744073709551616) (x / 18446744073709551616 % 4294967296)
      (x / 18446744073709551616 / 4294967296) _ x a3 b3 (by omega)

theorem glMul_spec (a b : Nat) (ha : a < W64) (hb : b < W64) :
    (glMul a b).trap = false ∧ (glMul a b).val < W64 ∧ (glMul a b).val % P = (a * b) % P := by
  have h : a * b < W128 := by
    have : a * b < W64 * W64 := Nat.mul_lt_mul'' ha hb
    simpa [W64, W128] using this
  exact reduce128_spec _ h

theorem glSquare_spec (a : Nat) (ha : a < W64) :
    (glSquare a).trap = false ∧ (glSquare a).val < W64 ∧ (glSquare a).val % P = (a * a) % P :=
  glMul_spec a a ha ha

/-! ### Goldilocks `mds_layer` -/
/-- one output row of the Goldilocks `mds_layer` recombination -/
def mdsRow (l h : Int) : Nat × Bool :=
  let v : Nat := l.toNat + h.toNat * W32
  let rr := reduce96 (v % W64) ((v / W64) % W32)
  (rr.val, rr.trap || decide (W32 ≤ v / W64))

def mdsLayerCore (mh ml : List Int) (z : Nat) : RS :=
  let okRange := (mh ++ ml).all fun x => decide (0 ≤ x) && decide (x < (W64 : Int))
  let rows := (List.range 12).map fun r => mdsRow ml[r]! mh[r]!
  let s0 := diag 0 * z
  let d0 := reduce96 (s0 % W64) ((s0 / W64) % W32)
  let r0 := glAdd (rows[0]!).1 d0.val
  let vals := (rows.map (·.1)).toArray.set! 0 r0.val
  ⟨vals, rows.any (·.2) || !okRange || d0.trap || r0.trap || decide (W32 ≤ s0 / W64)⟩

theorem mdsLayer_eq_core (s : Array Nat) :
    mdsLayer s = mdsLayerCore (mdsMultiplyFreq (s.map fun x => ((x / W32 : Nat) : Int)))
      (mdsMultiplyFreq (s.map fun x => ((x % W32 : Nat) : Int))) s[0]! := rfl

theorem mdsRow_spec (L H : Nat) (hL : L < 1099511627776) (hH : H < 1099511627776) :
    (mdsRow L H).2 = false ∧ (mdsRow L H).1 < W64 ∧ (mdsRow L H).1 % P = (L + H * W32) % P := by
  simp only [mdsRow, Int.toNat_natCast]
  have hv : (L + H * W32) / W64 < W32 := by simp only [W64, W32]; omega
  obtain ⟨a1, a2, a3⟩ := reduce96_spec ((L + H * W32) % W64) ((L + H * W32) / W64 % W32)
    (Nat.mod_lt _ (by decide)) (Nat.mod_lt _ (by decide))
  refine ⟨?_, a2, ?_⟩
  · simp only [a1, Bool.false_or, decide_eq_false_iff_not]; omega
  · rw [a3, Nat.mod_eq_of_lt hv, Nat.mod_add_div']

theorem diag0 : diag 0 = 8 := by decide

theorem mdsLayerCore_spec (H0 H1 H2 H3 H4 H5 H6 H7 H8 H9 H10 H11 L0 L1 L2 L3 L4 L5 L6 L7 L8 L9 L10 L11 z : Nat)
    (hH0 : H0 < 1099511627776) (hH1 : H1 < 1099511627776) (hH2 : H2 < 1099511627776)
    (hH3 : H3 < 1099511627776) (hH4 : H4 < 1099511627776) (hH5 : H5 < 1099511627776)
    (hH6 : H6 < 1099511627776) (hH7 : H7 < 1099511627776) (hH8 : H8 < 1099511627776)
    (hH9 : H9 < 1099511627776) (hH10 : H10 < 1099511627776) (hH11 : H11 < 1099511627776)
    (hL0 : L0 < 1099511627776) (hL1 : L1 < 1099511627776) (hL2 : L2 < 1099511627776)
    (hL3 : L3 < 1099511627776) (hL4 : L4 < 1099511627776) (hL5 : L5 < 1099511627776)
    (hL6 : L6 < 1099511627776) (hL7 : L7 < 1099511627776) (hL8 : L8 < 1099511627776)
    (hL9 : L9 < 1099511627776) (hL10 : L10 < 1099511627776) (hL11 : L11 < 1099511627776)
    (hz : z < W64) :
    ∃ o0 o1 o2 o3 o4 o5 o6 o7 o8 o9 o10 o11 : Nat,
      mdsLayerCore [(H0:Int), H1, H2, H3, H4, H5, H6, H7, H8, H9, H10, H11]
        [(L0:Int), L1, L2, L3, L4, L5, L6, L7, L8, L9, L10, L11] z =
        ⟨#[o0, o1, o2, o3, o4, o5, o6, o7, o8, o9, o10, o11], false⟩ ∧
      (o0 < W64 ∧ o0 % P = (L0 + H0 * W32 + 8 * z) % P) ∧
      (o1 < W64 ∧ o1 % P = (L1 + H1 * W32) % P) ∧
      (o2 < W64 ∧ o2 % P = (L2 + H2 * W32) % P) ∧
      (o3 < W64 ∧ o3 % P = (L3 + H3 * W32) % P) ∧
      (o4 < W64 ∧ o4 % P = (L4 + H4 * W32) % P) ∧
      (o5 < W64 ∧ o5 % P = (L5 + H5 * W32) % P) ∧
      (o6 < W64 ∧ o6 % P = (L6 + H6 * W32) % P) ∧
      (o7 < W64 ∧ o7 % P = (L7 + H7 * W32) % P) ∧
      (o8 < W64 ∧ o8 % P = (L8 + H8 * W32) % P) ∧
      (o9 < W64 ∧ o9 % P = (L9 + H9 * W32) % P) ∧
      (o10 < W64 ∧ o10 % P = (L10 + H10 * W32) % P) ∧
      (o11 < W64 ∧ o11 % P = (L11 + H11 * W32) % P) := by
  obtain ⟨t0, b0, m0⟩ := mdsRow_spec L0 H0 hL0 hH0
  obtain ⟨t1, b1, m1⟩ := mdsRow_spec L1 H1 hL1 hH1
  obtain ⟨t2, b2, m2⟩ := mdsRow_spec L2 H2 hL2 hH2
  obtain ⟨t3, b3, m3⟩ := mdsRow_spec L3 H3 hL3 hH3
  obtain ⟨t4, b4, m4⟩ := mdsRow_spec L4 H4 hL4 hH4
  obtain ⟨t5, b5, m5⟩ := mdsRow_spec L5 H5 hL5 hH5
  obtain ⟨t6, b6, m6⟩ := mdsRow_spec L6 H6 hL6 hH6
  obtain ⟨t7, b7, m7⟩ := mdsRow_spec L7 H7 hL7 hH7
  obtain ⟨t8, b8, m8⟩ := mdsRow_spec L8 H8 hL8 hH8
  obtain ⟨t9, b9, m9⟩ := mdsRow_spec L9 H9 hL9 hH9
  obtain ⟨t10, b10, m10⟩ := mdsRow_spec L10 H10 hL10 hH10
  obtain ⟨t11, b11, m11⟩ := mdsRow_spec L11 H11 hL11 hH11
  have hs0 : 8 * z / W64 < W32 := by simp only [W64, W32] at *; omega
  obtain ⟨d1, d2, d3⟩ := reduce96_spec (8 * z % W64) (8 * z / W64 % W32)
    (Nat.mod_lt _ (by decide)) (Nat.mod_lt _ (by decide))
  have d3' : (reduce96 (8 * z % W64) (8 * z / W64 % W32)).val % P = 8 * z % P := by
    rw [d3, Nat.mod_eq_of_lt hs0, Nat.mod_add_div']
  obtain ⟨g1, g2, g3⟩ := glAdd_spec (mdsRow L0 H0).1
    (reduce96 (8 * z % W64) (8 * z / W64 % W32)).val b0 d2
  refine ⟨_, _, _, _, _, _, _, _, _, _, _, _, ?_, ⟨g2, ?_⟩, ⟨b1, m1⟩, ⟨b2, m2⟩, ⟨b3, m3⟩, ⟨b4, m4⟩,
    ⟨b5, m5⟩, ⟨b6, m6⟩, ⟨b7, m7⟩, ⟨b8, m8⟩, ⟨b9, m9⟩, ⟨b10, m10⟩, ⟨b11, m11⟩⟩
  · have hb : ∀ H : Nat, H < 1099511627776 → ((H : Int) < (W64 : Int)) := by
      intro H hH
      have : H < W64 := Nat.lt_trans hH (by decide)
      exact_mod_cast this
    have hrows : ((List.range 12).map fun r =>
        mdsRow [(L0:Int), L1, L2, L3, L4, L5, L6, L7, L8, L9, L10, L11][r]!
          [(H0:Int), H1, H2, H3, H4, H5, H6, H7, H8, H9, H10, H11][r]!) =
        [mdsRow L0 H0, mdsRow L1 H1, mdsRow L2 H2, mdsRow L3 H3, mdsRow L4 H4, mdsRow L5 H5,
         mdsRow L6 H6, mdsRow L7 H7, mdsRow L8 H8, mdsRow L9 H9, mdsRow L10 H10, mdsRow L11 H11] := rfl
    simp only [mdsLayerCore, hrows, diag0]
    simp [t0, t1, t2, t3, t4, t5, t6, t7, t8, t9, t10, t11, d1, g1, hs0, hb, hH0, hH1, hH2, hH3, hH4,
      hH5, hH6, hH7, hH8, hH9, hH10, hH11, hL0, hL1, hL2, hL3, hL4, hL5, hL6, hL7, hL8, hL9, hL10, hL11]
  · rw [g3, Nat.add_mod, m0, d3', ← Nat.add_mod]

theorem lin_cast (a0 a1 a2 a3 a4 a5 a6 a7 a8 a9 a10 a11 : Nat) :
    (17 * (a0:Int) + 15 * a1 + 41 * a2 + 16 * a3 + 2 * a4 + 28 * a5 + 13 * a6 + 13 * a7 + 39 * a8
      + 18 * a9 + 34 * a10 + 20 * a11) =
    ((17 * a0 + 15 * a1 + 41 * a2 + 16 * a3 + 2 * a4 + 28 * a5 + 13 * a6 + 13 * a7 + 39 * a8
      + 18 * a9 + 34 * a10 + 20 * a11 : Nat) : Int) := by
  push_cast; rfl

theorem lin_bound (a0 a1 a2 a3 a4 a5 a6 a7 a8 a9 a10 a11 : Nat)
    (h0 : a0 < 4294967296) (h1 : a1 < 4294967296) (h2 : a2 < 4294967296) (h3 : a3 < 4294967296)
    (h4 : a4 < 4294967296) (h5 : a5 < 4294967296) (h6 : a6 < 4294967296) (h7 : a7 < 4294967296)
    (h8 : a8 < 4294967296) (h9 : a9 < 4294967296) (h10 : a10 < 4294967296) (h11 : a11 < 4294967296) :
    17 * a0 + 15 * a1 + 41 * a2 + 16 * a3 + 2 * a4 + 28 * a5 + 13 * a6 + 13 * a7 + 39 * a8
      + 18 * a9 + 34 * a10 + 20 * a11 < 1099511627776 := by omega

theorem lin_recombine (a0 a1 a2 a3 a4 a5 a6 a7 a8 a9 a10 a11 : Nat) :
    (17 * (a0 % W32) + 15 * (a1 % W32) + 41 * (a2 % W32) + 16 * (a3 % W32) + 2 * (a4 % W32)
      + 28 * (a5 % W32) + 13 * (a6 % W32) + 13 * (a7 % W32) + 39 * (a8 % W32) + 18 * (a9 % W32)
      + 34 * (a10 % W32) + 20 * (a11 % W32)) +
    (17 * (a0 / W32) + 15 * (a1 / W32) + 41 * (a2 / W32) + 16 * (a3 / W32) + 2 * (a4 / W32)
      + 28 * (a5 / W32) + 13 * (a6 / W32) + 13 * (a7 / W32) + 39 * (a8 / W32) + 18 * (a9 / W32)
      + 34 * (a10 / W32) + 20 * (a11 / W32)) * W32 =
    17 * a0 + 15 * a1 + 41 * a2 + 16 * a3 + 2 * a4 + 28 * a5 + 13 * a6 + 13 * a7 + 39 * a8
      + 18 * a9 + 34 * a10 + 20 * a11 := by
  simp only [W32]; omega

theorem mdsLayer_explicit (s0 s1 s2 s3 s4 s5 s6 s7 s8 s9 s10 s11 : Nat)
    (h0 : s0 < W64) (h1 : s1 < W64) (h2 : s2 < W64) (h3 : s3 < W64) (h4 : s4 < W64) (h5 : s5 < W64) (h6 : s6 < W64) (h7 : s7 < W64) (h8 : s8 < W64) (h9 : s9 < W64) (h10 : s10 < W64) (h11 : s11 < W64) :
    ∃ o0 o1 o2 o3 o4 o5 o6 o7 o8 o9 o10 o11 : Nat,
      mdsLayer #[s0, s1, s2, s3, s4, s5, s6, s7, s8, s9, s10, s11] = ⟨#[o0, o1, o2, o3, o4, o5, o6, o7, o8, o9, o10, o11], false⟩ ∧
      (o0 < W64 ∧ o0 % P = (17 * s0 + 15 * s1 + 41 * s2 + 16 * s3 + 2 * s4 + 28 * s5 + 13 * s6 + 13 * s7 + 39 * s8 + 18 * s9 + 34 * s10 + 20 * s11 + 8 * s0) % P) ∧
      (o1 < W64 ∧ o1 % P = (17 * s1 + 15 * s2 + 41 * s3 + 16 * s4 + 2 * s5 + 28 * s6 + 13 * s7 + 13 * s8 + 39 * s9 + 18 * s10 + 34 * s11 + 20 * s0) % P) ∧
      (o2 < W64 ∧ o2 % P = (17 * s2 + 15 * s3 + 41 * s4 + 16 * s5 + 2 * s6 + 28 * s7 + 13 * s8 + 13 * s9 + 39 * s10 + 18 * s11 + 34 * s0 + 20 * s1) % P) ∧
      (o3 < W64 ∧ o3 % P = (17 * s3 + 15 * s4 + 41 * s5 + 16 * s6 + 2 * s7 + 28 * s8 + 13 * s9 + 13 * s10 + 39 * s11 + 18 * s0 + 34 * s1 + 20 * s2) % P) ∧
      (o4 < W64 ∧ o4 % P = (17 * s4 + 15 * s5 + 41 * s6 + 16 * s7 + 2 * s8 + 28 * s9 + 13 * s10 + 13 * s11 + 39 * s0 + 18 * s1 + 34 * s2 + 20 * s3) % P) ∧
      (o5 < W64 ∧ o5 % P = (17 * s5 + 15 * s6 + 41 * s7 + 16 * s8 + 2 * s9 + 28 * s10 + 13 * s11 + 13 * s0 + 39 * s1 + 18 * s2 + 34 * s3 + 20 * s4) % P) ∧
      (o6 < W64 ∧ o6 % P = (17 * s6 + 15 * s7 + 41 * s8 + 16 * s9 + 2 * s10 + 28 * s11 + 13 * s0 + 13 * s1 + 39 * s2 + 18 * s3 + 34 * s4 + 20 * s5) % P) ∧
      (o7 < W64 ∧ o7 % P = (17 * s7 + 15 * s8 + 41 * s9 + 16 * s10 + 2 * s11 + 28 * s0 + 13 * s1 + 13 * s2 + 39 * s3 + 18 * s4 + 34 * s5 + 20 * s6) % P) ∧
      (o8 < W64 ∧ o8 % P = (17 * s8 + 15 * s9 + 41 * s10 + 16 * s11 + 2 * s0 + 28 * s1 + 13 * s2 + 13 * s3 + 39 * s4 + 18 * s5 + 34 * s6 + 20 * s7) % P) ∧
      (o9 < W64 ∧ o9 % P = (17 * s9 + 15 * s10 + 41 * s11 + 16 * s0 + 2 * s1 + 28 * s2 + 13 * s3 + 13 * s4 + 39 * s5 + 18 * s6 + 34 * s7 + 20 * s8) % P) ∧
      (o10 < W64 ∧ o10 % P = (17 * s10 + 15 * s11 + 41 * s0 + 16 * s1 + 2 * s2 + 28 * s3 + 13 * s4 + 13 * s5 + 39 * s6 + 18 * s7 + 34 * s8 + 20 * s9) % P) ∧
      (o11 < W64 ∧ o11 % P = (17 * s11 + 15 * s0 + 41 * s1 + 16 * s2 + 2 * s3 + 28 * s4 + 13 * s5 + 13 * s6 + 39 * s7 + 18 * s8 + 34 * s9 + 20 * s10) % P) := by
  have hm : ∀ x : Nat, x % W32 < 4294967296 := fun x => Nat.mod_lt _ (by decide)
  have hd : ∀ x : Nat, x < W64 → x / W32 < 4294967296 := by
    intro x hx; simp only [W64, W32] at *; omega
  rw [mdsLayer_eq_core]
  simp only [List.map_toArray, List.map, mdsFreq_unfold, lin_cast]
  have hz : #[s0, s1, s2, s3, s4, s5, s6, s7, s8, s9, s10, s11][0]! = s0 := rfl
  rw [hz]
  obtain ⟨o0, o1, o2, o3, o4, o5, o6, o7, o8, o9, o10, o11, he, q0, q1, q2, q3, q4, q5, q6, q7, q8, q9,
    q10, q11⟩ := mdsLayerCore_spec
      (17 * (s0 / W32) + 15 * (s1 / W32) + 41 * (s2 / W32) + 16 * (s3 / W32) + 2 * (s4 / W32) + 28 * (s5 / W32) + 13 * (s6 / W32) + 13 * (s7 / W32) + 39 * (s8 / W32) + 18 * (s9 / W32) + 34 * (s10 / W32) + 20 * (s11 / W32))
      (17 * (s1 / W32) + 15 * (s2 / W32) + 41 * (s3 / W32) + 16 * (s4 / W32) + 2 * (s5 / W32) + 28 * (s6 / W32) + 13 * (s7 / W32) + 13 * (s8 / W32) + 39 * (s9 / W32) + 18 * (s10 / W32) + 34 * (s11 / W32) + 20 * (s0 / W32))
      (17 * (s2 / W32) + 15 * (s3 / W32) + 41 * (s4 / W32) + 16 * (s5 / W32) + 2 * (s6 / W32) + 28 * (s7 / W32) + 13 * (s8 / W32) + 13 * (s9 / W32) + 39 * (s10 / W32) + 18 * (s11 / W32) + 34 * (s0 / W32) + 20 * (s1 / W32))
      (17 * (s3 / W32) + 15 * (s4 / W32) + 41 * (s5 / W32) + 16 * (s6 / W32) + 2 * (s7 / W32) + 28 * (s8 / W32) + 13 * (s9 / W32) + 13 * (s10 / W32) + 39 * (s11 / W32) + 18 * (s0 / W32) + 34 * (s1 / W32) + 20 * (s2 / W32))
      (17 * (s4 / W32) + 15 * (s5 / W32) + 41 * (s6 / W32) + 16 * (s7 / W32) + 2 * (s8 / W32) + 28 * (s9 / W32) + 13 * (s10 / W32) + 13 * (s11 / W32) + 39 * (s0 / W32) + 18 * (s1 / W32) + 34 * (s2 / W32) + 20 * (s3 / W32))
      (17 * (s5 / W32) + 15 * (s6 / W32) + 41 * (s7 / W32) + 16 * (s8 / W32) + 2 * (s9 / W32) + 28 * (s10 / W32) + 13 * (s11 / W32) + 13 * (s0 / W32) + 39 * (s1 / W32) + 18 * (s2 / W32) + 34 * (s3 / W32) + 20 * (s4 / W32))
      (17 * (s6 / W32) + 15 * (s7 / W32) + 41 * (s8 / W32) + 16 * (s9 / W32) + 2 * (s10 / W32) + 28 * (s11 / W32) + 13 * (s0 / W32) + 13 * (s1 / W32) + 39 * (s2 / W32) + 18 * (s3 / W32) + 34 * (s4 / W32) + 20 * (s5 / W32))
      (17 * (s7 / W32) + 15 * (s8 / W32) + 41 * (s9 / W32) + 16 * (s10 / W32) + 2 * (s11 / W32) + 28 * (s0 / W32) + 13 * (s1 / W32) + 13 * (s2 / W32) + 39 * (s3 / W32) + 18 * (s4 / W32) + 34 * (s5 / W32) + 20 * (s6 / W32))
      (17 * (s8 / W32) + 15 * (s9 / W32) + 41 * (s10 / W32) + 16 * (s11 / W32) + 2 * (s0 / W32) + 28 * (s1 / W32) + 13 * (s2 / W32) + 13 * (s3 / W32) + 39 * (s4 / W32) + 18 * (s5 / W32) + 34 * (s6 / W32) + 20 * (s7 / W32))
      (17 * (s9 / W32) + 15 * (s10 / W32) + 41 * (s11 / W32) + 16 * (s0 / W32) + 2 * (s1 / W32) + 28 * (s2 / W32) + 13 * (s3 / W32) + 13 * (s4 / W32) + 39 * (s5 / W32) + 18 * (s6 / W32) + 34 * (s7 / W32) + 20 * (s8 / W32))
      (17 * (s10 / W32) + 15 * (s11 / W32) + 41 * (s0 / W32) + 16 * (s1 / W32) + 2 * (s2 / W32) + 28 * (s3 / W32) + 13 * (s4 / W32) + 13 * (s5 / W32) + 39 * (s6 / W32) + 18 * (s7 / W32) + 34 * (s8 / W32) + 20 * (s9 / W32))
      (17 * (s11 / W32) + 15 * (s0 / W32) + 41 * (s1 / W32) + 16 * (s2 / W32) + 2 * (s3 / W32) + 28 * (s4 / W32) + 13 * (s5 / W32) + 13 * (s6 / W32) + 39 * (s7 / W32) + 18 * (s8 / W32) + 34 * (s9 / W32) + 20 * (s10 / W32))
      (17 * (s0 % W32) + 15 * (s1 % W32) + 41 * (s2 % W32) + 16 * (s3 % W32) + 2 * (s4 % W32) + 28 * (s5 % W32) + 13 * (s6 % W32) + 13 * (s7 % W32) + 39 * (s8 % W32) + 18 * (s9 % W32) + 34 * (s10 % W32) + 20 * (s11 % W32))
      (17 * (s1 % W32) + 15 * (s2 % W32) + 41 * (s3 % W32) + 16 * (s4 % W32) + 2 * (s5 % W32) + 28 * (s6 % W32) + 13 * (s7 % W32) + 13 * (s8 % W32) + 39 * (s9 % W32) + 18 * (s10 % W32) + 34 * (s11 % W32) + 20 * (s0 % W32))
      (17 * (s2 % W32) + 15 * (s3 % W32) + 41 * (s4 % W32) + 16 * (s5 % W32) + 2 * (s6 % W32) + 28 * (s7 % W32) + 13 * (s8 % W32) + 13 * (s9 % W32) + 39 * (s10 % W32) + 18 * (s11 % W32) + 34 * (s0 % W32) + 20 * (s1 % W32))
      (17 * (s3 % W32) + 15 * (s4 % W32) + 41 * (s5 % W32) + 16 * (s6 % W32) + 2 * (s7 % W32) + 28 * (s8 % W32) + 13 * (s9 % W32) + 13 * (s10 % W32) + 39 * (s11 % W32) + 18 * (s0 % W32) + 34 * (s1 % W32) + 20 * (s2 % W32))
      (17 * (s4 % W32) + 15 * (s5 % W32) + 41 * (s6 % W32) + 16 * (s7 % W32) + 2 * (s8 % W32) + 28 * (s9 % W32) + 13 * (s10 % W32) + 13 * (s11 % W32) + 39 * (s0 % W32) + 18 * (s1 % W32) + 34 * (s2 % W32) + 20 * (s3 % W32))
      (17 * (s5 % W32) + 15 * (s6 % W32) + 41 * (s7 % W32) + 16 * (s8 % W32) + 2 * (s9 % W32) + 28 * (s10 % W32) + 13 * (s11 % W32) + 13 * (s0 % W32) + 39 * (s1 % W32) + 18 * (s2 % W32) + 34 * (s3 % W32) + 20 * (s4 % W32))
      (17 * (s6 % W32) + 15 * (s7 % W32) + 41 * (s8 % W32) + 16 * (s9 % W32) + 2 * (s10 % W32) + 28 * (s11 % W32) + 13 * (s0 % W32) + 13 * (s1 % W32) + 39 * (s2 % W32) + 18 * (s3 % W32) + 34 * (s4 % W32) + 20 * (s5 % W32))
      (17 * (s7 % W32) + 15 * (s8 % W32) + 41 * (s9 % W32) + 16 * (s10 % W32) + 2 * (s11 % W32) + 28 * (s0 % W32) + 13 * (s1 % W32) + 13 * (s2 % W32) + 39 * (s3 % W32) + 18 * (s4 % W32) + 34 * (s5 % W32) + 20 * (s6 % W32))
      (17 * (s8 % W32) + 15 * (s9 % W32) + 41 * (s10 % W32) + 16 * (s11 % W32) + 2 * (s0 % W32) + 28 * (s1 % W32) + 13 * (s2 % W32) + 13 * (s3 % W32) + 39 * (s4 % W32) + 18 * (s5 % W32) + 34 * (s6 % W32) + 20 * (s7 % W32))
      (17 * (s9 % W32) + 15 * (s10 % W32) + 41 * (s11 % W32) + 16 * (s0 % W32) + 2 * (s1 % W32) + 28 * (s2 % W32) + 13 * (s3 % W32) + 13 * (s4 % W32) + 39 * (s5 % W32) + 18 * (s6 % W32) + 34 * (s7 % W32) + 20 * (s8 % W32))
      (17 * (s10 % W32) + 15 * (s11 % W32) + 41 * (s0 % W32) + 16 * (s1 % W32) + 2 * (s2 % W32) + 28 * (s3 % W32) + 13 * (s4 % W32) + 13 * (s5 % W32) + 39 * (s6 % W32) + 18 * (s7 % W32) + 34 * (s8 % W32) + 20 * (s9 % W32))
      (17 * (s11 % W32) + 15 * (s0 % W32) + 41 * (s1 % W32) + 16 * (s2 % W32) + 2 * (s3 % W32) + 28 * (s4 % W32) + 13 * (s5 % W32) + 13 * (s6 % W32) + 39 * (s7 % W32) + 18 * (s8 % W32) + 34 * (s9 % W32) + 20 * (s10 % W32))
      s0
      (lin_bound _ _ _ _ _ _ _ _ _ _ _ _ (hd _ h0) (hd _ h1) (hd _ h2) (hd _ h3) (hd _ h4) (hd _ h5) (hd _ h6) (hd _ h7) (hd _ h8) (hd _ h9) (hd _ h10) (hd _ h11))
      (lin_bound _ _ _ _ _ _ _ _ _ _ _ _ (hd _ h1) (hd _ h2) (hd _ h3) (hd _ h4) (hd _ h5) (hd _ h6) (hd _ h7) (hd _ h8) (hd _ h9) (hd _ h10) (hd _ h11) (hd _ h0))
      (lin_bound _ _ _ _ _ _ _ _ _ _ _ _ (hd _ h2) (hd _ h3) (hd _ h4) (hd _ h5) (hd _ h6) (hd _ h7) (hd _ h8) (hd _ h9) (hd _ h10) (hd _ h11) (hd _ h0) (hd _ h1))
      (lin_bound _ _ _ _ _ _ _ _ _ _ _ _ (hd _ h3) (hd _ h4) (hd _ h5) (hd _ h6) (hd _ h7) (hd _ h8) (hd _ h9) (hd _ h10) (hd _ h11) (hd _ h0) (hd _ h1) (hd _ h2))
      (lin_bound _ _ _ _ _ _ _ _ _ _ _ _ (hd _ h4) (hd _ h5) (hd _ h6) (hd _ h7) (hd _ h8) (hd _ h9) (hd _ h10) (hd _ h11) (hd _ h0) (hd _ h1) (hd _ h2) (hd _ h3))
      (lin_bound _ _ _ _ _ _ _ _ _ _ _ _ (hd _ h5) (hd _ h6) (hd _ h7) (hd _ h8) (hd _ h9) (hd _ h10) (hd _ h11) (hd _ h0) (hd _ h1) (hd _ h2) (hd _ h3) (hd _ h4))
      (lin_bound _ _ _ _ _ _ _ _ _ _ _ _ (hd _ h6) (hd _ h7) (hd _ h8) (hd _ h9) (hd _ h10) (hd _ h11) (hd _ h0) (hd _ h1) (hd _ h2) (hd _ h3) (hd _ h4) (hd _ h5))
      (lin_bound _ _ _ _ _ _ _ _ _ _ _ _ (hd _ h7) (hd _ h8) (hd _ h9) (hd _ h10) (hd _ h11) (hd _ h0) (hd _ h1) (hd _ h2) (hd _ h3) (hd _ h4) (hd _ h5) (hd _ h6))
      (lin_bound _ _ _ _ _ _ _ _ _ _ _ _ (hd _ h8) (hd _ h9) (hd _ h10) (hd _ h11) (hd _ h0) (hd _ h1) (hd _ h2) (hd _ h3) (hd _ h4) (hd _ h5) (hd _ h6) (hd _ h7))
      (lin_bound _ _ _ _ _ _ _ _ _ _ _ _ (hd _ h9) (hd _ h10) (hd _ h11) (hd _ h0) (hd _ h1) (hd _ h2) (hd _ h3) (hd _ h4) (hd _ h5) (hd _ h6) (hd _ h7) (hd _ h8))
      (lin_bound _ _ _ _ _ _ _ _ _ _ _ _ (hd _ h10) (hd _ h11) (hd _ h0) (hd _ h1) (hd _ h2) (hd _ h3) (hd _ h4) (hd _ h5) (hd _ h6) (hd _ h7) (hd _ h8) (hd _ h9))
      (lin_bound _ _ _ _ _ _ _ _ _ _ _ _ (hd _ h11) (hd _ h0) (hd _ h1) (hd _ h2) (hd _ h3) (hd _ h4) (hd _ h5) (hd _ h6) (hd _ h7) (hd _ h8) (hd _ h9) (hd _ h10))
      (lin_bound _ _ _ _ _ _ _ _ _ _ _ _ (hm _) (hm _) (hm _) (hm _) (hm _) (hm _) (hm _) (hm _) (hm _) (hm _) (hm _) (hm _))
      (lin_bound _ _ _ _ _ _ _ _ _ _ _ _ (hm _) (hm _) (hm _) (hm _) (hm _) (hm _) (hm _) (hm _) (hm _) (hm _) (hm _) (hm _))
      (lin_bound _ _ _ _ _ _ _ _ _ _ _ _ (hm _) (hm _) (hm _) (hm _) (hm _) (hm _) (hm _) (hm _) (hm _) (hm _) (hm _) (hm _))
      (lin_bound _ _ _ _ _ _ _ _ _ _ _ _ (hm _) (hm _) (hm _) (hm _) (hm _) (hm _) (hm _) (hm _) (hm _) (hm _) (hm _) (hm _))
      (lin_bound _ _ _ _ _ _ _ _ _ _ _ _ (hm _) (hm _) (hm _) (hm _) (hm _) (hm _) (hm _) (hm _) (hm _) (hm _) (hm _) (hm _))
      (lin_bound _ _ _ _ _ _ _ _ _ _ _ _ (hm _) (hm _) (hm _) (hm _) (hm _) (hm _) (hm _) (hm _) (hm _) (hm _) (hm _) (hm _))
      (lin_bound _ _ _ _ _ _ _ _ _ _ _ _ (hm _) (hm _) (hm _) (hm _) (hm _) (hm _) (hm _) (hm _) (hm _) (hm _) (hm _) (hm _))
      (lin_bound _ _ _ _ _ _ _ _ _ _ _ _ (hm _) (hm _) (hm _) (hm _) (hm _) (hm _) (hm _) (hm _) (hm _) (hm _) (hm _) (hm _))
      (lin_bound _ _ _ _ _ _ _ _ _ _ _ _ (hm _) (hm _) (hm _) (hm _) (hm _) (hm _) (hm _) (hm _) (hm _) (hm _) (hm _) (hm _))
      (lin_bound _ _ _ _ _ _ _ _ _ _ _ _ (hm _) (hm _) (hm _) (hm _) (hm _) (hm _) (hm _) (hm _) (hm _) (hm _) (hm _) (hm _))
      (lin_bound _ _ _ _ _ _ _ _ _ _ _ _ (hm _) (hm _) (hm _) (hm _) (hm _) (hm _) (hm _) (hm _) (hm _) (hm _) (hm _) (hm _))
      (lin_bound _ _ _ _ _ _ _ _ _ _ _ _ (hm _) (hm _) (hm _) (hm _) (hm _) (hm _) (hm _) (hm _) (hm _) (hm _) (hm _) (hm _))
      h0
  simp only [lin_recombine] at q0 q1 q2 q3 q4 q5 q6 q7 q8 q9 q10 q11
  exact ⟨o0, o1, o2, o3, o4, o5, o6, o7, o8, o9, o10, o11, he, q0, q1, q2, q3, q4, q5, q6, q7, q8, q9,
    q10, q11⟩

/-! ### `mds_layer` on arrays -/
theorem arr12 {α : Type} (s : Array α) (h : s.size = 12) :
    ∃ a0 a1 a2 a3 a4 a5 a6 a7 a8 a9 a10 a11 : α, s = #[a0, a1, a2, a3, a4, a5, a6, a7, a8, a9, a10, a11] := by
  obtain ⟨l⟩ := s
  match l, h with
  | [a0, a1, a2, a3, a4, a5, a6, a7, a8, a9, a10, a11], _ =>
    exact ⟨a0, a1, a2, a3, a4, a5, a6, a7, a8, a9, a10, a11, rfl⟩

theorem row_sum_eq (a : Array Nat) (r : Nat) :
    ((List.range 12).map fun i => circ i * a[(i + r) % 12]!).sum =
      17 * a[(0 + r) % 12]! + 15 * a[(1 + r) % 12]! + 41 * a[(2 + r) % 12]! + 16 * a[(3 + r) % 12]! + 2 * a[(4 + r) % 12]! + 28 * a[(5 + r) % 12]! + 13 * a[(6 + r) % 12]! + 13 * a[(7 + r) % 12]! + 39 * a[(8 + r) % 12]! + 18 * a[(9 + r) % 12]! + 34 * a[(10 + r) % 12]! + 20 * a[(11 + r) % 12]! := by
  simp only [List.range, List.range.loop, List.map, List.sum_cons, List.sum_nil, circ,
    Gen.MDS_MATRIX_CIRC]
  simp only [List.getElem!_cons_zero, List.getElem!_cons_succ]
  omega

theorem diag_pos (r : Nat) (h0 : 0 < r) (hr : r < 12) : diag r = 0 :=
  P2.Props.C13Gen.mds_entries_small.2 r hr h0

theorem mdsLayer_spec' (s : Array Nat) (hs : s.size = 12) (hb : ∀ i, i < 12 → s[i]! < W64) :
    (mdsLayer s).trap = false ∧ (mdsLayer s).st.size = 12 ∧
    ∀ r, r < 12 → (mdsLayer s).st[r]! < W64 ∧
      (mdsLayer s).st[r]! % P =
        (((List.range 12).map fun i => circ i * s[(i + r) % 12]!).sum + diag r * s[r]!) % P := by
  obtain ⟨s0, s1, s2, s3, s4, s5, s6, s7, s8, s9, s10, s11, rfl⟩ := arr12 s hs
  obtain ⟨o0, o1, o2, o3, o4, o5, o6, o7, o8, o9, o10, o11, he, q0, q1, q2, q3, q4, q5, q6, q7, q8, q9,
    q10, q11⟩ := mdsLayer_explicit s0 s1 s2 s3 s4 s5 s6 s7 s8 s9 s10 s11
      (hb 0 (by decide)) (hb 1 (by decide)) (hb 2 (by decide)) (hb 3 (by decide))
      (hb 4 (by decide)) (hb 5 (by decide)) (hb 6 (by decide)) (hb 7 (by decide))
      (hb 8 (by decide)) (hb 9 (by decide)) (hb 10 (by decide)) (hb 11 (by decide))
  rw [he]
  refine ⟨rfl, rfl, ?_⟩
  intro r hr
  interval_cases r
  · refine ⟨q0.1, ?_⟩
    show o0 % P = _
    rw [q0.2]; refine congrArg (fun x => x % P) ?_
    rw [row_sum_eq, diag0]
    simp
  · refine ⟨q1.1, ?_⟩
    show o1 % P = _
    rw [q1.2]; refine congrArg (fun x => x % P) ?_
    rw [row_sum_eq, diag_pos _ (by decide) (by decide)]
    simp
  · refine ⟨q2.1, ?_⟩
    show o2 % P = _
    rw [q2.2]; refine congrArg (fun x => x % P) ?_
    rw [row_sum_eq, diag_pos _ (by decide) (by decide)]
    simp
  · refine ⟨q3.1, ?_⟩
    show o3 % P = _
    rw [q3.2]; refine congrArg (fun x => x % P) ?_
    rw [row_sum_eq, diag_pos _ (by decide) (by decide)]
    simp
  · refine ⟨q4.1, ?_⟩
    show o4 % P = _
    rw [q4.2]; refine congrArg (fun x => x % P) ?_
    rw [row_sum_eq, diag_pos _ (by decide) (by decide)]
    simp
  · refine ⟨q5.1, ?_⟩
    show o5 % P = _
    rw [q5.2]; refine congrArg (fun x => x % P) ?_
    rw [row_sum_eq, diag_pos _ (by decide) (by decide)]
    simp
  · refine ⟨q6.1, ?_⟩
    show o6 % P = _
    rw [q6.2]; refine congrArg (fun x => x % P) ?_
    rw [row_sum_eq, diag_pos _ (by decide) (by decide)]
    simp
  · refine ⟨q7.1, ?_⟩
    show o7 % P = _
    rw [q7.2]; refine congrArg (fun x => x % P) ?_
    rw [row_sum_eq, diag_pos _ (by decide) (by decide)]
    simp
  · refine ⟨q8.1, ?_⟩
    show o8 % P = _
    rw [q8.2]; refine congrArg (fun x => x % P) ?_
    rw [row_sum_eq, diag_pos _ (by decide) (by decide)]
    simp
  · refine ⟨q9.1, ?_⟩
    show o9 % P = _
    rw [q9.2]; refine congrArg (fun x => x % P) ?_
    rw [row_sum_eq, diag_pos _ (by decide) (by decide)]
    simp
  · refine ⟨q10.1, ?_⟩
    show o10 % P = _
    rw [q10.2]; refine congrArg (fun x => x % P) ?_
    rw [row_sum_eq, diag_pos _ (by decide) (by decide)]
    simp
  · refine ⟨q11.1, ?_⟩
    show o11 % P = _
    rw [q11.2]; refine congrArg (fun x => x % P) ?_
    rw [row_sum_eq, diag_pos _ (by decide) (by decide)]
    simp

/-! ### S-box and constant layer -/
theorem sbox_spec' (x : Nat) (hx : x < W64) :
    (sbox x).trap = false ∧ (sbox x).val < W64 ∧ (sbox x).val % P = x ^ 7 % P := by
  obtain ⟨a1, a2, a3⟩ := glSquare_spec x hx
  obtain ⟨b1, b2, b3⟩ := glSquare_spec (glSquare x).val a2
  obtain ⟨c1, c2, c3⟩ := glMul_spec x (glSquare x).val hx a2
  obtain ⟨d1, d2, d3⟩ := glMul_spec (glMul x (glSquare x).val).val (glSquare (glSquare x).val).val c2 b2
  have hb : (glSquare (glSquare x).val).val % P = ((x * x) * (x * x)) % P := by
    rw [b3, Nat.mul_mod, a3, ← Nat.mul_mod]
  have hc : (glMul x (glSquare x).val).val % P = (x * (x * x)) % P := by
    rw [c3, Nat.mul_mod, a3, ← Nat.mul_mod]
  simp only [sbox, Res.bind, a1, b1, c1, d1, Bool.or_self]
  refine ⟨trivial, d2, ?_⟩
  rw [d3, Nat.mul_mod, hb, hc, ← Nat.mul_mod]
  congr 1; ring

theorem round_const_lt (i round : Nat) (hi : i < 12) (hr : round < 30) :
    Gen.ALL_ROUND_CONSTANTS[i + 12 * round]! < P := by
  have hlen : Gen.ALL_ROUND_CONSTANTS.length = 360 := P2.Props.C13Gen.table_shapes.2.2.2.2.2.1
  have h : i + 12 * round < Gen.ALL_ROUND_CONSTANTS.length := by omega
  rw [getElem!_pos Gen.ALL_ROUND_CONSTANTS _ h]
  exact P2.Props.C13Gen.round_constants_canonical _ (List.getElem_mem h)

theorem constantLayer_spec' (s : Array Nat) (round : Nat) (hb : ∀ i, i < 12 → s[i]! < W64)
    (hr : round < 30) :
    (constantLayer s round).trap = false ∧ (constantLayer s round).st.size = 12 ∧
    ∀ i, i < 12 → (constantLayer s round).st[i]! < W64 ∧
      (constantLayer s round).st[i]! % P = (s[i]! + Gen.ALL_ROUND_CONSTANTS[i + 12 * round]!) % P := by
  refine ⟨?_, ?_, ?_⟩
  · simp only [constantLayer, List.any_eq_false, List.mem_map, List.mem_range]
    rintro x ⟨i, hi, rfl⟩
    rw [(addCanonicalU64_spec _ _ (hb i hi) (round_const_lt i round hi hr)).1]
    exact Bool.false_ne_true
  · simp [constantLayer]
  · intro i hi
    have e : (constantLayer s round).st[i]! =
        (addCanonicalU64 s[i]! (Gen.ALL_ROUND_CONSTANTS[i + 12 * round]!)).val := by
      simp [constantLayer, hi]
    rw [e]
    exact (addCanonicalU64_spec _ _ (hb i hi) (round_const_lt i round hi hr)).2

/-! ### challengers -/
section Chal
open P2.Sponge P2.Challenger
/-- one absorption step -/
def absorb (p : Perm) (st : Array P2.GL) (c : List P2.GL) : Array P2.GL := p.permute (setFrom st c 0)

theorem setFrom_size (s : Array P2.GL) (xs : List P2.GL) (k : Nat) : (setFrom s xs k).size = s.size := by
  unfold setFrom
  generalize xs.zipIdx = l
  induction l generalizing s with
  | nil => rfl
  | cons a t ih => simp only [List.foldl_cons]; rw [ih]; simp

theorem setFrom_nil (s : Array P2.GL) (k : Nat) : setFrom s [] k = s := by
  simp [setFrom]

theorem chunks_nil (n : Nat) : chunks [] n = [] := by
  rw [chunks]; simp

theorem chunks_small (n : Nat) (rem : List P2.GL) (h : rem.length < n) (hne : rem ≠ []) :
    chunks rem n = [rem] := by
  rw [chunks]
  have hn : n ≠ 0 := by omega
  simp only [hn, hne, dite_false]
  rw [List.take_of_length_le (Nat.le_of_lt h), List.drop_of_length_le (Nat.le_of_lt h), chunks_nil]

theorem chunks_full (n : Nat) (hn : 0 < n) (c rest : List P2.GL) (hc : c.length = n) :
    chunks (c ++ rest) n = c :: chunks rest n := by
  rw [chunks]
  have hn' : n ≠ 0 := by omega
  have hne : c ++ rest ≠ [] := by
    intro h
    have h1 := (List.append_eq_nil_iff.mp h).1
    subst h1
    simp at hc; omega
  simp only [hn', hne, dite_false]
  rw [List.take_left' hc, List.drop_left' hc]

theorem chunks_flatten (n : Nat) (hn : 0 < n) (cs : List (List P2.GL)) (rem : List P2.GL)
    (hcs : ∀ c ∈ cs, c.length = n) (hrem : rem.length < n) :
    chunks (cs.flatten ++ rem) n = cs ++ (if rem = [] then [] else [rem]) := by
  induction cs with
  | nil =>
    by_cases h : rem = []
    · simp [h, chunks_nil]
    · simp [h, chunks_small n rem hrem h]
  | cons c t ih =>
    have hc : c.length = n := hcs c (by simp)
    have ht : ∀ c ∈ t, c.length = n := fun c hc => hcs c (by simp [hc])
    simp only [List.flatten_cons, List.append_assoc, List.cons_append]
    rw [chunks_full n hn c _ hc, ih ht]

/-- the hypotheses on the permutation record -/
structure Good (p : Perm) : Prop where
  rate_pos : 0 < p.rate
  rate_le : p.rate ≤ p.width
  size : ∀ st : Array P2.GL, st.size = p.width → (p.permute st).size = p.width

theorem absorb_size {p : Perm} (hp : Good p) (st : Array P2.GL) (c : List P2.GL) (h : st.size = p.width) :
    (absorb p st c).size = p.width := by
  unfold absorb
  exact hp.size _ (by rw [setFrom_size]; exact h)

theorem foldl_absorb_size {p : Perm} (hp : Good p) (cs : List (List P2.GL)) (st : Array P2.GL)
    (h : st.size = p.width) : (cs.foldl (absorb p) st).size = p.width := by
  induction cs generalizing st with
  | nil => exact h
  | cons c t ih => exact ih _ (absorb_size hp st c h)

theorem take_nonempty {p : Perm} (hp : Good p) (st : Array P2.GL) (h : st.size = p.width) :
    (st.toList.take p.rate).isEmpty = false := by
  have h1 : (st.toList.take p.rate).length = p.rate := by
    rw [List.length_take, Array.length_toList, h]
    exact Nat.min_eq_left hp.rate_le
  cases hl : st.toList.take p.rate with
  | nil => rw [hl] at h1; have := hp.rate_pos; simp at h1; omega
  | cons a t => rfl

/-- the simulation relation between the native state `n` and the recursive state `r` -/
structure Rel (p : Perm) (n r : St) : Prop where
  size : r.sponge.size = p.width
  ex : ∃ (cs : List (List P2.GL)) (rem : List P2.GL),
    r.input = cs.flatten ++ rem ∧ (∀ c ∈ cs, c.length = p.rate) ∧ rem.length < p.rate ∧
    n.sponge = cs.foldl (absorb p) r.sponge ∧ n.input = rem ∧
    ((r.input = [] ∧ n.output = r.output) ∨
     (r.input ≠ [] ∧ r.output = [] ∧
        n.output = if rem = [] then n.sponge.toList.take p.rate else []))

theorem rel_refl {p : Perm} (hp : Good p) (s : St) (hs : s.sponge.size = p.width)
    (hi : s.input = []) : Rel p s s :=
  ⟨hs, [], [], by simp [hi], by simp, by simpa using hp.rate_pos, rfl, hi, Or.inl ⟨hi, rfl⟩⟩

theorem rel_observe {p : Perm} (n r : St) (x : P2.GL) (h : Rel p n r) :
    Rel p (observe p n x) (rObserve r x) := by
  obtain ⟨hs, cs, rem, hin, hcs, hrem, hsp, hni, _⟩ := h
  refine ⟨hs, ?_⟩
  by_cases hl : (rem ++ [x]).length = p.rate
  · refine ⟨cs ++ [rem ++ [x]], [], ?_, ?_, ?_, ?_, ?_, Or.inr ⟨?_, rfl, ?_⟩⟩
    · simp [rObserve, hin]
    · intro c hc
      rcases List.mem_append.mp hc with h | h
      · exact hcs c h
      · simp at h; rw [h]; exact hl
    · simp; omega
    · simp only [observe, hni, hl, if_true, duplexing, List.foldl_append, List.foldl_cons,
        List.foldl_nil, absorb, rObserve, hsp]
    · simp only [observe, hni, hl, if_true, duplexing]
    · simp [rObserve]
    · simp only [observe, hni, hl, if_true, duplexing]
  · refine ⟨cs, rem ++ [x], ?_, hcs, ?_, ?_, ?_, Or.inr ⟨?_, rfl, ?_⟩⟩
    · simp [rObserve, hin]
    · simp at hl ⊢; omega
    · simp only [observe, hni, hl, if_false, rObserve, hsp]
    · simp only [observe, hni, hl, if_false]
    · simp [rObserve]
    · simp only [observe, hni, hl, if_false]
      simp

/-- common tail of both `get_challenge`s -/
def pop (s : St) : St × P2.GL :=
  match s.output.getLast? with
  | some c => (⟨s.sponge, s.input, s.output.dropLast⟩, c)
  | none => (s, 0)

theorem getChallenge_eq (p : Perm) (s : St) :
    getChallenge p s = pop (if !s.input.isEmpty || s.output.isEmpty then duplexing p s else s) := rfl

theorem rGetChallenge_eq (p : Perm) (s : St) :
    rGetChallenge p s = pop (if (rAbsorbBuffered p s).output.isEmpty then
      ⟨p.permute (rAbsorbBuffered p s).sponge, (rAbsorbBuffered p s).input,
        (p.permute (rAbsorbBuffered p s).sponge).toList.take p.rate⟩ else rAbsorbBuffered p s) := rfl

theorem pop_input (s : St) : (pop s).1.input = s.input := by
  unfold pop; split <;> rfl

theorem pop_sponge (s : St) : (pop s).1.sponge = s.sponge := by
  unfold pop; split <;> rfl

theorem flatten_eq_nil_of_len {n : Nat} (hn : 0 < n) (cs : List (List P2.GL))
    (hcs : ∀ c ∈ cs, c.length = n) (h : cs.flatten = []) : cs = [] := by
  cases cs with
  | nil => rfl
  | cons c t =>
    have hc : c.length = n := hcs c (by simp)
    simp only [List.flatten_cons, List.append_eq_nil_iff] at h
    rw [h.1] at hc; simp at hc; omega

theorem rel_get_pre {p : Perm} (hp : Good p) (n r : St) (h : Rel p n r) :
    (if !n.input.isEmpty || n.output.isEmpty then duplexing p n else n) =
    (if (rAbsorbBuffered p r).output.isEmpty then
      (⟨p.permute (rAbsorbBuffered p r).sponge, (rAbsorbBuffered p r).input,
        (p.permute (rAbsorbBuffered p r).sponge).toList.take p.rate⟩ : St)
      else rAbsorbBuffered p r) ∧
    (if !n.input.isEmpty || n.output.isEmpty then duplexing p n else n).input = [] ∧
    (if !n.input.isEmpty || n.output.isEmpty then duplexing p n else n).sponge.size = p.width := by
  obtain ⟨hs, cs, rem, hin, hcs, hrem, hsp, hni, hout⟩ := h
  have hns : n.sponge.size = p.width := by rw [hsp]; exact foldl_absorb_size hp cs _ hs
  obtain ⟨nsp, nin, nout⟩ := n
  obtain ⟨rsp, rin, rout⟩ := r
  simp only at hs hin hsp hni hout hns
  subst hni
  rcases hout with ⟨hri, hno⟩ | ⟨hri, hro, hno⟩
  · -- nothing buffered: the states coincide
    subst hri
    have h2 := List.append_eq_nil_iff.mp hin.symm
    have hrem0 : nin = [] := h2.2
    have hcs0 : cs = [] := flatten_eq_nil_of_len hp.rate_pos cs hcs h2.1
    subst hrem0; subst hcs0; subst hno
    simp only [List.foldl_nil] at hsp
    subst hsp
    simp only [rAbsorbBuffered, List.isEmpty_nil, if_true, Bool.not_true, Bool.false_or]
    by_cases ho : nout.isEmpty
    · simp only [ho, if_true, duplexing, setFrom_nil, true_and]
      exact hp.size _ hs
    · have ho' : nout.isEmpty = false := by simpa using ho
      simp only [ho', Bool.false_eq_true, if_false, true_and]
      exact hs
  · subst hro
    have hchunks := chunks_flatten p.rate hp.rate_pos cs nin hcs hrem
    rw [← hin] at hchunks
    have hrie : rin.isEmpty = false := by
      cases rin with
      | nil => exact absurd rfl hri
      | cons a t => rfl
    by_cases hr0 : nin = []
    · subst hr0
      simp only [if_true] at hno
      subst hno
      simp only [if_true, List.append_nil] at hchunks
      have hne := take_nonempty hp nsp hns
      simp only [rAbsorbBuffered, hrie, Bool.false_eq_true, if_false, hchunks,
        List.isEmpty_nil, Bool.not_true, Bool.false_or, hne]
      refine ⟨?_, trivial, hns⟩
      have e : List.foldl (fun st c => p.permute (setFrom st c 0)) rsp cs = nsp := hsp.symm
      rw [e]
      simp only [hne, Bool.false_eq_true, if_false]
    · simp only [hr0, if_false] at hno hchunks
      subst hno
      have hnie : nin.isEmpty = false := by
        cases nin with
        | nil => exact absurd rfl hr0
        | cons a t => rfl
      have hsz : (p.permute (setFrom nsp nin 0)).size = p.width :=
        hp.size _ (by rw [setFrom_size]; exact hns)
      have hne := take_nonempty hp _ hsz
      have e : List.foldl (fun st c => p.permute (setFrom st c 0)) rsp (cs ++ [nin]) =
          p.permute (setFrom nsp nin 0) := by
        rw [List.foldl_append, List.foldl_cons, List.foldl_nil]
        have e' : List.foldl (fun st c => p.permute (setFrom st c 0)) rsp cs = nsp := hsp.symm
        rw [e']
      simp only [rAbsorbBuffered, hrie, Bool.false_eq_true, if_false, hchunks, hnie, Bool.not_false,
        Bool.true_or, if_true, duplexing, e, hne]
      exact ⟨trivial, trivial, hsz⟩

theorem rel_get {p : Perm} (hp : Good p) (n r : St) (h : Rel p n r) :
    getChallenge p n = rGetChallenge p r ∧ Rel p (getChallenge p n).1 (rGetChallenge p r).1 := by
  obtain ⟨h1, h2, h3⟩ := rel_get_pre hp n r h
  have e : getChallenge p n = rGetChallenge p r := by
    rw [getChallenge_eq, rGetChallenge_eq, h1]
  refine ⟨e, ?_⟩
  rw [← e]
  apply rel_refl hp
  · rw [getChallenge_eq, pop_sponge]; exact h3
  · rw [getChallenge_eq, pop_input]; exact h2

def gstepN (p : Perm) (acc : St × List P2.GL) : St × List P2.GL :=
  let (s', c) := getChallenge p acc.1
  (s', acc.2 ++ [c])

def gstepR (p : Perm) (a : St × List P2.GL) : St × List P2.GL :=
  let (s, c) := rGetChallenge p a.1
  (s, a.2 ++ [c])

theorem gstepN_apply (p : Perm) (s : St) (pre : List P2.GL) :
    gstepN p (s, pre) = ((getChallenge p s).1, pre ++ [(getChallenge p s).2]) := rfl

theorem gstepR_apply (p : Perm) (s : St) (pre : List P2.GL) :
    gstepR p (s, pre) = ((rGetChallenge p s).1, pre ++ [(rGetChallenge p s).2]) := rfl

theorem getN_eq (p : Perm) (s : St) (n : Nat) :
    getN p s n = (List.range n).foldl (fun acc _ => gstepN p acc) (s, []) := rfl

theorem gstepN_fold_prefix {α : Type} (p : Perm) (l : List α) (s : St) (pre : List P2.GL) :
    l.foldl (fun acc _ => gstepN p acc) (s, pre) =
      ((l.foldl (fun acc _ => gstepN p acc) (s, [])).1,
        pre ++ (l.foldl (fun acc _ => gstepN p acc) (s, [])).2) := by
  induction l generalizing s pre with
  | nil => simp
  | cons a t ih =>
    simp only [List.foldl_cons, gstepN_apply, List.nil_append]
    rw [ih _ (pre ++ _), ih _ [_]]
    simp

theorem gstep_fold_rel {α : Type} {p : Perm} (hp : Good p) (l : List α) (n r : St)
    (pre : List P2.GL) (h : Rel p n r) :
    (l.foldl (fun acc _ => gstepN p acc) (n, pre)).2 =
      (l.foldl (fun acc _ => gstepR p acc) (r, pre)).2 ∧
    Rel p (l.foldl (fun acc _ => gstepN p acc) (n, pre)).1
      (l.foldl (fun acc _ => gstepR p acc) (r, pre)).1 := by
  induction l generalizing n r pre with
  | nil => exact ⟨rfl, h⟩
  | cons a t ih =>
    obtain ⟨e, hr⟩ := rel_get hp n r h
    simp only [List.foldl_cons, gstepN_apply, gstepR_apply]
    have := ih (getChallenge p n).1 (rGetChallenge p r).1 (pre ++ [(getChallenge p n).2]) hr
    rw [e] at this ⊢
    exact this

theorem observeMany_rel {p : Perm} (xs : List P2.GL) (n r : St) (h : Rel p n r) :
    Rel p (observeMany p n xs) (xs.foldl rObserve r) := by
  induction xs generalizing n r with
  | nil => exact h
  | cons x t ih =>
    simp only [observeMany, List.foldl_cons]
    exact ih _ _ (rel_observe n r x h)

def stepN (p : Perm) (acc : St × List P2.GL) (op : Op) : St × List P2.GL :=
  match op with
  | .obs xs => (observeMany p acc.1 xs, acc.2)
  | .get n => let (s, cs) := getN p acc.1 n; (s, acc.2 ++ cs)

def stepR (p : Perm) (acc : St × List P2.GL) (op : Op) : St × List P2.GL :=
  match op with
  | .obs xs => (xs.foldl rObserve acc.1, acc.2)
  | .get n => (List.range n).foldl (fun a _ => gstepR p a) acc

theorem run_eq (p : Perm) (ops : List Op) : run p ops = (ops.foldl (stepN p) (init p, [])).2 := rfl
theorem rRun_eq (p : Perm) (ops : List Op) : rRun p ops = (ops.foldl (stepR p) (init p, [])).2 := rfl

theorem step_rel {p : Perm} (hp : Good p) (op : Op) (a b : St × List P2.GL)
    (h : Rel p a.1 b.1) (h2 : a.2 = b.2) :
    Rel p (stepN p a op).1 (stepR p b op).1 ∧ (stepN p a op).2 = (stepR p b op).2 := by
  obtain ⟨n, pre⟩ := a
  obtain ⟨r, pre'⟩ := b
  simp only at h h2
  subst h2
  cases op with
  | obs xs => exact ⟨observeMany_rel xs n r h, rfl⟩
  | get k =>
    obtain ⟨e1, e2⟩ := gstep_fold_rel hp (List.range k) n r pre h
    simp only [stepN, stepR, getN_eq]
    rw [gstepN_fold_prefix] at e1 e2
    exact ⟨e2, e1⟩

theorem fold_rel {p : Perm} (hp : Good p) (ops : List Op) (a b : St × List P2.GL)
    (h : Rel p a.1 b.1) (h2 : a.2 = b.2) :
    (ops.foldl (stepN p) a).2 = (ops.foldl (stepR p) b).2 := by
  induction ops generalizing a b with
  | nil => exact h2
  | cons op t ih =>
    obtain ⟨h3, h4⟩ := step_rel hp op a b h h2
    exact ih _ _ h3 h4

theorem run_eq_rRun' (p : Perm) (ops : List Op) (hp : Good p) : run p ops = rRun p ops := by
  rw [run_eq, rRun_eq]
  exact fold_rel hp ops _ _ (rel_refl hp _ (by simp [init]) rfl) rfl

theorem observeMany_append' (p : Perm) (s : St) (xs ys : List P2.GL) :
    observeMany p s (xs ++ ys) = observeMany p (observeMany p s xs) ys := by
  simp [observeMany, List.foldl_append]
end Chal

/-! ### `x ↦ x^7` is a permutation of `ZMod P` -/
theorem pow7e [Fact (Nat.Prime 18446744069414584321)] (x : ZMod 18446744069414584321) :
    x ^ (7 * 10540996611094048183) = x := by
  by_cases hx : x = 0
  · subst hx; exact zero_pow (by norm_num)
  · have h := ZMod.pow_card_sub_one_eq_one hx
    have e : 7 * 10540996611094048183 = (18446744069414584321 - 1) * 4 + 1 := by norm_num
    rw [e, pow_succ, pow_mul, h, one_pow, one_mul]

theorem sbox_bijective' [Fact (Nat.Prime 18446744069414584321)] :
    Function.Bijective (fun x : ZMod 18446744069414584321 => x ^ 7) := by
  refine Function.bijective_iff_has_inverse.mpr ⟨fun y => y ^ 10540996611094048183, ?_, ?_⟩
  · intro x; show (x ^ 7) ^ 10540996611094048183 = x
    rw [← pow_mul]; exact pow7e x
  · intro x; show (x ^ 10540996611094048183) ^ 7 = x
    rw [← pow_mul, Nat.mul_comm]; exact pow7e x

end P2.Lemmas.C13
