/-
Number-theoretic helpers: primality of `P` (Lucas), Fermat, and the exponentiation chains.
-/
import Mathlib.NumberTheory.LucasPrimality
import Mathlib.FieldTheory.Finite.Basic
import Mathlib.Tactic.Ring
import Mathlib.Tactic.NormNum.Prime
import P2.Lemmas.GL0

namespace P2.L0

local notation "Wl" => 18446744073709551616
local notation "Pl" => 18446744069414584321

/-! ### kernel-friendly modular exponentiation -/

/-- binary square-and-multiply with fuel -/
def powModAux : Nat → Nat → Nat → Nat → Nat → Nat
  | 0, _, _, _, acc => acc
  | fuel + 1, a, e, m, acc =>
    if e = 0 then acc
    else powModAux fuel (a * a % m) (e / 2) m (if e % 2 = 1 then acc * a % m else acc)

def powMod (a e m : Nat) : Nat := powModAux 64 a e m 1 % m

theorem powModAux_spec (m : ℕ) :
    ∀ (fuel a e acc : ℕ), e < 2 ^ fuel → powModAux fuel a e m acc ≡ acc * a ^ e [MOD m]
  | 0, a, e, acc, h => by
    have he : e = 0 := by simpa using h
    subst he
    simp only [powModAux, pow_zero, mul_one]
    exact Nat.ModEq.refl _
  | fuel + 1, a, e, acc, h => by
    rw [powModAux]
    have h2 : 2 ^ (fuel + 1) = 2 * 2 ^ fuel := by ring
    have he : e / 2 < 2 ^ fuel := by omega
    by_cases h0 : e = 0
    · subst h0
      simp only [if_true, pow_zero, mul_one]
      exact Nat.ModEq.refl _
    · rw [if_neg h0]
      refine (powModAux_spec m fuel _ _ _ he).trans ?_
      by_cases h1 : e % 2 = 1
      · rw [if_pos h1]
        have e' : acc * a ^ e = (acc * a) * (a * a) ^ (e / 2) := by
          conv_lhs => rw [← Nat.div_add_mod e 2, h1]
          ring
        rw [e']
        exact (Nat.mod_modEq _ _).mul ((Nat.mod_modEq _ _).pow _)
      · rw [if_neg h1]
        have h1' : e % 2 = 0 := by omega
        have e' : acc * a ^ e = acc * (a * a) ^ (e / 2) := by
          conv_lhs => rw [← Nat.div_add_mod e 2, h1']
          ring
        rw [e']
        exact (Nat.ModEq.refl _).mul ((Nat.mod_modEq _ _).pow _)

theorem powMod_eq (a e m : ℕ) (he : e < 2 ^ 64) : a ^ e % m = powMod a e m := by
  have h := powModAux_spec m 64 a e 1 he
  rw [one_mul] at h
  exact h.symm

/-! ### `P` is prime -/

theorem zmod_pow_eq (e v : ℕ) (he : e < 2 ^ 64) (h : powMod 7 e Pl = v) :
    ((7 : ZMod Pl) ^ e = 1) ↔ v = 1 % Pl := by
  have h1 : ((7 : ZMod Pl) ^ e = 1) ↔ (((7 ^ e : ℕ) : ZMod Pl) = ((1 : ℕ) : ZMod Pl)) := by
    push_cast
    exact Iff.rfl
  rw [h1, ZMod.natCast_eq_natCast_iff', powMod_eq _ _ _ he, h]

theorem prime_dvd_P_sub_one {q : ℕ} (hq : q.Prime)
    (h : q ∣ 2 ^ 32 * 3 * 5 * 17 * 257 * 65537) :
    q = 2 ∨ q = 3 ∨ q = 5 ∨ q = 17 ∨ q = 257 ∨ q = 65537 := by
  rcases hq.dvd_mul.1 h with h | h
  · rcases hq.dvd_mul.1 h with h | h
    · rcases hq.dvd_mul.1 h with h | h
      · rcases hq.dvd_mul.1 h with h | h
        · rcases hq.dvd_mul.1 h with h | h
          · exact Or.inl ((Nat.prime_dvd_prime_iff_eq hq (by norm_num)).1 (hq.dvd_of_dvd_pow h))
          · exact Or.inr (Or.inl ((Nat.prime_dvd_prime_iff_eq hq (by norm_num)).1 h))
        · exact Or.inr (Or.inr (Or.inl ((Nat.prime_dvd_prime_iff_eq hq (by norm_num)).1 h)))
      · exact Or.inr (Or.inr (Or.inr (Or.inl ((Nat.prime_dvd_prime_iff_eq hq (by norm_num)).1 h))))
    · exact Or.inr (Or.inr (Or.inr (Or.inr (Or.inl
        ((Nat.prime_dvd_prime_iff_eq hq (by norm_num)).1 h)))))
  · exact Or.inr (Or.inr (Or.inr (Or.inr (Or.inr
      ((Nat.prime_dvd_prime_iff_eq hq (by norm_num)).1 h)))))

theorem P_prime_lit : Nat.Prime Pl := by
  have hfac : (Pl - 1 : ℕ) = 2 ^ 32 * 3 * 5 * 17 * 257 * 65537 := by norm_num
  refine lucas_primality Pl (7 : ZMod Pl) ?_ ?_
  · rw [show (Pl - 1 : ℕ) = 18446744069414584320 by norm_num]
    exact (zmod_pow_eq 18446744069414584320 1 (by norm_num) (by decide +kernel)).2 (by norm_num)
  · intro q hq hdvd
    rw [hfac] at hdvd
    rcases prime_dvd_P_sub_one hq hdvd with rfl | rfl | rfl | rfl | rfl | rfl
    · rw [show (Pl - 1 : ℕ) / 2 = 9223372034707292160 by norm_num]
      exact fun hc => absurd ((zmod_pow_eq 9223372034707292160 18446744069414584320
        (by norm_num) (by decide +kernel)).1 hc) (by norm_num)
    · rw [show (Pl - 1 : ℕ) / 3 = 6148914689804861440 by norm_num]
      exact fun hc => absurd ((zmod_pow_eq 6148914689804861440 18446744065119617025
        (by norm_num) (by decide +kernel)).1 hc) (by norm_num)
    · rw [show (Pl - 1 : ℕ) / 5 = 3689348813882916864 by norm_num]
      exact fun hc => absurd ((zmod_pow_eq 3689348813882916864 1373043270956696022
        (by norm_num) (by decide +kernel)).1 hc) (by norm_num)
    · rw [show (Pl - 1 : ℕ) / 17 = 1085102592318504960 by norm_num]
      exact fun hc => absurd ((zmod_pow_eq 1085102592318504960 16301593560560007290
        (by norm_num) (by decide +kernel)).1 hc) (by norm_num)
    · rw [show (Pl - 1 : ℕ) / 257 = 71777214277877760 by norm_num]
      exact fun hc => absurd ((zmod_pow_eq 71777214277877760 995085315851368103
        (by norm_num) (by decide +kernel)).1 hc) (by norm_num)
    · rw [show (Pl - 1 : ℕ) / 65537 = 281470681743360 by norm_num]
      exact fun hc => absurd ((zmod_pow_eq 281470681743360 8478886009461009681
        (by norm_num) (by decide +kernel)).1 hc) (by norm_num)

/-! ### Fermat -/

theorem fermat_lit (a : ℕ) (ha : a % Pl ≠ 0) : a ^ (Pl - 1) % Pl = 1 := by
  have : Fact (Nat.Prime Pl) := ⟨P_prime_lit⟩
  have h0 : (a : ZMod Pl) ≠ 0 := by
    rw [Ne, ZMod.natCast_eq_zero_iff]
    exact fun h => ha (Nat.mod_eq_zero_of_dvd h)
  have h1 := ZMod.pow_card_sub_one_eq_one h0
  have h2 : ((a ^ (Pl - 1) : ℕ) : ZMod Pl) = ((1 : ℕ) : ZMod Pl) := by
    push_cast
    exact h1
  rw [ZMod.natCast_eq_natCast_iff'] at h2
  rw [h2]

/-! ### sequencing -/

theorem Good.bind {r : Res} {f : Nat → Res} {x y : ℕ} (hr : Good r x)
    (hf : ∀ v, v < Wl → v % Pl = x % Pl → Good (f v) y) : Good (r.bind f) y := by
  obtain ⟨h1, h2, h3⟩ := hr
  obtain ⟨g1, g2, g3⟩ := hf r.val h2 h3
  refine ⟨?_, g2, g3⟩
  show (r.trap || (f r.val).trap) = false
  rw [h1, g1]
  rfl

theorem good_mk {v x : ℕ} (hv : v < Wl) (h : v % Pl = x % Pl) : Good ⟨v, false⟩ x :=
  ⟨rfl, hv, h⟩

/-! ### exp_power_of_2, exp_u64 -/

theorem expPow2_good : ∀ (k a x : ℕ), a < Wl → a % Pl = x % Pl → Good (expPow2 a k) (x ^ 2 ^ k)
  | 0, a, x, ha, hx => by
    rw [expPow2]
    exact good_mk ha (by rw [pow_zero, pow_one]; exact hx)
  | k + 1, a, x, ha, hx => by
    rw [expPow2]
    refine (glSquare_good' ha hx).bind fun v hv hm => ?_
    refine (expPow2_good k v (x * x) hv hm).congr ?_
    congr 1
    ring

theorem expU64Loop_good : ∀ (k power cur prod : ℕ) (t : Bool) (x y : ℕ),
    cur < Wl → prod < Wl → cur % Pl = x % Pl → prod % Pl = y % Pl → power < 2 ^ k →
    (expU64Loop k power cur prod t).trap = t ∧ (expU64Loop k power cur prod t).val < Wl ∧
      (expU64Loop k power cur prod t).val % Pl = (y * x ^ power) % Pl
  | 0, power, cur, prod, t, x, y, _, hp, _, hy, hpow => by
    have he : power = 0 := by simpa using hpow
    subst he
    rw [expU64Loop]
    exact ⟨rfl, hp, by rw [pow_zero, mul_one]; exact hy⟩
  | k + 1, power, cur, prod, t, x, y, hc, hp, hx, hy, hpow => by
    rw [expU64Loop]
    have h2 : 2 ^ (k + 1) = 2 * 2 ^ k := by ring
    have he : power / 2 < 2 ^ k := by omega
    obtain ⟨c1, c2, c3⟩ := glSquare_good' hc hx
    by_cases h1 : power % 2 = 1
    · obtain ⟨p1, p2, p3⟩ := glMul_good' hp hc hy hx
      rw [if_pos h1, c1, p1, Bool.or_false, Bool.or_false]
      obtain ⟨r1, r2, r3⟩ := expU64Loop_good k (power / 2) _ _ t (x * x) (y * x) c2 p2 c3 p3 he
      refine ⟨r1, r2, r3.trans ?_⟩
      congr 1
      conv_rhs => rw [← Nat.div_add_mod power 2, h1]
      ring
    · have h1' : power % 2 = 0 := by omega
      rw [if_neg h1, c1, Bool.or_false, Bool.or_false]
      obtain ⟨r1, r2, r3⟩ := expU64Loop_good k (power / 2) _ _ t (x * x) y c2 hp c3 hy he
      refine ⟨r1, r2, r3.trans ?_⟩
      congr 1
      conv_rhs => rw [← Nat.div_add_mod power 2, h1']
      ring

theorem lt_two_pow_bitsU64 (e : ℕ) : e < 2 ^ bitsU64 e := by
  unfold bitsU64
  by_cases h : e = 0
  · subst h; simp
  · rw [if_neg h]
    exact Nat.lt_log2_self

theorem expU64_good (a e : ℕ) (ha : a < Wl) : Good (expU64 a e) (a ^ e) := by
  obtain ⟨r1, r2, r3⟩ := expU64Loop_good (bitsU64 e) e a 1 false a 1 ha (by norm_num) rfl rfl
    (lt_two_pow_bitsU64 e)
  exact ⟨r1, r2, by rw [one_mul] at r3; exact r3⟩

/-! ### try_inverse -/

/-- `v` is a machine word congruent to `a ^ e` -/
def PowOf (a v e : ℕ) : Prop := v < Wl ∧ v % Pl = a ^ e % Pl

theorem Good.bindPow {r : Res} {f : Nat → Res} {a e y : ℕ} (hr : Good r (a ^ e))
    (hf : ∀ v, PowOf a v e → Good (f v) y) : Good (r.bind f) y :=
  hr.bind fun v h1 h2 => hf v ⟨h1, h2⟩

theorem glSquare_pow {a v e : ℕ} (h : PowOf a v e) : Good (glSquare v) (a ^ (2 * e)) :=
  (glSquare_good' h.1 h.2).congr (by congr 1; ring)

theorem glMul_pow {a v w e f : ℕ} (h : PowOf a v e) (h' : PowOf a w f) :
    Good (glMul v w) (a ^ (e + f)) :=
  (glMul_good' h.1 h'.1 h.2 h'.2).congr (by congr 1; ring)

theorem expAcc_pow {a v w e f : ℕ} (n : ℕ) (h : PowOf a v e) (h' : PowOf a w f) :
    Good (expAcc n v w) (a ^ (e * 2 ^ n + f)) := by
  unfold expAcc
  refine (expPow2_good n v (a ^ e) h.1 h.2).bind fun s hs hm => ?_
  exact (glMul_good' hs h'.1 hm h'.2).congr (by congr 1; ring)

theorem tryInverse_chain_good (a : ℕ) (ha : a < Wl) :
    ∃ r, (toCanonical a ≠ 0 → tryInverse a = some r) ∧ Good r (a ^ (Pl - 2)) := by
  have h0 : PowOf a a 1 := ⟨ha, by rw [pow_one]⟩
  have key : ∃ E : ℕ, Good
      ((glSquare a).bind fun sq => (glMul sq a).bind fun t2 =>
        (glSquare t2).bind fun sq2 => (glMul sq2 a).bind fun t3 =>
        (expAcc 3 t3 t3).bind fun t6 =>
        (expAcc 6 t6 t6).bind fun t12 =>
        (expAcc 12 t12 t12).bind fun t24 =>
        (expAcc 6 t24 t6).bind fun t30 =>
        (glSquare t30).bind fun sq30 => (glMul sq30 a).bind fun t31 =>
        (expAcc 32 t31 t31).bind fun t63 =>
        (glSquare t63).bind fun sq63 => glMul sq63 a) (a ^ E) ∧ E = Pl - 2 := by
    refine ⟨?E, ?_, ?_⟩
    case refine_1 =>
      refine (glSquare_pow h0).bindPow fun sq hsq => ?_
      refine (glMul_pow hsq h0).bindPow fun t2 ht2 => ?_
      refine (glSquare_pow ht2).bindPow fun sq2 hsq2 => ?_
      refine (glMul_pow hsq2 h0).bindPow fun t3 ht3 => ?_
      refine (expAcc_pow 3 ht3 ht3).bindPow fun t6 ht6 => ?_
      refine (expAcc_pow 6 ht6 ht6).bindPow fun t12 ht12 => ?_
      refine (expAcc_pow 12 ht12 ht12).bindPow fun t24 ht24 => ?_
      refine (expAcc_pow 6 ht24 ht6).bindPow fun t30 ht30 => ?_
      refine (glSquare_pow ht30).bindPow fun sq30 hsq30 => ?_
      refine (glMul_pow hsq30 h0).bindPow fun t31 ht31 => ?_
      refine (expAcc_pow 32 ht31 ht31).bindPow fun t63 ht63 => ?_
      refine (glSquare_pow ht63).bindPow fun sq63 hsq63 => ?_
      exact glMul_pow hsq63 h0
    · norm_num
  obtain ⟨E, hg, hE⟩ := key
  subst hE
  refine ⟨_, fun hne => ?_, hg⟩
  rw [tryInverse, if_neg hne]

theorem tryInverse_good (a : ℕ) (ha : a < Wl) :
    (a % Pl = 0 → tryInverse a = none) ∧
    (a % Pl ≠ 0 → ∃ r, tryInverse a = some r ∧ r.trap = false ∧ r.val < Wl ∧
      (r.val * a) % Pl = 1) := by
  constructor
  · intro h
    rw [tryInverse, toCanonical_eq a ha, if_pos h]
  · intro h
    obtain ⟨r, hr, g1, g2, g3⟩ := tryInverse_chain_good a ha
    refine ⟨r, hr (by rw [toCanonical_eq a ha]; exact h), g1, g2, ?_⟩
    have e : (Pl - 2 + 1 : ℕ) = Pl - 1 := by norm_num
    rw [Nat.mul_mod, g3, ← Nat.mul_mod, ← pow_succ, e]
    exact fermat_lit a h

end P2.L0
