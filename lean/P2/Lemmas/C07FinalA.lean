/-
C07 on the model's own generated row: arithmetic-extension, multiplication-extension and base-sum
gates (pattern of `C07FinalArith.lean`).
-/
import P2.Lemmas.C07On
import P2.Lemmas.C07GenGL
import P2.Lemmas.C07BaseSum
set_option linter.unusedSectionVars false
namespace P2.Lemmas.C07
open P2 P2.Gates
attribute [local instance] glField

/-! ## arithmetic-extension gate -/

theorem arithmeticExt_generate_size (n : Nat) (consts wires : Array P2.GL) :
    (GateKind.arithmeticExt n).numWires ≤ ((GateKind.arithmeticExt n).generate consts wires).size := by
  have hgen : (GateKind.arithmeticExt n).generate consts wires =
      (List.range n).foldl (fun ws i => setAlg ws (8 * i + 6)
        ((getAlg ws (8 * i) * getAlg ws (8 * i + 2)).smul consts[0]!
          + (getAlg ws (8 * i + 4)).smul consts[1]!))
        (wires ++ Array.replicate ((GateKind.arithmeticExt n).numWires - wires.size) (0 : P2.GL)) :=
    rfl
  rw [hgen, foldl_size_preserved _ (fun ws a => size_setAlg _ _ _)]
  exact size_pad_ge wires _

/-- the generator-written columns of the arithmetic-extension gate -/
theorem arithmeticExt_mem_generatedWires (n k : Nat)
    (hk : k ∈ (GateKind.arithmeticExt n).generatedWires) :
    ∃ i r, i < n ∧ r < 2 ∧ k = 8 * i + 6 + r := by
  simp only [GateKind.generatedWires, List.mem_flatMap, List.mem_range, List.mem_cons,
    List.not_mem_nil, or_false] at hk
  obtain ⟨i, hi, rfl | rfl⟩ := hk
  · exact ⟨i, 0, hi, by omega, rfl⟩
  · exact ⟨i, 1, hi, by omega, rfl⟩

/-- C07 for the arithmetic-extension gate: every `numOps`, constants, input row and public-input
hash; no side condition -/
theorem arithmeticExt_C07On (n : Nat) (consts wires pih : Array P2.GL) :
    C07On (.arithmeticExt n) consts wires pih := by
  refine ⟨arithmeticExt_generate_sat n consts wires pih, ?_⟩
  intro k hk x hx
  obtain ⟨i, r, hi, hr, rfl⟩ := arithmeticExt_mem_generatedWires n k hk
  have hsz := arithmeticExt_generate_size n consts wires
  have hnw : (GateKind.arithmeticExt n).numWires = n * 4 * 2 := rfl
  have hsat : Sat (.arithmeticExt n) (genRow (.arithmeticExt n) consts wires pih) := by
    have := arithmeticExt_generate_sat n consts wires pih
    rw [evalGL_arithmeticExt] at this
    exact this
  refine replaced_violates (.arithmeticExt n) consts _ pih (evalGL_arithmeticExt n)
    (8 * i + 6 + r) (2 * i + r) (by omega) (fun v' hd => ?_) x hx
  exact arithmeticExt_pinned n _ v' i r hi hr hd (con_eq_zero_of_sat _ _ hsat _)

/-! ## multiplication-extension gate -/

theorem mulExt_generate_size (n : Nat) (consts wires : Array P2.GL) :
    (GateKind.mulExt n).numWires ≤ ((GateKind.mulExt n).generate consts wires).size := by
  have hgen : (GateKind.mulExt n).generate consts wires =
      (List.range n).foldl (fun ws i => setAlg ws (6 * i + 4)
        ((getAlg ws (6 * i) * getAlg ws (6 * i + 2)).smul consts[0]!))
        (wires ++ Array.replicate ((GateKind.mulExt n).numWires - wires.size) (0 : P2.GL)) := rfl
  rw [hgen, foldl_size_preserved _ (fun ws a => size_setAlg _ _ _)]
  exact size_pad_ge wires _

/-- the generator-written columns of the multiplication-extension gate -/
theorem mulExt_mem_generatedWires (n k : Nat) (hk : k ∈ (GateKind.mulExt n).generatedWires) :
    ∃ i r, i < n ∧ r < 2 ∧ k = 6 * i + 4 + r := by
  simp only [GateKind.generatedWires, List.mem_flatMap, List.mem_range, List.mem_cons,
    List.not_mem_nil, or_false] at hk
  obtain ⟨i, hi, rfl | rfl⟩ := hk
  · exact ⟨i, 0, hi, by omega, rfl⟩
  · exact ⟨i, 1, hi, by omega, rfl⟩

/-- C07 for the multiplication-extension gate; no side condition -/
theorem mulExt_C07On (n : Nat) (consts wires pih : Array P2.GL) :
    C07On (.mulExt n) consts wires pih := by
  refine ⟨mulExt_generate_sat n consts wires pih, ?_⟩
  intro k hk x hx
  obtain ⟨i, r, hi, hr, rfl⟩ := mulExt_mem_generatedWires n k hk
  have hsz := mulExt_generate_size n consts wires
  have hnw : (GateKind.mulExt n).numWires = n * 3 * 2 := rfl
  have hsat : Sat (.mulExt n) (genRow (.mulExt n) consts wires pih) := by
    have := mulExt_generate_sat n consts wires pih
    rw [evalGL_mulExt] at this
    exact this
  refine replaced_violates (.mulExt n) consts _ pih (evalGL_mulExt n)
    (6 * i + 4 + r) (2 * i + r) (by omega) (fun v' hd => ?_) x hx
  exact mulExt_pinned n _ v' i r hi hr hd (con_eq_zero_of_sat _ _ hsat _)

/-! ## base-sum gate -/

theorem baseSum_generate_size (b l : Nat) (consts wires : Array P2.GL) :
    (GateKind.baseSum b l).numWires ≤ ((GateKind.baseSum b l).generate consts wires).size := by
  have hgen : (GateKind.baseSum b l).generate consts wires =
      (List.range l).foldl (fun ws i => ws.set! (1 + i)
        (GL.ofNat ((((wires ++ Array.replicate ((GateKind.baseSum b l).numWires - wires.size)
          (0 : P2.GL))[0]!).val / b ^ i) % b)))
        (wires ++ Array.replicate ((GateKind.baseSum b l).numWires - wires.size) (0 : P2.GL)) := rfl
  rw [hgen, foldl_size_preserved _ (fun ws a => size_set! _ _ _)]
  exact size_pad_ge wires _

/-- `(b : GL) ≠ 0` iff the Goldilocks prime does not divide `b` -/
theorem gl_natCast_ne_zero (b : Nat) (h : ¬ GLP ∣ b) : ((b : ℕ) : P2.GL) ≠ 0 := by
  intro h0
  exact h ((ZMod.natCast_eq_zero_iff b GLP).1 h0)

/-- **C07 for the base-sum gate** (`BaseSumGate<B>` with `l` limbs) on its generated row.
Hypotheses:
* `hs` — the gate's contract: the canonical value of the sum wire (wire 0 of the zero-padded input
  row) is below `b^l`. It is needed already for the first half (otherwise the generated digits do
  not add up to the sum wire); for `l > 0` it implies `0 < b`.
* `hb` — `l ≤ 1` or the field characteristic does not divide `b`: the sum constraint (index 0) sees
  limb `i` with coefficient `b^i`; for `i > 0` that is non-zero iff `(b : GL) ≠ 0`
  (see `baseSum_con0_blind` / `baseSum_C07On_fails` for the necessity). -/
theorem baseSum_C07On (b l : Nat) (consts wires pih : Array P2.GL)
    (hb : l ≤ 1 ∨ ¬ GLP ∣ b)
    (hs : ((wires ++ Array.replicate (1 + l - wires.size) 0)[0]!).val < b ^ l) :
    C07On (.baseSum b l) consts wires pih := by
  refine ⟨baseSum_generate_sat b l consts wires pih hs, ?_⟩
  intro k hk x hx
  simp only [GateKind.generatedWires, List.mem_map, List.mem_range] at hk
  obtain ⟨i, hi, rfl⟩ := hk
  have hsz := baseSum_generate_size b l consts wires
  have hnw : (GateKind.baseSum b l).numWires = 1 + l := rfl
  have hsat : Sat (.baseSum b l) (genRow (.baseSum b l) consts wires pih) := by
    have := baseSum_generate_sat b l consts wires pih hs
    rw [evalGL_baseSum] at this
    exact this
  refine replaced_violates (.baseSum b l) consts _ pih (evalGL_baseSum b l) (1 + i) 0
    (by omega) (fun v' hd => ?_) x hx
  refine baseSum_pinned' b l _ v' i hi ?_ hd (con_eq_zero_of_sat _ _ hsat 0)
  rcases hb with hb | hb
  · exact Or.inr (by omega)
  · exact Or.inl (gl_natCast_ne_zero b hb)

/-- the usual instantiation: a base `0 < b < p` (in plonky2 `B` is a small constant, 2 or 4) -/
theorem baseSum_C07On' (b l : Nat) (consts wires pih : Array P2.GL)
    (hb : 0 < b) (hbp : b < GLP)
    (hs : ((wires ++ Array.replicate (1 + l - wires.size) 0)[0]!).val < b ^ l) :
    C07On (.baseSum b l) consts wires pih :=
  baseSum_C07On b l consts wires pih
    (Or.inr fun h => absurd (Nat.le_of_dvd hb h) (by omega)) hs

/-- with a non-empty input row the contract reads `wires[0].val < b^l` -/
theorem baseSum_C07On'' (b l : Nat) (consts wires pih : Array P2.GL)
    (hb : l ≤ 1 ∨ ¬ GLP ∣ b) (hw : 0 < wires.size) (hs : (wires[0]!).val < b ^ l) :
    C07On (.baseSum b l) consts wires pih := by
  apply baseSum_C07On b l consts wires pih hb
  have : (wires ++ Array.replicate (1 + l - wires.size) (0 : P2.GL))[0]! = wires[0]! := by
    simp only [getElem!_def, Array.getElem?_append_left hw]
  rw [this]
  exact hs

/-- **the side condition `hb` of `baseSum_C07On` is necessary**: when the Goldilocks prime divides
the base and there are at least two limbs, C07 FAILS on every in-contract generated row — limb
wire 2 can be replaced by any other value and all constraints still vanish (the sum constraint
sees it with coefficient `b = 0`, and its range check `∏_{e<b} (x − e)` has every field element as a
root). So `baseSum_C07On` holds iff `l ≤ 1 ∨ ¬ GLP ∣ b`, given the contract `hs`. -/
theorem baseSum_C07On_fails (b l : Nat) (consts wires pih : Array P2.GL)
    (hl : 2 ≤ l) (hdvd : GLP ∣ b)
    (hs : ((wires ++ Array.replicate (1 + l - wires.size) 0)[0]!).val < b ^ l) :
    ¬ C07On (.baseSum b l) consts wires pih := by
  intro hC
  have hsz := baseSum_generate_size b l consts wires
  have hnw : (GateKind.baseSum b l).numWires = 1 + l := rfl
  have hsat : Sat (.baseSum b l) (genRow (.baseSum b l) consts wires pih) := by
    have := baseSum_generate_sat b l consts wires pih hs
    rw [evalGL_baseSum] at this
    exact this
  have hb0 : ((b : ℕ) : P2.GL) = 0 := (ZMod.natCast_eq_zero_iff b GLP).2 hdvd
  have hbpos : 0 < b := by
    rcases Nat.eq_zero_or_pos b with rfl | h
    · rw [Nat.zero_pow (by omega)] at hs; omega
    · exact h
  have hble : GLP ≤ b := Nat.le_of_dvd hbpos hdvd
  have hmem : 1 + 1 ∈ (GateKind.baseSum b l).generatedWires := by
    simp only [GateKind.generatedWires, List.mem_map, List.mem_range]
    exact ⟨1, by omega, rfl⟩
  set row := (GateKind.baseSum b l).generate consts wires with hrow
  have hx : row[1 + 1]! + 1 ≠ row[1 + 1]! := by
    intro h
    exact one_ne_zero (α := P2.GL) (by linear_combination h)
  obtain ⟨c, hc, hcne⟩ := hC.2 (1 + 1) hmem (row[1 + 1]! + 1) hx
  apply hcne
  have hd : DiffersOnlyAt (genRow (.baseSum b l) consts wires pih)
      (setW (genRow (.baseSum b l) consts wires pih) (1 + 1) (row[1 + 1]! + 1)) (1 + 1) :=
    setW_differs _ _ _ (by show 1 + 1 < row.size; omega) hx
  have hsat' : Sat (.baseSum b l)
      (setW (genRow (.baseSum b l) consts wires pih) (1 + 1) (row[1 + 1]! + 1)) := by
    rw [sat_iff_con]
    intro j
    rcases Nat.eq_zero_or_pos j with rfl | hj
    · rw [baseSum_con0_blind b l _ _ 1 (by omega) (by rw [hb0, pow_one]) hd]
      exact con_eq_zero_of_sat _ _ hsat 0
    · obtain ⟨i, rfl⟩ : ∃ i, j = 1 + i := ⟨j - 1, by omega⟩
      by_cases hi1 : i = 1
      · subst hi1
        rw [baseSum_con_succ _ _ _ _ (by omega)]
        generalize (setW (genRow (.baseSum b l) consts wires pih) (1 + 1)
          (row[1 + 1]! + 1)).wires[1 + 1]! = y
        have hy : ((y.val : ℕ) : P2.GL) = y := ZMod.natCast_zmod_val (n := GLP) y
        rw [← hy]
        exact rangeCheck_natCast b _ (lt_of_lt_of_le (ZMod.val_lt (n := GLP) y) hble)
      · rw [baseSum_others b l _ _ 1 hd i hi1]
        exact con_eq_zero_of_sat _ _ hsat _
  exact hsat' c hc

/-- non-vacuity: `5 = 1 + 0·2 + 1·4`, three binary limbs -/
example : C07On (.baseSum 2 3) #[] #[5] #[] :=
  baseSum_C07On'' 2 3 _ _ _ (Or.inr (by decide)) (by decide) (by decide)

end P2.Lemmas.C07
