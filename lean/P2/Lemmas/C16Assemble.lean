/-
C16 (a), assembly: the Merkle-path part of `CompressedFriProof::decompress` on the output of
`FriProof::compress` under an honest-tree hypothesis, and the closed round trip.
-/
import P2.Lemmas.C16Glue
import P2.Lemmas.C16Paths
namespace P2.Lemmas.C16
open P2 P2.Fri P2.Merkle P2.Compress P2.Decompress
open P2.Lemmas.PathCompression (honest spec compress_spec)

theorem spec_length {D : Type} (node : Nat → D) (H n : Nat) (is : List Nat) :
    ∀ (suf pre : List Nat) (ℓ : Nat), (spec node H n is pre suf ℓ).length = suf.length := by
  intro suf
  induction suf with
  | nil => intros; rfl
  | cons i suf ih => intro pre ℓ; simp [spec, ih]

theorem compress_honest_length {D : Type} (node : Nat → D) (H c : Nat) (hc : c ≤ H) (is : List Nat)
    (his : ∀ i ∈ is, i < 2 ^ H) :
    (PathCompression.compress H c is (is.map (honest node H c))).length = is.length := by
  rw [compress_spec node H c hc is his, spec_length]

/-- first-wins at a position whose key has not occurred before -/
theorem lookupKey_zipIdx_at {γ α : Type} (key : γ → Nat) (val : γ → Nat → α) (l : List γ) (a : Nat)
    (ha : a < l.length) (hnew : (l.map key)[a]'(by simpa using ha) ∉ (l.map key).take a) :
    lookupKey ((l.zipIdx).map fun ai => (key ai.1, val ai.1 ai.2)) (key l[a]) = some (val l[a] a) := by
  have hsplit : l = l.take a ++ l[a] :: l.drop (a + 1) := by
    rw [List.getElem_cons_drop, List.take_append_drop]
  have hlen : (l.take a).length = a := by simp; omega
  have := lookupKey_zipIdx_first key val (key l[a]) (l.take a) l[a] (l.drop (a + 1)) (by
    intro b hb heq
    apply hnew
    simp only [List.getElem_map, ← List.map_take]
    exact List.mem_map.2 ⟨b, hb, heq⟩) rfl
  rw [← hsplit, hlen] at this
  exact this

theorem getD_fst {α β : Type} (l : List (α × β)) (t : Nat) (d : α × β) :
    (l.getD t d).1 = (l.map Prod.fst).getD t d.1 := by
  simp only [List.getD_eq_getElem?_getD, List.getElem?_map]
  cases l[t]? <;> rfl

theorem honest_length {D : Type} (node : Nat → D) (H c i : Nat) : (honest node H c i).length = H - c := by
  simp [honest]

/-- **(4a) initial trees.** -/
theorem initial_paths_ok (π : Fri.Proof) (idx : List Nat) (p : FriParams) (cp : CompressedFriProof)
    (hc : Compress.compress π idx p = some cp) (hwf : WF π idx p) (numInitial : Nat)
    (hnum : ∀ q ∈ π.queries, q.initial.length = numInitial) (t : Nat) (ht : t < numInitial)
    (hcap : p.config.capHeight ≤ p.ldeBits) (hidx : ∀ x ∈ idx, x < 2 ^ p.ldeBits)
    (leafAt : Nat → List GL) (node : Nat → Digest)
    (hleaf : ∀ i, i < 2 ^ p.ldeBits → node (i + 2 ^ p.ldeBits) = digestHasher.hashLeaf (leafAt i))
    (hnode : ∀ x, 1 ≤ x → x < 2 ^ p.ldeBits → node x = digestHasher.two (node (2 * x)) (node (2 * x + 1)))
    (hq : ∀ xq ∈ idx.zip π.queries, xq.2.initial.getD t ([], []) =
      (leafAt xq.1, honest node p.ldeBits p.config.capHeight xq.1)) :
    decompressPaths digestHasher
      (((idx.zip π.queries).map (rebuiltOf π idx p cp)).map fun r => (r.initial.getD t default).1) idx
      (((idx.zip π.queries).map (rebuiltOf π idx p cp)).map fun r => (r.initial.getD t default).2)
      p.ldeBits p.config.capHeight
      = some ((idx.zip π.queries).map fun xq => (xq.2.initial.getD t ([], [])).2) := by
  have hidxeq : idx = (idx.zip π.queries).map Prod.fst := by
    rw [List.map_fst_zip]; rw [hwf.1]; exact Nat.le_refl _
  generalize hzdef : idx.zip π.queries = zip at *
  have hdef : (default : List GL × List Digest) = ([], []) := rfl
  unfold decompressPaths
  rw [if_neg (by omega)]
  -- leaves
  have hleaves : (zip.map (rebuiltOf π idx p cp)).map (fun r => (r.initial.getD t default).1)
      = idx.map leafAt := by
    rw [hidxeq, List.map_map, List.map_map]
    apply List.map_congr_left
    intro xq hxq
    rcases xq with ⟨x, q⟩
    obtain ⟨e, hel, _, hefst⟩ := initial_entry π idx p cp hc hwf x q (hzdef ▸ hxq)
    simp only [Function.comp, rebuiltOf, hel, Option.getD_some]
    rw [getD_fst, hefst, ← getD_fst, hdef, hq (x, q) hxq]
  have hres : (zip.map fun xq => (xq.2.initial.getD t ([], [])).2)
      = idx.map (honest node p.ldeBits p.config.capHeight) := by
    rw [hidxeq, List.map_map]
    apply List.map_congr_left
    intro xq hxq
    rw [hq xq hxq]; rfl
  rw [hleaves, hres]
  apply roundtrip_firstwins digestHasher p.ldeBits p.config.capHeight hcap leafAt node hleaf hnode idx hidx
  · simp [hidxeq]
  · intro a h1 hnew
    have ha : a < zip.length := by rw [hidxeq] at h1; simpa using h1
    obtain ⟨q0, hq0, hl⟩ := compress_initial_lookup π idx p cp hc
    have hq0m : q0 ∈ π.queries := List.mem_of_getElem? hq0
    have hn0 : q0.initial.length = numInitial := hnum q0 hq0m
    have hat := lookupKey_zipIdx_at (fun (a : Nat × QueryRound) => a.1)
      (iniVal π idx p q0.initial.length) zip a ha (by
        have : zip.map (fun a => a.1) = idx := hidxeq.symm
        simp only [this]; exact hnew)
    have hkv := initKVs_eq π idx p q0.initial.length
    rw [hzdef] at hkv
    rw [← hkv, ← hl] at hat
    rw [List.getElem?_map, List.getElem?_map, List.getElem?_eq_getElem ha]
    simp only [Option.map_some, rebuiltOf, hat, Option.getD_some]
    have hps : (zip.map fun (x : Nat × QueryRound) => (x.2.initial.getD t ([], [])).2)
        = idx.map (honest node p.ldeBits p.config.capHeight) := hres
    have hic : initialCompressed π idx p t
        = PathCompression.compress p.ldeBits p.config.capHeight idx
            (idx.map (honest node p.ldeBits p.config.capHeight)) := by
      unfold initialCompressed
      simp only [hzdef]
      have e1 : (zip.map fun (x : Nat × QueryRound) => x.1) = idx := hidxeq.symm
      have e2 : (zip.map fun (x : Nat × QueryRound) =>
          match x with | (_, q) => (q.initial.getD t ([], [])).2)
          = idx.map (honest node p.ldeBits p.config.capHeight) := by
        rw [← hps]
      rw [e1, e2]
      have hne : idx ≠ [] := by intro h; rw [h] at h1; simp at h1
      obtain ⟨x0, rest, hx⟩ := List.exists_cons_of_ne_nil hne
      rw [hx, List.map_cons, List.headD_cons, honest_length]
      congr 1
      omega
    have hlenC : a < (PathCompression.compress p.ldeBits p.config.capHeight idx
        (idx.map (honest node p.ldeBits p.config.capHeight))).length := by
      rw [compress_honest_length node _ _ hcap idx hidx]; exact h1
    rw [List.getElem?_eq_getElem hlenC]
    congr 1
    simp only [iniVal, hn0]
    rw [hdef, List.getD_eq_getElem?_getD, List.getElem?_map, List.getElem?_range ht]
    simp only [Option.map_some, Option.getD_some, hic]
    rw [List.getD_eq_getElem?_getD, List.getElem?_eq_getElem hlenC]
    rfl

end P2.Lemmas.C16
