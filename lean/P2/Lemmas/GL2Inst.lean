/-
Helpers for `P2.Props.GL2Inst`: field-generic theorems (C05b, C10b, C02b, C07b) instantiated at the
model's own `GL2` / `GL`, proved under the local instances `glField`, `gl2Field` and stated with the
model's functions only (`GL2.add`, `GL2.mul`, …, `FOps.reduceWithPowers`, `Poly.eval`,
`Poly.lagrangeEval`, `Fri.computeEvaluation`, …).
-/
import P2.Lemmas.GL2Field
import P2.Props.C05b
import P2.Props.C10b
import P2.Props.C02b
import P2.Props.C07b

namespace P2.Lemmas.GL2Inst
open P2 P2.Lemmas.C07 P2.Lemmas.GL2Field P2.Lemmas.Alg2 Polynomial

attribute [local instance] glField gl2Field

/-! ## (i) FRI: fold identity -/

/-- the model's Horner evaluation on `GL2` is evaluation of the polynomial `ofList c` -/
theorem m_polyEval (c : List GL2) (x : GL2) : Poly.eval c x = (ofList c).eval x := by
  have := ofList_eval c x
  rw [← fops_GL2_eq] at this
  exact this.symm

/-- `reduce_with_powers` of a mapped list of length `r` as a sum over `Fin r` -/
theorem m_reduce_map {α : Type} [Inhabited α] (r : ℕ) (Ps : List α) (hlen : Ps.length = r)
    (f : α → GL2) (w : GL2) :
    FOps.reduceWithPowers (Ps.map f) w = ∑ i : Fin r, w ^ (i : ℕ) * f (Ps.getD i default) := by
  subst hlen
  rw [fops_reduceWithPowers_range, List.length_map, ← Fin.sum_univ_eq_sum_range
    (fun i => (Ps.map f).getD i 0 * w ^ i)]
  apply Finset.sum_congr rfl
  intro i _
  rw [mul_comm]
  congr 1
  simp [List.getD_eq_getElem?_getD]

/-- the coefficient lists `Ps` as a family of polynomials -/
noncomputable def polys (r : ℕ) (Ps : List (List GL2)) : Fin r → GL2[X] :=
  fun i => ofList (Ps.getD i [])

theorem m_splitEval (r : ℕ) (Ps : List (List GL2)) (hlen : Ps.length = r) (w : GL2) :
    FOps.reduceWithPowers (Ps.map fun c => Poly.eval c (FOps.pow w r)) w
      = (splitPoly (polys r Ps)).eval w := by
  rw [m_reduce_map r Ps hlen, splitPoly_eval]
  apply Finset.sum_congr rfl
  intro i _
  rw [m_polyEval, fops_pow]
  rfl

theorem m_foldEval (r : ℕ) (Ps : List (List GL2)) (hlen : Ps.length = r) (y β : GL2) :
    FOps.reduceWithPowers (Ps.map fun c => Poly.eval c y) β
      = (foldPoly (polys r Ps) β).eval y := by
  rw [m_reduce_map r Ps hlen, foldPoly_eval]
  apply Finset.sum_congr rfl
  intro i _
  rw [m_polyEval]
  rfl

/-- the coset point `s·g^j`, embedded -/
theorem ofBase_coset (s g : P2.GL) (j : ℕ) :
    GL2.ofBase (s * GL.pow g j) = GL2.ofBase s * GL2.ofBase g ^ j := by
  rw [← ofBase_GLpow]
  exact map_mul ofBaseHom s (GL.pow g j)

/-- C05b `fold_layer_complete` at `K := GL2`, `g := primitive_root_of_unity(a)` embedded, the
polynomials given by coefficient lists and evaluated by the model's `Poly.eval` -/
theorem m_fold_layer_complete (a : ℕ) (ha : a ≤ 32) (s : P2.GL) (hs : s ≠ 0)
    (Ps : List (List GL2)) (hlen : Ps.length = 2 ^ a) (β : GL2) (ev : List GL2)
    (hev : ∀ j, j < 2 ^ a → ev.getD j GL2.zero =
      FOps.reduceWithPowers (Ps.map fun c => Poly.eval c
        (FOps.pow (GL2.ofBase (s * GL.pow (GL.primitiveRoot a) j)) (2 ^ a)))
        (GL2.ofBase (s * GL.pow (GL.primitiveRoot a) j))) :
    Poly.lagrangeEval ((List.range (2 ^ a)).map fun i =>
        (GL2.ofBase (s * GL.pow (GL.primitiveRoot a) i), ev.getD i GL2.zero)) β
      = FOps.reduceWithPowers (Ps.map fun c => Poly.eval c (GL2.ofBase (GL.pow s (2 ^ a)))) β := by
  have hg := ofBase_primitiveRoot_primitive a ha
  have hs' : GL2.ofBase s ≠ 0 := (map_ne_zero ofBaseHom).2 hs
  have h := Props.C05.fold_layer_complete a (GL2.ofBase (GL.primitiveRoot a)) (GL2.ofBase s) hg hs'
    (polys (2 ^ a) Ps) β ev (by
      intro j hj
      rw [← ofBase_coset, ← m_splitEval (2 ^ a) Ps hlen]
      exact hev j hj)
  rw [← fops_GL2_eq] at h
  rw [m_foldEval (2 ^ a) Ps hlen, ofBase_GLpow, ← h]
  congr 1
  apply List.map_congr_left
  intro i _
  rw [ofBase_coset]
  rfl

/-- the value of the split polynomial at a coset point is the folded polynomial at `s^r` when `β`
is that coset point -/
theorem m_split_at_node (a : ℕ) (ha : a ≤ 32) (s : P2.GL) (Ps : List (List GL2))
    (_hlen : Ps.length = 2 ^ a) (j : ℕ) :
    (splitPoly (polys (2 ^ a) Ps)).eval (GL2.ofBase s * GL2.ofBase (GL.primitiveRoot a) ^ j)
      = (foldPoly (polys (2 ^ a) Ps)
          (GL2.ofBase s * GL2.ofBase (GL.primitiveRoot a) ^ j)).eval (GL2.ofBase s ^ 2 ^ a) := by
  have hg := ofBase_primitiveRoot_primitive a ha
  rw [splitPoly_eval_coset _ hg.pow_eq_one, cosetPoly_eval, foldPoly_eval]

/-- `cosetStart^arity = x^arity` -/
theorem m_cosetStart_pow (a : ℕ) (ha : a ≤ 32) (x : P2.GL) (m : ℕ) :
    GL2.ofBase (x * GL.pow (GL.primitiveRoot a) m) ^ 2 ^ a = GL2.ofBase (GL.pow x (2 ^ a)) := by
  have hg := ofBase_primitiveRoot_primitive a ha
  rw [ofBase_coset, coset_pow hg.pow_eq_one, ofBase_GLpow]

/-- **the fold identity for the model's `Fri.computeEvaluation`** (including its
"β is one of the points" shortcut) -/
theorem m_computeEvaluation_fold (ab : ℕ) (hab : ab ≤ 32) (x : P2.GL) (hx : x ≠ 0) (k : ℕ)
    (Ps : List (List GL2)) (hlen : Ps.length = 2 ^ ab) (β : GL2) (evals : List GL2)
    (hev : ∀ j, j < 2 ^ ab → evals.getD (BitRev.bitrev ab j) GL2.zero =
      FOps.reduceWithPowers (Ps.map fun c => Poly.eval c
        (FOps.pow (GL2.ofBase (x * GL.pow (GL.primitiveRoot ab) (2 ^ ab - BitRev.bitrev ab k)
          * GL.pow (GL.primitiveRoot ab) j)) (2 ^ ab)))
        (GL2.ofBase (x * GL.pow (GL.primitiveRoot ab) (2 ^ ab - BitRev.bitrev ab k)
          * GL.pow (GL.primitiveRoot ab) j))) :
    Fri.computeEvaluation x k ab evals β
      = FOps.reduceWithPowers
          (Ps.map fun c => Poly.eval c (GL2.ofBase (GL.pow x (2 ^ ab)))) β := by
  have hgb : (GL.primitiveRoot ab : P2.GL) ≠ 0 := primitiveRoot_ne_zero ab hab
  set s : P2.GL := x * GL.pow (GL.primitiveRoot ab) (2 ^ ab - BitRev.bitrev ab k) with hs
  have hs0 : s ≠ 0 := by
    rw [hs, GL_pow_eq]
    exact mul_ne_zero hx (pow_ne_zero _ hgb)
  set ev : List GL2 := (List.range (2 ^ ab)).map fun i =>
    evals.getD (BitRev.bitrev ab i) GL2.zero with hevdef
  have hevget : ∀ j, j < 2 ^ ab → ev.getD j GL2.zero = evals.getD (BitRev.bitrev ab j) GL2.zero := by
    intro j hj
    rw [hevdef, List.getD_eq_getElem?_getD, List.getElem?_map, List.getElem?_range hj]
    rfl
  have hev' : ∀ j, j < 2 ^ ab → ev.getD j GL2.zero =
      FOps.reduceWithPowers (Ps.map fun c => Poly.eval c
        (FOps.pow (GL2.ofBase (s * GL.pow (GL.primitiveRoot ab) j)) (2 ^ ab)))
        (GL2.ofBase (s * GL.pow (GL.primitiveRoot ab) j)) := by
    intro j hj
    rw [hevget j hj]
    exact hev j hj
  have hmain := m_fold_layer_complete ab hab s hs0 Ps hlen β ev hev'
  have hspow : GL2.ofBase (GL.pow s (2 ^ ab)) = GL2.ofBase (GL.pow x (2 ^ ab)) := by
    rw [ofBase_GLpow, hs, m_cosetStart_pow ab hab]
  rw [hspow] at hmain
  show (match ((List.range (2 ^ ab)).map fun i =>
          ((GL2.ofBase (s * GL.pow (GL.primitiveRoot ab) i), ev.getD i FOps.zero) : GL2 × GL2)).find?
          (fun pt => pt.1 == β) with
        | some pt => pt.2
        | none => Poly.lagrangeEval ((List.range (2 ^ ab)).map fun i =>
          ((GL2.ofBase (s * GL.pow (GL.primitiveRoot ab) i), ev.getD i FOps.zero) : GL2 × GL2)) β) = _
  split
  · next pt hfind =>
    have h1 := List.find?_some hfind
    have h2 := List.mem_of_find?_eq_some hfind
    rw [beq_eq, decide_eq_true_eq] at h1
    obtain ⟨j, hj, rfl⟩ := List.mem_map.1 h2
    rw [List.mem_range] at hj
    simp only at h1 ⊢
    rw [m_foldEval (2 ^ ab) Ps hlen, ← hspow, ofBase_GLpow, ← h1, ofBase_coset s _ j,
      ← m_split_at_node ab hab s Ps hlen j, ← ofBase_coset s _ j, ← m_splitEval (2 ^ ab) Ps hlen]
    exact hev' j hj
  · exact hmain

/-- C05b `fold_identity_pow2` at `K := GL2` (the evaluations are the true values) -/
theorem m_fold_identity_pow2 (a : ℕ) (ha : a ≤ 32) (s : P2.GL) (hs : s ≠ 0)
    (Ps : List (List GL2)) (hlen : Ps.length = 2 ^ a) (β : GL2) :
    Poly.lagrangeEval ((List.range (2 ^ a)).map fun j =>
        (GL2.ofBase (s * GL.pow (GL.primitiveRoot a) j),
          FOps.reduceWithPowers (Ps.map fun c => Poly.eval c
            (FOps.pow (GL2.ofBase (s * GL.pow (GL.primitiveRoot a) j)) (2 ^ a)))
            (GL2.ofBase (s * GL.pow (GL.primitiveRoot a) j)))) β
      = FOps.reduceWithPowers (Ps.map fun c => Poly.eval c (GL2.ofBase (GL.pow s (2 ^ a)))) β := by
  have hg := ofBase_primitiveRoot_primitive a ha
  have hs' : GL2.ofBase s ≠ 0 := (map_ne_zero ofBaseHom).2 hs
  have h := Props.C05.fold_identity_pow2 a (GL2.ofBase (GL.primitiveRoot a)) (GL2.ofBase s) hg hs'
    (polys (2 ^ a) Ps) β
  rw [← fops_GL2_eq] at h
  rw [m_foldEval (2 ^ a) Ps hlen, ofBase_GLpow, ← h]
  congr 1
  apply List.map_congr_left
  intro j _
  rw [m_splitEval (2 ^ a) Ps hlen, ofBase_coset]

/-! ## (i) FRI: the fold in coefficient form -/

/-- the construction inside `Alg2.exists_splitPoly_of_natDegree_lt`, made explicit -/
theorem splitPoly_explicit {K : Type} [Field K] (P : K[X]) (d r : ℕ) (hlt : P.natDegree < d * r) :
    splitPoly (fun i : Fin r => ∑ k : Fin d, C (P.coeff ((i : ℕ) + r * k)) * X ^ (k : ℕ)) = P := by
  conv_rhs => rw [P.as_sum_range' (d * r) hlt]
  rw [← Fin.sum_univ_eq_sum_range (fun n => monomial n (P.coeff n)) (d * r),
    ← Fintype.sum_equiv finProdFinEquiv
      (fun x : Fin d × Fin r => monomial ((x.2 : ℕ) + r * x.1) (P.coeff ((x.2 : ℕ) + r * x.1)))
      (fun n : Fin (d * r) => monomial (n : ℕ) (P.coeff n)) (fun x => rfl),
    Fintype.sum_prod_type, Finset.sum_comm]
  unfold splitPoly
  apply Finset.sum_congr rfl
  intro i _
  simp only []
  rw [Polynomial.sum_comp, Finset.mul_sum]
  apply Finset.sum_congr rfl
  intro k _
  rw [mul_comp, C_comp, X_pow_comp, ← C_mul_X_pow_eq_monomial, pow_add, pow_mul]
  ring

theorem m_polyEval_range (c : List GL2) (x : GL2) :
    Poly.eval c x = ∑ i ∈ Finset.range c.length, c.getD i 0 * x ^ i :=
  fops_reduceWithPowers_range c x

theorem getD_range_map {α : Type} (n : ℕ) (f : ℕ → α) (d0 : α) (i : ℕ) (hi : i < n) :
    ((List.range n).map f).getD i d0 = f i := by
  rw [List.getD_eq_getElem?_getD, List.getElem?_map, List.getElem?_range hi]
  rfl

/-- the strided parts of a coefficient list: `P_i = Σ_{m<d} c[i + r·m]·Y^m`, `i < r` -/
def strided (r d : ℕ) (c : List GL2) : List (List GL2) :=
  (List.range r).map fun i => (List.range d).map fun m => c.getD (i + r * m) GL2.zero

theorem strided_length (r d : ℕ) (c : List GL2) : (strided r d c).length = r := by
  simp [strided]

theorem ofList_range_map (d : ℕ) (f : ℕ → GL2) :
    ofList ((List.range d).map f) = ∑ k : Fin d, C (f k) * X ^ (k : ℕ) := by
  ext m
  rw [ofList_coeff, finsetSum_coeff]
  simp only [coeff_C_mul, coeff_X_pow]
  by_cases hm : m < d
  · rw [getD_range_map d f 0 m hm, Finset.sum_eq_single (⟨m, hm⟩ : Fin d)]
    · simp
    · intro b _ hb
      have : m ≠ (b : ℕ) := fun e => hb (Fin.ext e.symm)
      simp [this]
    · simp
  · rw [List.getD_eq_getElem?_getD, List.getElem?_eq_none (by simp; omega)]
    symm
    apply Finset.sum_eq_zero
    intro b _
    have : m ≠ (b : ℕ) := by have := b.2; omega
    simp [this]

theorem splitPoly_strided (r d : ℕ) (c : List GL2) (hd : 0 < d) (hr : 0 < r)
    (hc : c.length ≤ d * r) : splitPoly (polys r (strided r d c)) = ofList c := by
  have hlt : (ofList c).natDegree < d * r := by
    by_cases h0 : ofList c = 0
    · rw [h0, natDegree_zero]; exact Nat.mul_pos hd hr
    · rw [natDegree_lt_iff_degree_lt h0]
      exact lt_of_lt_of_le (ofList_degree_lt c) (by exact_mod_cast hc)
  have hpolys : polys r (strided r d c)
      = fun i : Fin r => ∑ k : Fin d, C ((ofList c).coeff ((i : ℕ) + r * k)) * X ^ (k : ℕ) := by
    funext i
    unfold polys strided
    rw [getD_range_map r _ [] i i.2, ofList_range_map]
    apply Finset.sum_congr rfl
    intro k _
    rw [ofList_coeff]
    rfl
  rw [hpolys]
  exact splitPoly_explicit (ofList c) d r hlt

/-- `Σ_i w^i · P_i(w^r) = P(w)` for the strided parts, on the model's functions -/
theorem m_strided_split (r d : ℕ) (c : List GL2) (hd : 0 < d) (hr : 0 < r)
    (hc : c.length ≤ d * r) (w : GL2) :
    FOps.reduceWithPowers ((strided r d c).map fun p => Poly.eval p (FOps.pow w r)) w
      = Poly.eval c w := by
  rw [m_splitEval r _ (strided_length r d c), splitPoly_strided r d c hd hr hc, m_polyEval]

/-- the prover's fold in coefficient form: coefficient `m` of `Σ_i β^i P_i` is
`reduce_with_powers` of the `m`-th chunk of `r` coefficients at `β` -/
theorem m_strided_fold (r d : ℕ) (c : List GL2) (y β : GL2) :
    FOps.reduceWithPowers ((strided r d c).map fun p => Poly.eval p y) β
      = Poly.eval ((List.range d).map fun m =>
          FOps.reduceWithPowers ((List.range r).map fun i => c.getD (i + r * m) GL2.zero) β) y := by
  rw [m_reduce_map r _ (strided_length r d c), m_polyEval_range, List.length_map, List.length_range,
    Fin.sum_univ_eq_sum_range (fun i => β ^ i * Poly.eval ((strided r d c).getD i default) y)]
  have h1 : ∀ i ∈ Finset.range r, β ^ i * Poly.eval ((strided r d c).getD i default) y
      = ∑ m ∈ Finset.range d, β ^ i * (c.getD (i + r * m) 0 * y ^ m) := by
    intro i hi
    rw [Finset.mem_range] at hi
    unfold strided
    rw [getD_range_map r _ default i hi, m_polyEval_range, List.length_map, List.length_range,
      Finset.mul_sum]
    apply Finset.sum_congr rfl
    intro m hm
    rw [getD_range_map d _ 0 m (Finset.mem_range.1 hm)]
    rfl
  have h2 : ∀ m ∈ Finset.range d,
      ((List.range d).map fun m => FOps.reduceWithPowers
        ((List.range r).map fun i => c.getD (i + r * m) GL2.zero) β).getD m 0 * y ^ m
      = ∑ i ∈ Finset.range r, β ^ i * (c.getD (i + r * m) 0 * y ^ m) := by
    intro m hm
    rw [getD_range_map d _ 0 m (Finset.mem_range.1 hm), fops_reduceWithPowers_range,
      List.length_map, List.length_range, Finset.sum_mul]
    apply Finset.sum_congr rfl
    intro i hi
    rw [getD_range_map r _ 0 i (Finset.mem_range.1 hi)]
    show c.getD (i + r * m) 0 * β ^ i * y ^ m = _
    ring
  rw [Finset.sum_congr rfl h1, Finset.sum_congr rfl h2, Finset.sum_comm]

/-- the fold identity for `Fri.computeEvaluation` with the polynomial given by ONE coefficient list
and the folded polynomial by the prover's folded coefficient list -/
theorem m_computeEvaluation_fold_coeffs (ab : ℕ) (hab : ab ≤ 32) (x : P2.GL) (hx : x ≠ 0) (k : ℕ)
    (c : List GL2) (d : ℕ) (hd : 0 < d) (hc : c.length ≤ d * 2 ^ ab) (β : GL2) (evals : List GL2)
    (hev : ∀ j, j < 2 ^ ab → evals.getD (BitRev.bitrev ab j) GL2.zero =
      Poly.eval c (GL2.ofBase (x * GL.pow (GL.primitiveRoot ab) (2 ^ ab - BitRev.bitrev ab k)
        * GL.pow (GL.primitiveRoot ab) j))) :
    Fri.computeEvaluation x k ab evals β
      = Poly.eval ((List.range d).map fun m => FOps.reduceWithPowers
          ((List.range (2 ^ ab)).map fun i => c.getD (i + 2 ^ ab * m) GL2.zero) β)
          (GL2.ofBase (GL.pow x (2 ^ ab))) := by
  rw [← m_strided_fold]
  apply m_computeEvaluation_fold ab hab x hx k _ (strided_length _ d c)
  intro j hj
  rw [m_strided_split (2 ^ ab) d c hd (Nat.two_pow_pos ab) hc]
  exact hev j hj

/-! ## (i) FRI: combining openings -/

theorem m_combine_identity_lists (cs : List (List GL2)) (α z x : GL2) (hx : x ≠ z) :
    GL2.mul (GL2.sub (Fri.reduceExt (cs.map fun c => Poly.eval c x) α)
        (Fri.reduceExt (cs.map fun c => Poly.eval c z) α)) (GL2.inv (GL2.sub x z))
      = Fri.reduceExt (cs.map fun c => Poly.eval (Poly.divideByLinear c z) x) α := by
  have h := Props.C05.combine_identity_lists cs α z x hx
  rw [← fops_GL2_eq] at h
  exact h

/-- C05b `combine_soundness` at `K := GL2`, the polynomials given by coefficient lists; divisibility
of the batched numerator by `X − z` is expressed by its value at `z` -/
theorem m_combine_soundness (cs : List (List GL2)) (vs : List GL2) (hlen : vs.length = cs.length)
    (z : GL2) (hbad : ∃ k, k < cs.length ∧ vs.getD k GL2.zero ≠ Poly.eval (cs.getD k []) z)
    (A : Finset GL2)
    (hA : ∀ α ∈ A, Fri.reduceExt (cs.map fun c => Poly.eval c z) α = Fri.reduceExt vs α) :
    A.card ≤ cs.length - 1 := by
  apply Props.C05.combine_soundness cs.length (fun k => ofList (cs.getD k []))
    (fun k => vs.getD k 0) z
  · obtain ⟨k, hk, hne⟩ := hbad
    exact ⟨k, hk, by rw [← m_polyEval]; exact hne⟩
  · intro α hα
    have h := hA α hα
    change FOps.reduceWithPowers (cs.map fun c => Poly.eval c z) α = FOps.reduceWithPowers vs α at h
    rw [m_reduce_map cs.length cs rfl, fops_reduceWithPowers_range vs α, hlen,
      Fin.sum_univ_eq_sum_range (fun i => α ^ i * Poly.eval (cs.getD i default) z)] at h
    rw [dvd_iff_isRoot, IsRoot.def, eval_finsetSum]
    calc ∑ k ∈ Finset.range cs.length, eval z (C (α ^ k) * (ofList (cs.getD k []) - C (vs.getD k 0)))
        = ∑ k ∈ Finset.range cs.length, α ^ k * Poly.eval (cs.getD k default) z
          - ∑ k ∈ Finset.range cs.length, vs.getD k 0 * α ^ k := by
          rw [← Finset.sum_sub_distrib]
          apply Finset.sum_congr rfl
          intro k _
          rw [eval_mul, eval_C, eval_sub, eval_C, m_polyEval]
          show α ^ k * (eval z (ofList (cs.getD k [])) - vs.getD k 0)
            = α ^ k * eval z (ofList (cs.getD k [])) - vs.getD k 0 * α ^ k
          ring
      _ = 0 := by rw [h, sub_self]

/-- … in the quotient form: if for every `α ∈ A` some coefficient list `q` is a quotient of the
batched numerator by `X − z` (as functions), the same bound holds -/
theorem m_combine_soundness_quotient (cs : List (List GL2)) (vs : List GL2)
    (hlen : vs.length = cs.length) (z : GL2)
    (hbad : ∃ k, k < cs.length ∧ vs.getD k GL2.zero ≠ Poly.eval (cs.getD k []) z)
    (A : Finset GL2)
    (hA : ∀ α ∈ A, ∃ q : List GL2, ∀ x : GL2,
      GL2.sub (Fri.reduceExt (cs.map fun c => Poly.eval c x) α) (Fri.reduceExt vs α)
        = GL2.mul (Poly.eval q x) (GL2.sub x z)) :
    A.card ≤ cs.length - 1 := by
  apply m_combine_soundness cs vs hlen z hbad A
  intro α hα
  obtain ⟨q, hq⟩ := hA α hα
  have h := hq z
  rw [sub_def, sub_def, mul_def, sub_self, mul_zero, sub_eq_zero] at h
  exact h

/-! ## sums and products of the model (`FOps.sum`, `FOps.prod` are left folds) -/

theorem m_fops_sum (xs : List GL2) : FOps.sum xs = xs.sum := (List.sum_eq_foldl (xs := xs)).symm
theorem m_fops_prod (xs : List GL2) : FOps.prod xs = xs.prod := (List.prod_eq_foldl (xs := xs)).symm

theorem m_sum_range (n : ℕ) (d : ℕ → GL2) :
    FOps.sum ((List.range n).map d) = ∑ r ∈ Finset.range n, d r := by
  rw [m_fops_sum]
  induction n with
  | zero => rfl
  | succ n ih => rw [Finset.sum_range_succ, ← ih, List.range_succ, List.map_append, List.sum_append]; simp

theorem m_prod_range (n : ℕ) (d : ℕ → GL2) :
    FOps.prod ((List.range n).map d) = ∏ r ∈ Finset.range n, d r := by
  rw [m_fops_prod]
  induction n with
  | zero => rfl
  | succ n ih => rw [Finset.prod_range_succ, ← ih, List.range_succ, List.map_append, List.prod_append]; simp

/-! ## (ii) logUp (C10b) -/

theorem m_running_sum_telescopes (n : ℕ) (Z d : ℕ → GL2)
    (h : ∀ r, r < n → GL2.sub (Z ((r + 1) % n)) (Z r) = d r) :
    FOps.sum ((List.range n).map d) = GL2.zero := by
  rw [m_sum_range]
  exact Props.C10b.running_sum_telescopes n Z d h

theorem m_logup_running_sum (n : ℕ) (Z hs t m : ℕ → GL2) (α : GL2)
    (ht : ∀ r, r < n → GL2.add (t r) α ≠ GL2.zero)
    (h : ∀ r, r < n → GL2.mul (GL2.sub (Z ((r + 1) % n)) (Z r)) (GL2.add (t r) α)
      = GL2.sub (GL2.mul (hs r) (GL2.add (t r) α)) (m r)) :
    FOps.sum ((List.range n).map fun r =>
      GL2.sub (hs r) (GL2.mul (m r) (GL2.inv (GL2.add (t r) α)))) = GL2.zero := by
  rw [m_sum_range]
  exact Props.C10b.logup_running_sum n Z hs t m α ht h

/-! ## (iii) partial products (C02b) -/

theorem m_checkPartialProducts_sound (nums dens partials : List GL2) (zx zgx : GL2) (d : ℕ)
    (hd : 0 < d) (hlen : nums.length = dens.length)
    (hp : partials.length + 1 = (nums.length + d - 1) / d)
    (h : ∀ t ∈ Plonk.checkPartialProducts nums dens partials zx zgx d, t = GL2.zero) :
    GL2.mul zgx (FOps.prod dens) = GL2.mul zx (FOps.prod nums) := by
  have := Props.C02.checkPartialProducts_sound nums dens partials zx zgx d hd hlen hp
  rw [← fops_GL2_eq] at this
  rw [m_fops_prod, m_fops_prod]
  exact this h

theorem m_checkPartialProducts_complete (nums dens partials : List GL2) (zx zgx : GL2) (d : ℕ)
    (hd : 0 < d) (hlen : nums.length = dens.length)
    (hp : partials.length + 1 = (nums.length + d - 1) / d)
    (hne : ∀ x ∈ dens, x ≠ GL2.zero)
    (hpart : ∀ i, i < partials.length →
      partials.getD i GL2.zero = GL2.mul zx (FOps.prod ((List.range (i + 1)).map fun k =>
        GL2.mul (FOps.prod ((nums.drop (k * d)).take d))
          (GL2.inv (FOps.prod ((dens.drop (k * d)).take d))))))
    (hz : zgx = GL2.mul zx (FOps.prod ((List.range ((nums.length + d - 1) / d)).map fun k =>
        GL2.mul (FOps.prod ((nums.drop (k * d)).take d))
          (GL2.inv (FOps.prod ((dens.drop (k * d)).take d)))))) :
    ∀ t ∈ Plonk.checkPartialProducts nums dens partials zx zgx d, t = GL2.zero := by
  have := Props.C02.checkPartialProducts_complete nums dens partials zx zgx d hd hlen hp hne
    (by
      intro i hi
      refine (hpart i hi).trans ?_
      rw [m_prod_range]
      simp only [m_fops_prod]
      rfl)
    (by
      refine hz.trans ?_
      rw [m_prod_range]
      simp only [m_fops_prod]
      rfl)
  rw [← fops_GL2_eq] at this
  exact this

/-! ## (iv) gates over the base field `GL` (C07b at `K := GL`) -/

section Gates
open P2.Gates

theorem g_arithmetic_sat_iff (n : ℕ) (v : EvalVars P2.GL) :
    (∀ c ∈ (GateKind.arithmetic n).evalUnfiltered v, c = 0) ↔ ∀ i, i < n →
      v.wires[4 * i + 3]! = v.wires[4 * i]! * v.wires[4 * i + 1]! * v.constants[0]!
        + v.wires[4 * i + 2]! * v.constants[1]! :=
  Props.C07.arithmetic_sat_iff n v

theorem g_baseSum_pinned_sat (b l s : ℕ) (hs : s < b ^ l) (hbl : b ^ l ≤ GLP)
    (v v' : EvalVars P2.GL) (i : ℕ) (hi : i < l) (hd : DiffersOnlyAt v v' (1 + i))
    (hsat : ∀ c ∈ (GateKind.baseSum b l).evalUnfiltered v, c = 0)
    (h0 : v.wires[0]! = GL.ofNat s) :
    ¬ ∀ c ∈ (GateKind.baseSum b l).evalUnfiltered v', c = 0 :=
  haveI : CharP P2.GL GLP := ZMod.charP GLP
  Props.C07.baseSum_pinned_sat b l s hs
    (Props.C07.natCast_inj_of_charP GLP (b ^ l) (Or.inl hbl)) v v' i hi hd hsat h0

theorem g_baseSum_sat_unique (b l s : ℕ) (hs : s < b ^ l) (hbl : b ^ l ≤ GLP)
    (v : EvalVars P2.GL) (hsat : ∀ c ∈ (GateKind.baseSum b l).evalUnfiltered v, c = 0)
    (h0 : v.wires[0]! = GL.ofNat s) :
    ∀ i, i < l → v.wires[1 + i]! = GL.ofNat ((s / b ^ i) % b) :=
  haveI : CharP P2.GL GLP := ZMod.charP GLP
  Props.C07.baseSum_sat_unique b l s hs
    (Props.C07.natCast_inj_of_charP GLP (b ^ l) (Or.inl hbl)) v hsat h0

theorem g_exponentiation_semantics (n : ℕ) (hn : 1 ≤ n) (v : EvalVars P2.GL)
    (hb : ∀ i, i < n → v.wires[1 + i]! = 0 ∨ v.wires[1 + i]! = 1)
    (hs : ∀ c ∈ (GateKind.exponentiation n).evalUnfiltered v, c = 0) :
    v.wires[1 + n]! = GL.pow v.wires[0]!
      (∑ j ∈ Finset.range n, (if v.wires[1 + j]! = 1 then 1 else 0) * 2 ^ j) := by
  rw [GL_pow_eq]
  exact Props.C07.exponentiation_semantics n hn v hb hs

end Gates

end P2.Lemmas.GL2Inst
