/-
Heap-addressed true node digests of the textbook Merkle tree (leaf `i` is node `i + 2^H`, the root
is node `1`), and the identification of `merkleTreeProve`'s output with the list of sibling digests.
-/
import P2.Lemmas.Merkle
namespace P2.Lemmas.Merkle
open P2.Merkle

variable {L D : Type}

/-- true digest of heap node `x` of the tree over `leaves` (`2^H` of them) -/
def nodeOf [Inhabited D] (h : Hasher L D) (H : Nat) (leaves : List L) (x : Nat) : D :=
  ((lv h (H - Nat.log2 x) (leaves.map h.hashLeaf))[x - 2 ^ Nat.log2 x]?).getD default

theorem nodeOf_layer [Inhabited D] (h : Hasher L D) (H : Nat) (leaves : List L)
    (hl : leaves.length = 2 ^ H) (a x : Nat) (ha : a ≤ H) (h1 : 2 ^ a ≤ x) (h2 : x < 2 ^ (a + 1)) :
    (lv h (H - a) (leaves.map h.hashLeaf))[x - 2 ^ a]? = some (nodeOf h H leaves x) := by
  have hx : x ≠ 0 := by have := Nat.two_pow_pos a; omega
  have hlog : Nat.log2 x = a := (Nat.log2_eq_iff hx).mpr ⟨h1, h2⟩
  have hlen := lv_length h H (H - a) (leaves.map h.hashLeaf) (by simpa using hl) (by omega)
  rw [show H - (H - a) = a by omega] at hlen
  have hlt : x - 2 ^ a < (lv h (H - a) (leaves.map h.hashLeaf)).length := by
    rw [hlen]; rw [Nat.pow_succ] at h2; omega
  unfold nodeOf
  rw [hlog, List.getElem?_eq_getElem hlt]
  simp

theorem nodeOf_leaf [Inhabited D] (h : Hasher L D) (H : Nat) (leaves : List L)
    (hl : leaves.length = 2 ^ H) (i : Nat) (hi : i < 2 ^ H) :
    nodeOf h H leaves (i + 2 ^ H) = h.hashLeaf (leaves[i]'(by omega)) := by
  have := nodeOf_layer h H leaves hl H (i + 2 ^ H) (Nat.le_refl _) (by omega)
    (by rw [Nat.pow_succ]; omega)
  simp only [Nat.sub_self, lv, Nat.add_sub_cancel, List.getElem?_map] at this
  rw [List.getElem?_eq_getElem (by omega)] at this
  simpa using this.symm

theorem nodeOf_two [Inhabited D] (h : Hasher L D) (H : Nat) (leaves : List L)
    (hl : leaves.length = 2 ^ H) (x : Nat) (hx1 : 1 ≤ x) (hx2 : x < 2 ^ H) :
    nodeOf h H leaves x = h.two (nodeOf h H leaves (2 * x)) (nodeOf h H leaves (2 * x + 1)) := by
  have hx : x ≠ 0 := by omega
  obtain ⟨h1, h2⟩ := (Nat.log2_eq_iff hx).mp rfl
  have ha : Nat.log2 x < H := (Nat.log2_lt hx).mpr hx2
  generalize Nat.log2 x = a at h1 h2 ha
  have e0 := nodeOf_layer h H leaves hl a x (by omega) h1 h2
  have e1 := nodeOf_layer h H leaves hl (a + 1) (2 * x) (by omega)
    (by rw [Nat.pow_succ]; omega) (by rw [Nat.pow_succ 2 (a + 1)]; omega)
  have e2 := nodeOf_layer h H leaves hl (a + 1) (2 * x + 1) (by omega)
    (by rw [Nat.pow_succ]; omega) (by rw [Nat.pow_succ 2 (a + 1)]; omega)
  rw [show 2 * x - 2 ^ (a + 1) = 2 * (x - 2 ^ a) by rw [Nat.pow_succ]; omega] at e1
  rw [show 2 * x + 1 - 2 ^ (a + 1) = 2 * (x - 2 ^ a) + 1 by rw [Nat.pow_succ]; omega] at e2
  have e3 := levelUp_getElem? h _ _ _ _ e1 e2
  rw [show H - a = (H - (a + 1)) + 1 by omega, lv, e3] at e0
  simpa using e0.symm

/-- heap address of the sibling of the `j`-th ancestor of leaf `i`, split into layer base and
position -/
theorem sib_heap {H j : Nat} (hj : j < H) (i : Nat) (hi : i < 2 ^ H) :
    ((i + 2 ^ H) / 2 ^ j) ^^^ 1 = 2 ^ (H - j) + ((i / 2 ^ j) ^^^ 1) ∧
      (i / 2 ^ j) ^^^ 1 < 2 ^ (H - j) := by
  obtain ⟨_, e2⟩ := sib_pos_split hj 0 i hi
  refine ⟨?_, e2⟩
  rw [Nat.add_comm, div_shift (show j ≤ H by omega)]
  have e : H - j = (H - (j + 1)) + 1 := by omega
  have hE : 2 ^ (H - j) = 2 * 2 ^ (H - (j + 1)) := by rw [e, Nat.pow_succ, Nat.mul_comm]
  rw [xor_one_eq, xor_one_eq, hE]
  generalize 2 ^ (H - (j + 1)) = E
  generalize i / 2 ^ j = q
  split <;> split <;> omega

/-- the honest proof of leaf `i`, as sibling digests in heap addressing -/
def honestOf [Inhabited D] (h : Hasher L D) (H c : Nat) (leaves : List L) (i : Nat) : List D :=
  (List.range (H - c)).map fun j => nodeOf h H leaves (((i + 2 ^ H) / 2 ^ j) ^^^ 1)

theorem merkleTreeProve_eq_honest [Inhabited D] (h : Hasher L D) (H c : Nat)
    (leaves : List L) (hl : leaves.length = 2 ^ H) (hc : c ≤ H) (i : Nat) (hi : i < 2 ^ H) :
    merkleTreeProve i (2 ^ H) H c (build h H c leaves).1 = some (honestOf h H c leaves i) := by
  classical
  obtain ⟨cap, hcap⟩ : ∃ cap : List D, (build h H c leaves).2 = cap.map some := by
    have hpow : 2 ^ H = 2 ^ c * 2 ^ (H - c) := by rw [← Nat.pow_add]; congr 1; omega
    exact ⟨_, by
      rw [build_eq h H c leaves hl hc, List.map_map]
      exact chunk_roots h (H - c) (2 ^ c) leaves (by rw [hl, hpow])⟩
  obtain ⟨π, h1, h2, h3, _⟩ := prove_spec_whole h H c leaves hl hc i hi cap hcap
  rw [h1]
  congr 1
  apply List.ext_getElem?
  intro j
  by_cases hj : j < H - c
  · obtain ⟨e1, e2⟩ := sib_heap (show j < H by omega) i hi
    have := nodeOf_layer h H leaves hl (H - j) (((i + 2 ^ H) / 2 ^ j) ^^^ 1) (by omega)
      (by omega) (by rw [Nat.pow_succ]; omega)
    rw [show H - (H - j) = j by omega, e1, Nat.add_sub_cancel_left, ← e1] at this
    rw [h3 j hj, this]
    simp [honestOf, hj]
  · rw [List.getElem?_eq_none (by omega), List.getElem?_eq_none (by simp [honestOf]; omega)]

end P2.Lemmas.Merkle
