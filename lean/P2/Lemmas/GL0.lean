/-
Helper lemmas for the L0 Goldilocks model: branch arithmetic over plain `Nat`s (by `omega`)
and thin connecting proofs.  Core Lean only.
-/
import P2.Model.Goldilocks
import P2.Model.GlExt

namespace P2.L0

-- literal spellings (so that `omega` sees numerals, not the opaque constants)
local notation "Wl" => 18446744073709551616
local notation "Pl" => 18446744069414584321
local notation "El" => 4294967295
local notation "W32l" => 4294967296
local notation "W128l" => 340282366920938463463374607431768211456

/-- `r` is a trap-free machine word congruent to `x` modulo `P`. -/
def Good (r : Res) (x : Nat) : Prop :=
  r.trap = false ∧ r.val < Wl ∧ r.val % Pl = x % Pl

theorem Good.congr {r : Res} {x y : Nat} (h : Good r x) (e : x % Pl = y % Pl) : Good r y :=
  ⟨h.1, h.2.1, h.2.2.trans e⟩

/-! ### primitives -/

theorem oadd64_of_lt {a b : Nat} (h : a + b < Wl) : oadd64 a b = (a + b, false) := by
  have h1 : (a + b) % Wl = a + b := Nat.mod_eq_of_lt h
  have h2 : ¬ Wl ≤ a + b := by omega
  simp only [oadd64, W64, h1, h2, decide_false]

theorem oadd64_of_ge {a b : Nat} (h : Wl ≤ a + b) (h' : a + b < 36893488147419103232) :
    oadd64 a b = (a + b - Wl, true) := by
  have h1 : (a + b) % Wl = a + b - Wl := by omega
  simp only [oadd64, W64, h1, h, decide_true]

theorem osub64_of_le {a b : Nat} (h : b ≤ a) : osub64 a b = (a - b, false) := by
  simp only [osub64, h, if_true]

theorem osub64_of_lt {a b : Nat} (h : a < b) : osub64 a b = (a + Wl - b, true) := by
  have h1 : ¬ b ≤ a := by omega
  simp only [osub64, W64, h1, if_false]

theorem cadd64_of_lt {a b : Nat} (h : a + b < Wl) : cadd64 a b = ⟨a + b, false⟩ := by
  have h1 : (a + b) % Wl = a + b := Nat.mod_eq_of_lt h
  have h2 : ¬ Wl ≤ a + b := by omega
  simp only [cadd64, W64, h1, h2, decide_false]

theorem csub64_of_le {a b : Nat} (h : b ≤ a) : csub64 a b = ⟨a - b, false⟩ := by
  simp only [csub64, h, if_true]

/-! ### glAdd / glSub / glNeg -/

theorem glAdd_good (a b : Nat) (ha : a < Wl) (hb : b < Wl) : Good (glAdd a b) (a + b) := by
  unfold Good glAdd
  by_cases h1 : Wl ≤ a + b
  · rw [oadd64_of_ge h1 (by omega)]
    simp only [↓reduceIte, EPS]
    by_cases h2 : Wl ≤ a + b - Wl + El
    · rw [oadd64_of_ge h2 (by omega)]
      simp only [↓reduceIte]
      rw [cadd64_of_lt (by omega)]
      have h3 : Pl < a := by omega
      have h4 : Pl < b := by omega
      simp only [P, h3, h4, decide_true, Bool.and_self, Bool.not_true, Bool.or_self, true_and]
      omega
    · rw [oadd64_of_lt (by omega)]
      simp only [Bool.false_eq_true, ↓reduceIte, true_and]
      omega
  · rw [oadd64_of_lt (by omega)]
    simp only [Bool.false_eq_true, ↓reduceIte]
    rw [oadd64_of_lt (by omega)]
    simp only [Bool.false_eq_true, ↓reduceIte, true_and]
    omega

theorem glSub_good (a b : Nat) (ha : a < Wl) (hb : b < Wl) :
    (glSub a b).trap = false ∧ (glSub a b).val < Wl ∧ ((glSub a b).val + b) % Pl = a % Pl := by
  unfold glSub
  by_cases h1 : b ≤ a
  · rw [osub64_of_le h1]
    simp only [Bool.false_eq_true, ↓reduceIte]
    rw [osub64_of_le (Nat.zero_le _)]
    simp only [Bool.false_eq_true, ↓reduceIte, true_and]
    omega
  · rw [osub64_of_lt (by omega)]
    simp only [↓reduceIte]
    by_cases h2 : El ≤ a + Wl - b
    · rw [show EPS = El from rfl, osub64_of_le h2]
      simp only [Bool.false_eq_true, ↓reduceIte, true_and]
      omega
    · have h3 : a < El - 1 := by omega
      have h4 : Pl < b := by omega
      rw [show EPS = El from rfl, show P = Pl from rfl]
      simp only [h3, h4, decide_true, Bool.and_self, Bool.not_true, Bool.or_false]
      have h5 : a + Wl - b < El := by omega
      have h6 : El ≤ a + Wl - b + Wl - El := by omega
      -- rewrite `csub64` *before* projections are reduced: the kernel must never unfold
      -- `csub64 (_ - 4294967295) _` (unary recursion on the literal)
      rw [osub64_of_lt h5, if_pos rfl,
        csub64_of_le (show El ≤ (a + Wl - b + Wl - El, true).fst from h6)]
      simp only [true_and]
      omega

theorem toCanonical_eq (a : Nat) (ha : a < Wl) : toCanonical a = a % Pl := by
  unfold toCanonical
  rw [show P = Pl from rfl]
  by_cases h : Pl ≤ a
  · rw [if_pos h]; omega
  · rw [if_neg h]; omega

theorem glNeg_good (a : Nat) (ha : a < Wl) :
    (glNeg a).trap = false ∧ (glNeg a).val < Pl ∧ ((glNeg a).val + a) % Pl = 0 := by
  unfold glNeg
  rw [toCanonical_eq a ha]
  by_cases h : a % Pl = 0
  · rw [if_pos h]
    refine ⟨rfl, ?_, ?_⟩
    · show 0 < Pl
      omega
    · show (0 + a) % Pl = 0
      omega
  · simp only [h, ↓reduceIte, P]
    rw [csub64_of_le (by omega)]
    simp only [true_and]
    omega

/-! ### addNoCanon and the reductions -/

/-- `add_no_canonicalize_trashing_input`: fine as long as `x + y < 2^64 + P`. -/
theorem addNoCanon_spec (x y : Nat) (_hx : x < Wl) (_hy : y < Wl)
    (hxy : x + y < 36893488143124135937) :
    (addNoCanon x y).trap = false ∧ (addNoCanon x y).val < Wl ∧
      ((addNoCanon x y).val = x + y ∨ (addNoCanon x y).val + Pl = x + y) := by
  unfold addNoCanon
  by_cases h1 : Wl ≤ x + y
  · rw [oadd64_of_ge h1 (by omega)]
    simp only [↓reduceIte, EPS]
    rw [cadd64_of_lt (by omega)]
    simp only [true_and]
    omega
  · rw [oadd64_of_lt (by omega)]
    simp only [Bool.false_eq_true, ↓reduceIte]
    rw [cadd64_of_lt (by omega)]
    simp only [true_and]
    omega

theorem reduce96_good (xlo xhi : Nat) (h1 : xlo < Wl) (h2 : xhi < W32l) :
    Good (reduce96 xlo xhi) (xlo + xhi * Wl) := by
  unfold Good reduce96
  simp only [EPS, W64]
  have ht : xhi * El < Wl := by omega
  have ht' : ¬ Wl ≤ xhi * El := by omega
  rw [Nat.mod_eq_of_lt ht]
  obtain ⟨a1, a2, a3⟩ := addNoCanon_spec xlo (xhi * El) h1 (by omega) (by omega)
  simp only [a1, ht', decide_false, Bool.or_false, true_and]
  omega

/-- common tail of `reduce128` / `reduce160` -/
def redTail (xlo s m : Nat) : Res :=
  let b := osub64 xlo s
  let t0 : Res := if b.2 then csub64 b.1 EPS else ⟨b.1, false⟩
  let t1 := m * EPS
  let r := addNoCanon t0.val (t1 % W64)
  ⟨r.val, r.trap || t0.trap || decide (W64 ≤ t1)⟩

theorem reduce128_eq (x : Nat) : reduce128 x = redTail (x % Wl) (x / Wl / W32l) (x / Wl % W32l) := rfl

theorem reduce160_eq (xlo128 xhi32 : Nat) :
    reduce160 xlo128 xhi32 =
      ⟨(redTail (xlo128 % Wl) ((xlo128 / 79228162514264337593543950336 + xhi32 * W32l) % Wl)
          (xlo128 / Wl % W32l)).val,
       (redTail (xlo128 % Wl) ((xlo128 / 79228162514264337593543950336 + xhi32 * W32l) % Wl)
          (xlo128 / Wl % W32l)).trap ||
        decide (Wl ≤ xlo128 / 79228162514264337593543950336 + xhi32 * W32l)⟩ := rfl

theorem redTail_spec (xlo s m : Nat) (h1 : xlo < Wl) (h2 : s ≤ xlo + Pl) (h3 : m < W32l) :
    (redTail xlo s m).trap = false ∧ (redTail xlo s m).val < Wl ∧
      ((redTail xlo s m).val + s) % Pl = (xlo + m * El) % Pl := by
  unfold redTail
  simp only [EPS, W64]
  have ht : m * El < Wl := by omega
  have ht' : ¬ Wl ≤ m * El := by omega
  rw [Nat.mod_eq_of_lt ht]
  by_cases hb : s ≤ xlo
  · rw [osub64_of_le hb]
    simp only [Bool.false_eq_true, ↓reduceIte]
    obtain ⟨a1, a2, a3⟩ := addNoCanon_spec (xlo - s) (m * El) (by omega) (by omega) (by omega)
    simp only [a1, ht', decide_false, Bool.or_false, true_and]
    omega
  · rw [osub64_of_lt (by omega)]
    simp only [↓reduceIte]
    rw [csub64_of_le (by omega)]
    obtain ⟨a1, a2, a3⟩ := addNoCanon_spec (xlo + Wl - s - El) (m * El) (by omega) (by omega) (by omega)
    simp only [a1, ht', decide_false, Bool.or_false, true_and]
    omega

theorem reduce128_good (x : Nat) (hx : x < W128l) : Good (reduce128 x) x := by
  unfold Good
  rw [reduce128_eq]
  obtain ⟨a1, a2, a3⟩ := redTail_spec (x % Wl) (x / Wl / W32l) (x / Wl % W32l)
    (by omega) (by omega) (by omega)
  refine ⟨a1, a2, ?_⟩
  omega

theorem reduce160_good (xlo xhi : Nat) (h1 : xlo < W128l) (h2 : xhi < W32l)
    (h3 : xlo + xhi * W128l < 1461501636990620551361974531767172749817708281856) :
    Good (reduce160 xlo xhi) (xlo + xhi * W128l) := by
  unfold Good
  rw [reduce160_eq]
  have e1 : xlo / Wl / W32l = xlo / 79228162514264337593543950336 := by
    rw [Nat.div_div_eq_div_mul]
  have e2 : xlo = xlo % Wl + Wl * (xlo / Wl % W32l) +
      79228162514264337593543950336 * (xlo / 79228162514264337593543950336) := by omega
  have e3 : xlo % Wl < Wl := by omega
  have e4 : xlo / Wl % W32l < W32l := by omega
  have e5 : xlo / 79228162514264337593543950336 < W32l := by omega
  clear e1
  generalize xlo % Wl = lo at *
  generalize xlo / Wl % W32l = mid at *
  generalize xlo / 79228162514264337593543950336 = q at *
  subst e2
  have hs : q + xhi * W32l < Wl := by omega
  have hs' : ¬ Wl ≤ q + xhi * W32l := by omega
  rw [Nat.mod_eq_of_lt hs]
  obtain ⟨a1, a2, a3⟩ := redTail_spec lo (q + xhi * W32l)
    mid (by omega) (by omega) (by omega)
  simp only [a1, hs', decide_false, Bool.or_false, true_and]
  refine ⟨a2, ?_⟩
  omega

/-! ### multiplication -/

theorem mul_lt_W128 {a b : Nat} (ha : a < Wl) (hb : b < Wl) :
    a * b ≤ 340282366920938463426481119284349108225 := by
  have h : a * b ≤ 18446744073709551615 * 18446744073709551615 :=
    Nat.mul_le_mul (by omega) (by omega)
  omega

theorem glMul_good (a b : Nat) (ha : a < Wl) (hb : b < Wl) : Good (glMul a b) (a * b) := by
  have h := mul_lt_W128 ha hb
  exact reduce128_good (a * b) (by omega)

theorem glSquare_good (a : Nat) (ha : a < Wl) : Good (glSquare a) (a * a) := by
  have h := mul_lt_W128 ha ha
  exact reduce128_good (a * a) (by omega)

theorem glMulAcc_good (s x y : Nat) (hs : s < Wl) (hx : x < Wl) (hy : y < Wl) :
    Good (glMulAcc s x y) (s + x * y) := by
  have h := mul_lt_W128 hx hy
  have h1 : s + x * y < W128l := by omega
  have h2 : ¬ W128l ≤ s + x * y := by omega
  obtain ⟨a1, a2, a3⟩ := reduce128_good (s + x * y) h1
  unfold Good
  rw [show glMulAcc s x y = ⟨(reduce128 ((s + x * y) % W128l)).val,
      (reduce128 ((s + x * y) % W128l)).trap || decide (W128l ≤ s + x * y)⟩ from rfl,
    Nat.mod_eq_of_lt h1]
  simp only [a1, h2, decide_false, Bool.or_false, true_and]
  exact ⟨a2, a3⟩

/-- congruence form: operands known only modulo `P` -/
theorem glMul_good' {a b x y : Nat} (ha : a < Wl) (hb : b < Wl)
    (hx : a % Pl = x % Pl) (hy : b % Pl = y % Pl) : Good (glMul a b) (x * y) :=
  (glMul_good a b ha hb).congr (by rw [Nat.mul_mod, hx, hy, ← Nat.mul_mod])

theorem glSquare_good' {a x : Nat} (ha : a < Wl) (hx : a % Pl = x % Pl) :
    Good (glSquare a) (x * x) :=
  (glSquare_good a ha).congr (by rw [Nat.mul_mod, hx, ← Nat.mul_mod])

/-! ### add/sub_canonical_u64, from_noncanonical_i64 -/

theorem addCanonicalU64_good (a rhs : Nat) (ha : a < Wl) (hr : rhs < Pl) :
    Good (addCanonicalU64 a rhs) (a + rhs) := by
  obtain ⟨a1, a2, a3⟩ := addNoCanon_spec a rhs ha (by omega) (by omega)
  refine ⟨a1, a2, ?_⟩
  show (addNoCanon a rhs).val % Pl = (a + rhs) % Pl
  omega

theorem subCanonicalU64_good (a rhs : Nat) (ha : a < Wl) (hr : rhs < Pl) :
    (subCanonicalU64 a rhs).trap = false ∧ (subCanonicalU64 a rhs).val < Wl ∧
      ((subCanonicalU64 a rhs).val + rhs) % Pl = a % Pl := by
  rw [show subCanonicalU64 a rhs =
    csub64 (osub64 a rhs).1 (if (osub64 a rhs).2 = true then EPS else 0) from rfl]
  by_cases h1 : rhs ≤ a
  · rw [osub64_of_le h1, if_neg Bool.false_ne_true, csub64_of_le (Nat.zero_le _)]
    simp only [true_and]
    omega
  · have h2 : El ≤ a + Wl - rhs := by omega
    rw [osub64_of_lt (by omega), if_pos rfl, show EPS = El from rfl,
      csub64_of_le (show El ≤ (a + Wl - rhs, true).fst from h2)]
    simp only [true_and]
    omega

theorem fromNoncanonicalI64_eq (n : Nat) :
    fromNoncanonicalI64 n =
      ⟨if 9223372036854775808 ≤ n then (Pl + n) % Wl else n,
       decide (Pl ≤ if 9223372036854775808 ≤ n then (Pl + n) % Wl else n)⟩ := rfl

theorem fromNoncanonicalI64_good (n : Nat) (hn : n < Wl) :
    (fromNoncanonicalI64 n).trap = false ∧ (fromNoncanonicalI64 n).val < Pl ∧
      ((fromNoncanonicalI64 n).val : Int) % 18446744069414584321 =
        (if 9223372036854775808 ≤ n then (n : Int) - 18446744073709551616 else (n : Int)) %
          18446744069414584321 := by
  rw [fromNoncanonicalI64_eq]
  by_cases h : 9223372036854775808 ≤ n
  · have hv : (Pl + n) % Wl = n - El := by omega
    have hd : ¬ Pl ≤ n - El := by omega
    rw [if_pos h, if_pos h, hv]
    simp only [hd, decide_false, true_and]
    omega
  · have hd : ¬ Pl ≤ n := by omega
    rw [if_neg h, if_neg h]
    simp only [hd, decide_false, true_and, and_true]
    omega

end P2.L0
