/-
Structure of the list `Plonk.checkLookupConstraints` builds (core only, no Mathlib): which term
stands at which position, with the pieces named. Used by `P2.Props.C08c` to tie the row-level
constraint system of `P2.Lemmas.LookupTrace` to what the verifier model evaluates.
-/
import P2.Model.Plonk

namespace P2.Lemmas.LookupStructure
open P2 P2.Plonk

/-! ## the pieces of `check_lookup_constraints`, named -/

section pieces
variable (c : CommonData) (wires localZs nextZs sels : List GL2) (deltas : List GL)

/-- `num_sldc_polys = local_lookup_zs.len() − 1` -/
def numSldc : Nat := localZs.length - 1
/-- `lookup_selectors[i]` -/
def sel (i : Nat) : GL2 := sels.getD i FOps.zero
/-- `z_re = local_lookup_zs[0]` -/
def zRe : GL2 := localZs.getD 0 FOps.zero
/-- `next_z_re` -/
def nextZRe : GL2 := nextZs.getD 0 FOps.zero
/-- `z_x_lookup_sldcs[i] = local_lookup_zs[i + 1]` -/
def zx (i : Nat) : GL2 := localZs.getD (i + 1) FOps.zero
/-- `z_gx_lookup_sldcs[i] = next_lookup_zs[i + 1]` -/
def zgx (i : Nat) : GL2 := nextZs.getD (i + 1) FOps.zero

/-- `prev`: the previous poly of the current row, or the LAST poly of the next row -/
def sldcPrev (poly : Nat) : GL2 :=
  if poly = 0 then zgx nextZs (numSldc localZs - 1) else zx localZs (poly - 1)

def wire (i : Nat) : GL2 := wires.getD i FOps.zero
def numLuSlots : Nat := c.config.numRoutedWires / 2
def numLutSlots : Nat := c.config.numRoutedWires / 3
def luDegree : Nat := c.quotientDegreeFactor - 1
def lutDegree : Nat :=
  if numSldc localZs = 0 then 0 else (numLutSlots c + numSldc localZs - 1) / numSldc localZs
def dA : GL2 := GL2.ofBase (deltas.getD 0 0)
def dB : GL2 := GL2.ofBase (deltas.getD 1 0)
def dAlpha : GL2 := GL2.ofBase (deltas.getD 2 0)
def dDelta : GL2 := GL2.ofBase (deltas.getD 3 0)
/-- `current_looked_combos[s]` -/
def looked (s : Nat) : GL2 := wire wires (3 * s) + dA deltas * wire wires (3 * s + 1)
/-- `current_looking_combos[s]` -/
def looking (s : Nat) : GL2 := wire wires (2 * s) + dA deltas * wire wires (2 * s + 1)
/-- `current_lookup_combos[s]` -/
def lookupCombo (s : Nat) : GL2 := wire wires (3 * s) + dB deltas * wire wires (3 * s + 1)

/-- slot range of poly `poly` for the Sum -/
def lutRange (poly : Nat) : List Nat :=
  (List.range (min ((poly + 1) * lutDegree c localZs) (numLutSlots c) - poly * lutDegree c localZs)).map
    (· + poly * lutDegree c localZs)
/-- slot range of poly `poly` for the LDC -/
def luRange (poly : Nat) : List Nat :=
  (List.range (min ((poly + 1) * luDegree c) (numLuSlots c) - poly * luDegree c)).map
    (· + poly * luDegree c)

/-- `lut_prod` -/
def lutProd (poly : Nat) : GL2 :=
  (lutRange c localZs poly).foldl (fun acc i => acc * (dAlpha deltas - looked wires deltas i)) FOps.one
/-- `lu_prod` -/
def luProd (poly : Nat) : GL2 :=
  (luRange c poly).foldl (fun acc i => acc * (dAlpha deltas - looking wires deltas i)) FOps.one
/-- `lut_prod_i(i)` -/
def lutProdI (poly i : Nat) : GL2 :=
  (lutRange c localZs poly).foldl
    (fun acc j => if j ≠ i then acc * (dAlpha deltas - looked wires deltas j) else acc) FOps.one
/-- `lu_prod_i(i)` -/
def luProdI (poly i : Nat) : GL2 :=
  (luRange c poly).foldl
    (fun acc j => if j ≠ i then acc * (dAlpha deltas - looking wires deltas j) else acc) FOps.one
/-- `lu_sum_prods` -/
def luSumProds (poly : Nat) : GL2 :=
  (luRange c poly).foldl (fun acc i => acc + luProdI c wires deltas poly i) FOps.zero
/-- `lut_sum_prods_with_mul` -/
def lutSumProdsMul (poly : Nat) : GL2 :=
  (lutRange c localZs poly).foldl
    (fun acc i => acc + wire wires (3 * i + 2) * lutProdI c wires localZs deltas poly i) FOps.zero

/-- `unfiltered_sum_transition = lut_prod * (z[poly] − prev) − lut_sum_prods_with_mul` -/
def sumTransition (poly : Nat) : GL2 :=
  lutProd c wires localZs deltas poly * (zx localZs poly - sldcPrev localZs nextZs poly)
    - lutSumProdsMul c wires localZs deltas poly
/-- `unfiltered_ldc_transition = lu_prod * (z[poly] − prev) + lu_sum_prods` -/
def ldcTransition (poly : Nat) : GL2 :=
  luProd c wires deltas poly * (zx localZs poly - sldcPrev localZs nextZs poly)
    + luSumProds c wires deltas poly

/-- the final RE constraints, one per table -/
def endsTerms : List GL2 :=
  (List.range (c.numLookupSelectors - 4)).map fun t =>
    let lut := c.luts.getD t []
    let rows := (lut.length + numLutSlots c - 1) / numLutSlots c
    let ev := lutPolyEval lut (numLutSlots c) (numLutSlots c * rows) (deltas.getD 1 0) (deltas.getD 3 0)
    sel sels (4 + t) * (zRe localZs - GL2.ofBase ev)

/-- the RE row transition -/
def reTransition : GL2 :=
  zRe localZs - (List.range (numLutSlots c)).foldl
    (fun acc s => acc * dDelta deltas + lookupCombo wires deltas s) (nextZRe nextZs)

/-- the two transition terms of poly `poly` -/
def polyTerms (poly : Nat) : List GL2 :=
  [ sel sels 0 * sumTransition c wires localZs nextZs deltas poly,
    sel sels 1 * ldcTransition c wires localZs nextZs deltas poly ]

/-- **the list, in the order of the code**: LastLdc, InitSre (on the LAST SLDC poly: the repair of
F-C08-1), InitSre on RE, the table ends, the RE transition, then per poly the Sum and the LDC
transition -/
theorem checkLookupConstraints_eq :
    checkLookupConstraints c wires localZs nextZs sels deltas =
      [ sel sels 3 * zx localZs (numSldc localZs - 1),
        sel sels 2 * zx localZs (numSldc localZs - 1),
        sel sels 2 * zRe localZs ]
      ++ endsTerms c localZs sels deltas
      ++ [sel sels 0 * reTransition c wires localZs nextZs deltas]
      ++ (List.range (numSldc localZs)).flatMap (polyTerms c wires localZs nextZs sels deltas) :=
  rfl

end pieces

/-! ## positions -/

theorem getElem?_flatMap_pair {α β : Type} (l : List α) (f g : α → β) (i : Nat) :
    (l.flatMap fun p => [f p, g p])[2 * i]? = l[i]?.map f ∧
    (l.flatMap fun p => [f p, g p])[2 * i + 1]? = l[i]?.map g := by
  induction l generalizing i with
  | nil => simp
  | cons a t ih =>
    cases i with
    | zero => simp
    | succ i =>
      have e : 2 * (i + 1) = 2 * i + 1 + 1 := by omega
      have := ih i
      simp only [List.flatMap_cons, List.cons_append, List.nil_append, e,
        List.getElem?_cons_succ]
      exact this

/-- **positions of the SLDC terms** in `checkLookupConstraints`: `0` LastLdc on `z_{s−1}`,
`1` InitSre on `z_{s−1}`, `2` InitSre on RE, and for `poly < s` at `off + 2·poly` the Sum
transition, at `off + 2·poly + 1` the LDC transition, `off = 4 + #tables` -/
theorem checkLookupConstraints_positions (c : CommonData) (wires localZs nextZs sels : List GL2)
    (deltas : List GL) :
    let l := checkLookupConstraints c wires localZs nextZs sels deltas
    let off := 4 + (c.numLookupSelectors - 4)
    l[0]? = some (sel sels 3 * zx localZs (numSldc localZs - 1)) ∧
    l[1]? = some (sel sels 2 * zx localZs (numSldc localZs - 1)) ∧
    l[2]? = some (sel sels 2 * zRe localZs) ∧
    ∀ poly, poly < numSldc localZs →
      l[off + 2 * poly]? = some (sel sels 0 * sumTransition c wires localZs nextZs deltas poly) ∧
      l[off + 2 * poly + 1]? = some (sel sels 1 * ldcTransition c wires localZs nextZs deltas poly) := by
  intro l off
  refine ⟨rfl, rfl, rfl, ?_⟩
  intro poly hpoly
  have hlen : ([ sel sels 3 * zx localZs (numSldc localZs - 1),
        sel sels 2 * zx localZs (numSldc localZs - 1),
        sel sels 2 * zRe localZs ]
      ++ endsTerms c localZs sels deltas
      ++ [sel sels 0 * reTransition c wires localZs nextZs deltas]).length = off := by
    simp only [endsTerms, List.length_append, List.length_cons, List.length_nil, List.length_map,
      List.length_range]
    omega
  have hp := getElem?_flatMap_pair (List.range (numSldc localZs))
    (fun p => sel sels 0 * sumTransition c wires localZs nextZs deltas p)
    (fun p => sel sels 1 * ldcTransition c wires localZs nextZs deltas p) poly
  rw [List.getElem?_range hpoly] at hp
  show (checkLookupConstraints c wires localZs nextZs sels deltas)[off + 2 * poly]? = _ ∧
    (checkLookupConstraints c wires localZs nextZs sels deltas)[off + 2 * poly + 1]? = _
  rw [checkLookupConstraints_eq, ← hlen]
  constructor
  · rw [List.getElem?_append_right (by omega), Nat.add_sub_cancel_left]
    exact hp.1
  · rw [List.getElem?_append_right (by omega), Nat.add_assoc, Nat.add_sub_cancel_left]
    exact hp.2

end P2.Lemmas.LookupStructure
