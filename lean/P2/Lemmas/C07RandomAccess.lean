/-
C07, `RandomAccessGate` (`GateKind.randomAccess bits copies extra`): closed forms of the constraints,
correctness of the mux tree, (a) the generated row satisfies the gate (and the exact solution set),
(b) the generator-written wires are pinned (claimed element: unconditionally; bit wires: by the
index constraint iff `(2:K)^i ≠ 0`, with a characteristic-2 counterexample), (c) the unaffected
constraints, and phase 2 over `P2.GL`.
-/
import P2.Lemmas.C07
import Mathlib.Data.ZMod.Basic
set_option linter.unusedSectionVars false
set_option linter.unusedSimpArgs false
namespace P2.Lemmas.C07
open P2 P2.Gates
section
variable {K : Type} [Field K] [DecidableEq K] [Inhabited K]

/-! ## the pair fold and the mux tree -/

/-- `raFoldPairs` with the operations of the field `K` -/
def raFold (b : K) (l : List K) : List K := @raFoldPairs K (FOps.ofField K) b l

theorem raFold_cons_cons (b x y : K) (rest : List K) :
    raFold b (x :: y :: rest) = (x + b * (y - x)) :: raFold b rest := rfl
theorem raFold_nil (b : K) : raFold b [] = [] := rfl
theorem raFold_single (b x : K) : raFold b [x] = [] := rfl

theorem raFold_length (b : K) : ∀ (l : List K), (raFold b l).length = l.length / 2
  | [] => by simp [raFold_nil]
  | [x] => by simp [raFold_single]
  | x :: y :: rest => by
    rw [raFold_cons_cons, List.length_cons, raFold_length b rest]
    simp only [List.length_cons]
    omega

/-- entry `j` of the folded list is the `b`-mux of entries `2j`, `2j+1` -/
theorem raFold_getD (b d : K) : ∀ (l : List K) (j : Nat), 2 * j + 1 < l.length →
    (raFold b l).getD j d = l.getD (2 * j) d + b * (l.getD (2 * j + 1) d - l.getD (2 * j) d)
  | [], j, h => by simp at h
  | [_], j, h => by simp at h
  | x :: y :: rest, 0, _ => by simp [raFold_cons_cons]
  | x :: y :: rest, j + 1, h => by
    rw [raFold_cons_cons]
    have h' : 2 * j + 1 < rest.length := by simp only [List.length_cons] at h; omega
    have := raFold_getD b d rest j h'
    rw [show 2 * (j + 1) + 1 = (2 * j + 1) + 1 + 1 by ring, show 2 * (j + 1) = (2 * j) + 1 + 1 by ring]
    simp only [List.getD_cons_succ]
    exact this

/-- the mux tree of `RandomAccessGate`: fold the list once per bit, lowest bit first, and take the
head (`default` when the list is empty) -/
def raMux (d : K) (bs items : List K) : K :=
  (bs.foldl (fun items b => raFold b items) items).headD d

theorem raMux_nil (d : K) (items : List K) : raMux d [] items = items.headD d := rfl
theorem raMux_cons (d b : K) (bs items : List K) :
    raMux d (b :: bs) items = raMux d bs (raFold b items) := rfl

/-- KEY LEMMA: with the binary digits of `k < 2^n` as selector bits, the mux tree over a list of
length `2^n` returns item `k` -/
theorem raMux_digits (d : K) : ∀ (n : Nat) (items : List K) (k : Nat),
    items.length = 2 ^ n → k < 2 ^ n →
    raMux d ((List.range n).map fun i => ((k / 2 ^ i % 2 : ℕ) : K)) items = items.getD k d
  | 0, items, k, hl, hk => by
    have : k = 0 := by simpa using hk
    subst this
    match items, hl with
    | [x], _ => simp [raMux]
  | n + 1, items, k, hl, hk => by
    rw [List.range_succ_eq_map, List.map_cons, List.map_map, raMux_cons]
    have hl' : (raFold ((k / 2 ^ 0 % 2 : ℕ) : K) items).length = 2 ^ n := by
      rw [raFold_length, hl, pow_succ]; omega
    have hk' : k / 2 < 2 ^ n := by rw [pow_succ] at hk; omega
    have hfun : ((fun i => ((k / 2 ^ i % 2 : ℕ) : K)) ∘ Nat.succ)
        = fun i => ((k / 2 / 2 ^ i % 2 : ℕ) : K) := by
      funext i
      simp only [Function.comp, Nat.succ_eq_add_one]
      rw [pow_succ', Nat.div_div_eq_div_mul]
    rw [hfun, raMux_digits d n _ (k / 2) hl' hk', raFold_getD _ _ _ _ (by rw [hl, pow_succ]; omega)]
    simp only [pow_zero, Nat.div_one]
    rcases Nat.mod_two_eq_zero_or_one k with h | h
    · rw [h, show 2 * (k / 2) = k by omega]; simp
    · rw [h, show 2 * (k / 2) + 1 = k by omega]; simp

/-! ## bit reconstruction -/

theorem ra_reconstruct (n : Nat) : ∀ (f : Nat → K),
    ((List.range n).map f).reverse.foldl (fun acc b => acc + acc + b) 0
      = ∑ i ∈ Finset.range n, f i * 2 ^ i := by
  induction n with
  | zero => intro f; simp
  | succ n ih =>
    intro f
    rw [List.range_succ_eq_map, List.map_cons, List.map_map, List.reverse_cons, List.foldl_append,
      ih, Finset.sum_range_succ']
    simp only [List.foldl_cons, List.foldl_nil, Function.comp, Nat.succ_eq_add_one, pow_zero, mul_one]
    congr 1
    rw [← two_mul, Finset.mul_sum]
    apply Finset.sum_congr rfl
    intro i _
    ring

/-- the binary digits of `k` reconstruct `k mod 2^n` -/
theorem ra_nat_digits_sum (k : Nat) : ∀ n, ∑ i ∈ Finset.range n, (k / 2 ^ i % 2) * 2 ^ i = k % 2 ^ n
  | 0 => by simp [Nat.mod_one]
  | n + 1 => by
    rw [Finset.sum_range_succ, ra_nat_digits_sum k n, Nat.mod_pow_succ]; ring

/-! ## the constraint list in field notation -/

/-- the selector bits of copy `c` (wires `raWireBit … i c`, `i < bits`) -/
def raBitList (bits copies extra : Nat) (v : EvalVars K) (c : Nat) : List K :=
  (List.range bits).map fun i => v.wires[raWireBit bits copies extra i c]!

/-- the `2^bits` list items of copy `c` -/
def raItemList (bits : Nat) (v : EvalVars K) (c : Nat) : List K :=
  (List.range (2 ^ bits)).map fun i => v.wires[raWireListItem bits i c]!

/-- the `bits + 2` constraints of copy `c` -/
def raChunk (bits copies extra : Nat) (v : EvalVars K) (c : Nat) : List K :=
  (raBitList bits copies extra v c).map (fun b => b * (b - 1))
    ++ [(raBitList bits copies extra v c).reverse.foldl (fun acc b => acc + acc + b) 0
          - v.wires[raWireAccessIndex bits c]!]
    ++ [raMux default (raBitList bits copies extra v c) (raItemList bits v c)
          - v.wires[raWireClaimedElement bits c]!]

theorem evalF_randomAccess (bits copies extra : Nat) (v : EvalVars K) :
    evalF (.randomAccess bits copies extra) v =
      (List.range copies).flatMap (raChunk bits copies extra v) ++
        (List.range extra).map fun i =>
          v.constants[i]! - v.wires[raWireExtraConstant bits copies i]! := rfl

theorem raChunk_length (bits copies extra : Nat) (v : EvalVars K) (c : Nat) :
    (raChunk bits copies extra v c).length = bits + 2 := by
  simp [raChunk, raBitList]

theorem randomAccess_con_chunk (bits copies extra : Nat) (v : EvalVars K) (c r : Nat)
    (hc : c < copies) (hr : r < bits + 2) :
    con (.randomAccess bits copies extra) v ((bits + 2) * c + r)
      = (raChunk bits copies extra v c).getD r 0 := by
  show (evalF _ v).getD _ 0 = _
  have hlt : (bits + 2) * c + r < (bits + 2) * copies :=
    calc (bits + 2) * c + r < (bits + 2) * c + (bits + 2) := by omega
      _ = (bits + 2) * (c + 1) := by ring
      _ ≤ (bits + 2) * copies := Nat.mul_le_mul_left _ hc
  rw [evalF_randomAccess, List.getD_eq_getElem?_getD, List.getElem?_append_left
      (by rw [length_flatMap_range copies (bits + 2) _ (raChunk_length bits copies extra v)]; exact hlt),
    getElem?_flatMap_range copies (bits + 2) _ (raChunk_length bits copies extra v) c r hc hr,
    ← List.getD_eq_getElem?_getD]

/-- booleanity constraint of bit `i` of copy `c` -/
theorem randomAccess_con_bool (bits copies extra : Nat) (v : EvalVars K) (c i : Nat)
    (hc : c < copies) (hi : i < bits) :
    con (.randomAccess bits copies extra) v ((bits + 2) * c + i)
      = v.wires[raWireBit bits copies extra i c]! * (v.wires[raWireBit bits copies extra i c]! - 1) := by
  rw [randomAccess_con_chunk bits copies extra v c i hc (by omega), List.getD_eq_getElem?_getD,
    raChunk, List.getElem?_append_left (by simp [raBitList]; omega),
    List.getElem?_append_left (by simp [raBitList]; exact hi)]
  simp only [raBitList, List.map_map, getElem?_map_range, if_pos hi, Option.getD_some, Function.comp]

/-- index constraint of copy `c`: `Σ_{i<bits} b_i·2^i − accessIndex` -/
theorem randomAccess_con_index (bits copies extra : Nat) (v : EvalVars K) (c : Nat) (hc : c < copies) :
    con (.randomAccess bits copies extra) v ((bits + 2) * c + bits)
      = (∑ i ∈ Finset.range bits, v.wires[raWireBit bits copies extra i c]! * 2 ^ i)
          - v.wires[raWireAccessIndex bits c]! := by
  rw [randomAccess_con_chunk bits copies extra v c bits hc (by omega), List.getD_eq_getElem?_getD,
    raChunk, List.getElem?_append_left (by simp [raBitList]),
    List.getElem?_append_right (by simp [raBitList])]
  simp only [raBitList, List.length_map, List.length_range, Nat.sub_self, List.getElem?_cons_zero,
    Option.getD_some, ra_reconstruct]

/-- mux constraint of copy `c`: `mux(bits, items) − claimed` -/
theorem randomAccess_con_mux (bits copies extra : Nat) (v : EvalVars K) (c : Nat) (hc : c < copies) :
    con (.randomAccess bits copies extra) v ((bits + 2) * c + bits + 1)
      = raMux default (raBitList bits copies extra v c) (raItemList bits v c)
          - v.wires[raWireClaimedElement bits c]! := by
  rw [Nat.add_assoc, randomAccess_con_chunk bits copies extra v c (bits + 1) hc (by omega),
    List.getD_eq_getElem?_getD, raChunk, List.getElem?_append_right (by simp [raBitList])]
  simp [raBitList]

/-- extra-constant constraint `i` -/
theorem randomAccess_con_extra (bits copies extra : Nat) (v : EvalVars K) (i : Nat) (hi : i < extra) :
    con (.randomAccess bits copies extra) v ((bits + 2) * copies + i)
      = v.constants[i]! - v.wires[raWireExtraConstant bits copies i]! := by
  show (evalF _ v).getD _ 0 = _
  rw [evalF_randomAccess, List.getD_eq_getElem?_getD, List.getElem?_append_right
      (by rw [length_flatMap_range copies (bits + 2) _ (raChunk_length bits copies extra v)]; omega),
    length_flatMap_range copies (bits + 2) _ (raChunk_length bits copies extra v),
    Nat.add_sub_cancel_left, getElem?_map_range, if_pos hi, Option.getD_some]

/-- past the last constraint -/
theorem randomAccess_con_ge (bits copies extra : Nat) (v : EvalVars K) (j : Nat)
    (hj : (bits + 2) * copies + extra ≤ j) :
    con (.randomAccess bits copies extra) v j = 0 := by
  show (evalF _ v).getD _ 0 = _
  rw [List.getD_eq_getElem?_getD, List.getElem?_eq_none_iff.2, Option.getD_none]
  rw [evalF_randomAccess, List.length_append,
    length_flatMap_range copies (bits + 2) _ (raChunk_length bits copies extra v)]
  simpa using hj

/-- every constraint index is of exactly one of the five kinds -/
theorem ra_index_cases (bits copies extra : Nat) (P : Nat → Prop)
    (hbool : ∀ c i, c < copies → i < bits → P ((bits + 2) * c + i))
    (hidx : ∀ c, c < copies → P ((bits + 2) * c + bits))
    (hmux : ∀ c, c < copies → P ((bits + 2) * c + bits + 1))
    (hextra : ∀ i, i < extra → P ((bits + 2) * copies + i))
    (hge : ∀ j, (bits + 2) * copies + extra ≤ j → P j) : ∀ j, P j := by
  intro j
  by_cases h1 : j < (bits + 2) * copies
  · have hc : j / (bits + 2) < copies := Nat.div_lt_of_lt_mul h1
    have hr := Nat.mod_lt j (show 0 < bits + 2 by omega)
    have hj : (bits + 2) * (j / (bits + 2)) + j % (bits + 2) = j := Nat.div_add_mod j _
    rw [← hj]
    rcases Nat.lt_or_ge (j % (bits + 2)) bits with h | h
    · exact hbool _ _ hc h
    · rcases Nat.eq_or_lt_of_le h with h | h
      · rw [← h]; exact hidx _ hc
      · rw [show j % (bits + 2) = bits + 1 by omega, ← Nat.add_assoc]; exact hmux _ hc
  · by_cases h2 : j < (bits + 2) * copies + extra
    · have := hextra (j - (bits + 2) * copies) (by omega)
      rwa [show (bits + 2) * copies + (j - (bits + 2) * copies) = j by omega] at this
    · exact hge j (by omega)

/-! ## (a) satisfaction -/

/-- `Sat` as the list of explicit equations -/
theorem randomAccess_sat_iff_eqs (bits copies extra : Nat) (v : EvalVars K) :
    Sat (.randomAccess bits copies extra) v ↔
      (∀ c, c < copies →
        (∀ i, i < bits → v.wires[raWireBit bits copies extra i c]!
            * (v.wires[raWireBit bits copies extra i c]! - 1) = 0) ∧
        (∑ i ∈ Finset.range bits, v.wires[raWireBit bits copies extra i c]! * 2 ^ i)
            = v.wires[raWireAccessIndex bits c]! ∧
        raMux default (raBitList bits copies extra v c) (raItemList bits v c)
            = v.wires[raWireClaimedElement bits c]!) ∧
      ∀ i, i < extra → v.wires[raWireExtraConstant bits copies i]! = v.constants[i]! := by
  rw [sat_iff_con]
  constructor
  · intro h
    refine ⟨fun c hc => ⟨fun i hi => ?_, ?_, ?_⟩, fun i hi => ?_⟩
    · rw [← randomAccess_con_bool bits copies extra v c i hc hi]; exact h _
    · rw [← sub_eq_zero, ← randomAccess_con_index bits copies extra v c hc]; exact h _
    · rw [← sub_eq_zero, ← randomAccess_con_mux bits copies extra v c hc]; exact h _
    · have := h ((bits + 2) * copies + i)
      rw [randomAccess_con_extra bits copies extra v i hi, sub_eq_zero] at this
      exact this.symm
  · rintro ⟨h1, h2⟩
    refine ra_index_cases bits copies extra _ ?_ ?_ ?_ ?_ ?_
    · intro c i hc hi; rw [randomAccess_con_bool bits copies extra v c i hc hi]; exact (h1 c hc).1 i hi
    · intro c hc; rw [randomAccess_con_index bits copies extra v c hc, sub_eq_zero]; exact (h1 c hc).2.1
    · intro c hc; rw [randomAccess_con_mux bits copies extra v c hc, sub_eq_zero]; exact (h1 c hc).2.2
    · intro i hi; rw [randomAccess_con_extra bits copies extra v i hi, sub_eq_zero]; exact (h2 i hi).symm
    · intro j hj; exact randomAccess_con_ge bits copies extra v j hj

/-- a binary digit, cast to `K`, is boolean -/
theorem ra_digit_bool (k i : Nat) : ((k / 2 ^ i % 2 : ℕ) : K) * (((k / 2 ^ i % 2 : ℕ) : K) - 1) = 0 := by
  rcases Nat.mod_two_eq_zero_or_one (k / 2 ^ i) with h | h <;> rw [h] <;> simp

/-- boolean values are the binary digits of some `k < 2^n` (no assumption on the characteristic) -/
theorem ra_bool_digits : ∀ (n : Nat) (f : Nat → K), (∀ i, i < n → f i * (f i - 1) = 0) →
    ∃ k, k < 2 ^ n ∧ ∀ i, i < n → f i = ((k / 2 ^ i % 2 : ℕ) : K)
  | 0, _, _ => ⟨0, by simp, fun i hi => absurd hi (Nat.not_lt_zero i)⟩
  | n + 1, f, hf => by
    obtain ⟨k', hk', hd⟩ := ra_bool_digits n (fun i => f (i + 1)) (fun i hi => hf (i + 1) (by omega))
    obtain ⟨d0, hd0, hf0⟩ : ∃ d0 : Nat, d0 < 2 ∧ f 0 = (d0 : K) := by
      rcases mul_eq_zero.1 (hf 0 (by omega)) with h | h
      · exact ⟨0, by omega, by simpa using h⟩
      · exact ⟨1, by omega, by simpa using sub_eq_zero.1 h⟩
    refine ⟨d0 + 2 * k', by rw [pow_succ]; omega, ?_⟩
    intro i hi
    cases i with
    | zero => rw [hf0, pow_zero, Nat.div_one, show (d0 + 2 * k') % 2 = d0 by omega]
    | succ i =>
      rw [hd i (by omega), pow_succ', ← Nat.div_div_eq_div_mul, show (d0 + 2 * k') / 2 = k' by omega]

/-- mux correctness for arbitrary boolean selector bits: they are the digits of some `k < 2^n`
and the mux tree returns item `k` -/
theorem raMux_bool (d : K) (n : Nat) (f : Nat → K) (items : List K) (hl : items.length = 2 ^ n)
    (hf : ∀ i, i < n → f i * (f i - 1) = 0) :
    ∃ k, k < 2 ^ n ∧ (∀ i, i < n → f i = ((k / 2 ^ i % 2 : ℕ) : K)) ∧
      raMux d ((List.range n).map f) items = items.getD k d := by
  obtain ⟨k, hk, hd⟩ := ra_bool_digits n f hf
  refine ⟨k, hk, hd, ?_⟩
  rw [List.map_congr_left (fun i hi => hd i (List.mem_range.1 hi)), raMux_digits d n items k hl hk]

/-- the two non-boolean constraints of a copy whose bit wires are the digits of `k < 2^bits` -/
theorem ra_copy_of_digits (bits copies extra : Nat) (v : EvalVars K) (c k : Nat) (hk : k < 2 ^ bits)
    (hb : ∀ i, i < bits → v.wires[raWireBit bits copies extra i c]! = ((k / 2 ^ i % 2 : ℕ) : K)) :
    (∑ i ∈ Finset.range bits, v.wires[raWireBit bits copies extra i c]! * 2 ^ i) = (k : K) ∧
    raMux default (raBitList bits copies extra v c) (raItemList bits v c)
      = v.wires[raWireListItem bits k c]! := by
  constructor
  · rw [Finset.sum_congr rfl (fun i hi => by rw [hb i (Finset.mem_range.1 hi)])]
    have := congrArg (Nat.cast (R := K)) (ra_nat_digits_sum k bits)
    rw [Nat.mod_eq_of_lt hk] at this
    rw [← this]
    push_cast
    rfl
  · have hbl : raBitList bits copies extra v c
        = (List.range bits).map fun i => ((k / 2 ^ i % 2 : ℕ) : K) := by
      unfold raBitList
      exact List.map_congr_left (fun i hi => hb i (List.mem_range.1 hi))
    rw [hbl, raMux_digits default bits _ k (by simp [raItemList]) hk, raItemList, getD_map_range,
      if_pos hk]

/-- (a) the exact solution set of the gate, with NO assumption on the characteristic of `K`: the
row satisfies the gate iff for every copy there is `k < 2^bits` whose binary digits are the bit
wires, whose image in `K` is the access-index wire, and the claimed element is list item `k`
(what `RandomAccessGenerator` writes), and the extra-constant wires carry the constants. -/
theorem randomAccess_sat_iff (bits copies extra : Nat) (v : EvalVars K) :
    Sat (.randomAccess bits copies extra) v ↔
      (∀ c, c < copies → ∃ k : ℕ, k < 2 ^ bits ∧
        v.wires[raWireAccessIndex bits c]! = (k : K) ∧
        (∀ i, i < bits → v.wires[raWireBit bits copies extra i c]! = ((k / 2 ^ i % 2 : ℕ) : K)) ∧
        v.wires[raWireClaimedElement bits c]! = v.wires[raWireListItem bits k c]!) ∧
      ∀ i, i < extra → v.wires[raWireExtraConstant bits copies i]! = v.constants[i]! := by
  rw [randomAccess_sat_iff_eqs]
  refine and_congr_left' (forall_congr' fun c => forall_congr' fun hc => ?_)
  constructor
  · rintro ⟨hbool, hidx, hmux⟩
    obtain ⟨k, hk, hb⟩ := ra_bool_digits bits (fun i => v.wires[raWireBit bits copies extra i c]!) hbool
    obtain ⟨h1, h2⟩ := ra_copy_of_digits bits copies extra v c k hk hb
    exact ⟨k, hk, by rw [← hidx, h1], hb, by rw [← hmux, h2]⟩
  · rintro ⟨k, hk, hacc, hb, hcl⟩
    obtain ⟨h1, h2⟩ := ra_copy_of_digits bits copies extra v c k hk hb
    exact ⟨fun i hi => by rw [hb i hi]; exact ra_digit_bool k i, by rw [h1, hacc], by rw [h2, hcl]⟩

/-- (a) the row written by `RandomAccessGenerator` satisfies the gate -/
theorem randomAccess_gen_sat (bits copies extra : Nat) (v : EvalVars K)
    (hcopy : ∀ c, c < copies → ∃ k : ℕ, k < 2 ^ bits ∧
        v.wires[raWireAccessIndex bits c]! = (k : K) ∧
        (∀ i, i < bits → v.wires[raWireBit bits copies extra i c]! = ((k / 2 ^ i % 2 : ℕ) : K)) ∧
        v.wires[raWireClaimedElement bits c]! = v.wires[raWireListItem bits k c]!)
    (hextra : ∀ i, i < extra → v.wires[raWireExtraConstant bits copies i]! = v.constants[i]!) :
    Sat (.randomAccess bits copies extra) v :=
  (randomAccess_sat_iff bits copies extra v).2 ⟨hcopy, hextra⟩

/-! ## wire layout: the wires read by the constraints are pairwise distinct -/

theorem ra_block_inj (a c c' r r' : Nat) (hr : r < a) (hr' : r' < a)
    (h : a * c + r = a * c' + r') : c = c' ∧ r = r' := by
  have h1 := congrArg (· % a) h
  simp only [Nat.mul_add_mod, Nat.mod_eq_of_lt hr, Nat.mod_eq_of_lt hr'] at h1
  subst h1
  exact ⟨Nat.eq_of_mul_eq_mul_left (by omega) (Nat.add_right_cancel h), rfl⟩

theorem ra_block_lt (a c n r : Nat) (hc : c < n) (hr : r < a) : a * c + r < a * n :=
  calc a * c + r < a * c + a := by omega
    _ = a * (c + 1) := by ring
    _ ≤ a * n := Nat.mul_le_mul_left _ hc

theorem raWireBit_ge (bits copies extra i c : Nat) :
    raNumRoutedWires bits copies extra ≤ raWireBit bits copies extra i c := by
  unfold raWireBit; omega

theorem raWireAccessIndex_lt (bits copies extra c : Nat) (hc : c < copies) :
    raWireAccessIndex bits c < raNumRoutedWires bits copies extra := by
  have := ra_block_lt (2 + raVecSize bits) c copies 0 hc (by omega)
  simp only [raWireAccessIndex, raNumRoutedWires, raStartExtraConstants]; omega

theorem raWireClaimedElement_lt (bits copies extra c : Nat) (hc : c < copies) :
    raWireClaimedElement bits c < raNumRoutedWires bits copies extra := by
  have := ra_block_lt (2 + raVecSize bits) c copies 1 hc (by omega)
  simp only [raWireClaimedElement, raNumRoutedWires, raStartExtraConstants]; omega

theorem raWireListItem_lt (bits copies extra i c : Nat) (hc : c < copies) (hi : i < 2 ^ bits) :
    raWireListItem bits i c < raNumRoutedWires bits copies extra := by
  have := ra_block_lt (2 + raVecSize bits) c copies (2 + i) hc (by simp only [raVecSize]; omega)
  simp only [raWireListItem, raNumRoutedWires, raStartExtraConstants]; omega

theorem raWireExtraConstant_lt (bits copies extra i : Nat) (hi : i < extra) :
    raWireExtraConstant bits copies i < raNumRoutedWires bits copies extra := by
  simp only [raWireExtraConstant, raNumRoutedWires]; omega

theorem raWireClaimedElement_lt_start (bits copies c : Nat) (hc : c < copies) :
    raWireClaimedElement bits c < raStartExtraConstants bits copies := by
  have := ra_block_lt (2 + raVecSize bits) c copies 1 hc (by omega)
  simp only [raWireClaimedElement, raStartExtraConstants]; omega

theorem raWireClaimedElement_inj (bits c c' : Nat)
    (h : raWireClaimedElement bits c = raWireClaimedElement bits c') : c = c' :=
  (ra_block_inj (2 + raVecSize bits) c c' 1 1 (by omega) (by omega) h).1

theorem raWireClaimedElement_ne_accessIndex (bits c c' : Nat) :
    raWireAccessIndex bits c' ≠ raWireClaimedElement bits c := fun h =>
  absurd (ra_block_inj (2 + raVecSize bits) c' c 0 1 (by omega) (by omega) h).2 (by omega)

theorem raWireClaimedElement_ne_listItem (bits i c c' : Nat) (hi : i < 2 ^ bits) :
    raWireListItem bits i c' ≠ raWireClaimedElement bits c := fun h =>
  absurd (ra_block_inj (2 + raVecSize bits) c' c (2 + i) 1 (by simp only [raVecSize]; omega) (by omega)
    (by simpa only [raWireListItem, raWireClaimedElement, Nat.add_assoc] using h)).2 (by omega)

theorem raWireBit_inj (bits copies extra i i' c c' : Nat) (hi : i < bits) (hi' : i' < bits)
    (h : raWireBit bits copies extra i c = raWireBit bits copies extra i' c') : c = c' ∧ i = i' := by
  refine ra_block_inj bits c c' i i' hi hi' ?_
  simp only [raWireBit] at h
  rw [Nat.mul_comm bits c, Nat.mul_comm bits c']; omega

/-- the generator-written wires (`GateKind.generatedWires`) are exactly the claimed-element wires and
the bit wires of the copies `c < copies` -/
theorem randomAccess_generatedWires (bits copies extra k : Nat) :
    k ∈ (GateKind.randomAccess bits copies extra).generatedWires ↔
      (∃ c, c < copies ∧ k = raWireClaimedElement bits c) ∨
      (∃ c i, c < copies ∧ i < bits ∧ k = raWireBit bits copies extra i c) := by
  simp only [GateKind.generatedWires, List.mem_append, List.mem_map, List.mem_range]
  constructor
  · rintro (⟨c, hc, rfl⟩ | ⟨t, ht, rfl⟩)
    · exact Or.inl ⟨c, hc, rfl⟩
    · have hb : 0 < bits := Nat.pos_of_ne_zero fun h => by simp [h] at ht
      refine Or.inr ⟨t / bits, t % bits, Nat.div_lt_of_lt_mul (by rwa [Nat.mul_comm]),
        Nat.mod_lt _ hb, ?_⟩
      have := Nat.div_add_mod' t bits
      simp only [raWireBit]; omega
  · rintro (⟨c, hc, rfl⟩ | ⟨c, i, hc, hi, rfl⟩)
    · exact Or.inl ⟨c, hc, rfl⟩
    · refine Or.inr ⟨c * bits + i, ?_, by simp only [raWireBit]; omega⟩
      have := ra_block_lt bits c copies i hc hi
      rwa [Nat.mul_comm bits c, Nat.mul_comm bits copies] at this

/-! ## (b), (c) for the claimed element of copy `c` -/

/-- what a replacement of the claimed-element wire of copy `c` leaves unchanged -/
theorem ra_claimed_frame (bits copies extra : Nat) (v v' : EvalVars K) (c : Nat) (hc : c < copies)
    (hd : DiffersOnlyAt v v' (raWireClaimedElement bits c)) :
    (∀ c' i, v'.wires[raWireBit bits copies extra i c']! = v.wires[raWireBit bits copies extra i c']!) ∧
    (∀ c', v'.wires[raWireAccessIndex bits c']! = v.wires[raWireAccessIndex bits c']!) ∧
    (∀ c', raBitList bits copies extra v' c' = raBitList bits copies extra v c') ∧
    (∀ c', raItemList bits v' c' = raItemList bits v c') ∧
    (∀ c', c' ≠ c → v'.wires[raWireClaimedElement bits c']! = v.wires[raWireClaimedElement bits c']!) ∧
    (∀ i, v'.wires[raWireExtraConstant bits copies i]! = v.wires[raWireExtraConstant bits copies i]!) := by
  have hbit : ∀ c' i, v'.wires[raWireBit bits copies extra i c']!
      = v.wires[raWireBit bits copies extra i c']! := fun c' i => hd.same _ (by
    have := raWireBit_ge bits copies extra i c'
    have := raWireClaimedElement_lt bits copies extra c hc
    omega)
  refine ⟨hbit, fun c' => hd.same _ (raWireClaimedElement_ne_accessIndex bits c c'), ?_, ?_, ?_, ?_⟩
  · intro c'; simp only [raBitList, hbit]
  · intro c'
    unfold raItemList
    exact List.map_congr_left fun i hi =>
      hd.same _ (raWireClaimedElement_ne_listItem bits i c c' (List.mem_range.1 hi))
  · intro c' hne
    exact hd.same _ fun h => hne (raWireClaimedElement_inj bits c' c h)
  · intro i
    refine hd.same _ ?_
    have := raWireClaimedElement_lt_start bits copies c hc
    simp only [raWireExtraConstant]; omega

/-- (b) the claimed element of copy `c` is pinned by the mux constraint `(bits+2)·c + bits + 1` -/
theorem randomAccess_pinned_claimed (bits copies extra : Nat) (v v' : EvalVars K) (c : Nat)
    (hc : c < copies) (hd : DiffersOnlyAt v v' (raWireClaimedElement bits c))
    (h0 : con (.randomAccess bits copies extra) v ((bits + 2) * c + bits + 1) = 0) :
    con (.randomAccess bits copies extra) v' ((bits + 2) * c + bits + 1) ≠ 0 := by
  obtain ⟨_, _, hbl, hil, _, _⟩ := ra_claimed_frame bits copies extra v v' c hc hd
  rw [randomAccess_con_mux bits copies extra _ c hc] at h0 ⊢
  rw [hbl, hil]
  intro h
  apply hd.diff
  rw [sub_eq_zero] at h h0
  rw [← h, ← h0]

/-- (c) replacing the claimed element of copy `c` changes no other constraint -/
theorem randomAccess_others_claimed (bits copies extra : Nat) (v v' : EvalVars K) (c : Nat)
    (hc : c < copies) (hd : DiffersOnlyAt v v' (raWireClaimedElement bits c)) :
    ∀ j, j ≠ (bits + 2) * c + bits + 1 →
      con (.randomAccess bits copies extra) v' j = con (.randomAccess bits copies extra) v j := by
  obtain ⟨hbit, hacc, hbl, hil, hcl, hex⟩ := ra_claimed_frame bits copies extra v v' c hc hd
  refine ra_index_cases bits copies extra _ ?_ ?_ ?_ ?_ ?_
  · intro c' i hc' hi _
    rw [randomAccess_con_bool bits copies extra _ c' i hc' hi,
      randomAccess_con_bool bits copies extra _ c' i hc' hi, hbit]
  · intro c' hc' _
    rw [randomAccess_con_index bits copies extra _ c' hc', randomAccess_con_index bits copies extra _ c' hc',
      hacc]
    simp only [hbit]
  · intro c' hc' hne
    have : c' ≠ c := fun h => hne (by rw [h])
    rw [randomAccess_con_mux bits copies extra _ c' hc', randomAccess_con_mux bits copies extra _ c' hc',
      hbl, hil, hcl c' this]
  · intro i hi _
    rw [randomAccess_con_extra bits copies extra _ i hi, randomAccess_con_extra bits copies extra _ i hi,
      hex, hd.constants]
  · intro j hj _
    rw [randomAccess_con_ge bits copies extra _ j hj, randomAccess_con_ge bits copies extra _ j hj]

/-! ## (b), (c) for bit wire `i` of copy `c` -/

/-- what a replacement of bit wire `i` of copy `c` leaves unchanged -/
theorem ra_bit_frame (bits copies extra : Nat) (v v' : EvalVars K) (c i : Nat) (hi : i < bits)
    (hd : DiffersOnlyAt v v' (raWireBit bits copies extra i c)) :
    (∀ c' i', i' < bits → (c', i') ≠ (c, i) →
      v'.wires[raWireBit bits copies extra i' c']! = v.wires[raWireBit bits copies extra i' c']!) ∧
    (∀ c', c' < copies → v'.wires[raWireAccessIndex bits c']! = v.wires[raWireAccessIndex bits c']!) ∧
    (∀ c', c' ≠ c → raBitList bits copies extra v' c' = raBitList bits copies extra v c') ∧
    (∀ c', c' < copies → raItemList bits v' c' = raItemList bits v c') ∧
    (∀ c', c' < copies →
      v'.wires[raWireClaimedElement bits c']! = v.wires[raWireClaimedElement bits c']!) ∧
    (∀ i', i' < extra →
      v'.wires[raWireExtraConstant bits copies i']! = v.wires[raWireExtraConstant bits copies i']!) := by
  have hge := raWireBit_ge bits copies extra i c
  have hbit : ∀ c' i', i' < bits → (c', i') ≠ (c, i) →
      v'.wires[raWireBit bits copies extra i' c']! = v.wires[raWireBit bits copies extra i' c']! :=
    fun c' i' hi' hne => hd.same _ fun h => hne (by
      obtain ⟨h1, h2⟩ := raWireBit_inj bits copies extra i' i c' c hi' hi h
      rw [h1, h2])
  refine ⟨hbit, ?_, ?_, ?_, ?_, ?_⟩
  · intro c' hc'
    have := raWireAccessIndex_lt bits copies extra c' hc'
    exact hd.same _ (by omega)
  · intro c' hne
    unfold raBitList
    exact List.map_congr_left fun i' hi' =>
      hbit c' i' (List.mem_range.1 hi') (fun h => hne (congrArg Prod.fst h))
  · intro c' hc'
    unfold raItemList
    refine List.map_congr_left fun i' hi' => hd.same _ ?_
    have := raWireListItem_lt bits copies extra i' c' hc' (List.mem_range.1 hi')
    omega
  · intro c' hc'
    have := raWireClaimedElement_lt bits copies extra c' hc'
    exact hd.same _ (by omega)
  · intro i' hi'
    have := raWireExtraConstant_lt bits copies extra i' hi'
    exact hd.same _ (by omega)

/-- the index constraint of copy `c` is affine in bit wire `i` with coefficient `2^i` -/
theorem randomAccess_index_shift (bits copies extra : Nat) (v v' : EvalVars K) (c i : Nat)
    (hc : c < copies) (hi : i < bits) (hd : DiffersOnlyAt v v' (raWireBit bits copies extra i c)) :
    con (.randomAccess bits copies extra) v' ((bits + 2) * c + bits)
      = con (.randomAccess bits copies extra) v ((bits + 2) * c + bits)
        + (v'.wires[raWireBit bits copies extra i c]! - v.wires[raWireBit bits copies extra i c]!) * 2 ^ i := by
  obtain ⟨hbit, hacc, _, _, _, _⟩ := ra_bit_frame bits copies extra v v' c i hi hd
  rw [randomAccess_con_index bits copies extra _ c hc, randomAccess_con_index bits copies extra _ c hc,
    hacc c hc]
  have hsum : (∑ j ∈ Finset.range bits, v'.wires[raWireBit bits copies extra j c]! * 2 ^ j)
      = ∑ j ∈ Finset.range bits, (v.wires[raWireBit bits copies extra j c]! * 2 ^ j
          + if j = i then (v'.wires[raWireBit bits copies extra i c]!
              - v.wires[raWireBit bits copies extra i c]!) * 2 ^ i else 0) := by
    refine Finset.sum_congr rfl fun j hj => ?_
    by_cases hji : j = i
    · subst hji; rw [if_pos rfl]; ring
    · rw [if_neg hji, add_zero, hbit c j (Finset.mem_range.1 hj) (fun h => hji (congrArg Prod.snd h))]
  rw [hsum, Finset.sum_add_distrib, Finset.sum_ite_eq', if_pos (Finset.mem_range.2 hi)]
  ring

/-- (b) bit wire `i` of copy `c` is pinned by the index constraint `(bits+2)·c + bits`, PROVIDED
`(2:K)^i ≠ 0` (i.e. `(2:K) ≠ 0 ∨ i = 0`); see `randomAccess_bit_not_pinned_char2` for necessity -/
theorem randomAccess_pinned_bit (bits copies extra : Nat) (v v' : EvalVars K) (c i : Nat)
    (hc : c < copies) (hi : i < bits) (h2 : (2 : K) ^ i ≠ 0)
    (hd : DiffersOnlyAt v v' (raWireBit bits copies extra i c))
    (h0 : con (.randomAccess bits copies extra) v ((bits + 2) * c + bits) = 0) :
    con (.randomAccess bits copies extra) v' ((bits + 2) * c + bits) ≠ 0 := by
  rw [randomAccess_index_shift bits copies extra v v' c i hc hi hd, h0, zero_add]
  exact mul_ne_zero (sub_ne_zero.2 hd.diff) h2

theorem randomAccess_pinned_bit' (bits copies extra : Nat) (v v' : EvalVars K) (c i : Nat)
    (hc : c < copies) (hi : i < bits) (h2 : (2 : K) ≠ 0 ∨ i = 0)
    (hd : DiffersOnlyAt v v' (raWireBit bits copies extra i c))
    (h0 : con (.randomAccess bits copies extra) v ((bits + 2) * c + bits) = 0) :
    con (.randomAccess bits copies extra) v' ((bits + 2) * c + bits) ≠ 0 :=
  randomAccess_pinned_bit bits copies extra v v' c i hc hi
    (by rcases h2 with h | h
        · exact pow_ne_zero _ h
        · rw [h, pow_zero]; exact one_ne_zero) hd h0

/-- conversely, when `(2:K)^i = 0` the index constraint does not see bit wire `i` at all -/
theorem randomAccess_index_blind (bits copies extra : Nat) (v v' : EvalVars K) (c i : Nat)
    (hc : c < copies) (hi : i < bits) (h2 : (2 : K) ^ i = 0)
    (hd : DiffersOnlyAt v v' (raWireBit bits copies extra i c)) :
    con (.randomAccess bits copies extra) v' ((bits + 2) * c + bits)
      = con (.randomAccess bits copies extra) v ((bits + 2) * c + bits) := by
  rw [randomAccess_index_shift bits copies extra v v' c i hc hi hd, h2, mul_zero, add_zero]

/-- (c) replacing bit wire `i` of copy `c` changes nothing outside copy `c`'s chunk, and inside
the chunk leaves the booleanity constraints of the other bits unchanged: the only constraints that
can change are booleanity `i`, the index constraint and the mux constraint of copy `c` -/
theorem randomAccess_others_bit (bits copies extra : Nat) (v v' : EvalVars K) (c i : Nat)
    (hi : i < bits) (hd : DiffersOnlyAt v v' (raWireBit bits copies extra i c)) :
    ∀ j, j ≠ (bits + 2) * c + i → j ≠ (bits + 2) * c + bits → j ≠ (bits + 2) * c + bits + 1 →
      con (.randomAccess bits copies extra) v' j = con (.randomAccess bits copies extra) v j := by
  obtain ⟨hbit, hacc, hbl, hil, hcl, hex⟩ := ra_bit_frame bits copies extra v v' c i hi hd
  refine ra_index_cases bits copies extra _ ?_ ?_ ?_ ?_ ?_
  · intro c' i' hc' hi' hne _ _
    have : (c', i') ≠ (c, i) := fun h => hne (by rw [(Prod.mk.inj h).1, (Prod.mk.inj h).2])
    rw [randomAccess_con_bool bits copies extra _ c' i' hc' hi',
      randomAccess_con_bool bits copies extra _ c' i' hc' hi', hbit c' i' hi' this]
  · intro c' hc' _ hne _
    have hcc : c' ≠ c := fun h => hne (by rw [h])
    rw [randomAccess_con_index bits copies extra _ c' hc', randomAccess_con_index bits copies extra _ c' hc',
      hacc c' hc']
    congr 1
    refine Finset.sum_congr rfl fun j hj => ?_
    rw [hbit c' j (Finset.mem_range.1 hj) (fun h => hcc (congrArg Prod.fst h))]
  · intro c' hc' _ _ hne
    have hcc : c' ≠ c := fun h => hne (by rw [h])
    rw [randomAccess_con_mux bits copies extra _ c' hc', randomAccess_con_mux bits copies extra _ c' hc',
      hbl c' hcc, hil c' hc', hcl c' hc']
  · intro i' hi' _ _ _
    rw [randomAccess_con_extra bits copies extra _ i' hi', randomAccess_con_extra bits copies extra _ i' hi',
      hex i' hi', hd.constants]
  · intro j hj _ _ _
    rw [randomAccess_con_ge bits copies extra _ j hj, randomAccess_con_ge bits copies extra _ j hj]

end

/-! ## necessity of `(2:K)^i ≠ 0`: a characteristic-2 counterexample

Over `ZMod 2`, gate `randomAccess 2 1 0` (one copy, wires: 0 = access index, 1 = claimed, 2..5 = the
four list items, 6, 7 = the two bit wires).  The all-zero row and the row with bit wire 1 (wire 7)
set to `1` BOTH satisfy every constraint: booleanity holds for `0` and `1`, the index constraint
reads `b₀ + 2·b₁ − index = 0 + 2·1 − 0 = 0` because `2 = 0`, and since all list items are equal
the mux constraint cannot tell the selected positions apart.  So in characteristic 2 a bit wire
`i ≥ 1` is not pinned by the gate (the index constraint is blind to it, `randomAccess_index_blind`;
only the mux constraint can catch it, and only when the two selected items differ). -/

section Char2
/-- the all-zero row for `randomAccess 2 1 0` over `ZMod 2` -/
def raC2Row : EvalVars (ZMod 2) := ⟨#[], #[0, 0, 0, 0, 0, 0, 0, 0], #[]⟩
/-- the same row with bit wire 1 (wire 7) set to 1 -/
def raC2Row' : EvalVars (ZMod 2) := ⟨#[], #[0, 0, 0, 0, 0, 0, 0, 1], #[]⟩

theorem randomAccess_bit_not_pinned_char2 :
    raWireBit 2 1 0 1 0 = 7 ∧ DiffersOnlyAt raC2Row raC2Row' (raWireBit 2 1 0 1 0) ∧
    Sat (.randomAccess 2 1 0) raC2Row ∧ Sat (.randomAccess 2 1 0) raC2Row' := by
  refine ⟨by decide, ⟨rfl, rfl, ?_, by decide⟩, by unfold Sat; decide, by unfold Sat; decide⟩
  intro j hj
  rcases j with _|_|_|_|_|_|_|_|j
  all_goals first | rfl | exact absurd rfl hj

/-- in particular the conclusion of `randomAccess_pinned_bit` fails there -/
example : (2 : ZMod 2) ^ 1 = 0 ∧
    con (.randomAccess 2 1 0) raC2Row ((2 + 2) * 0 + 2) = 0 ∧
    con (.randomAccess 2 1 0) raC2Row' ((2 + 2) * 0 + 2) = 0 := by decide
end Char2

/-! ## Goldilocks: the side condition holds; phase 2 (the model's generator) -/

section GLPhase
attribute [local instance] glField

theorem ra_two_ne_zero_GL : (2 : P2.GL) ≠ 0 := by decide

/-- over Goldilocks every bit wire is pinned by the index constraint of its copy -/
theorem randomAccess_pinned_bit_GL (bits copies extra : Nat) (v v' : EvalVars P2.GL) (c i : Nat)
    (hc : c < copies) (hi : i < bits)
    (hd : DiffersOnlyAt v v' (raWireBit bits copies extra i c))
    (h0 : con (.randomAccess bits copies extra) v ((bits + 2) * c + bits) = 0) :
    con (.randomAccess bits copies extra) v' ((bits + 2) * c + bits) ≠ 0 :=
  randomAccess_pinned_bit' bits copies extra v v' c i hc hi (Or.inl (by decide)) hd h0

theorem ra_natCast_val_GL (x : P2.GL) : ((x.val : ℕ) : P2.GL) = x := by
  rw [← ofNat_GL]
  exact Fin.ext (Nat.mod_eq_of_lt x.isLt)

/-- writing `g i` to wires `B + i`, `i < n` -/
theorem ra_foldl_set_range (B : Nat) (g : Nat → P2.GL) (ws : Array P2.GL) : ∀ n : Nat,
    ((List.range n).foldl (fun ws i => ws.set! (B + i) (g i)) ws).size = ws.size ∧
    ∀ j, ((List.range n).foldl (fun ws i => ws.set! (B + i) (g i)) ws)[j]! =
      if B ≤ j ∧ j < B + n ∧ j < ws.size then g (j - B) else ws[j]!
  | 0 => ⟨rfl, fun j => by simp; omega⟩
  | n + 1 => by
    obtain ⟨ihs, ih⟩ := ra_foldl_set_range B g ws n
    rw [List.range_succ, List.foldl_append, List.foldl_cons, List.foldl_nil]
    refine ⟨by rw [size_set!, ihs], fun j => ?_⟩
    rw [getElem!_set!, ih j, ihs]
    by_cases hj : j = B + n
    · subst hj
      by_cases hs : B + n < ws.size
      · rw [if_pos ⟨rfl, hs⟩, if_pos ⟨by omega, by omega, hs⟩, Nat.add_sub_cancel_left]
      · rw [if_neg (fun h => hs h.2), if_neg (fun h => hs h.2.2), if_neg (fun h => hs h.2.2)]
    · rw [if_neg (fun h => hj h.1)]
      by_cases hc : B ≤ j ∧ j < B + n ∧ j < ws.size
      · rw [if_pos hc, if_pos ⟨hc.1, by omega, hc.2.2⟩]
      · rw [if_neg hc, if_neg (fun h => hc ⟨h.1, by omega, h.2.2⟩)]

/-- one iteration of `RandomAccessGenerator::run_once` (copy `copy`) -/
def raGenStep (bits copies extra : Nat) (ws : Array P2.GL) (copy : Nat) : Array P2.GL :=
  (List.range bits).foldl (fun ws' i => ws'.set! (raWireBit bits copies extra i copy)
      (GL.ofNat (((ws[raWireAccessIndex bits copy]!).val / 2 ^ i) % 2)))
    (ws.set! (raWireClaimedElement bits copy)
      ws[raWireListItem bits (ws[raWireAccessIndex bits copy]!).val copy]!)

/-- the zero-padded input row -/
def raPad (bits copies extra : Nat) (wires : Array P2.GL) : Array P2.GL :=
  wires ++ Array.replicate ((GateKind.randomAccess bits copies extra).numWires - wires.size) 0

theorem generate_randomAccess (bits copies extra : Nat) (consts wires : Array P2.GL) :
    (GateKind.randomAccess bits copies extra).generate consts wires
      = (List.range copies).foldl (raGenStep bits copies extra) (raPad bits copies extra wires) := rfl

theorem raPad_size (bits copies extra : Nat) (wires : Array P2.GL) :
    raNumRoutedWires bits copies extra + copies * bits ≤ (raPad bits copies extra wires).size := by
  simp only [raPad, Array.size_append, Array.size_replicate, GateKind.numWires]; omega

theorem raGenStep_spec (bits copies extra : Nat) (ws : Array P2.GL) (c : Nat) (hc : c < copies)
    (hs : raNumRoutedWires bits copies extra + copies * bits ≤ ws.size) :
    (raGenStep bits copies extra ws c).size = ws.size ∧
    (∀ j, j ≠ raWireClaimedElement bits c → (∀ i, i < bits → j ≠ raWireBit bits copies extra i c) →
      (raGenStep bits copies extra ws c)[j]! = ws[j]!) ∧
    (raGenStep bits copies extra ws c)[raWireClaimedElement bits c]!
      = ws[raWireListItem bits (ws[raWireAccessIndex bits c]!).val c]! ∧
    (∀ i, i < bits → (raGenStep bits copies extra ws c)[raWireBit bits copies extra i c]!
      = GL.ofNat (((ws[raWireAccessIndex bits c]!).val / 2 ^ i) % 2)) := by
  obtain ⟨hsz, hget⟩ := ra_foldl_set_range (raNumRoutedWires bits copies extra + c * bits)
    (fun i => GL.ofNat (((ws[raWireAccessIndex bits c]!).val / 2 ^ i) % 2))
    (ws.set! (raWireClaimedElement bits c)
      ws[raWireListItem bits (ws[raWireAccessIndex bits c]!).val c]!) bits
  have hcl := raWireClaimedElement_lt bits copies extra c hc
  have hblk : c * bits + bits ≤ copies * bits := by
    calc c * bits + bits = (c + 1) * bits := by ring
      _ ≤ copies * bits := Nat.mul_le_mul_right _ hc
  simp only [size_set!] at hsz hget
  refine ⟨hsz, ?_, ?_, ?_⟩
  · intro j hj1 hj2
    show (List.foldl _ _ _)[j]! = _
    simp only [raWireBit]
    rw [hget j, if_neg, getElem!_set!_ne _ _ _ _ hj1]
    rintro ⟨h1, h2, _⟩
    exact hj2 (j - (raNumRoutedWires bits copies extra + c * bits)) (by omega)
      (by simp only [raWireBit]; omega)
  · show (List.foldl _ _ _)[_]! = _
    simp only [raWireBit]
    rw [hget _, if_neg (by omega), getElem!_set!_self _ _ _ (by omega)]
  · intro i hi
    show (List.foldl _ _ _)[_]! = _
    simp only [raWireBit]
    rw [hget _, if_pos ⟨by omega, by omega, by omega⟩, Nat.add_sub_cancel_left]

/-- the state of the row after the first `m` copies have been processed -/
theorem raGen_invariant (bits copies extra : Nat) (ws0 : Array P2.GL)
    (hs : raNumRoutedWires bits copies extra + copies * bits ≤ ws0.size)
    (hacc : ∀ c, c < copies → (ws0[raWireAccessIndex bits c]!).val < 2 ^ bits) :
    ∀ m, m ≤ copies →
      ((List.range m).foldl (raGenStep bits copies extra) ws0).size = ws0.size ∧
      (∀ j, (∀ c, c < m → j ≠ raWireClaimedElement bits c) →
        (∀ c i, c < m → i < bits → j ≠ raWireBit bits copies extra i c) →
        ((List.range m).foldl (raGenStep bits copies extra) ws0)[j]! = ws0[j]!) ∧
      (∀ c, c < m → ((List.range m).foldl (raGenStep bits copies extra) ws0)[raWireClaimedElement bits c]!
        = ws0[raWireListItem bits (ws0[raWireAccessIndex bits c]!).val c]!) ∧
      (∀ c i, c < m → i < bits →
        ((List.range m).foldl (raGenStep bits copies extra) ws0)[raWireBit bits copies extra i c]!
          = GL.ofNat (((ws0[raWireAccessIndex bits c]!).val / 2 ^ i) % 2))
  | 0, _ => ⟨rfl, fun _ _ _ => rfl, fun c hc => absurd hc (Nat.not_lt_zero c),
      fun c _ hc => absurd hc (Nat.not_lt_zero c)⟩
  | m + 1, hm => by
    obtain ⟨ihs, ihu, ihc, ihb⟩ := raGen_invariant bits copies extra ws0 hs hacc m (by omega)
    have hmc : m < copies := by omega
    rw [List.range_succ, List.foldl_append, List.foldl_cons, List.foldl_nil]
    generalize (List.range m).foldl (raGenStep bits copies extra) ws0 = W at ihs ihu ihc ihb
    obtain ⟨ss, su, sc, sb⟩ := raGenStep_spec bits copies extra W m hmc (by rw [ihs]; exact hs)
    -- the wires read by the step are still those of the input row
    have hRacc : ∀ c, c < copies → W[raWireAccessIndex bits c]! = ws0[raWireAccessIndex bits c]! := by
      intro c hc
      refine ihu _ (fun c' _ => raWireClaimedElement_ne_accessIndex bits c' c) (fun c' i _ _ => ?_)
      have := raWireAccessIndex_lt bits copies extra c hc
      have := raWireBit_ge bits copies extra i c'
      omega
    have hRitem : ∀ c i, c < copies → i < 2 ^ bits →
        W[raWireListItem bits i c]! = ws0[raWireListItem bits i c]! := by
      intro c i hc hi
      refine ihu _ (fun c' _ => raWireClaimedElement_ne_listItem bits i c' c hi) (fun c' i' _ _ => ?_)
      have := raWireListItem_lt bits copies extra i c hc hi
      have := raWireBit_ge bits copies extra i' c'
      omega
    have hne_cb : ∀ c c' i, c < copies → raWireClaimedElement bits c ≠ raWireBit bits copies extra i c' := by
      intro c c' i hc
      have := raWireClaimedElement_lt bits copies extra c hc
      have := raWireBit_ge bits copies extra i c'
      omega
    rw [hRacc m hmc, hRitem m _ hmc (hacc m hmc)] at sc
    rw [hRacc m hmc] at sb
    refine ⟨by rw [ss, ihs], ?_, ?_, ?_⟩
    · intro j hj1 hj2
      rw [su j (hj1 m (by omega)) (fun i hi => hj2 m i (by omega) hi)]
      exact ihu j (fun c hc => hj1 c (by omega)) (fun c i hc hi => hj2 c i (by omega) hi)
    · intro c hc
      rcases Nat.lt_or_ge c m with h | h
      · rw [su _ (fun e => absurd (raWireClaimedElement_inj bits c m e) (by omega))
          (fun i _ => hne_cb c m i (by omega))]
        exact ihc c h
      · have : c = m := by omega
        subst this
        exact sc
    · intro c i hc hi
      rcases Nat.lt_or_ge c m with h | h
      · rw [su _ (fun e => hne_cb m c i hmc e.symm)
          (fun i' hi' e => absurd (raWireBit_inj bits copies extra i i' c m hi hi' e).1 (by omega))]
        exact ihb c i h hi
      · have : c = m := by omega
        subst this
        exact sb i hi

/-- PHASE 2: under the generator's contract (`accessIndex < 2^bits` for every copy, read on the
zero-padded row) the row produced by the model's `RandomAccessGenerator` satisfies the gate,
provided the extra-constant wires (which this generator does not write — in plonky2 they are set by
`ConstantGenerator`s) already carry the constants -/
theorem randomAccess_generate_sat (bits copies extra : Nat) (consts wires pih : Array P2.GL)
    (hacc : ∀ c, c < copies →
      ((raPad bits copies extra wires)[raWireAccessIndex bits c]!).val < 2 ^ bits)
    (hextra : ∀ i, i < extra →
      (raPad bits copies extra wires)[raWireExtraConstant bits copies i]! = consts[i]!) :
    ∀ c ∈ (GateKind.randomAccess bits copies extra).evalUnfiltered
      (genRow (.randomAccess bits copies extra) consts wires pih), c = 0 := by
  rw [evalGL_randomAccess]
  obtain ⟨_, hu, hcl, hb⟩ := raGen_invariant bits copies extra (raPad bits copies extra wires)
    (raPad_size bits copies extra wires) hacc copies (Nat.le_refl _)
  rw [← generate_randomAccess bits copies extra consts wires] at hu hcl hb
  have hne_b : ∀ j, j < raNumRoutedWires bits copies extra →
      ∀ c i, c < copies → i < bits → j ≠ raWireBit bits copies extra i c := by
    intro j hj c i _ _
    have := raWireBit_ge bits copies extra i c
    omega
  apply randomAccess_gen_sat
  · intro c hc
    refine ⟨((raPad bits copies extra wires)[raWireAccessIndex bits c]!).val, hacc c hc, ?_, ?_, ?_⟩
    · show ((GateKind.randomAccess bits copies extra).generate consts wires)[_]! = _
      rw [hu _ (fun c' _ => raWireClaimedElement_ne_accessIndex bits c' c)
        (hne_b _ (raWireAccessIndex_lt bits copies extra c hc)), ra_natCast_val_GL]
    · intro i hi
      show ((GateKind.randomAccess bits copies extra).generate consts wires)[_]! = _
      rw [hb c i hc hi, ofNat_GL]
    · show ((GateKind.randomAccess bits copies extra).generate consts wires)[_]!
        = ((GateKind.randomAccess bits copies extra).generate consts wires)[_]!
      rw [hcl c hc, hu _ (fun c' _ => raWireClaimedElement_ne_listItem bits _ c' c (hacc c hc))
        (hne_b _ (raWireListItem_lt bits copies extra _ c hc (hacc c hc)))]
  · intro i hi
    show ((GateKind.randomAccess bits copies extra).generate consts wires)[_]! = consts[i]!
    rw [hu _ (fun c' hc' => ?_) (hne_b _ (raWireExtraConstant_lt bits copies extra i hi)), hextra i hi]
    have := raWireClaimedElement_lt_start bits copies c' hc'
    simp only [raWireExtraConstant]; omega

/-- non-vacuity: a concrete row (`bits = 2`, one copy, one extra constant; access index 2) -/
example : ∀ c ∈ (GateKind.randomAccess 2 1 1).evalUnfiltered
    (genRow (.randomAccess 2 1 1) #[5] #[2, 0, 10, 11, 12, 13, 5] #[]), c = 0 :=
  randomAccess_generate_sat 2 1 1 _ _ _ (by decide) (by decide)

end GLPhase

end P2.Lemmas.C07
