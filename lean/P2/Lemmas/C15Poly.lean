/-
Helpers for C15b: coefficient lists as Mathlib polynomials, `trim`/`degreePlusOne`, `add`/`sub`/`mul`,
long division, coset transforms, barycentric weights.
-/
import Mathlib.Algebra.Polynomial.Div
import Mathlib.Algebra.Polynomial.FieldDivision
import Mathlib.LinearAlgebra.Lagrange
import P2.Lemmas.Alg2
import P2.Lemmas.C15Fft
set_option linter.unusedSectionVars false
namespace P2.Lemmas.C15Poly
open P2 Polynomial P2.Lemmas.Alg2

section
variable {K : Type} [Field K] [DecidableEq K]

local notation "dpo" => @Poly.degreePlusOne _ (FOps.ofField _)
local notation "trimK" => @Poly.trim _ (FOps.ofField _)

/-- the polynomial with coefficient list `c` (low degree first) -/
noncomputable def toPoly (c : List K) : K[X] := ∑ i : Fin c.length, C c[i] * X ^ (i : Nat)

omit [DecidableEq K] in
theorem toPoly_coeff (c : List K) (k : Nat) : (toPoly c).coeff k = c.getD k 0 := by
  unfold toPoly
  rw [finsetSum_coeff]
  simp only [coeff_C_mul, coeff_X_pow]
  by_cases h : k < c.length
  · rw [Finset.sum_eq_single ⟨k, h⟩]
    · simp [h]
    · intro b _ hb
      have : k ≠ (b : Nat) := fun e => hb (Fin.ext e.symm)
      simp [this]
    · simp
  · rw [Finset.sum_eq_zero]
    · simp [List.getElem?_eq_none (by omega : c.length ≤ k)]
    · intro b _
      have : k ≠ (b : Nat) := by have := b.2; omega
      simp [this]

omit [DecidableEq K] in
theorem toPoly_eq_ofList (c : List K) : toPoly c = ofList c := by
  ext k; rw [toPoly_coeff, ofList_coeff]

omit [DecidableEq K] in
theorem toPoly_ext {a b : List K} (h : ∀ k, a.getD k 0 = b.getD k 0) : toPoly a = toPoly b := by
  ext k; rw [toPoly_coeff, toPoly_coeff, h]

omit [DecidableEq K] in
theorem toPoly_eq_iff {a b : List K} : toPoly a = toPoly b ↔ ∀ k, a.getD k 0 = b.getD k 0 := by
  constructor
  · intro h k; rw [← toPoly_coeff, ← toPoly_coeff, h]
  · exact toPoly_ext

omit [DecidableEq K] in
theorem toPoly_nil : toPoly ([] : List K) = 0 := by
  ext k; simp [toPoly_coeff]

theorem toPoly_eval (c : List K) (x : K) :
    (toPoly c).eval x = @Poly.eval K (FOps.ofField K) c x := by
  rw [toPoly_eq_ofList, ofList_eval]

/-! ### degreePlusOne, trim -/

theorem dpo_nil : dpo ([] : List K) = 0 := rfl

theorem dpo_append_singleton (c : List K) (a : K) :
    dpo (c ++ [a]) = if a = 0 then dpo c else c.length + 1 := by
  unfold Poly.degreePlusOne
  rw [List.zipIdx_append, List.reverse_append]
  simp only [List.zipIdx_cons, List.zipIdx_nil, List.reverse_cons, List.reverse_nil, List.nil_append,
    List.singleton_append, List.find?_cons]
  have hz : (@BEq.beq K (FOps.ofField K).toBEq a (@FOps.zero K (FOps.ofField K))) = decide (a = 0) := rfl
  rw [hz]
  by_cases h : a = 0
  · simp [h]
  · simp [h]

omit [DecidableEq K] in
theorem getD_append_singleton (c : List K) (a : K) (i : Nat) :
    (c ++ [a]).getD i 0 = if i < c.length then c.getD i 0 else if i = c.length then a else 0 := by
  simp only [List.getD_eq_getElem?_getD, List.getElem?_append]
  split
  · rfl
  · split
    · next h => subst h; simp
    · next h1 h2 =>
      have : i - c.length ≠ 0 := by omega
      obtain ⟨m, hm⟩ := Nat.exists_eq_succ_of_ne_zero this
      rw [hm]; simp

theorem dpo_le_length (c : List K) : dpo c ≤ c.length := by
  induction c using List.reverseRecOn with
  | nil => simp [dpo_nil]
  | append_singleton c a ih =>
    rw [dpo_append_singleton]
    split
    · simp; omega
    · simp

theorem getD_eq_zero_of_dpo_le (c : List K) (i : Nat) (h : dpo c ≤ i) : c.getD i 0 = 0 := by
  induction c using List.reverseRecOn with
  | nil => simp
  | append_singleton c a ih =>
    rw [dpo_append_singleton] at h
    rw [getD_append_singleton]
    split at h
    · next ha =>
      split
      · exact ih h
      · split
        · exact ha
        · rfl
    · rw [if_neg (by omega), if_neg (by omega)]

theorem getD_dpo_pred_ne_zero (c : List K) (h : dpo c ≠ 0) : c.getD (dpo c - 1) 0 ≠ 0 := by
  induction c using List.reverseRecOn with
  | nil => simp [dpo_nil] at h
  | append_singleton c a ih =>
    rw [dpo_append_singleton] at h ⊢
    rw [getD_append_singleton]
    split
    · next ha =>
      rw [if_pos ha] at h
      have := dpo_le_length c
      rw [if_pos (by omega)]
      exact ih h
    · next ha => simp [ha]

theorem dpo_le_iff (c : List K) (n : Nat) : dpo c ≤ n ↔ ∀ i, n ≤ i → c.getD i 0 = 0 := by
  constructor
  · intro h i hi
    exact getD_eq_zero_of_dpo_le c i (by omega)
  · intro h
    by_contra hlt
    have h0 : dpo c ≠ 0 := by omega
    exact getD_dpo_pred_ne_zero c h0 (h _ (by omega))

theorem dpo_le_iff_degree_lt (c : List K) (n : Nat) : dpo c ≤ n ↔ (toPoly c).degree < n := by
  rw [dpo_le_iff, degree_lt_iff_coeff_zero]
  simp only [toPoly_coeff]

theorem dpo_eq_zero_iff (c : List K) : dpo c = 0 ↔ toPoly c = 0 := by
  rw [← Nat.le_zero, dpo_le_iff]
  constructor
  · intro h; ext k; rw [toPoly_coeff, h k (Nat.zero_le _)]; simp
  · intro h i _; rw [← toPoly_coeff, h]; simp

theorem dpo_eq_natDegree_succ (c : List K) (h : toPoly c ≠ 0) :
    dpo c = (toPoly c).natDegree + 1 := by
  have h0 : dpo c ≠ 0 := fun e => h ((dpo_eq_zero_iff c).1 e)
  have h1 : (toPoly c).natDegree = dpo c - 1 := by
    apply natDegree_eq_of_le_of_coeff_ne_zero
    · rw [natDegree_le_iff_coeff_eq_zero]
      intro N hN
      rw [toPoly_coeff]
      exact getD_eq_zero_of_dpo_le c N (by omega)
    · rw [toPoly_coeff]; exact getD_dpo_pred_ne_zero c h0
  omega

theorem dpo_congr {a b : List K} (h : toPoly a = toPoly b) : dpo a = dpo b := by
  rw [toPoly_eq_iff] at h
  apply le_antisymm
  · rw [dpo_le_iff]; intro i hi; rw [h]; exact getD_eq_zero_of_dpo_le b i hi
  · rw [dpo_le_iff]; intro i hi; rw [← h]; exact getD_eq_zero_of_dpo_le a i hi

omit [DecidableEq K] in
theorem getD_take (c : List K) (n i : Nat) :
    (c.take n).getD i 0 = if i < n then c.getD i 0 else 0 := by
  simp only [List.getD_eq_getElem?_getD, List.getElem?_take]
  split <;> simp

theorem toPoly_trim (c : List K) : toPoly (trimK c) = toPoly c := by
  apply toPoly_ext
  intro k
  unfold Poly.trim
  rw [getD_take]
  split
  · rfl
  · exact (getD_eq_zero_of_dpo_le c k (by omega)).symm

theorem length_trim (c : List K) : (trimK c).length = dpo c := by
  unfold Poly.trim
  rw [List.length_take]
  exact Nat.min_eq_left (dpo_le_length c)

theorem dpo_trim (c : List K) : dpo (trimK c) = dpo c := dpo_congr (toPoly_trim c)

theorem trim_getLast?_ne (c : List K) : (trimK c).getLast? ≠ some 0 := by
  rw [List.getLast?_eq_getElem?, length_trim]
  by_cases h0 : dpo c = 0
  · have : trimK c = [] := List.eq_nil_of_length_eq_zero (by rw [length_trim, h0])
    rw [this]; simp
  · have h1 := getD_dpo_pred_ne_zero c h0
    have hl := dpo_le_length c
    intro h
    apply h1
    unfold Poly.trim at h
    rw [List.getElem?_take, if_pos (by omega)] at h
    rw [List.getD_eq_getElem?_getD, h]; rfl

/-- a list is trimmed when its last element (if any) is nonzero -/
def Trimmed (c : List K) : Prop := c.getLast? ≠ some 0

theorem trimmed_iff_dpo (c : List K) : Trimmed c ↔ dpo c = c.length := by
  unfold Trimmed
  induction c using List.reverseRecOn with
  | nil => simp [dpo_nil]
  | append_singleton c a _ =>
    rw [dpo_append_singleton]
    have := dpo_le_length c
    by_cases ha : a = 0
    · simp [ha]; omega
    · simp [ha]

theorem trim_eq_self_iff (c : List K) : trimK c = c ↔ Trimmed c := by
  rw [trimmed_iff_dpo]
  constructor
  · intro h; rw [← length_trim, h]
  · intro h; unfold Poly.trim; rw [h, List.take_length]

theorem trimmed_trim (c : List K) : Trimmed (trimK c) := trim_getLast?_ne c

/-- trimmed lists are determined by the polynomial -/
theorem trim_congr {a b : List K} (h : toPoly a = toPoly b) : trimK a = trimK b := by
  have hd := dpo_congr h
  rw [toPoly_eq_iff] at h
  apply List.ext_getElem
  · rw [length_trim, length_trim, hd]
  · intro i h1 h2
    have := h i
    rw [length_trim] at h1 h2
    have e1 := getD_take a (dpo a) i
    have e2 := getD_take b (dpo b) i
    rw [if_pos h1] at e1
    rw [if_pos h2] at e2
    have : (trimK a).getD i 0 = (trimK b).getD i 0 := by
      unfold Poly.trim; rw [e1, e2, h i]
    simpa [List.getD_eq_getElem?_getD, length_trim, h1, h2] using this

theorem trimmed_eq_of_toPoly_eq {a b : List K} (ha : Trimmed a) (hb : Trimmed b)
    (h : toPoly a = toPoly b) : a = b := by
  rw [← (trim_eq_self_iff a).2 ha, ← (trim_eq_self_iff b).2 hb]
  exact trim_congr h

/-! ### add, sub, mul -/

local notation "addK" => @Poly.add _ (FOps.ofField _)
local notation "subK" => @Poly.sub _ (FOps.ofField _)
local notation "mulK" => @Poly.mul _ (FOps.ofField _)

theorem getD_add (a b : List K) (i : Nat) : (addK a b).getD i 0 = a.getD i 0 + b.getD i 0 := by
  unfold Poly.add
  show ((List.range (max a.length b.length)).map fun i => a.getD i (0 : K) + b.getD i 0).getD i 0 = _
  by_cases h : i < max a.length b.length
  · simp [List.getD_eq_getElem?_getD, h]
  · have h1 : a.length ≤ i := by omega
    have h2 : b.length ≤ i := by omega
    simp [List.getD_eq_getElem?_getD, h1, h2]

theorem getD_sub (a b : List K) (i : Nat) : (subK a b).getD i 0 = a.getD i 0 - b.getD i 0 := by
  unfold Poly.sub
  show ((List.range (max a.length b.length)).map fun i => a.getD i (0 : K) - b.getD i 0).getD i 0 = _
  by_cases h : i < max a.length b.length
  · simp [List.getD_eq_getElem?_getD, h]
  · have h1 : a.length ≤ i := by omega
    have h2 : b.length ≤ i := by omega
    simp [List.getD_eq_getElem?_getD, h1, h2]

theorem toPoly_add (a b : List K) : toPoly (addK a b) = toPoly a + toPoly b := by
  ext k; rw [coeff_add, toPoly_coeff, toPoly_coeff, toPoly_coeff, getD_add]

theorem toPoly_sub (a b : List K) : toPoly (subK a b) = toPoly a - toPoly b := by
  ext k; rw [coeff_sub, toPoly_coeff, toPoly_coeff, toPoly_coeff, getD_sub]

omit [DecidableEq K] in
theorem foldl_range_cond (n : Nat) (P : Nat → Prop) [DecidablePred P] (f : Nat → K) :
    (List.range n).foldl (fun acc i => if P i then acc + f i else acc) 0
      = ∑ i ∈ Finset.range n, if P i then f i else 0 := by
  induction n with
  | zero => simp
  | succ n ih =>
    rw [List.range_succ, List.foldl_append, ih, Finset.sum_range_succ]
    simp only [List.foldl_cons, List.foldl_nil]
    split <;> simp

theorem getD_mul (a b : List K) (k : Nat) :
    (mulK a b).getD k 0 = ∑ i ∈ Finset.range (k + 1), a.getD i 0 * b.getD (k - i) 0 := by
  unfold Poly.mul
  split
  · next h =>
    have : a = [] ∨ b = [] := by simpa using h
    rcases this with rfl | rfl <;> simp
  · next h =>
    show ((List.range (a.length + b.length - 1)).map fun k =>
      (List.range (k + 1)).foldl (fun acc i =>
        if i < a.length ∧ k - i < b.length then acc + a.getD i (0 : K) * b.getD (k - i) 0 else acc) (0 : K)).getD k 0 = _
    by_cases hk : k < a.length + b.length - 1
    · rw [List.getD_eq_getElem?_getD, List.getElem?_map, List.getElem?_range hk]
      simp only [Option.map_some, Option.getD_some]
      rw [foldl_range_cond]
      apply Finset.sum_congr rfl
      intro i _
      split
      · rfl
      · next hc =>
        by_cases h1 : i < a.length
        · have h2 : b.length ≤ k - i := by omega
          simp [List.getD_eq_getElem?_getD, h2]
        · simp [List.getD_eq_getElem?_getD, Nat.le_of_not_lt h1]
    · rw [List.getD_eq_getElem?_getD, List.getElem?_eq_none (by simp; omega)]
      symm
      apply Finset.sum_eq_zero
      intro i hi
      have hi' := Finset.mem_range.1 hi
      by_cases h1 : i < a.length
      · have h2 : b.length ≤ k - i := by omega
        simp [List.getD_eq_getElem?_getD, h2]
      · simp [List.getD_eq_getElem?_getD, Nat.le_of_not_lt h1]

theorem toPoly_mul (a b : List K) : toPoly (mulK a b) = toPoly a * toPoly b := by
  ext k
  rw [toPoly_coeff, getD_mul, coeff_mul,
    Finset.Nat.sum_antidiagonal_eq_sum_range_succ (fun i j => (toPoly a).coeff i * (toPoly b).coeff j)]
  simp only [toPoly_coeff]

theorem length_mul (a b : List K) (ha : a ≠ []) (hb : b ≠ []) :
    (mulK a b).length = a.length + b.length - 1 := by
  unfold Poly.mul
  simp [ha, hb]

theorem length_add (a b : List K) : (addK a b).length = max a.length b.length := by
  unfold Poly.add; simp

theorem length_sub (a b : List K) : (subK a b).length = max a.length b.length := by
  unfold Poly.sub; simp

/-! ### long division -/

local notation "goK" => @Poly.divRem.go _ (FOps.ofField _)
local notation "divRemK" => @Poly.divRem _ (FOps.ofField _)


omit [DecidableEq K] in
theorem step_r_getD (bt r : List K) (coef : K) (deg : Nat) (hlen : deg + bt.length ≤ r.length)
    (i : Nat) :
    ((r.zipIdx.map fun (p : K × Nat) =>
        if deg ≤ p.2 ∧ p.2 < deg + bt.length then p.1 - coef * bt.getD (p.2 - deg) 0 else p.1).getD i 0)
      = r.getD i 0 - coef * (if deg ≤ i then bt.getD (i - deg) 0 else 0) := by
  by_cases hi : i < r.length
  · simp only [List.getD_eq_getElem?_getD, List.getElem?_map, List.getElem?_zipIdx,
      List.getElem?_eq_getElem hi, Option.map_some, Option.getD_some, Nat.zero_add]
    by_cases h1 : deg ≤ i
    · by_cases h2 : i < deg + bt.length
      · simp [h1, h2]
      · have : bt.length ≤ i - deg := by omega
        simp [h1, h2, List.getElem?_eq_none this]
    · simp [h1]
  · have h3 : bt.length ≤ i - deg := by omega
    have h4 : r.length ≤ i := by omega
    simp [List.getD_eq_getElem?_getD, h3, h4]

omit [DecidableEq K] in
theorem toPoly_step_r (bt r r' : List K) (coef : K) (deg : Nat)
    (h : ∀ i, r'.getD i 0 = r.getD i 0 - coef * (if deg ≤ i then bt.getD (i - deg) 0 else 0)) :
    toPoly r' = toPoly r - C coef * (X ^ deg * toPoly bt) := by
  ext i
  rw [coeff_sub, coeff_C_mul, coeff_X_pow_mul', toPoly_coeff, toPoly_coeff, toPoly_coeff, h]

omit [DecidableEq K] in
theorem toPoly_set (q : Array K) (deg : Nat) (coef : K) (hd : deg < q.size)
    (h0 : q.toList.getD deg 0 = 0) :
    toPoly (q.set! deg coef).toList = toPoly q.toList + C coef * X ^ deg := by
  ext i
  rw [coeff_add, coeff_C_mul, coeff_X_pow, toPoly_coeff, toPoly_coeff]
  show (q.setIfInBounds deg coef).toList.getD i 0 = _
  rw [Array.toList_setIfInBounds, List.getD_eq_getElem?_getD, List.getElem?_set]
  by_cases hi : deg = i
  · subst hi
    have h0' : q[deg] = 0 := by simpa [List.getD_eq_getElem?_getD, hd] using h0
    simp [hd, h0']
  · have : i ≠ deg := fun e => hi e.symm
    simp [hi, this, List.getD_eq_getElem?_getD]

omit [DecidableEq K] in
theorem getD_set (q : Array K) (deg : Nat) (coef : K) (j : Nat) (hj : j ≠ deg) :
    (q.set! deg coef).toList.getD j 0 = q.toList.getD j 0 := by
  show (q.setIfInBounds deg coef).toList.getD j 0 = _
  rw [Array.toList_setIfInBounds, List.getD_eq_getElem?_getD, List.getElem?_set]
  simp [hj.symm, List.getD_eq_getElem?_getD]

omit [DecidableEq K] in
theorem lead_of_trimmed (bt : List K) (hbt : Trimmed bt) (hb0 : bt ≠ []) :
    bt.getLast?.getD 1 = bt.getD (bt.length - 1) 0 ∧ bt.getD (bt.length - 1) 0 ≠ 0 := by
  have hl : 0 < bt.length := List.length_pos_of_ne_nil hb0
  unfold Trimmed at hbt
  rw [List.getLast?_eq_getElem?] at hbt ⊢
  rw [List.getD_eq_getElem?_getD]
  rw [List.getElem?_eq_getElem (by omega : bt.length - 1 < bt.length)] at hbt ⊢
  simp only [Option.getD_some]
  exact ⟨trivial, fun h => hbt (by rw [h])⟩

/-- the division loop: invariant and exit condition, for any fuel above `degreePlusOne r` -/
theorem go_spec (bt : List K) (hbt : Trimmed bt) (hb0 : bt ≠ []) (P : K[X]) (fuel : Nat) :
    ∀ (q : Array K) (r : List K),
    dpo r < fuel →
    P = toPoly q.toList * toPoly bt + toPoly r →
    dpo r < q.size + bt.length →
    (∀ j, j + bt.length ≤ dpo r → q.toList.getD j 0 = 0) →
    P = toPoly (goK bt bt.length (bt.getLast?.getD 1)⁻¹ fuel q r).1.toList * toPoly bt
          + toPoly (goK bt bt.length (bt.getLast?.getD 1)⁻¹ fuel q r).2
      ∧ dpo (goK bt bt.length (bt.getLast?.getD 1)⁻¹ fuel q r).2 < bt.length := by
  have hl : 0 < bt.length := List.length_pos_of_ne_nil hb0
  obtain ⟨hlc, hlc0⟩ := lead_of_trimmed bt hbt hb0
  induction fuel with
  | zero => intro q r h; omega
  | succ fuel ih =>
    intro q r hf hP hsz hq
    unfold Poly.divRem.go
    simp only [show (@FOps.zero K (FOps.ofField K)) = 0 from rfl]
    by_cases hdr : dpo r < bt.length
    · simp only [if_pos hdr]; exact ⟨hP, hdr⟩
    · simp only [if_neg hdr]
      have hrl := dpo_le_length r
      set deg := dpo r - bt.length with hdeg
      set coef : K := r.getD (dpo r - 1) 0 * (bt.getLast?.getD 1)⁻¹ with hcoef
      have hdegsz : deg < q.size := by omega
      have hr' := step_r_getD bt r coef deg (by omega)
      have hr'P := toPoly_step_r bt r _ coef deg hr'
      have hdpo' : @Poly.degreePlusOne K (FOps.ofField K) (r.zipIdx.map fun (p : K × Nat) =>
        if deg ≤ p.2 ∧ p.2 < deg + bt.length then p.1 - coef * bt.getD (p.2 - deg) 0 else p.1)
          ≤ dpo r - 1 := by
        rw [dpo_le_iff]
        intro i hi
        rw [hr']
        by_cases hi2 : i = dpo r - 1
        · have e : i - deg = bt.length - 1 := by omega
          rw [if_pos (by omega), e, hi2, hcoef, hlc]
          field_simp
          ring
        · have h1 := getD_eq_zero_of_dpo_le r i (by omega)
          have h2 : bt.length ≤ i - deg := by omega
          rw [h1, if_pos (by omega)]
          simp [List.getD_eq_getElem?_getD, List.getElem?_eq_none h2]
      refine ih _ _ ?_ ?_ ?_ ?_
      · rw [dpo_trim]; exact lt_of_le_of_lt hdpo' (by omega)
      · rw [toPoly_trim]
        erw [hr'P, toPoly_set q deg coef hdegsz (hq deg (by omega))]
        rw [hP]; ring
      · rw [dpo_trim]
        have : (q.set! deg coef).size = q.size := by simp
        rw [this]; exact lt_of_le_of_lt hdpo' (by omega)
      · intro j hj
        rw [dpo_trim] at hj
        have hjd : j ≠ deg := by
          have := lt_of_le_of_lt hj (lt_of_le_of_lt hdpo' (by omega : dpo r - 1 < dpo r))
          omega
        rw [getD_set q deg coef j hjd]
        apply hq
        have := le_trans hj hdpo'
        omega

omit [DecidableEq K] in
theorem toPoly_replicate_zero (n : Nat) : toPoly (List.replicate n (0 : K)) = 0 := by
  ext k
  rw [toPoly_coeff, List.getD_eq_getElem?_getD, List.getElem?_replicate]
  split <;> simp

theorem degree_lt_of_dpo_lt {r b : List K} (h : dpo r < dpo b) :
    (toPoly r).degree < (toPoly b).degree := by
  have hb : toPoly b ≠ 0 := fun e => by rw [(dpo_eq_zero_iff b).2 e] at h; omega
  have h1 := dpo_eq_natDegree_succ b hb
  rw [degree_eq_natDegree hb, ← dpo_le_iff_degree_lt]
  omega

theorem dpo_lt_of_degree_lt {r b : List K} (hb : toPoly b ≠ 0)
    (h : (toPoly r).degree < (toPoly b).degree) : dpo r < dpo b := by
  have h1 := dpo_eq_natDegree_succ b hb
  rw [degree_eq_natDegree hb, ← dpo_le_iff_degree_lt] at h
  omega

theorem divRem_zero_left (a b : List K) (ha : toPoly a = 0) : divRemK a b = some ([], []) := by
  unfold Poly.divRem
  simp only [(dpo_eq_zero_iff a).2 ha, if_true]

theorem divRem_none_iff (a b : List K) : divRemK a b = none ↔ toPoly b = 0 ∧ toPoly a ≠ 0 := by
  unfold Poly.divRem
  simp only []
  by_cases h1 : dpo a = 0
  · rw [if_pos h1]
    simp [(dpo_eq_zero_iff a).1 h1]
  · rw [if_neg h1]
    have ha : toPoly a ≠ 0 := fun e => h1 ((dpo_eq_zero_iff a).2 e)
    by_cases h2 : (trimK b).length = 0
    · rw [if_pos h2]
      rw [length_trim, dpo_eq_zero_iff] at h2
      simp [h2, ha]
    · rw [if_neg h2]
      rw [length_trim, dpo_eq_zero_iff] at h2
      split
      · simp [h2]
      · simp [h2]

theorem divRem_spec (a b : List K) (hb : toPoly b ≠ 0) :
    ∃ q r, divRemK a b = some (q, r) ∧ toPoly a = toPoly q * toPoly b + toPoly r ∧
      (toPoly r).degree < (toPoly b).degree ∧ Trimmed q ∧ Trimmed r := by
  have hdb : dpo b ≠ 0 := fun e => hb ((dpo_eq_zero_iff b).1 e)
  have hlen : (trimK b).length = dpo b := length_trim b
  have hnil : Trimmed ([] : List K) := by simp [Trimmed]
  have hbdeg : (⊥ : WithBot Nat) < (toPoly b).degree := bot_lt_iff_ne_bot.2 (fun e => hb (degree_eq_bot.1 e))
  unfold Poly.divRem
  simp only [show (@FOps.zero K (FOps.ofField K)) = 0 from rfl,
    show (@FOps.one K (FOps.ofField K)) = 1 from rfl,
    show ∀ x : K, @FOps.inv K (FOps.ofField K) x = x⁻¹ from fun _ => rfl]
  by_cases h1 : dpo a = 0
  · rw [if_pos h1]
    refine ⟨[], [], rfl, ?_, ?_, hnil, hnil⟩
    · simp [toPoly_nil, (dpo_eq_zero_iff a).1 h1]
    · simpa [toPoly_nil] using hbdeg
  · rw [if_neg h1, if_neg (by rw [hlen]; exact hdb)]
    by_cases h2 : dpo a < (trimK b).length
    · rw [if_pos h2]
      refine ⟨[], trimK a, rfl, ?_, ?_, hnil, trimmed_trim a⟩
      · simp [toPoly_nil, toPoly_trim]
      · rw [toPoly_trim]; rw [hlen] at h2; exact degree_lt_of_dpo_lt h2
    · rw [if_neg h2]
      have hbt0 : trimK b ≠ [] := fun e => by rw [e] at hlen; exact hdb hlen.symm
      have key := go_spec (trimK b) (trimmed_trim b) hbt0 (toPoly a) (dpo a + 1)
        (Array.replicate (dpo a - (trimK b).length + 1) 0) (trimK a)
        (by rw [dpo_trim]; omega)
        (by simp [toPoly_replicate_zero, toPoly_trim])
        (by rw [dpo_trim]; simp; omega)
        (by intro j _; rw [Array.toList_replicate, List.getD_eq_getElem?_getD, List.getElem?_replicate]; split <;> simp)
      obtain ⟨k1, k2⟩ := key
      refine ⟨_, _, rfl, ?_, ?_, trimmed_trim _, trimmed_trim _⟩
      · rw [toPoly_trim, toPoly_trim]; rw [toPoly_trim] at k1; exact k1
      · rw [toPoly_trim]; exact degree_lt_of_dpo_lt (lt_of_lt_of_eq k2 hlen)

omit [DecidableEq K] in
/-- uniqueness of Euclidean division in `K[X]` -/
theorem div_mod_unique {a b q r : K[X]} (hb : b ≠ 0) (h : a = q * b + r)
    (hr : r.degree < b.degree) : q = a / b ∧ r = a % b := by
  have hmod : a % b = r := by
    rw [h, add_mod, EuclideanDomain.mod_eq_zero.2 (Dvd.intro_left q rfl), zero_add,
      (mod_eq_self_iff hb).2 hr]
  have hdiv := EuclideanDomain.div_add_mod a b
  rw [hmod] at hdiv
  have : b * (a / b) = b * q := by
    have : b * (a / b) + r = b * q + r := by rw [hdiv, h]; ring
    exact add_right_cancel this
  exact ⟨(mul_left_cancel₀ hb this).symm, hmod.symm⟩

theorem divRem_eq_div_mod (a b : List K) (hb : toPoly b ≠ 0) :
    ∃ q r, divRemK a b = some (q, r) ∧ toPoly q = toPoly a / toPoly b ∧
      toPoly r = toPoly a % toPoly b ∧ Trimmed q ∧ Trimmed r := by
  obtain ⟨q, r, h1, h2, h3, h4, h5⟩ := divRem_spec a b hb
  obtain ⟨e1, e2⟩ := div_mod_unique hb h2 h3
  exact ⟨q, r, h1, e1, e2, h4, h5⟩

end
end P2.Lemmas.C15Poly

/-! pure forms of the transform requests of the driver `P2/Drv/C15.lean` -/
namespace P2.C15b
open P2 P2.Fft
section
variable {K : Type} [FOps K] [Inhabited K]

/-- `fft`: `fft_classic` with `r = 0` over `fft_root_table` (driver: `fwd c lgN 0 lgN`) -/
def fft (pr : Nat → K) (lgN : Nat) (c : Array K) : FftOut K :=
  fftClassic c lgN 0 (rootTable pr lgN)

/-- `n⁻¹` as the driver computes it: `inv (2^lgN)` -/
def nInv (lgN : Nat) : K := FOps.inv (FOps.pow (FOps.ofNat 2) lgN)

def FftOut.map (f : Array K → Array K) : FftOut K → FftOut K
  | .ok v => .ok (f v)
  | .panic => .panic

def FftOut.bind (x : FftOut K) (f : Array K → FftOut K) : FftOut K :=
  match x with
  | .ok v => f v
  | .panic => .panic

/-- `ifft`: forward transform, then `ifftPost` with `n⁻¹` -/
def ifft (pr : Nat → K) (lgN : Nat) (v : Array K) : FftOut K :=
  FftOut.map (fun w => ifftPost w (nInv lgN)) (fft pr lgN v)

/-- `coset_fft(shift)`: scale coefficient `i` by `shift^i`, then `fft` -/
def cosetFft (pr : Nat → K) (lgN : Nat) (shift : K) (c : Array K) : FftOut K :=
  fft pr lgN (c.mapIdx fun i x => FOps.pow shift i * x)

/-- `coset_ifft(shift)`: `ifft`, then scale coefficient `i` by `shift⁻¹^i` -/
def cosetIfft (pr : Nat → K) (lgN : Nat) (shift : K) (v : Array K) : FftOut K :=
  FftOut.map (fun co => co.mapIdx fun i x => x * FOps.pow (FOps.inv shift) i) (ifft pr lgN v)

def padTo (c : Array K) (n : Nat) : Array K := c ++ Array.replicate (n - c.size) FOps.zero

/-- `lde` on coefficients: zero-pad to `2^(lgN+rate)`, then `fft` on the larger domain -/
def ldeCoeffs (pr : Nat → K) (lgN rate : Nat) (c : Array K) : FftOut K :=
  fft pr (lgN + rate) (padTo c (2 ^ (lgN + rate)))

/-- the driver's `lde` request: values on the subgroup of size `2^lgN` → `ifft` → `ldeCoeffs` -/
def lde (pr : Nat → K) (lgN rate : Nat) (v : Array K) : FftOut K :=
  FftOut.bind (ifft pr lgN v) (ldeCoeffs pr lgN rate)

/-- `Z_H(g·w^i) = (g·w^i)^n − 1`, `n = 2^nLog` (driver request `zpoly`) -/
def zpolyAt (g w : K) (nLog i : Nat) : K := FOps.pow (g * FOps.pow w i) (2 ^ nLog) - FOps.one

/-- `ZeroPolyOnCoset::new`: `evals[k] = g^n · v^k − 1`, `k < 2^rate`, `v = primitive_root(rate)` -/
def zeroPolyOnCosetEvals (g v : K) (nLog rate : Nat) : List K :=
  (List.range (2 ^ rate)).map fun k => FOps.pow g (2 ^ nLog) * FOps.pow v k - FOps.one

/-- `ZeroPolyOnCoset::eval(i) = evals[i % rate]` -/
def zeroPolyOnCosetEval (g v : K) (nLog rate i : Nat) : K :=
  (zeroPolyOnCosetEvals g v nLog rate).getD (i % 2 ^ rate) FOps.zero

end
end P2.C15b

namespace P2.Lemmas.C15Poly
open P2 Polynomial P2.Lemmas.Alg2 P2.Lemmas.C15 P2.Fft P2.C15b

section
variable {K : Type} [Field K] [DecidableEq K] [Inhabited K]

local notation "fftK" => @C15b.fft _ (FOps.ofField _) _
local notation "ifftK" => @C15b.ifft _ (FOps.ofField _) _
local notation "cosetFftK" => @C15b.cosetFft _ (FOps.ofField _) _
local notation "cosetIfftK" => @C15b.cosetIfft _ (FOps.ofField _) _
local notation "ldeCoeffsK" => @C15b.ldeCoeffs _ (FOps.ofField _) _
local notation "ldeK" => @C15b.lde _ (FOps.ofField _) _
local notation "dftK" => @Fft.dft _ (FOps.ofField _)

theorem two_pow_ne_zero_of_primitive {ω : K} {lgN : Nat} (hω : IsPrimitiveRoot ω (2 ^ lgN)) :
    ((2 ^ lgN : Nat) : K) ≠ 0 := by
  cases lgN with
  | zero => simp
  | succ n =>
    have h := primitive_half hω (by omega)
    have hne : ω ^ (2 ^ (n + 1 - 1)) ≠ 1 :=
      hω.pow_ne_one_of_pos_of_lt (by positivity) (by simp [pow_succ])
    rw [h] at hne
    have h2 : (2 : K) ≠ 0 := by
      intro e
      apply hne
      have : (1 : K) + 1 = 0 := by rw [← e]; norm_num
      exact (eq_neg_of_add_eq_zero_left this).symm
    push_cast
    exact pow_ne_zero _ h2

theorem nInv_eq (lgN : Nat) : @C15b.nInv K (FOps.ofField K) lgN = (((2 ^ lgN : Nat) : K))⁻¹ := by
  unfold C15b.nInv
  show (@FOps.pow K (FOps.ofField K) ((2 : Nat) : K) lgN)⁻¹ = _
  rw [pow_eq]; push_cast; rfl

theorem eval_toPoly_array (c : Array K) (x : K) :
    (toPoly c.toList).eval x = ∑ j ∈ Finset.range c.size, c[j]! * x ^ j := by
  rw [toPoly_eval, C15.eval_eq_sum_range, Array.length_toList]
  apply Finset.sum_congr rfl
  intro j hj
  rw [toList_getD c j (Finset.mem_range.1 hj)]

theorem fft_eq_dft (pr : Nat → K) {lgN : Nat} (hω : IsPrimitiveRoot (pr lgN) (2 ^ lgN))
    (c : Array K) (hs : c.size = 2 ^ lgN) : fftK pr lgN c = .ok (dftK (pr lgN) c) := by
  unfold C15b.fft
  exact fftClassic_eq_dft_of_table hω c hs _ (rootTable_size _ _)
    (fun t j ht hj => rootTable_getElem! pr lgN t j ht hj)

theorem dft_getElem!_eval (ω : K) (c : Array K) (i : Nat) (hi : i < c.size) :
    (dftK ω c)[i]! = (toPoly c.toList).eval (ω ^ i) := by
  rw [dft_getElem! ω c i hi, eval_toPoly_array]
  unfold dftFn
  apply Finset.sum_congr rfl
  intro j _
  rw [pow_mul]

theorem mapIdx_getElem! (c : Array K) (f : Nat → K → K) (j : Nat) (hj : j < c.size) :
    (c.mapIdx f)[j]! = f j c[j]! := by
  simp [hj]

theorem ifft_of_dft' {ω : K} (c : Array K) (n : Nat) (hs : c.size = n) (hω : IsPrimitiveRoot ω n)
    (hn : (n : K) ≠ 0) :
    @ifftPost K (FOps.ofField K) _ (dftK ω (dftK ω c)) ((n : K))⁻¹ = c := by
  subst hs; exact ifft_of_dft c hω hn

theorem dft_of_ifft' {ω : K} (c : Array K) (n : Nat) (hs : c.size = n) (hω : IsPrimitiveRoot ω n)
    (hn : (n : K) ≠ 0) :
    dftK ω (@ifftPost K (FOps.ofField K) _ (dftK ω c) ((n : K))⁻¹) = c := by
  subst hs; exact dft_of_ifft c hω hn

theorem scale_eq (s : K) (c : Array K) :
    (c.mapIdx fun i x => @FOps.pow K (FOps.ofField K) s i * x) = c.mapIdx fun i x => s ^ i * x := by
  congr; funext i x; rw [pow_eq]

theorem unscale_eq (s : K) (c : Array K) :
    (c.mapIdx fun i x => x * @FOps.pow K (FOps.ofField K) (@FOps.inv K (FOps.ofField K) s) i)
      = c.mapIdx fun i x => x * (s⁻¹) ^ i := by
  congr; funext i x; rw [pow_eq]; rfl

theorem eval_scale (s : K) (c : Array K) (y : K) :
    (toPoly (c.mapIdx fun i x => s ^ i * x).toList).eval y = (toPoly c.toList).eval (s * y) := by
  rw [eval_toPoly_array, eval_toPoly_array, Array.size_mapIdx]
  apply Finset.sum_congr rfl
  intro j hj
  rw [mapIdx_getElem! c _ j (Finset.mem_range.1 hj), mul_pow]
  ring

theorem unscale_scale (s : K) (hs : s ≠ 0) (c : Array K) :
    ((c.mapIdx fun i x => s ^ i * x).mapIdx fun i x => x * (s⁻¹) ^ i) = c := by
  apply array_ext!
  · simp
  · intro i hi
    have hi' : i < c.size := by simpa using hi
    rw [mapIdx_getElem! _ _ i (by simpa using hi'), mapIdx_getElem! c _ i hi', inv_pow]
    field_simp

theorem scale_unscale (s : K) (hs : s ≠ 0) (c : Array K) :
    ((c.mapIdx fun i x => x * (s⁻¹) ^ i).mapIdx fun i x => s ^ i * x) = c := by
  apply array_ext!
  · simp
  · intro i hi
    have hi' : i < c.size := by simpa using hi
    rw [mapIdx_getElem! _ _ i (by simpa using hi'), mapIdx_getElem! c _ i hi', inv_pow]
    field_simp

/-- `fft` evaluates the coefficient polynomial on the subgroup -/
theorem fft_spec (pr : Nat → K) {lgN : Nat} (hω : IsPrimitiveRoot (pr lgN) (2 ^ lgN))
    (c : Array K) (hs : c.size = 2 ^ lgN) :
    ∃ v, fftK pr lgN c = .ok v ∧ v.size = 2 ^ lgN ∧
      ∀ i, i < 2 ^ lgN → v[i]! = (toPoly c.toList).eval (pr lgN ^ i) :=
  ⟨_, fft_eq_dft pr hω c hs, by rw [dft_size, hs],
    fun i hi => dft_getElem!_eval _ c i (by rw [hs]; exact hi)⟩

theorem ifft_eq (pr : Nat → K) {lgN : Nat} (hω : IsPrimitiveRoot (pr lgN) (2 ^ lgN))
    (v : Array K) (hs : v.size = 2 ^ lgN) :
    ifftK pr lgN v
      = .ok (@ifftPost K (FOps.ofField K) _ (dftK (pr lgN) v) (((2 ^ lgN : Nat) : K))⁻¹) := by
  unfold C15b.ifft
  rw [fft_eq_dft pr hω v hs, nInv_eq]
  rfl

theorem cosetFft_eq (pr : Nat → K) {lgN : Nat} (hω : IsPrimitiveRoot (pr lgN) (2 ^ lgN))
    (shift : K) (c : Array K) (hs : c.size = 2 ^ lgN) :
    cosetFftK pr lgN shift c = .ok (dftK (pr lgN) (c.mapIdx fun i x => shift ^ i * x)) := by
  unfold C15b.cosetFft
  rw [scale_eq, fft_eq_dft pr hω _ (by simpa using hs)]

theorem cosetIfft_eq (pr : Nat → K) {lgN : Nat} (hω : IsPrimitiveRoot (pr lgN) (2 ^ lgN))
    (shift : K) (v : Array K) (hs : v.size = 2 ^ lgN) :
    cosetIfftK pr lgN shift v
      = .ok ((@ifftPost K (FOps.ofField K) _ (dftK (pr lgN) v) (((2 ^ lgN : Nat) : K))⁻¹).mapIdx
          fun i x => x * (shift⁻¹) ^ i) := by
  unfold C15b.cosetIfft
  rw [ifft_eq pr hω v hs]
  show FftOut.ok _ = _
  congr 1
  exact unscale_eq shift _

/-- `coset_fft(shift)` evaluates the coefficient polynomial at `shift·ω^i` -/
theorem cosetFft_spec (pr : Nat → K) {lgN : Nat} (hω : IsPrimitiveRoot (pr lgN) (2 ^ lgN))
    (shift : K) (c : Array K) (hs : c.size = 2 ^ lgN) :
    ∃ v, cosetFftK pr lgN shift c = .ok v ∧ v.size = 2 ^ lgN ∧
      ∀ i, i < 2 ^ lgN → v[i]! = (toPoly c.toList).eval (shift * pr lgN ^ i) := by
  refine ⟨_, cosetFft_eq pr hω shift c hs, by rw [dft_size]; simpa using hs, fun i hi => ?_⟩
  rw [dft_getElem!_eval _ _ i (by simpa [hs] using hi), eval_scale]

theorem cosetIfft_cosetFft (pr : Nat → K) {lgN : Nat} (hω : IsPrimitiveRoot (pr lgN) (2 ^ lgN))
    (shift : K) (hsh : shift ≠ 0) (c : Array K) (hs : c.size = 2 ^ lgN) :
    ∃ v, cosetFftK pr lgN shift c = .ok v ∧ cosetIfftK pr lgN shift v = .ok c := by
  refine ⟨_, cosetFft_eq pr hω shift c hs, ?_⟩
  have hsz : (c.mapIdx fun i x => shift ^ i * x).size = 2 ^ lgN := by simpa using hs
  rw [cosetIfft_eq pr hω shift _ (by rw [dft_size]; exact hsz),
    ifft_of_dft' _ _ hsz hω (two_pow_ne_zero_of_primitive hω), unscale_scale shift hsh]

theorem cosetFft_cosetIfft (pr : Nat → K) {lgN : Nat} (hω : IsPrimitiveRoot (pr lgN) (2 ^ lgN))
    (shift : K) (hsh : shift ≠ 0) (v : Array K) (hs : v.size = 2 ^ lgN) :
    ∃ c, cosetIfftK pr lgN shift v = .ok c ∧ cosetFftK pr lgN shift c = .ok v := by
  refine ⟨_, cosetIfft_eq pr hω shift v hs, ?_⟩
  rw [cosetFft_eq pr hω shift _ (by simp [ifftPost_size, dft_size, hs]), scale_unscale shift hsh,
    dft_of_ifft' _ _ hs hω (two_pow_ne_zero_of_primitive hω)]

theorem toPoly_padTo (c : Array K) (n : Nat) :
    toPoly (@C15b.padTo K (FOps.ofField K) c n).toList = toPoly c.toList := by
  apply toPoly_ext
  intro k
  unfold C15b.padTo
  show (c ++ Array.replicate (n - c.size) (0 : K)).toList.getD k 0 = _
  rw [Array.toList_append, Array.toList_replicate]
  simp only [List.getD_eq_getElem?_getD, List.getElem?_append, List.getElem?_replicate]
  split
  · rfl
  · next h =>
    rw [List.getElem?_eq_none (by simpa using h)]
    split <;> rfl

theorem size_padTo (c : Array K) (n : Nat) (h : c.size ≤ n) :
    (@C15b.padTo K (FOps.ofField K) c n).size = n := by
  unfold C15b.padTo; simp; omega

/-- zero-padding then transforming on the larger domain evaluates the same polynomial there -/
theorem ldeCoeffs_spec (pr : Nat → K) {lgN rate : Nat}
    (hΩ : IsPrimitiveRoot (pr (lgN + rate)) (2 ^ (lgN + rate)))
    (c : Array K) (hs : c.size ≤ 2 ^ (lgN + rate)) :
    ∃ w, ldeCoeffsK pr lgN rate c = .ok w ∧ w.size = 2 ^ (lgN + rate) ∧
      ∀ k, k < 2 ^ (lgN + rate) → w[k]! = (toPoly c.toList).eval (pr (lgN + rate) ^ k) := by
  obtain ⟨w, h1, h2, h3⟩ := fft_spec pr hΩ _ (size_padTo c _ hs)
  refine ⟨w, h1, h2, fun k hk => ?_⟩
  rw [h3 k hk, toPoly_padTo]

/-- the driver's `lde`: with `co = ifft v` the interpolant of `v` on the subgroup of size `2^lgN`,
the output holds the values of the same polynomial on the subgroup of size `2^(lgN+rate)`, and
the entries at multiples of `2^rate` are the input values -/
theorem lde_spec (pr : Nat → K) {lgN rate : Nat}
    (hω : IsPrimitiveRoot (pr lgN) (2 ^ lgN))
    (hΩ : IsPrimitiveRoot (pr (lgN + rate)) (2 ^ (lgN + rate)))
    (hrel : pr (lgN + rate) ^ (2 ^ rate) = pr lgN)
    (v : Array K) (hs : v.size = 2 ^ lgN) :
    ∃ co w, ifftK pr lgN v = .ok co ∧ co.size = 2 ^ lgN ∧
      (∀ i, i < 2 ^ lgN → (toPoly co.toList).eval (pr lgN ^ i) = v[i]!) ∧
      ldeK pr lgN rate v = .ok w ∧ w.size = 2 ^ (lgN + rate) ∧
      (∀ k, k < 2 ^ (lgN + rate) → w[k]! = (toPoly co.toList).eval (pr (lgN + rate) ^ k)) ∧
      (∀ i, i < 2 ^ lgN → w[i * 2 ^ rate]! = v[i]!) := by
  have hco := ifft_eq pr hω v hs
  set co := @ifftPost K (FOps.ofField K) _ (dftK (pr lgN) v) (((2 ^ lgN : Nat) : K))⁻¹ with hcodef
  have hcosz : co.size = 2 ^ lgN := by rw [hcodef, ifftPost_size, dft_size, hs]
  have hle : 2 ^ lgN ≤ 2 ^ (lgN + rate) := Nat.pow_le_pow_right (by decide) (by omega)
  obtain ⟨w, h1, h2, h3⟩ := ldeCoeffs_spec pr hΩ co (by rw [hcosz]; exact hle)
  have hback : ∀ i, i < 2 ^ lgN → (toPoly co.toList).eval (pr lgN ^ i) = v[i]! := by
    intro i hi
    rw [← dft_getElem!_eval _ co i (by rw [hcosz]; exact hi), hcodef,
      dft_of_ifft' v _ hs hω (two_pow_ne_zero_of_primitive hω)]
  refine ⟨co, w, hco, hcosz, hback, ?_, h2, h3, ?_⟩
  · unfold C15b.lde
    rw [hco]
    exact h1
  · intro i hi
    have hk : i * 2 ^ rate < 2 ^ (lgN + rate) := by
      rw [pow_add]; exact Nat.mul_lt_mul_of_pos_right hi (Nat.two_pow_pos rate)
    rw [h3 _ hk, Nat.mul_comm, pow_mul, hrel, hback i hi]

/-- the same for coefficients: sub-sampling the extension at multiples of `2^rate` gives `fft` -/
theorem ldeCoeffs_subsample (pr : Nat → K) {lgN rate : Nat}
    (hω : IsPrimitiveRoot (pr lgN) (2 ^ lgN))
    (hΩ : IsPrimitiveRoot (pr (lgN + rate)) (2 ^ (lgN + rate)))
    (hrel : pr (lgN + rate) ^ (2 ^ rate) = pr lgN)
    (c : Array K) (hs : c.size = 2 ^ lgN) :
    ∃ v w, fftK pr lgN c = .ok v ∧ ldeCoeffsK pr lgN rate c = .ok w ∧
      ∀ i, i < 2 ^ lgN → w[i * 2 ^ rate]! = v[i]! := by
  have hle : 2 ^ lgN ≤ 2 ^ (lgN + rate) := Nat.pow_le_pow_right (by decide) (by omega)
  obtain ⟨v, a1, _, a3⟩ := fft_spec pr hω c hs
  obtain ⟨w, b1, _, b3⟩ := ldeCoeffs_spec pr hΩ c (by rw [hs]; exact hle)
  refine ⟨v, w, a1, b1, fun i hi => ?_⟩
  have hk : i * 2 ^ rate < 2 ^ (lgN + rate) := by
    rw [pow_add]; exact Nat.mul_lt_mul_of_pos_right hi (Nat.two_pow_pos rate)
  rw [b3 _ hk, a3 i hi, Nat.mul_comm, pow_mul, hrel]

/-! ### `Z_H` on a coset -/

theorem zpoly_periodic (g w : K) (nLog rate i : Nat) (hw : w ^ (2 ^ (nLog + rate)) = 1) :
    (g * w ^ i) ^ (2 ^ nLog) - 1 = g ^ (2 ^ nLog) * (w ^ (2 ^ nLog)) ^ (i % 2 ^ rate) - 1 := by
  have h1 : (w ^ (2 ^ nLog)) ^ (2 ^ rate) = 1 := by rw [← pow_mul, ← pow_add]; exact hw
  have h2 : (w ^ (2 ^ nLog)) ^ i = (w ^ (2 ^ nLog)) ^ (i % 2 ^ rate) := by
    conv_lhs => rw [← Nat.div_add_mod i (2 ^ rate), pow_add, pow_mul, h1, one_pow, one_mul]
  rw [mul_pow, ← pow_mul, Nat.mul_comm, pow_mul, h2]

theorem zeroPolyOnCosetEval_eq (g w v : K) (nLog rate i : Nat) (hw : w ^ (2 ^ (nLog + rate)) = 1)
    (hv : w ^ (2 ^ nLog) = v) :
    @C15b.zeroPolyOnCosetEval K (FOps.ofField K) g v nLog rate i
      = @C15b.zpolyAt K (FOps.ofField K) g w nLog i := by
  unfold C15b.zeroPolyOnCosetEval C15b.zeroPolyOnCosetEvals C15b.zpolyAt
  have hlt : i % 2 ^ rate < 2 ^ rate := Nat.mod_lt _ (Nat.two_pow_pos rate)
  rw [List.getD_eq_getElem?_getD, List.getElem?_map, List.getElem?_range hlt]
  simp only [Option.map_some, Option.getD_some, pow_eq]
  show g ^ 2 ^ nLog * v ^ (i % 2 ^ rate) - 1 = (g * w ^ i) ^ 2 ^ nLog - 1
  rw [zpoly_periodic g w nLog rate i hw, hv]

end
end P2.Lemmas.C15Poly

/-! ### barycentric weights and the barycentric formula -/

namespace P2.C15b
open P2
section
variable {K : Type} [FOps K]

/-- `interpolate(points, x, barycentric_weights)` of `field/src/interpolation.rs`: the value of a
listed point if `x` is one of the nodes (first match), else `l(x) · Σ_i w_i / (x − x_i) · y_i` -/
def baryInterpolate (pts : List (K × K)) (x : K) (ws : List K) : K :=
  match pts.find? (fun p => p.1 == x) with
  | some p => p.2
  | none =>
    FOps.prod (pts.map fun p => x - p.1)
      * FOps.sum (pts.zipIdx.map fun (p, i) => ws.getD i FOps.zero * FOps.inv (x - p.1) * p.2)

end
end P2.C15b

namespace P2.Lemmas.C15Poly
open P2 Polynomial P2.Lemmas.Alg2 P2.Lemmas.C15 P2.C15b

section
variable {K : Type} [Field K] [DecidableEq K]

local notation "baryK" => @Poly.barycentricWeights _ (FOps.ofField _)

theorem barycentricWeights_length (xs : List K) : (baryK xs).length = xs.length := by
  unfold Poly.barycentricWeights; simp

theorem barycentricWeights_getD (xs : List K) (i : Fin xs.length) :
    (baryK xs).getD i 0
      = (∏ j : Fin xs.length, if (i : Nat) = j then 1 else (xs[i] - xs[j]))⁻¹ := by
  unfold Poly.barycentricWeights
  have hprod : ∀ (i : Nat) (y : K),
      xs.zipIdx.foldl (fun a (p : K × Nat) =>
        match p with
        | (xj, j) => if i = j then a else a * (y - xj)) (1 : K)
      = ∏ j : Fin xs.length, if i = (j : Nat) then 1 else (y - xs[j]) := by
    intro i y
    rw [foldl_mul_form (f := fun p : K × Nat => if i = p.2 then 1 else (y - p.1)),
      prod_map_zipIdx, one_mul]
    rintro acc ⟨xj, j⟩
    by_cases h : i = j <;> simp [h]
  rw [List.getD_eq_getElem?_getD, List.getElem?_map, List.getElem?_zipIdx,
    List.getElem?_eq_getElem i.2]
  simp only [Option.map_some, Option.getD_some, Nat.zero_add]
  erw [hprod i xs[i]]
  rfl

theorem barycentricWeights_eq_nodalWeight (xs : List K) (i : Fin xs.length) :
    (baryK xs).getD i 0 = Lagrange.nodalWeight Finset.univ (fun k : Fin xs.length => xs[k]) i := by
  rw [barycentricWeights_getD, Lagrange.nodalWeight, ← Finset.prod_inv_distrib,
    ← Finset.filter_ne Finset.univ i, Finset.prod_filter]
  apply Finset.prod_congr rfl
  intro j _
  by_cases h : i = j
  · subst h; simp
  · have h' : (i : Nat) ≠ j := fun e => h (Fin.ext e)
    simp [h, h']

theorem barycentricWeights_eq_nodalWeight' (xs : List K) (n : Nat) (h : xs.length = n)
    (v : Fin n → K) (hv : ∀ k : Fin n, xs[k.1]'(by rw [h]; exact k.2) = v k) (i : Fin n) :
    (baryK xs).getD i 0 = Lagrange.nodalWeight Finset.univ v i := by
  subst h
  have : v = fun k : Fin xs.length => xs[k] := funext fun k => (hv k).symm
  subst this
  exact barycentricWeights_eq_nodalWeight xs i

theorem prod_map_fin {α : Type} (l : List α) (f : α → K) :
    (l.map f).prod = ∏ i : Fin l.length, f l[i] := by
  rw [← List.ofFn_getElem_eq_map, List.prod_ofFn]
  rfl

theorem baryInterpolate_eq (pts : List (K × K)) (hn : (pts.map Prod.fst).Nodup) (x : K) :
    @C15b.baryInterpolate K (FOps.ofField K) pts x (baryK (pts.map Prod.fst))
      = (Lagrange.interpolate Finset.univ (fun i : Fin pts.length => pts[i].1)
          (fun i : Fin pts.length => pts[i].2)).eval x := by
  have hinj : Set.InjOn (fun i : Fin pts.length => pts[i].1) (Finset.univ : Finset (Fin pts.length)) := by
    intro i _ j _ h
    apply Fin.ext
    exact (List.Nodup.getElem_inj_iff hn (i := i.1) (j := j.1)
      (hi := by simp) (hj := by simp)).1 (by simpa using h)
  unfold C15b.baryInterpolate
  have hbeq : (fun p : K × K => @BEq.beq K (FOps.ofField K).toBEq p.1 x) = fun p => decide (p.1 = x) := rfl
  rw [hbeq]
  split
  · next p hp =>
    have hmem := List.mem_of_find?_eq_some hp
    have hpx : p.1 = x := by simpa using List.find?_some hp
    obtain ⟨i, hi, rfl⟩ := List.getElem_of_mem hmem
    rw [← hpx]
    exact (Lagrange.eval_interpolate_at_node (r := fun i : Fin pts.length => pts[i].2) hinj
      (Finset.mem_univ (⟨i, hi⟩ : Fin pts.length))).symm
  · next hnone =>
    have hx : ∀ i ∈ (Finset.univ : Finset (Fin pts.length)), x ≠ pts[i].1 := by
      intro i _ e
      have := List.find?_eq_none.1 hnone pts[i] (by simp)
      simp [e] at this
    rw [Lagrange.eval_interpolate_not_at_node _ hx, Lagrange.eval_nodal]
    congr 1
    · show List.foldl (· * ·) (1 : K) (pts.map fun p => x - p.1) = _
      rw [foldl_mul_form (f := fun y : K => y) _ _ (fun _ _ => rfl), one_mul, List.map_id',
        prod_map_fin]
    · show List.foldl (· + ·) (0 : K) (pts.zipIdx.map fun (p : (K × K) × Nat) =>
        (baryK (pts.map Prod.fst)).getD p.2 0 * (x - p.1.1)⁻¹ * p.1.2) = _
      rw [foldl_add_form (f := fun y : K => y) _ _ (fun _ _ => rfl), zero_add, List.map_id',
        sum_map_zipIdx]
      apply Finset.sum_congr rfl
      intro i _
      simp only []
      rw [barycentricWeights_eq_nodalWeight' (pts.map Prod.fst) pts.length (List.length_map _)
        (fun k : Fin pts.length => pts[k].1) (fun k => by simp) i]

end
end P2.Lemmas.C15Poly

namespace P2.Lemmas.C15Poly
open P2 Polynomial
section
variable {K : Type} [Field K] [DecidableEq K]

/-- every `some` answer of `divRem` (zero divisor included) -/
theorem divRem_some (a b q r : List K) (h : @Poly.divRem K (FOps.ofField K) a b = some (q, r)) :
    toPoly a = toPoly q * toPoly b + toPoly r ∧ Trimmed q ∧ Trimmed r ∧
      (toPoly b ≠ 0 → (toPoly r).degree < (toPoly b).degree) := by
  by_cases hb : toPoly b = 0
  · have ha : toPoly a = 0 := by
      by_contra ha
      have := (divRem_none_iff a b).2 ⟨hb, ha⟩
      rw [this] at h; cases h
    rw [divRem_zero_left a b ha] at h
    cases h
    exact ⟨by simp [toPoly_nil, ha], by simp [Trimmed], by simp [Trimmed], fun h => absurd hb h⟩
  · obtain ⟨q', r', h1, h2, h3, h4, h5⟩ := divRem_spec a b hb
    rw [h1] at h
    cases h
    exact ⟨h2, h4, h5, fun _ => h3⟩

end
end P2.Lemmas.C15Poly
