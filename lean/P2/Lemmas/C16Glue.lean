/-
C16 (a), glue over the query list: from `compress π idx p = some cp`, the decidable shape predicate
`WF` and the consistency of every query round, `get_inferred_elements` succeeds on `cp` and the first
loop of `decompress` rebuilds, for every query, the evaluation vectors of `π`.
-/
import P2.Lemmas.C16Chain
import P2.Lemmas.C16Compress
namespace P2.Lemmas.C16
open P2 P2.Fri P2.Merkle P2.Compress P2.Decompress

/-- **(3)** `fri_combine_initial` reads only the leaf parts of the initial-tree openings -/
theorem combineInitial_congr (inst : Instance) (initial initial' : List (List GL × List Digest))
    (alpha : GL2) (x : GL) (red : List GL2) (p : FriParams)
    (h : initial.map Prod.fst = initial'.map Prod.fst) :
    combineInitial inst initial alpha x red p = combineInitial inst initial' alpha x red p := by
  have key : ∀ k : Nat, (initial[k]?).map Prod.fst = (initial'[k]?).map Prod.fst := by
    intro k
    have := congrArg (fun l => l[k]?) h
    simpa [List.getElem?_map] using this
  clear h
  unfold combineInitial
  simp only []
  have hb : ∀ {β : Type} (k : Nat) (K : List GL → Option β),
      (initial[k]?).bind (fun x => K x.fst) = (initial'[k]?).bind (fun x => K x.fst) := by
    intro β k K
    have := key k
    cases h1 : initial[k]? <;> cases h2 : initial'[k]? <;> simp_all
  congr 1
  congr 1
  funext x1 s1
  congr 1
  congr 1
  funext pi s2
  congr 1
  funext o
  exact hb pi.oracle (fun l => do
    let v ← (List.take (l.length - saltSize (p.isHiding && o.blinding)) l)[pi.poly]?
    pure (ForInStep.yield (s2 ++ [GL2.ofBase v])))

/-- the leaf index of a query at `x` when it enters layer `j` (`index >>= bits` applied `j` times) -/
def idxAt (abs : List Nat) (x : Nat) : Nat → Nat
  | 0 => x
  | j + 1 => idxAt abs x j / 2 ^ abs.getD j 0

theorem layerIndex_eq (abs : List Nat) (x j : Nat) :
    layerIndex abs x j = (idxAt abs x (j + 1), idxAt abs x j % 2 ^ abs.getD j 0) := by
  induction j with
  | zero => simp [layerIndex, idxAt]
  | succ j ih =>
    rw [layerIndex]
    simp only [ih]
    rfl

/-- **the shape predicate of the round trip** (decidable): one query per index; every query round
has one step per reduction layer, the same number of initial trees, coset vectors of length
`2^arity`; queries with the same index carry the same initial leaves; queries that meet in a coset
of some layer carry the same evaluation vector there. (Merkle paths are not constrained here.) -/
def WF (π : Fri.Proof) (idx : List Nat) (p : FriParams) : Prop :=
  idx.length = π.queries.length ∧
  (∀ q ∈ π.queries, q.steps.length = p.arityBits.length) ∧
  (∀ q ∈ π.queries, ∀ q' ∈ π.queries, q.initial.length = q'.initial.length) ∧
  (∀ q ∈ π.queries, ∀ j, j < p.arityBits.length →
    (q.steps.getD j default).evals.length = 2 ^ p.arityBits.getD j 0) ∧
  (∀ a ∈ idx.zip π.queries, ∀ b ∈ idx.zip π.queries, a.1 = b.1 →
    a.2.initial.map Prod.fst = b.2.initial.map Prod.fst) ∧
  (∀ a ∈ idx.zip π.queries, ∀ b ∈ idx.zip π.queries, ∀ j, j < p.arityBits.length →
    idxAt p.arityBits a.1 (j + 1) = idxAt p.arityBits b.1 (j + 1) →
    (a.2.steps.getD j default).evals = (b.2.steps.getD j default).evals)

instance (π : Fri.Proof) (idx : List Nat) (p : FriParams) : Decidable (WF π idx p) := by
  unfold WF; infer_instance

/-- the evaluation vector of coset `c` at layer `j`: that of the first query reaching it -/
def Etrue (π : Fri.Proof) (idx : List Nat) (p : FriParams) (j c : Nat) : List GL2 :=
  (((idx.zip π.queries).find? (fun xq => idxAt p.arityBits xq.1 (j + 1) == c)).map
    (fun xq => (xq.2.steps.getD j default).evals)).getD []

/-- the compressed Merkle path stored for coset `c` at layer `j` -/
def Mstored (π : Fri.Proof) (idx : List Nat) (p : FriParams) (j c : Nat) : List Digest :=
  ((lookupKey (stepKVs π idx p j) c).map (·.merkleProof)).getD []

theorem Etrue_eq {π : Fri.Proof} {idx : List Nat} {p : FriParams} (hwf : WF π idx p)
    {x : Nat} {q : QueryRound} (hm : (x, q) ∈ idx.zip π.queries) {j : Nat} (hj : j < p.arityBits.length) :
    Etrue π idx p j (idxAt p.arityBits x (j + 1)) = (q.steps.getD j default).evals := by
  unfold Etrue
  cases hf : (idx.zip π.queries).find? (fun xq => idxAt p.arityBits xq.1 (j + 1) == idxAt p.arityBits x (j + 1)) with
  | none =>
    have := List.find?_eq_none.1 hf (x, q) hm
    simp at this
  | some a =>
    have h1 := List.mem_of_find?_eq_some hf
    have h2 := List.find?_some hf
    simp only [beq_iff_eq] at h2
    simp only [Option.map_some, Option.getD_some]
    exact hwf.2.2.2.2.2 a h1 (x, q) hm j hj h2

/-! ### lookups in maps built from an enumerated list -/

theorem lookupKey_zipIdx_none {γ α : Type} (key : γ → Nat) (val : γ → Nat → α) (c : Nat) :
    ∀ (l : List γ) (s : Nat), (∀ a ∈ l, key a ≠ c) →
      lookupKey ((l.zipIdx s).map fun ai => (key ai.1, val ai.1 ai.2)) c = none := by
  intro l
  induction l with
  | nil => intros; rfl
  | cons a l ih =>
    intro s h
    rw [List.zipIdx_cons, List.map_cons, lookupKey_cons, if_neg (h a (by simp))]
    exact ih _ (fun b hb => h b (by simp [hb]))

theorem lookupKey_zipIdx_some {γ α : Type} (key : γ → Nat) (val : γ → Nat → α) (c : Nat) :
    ∀ (l : List γ) (s : Nat), (∃ a ∈ l, key a = c) →
      ∃ e, lookupKey ((l.zipIdx s).map fun ai => (key ai.1, val ai.1 ai.2)) c = some e := by
  intro l
  induction l with
  | nil => intro s h; obtain ⟨a, ha, _⟩ := h; simp at ha
  | cons a l ih =>
    intro s h
    rw [List.zipIdx_cons, List.map_cons, lookupKey_cons]
    by_cases e : key a = c
    · exact ⟨_, by rw [if_pos e]⟩
    · rw [if_neg e]
      obtain ⟨b, hb, hk⟩ := h
      rcases List.mem_cons.1 hb with rfl | hb
      · exact absurd hk e
      · exact ih _ ⟨b, hb, hk⟩

theorem lookupKey_zipIdx_first {γ α : Type} (key : γ → Nat) (val : γ → Nat → α) (c : Nat)
    (pre : List γ) (a : γ) (suf : List γ) (hpre : ∀ b ∈ pre, key b ≠ c) (ha : key a = c) :
    lookupKey (((pre ++ a :: suf).zipIdx).map fun ai => (key ai.1, val ai.1 ai.2)) c
      = some (val a pre.length) := by
  rw [List.zipIdx_append, List.map_append, lookupKey_append,
    lookupKey_zipIdx_none key val c pre 0 hpre, List.zipIdx_cons, List.map_cons, lookupKey_cons]
  simp [ha]

theorem mem_of_lookupKey_zipIdx {γ α : Type} (key : γ → Nat) (val : γ → Nat → α) (c : Nat)
    (l : List γ) (e : α)
    (h : lookupKey ((l.zipIdx).map fun ai => (key ai.1, val ai.1 ai.2)) c = some e) :
    ∃ a ∈ l, ∃ i, key a = c ∧ e = val a i := by
  have := mem_of_lookupKey h
  obtain ⟨⟨a, i⟩, hai, heq⟩ := List.mem_map.1 this
  simp only [Prod.mk.injEq] at heq
  exact ⟨a, (List.mem_zipIdx hai).2.2 ▸ List.getElem_mem _, i, heq.1, heq.2.symm⟩

/-- the state of `seen_indices_by_depth` after the queries `pre` -/
def SeenIs (abs : List Nat) (pre : List (Nat × QueryRound)) (seen : List (List Nat)) : Prop :=
  seen.length = abs.length ∧
  ∀ j, j < abs.length → ∀ c, c ∈ seen.getD j [] ↔ ∃ a ∈ pre, idxAt abs a.1 (j + 1) = c

theorem drop_cons_facts {abs : List Nat} {i ab : Nat} {rest : List Nat} (h : abs.drop i = ab :: rest) :
    i < abs.length ∧ abs.getD i 0 = ab ∧ abs.drop (i + 1) = rest := by
  have hi : i < abs.length := by
    rcases Nat.lt_or_ge i abs.length with h' | h'
    · exact h'
    · rw [List.drop_eq_nil_of_le h'] at h; cases h
  rw [List.drop_eq_getElem_cons hi] at h
  injection h with h1 h2
  refine ⟨hi, ?_, h2⟩
  rw [List.getD_eq_getElem?_getD, List.getElem?_eq_getElem hi]; exact h1

def stepKey (p : FriParams) (i : Nat) (a : Nat × QueryRound) : Nat := (layerIndex p.arityBits a.1 i).1
def stepVal (π : Fri.Proof) (idx : List Nat) (p : FriParams) (i : Nat) (a : Nat × QueryRound) (qi : Nat) :
    QueryStep :=
  ⟨removeAt (a.2.steps.getD i default).evals (layerIndex p.arityBits a.1 i).2,
    (stepsCompressed π idx p i).getD qi []⟩

theorem stepKVs_eq (π : Fri.Proof) (idx : List Nat) (p : FriParams) (i : Nat) :
    stepKVs π idx p i = ((idx.zip π.queries).zipIdx).map fun ai =>
      (stepKey p i ai.1, stepVal π idx p i ai.1 ai.2) := by
  unfold stepKVs
  apply List.map_congr_left
  intro ai _
  rcases ai with ⟨⟨a1, a2⟩, qi⟩
  rfl

/-- the hypotheses of the one-query alignment hold for every query of a compressed proof -/
theorem layersOK_of (π : Fri.Proof) (idx : List Nat) (p : FriParams) (cp : CompressedFriProof)
    (hc : Compress.compress π idx p = some cp) (hwf : WF π idx p) (betas : List GL2)
    (pre suf : List (Nat × QueryRound)) (x : Nat) (q : QueryRound)
    (hz : idx.zip π.queries = pre ++ (x, q) :: suf) (seen : List (List Nat))
    (hs : SeenIs p.arityBits pre seen) :
    ∀ (suffix : List Nat) (i : Nat) (xpt : GL) (old : GL2), p.arityBits.drop i = suffix →
      ConsistentFrom betas q suffix i (idxAt p.arityBits x i) xpt old →
      LayersOK cp.rounds.steps betas (Etrue π idx p) (Mstored π idx p) q seen suffix i
        (idxAt p.arityBits x i) xpt old := by
  have hmem : (x, q) ∈ idx.zip π.queries := by rw [hz]; simp
  have hqmem : q ∈ π.queries := (List.of_mem_zip hmem).2
  intro suffix
  induction suffix with
  | nil => intros; trivial
  | cons ab rest ih =>
    intro i xpt old hdrop hcons
    obtain ⟨hi, hget, hdrop'⟩ := drop_cons_facts hdrop
    have hc1 : idxAt p.arityBits x i / 2 ^ ab = idxAt p.arityBits x (i + 1) := by
      show _ = idxAt p.arityBits x i / 2 ^ p.arityBits.getD i 0
      rw [hget]
    obtain ⟨st, beta, hst, hb, hw, hrest⟩ := hcons
    have hstD : q.steps.getD i default = st := by
      rw [List.getD_eq_getElem?_getD, hst]; rfl
    obtain ⟨m, hm, hlook⟩ := compress_step_lookup π idx p cp hc i hi
    -- the stored entry for the coset
    have hkv := stepKVs_eq π idx p i
    obtain ⟨e, he⟩ : ∃ e, lookupKey (stepKVs π idx p i) (idxAt p.arityBits x (i + 1)) = some e := by
      rw [hkv]
      exact lookupKey_zipIdx_some (stepKey p i) (stepVal π idx p i) _ _ 0
        ⟨(x, q), hmem, by simp [stepKey, layerIndex_eq]⟩
    have hM : Mstored π idx p i (idxAt p.arityBits x (i + 1)) = e.merkleProof := by
      simp [Mstored, he]
    refine ⟨st, beta, m, e.evals, hst, hb, hw, ?_, ?_, hm, ?_, ?_, ?_, ?_⟩
    · rw [← hstD, ← hget]; exact hwf.2.2.2.1 q hqmem i hi
    · rw [hc1, ← hstD]; exact Etrue_eq hwf hmem hi
    · rw [hc1, hlook, he, hM]
    · rw [hc1]
      intro hns
      have hpre : ∀ b ∈ pre, stepKey p i b ≠ idxAt p.arityBits x (i + 1) := by
        intro b hb heq
        apply hns
        rw [hs.2 i hi]
        exact ⟨b, hb, by simpa [stepKey, layerIndex_eq] using heq⟩
      have := lookupKey_zipIdx_first (stepKey p i) (stepVal π idx p i)
        (idxAt p.arityBits x (i + 1)) pre (x, q) suf hpre (by simp [stepKey, layerIndex_eq])
      rw [← hz, ← hkv, he] at this
      have he' := Option.some.inj this
      rw [he']
      simp only [stepVal, layerIndex_eq]
      rw [hstD, hget]
    · rw [hc1]
      intro hsn
      cases rest with
      | nil => trivial
      | cons ab' rest' =>
        obtain ⟨hi', hget', _⟩ := drop_cons_facts hdrop'
        obtain ⟨a, ha, hac⟩ := (hs.2 i hi _).1 hsn
        show idxAt p.arityBits x (i + 1) / 2 ^ ab' ∈ seen.getD (i + 1) []
        rw [hs.2 (i + 1) hi']
        refine ⟨a, ha, ?_⟩
        show idxAt p.arityBits a.1 (i + 1) / 2 ^ p.arityBits.getD (i + 1) 0 = _
        rw [hget', hac]
    · rw [hc1]
      exact ih (i + 1) _ _ hdrop' (hc1 ▸ hrest)

theorem getD_set_ne' {α : Type} (l : List α) (i k : Nat) (v d : α) (h : i ≠ k) :
    (l.set i v).getD k d = l.getD k d := by
  rw [List.getD_eq_getElem?_getD, List.getElem?_set_ne h, ← List.getD_eq_getElem?_getD]

theorem getD_set_self' {α : Type} (l : List α) (i : Nat) (v d : α) (h : i < l.length) :
    (l.set i v).getD i d = v := by
  rw [List.getD_eq_getElem?_getD, List.getElem?_set_self h]; rfl

/-- the state of `seen_indices_by_depth` after one query: the cosets on its chain are added -/
theorem inferLayers_seen (steps : List (List (Nat × QueryStep))) (betas : List GL2)
    (abs0 : List Nat) (x : Nat) :
    ∀ (suffix : List Nat) (i : Nat) (xpt : GL) (old : GL2) (seenCur : List (List Nat))
      (out : List GL2) (seen' : List (List Nat)) (out' : List GL2),
      abs0.drop i = suffix →
      inferLayers steps betas suffix i (idxAt abs0 x i) xpt old seenCur out = some (seen', out') →
      seenCur.length = abs0.length →
      (∀ k, i ≤ k → k + 1 < abs0.length → idxAt abs0 x (k + 1) ∈ seenCur.getD k [] →
        idxAt abs0 x (k + 2) ∈ seenCur.getD (k + 1) []) →
      seen'.length = abs0.length ∧
      ∀ k c, c ∈ seen'.getD k [] ↔
        c ∈ seenCur.getD k [] ∨ (i ≤ k ∧ k < abs0.length ∧ c = idxAt abs0 x (k + 1)) := by
  intro suffix
  induction suffix with
  | nil =>
    intro i xpt old seenCur out seen' out' hdrop h hlen _
    have hi : abs0.length ≤ i := by
      rcases Nat.lt_or_ge i abs0.length with h' | h'
      · rw [List.drop_eq_getElem_cons h'] at hdrop; cases hdrop
      · exact h'
    simp only [inferLayers, Option.some.injEq, Prod.mk.injEq] at h
    obtain ⟨rfl, _⟩ := h
    refine ⟨hlen, fun k c => ⟨Or.inl, ?_⟩⟩
    rintro (h | ⟨h1, h2, _⟩)
    · exact h
    · omega
  | cons ab rest ih =>
    intro i xpt old seenCur out seen' out' hdrop h hlen hdeep
    obtain ⟨hi, hget, hdrop'⟩ := drop_cons_facts hdrop
    have hc1 : idxAt abs0 x i / 2 ^ ab = idxAt abs0 x (i + 1) := by
      show _ = idxAt abs0 x i / 2 ^ abs0.getD i 0
      rw [hget]
    by_cases hcont : (seenCur.getD i []).contains (idxAt abs0 x i / 2 ^ ab) = true
    · simp only [inferLayers] at h
      rw [if_pos hcont] at h
      simp only [Option.some.injEq, Prod.mk.injEq] at h
      obtain ⟨rfl, _⟩ := h
      have hall : ∀ d k, k = i + d → k < abs0.length → idxAt abs0 x (k + 1) ∈ seenCur.getD k [] := by
        intro d
        induction d with
        | zero =>
          intro k hk _
          subst hk
          rw [← hc1]
          simpa using hcont
        | succ d ihd =>
          intro k hk hkn
          have := ihd (i + d) rfl (by omega)
          have h2 := hdeep (i + d) (by omega) (by omega) this
          subst hk
          exact h2
      refine ⟨hlen, fun k c => ⟨Or.inl, ?_⟩⟩
      rintro (h | ⟨h1, h2, rfl⟩)
      · exact h
      · exact hall (k - i) k (by omega) h2
    · simp only [inferLayers] at h
      rw [if_neg hcont] at h
      simp only [Option.bind_eq_bind] at h
      obtain ⟨m, hm, h⟩ := Option.bind_eq_some_iff.1 h
      obtain ⟨st, hst, h⟩ := Option.bind_eq_some_iff.1 h
      obtain ⟨ev, hev, h⟩ := Option.bind_eq_some_iff.1 h
      split at h
      · cases h
      obtain ⟨beta, hbeta, h⟩ := Option.bind_eq_some_iff.1 h
      rw [hc1] at h
      obtain ⟨l1, l2⟩ := ih (i + 1) _ _ _ _ _ _ hdrop' h (by rw [List.length_set]; exact hlen) (by
        intro k hk hkn hmem
        rw [getD_set_ne' _ _ _ _ _ (by omega)] at hmem ⊢
        exact hdeep k (by omega) hkn hmem)
      refine ⟨l1, fun k c => ?_⟩
      rw [l2 k c]
      by_cases hk : k = i
      · subst hk
        rw [getD_set_self' _ _ _ _ (by omega)]
        simp only [List.mem_cons]
        constructor
        · rintro ((hh | hh) | ⟨h1, _, _⟩)
          · exact Or.inr ⟨Nat.le_refl _, hi, hh⟩
          · exact Or.inl hh
          · omega
        · rintro (hh | ⟨_, _, hh⟩)
          · exact Or.inl (Or.inr hh)
          · exact Or.inl (Or.inl hh)
      · rw [getD_set_ne' _ _ _ _ _ (fun e => hk e.symm)]
        constructor
        · rintro (h | ⟨h1, h2, h3⟩)
          · exact Or.inl h
          · exact Or.inr ⟨by omega, h2, h3⟩
        · rintro (h | ⟨h1, h2, h3⟩)
          · exact Or.inl h
          · exact Or.inr ⟨by omega, h2, h3⟩

/-! ### the initial-tree entries -/

def iniVal (π : Fri.Proof) (idx : List Nat) (p : FriParams) (numInitial : Nat) (a : Nat × QueryRound)
    (qi : Nat) : List (List GL × List Digest) :=
  (List.range numInitial).map fun t =>
    ((a.2.initial.getD t ([], [])).1, (initialCompressed π idx p t).getD qi [])

theorem initKVs_eq (π : Fri.Proof) (idx : List Nat) (p : FriParams) (numInitial : Nat) :
    initKVs π idx p numInitial = ((idx.zip π.queries).zipIdx).map fun ai =>
      ((fun (a : Nat × QueryRound) => a.1) ai.1, iniVal π idx p numInitial ai.1 ai.2) := by
  unfold initKVs
  apply List.map_congr_left
  intro ai _
  rcases ai with ⟨⟨a1, a2⟩, qi⟩
  rfl

theorem iniVal_fst (π : Fri.Proof) (idx : List Nat) (p : FriParams) (a : Nat × QueryRound) (qi : Nat) :
    (iniVal π idx p a.2.initial.length a qi).map Prod.fst = a.2.initial.map Prod.fst := by
  apply List.ext_getElem
  · simp [iniVal]
  · intro t h1 h2
    simp only [iniVal, List.length_map, List.length_range] at h1
    simp [iniVal, List.getD_eq_getElem?_getD, List.getElem?_eq_getElem h1]

/-- the initial-tree entry stored for the index of any query has the leaves of that query -/
theorem initial_entry (π : Fri.Proof) (idx : List Nat) (p : FriParams) (cp : CompressedFriProof)
    (hc : Compress.compress π idx p = some cp) (hwf : WF π idx p)
    (x : Nat) (q : QueryRound) (hmem : (x, q) ∈ idx.zip π.queries) :
    ∃ e, lookupKey cp.rounds.initial x = some e ∧ e.length = q.initial.length ∧
      e.map Prod.fst = q.initial.map Prod.fst := by
  obtain ⟨q0, hq0, hl⟩ := compress_initial_lookup π idx p cp hc
  have hq0m : q0 ∈ π.queries := List.mem_of_getElem? hq0
  have hqm : q ∈ π.queries := (List.of_mem_zip hmem).2
  have hn : q0.initial.length = q.initial.length := hwf.2.2.1 q0 hq0m q hqm
  obtain ⟨e, he⟩ := lookupKey_zipIdx_some (fun (a : Nat × QueryRound) => a.1)
    (iniVal π idx p q0.initial.length) x (idx.zip π.queries) 0 ⟨(x, q), hmem, rfl⟩
  obtain ⟨a, ha, i, hk, hev⟩ := mem_of_lookupKey_zipIdx _ _ _ _ _ he
  have ham : a.2 ∈ π.queries := (List.of_mem_zip (show (a.1, a.2) ∈ idx.zip π.queries from ha)).2
  have hna : q0.initial.length = a.2.initial.length := hwf.2.2.1 q0 hq0m a.2 ham
  refine ⟨e, ?_, ?_, ?_⟩
  · rw [hl, initKVs_eq]; exact he
  · rw [hev]; simp [iniVal, hn]
  · rw [hev, hna, iniVal_fst]
    exact hwf.2.2.2.2.1 a ha (x, q) hmem hk

/-- what the first loop of `decompress` returns for one query -/
def rebuiltOf (π : Fri.Proof) (idx : List Nat) (p : FriParams) (cp : CompressedFriProof)
    (xq : Nat × QueryRound) : Rebuilt :=
  ⟨(lookupKey cp.rounds.initial xq.1).getD [],
    expectedFrom (Etrue π idx p) (Mstored π idx p) p.arityBits 0 xq.1⟩

theorem SeenIs_snoc {abs : List Nat} {pre : List (Nat × QueryRound)} {seen seen' : List (List Nat)}
    (x : Nat) (q : QueryRound) (_hs : SeenIs abs pre seen) (hl : seen'.length = abs.length)
    (h : ∀ k c, c ∈ seen'.getD k [] ↔
      c ∈ seen.getD k [] ∨ (0 ≤ k ∧ k < abs.length ∧ c = idxAt abs x (k + 1))) :
    SeenIs abs (pre ++ [(x, q)]) seen' := by
  refine ⟨hl, fun j hj c => ?_⟩
  rw [h j c, _hs.2 j hj c]
  constructor
  · rintro (⟨a, ha, e⟩ | ⟨_, _, e⟩)
    · exact ⟨a, by simp [ha], e⟩
    · exact ⟨(x, q), by simp, e.symm⟩
  · rintro ⟨a, ha, e⟩
    rcases List.mem_append.1 ha with ha | ha
    · exact Or.inl ⟨a, ha, e⟩
    · simp only [List.mem_singleton] at ha
      subst ha
      exact Or.inr ⟨Nat.zero_le _, hj, e.symm⟩

/-- **(2) glue over the query list.** -/
theorem glue_queries (π : Fri.Proof) (idx : List Nat) (p : FriParams) (cp : CompressedFriProof)
    (hc : Compress.compress π idx p = some cp) (hwf : WF π idx p)
    (inst : Instance) (ch : Challenges) (reduced : List GL2) (numInitial : Nat)
    (hnum : ∀ q ∈ π.queries, q.initial.length = numInitial)
    (hcons : ∀ xq ∈ idx.zip π.queries, Consistent inst ch reduced p xq.1 xq.2) :
    ∀ (suf pre : List (Nat × QueryRound)) (seen : List (List Nat))
      (byDepth : List (List (Nat × List GL2))) (out : List GL2),
      idx.zip π.queries = pre ++ suf → SeenIs p.arityBits pre seen →
      StateInv (Etrue π idx p) seen byDepth →
      ∃ vals sfin,
        (suf.map (·.1)).foldlM (inferQuery cp ch reduced inst p) (seen, out) = some (sfin, out ++ vals) ∧
        ∀ more, rebuildAll cp p numInitial (suf.map (·.1)) byDepth (vals ++ more)
          = some (suf.map (rebuiltOf π idx p cp)) := by
  intro suf
  induction suf with
  | nil =>
    intro pre seen byDepth out _ _ _
    exact ⟨[], seen, by simp, fun more => rfl⟩
  | cons xq suf ih =>
    intro pre seen byDepth out hz hs hinv
    rcases xq with ⟨x, q⟩
    have hmem : (x, q) ∈ idx.zip π.queries := by rw [hz]; simp
    have hqm : q ∈ π.queries := (List.of_mem_zip hmem).2
    obtain ⟨old0, hci, hcf⟩ := hcons (x, q) hmem
    obtain ⟨e, hel, helen, hefst⟩ := initial_entry π idx p cp hc hwf x q hmem
    have hci' : combineInitial inst e ch.alpha (subgroupX p x) reduced p = some old0 := by
      rw [combineInitial_congr inst e q.initial _ _ _ _ hefst]; exact hci
    have hok := layersOK_of π idx p cp hc hwf ch.betas pre suf x q hz seen hs p.arityBits 0
      (subgroupX p x) old0 rfl hcf
    obtain ⟨vals1, seen', byDepth', e1, e2, e3⟩ := align_layers cp.rounds.steps ch.betas
      (Etrue π idx p) (Mstored π idx p) q seen p.arityBits 0 x (subgroupX p x) old0 seen byDepth out
      hok hinv (fun _ _ => rfl)
    have hseen := inferLayers_seen cp.rounds.steps ch.betas p.arityBits x p.arityBits 0 _ _ _ _ _ _
      rfl e1 hs.1 (by
        intro k _ hk hm
        obtain ⟨a, ha, hac⟩ := (hs.2 k (by omega) _).1 hm
        rw [hs.2 (k + 1) hk]
        refine ⟨a, ha, ?_⟩
        show idxAt p.arityBits a.1 (k + 1) / 2 ^ p.arityBits.getD (k + 1) 0
          = idxAt p.arityBits x (k + 1) / 2 ^ p.arityBits.getD (k + 1) 0
        rw [hac])
    have hs' := SeenIs_snoc x q hs hseen.1 hseen.2
    obtain ⟨vals2, sfin, f1, f2⟩ := ih (pre ++ [(x, q)]) seen' byDepth' (out ++ vals1)
      (by rw [hz]; simp) hs' e3
    refine ⟨vals1 ++ vals2, sfin, ?_, ?_⟩
    · rw [List.map_cons, List.foldlM_cons]
      have : inferQuery cp ch reduced inst p (seen, out) x = some (seen', out ++ vals1) := by
        simp only [inferQuery, hel, hci', Option.bind_eq_bind, Option.bind_some]
        exact e1
      rw [this]
      simp only [Option.bind_eq_bind, Option.bind_some]
      rw [f1, List.append_assoc]
    · intro more
      rw [List.map_cons]
      have hlen : e.length = numInitial := by rw [helen]; exact hnum q hqm
      simp only [rebuildAll, hel, hlen, ne_eq, not_true_eq_false, if_false, Option.bind_eq_bind,
        Option.bind_some, List.append_assoc, e2 (vals2 ++ more), f2 more, List.map_cons,
        Option.pure_def, rebuiltOf, Option.getD_some]

theorem expectedFrom_eq (E : Nat → Nat → List GL2) (M : Nat → Nat → List Digest) (abs : List Nat) (x : Nat) :
    ∀ (suffix : List Nat) (i : Nat), abs.drop i = suffix →
      expectedFrom E M suffix i (idxAt abs x i) = (List.range' i (abs.length - i)).map fun j =>
        (idxAt abs x (j + 1), E j (idxAt abs x (j + 1)), M j (idxAt abs x (j + 1))) := by
  intro suffix
  induction suffix with
  | nil =>
    intro i hd
    have : abs.length ≤ i := by
      rcases Nat.lt_or_ge i abs.length with h' | h'
      · rw [List.drop_eq_getElem_cons h'] at hd; cases hd
      · exact h'
    have h0 : abs.length - i = 0 := by omega
    rw [h0]; rfl
  | cons ab rest ih =>
    intro i hd
    obtain ⟨hi, hget, hd'⟩ := drop_cons_facts hd
    have hc1 : idxAt abs x i / 2 ^ ab = idxAt abs x (i + 1) := by
      show _ = idxAt abs x i / 2 ^ abs.getD i 0
      rw [hget]
    have hn : abs.length - i = (abs.length - (i + 1)) + 1 := by omega
    rw [expectedFrom, hc1, ih (i + 1) hd', hn, List.range'_succ, List.map_cons]

/-- **(2), top level.** On the output of `compress`, for a well-formed proof all of whose query
rounds are consistent (which acceptance gives, `consistent_of_accept`), `get_inferred_elements`
succeeds and the first loop of `decompress` returns, per query, the stored initial entry and, for
every layer, the coset index, the evaluation vector of `π` (`Etrue`, see `Etrue_eq`) and the
stored compressed path. -/
theorem inferred_and_rebuild (π : Fri.Proof) (idx : List Nat) (p : FriParams) (cp : CompressedFriProof)
    (hc : Compress.compress π idx p = some cp) (hwf : WF π idx p)
    (inst : Instance) (ch : Challenges) (openings : List (List GL2)) (hidx : ch.queryIndices = idx)
    (numInitial : Nat) (hnum : ∀ q ∈ π.queries, q.initial.length = numInitial)
    (hcons : ∀ xq ∈ idx.zip π.queries,
      Consistent inst ch (openings.map fun vals => reduceExt vals ch.alpha) p xq.1 xq.2) :
    ∃ inferred, inferredElements cp ch openings inst p = some inferred ∧
      rebuildAll cp p numInitial idx (List.replicate p.arityBits.length []) inferred
        = some ((idx.zip π.queries).map (rebuiltOf π idx p cp)) := by
  have hidxeq : (idx.zip π.queries).map (·.1) = idx := by
    rw [List.map_fst_zip]; rw [hwf.1]; exact Nat.le_refl _
  have hgetD : ∀ {α : Type} (n j : Nat), (List.replicate n ([] : List α)).getD j [] = [] := by
    intro α n j
    rw [List.getD_eq_getElem?_getD, List.getElem?_replicate]
    split <;> rfl
  have hs : SeenIs p.arityBits [] (List.replicate p.arityBits.length []) := by
    refine ⟨by simp, fun j _ c => ?_⟩
    rw [hgetD]; simp
  have hinv : StateInv (Etrue π idx p) (List.replicate p.arityBits.length [])
      (List.replicate p.arityBits.length []) := by
    refine ⟨by simp [keys], fun i c ev h => ?_⟩
    rw [hgetD] at h; cases h
  obtain ⟨vals, sfin, f1, f2⟩ := glue_queries π idx p cp hc hwf inst ch _ numInitial hnum hcons
    (idx.zip π.queries) [] _ _ [] (by simp) hs hinv
  rw [hidxeq] at f1 f2
  refine ⟨vals, ?_, ?_⟩
  · unfold inferredElements
    simp only [hidx, f1, Option.bind_eq_bind, Option.bind_some, Option.pure_def, List.nil_append]
  · have := f2 []
    rwa [List.append_nil] at this

end P2.Lemmas.C16
