/-
C07 on the model's own generated row (`C07On`) for the exponentiation, reducing,
reducing-extension and random-access gates: the generated row satisfies every constraint, and
replacing any single generator-written column by a different value violates some constraint.
-/
import P2.Lemmas.C07On
import P2.Lemmas.C07Exp
import P2.Lemmas.C07Reducing
import P2.Lemmas.C07RandomAccess
set_option linter.unusedSectionVars false
namespace P2.Lemmas.C07
open P2 P2.Gates
attribute [local instance] glField

/-! ## exponentiation -/

/-- the generated row of the exponentiation gate has at least `numWires = 2 + 2n` columns -/
theorem exponentiation_generate_size (n : Nat) (consts wires : Array P2.GL) :
    2 + 2 * n ≤ ((GateKind.exponentiation n).generate consts wires).size := by
  rw [generate_exponentiation]
  have hsz : 2 + 2 * n ≤ (wires ++ Array.replicate (2 + 2 * n - wires.size) (0 : P2.GL)).size :=
    size_pad_ge wires _
  generalize wires ++ Array.replicate (2 + 2 * n - wires.size) (0 : P2.GL) = ws0 at hsz
  obtain ⟨h1, -, -, -⟩ := expFold_inv n ws0[0]! consts consts ws0 hsz n (le_refl _)
  simp only at h1 ⊢
  rw [size_set!, h1]
  exact hsz

/-- C07 for the exponentiation gate, EVERY `n` (also `n = 0`, see `exponentiation_generated_sat`),
under the gate's contract: the power-bit wires of the input row are boolean -/
theorem exponentiation_C07On (n : Nat) (consts wires pih : Array P2.GL)
    (hb : ∀ i, i < n → wires[1 + i]! = 0 ∨ wires[1 + i]! = 1) :
    C07On (.exponentiation n) consts wires pih := by
  refine ⟨exponentiation_generated_sat n consts wires pih hb, ?_⟩
  intro k hk x hx
  have hsz := exponentiation_generate_size n consts wires
  have hsat : Sat (.exponentiation n) (genRow (.exponentiation n) consts wires pih) := by
    have := exponentiation_generated_sat n consts wires pih hb
    rw [evalGL_exponentiation] at this
    exact this
  rcases (exponentiation_generatedWires n k).1 hk with rfl | ⟨i, hi, rfl⟩
  · refine replaced_violates (.exponentiation n) consts _ pih (evalGL_exponentiation n) (1 + n) n
      (by omega) (fun v' hd => ?_) x hx
    exact exponentiation_pinned_output n _ v' hd (con_eq_zero_of_sat _ _ hsat n)
  · refine replaced_violates (.exponentiation n) consts _ pih (evalGL_exponentiation n)
      (2 + n + i) i (by omega) (fun v' hd => ?_) x hx
    exact exponentiation_pinned_intermediate n _ v' i hi hd (con_eq_zero_of_sat _ _ hsat i)

/-! ## reducing, reducing-extension (no contract) -/

/-- C07 for the reducing gate: every `n`, constants, input row and public-input hash -/
theorem reducing_C07On (n : Nat) (consts wires pih : Array P2.GL) :
    C07On (.reducing n) consts wires pih := by
  refine ⟨reducing_gen_sat n consts wires pih, ?_⟩
  intro k hk x hx
  obtain ⟨i, comp, hi, hc, rfl⟩ := (reducing_generatedWires_mem n k).1 hk
  rw [evalGL_reducing]
  exact exists_ne_of_con_ne (.reducing n) _ (2 * i + comp)
    (reducing_gen_pinned n consts wires pih i comp hi hc x hx)

/-- C07 for the reducing-extension gate -/
theorem reducingExt_C07On (n : Nat) (consts wires pih : Array P2.GL) :
    C07On (.reducingExt n) consts wires pih := by
  refine ⟨reducingExt_gen_sat n consts wires pih, ?_⟩
  intro k hk x hx
  obtain ⟨i, comp, hi, hc, rfl⟩ := (reducingExt_generatedWires_mem n k).1 hk
  rw [evalGL_reducingExt]
  exact exists_ne_of_con_ne (.reducingExt n) _ (2 * i + comp)
    (reducingExt_gen_pinned n consts wires pih i comp hi hc x hx)

/-! ## random access -/

/-- the generated row of the random-access gate has at least `numWires` columns (no contract
needed: every generator step preserves the size) -/
theorem randomAccess_generate_size (bits copies extra : Nat) (consts wires : Array P2.GL) :
    raNumRoutedWires bits copies extra + copies * bits ≤
      ((GateKind.randomAccess bits copies extra).generate consts wires).size := by
  rw [generate_randomAccess, foldl_size_preserved (raGenStep bits copies extra)]
  · exact raPad_size bits copies extra wires
  · intro ws c
    unfold raGenStep
    rw [foldl_size_preserved _ (fun ws a => size_set! _ _ _), size_set!]

/-- C07 for the random-access gate under the generator's contract (same as
`randomAccess_generate_sat`): every access index (read on the zero-padded input row) is
`< 2^bits`, and the extra-constant wires already carry the constants -/
theorem randomAccess_C07On (bits copies extra : Nat) (consts wires pih : Array P2.GL)
    (hacc : ∀ c, c < copies →
      ((raPad bits copies extra wires)[raWireAccessIndex bits c]!).val < 2 ^ bits)
    (hextra : ∀ i, i < extra →
      (raPad bits copies extra wires)[raWireExtraConstant bits copies i]! = consts[i]!) :
    C07On (.randomAccess bits copies extra) consts wires pih := by
  refine ⟨randomAccess_generate_sat bits copies extra consts wires pih hacc hextra, ?_⟩
  intro k hk x hx
  have hsz := randomAccess_generate_size bits copies extra consts wires
  have hsat : Sat (.randomAccess bits copies extra)
      (genRow (.randomAccess bits copies extra) consts wires pih) := by
    have := randomAccess_generate_sat bits copies extra consts wires pih hacc hextra
    rw [evalGL_randomAccess] at this
    exact this
  rcases (randomAccess_generatedWires bits copies extra k).1 hk with
    ⟨c, hc, rfl⟩ | ⟨c, i, hc, hi, rfl⟩
  · have hlt := raWireClaimedElement_lt bits copies extra c hc
    refine replaced_violates (.randomAccess bits copies extra) consts _ pih
      (evalGL_randomAccess bits copies extra) (raWireClaimedElement bits c)
      ((bits + 2) * c + bits + 1) (by omega) (fun v' hd => ?_) x hx
    exact randomAccess_pinned_claimed bits copies extra _ v' c hc hd
      (con_eq_zero_of_sat _ _ hsat _)
  · have hlt : raWireBit bits copies extra i c <
        raNumRoutedWires bits copies extra + copies * bits := by
      have := ra_block_lt bits c copies i hc hi
      rw [Nat.mul_comm bits c, Nat.mul_comm bits copies] at this
      simp only [raWireBit]; omega
    refine replaced_violates (.randomAccess bits copies extra) consts _ pih
      (evalGL_randomAccess bits copies extra) (raWireBit bits copies extra i c)
      ((bits + 2) * c + bits) (by omega) (fun v' hd => ?_) x hx
    exact randomAccess_pinned_bit_GL bits copies extra _ v' c i hc hi hd
      (con_eq_zero_of_sat _ _ hsat _)

/-! ## non-vacuity: the contracts are satisfiable on concrete rows -/

example : C07On (.exponentiation 2) #[] #[3, 1, 1] #[] :=
  exponentiation_C07On 2 _ _ _ (by decide)

example : C07On (.randomAccess 2 1 1) #[5] #[2, 0, 10, 11, 12, 13, 5] #[] :=
  randomAccess_C07On 2 1 1 _ _ _ (by decide) (by decide)

end P2.Lemmas.C07
