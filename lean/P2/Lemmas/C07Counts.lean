/-
C07 / T1 (counts): for EVERY gate kind and every row, over an ARBITRARY operations record
`[FOps K]`, the model's evaluator `GateKind.evalUnfiltered` returns exactly
`GateKind.numConstraints` constraints.  No field structure is needed: only list/array sizes are
tracked, never values.
-/
import P2.Lemmas.C07
set_option linter.unusedSectionVars false
set_option linter.unusedSimpArgs false
set_option linter.unusedVariables false
namespace P2.Lemmas.C07
open P2 P2.Gates

/-! ## generic size lemmas -/

section Generic
variable {α σ : Type}

/-- a fold whose step increases the measure `m` by exactly `c` increases it by `c * length` -/
theorem foldl_measure_const (f : σ → α → σ) (m : σ → Nat) (c : Nat)
    (h : ∀ s a, m (f s a) = m s + c) (l : List α) (s : σ) :
    m (l.foldl f s) = m s + c * l.length := by
  induction l generalizing s with
  | nil => simp
  | cons a l ih => rw [List.foldl_cons, ih, h, List.length_cons]; ring

/-- a fold whose step at `a` increases the measure `m` by `c a` increases it by `Σ c a` -/
theorem foldl_measure_sum (f : σ → α → σ) (m : σ → Nat) (c : α → Nat)
    (h : ∀ s a, m (f s a) = m s + c a) (l : List α) (s : σ) :
    m (l.foldl f s) = m s + (l.map c).sum := by
  induction l generalizing s with
  | nil => simp
  | cons a l ih => rw [List.foldl_cons, ih, h, List.map_cons, List.sum_cons]; omega

/-- `flatMap` of chunks of constant length `c` -/
theorem length_flatMap_const {β : Type} (f : α → List β) (c : Nat) (h : ∀ a, (f a).length = c)
    (l : List α) : (l.flatMap f).length = c * l.length := by
  induction l with
  | nil => simp
  | cons a l ih => rw [List.flatMap_cons, List.length_append, ih, h, List.length_cons]; ring

/-- pushing one element per list item -/
theorem size_foldl_push {β : Type} (g : Array β → α → β) (l : List α) (cs : Array β) :
    (l.foldl (fun cs a => cs.push (g cs a)) cs).size = cs.size + l.length := by
  have := foldl_measure_const (fun (cs : Array β) a => cs.push (g cs a)) Array.size 1
    (by intro s a; simp) l cs
  simpa using this

end Generic

section Counts
variable {K : Type} [FOps K] [Inhabited K]

theorem length_comps (x : Alg K) : x.comps.length = 2 := rfl

/-! ## one lemma per constructor -/

theorem count_arithmetic (n : Nat) (v : EvalVars K) :
    ((GateKind.arithmetic n).evalUnfiltered v).length = (GateKind.arithmetic n).numConstraints := by
  simp [GateKind.evalUnfiltered, evalArithmetic, GateKind.numConstraints]

theorem count_arithmeticExt (n : Nat) (v : EvalVars K) :
    ((GateKind.arithmeticExt n).evalUnfiltered v).length =
      (GateKind.arithmeticExt n).numConstraints := by
  simp only [GateKind.evalUnfiltered, evalArithmeticExt, GateKind.numConstraints]
  rw [length_flatMap_const _ 2 (fun _ => rfl), List.length_range, Nat.mul_comm]

theorem count_mulExt (n : Nat) (v : EvalVars K) :
    ((GateKind.mulExt n).evalUnfiltered v).length = (GateKind.mulExt n).numConstraints := by
  simp only [GateKind.evalUnfiltered, evalMulExt, GateKind.numConstraints]
  rw [length_flatMap_const _ 2 (fun _ => rfl), List.length_range, Nat.mul_comm]

theorem count_baseSum (b l : Nat) (v : EvalVars K) :
    ((GateKind.baseSum b l).evalUnfiltered v).length = (GateKind.baseSum b l).numConstraints := by
  simp [GateKind.evalUnfiltered, evalBaseSum, GateKind.numConstraints]; omega

theorem count_constant (n : Nat) (v : EvalVars K) :
    ((GateKind.constant n).evalUnfiltered v).length = (GateKind.constant n).numConstraints := by
  simp [GateKind.evalUnfiltered, evalConstant, GateKind.numConstraints]

theorem count_exponentiation (n : Nat) (v : EvalVars K) :
    ((GateKind.exponentiation n).evalUnfiltered v).length =
      (GateKind.exponentiation n).numConstraints := by
  simp [GateKind.evalUnfiltered, evalExponentiation, GateKind.numConstraints]

theorem count_lookup (n : Nat) (v : EvalVars K) :
    ((GateKind.lookup n).evalUnfiltered v).length = (GateKind.lookup n).numConstraints := rfl

theorem count_lookupTable (n : Nat) (v : EvalVars K) :
    ((GateKind.lookupTable n).evalUnfiltered v).length =
      (GateKind.lookupTable n).numConstraints := rfl

theorem count_noop (v : EvalVars K) :
    (GateKind.noop.evalUnfiltered v).length = GateKind.noop.numConstraints := rfl

theorem spongeWidth_eq : spongeWidth = 12 := rfl
theorem halfNFullRounds_eq : halfNFullRounds = 4 := rfl
theorem nPartialRounds_eq : nPartialRounds = 22 := rfl
theorem nFullRoundsTotal_eq : nFullRoundsTotal = 8 := rfl

theorem count_poseidonMds (v : EvalVars K) :
    (GateKind.poseidonMds.evalUnfiltered v).length = GateKind.poseidonMds.numConstraints := by
  simp only [GateKind.evalUnfiltered, evalPoseidonMds, GateKind.numConstraints]
  rw [length_flatMap_const _ 2 (fun _ => rfl), List.length_range, Nat.mul_comm]

theorem count_publicInput (v : EvalVars K) :
    (GateKind.publicInput.evalUnfiltered v).length = GateKind.publicInput.numConstraints := by
  simp [GateKind.evalUnfiltered, evalPublicInput, GateKind.numConstraints]

theorem count_randomAccess (bits copies extra : Nat) (v : EvalVars K) :
    ((GateKind.randomAccess bits copies extra).evalUnfiltered v).length =
      (GateKind.randomAccess bits copies extra).numConstraints := by
  simp only [GateKind.evalUnfiltered, evalRandomAccess, GateKind.numConstraints]
  rw [List.length_append, length_flatMap_const _ (bits + 2) (by intro a; simp)]
  simp [Nat.mul_comm]

theorem count_reducing (n : Nat) (v : EvalVars K) :
    ((GateKind.reducing n).evalUnfiltered v).length = (GateKind.reducing n).numConstraints := by
  simp only [GateKind.evalUnfiltered, evalReducing, GateKind.numConstraints]
  rw [foldl_measure_const _ (fun st : Alg K × List K => st.2.length) 2
    (by intro s a; simp [length_comps])]
  simp

theorem count_reducingExt (n : Nat) (v : EvalVars K) :
    ((GateKind.reducingExt n).evalUnfiltered v).length =
      (GateKind.reducingExt n).numConstraints := by
  simp only [GateKind.evalUnfiltered, evalReducingExt, GateKind.numConstraints]
  rw [foldl_measure_const _ (fun st : Alg K × List K => st.2.length) 2
    (by intro s a; simp [length_comps])]
  simp

theorem count_cosetInterpolation (bits d : Nat) (ws : List Nat) (v : EvalVars K) :
    ((GateKind.cosetInterpolation bits d ws).evalUnfiltered v).length =
      (GateKind.cosetInterpolation bits d ws).numConstraints := by
  simp only [GateKind.evalUnfiltered, evalCosetInterpolation, GateKind.numConstraints]
  rw [List.length_append, foldl_measure_const _ (fun st : List K × (Alg K × Alg K) => st.1.length) 4
    (by intro s a; simp [length_comps])]
  simp [length_comps]
  omega

theorem size_posCheckSboxIn (state cs : Array K) (wire : Nat → K) :
    (posCheckSboxIn state cs wire).2.size = cs.size + spongeWidth := by
  simp only [posCheckSboxIn]
  rw [size_foldl_push, List.length_range]

theorem count_poseidon (v : EvalVars K) :
    (GateKind.poseidon.evalUnfiltered v).length = GateKind.poseidon.numConstraints := by
  simp only [GateKind.evalUnfiltered, evalPoseidon, GateKind.numConstraints]
  rw [Array.length_toList, size_foldl_push,
    foldl_measure_const _ (fun st : Array K × Array K => st.2.size) spongeWidth ?h2,
    Array.size_push,
    foldl_measure_const _ (fun st : Array K × Array K => st.2.size) 1 ?hp,
    foldl_measure_sum _ (fun st : Array K × Array K => st.2.size)
      (fun r => if r ≠ 0 then spongeWidth else 0) ?h1,
    size_foldl_push]
  · simp only [List.length_range]
    rfl
  case h2 =>
    intro s r
    dsimp only
    rw [size_posCheckSboxIn]
  case hp =>
    intro s r
    dsimp only
    rw [Array.size_push]
  case h1 =>
    intro s r
    dsimp only
    by_cases hr : r = 0
    · simp only [hr, ne_eq, not_true_eq_false, if_false, Nat.add_zero]
    · simp only [ne_eq, hr, not_false_eq_true, if_true]
      rw [size_posCheckSboxIn]

/-- the Poseidon gate has 123 constraints (`12·7 + 22 + 12 + 1 + 4`) -/
theorem poseidon_numConstraints : GateKind.poseidon.numConstraints = 123 := rfl

/-! ## all gates -/

/-- T1: for every gate kind, every parameter value and every row, over an arbitrary operations
record, the evaluator returns exactly the declared number of constraints.  No side condition
is needed (in particular `cosetInterpolation` holds for all `subgroupBits`, `degree`, weights:
`cosetNumIntermediates` is the same truncated-`Nat` expression on both sides). -/
theorem count_all (g : GateKind) (v : EvalVars K) :
    (g.evalUnfiltered v).length = g.numConstraints := by
  cases g with
  | arithmetic n => exact count_arithmetic n v
  | arithmeticExt n => exact count_arithmeticExt n v
  | mulExt n => exact count_mulExt n v
  | baseSum b l => exact count_baseSum b l v
  | constant n => exact count_constant n v
  | cosetInterpolation bits d ws => exact count_cosetInterpolation bits d ws v
  | exponentiation n => exact count_exponentiation n v
  | lookup n => exact count_lookup n v
  | lookupTable n => exact count_lookupTable n v
  | noop => exact count_noop v
  | poseidon => exact count_poseidon v
  | poseidonMds => exact count_poseidonMds v
  | publicInput => exact count_publicInput v
  | randomAccess bits copies extra => exact count_randomAccess bits copies extra v
  | reducing n => exact count_reducing n v
  | reducingExt n => exact count_reducingExt n v

end Counts

/-- instance at the executable field: the Poseidon gate over `P2.GL` yields 123 constraints on
every row -/
example (v : EvalVars P2.GL) : (GateKind.poseidon.evalUnfiltered v).length = 123 :=
  count_all .poseidon v

end P2.Lemmas.C07
