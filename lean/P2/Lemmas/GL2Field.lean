/-
`GL2 = GL[X]/(X² − 7)` as a Mathlib field whose operations are the model's, and the link between
the executable `FOps GL2` instance and `FOps.ofField GL2`.

 1. `7` is not a square modulo `GLP` (Euler's criterion + a kernel-evaluated square-and-multiply);
 2. `GL.pow` is `^` and `GL.inv` is `⁻¹` of `ZMod GLP`;
 3. `gl2Field : Field GL2` with `+ * - neg 0 1 ⁻¹ Nat.cast` DEFINITIONALLY the model's
    `GL2.add/mul/sub/neg/zero/one/inv` and `ofBase ∘ GL.ofNat`;
 4. `fops_GL2_eq : instFOpsGL2 = FOps.ofField GL2` and the derived lemmas.
-/
import Mathlib.NumberTheory.LegendreSymbol.Basic
import Mathlib.FieldTheory.Finite.Basic
import Mathlib.Tactic.Ring
import Mathlib.Tactic.LinearCombination
import Mathlib.Tactic.FieldSimp
import Mathlib.SetTheory.Cardinal.Finite
import P2.Lemmas.C07
import Mathlib.Algebra.CharP.Algebra
import Mathlib.GroupTheory.OrderOfElement
import Mathlib.RingTheory.RootsOfUnity.PrimitiveRoots
import P2.Lemmas.PlonkAlg
import P2.Lemmas.StarkAlg
import P2.Model.GL2
import P2.Model.Plonk
import P2.Model.Fri

namespace P2.Lemmas.GL2Field
open P2 P2.Lemmas.C07

attribute [local instance] glField
/- `Neg`/`Sub` on `Fin GLP` would otherwise be found as `Fin.neg`/`Fin.instSub`, which `ring` does not
identify (at reducible transparency) with the operations of `ZMod GLP`; definitionally the same -/
local instance (priority := 2000) glNeg : Neg P2.GL := glField.toNeg
local instance (priority := 2000) glSub : Sub P2.GL := glField.toSub

/-! ## 7 is not a square modulo `GLP` -/

/-- powers of `7` in `ZMod GLP` through the kernel-friendly `L0.powMod` -/
theorem seven_pow_val (e v : ℕ) (he : e < 2 ^ 64) (h : L0.powMod 7 e GLP = v) :
    (7 : ZMod GLP) ^ e = ((v : ℕ) : ZMod GLP) := by
  have h1 : ((7 ^ e : ℕ) : ZMod GLP) = ((v : ℕ) : ZMod GLP) := by
    rw [ZMod.natCast_eq_natCast_iff', L0.powMod_eq _ _ _ he, h]
    unfold L0.powMod at h
    rw [← h, Nat.mod_mod]
  rw [← h1, Nat.cast_pow]
  rfl

/-- `7^((p−1)/2) = −1` -/
theorem seven_pow_half : (7 : ZMod GLP) ^ (GLP / 2) = -1 := by
  have h2 : ((18446744069414584320 : ℕ) : ZMod GLP) = -1 := by
    rw [eq_neg_iff_add_eq_zero]
    have : ((18446744069414584320 + 1 : ℕ) : ZMod GLP) = 0 := by
      rw [ZMod.natCast_eq_zero_iff]
    rw [Nat.cast_add, Nat.cast_one] at this
    exact this
  rw [show GLP / 2 = 9223372034707292160 by norm_num,
    seven_pow_val 9223372034707292160 18446744069414584320 (by norm_num) (by decide +kernel), h2]

theorem natCast_ne_zero_of_lt (n : ℕ) (h0 : 0 < n) (hn : n < GLP) : ((n : ℕ) : ZMod GLP) ≠ 0 := by
  rw [Ne, ZMod.natCast_eq_zero_iff]
  exact fun h => absurd (Nat.le_of_dvd h0 h) (by omega)

theorem seven_nonsquare : ¬ IsSquare (7 : ZMod GLP) := by
  intro h
  have h7 : (7 : ZMod GLP) ≠ 0 := by
    have := natCast_ne_zero_of_lt 7 (by norm_num) (by norm_num)
    exact_mod_cast this
  have h1 := (ZMod.euler_criterion GLP h7).1 h
  rw [seven_pow_half] at h1
  have h2 : ((2 : ℕ) : ZMod GLP) = 0 := by
    rw [Nat.cast_ofNat]
    linear_combination -h1
  exact natCast_ne_zero_of_lt 2 (by norm_num) (by norm_num) h2

/-! ## `GL.pow`, `GL.inv` -/

theorem pow_loop (l : List Nat) (acc base : P2.GL) (ex : Nat) (h : ex < 2 ^ l.length) :
    (forIn (m := Id) l (acc, base, ex) (fun _ s =>
      if s.2.2 % 2 = 1 then ForInStep.yield (s.1 * s.2.1, s.2.1 * s.2.1, s.2.2 / 2)
      else ForInStep.yield (s.1, s.2.1 * s.2.1, s.2.2 / 2))).1 = acc * base ^ ex := by
  induction l generalizing acc base ex with
  | nil =>
    have : ex = 0 := by simpa using h
    subst this
    simp
    rfl
  | cons x l ih =>
    rw [List.forIn_cons]
    have hl : ex / 2 < 2 ^ l.length := by
      rw [List.length_cons, pow_succ] at h; omega
    have he : ex = 2 * (ex / 2) + ex % 2 := (Nat.div_add_mod ex 2).symm
    by_cases h1 : ex % 2 = 1
    · simp only [h1, if_true]
      erw [ih _ _ _ hl]
      conv_rhs => rw [he, h1, pow_add, pow_mul]
      ring
    · simp only [h1, if_false]
      erw [ih _ _ _ hl]
      have : ex % 2 = 0 := by omega
      conv_rhs => rw [he, this, pow_add, pow_mul]
      ring

/-- the model's `GL.pow` (a `for` loop over `log2 e + 1` bits) is the power of `ZMod GLP` -/
theorem GL_pow_eq (b : P2.GL) (e : Nat) : GL.pow b e = b ^ e := by
  unfold GL.pow
  simp only [Id.run, bind, pure, Std.Legacy.Range.forIn_eq_forIn_range']
  have := pow_loop (List.range' 0 (e.log2 + 1) 1) 1 b e (by
    rw [List.length_range']; exact Nat.lt_log2_self)
  have hs : [:e.log2 + 1].size = e.log2 + 1 := by simp [Std.Legacy.Range.size]
  rw [one_mul] at this
  rw [hs]
  exact this

/-- the model's `GL.inv` (Fermat) is the inverse of `ZMod GLP` (`0 ↦ 0`) -/
theorem GL_inv_eq (x : P2.GL) : GL.inv x = x⁻¹ := by
  unfold GL.inv
  rw [GL_pow_eq]
  by_cases h : x = 0
  · subst h
    rw [inv_zero, zero_pow (by norm_num)]
  · have h1 : x ^ (GLP - 1) = 1 := ZMod.pow_card_sub_one_eq_one (p := GLP) h
    apply eq_inv_of_mul_eq_one_left
    rw [← pow_succ]
    exact h1

/-- with `GL.inv` identified, the executable record on `GL` IS `FOps.ofField GL` -/
theorem fops_GL_eq' : instFOpsGL = FOps.ofField P2.GL := by
  rw [fops_GL_eq]
  have : GL.inv = fun x : P2.GL => x⁻¹ := funext GL_inv_eq
  rw [this]
  rfl

/-! ## components -/

theorem ext' : ∀ {x y : GL2}, x.a = y.a → x.b = y.b → x = y
  | ⟨_, _⟩, ⟨_, _⟩, rfl, rfl => rfl

theorem W_eq : GL2.W = ((7 : ℕ) : P2.GL) := rfl
theorem W_eq' : GL2.W = (7 : ZMod GLP) := rfl

theorem add_a (x y : GL2) : (GL2.add x y).a = x.a + y.a := rfl
theorem add_b (x y : GL2) : (GL2.add x y).b = x.b + y.b := rfl
theorem sub_a (x y : GL2) : (GL2.sub x y).a = x.a - y.a := rfl
theorem sub_b (x y : GL2) : (GL2.sub x y).b = x.b - y.b := rfl
theorem neg_a (x : GL2) : (GL2.neg x).a = -x.a := rfl
theorem neg_b (x : GL2) : (GL2.neg x).b = -x.b := rfl
theorem mul_a (x y : GL2) : (GL2.mul x y).a = x.a * y.a + GL2.W * (x.b * y.b) := rfl
theorem mul_b (x y : GL2) : (GL2.mul x y).b = x.a * y.b + x.b * y.a := rfl
theorem zero_a : GL2.zero.a = 0 := rfl
theorem zero_b : GL2.zero.b = 0 := rfl
theorem one_a : GL2.one.a = 1 := rfl
theorem one_b : GL2.one.b = 0 := rfl
theorem ofBase_a (x : P2.GL) : (GL2.ofBase x).a = x := rfl
theorem ofBase_b (x : P2.GL) : (GL2.ofBase x).b = 0 := rfl
theorem inv_a (x : GL2) : (GL2.inv x).a = x.a * (x.a * x.a - GL2.W * (x.b * x.b))⁻¹ := by
  show x.a * GL.inv _ = _
  rw [GL_inv_eq]
theorem inv_b (x : GL2) : (GL2.inv x).b = -(x.b * (x.a * x.a - GL2.W * (x.b * x.b))⁻¹) := by
  show -(x.b * GL.inv _) = _
  rw [GL_inv_eq]

/-- component-wise reduction of an identity in `GL2` to two ring identities in `GL`
(`GL2.W` stays an atom: the ring axioms hold for every `W`) -/
macro "gl2_ring" : tactic =>
  `(tactic| (apply ext' <;>
    simp only [add_a, add_b, sub_a, sub_b, neg_a, neg_b, mul_a, mul_b, zero_a, zero_b, one_a,
      one_b, ofBase_a, ofBase_b] <;> ring))

/-! ## the norm -/

/-- `a² − 7b² ≠ 0` unless `a = b = 0`: the only use of `seven_nonsquare` -/
theorem norm_ne_zero (x : GL2) (hx : x ≠ GL2.zero) :
    x.a * x.a - GL2.W * (x.b * x.b) ≠ 0 := by
  intro h
  by_cases hb : x.b = 0
  · rw [hb, mul_zero, mul_zero, sub_zero] at h
    have ha : x.a = 0 := mul_self_eq_zero.1 h
    exact hx (ext' ha hb)
  · apply seven_nonsquare
    refine ⟨x.a * x.b⁻¹, ?_⟩
    have h7 : GL2.W = (x.a * x.b⁻¹) * (x.a * x.b⁻¹) := by
      field_simp
      linear_combination -h
    exact W_eq'.symm.trans h7

/-! ## the ring and field structures -/

theorem natCast_succ (n : ℕ) :
    GL2.ofBase (GL.ofNat (n + 1)) = GL2.add (GL2.ofBase (GL.ofNat n)) GL2.one := by
  apply ext'
  · simp only [add_a, ofBase_a, one_a, ofNat_GL]
    exact Nat.cast_succ n
  · simp only [add_b, ofBase_b, one_b, add_zero]

theorem mul_inv_cancel' (x : GL2) (hx : x ≠ GL2.zero) : GL2.mul x (GL2.inv x) = GL2.one := by
  have hn := norm_ne_zero x hx
  apply ext'
  · simp only [mul_a, inv_a, inv_b, one_a]
    linear_combination mul_inv_cancel₀ hn
  · simp only [mul_b, inv_a, inv_b, one_b]
    ring

theorem inv_zero' : GL2.inv GL2.zero = GL2.zero := by
  apply ext'
  · rw [inv_a, zero_a, zero_mul]
  · rw [inv_b, zero_b, zero_mul]; ring

/-- `GL2` as a commutative ring; every operation is the model's, by `rfl` -/
@[reducible] def gl2CommRing : CommRing GL2 where
  add := GL2.add
  zero := GL2.zero
  mul := GL2.mul
  one := GL2.one
  neg := GL2.neg
  sub := GL2.sub
  natCast := fun n => GL2.ofBase (GL.ofNat n)
  nsmul := @nsmulRec GL2 ⟨GL2.zero⟩ ⟨GL2.add⟩
  zsmul := @zsmulRec GL2 ⟨GL2.zero⟩ ⟨GL2.add⟩ ⟨GL2.neg⟩ (@nsmulRec GL2 ⟨GL2.zero⟩ ⟨GL2.add⟩)
  add_assoc := fun x y z => show GL2.add (GL2.add x y) z = GL2.add x (GL2.add y z) by gl2_ring
  zero_add := fun x => show GL2.add GL2.zero x = x by gl2_ring
  add_zero := fun x => show GL2.add x GL2.zero = x by gl2_ring
  add_comm := fun x y => show GL2.add x y = GL2.add y x by gl2_ring
  neg_add_cancel := fun x => show GL2.add (GL2.neg x) x = GL2.zero by gl2_ring
  sub_eq_add_neg := fun x y => show GL2.sub x y = GL2.add x (GL2.neg y) by gl2_ring
  mul_assoc := fun x y z => show GL2.mul (GL2.mul x y) z = GL2.mul x (GL2.mul y z) by gl2_ring
  one_mul := fun x => show GL2.mul GL2.one x = x by gl2_ring
  mul_one := fun x => show GL2.mul x GL2.one = x by gl2_ring
  zero_mul := fun x => show GL2.mul GL2.zero x = GL2.zero by gl2_ring
  mul_zero := fun x => show GL2.mul x GL2.zero = GL2.zero by gl2_ring
  mul_comm := fun x y => show GL2.mul x y = GL2.mul y x by gl2_ring
  left_distrib := fun x y z =>
    show GL2.mul x (GL2.add y z) = GL2.add (GL2.mul x y) (GL2.mul x z) by gl2_ring
  right_distrib := fun x y z =>
    show GL2.mul (GL2.add x y) z = GL2.add (GL2.mul x z) (GL2.mul y z) by gl2_ring
  natCast_zero := rfl
  natCast_succ := natCast_succ

/-- `GL2` as a field; `⁻¹` is the model's `GL2.inv`, by `rfl` -/
@[reducible] def gl2Field : Field GL2 where
  toCommRing := gl2CommRing
  inv := GL2.inv
  exists_pair_ne := ⟨GL2.zero, GL2.one, fun h => by
    have := congrArg GL2.a h
    exact absurd this (by decide)⟩
  mul_inv_cancel := mul_inv_cancel'
  inv_zero := inv_zero'
  nnqsmul := _
  nnqsmul_def := fun _ _ => rfl
  qsmul := _
  qsmul_def := fun _ _ => rfl

/-! ## the bridge: the executable record on `GL2` is `FOps.ofField GL2` -/

section Bridge
attribute [local instance] gl2Field

theorem beq_eq (x y : GL2) : (x == y) = decide (x = y) := by
  show (x.a == y.a && x.b == y.b) = decide (x = y)
  by_cases h : x = y
  · subst h; simp
  · rw [decide_eq_false h]
    by_cases ha : x.a = y.a
    · have hb : x.b ≠ y.b := fun hb => h (ext' ha hb)
      simp [hb]
    · simp [ha]

theorem fops_GL2_eq : instFOpsGL2 = FOps.ofField P2.GL2 := by
  unfold instFOpsGL2 FOps.ofField
  congr
  funext x y
  exact beq_eq x y

/-! ### operation by operation (all `rfl`) -/
theorem zero_def : (FOps.zero : GL2) = 0 := rfl
theorem one_def : (FOps.one : GL2) = 1 := rfl
theorem zero_def' : GL2.zero = 0 := rfl
theorem one_def' : GL2.one = 1 := rfl
theorem add_def (x y : GL2) : GL2.add x y = x + y := rfl
theorem mul_def (x y : GL2) : GL2.mul x y = x * y := rfl
theorem sub_def (x y : GL2) : GL2.sub x y = x - y := rfl
theorem neg_def (x : GL2) : GL2.neg x = -x := rfl
theorem inv_def (x : GL2) : GL2.inv x = x⁻¹ := rfl
theorem fops_add (x y : GL2) : @HAdd.hAdd GL2 GL2 GL2 (@instHAdd GL2 instFOpsGL2.toAdd) x y = x + y := rfl
theorem fops_mul (x y : GL2) : @HMul.hMul GL2 GL2 GL2 (@instHMul GL2 instFOpsGL2.toMul) x y = x * y := rfl
theorem fops_sub (x y : GL2) : @HSub.hSub GL2 GL2 GL2 (@instHSub GL2 instFOpsGL2.toSub) x y = x - y := rfl
theorem fops_neg (x : GL2) : @Neg.neg GL2 instFOpsGL2.toNeg x = -x := rfl
theorem fops_inv (x : GL2) : (FOps.inv x : GL2) = x⁻¹ := rfl
theorem fops_ofNat (n : ℕ) : (FOps.ofNat n : GL2) = (n : GL2) := rfl
theorem natCast_def (n : ℕ) : (n : GL2) = GL2.ofBase (GL.ofNat n) := rfl

theorem fops_pow (x : GL2) (n : ℕ) : FOps.pow x n = x ^ n := by
  rw [fops_GL2_eq]; exact C15.pow_eq x n

theorem fops_reduceWithPowers (xs : List GL2) (α : GL2) :
    FOps.reduceWithPowers xs α = ∑ i : Fin xs.length, xs[i] * α ^ (i : ℕ) := by
  rw [fops_GL2_eq]; exact PlonkAlg.reduce_eq_sum xs α

theorem fops_reduceWithPowers_range (xs : List GL2) (α : GL2) :
    FOps.reduceWithPowers xs α = ∑ i ∈ Finset.range xs.length, xs.getD i 0 * α ^ i := by
  rw [fops_GL2_eq]; exact PlonkAlg.reduce_eq_sum_range xs α

/-! ### the base field inside -/

/-- `GL2.ofBase` as a ring homomorphism -/
def ofBaseHom : P2.GL →+* GL2 where
  toFun := GL2.ofBase
  map_one' := rfl
  map_zero' := rfl
  map_mul' := fun x y => show GL2.ofBase (x * y) = GL2.mul (GL2.ofBase x) (GL2.ofBase y) by gl2_ring
  map_add' := fun x y => show GL2.ofBase (x + y) = GL2.add (GL2.ofBase x) (GL2.ofBase y) by gl2_ring

theorem ofBaseHom_apply (x : P2.GL) : ofBaseHom x = GL2.ofBase x := rfl
theorem ofBase_injective : Function.Injective GL2.ofBase := fun _ _ h => congrArg GL2.a h

theorem ofBase_pow (x : P2.GL) (n : ℕ) : GL2.ofBase (x ^ n) = (GL2.ofBase x) ^ n := map_pow ofBaseHom x n
theorem ofBase_GLpow (x : P2.GL) (n : ℕ) : GL2.ofBase (GL.pow x n) = (GL2.ofBase x) ^ n := by
  rw [GL_pow_eq, ofBase_pow]
theorem ofBase_inv (x : P2.GL) : GL2.ofBase (GL.inv x) = (GL2.ofBase x)⁻¹ := by
  rw [GL_inv_eq]; exact map_inv₀ ofBaseHom x

/-- the `GL`-algebra structure with `algebraMap = GL2.ofBase` -/
@[reducible] def gl2Algebra : Algebra P2.GL GL2 := ofBaseHom.toAlgebra

theorem algebraMap_eq : @algebraMap P2.GL GL2 _ _ gl2Algebra = ofBaseHom := rfl

theorem scalarMul_eq (x : GL2) (s : P2.GL) : GL2.scalarMul x s = x * GL2.ofBase s := by
  rw [StarkAlg.scalarMul_eq, ← mul_def, ← mul_def]; gl2_ring

/-- every element is `a + b·X` with `X² = 7` -/
theorem X_sq : (⟨0, 1⟩ : GL2) * ⟨0, 1⟩ = GL2.ofBase GL2.W := by
  rw [← mul_def]; apply ext' <;> simp only [mul_a, mul_b, ofBase_a, ofBase_b] <;> ring
theorem decomp (x : GL2) : x = GL2.ofBase x.a + GL2.ofBase x.b * ⟨0, 1⟩ := by
  rw [← mul_def, ← add_def]; apply ext' <;> simp only [add_a, add_b, mul_a, mul_b, ofBase_a, ofBase_b] <;> ring

/-! ### characteristic and cardinality -/

instance gl2CharP : CharP GL2 GLP :=
  haveI : CharP P2.GL GLP := ZMod.charP GLP
  charP_of_injective_ringHom ofBaseHom.injective GLP

theorem natCast_eq_zero_iff (n : ℕ) : (n : GL2) = 0 ↔ GLP ∣ n := CharP.cast_eq_zero_iff GL2 GLP n

theorem natCast_ne_zero (n : ℕ) (h0 : 0 < n) (hn : n < GLP) : (n : GL2) ≠ 0 := by
  rw [Ne, natCast_eq_zero_iff]
  exact fun h => absurd (Nat.le_of_dvd h0 h) (by omega)

theorem two_pow_ne_zero (k : ℕ) : ((2 ^ k : ℕ) : GL2) ≠ 0 := by
  rw [Ne, natCast_eq_zero_iff]
  intro h
  have := (Nat.Prime.dvd_of_dvd_pow glPrime.out h)
  exact absurd (Nat.le_of_dvd (by norm_num) this) (by norm_num)

/-- `GL2 ≃ GL × GL` -/
def equivProd : GL2 ≃ P2.GL × P2.GL where
  toFun := fun x => (x.a, x.b)
  invFun := fun p => ⟨p.1, p.2⟩
  left_inv := fun ⟨_, _⟩ => rfl
  right_inv := fun ⟨_, _⟩ => rfl

instance gl2Fintype : Fintype GL2 := Fintype.ofEquiv _ equivProd.symm

theorem card_GL2 : Fintype.card GL2 = GLP ^ 2 := by
  rw [Fintype.card_congr equivProd, Fintype.card_prod, Fintype.card_fin, pow_two]

theorem natCard_GL2 : Nat.card GL2 = GLP ^ 2 := by
  rw [Nat.card_eq_fintype_card, card_GL2]

end Bridge

/-! ## roots of unity -/

theorem natCast_pow_val (a e v : ℕ) (he : e < 2 ^ 64) (h : L0.powMod a e GLP = v) :
    ((a : ℕ) : ZMod GLP) ^ e = ((v : ℕ) : ZMod GLP) := by
  have h1 : ((a ^ e : ℕ) : ZMod GLP) = ((v : ℕ) : ZMod GLP) := by
    rw [ZMod.natCast_eq_natCast_iff', L0.powMod_eq _ _ _ he, h]
    unfold L0.powMod at h
    rw [← h, Nat.mod_mod]
  rw [← h1, Nat.cast_pow]

theorem natCast_pow_val_GL (a e v : ℕ) (he : e < 2 ^ 64) (h : L0.powMod a e GLP = v) :
    ((a : ℕ) : P2.GL) ^ e = ((v : ℕ) : P2.GL) := natCast_pow_val a e v he h

theorem natCast_GL_eq_iff (a b : ℕ) : ((a : ℕ) : P2.GL) = ((b : ℕ) : P2.GL) ↔ a % GLP = b % GLP :=
  ZMod.natCast_eq_natCast_iff' a b GLP

theorem pow2Gen_order : orderOf (GL.pow2Gen : P2.GL) = 2 ^ 32 := by
  have e : (GL.pow2Gen : P2.GL) = ((7277203076849721926 : ℕ) : P2.GL) := rfl
  apply orderOf_eq_prime_pow (p := 2) (n := 31)
  · rw [e, show (2 : ℕ) ^ 31 = 2147483648 by norm_num,
      natCast_pow_val_GL 7277203076849721926 2147483648 18446744069414584320 (by norm_num) (by decide +kernel)]
    intro h
    have h1 : ((18446744069414584320 : ℕ) : P2.GL) = ((1 : ℕ) : P2.GL) := by
      rw [h, Nat.cast_one]
    rw [natCast_GL_eq_iff] at h1
    exact absurd h1 (by norm_num)
  · rw [e, show (2 : ℕ) ^ (31 + 1) = 4294967296 by norm_num,
      natCast_pow_val_GL 7277203076849721926 4294967296 1 (by norm_num) (by decide +kernel), Nat.cast_one]

theorem pow2Gen_primitive : IsPrimitiveRoot (GL.pow2Gen : P2.GL) (2 ^ 32) := by
  rw [← pow2Gen_order]; exact IsPrimitiveRoot.orderOf _

/-- `primitive_root_of_unity(k)` is a primitive `2^k`-th root of unity, `k ≤ 32` -/
theorem primitiveRoot_primitive (k : ℕ) (hk : k ≤ 32) :
    IsPrimitiveRoot (GL.primitiveRoot k : P2.GL) (2 ^ k) := by
  unfold GL.primitiveRoot
  rw [GL_pow_eq]
  apply IsPrimitiveRoot.pow (n := 2 ^ 32) (by norm_num) pow2Gen_primitive
  rw [← pow_add]
  congr 1
  omega

section
attribute [local instance] gl2Field
/-- … and so is its image in `GL2` -/
theorem ofBase_primitiveRoot_primitive (k : ℕ) (hk : k ≤ 32) :
    IsPrimitiveRoot (GL2.ofBase (GL.primitiveRoot k)) (2 ^ k) :=
  (primitiveRoot_primitive k hk).map_of_injective (f := ofBaseHom) ofBaseHom.injective
end

/-! ## corollaries at the model's own types -/

section Model
attribute [local instance] gl2Field
open P2.Air P2.PlonkAlg

theorem fops_reduceWithPowers_mapIdx (xs : List GL2) (α : GL2) :
    FOps.reduceWithPowers xs α = (xs.mapIdx fun i x => x * α ^ i).sum := by
  induction xs with
  | nil => rfl
  | cons x xs ih =>
    have h : FOps.reduceWithPowers (x :: xs) α = FOps.reduceWithPowers xs α * α + x := rfl
    rw [h, ih, List.mapIdx_cons, List.sum_cons, pow_zero, mul_one, add_comm]
    congr 1
    have e : (List.mapIdx (fun i x => x * α ^ i) xs).sum * α
        = ((List.mapIdx (fun i x => x * α ^ i) xs).map (fun b => b * α)).sum := by
      rw [List.sum_map_mul_right (f := fun b => b), List.map_id']
    rw [e]
    congr 1
    apply List.ext_getElem (by simp)
    intro i h1 h2
    simp only [List.getElem_map, List.getElem_mapIdx]
    rw [pow_succ, mul_assoc]

/-! ### α-combination -/

theorem m_reduce_terms_zero (terms : List GL2) (S : Finset GL2) (hcard : terms.length ≤ S.card)
    (hS : ∀ α ∈ S, FOps.reduceWithPowers terms α = GL2.zero) : ∀ t ∈ terms, t = GL2.zero := by
  have := PlonkAlg.reduce_terms_zero_of_many_zeros terms S hcard
  rw [← fops_GL2_eq] at this
  exact this hS

theorem m_reduce_zeros_card (terms : List GL2) (h : ∃ t ∈ terms, t ≠ GL2.zero) (S : Finset GL2)
    (hS : ∀ α ∈ S, FOps.reduceWithPowers terms α = GL2.zero) : S.card ≤ terms.length - 1 := by
  have := PlonkAlg.reduce_zeros_card terms h S
  rw [← fops_GL2_eq] at this
  exact this hS

theorem m_reduce_zero_set (terms : List GL2) (h : ∃ t ∈ terms, t ≠ GL2.zero) :
    {α : GL2 | FOps.reduceWithPowers terms α = GL2.zero}.Finite ∧
    {α : GL2 | FOps.reduceWithPowers terms α = GL2.zero}.ncard ≤ terms.length - 1 := by
  have := PlonkAlg.reduce_zero_set terms h
  rw [← fops_GL2_eq] at this
  exact this

/-- base-field challenges, as in `eval_vanishing_poly`: `alphas.map fun a => reduceExt terms (ofBase a)` -/
theorem m_reduceExt_terms_zero (terms : List GL2) (S : Finset P2.GL) (hcard : terms.length ≤ S.card)
    (hS : ∀ a ∈ S, Fri.reduceExt terms (GL2.ofBase a) = GL2.zero) : ∀ t ∈ terms, t = GL2.zero := by
  apply m_reduce_terms_zero terms (S.image GL2.ofBase)
  · rw [Finset.card_image_of_injective _ ofBase_injective]; exact hcard
  · intro α hα
    obtain ⟨a, ha, rfl⟩ := Finset.mem_image.1 hα
    exact hS a ha

end Model

section ModelL0
attribute [local instance] glField gl2Field
open P2.PlonkAlg

theorem m_evalL0_eq (n : ℕ) (x : GL2) :
    Plonk.evalL0 n x = if x = 1 then 1 else (x ^ n - 1) * ((n : GL2) * (x - 1))⁻¹ := by
  have := PlonkAlg.evalL0_eq (K := GL2) n x
  rw [← fops_GL2_eq] at this
  exact this

theorem m_evalL0_one (n : ℕ) : Plonk.evalL0 n GL2.one = GL2.one := by
  rw [m_evalL0_eq]; exact if_pos rfl

theorem m_evalL0_root_of_primitive (n : ℕ) (ω : P2.GL) (hω : IsPrimitiveRoot ω n) (j : ℕ) :
    Plonk.evalL0 n (GL2.ofBase (GL.pow ω j)) = if j % n = 0 then GL2.one else GL2.zero := by
  rw [ofBase_GLpow]
  have := PlonkAlg.evalL0_root n (GL2.ofBase ω)
    (hω.map_of_injective (f := ofBaseHom) ofBaseHom.injective) j
  rw [← fops_GL2_eq] at this
  exact this

theorem m_evalL0_root (k : ℕ) (hk : k ≤ 32) (j : ℕ) :
    Plonk.evalL0 (2 ^ k) (GL2.ofBase (GL.pow (GL.primitiveRoot k) j))
      = if j % 2 ^ k = 0 then GL2.one else GL2.zero :=
  m_evalL0_root_of_primitive _ _ (primitiveRoot_primitive k hk) j

theorem m_evalL0_mul (n : ℕ) (hn : ¬ GLP ∣ n) (x : GL2) (hx : x ≠ GL2.one) :
    GL2.mul (Plonk.evalL0 n x) (GL2.mul (GL2.ofBase (GL.ofNat n)) (GL2.sub x GL2.one))
      = GL2.sub (FOps.pow x n) GL2.one := by
  have := PlonkAlg.evalL0_mul (K := GL2) n ((natCast_eq_zero_iff n).not.2 hn) x hx
  rw [← fops_GL2_eq] at this
  rw [fops_pow]
  exact this

theorem m_evalL0_of_pow_eq_one (n : ℕ) (x : GL2) (hx : x ≠ GL2.one)
    (hxn : FOps.pow x n = GL2.one) : Plonk.evalL0 n x = GL2.zero := by
  rw [fops_pow] at hxn
  have := PlonkAlg.evalL0_of_pow_eq_one (K := GL2) n x hx hxn
  rw [← fops_GL2_eq] at this
  exact this

theorem primitiveRoot_ne_zero (k : ℕ) (hk : k ≤ 32) : (GL.primitiveRoot k : P2.GL) ≠ 0 :=
  (primitiveRoot_primitive k hk).ne_zero (by positivity)

/-- everything `eval_l_0_and_l_last` returns, in terms of `eval_l_0` -/
theorem m_evalL0LLast_ok (logN : ℕ) (x : GL2) (r : GL2 × GL2 × GL2)
    (h : Stark.evalL0LLast logN x = .ok r) :
    logN ≤ 32 ∧ x ≠ GL2.one ∧ GL2.scalarMul x (GL.primitiveRoot logN) ≠ GL2.one ∧
    r.1 = Plonk.evalL0 (2 ^ logN) x ∧
    r.2.1 = Plonk.evalL0 (2 ^ logN) (GL2.scalarMul x (GL.primitiveRoot logN)) ∧
    r.2.2 = GL2.sub x (GL2.ofBase (GL.inv (GL.primitiveRoot logN))) ∧
    r.2.2 ≠ GL2.zero := by
  unfold Stark.evalL0LLast at h
  split at h
  · exact absurd h (by simp)
  · next hlog =>
    simp only [] at h
    split at h
    · exact absurd h (by simp)
    · next hd =>
      have hr := (Except.ok.inj h).symm
      rw [beq_eq, decide_eq_true_eq] at hd
      obtain ⟨h0, h1⟩ := mul_ne_zero_iff.1 hd
      have hx : x ≠ 1 := fun e => right_ne_zero_of_mul h0 (sub_eq_zero.2 e)
      have hgx : GL2.scalarMul x (GL.primitiveRoot logN) ≠ 1 := fun e =>
        right_ne_zero_of_mul h1 (sub_eq_zero.2 e)
      refine ⟨by omega, hx, hgx, ?_, ?_, ?_, ?_⟩
      · rw [m_evalL0_eq, if_neg hx, hr, ← fops_pow]; rfl
      · have hp : (GL2.scalarMul x (GL.primitiveRoot logN)) ^ (2 ^ logN) = x ^ (2 ^ logN) := by
          rw [scalarMul_eq, mul_pow, ← ofBase_pow,
            (primitiveRoot_primitive logN (by omega)).pow_eq_one]
          exact mul_one _
        rw [m_evalL0_eq, if_neg hgx, hr, hp, ← fops_pow]; rfl
      · rw [hr]; rfl
      · rw [hr]
        show x - GL2.ofBase (GL.inv (GL.primitiveRoot logN)) ≠ 0
        rw [ofBase_inv, sub_ne_zero]
        intro e
        apply hgx
        rw [scalarMul_eq, e]
        exact inv_mul_cancel₀ ((map_ne_zero ofBaseHom).2 (primitiveRoot_ne_zero logN (by omega)))

theorem m_evalL0LLast_on_subgroup (logN : ℕ) (x : GL2) (r : GL2 × GL2 × GL2)
    (h : Stark.evalL0LLast logN x = .ok r) (hx : FOps.pow x (2 ^ logN) = GL2.one) :
    r.1 = GL2.zero ∧ r.2.1 = GL2.zero := by
  obtain ⟨hl, hx1, hgx, h1, h2, _⟩ := m_evalL0LLast_ok logN x r h
  refine ⟨h1 ▸ m_evalL0_of_pow_eq_one _ x hx1 hx, ?_⟩
  rw [h2]
  apply m_evalL0_of_pow_eq_one _ _ hgx
  rw [fops_pow] at hx ⊢
  rw [scalarMul_eq, mul_pow, ← ofBase_pow, (primitiveRoot_primitive logN hl).pow_eq_one, hx]
  exact mul_one _

end ModelL0

end P2.Lemmas.GL2Field
