/-
Helper lemmas for C18b: a pure (loop-free) restatement `validateShapeP` of `Fri.validateShape`,
proved equal to the model function, the facts an accepting shape validation establishes, and the
panic-freedom of every later stage of `Fri.verify` under those facts.
-/
import P2.Model.Plonk
namespace P2.Lemmas.FriShape
open P2 P2.Fri P2.Merkle

/-! ### pure restatement of `validate_fri_proof_shape` -/

/-- the check on one commit-phase cap -/
def capV (capHeight : Nat) (cap : List Digest) : Option Verdict :=
  if cap.length ≠ 2 ^ capHeight then some (.reject "shape") else none

/-- the checks on one `(leaf, merkle proof)` of the initial trees proof against its oracle -/
def initV (p : FriParams) (x : (List GL × List Digest) × OracleInfo) : Option Verdict :=
  if x.1.1.length ≠ x.2.numPolys + saltSize (x.2.blinding && p.isHiding) then some (.reject "shape")
  else if x.1.2.length + p.config.capHeight ≠ p.ldeBits then some (.reject "shape")
  else none

/-- the loop over `steps.zip arityBits` with the running `codeword_len_bits` -/
def stepsV (p : FriParams) : List QueryStep → List Nat → Nat → Option Verdict
  | st :: rest, ab :: abs, bits =>
    if bits < ab then some (.panic "codeword_len_bits underflow")
    else if st.evals.length ≠ 2 ^ ab then some (.reject "shape")
    else if st.merkleProof.length + p.config.capHeight ≠ bits - ab then some (.reject "shape")
    else stepsV p rest abs (bits - ab)
  | [], _, _ => none
  | _ :: _, [], _ => none

/-- the checks on one query round -/
def queryV (inst : Instance) (p : FriParams) (q : QueryRound) : Option Verdict :=
  if q.initial.length ≠ inst.oracles.length then some (.reject "shape") else
  match (q.initial.zip inst.oracles).findSome? (initV p) with
  | some r => some r
  | none =>
    if q.steps.length ≠ p.arityBits.length then some (.reject "shape") else
    stepsV p q.steps p.arityBits p.ldeBits

/-- `Fri.validateShape` without `for` loops (same checks, same order, same verdicts) -/
def validateShapeP (proof : Proof) (inst : Instance) (p : FriParams) : Verdict :=
  if proof.commitCaps.length ≠ p.arityBits.length then .reject "shape" else
  match proof.commitCaps.findSome? (capV p.config.capHeight) with
  | some r => r
  | none =>
    match proof.queries.findSome? (queryV inst p) with
    | some r => r
    | none =>
      if p.degreeBits < p.totalArities then .panic "final_poly_bits underflow"
      else if proof.finalPoly.length ≠ 2 ^ (p.degreeBits - p.totalArities) then .reject "shape"
      else .accept

/-- a stateless early-exit `for` loop in `Id` is `findSome?` -/
theorem forIn_first {α β : Type} (g : α → Option β) (l : List α)
    (f : α → Option β × PUnit → Id (ForInStep (Option β × PUnit)))
    (hf : ∀ a s, f a s = match g a with
      | some r => ForInStep.done (some r, ())
      | none => ForInStep.yield (none, ())) :
    (forIn (m := Id) l ((none, ()) : Option β × PUnit) f).fst = l.findSome? g := by
  induction l with
  | nil => rfl
  | cons a rest ih =>
    simp only [List.forIn_cons, List.findSome?_cons, hf]
    cases g a with
    | some r => rfl
    | none => exact ih

theorem steps_loop (p : FriParams) (steps : List QueryStep) (abs : List Nat) (bits : Nat) :
    (forIn (m := Id) (steps.zip abs) ((none, bits) : Option Verdict × Nat) (fun x s =>
      if s.snd < x.snd then
        (ForInStep.done (some (Verdict.panic "codeword_len_bits underflow"), s.snd) : Id _)
      else if x.fst.evals.length ≠ 2 ^ x.snd then
        (ForInStep.done (some (Verdict.reject "shape"), s.snd - x.snd) : Id _)
      else if x.fst.merkleProof.length + p.config.capHeight ≠ s.snd - x.snd then
        (ForInStep.done (some (Verdict.reject "shape"), s.snd - x.snd) : Id _)
      else (ForInStep.yield (none, s.snd - x.snd) : Id _))).fst = stepsV p steps abs bits := by
  induction steps generalizing abs bits with
  | nil => rfl
  | cons st rest ih =>
    cases abs with
    | nil => rfl
    | cons ab abs =>
      simp only [List.zip_cons_cons, List.forIn_cons, stepsV]
      split
      · rfl
      · split
        · rfl
        · split
          · rfl
          · exact ih abs (bits - ab)

/-- **the pure restatement is the model function** -/
theorem validateShape_eq (proof : Proof) (inst : Instance) (p : FriParams) :
    validateShape proof inst p = validateShapeP proof inst p := by
  unfold validateShape validateShapeP
  simp only [Id.run, bind, pure]
  rw [forIn_first (capV p.config.capHeight) _ _ (by
    intro a s; simp only [capV]; split <;> rfl)]
  rw [forIn_first (queryV inst p) _ _ (by
    intro q s
    rw [forIn_first (initV p) _ _ (by
      intro a s; simp only [initV]; split
      · rfl
      · split <;> rfl), steps_loop]
    simp only [queryV]
    split
    · rfl
    · cases (q.initial.zip inst.oracles).findSome? (initV p) with
      | some r => rfl
      | none =>
        simp only []
        split
        · rfl
        · cases stepsV p q.steps p.arityBits p.ldeBits <;> rfl)]
  split
  · rfl
  · cases List.findSome? (capV p.config.capHeight) proof.commitCaps with
    | some r => rfl
    | none =>
      cases List.findSome? (queryV inst p) proof.queries with
      | some r => rfl
      | none =>
        simp only []

/-! ### shape validation itself: no panic under `totalArities ≤ degreeBits` -/

theorem foldl_add (l : List Nat) (a : Nat) :
    l.foldl (· + ·) a = a + l.foldl (· + ·) 0 := by
  induction l generalizing a with
  | nil => simp
  | cons x xs ih =>
    simp only [List.foldl_cons]
    rw [ih (a + x), ih (0 + x)]
    omega

theorem stepsV_no_panic (p : FriParams) (steps : List QueryStep) (abs : List Nat) (bits : Nat)
    (h : abs.foldl (· + ·) 0 ≤ bits) (s : String) : stepsV p steps abs bits ≠ some (.panic s) := by
  induction steps generalizing abs bits with
  | nil => simp [stepsV]
  | cons st rest ih =>
    cases abs with
    | nil => simp [stepsV]
    | cons ab abs =>
      simp only [List.foldl_cons] at h
      rw [foldl_add] at h
      simp only [stepsV]
      split
      · omega
      · split
        · simp
        · split
          · simp
          · exact ih abs (bits - ab) (by omega)

theorem findSome?_ne {α β : Type} (g : α → Option β) (l : List α) (v : β)
    (h : ∀ a ∈ l, g a ≠ some v) : l.findSome? g ≠ some v := by
  induction l with
  | nil => simp
  | cons a rest ih =>
    rw [List.findSome?_cons]
    cases hg : g a with
    | some r => simp only []; rw [← hg]; exact h a List.mem_cons_self
    | none => exact ih (fun a' ha' => h a' (List.mem_cons_of_mem _ ha'))

theorem findSome?_no_panic {α : Type} (g : α → Option Verdict) (l : List α)
    (h : ∀ a ∈ l, ∀ s, g a ≠ some (.panic s)) (s : String) : l.findSome? g ≠ some (.panic s) :=
  findSome?_ne g l _ (fun a ha => h a ha s)

theorem stepsV_ne_accept (p : FriParams) (steps : List QueryStep) (abs : List Nat) (bits : Nat) :
    stepsV p steps abs bits ≠ some .accept := by
  induction steps generalizing abs bits with
  | nil => simp [stepsV]
  | cons st rest ih =>
    cases abs with
    | nil => simp [stepsV]
    | cons ab abs =>
      simp only [stepsV]
      split
      · simp
      · split
        · simp
        · split
          · simp
          · exact ih abs (bits - ab)

theorem queryV_ne_accept (inst : Instance) (p : FriParams) (q : QueryRound) :
    queryV inst p q ≠ some .accept := by
  unfold queryV
  split
  · simp
  · cases hi : (q.initial.zip inst.oracles).findSome? (initV p) with
    | some r =>
      simp only []; rw [← hi]
      apply findSome?_ne
      intro a _
      unfold initV; split
      · simp
      · split <;> simp
    | none =>
      simp only []
      split
      · simp
      · exact stepsV_ne_accept _ _ _ _

theorem capV_no_panic (ch : Nat) (cap : List Digest) (s : String) : capV ch cap ≠ some (.panic s) := by
  unfold capV; split <;> simp

theorem initV_no_panic (p : FriParams) (x) (s : String) : initV p x ≠ some (.panic s) := by
  unfold initV; split
  · simp
  · split <;> simp

theorem queryV_no_panic (inst : Instance) (p : FriParams) (q : QueryRound)
    (h : p.totalArities ≤ p.degreeBits) (s : String) : queryV inst p q ≠ some (.panic s) := by
  unfold queryV
  split
  · simp
  · cases hi : (q.initial.zip inst.oracles).findSome? (initV p) with
    | some r =>
      simp only []; rw [← hi]
      exact findSome?_no_panic _ _ (fun a _ s => initV_no_panic p a s) s
    | none =>
      simp only []
      split
      · simp
      · apply stepsV_no_panic
        unfold FriParams.totalArities at h
        unfold FriParams.ldeBits
        omega

theorem validateShapeP_never_panics (proof : Proof) (inst : Instance) (p : FriParams)
    (h : p.totalArities ≤ p.degreeBits) (s : String) : validateShapeP proof inst p ≠ .panic s := by
  unfold validateShapeP
  split
  · simp
  · cases hc : proof.commitCaps.findSome? (capV p.config.capHeight) with
    | some r =>
      simp only []; intro hr; subst hr
      exact findSome?_no_panic _ _ (fun a _ s => capV_no_panic _ a s) s hc
    | none =>
      simp only []
      cases hq : proof.queries.findSome? (queryV inst p) with
      | some r =>
        simp only []; intro hr; subst hr
        exact findSome?_no_panic _ _ (fun a _ s => queryV_no_panic inst p a h s) s hq
      | none =>
        simp only []
        split
        · omega
        · split <;> simp

/-! ### what an accepting shape validation establishes -/

/-- the shape facts about one query round -/
structure QueryOK (inst : Instance) (p : FriParams) (q : QueryRound) : Prop where
  initLen : q.initial.length = inst.oracles.length
  init : ∀ x ∈ q.initial.zip inst.oracles,
    x.1.1.length = x.2.numPolys + saltSize (x.2.blinding && p.isHiding) ∧
    x.1.2.length + p.config.capHeight = p.ldeBits
  stepsLen : q.steps.length = p.arityBits.length
  steps : stepsV p q.steps p.arityBits p.ldeBits = none

theorem queryV_none (inst : Instance) (p : FriParams) (q : QueryRound)
    (h : queryV inst p q = none) : QueryOK inst p q := by
  unfold queryV at h
  split at h
  · cases h
  · rename_i h1
    cases hi : (q.initial.zip inst.oracles).findSome? (initV p) with
    | some r => rw [hi] at h; cases h
    | none =>
      rw [hi] at h
      simp only [] at h
      split at h
      · cases h
      · rename_i h2
        refine ⟨by omega, ?_, by omega, h⟩
        intro x hx
        have := List.findSome?_eq_none_iff.mp hi x hx
        unfold initV at this
        split at this
        · cases this
        · split at this
          · cases this
          · omega

theorem validateShapeP_accept (proof : Proof) (inst : Instance) (p : FriParams)
    (h : validateShapeP proof inst p = .accept) :
    proof.commitCaps.length = p.arityBits.length ∧
    (∀ cap ∈ proof.commitCaps, cap.length = 2 ^ p.config.capHeight) ∧
    (∀ q ∈ proof.queries, QueryOK inst p q) := by
  unfold validateShapeP at h
  split at h
  · cases h
  · rename_i h1
    cases hc : proof.commitCaps.findSome? (capV p.config.capHeight) with
    | some r =>
      rw [hc] at h; simp only [] at h; subst h
      have := List.findSome?_eq_some_iff.mp hc
      obtain ⟨_, a, _, _, ha, _⟩ := this
      unfold capV at ha; split at ha <;> cases ha
    | none =>
      rw [hc] at h; simp only [] at h
      cases hq : proof.queries.findSome? (queryV inst p) with
      | some r =>
        rw [hq] at h; simp only [] at h; subst h
        exact absurd hq (findSome?_ne _ _ _ (fun a _ => queryV_ne_accept inst p a))
      | none =>
        refine ⟨by omega, ?_, ?_⟩
        · intro cap hcap
          have := List.findSome?_eq_none_iff.mp hc cap hcap
          unfold capV at this; split at this
          · cases this
          · omega
        · intro q hqm
          exact queryV_none inst p q (List.findSome?_eq_none_iff.mp hq q hqm)

/-! ### Merkle verification: the cap index is in range -/

theorem foldPath_snd {L D : Type} (h : Hasher L D) (cur : D) (index : Nat) (pf : List D) :
    (foldPath h cur index pf).2 = index / 2 ^ pf.length := by
  induction pf generalizing cur index with
  | nil => simp [foldPath]
  | cons s rest ih =>
    simp only [foldPath, List.length_cons]
    rw [ih, Nat.div_div_eq_div_mul, Nat.pow_succ, Nat.mul_comm]

theorem verifyToCap_no_panic {L D : Type} [DecidableEq D] (h : Hasher L D) (leaf : L) (index : Nat)
    (cap pf : List D) (hlt : index / 2 ^ pf.length < cap.length) :
    verifyToCap h leaf index cap pf ≠ .panic := by
  unfold verifyToCap
  have hs := foldPath_snd h (h.hashLeaf leaf) index pf
  generalize foldPath h (h.hashLeaf leaf) index pf = r at hs
  obtain ⟨d, idx⟩ := r
  simp only [] at hs
  subst hs
  simp only []
  rw [List.getElem?_eq_getElem hlt]
  simp only []
  split <;> simp

theorem div_pow_lt (x a b : Nat) (h : x < 2 ^ (a + b)) : x / 2 ^ a < 2 ^ b := by
  rw [Nat.div_lt_iff_lt_mul (Nat.two_pow_pos a), ← Nat.pow_add, Nat.add_comm]
  exact h

theorem firstBad_no_panic (vs : List Verdict) (h : ∀ v ∈ vs, ∀ s, v ≠ .panic s) :
    ∀ s, firstBad vs ≠ .panic s := by
  induction vs with
  | nil => intro s; simp [firstBad]
  | cons v rest ih =>
    intro s
    cases v with
    | accept => simp only [firstBad]; exact ih (fun v hv => h v (List.mem_cons_of_mem _ hv)) s
    | reject t => simp [firstBad]
    | panic t => exact absurd rfl (h (.panic t) (List.mem_cons_self) t)

/-! ### `fri_verify_initial_proof` -/

theorem zip_mem_left {α β : Type} (l₁ : List α) (l₂ : List β) (hlen : l₁.length = l₂.length)
    (a : α) (ha : a ∈ l₁) : ∃ b, (a, b) ∈ l₁.zip l₂ := by
  obtain ⟨i, hi, rfl⟩ := List.getElem_of_mem ha
  refine ⟨l₂[i]'(by omega), ?_⟩
  apply List.mem_of_getElem? (i := i)
  rw [List.getElem?_zip_eq_some]
  exact ⟨List.getElem?_eq_getElem hi, List.getElem?_eq_getElem (by omega)⟩

theorem initialChecks_no_panic (p : FriParams) (initial : List (List GL × List Digest))
    (oracles : List OracleInfo) (initialCaps : List (List Digest)) (xi : Nat)
    (hlen : initial.length = oracles.length)
    (hinit : ∀ x ∈ initial.zip oracles, x.1.2.length + p.config.capHeight = p.ldeBits)
    (hicaps : ∀ cap ∈ initialCaps, cap.length = 2 ^ p.config.capHeight)
    (hxi : xi < 2 ^ p.ldeBits) :
    ∀ v ∈ initialChecks initial initialCaps xi, ∀ s, v ≠ .panic s := by
  intro v hv s
  unfold initialChecks at hv
  rw [List.mem_map] at hv
  obtain ⟨⟨⟨leaf, mp⟩, cap⟩, hmem, rfl⟩ := hv
  obtain ⟨hl, hc⟩ := List.of_mem_zip hmem
  obtain ⟨o, ho⟩ := zip_mem_left initial oracles hlen _ hl
  have hmp := hinit _ ho
  simp only [] at hmp
  have hcap := hicaps cap hc
  simp only []
  cases hvc : verifyToCap digestHasher leaf xi cap mp with
  | ok => simp
  | err => simp
  | panic =>
    exfalso
    refine verifyToCap_no_panic digestHasher leaf xi cap mp ?_ hvc
    rw [hcap]
    apply div_pow_lt
    rw [hmp]; exact hxi

/-! ### `fri_combine_initial` -/

/-- decidable well-formedness of a FRI instance: every polynomial of every batch refers to an
existing oracle and to a polynomial index inside that oracle -/
def InstanceWF (inst : Instance) : Bool :=
  inst.batches.all fun b => b.polys.all fun pi =>
    match inst.oracles[pi.oracle]? with
    | some o => decide (pi.poly < o.numPolys)
    | none => false

theorem instanceWF_iff (inst : Instance) : InstanceWF inst = true ↔
    ∀ b ∈ inst.batches, ∀ pi ∈ b.polys, ∃ o, inst.oracles[pi.oracle]? = some o ∧ pi.poly < o.numPolys := by
  unfold InstanceWF
  simp only [List.all_eq_true]
  constructor
  · intro h b hb pi hpi
    have := h b hb pi hpi
    split at this
    · rename_i o ho; exact ⟨o, ho, by simpa using this⟩
    · cases this
  · intro h b hb pi hpi
    obtain ⟨o, ho, hlt⟩ := h b hb pi hpi
    rw [ho]; simpa using hlt

theorem forIn_option_isSome {α β : Type} (l : List α) (f : α → β → Option (ForInStep β))
    (h : ∀ a ∈ l, ∀ b, (f a b).isSome) (b : β) : (forIn l b f).isSome := by
  induction l generalizing b with
  | nil => rfl
  | cons a rest ih =>
    rw [List.forIn_cons]
    have hab := h a List.mem_cons_self b
    cases hfa : f a b with
    | none => rw [hfa] at hab; cases hab
    | some r =>
      cases r with
      | done b' => rfl
      | yield b' => exact ih (fun a' ha' => h a' (List.mem_cons_of_mem _ ha')) b'

theorem isSome_bind_some {α β : Type} (o : Option α) (g : α → β) (h : o.isSome) :
    (o.bind fun s => some (g s)).isSome := by
  cases o with
  | none => cases h
  | some a => rfl

theorem combineInitial_isSome (inst : Instance) (initial : List (List GL × List Digest))
    (alpha : GL2) (x : GL) (ro : List GL2) (p : FriParams)
    (hinst : InstanceWF inst = true)
    (hlen : initial.length = inst.oracles.length)
    (hleaf : ∀ y ∈ initial.zip inst.oracles,
      y.1.1.length = y.2.numPolys + saltSize (y.2.blinding && p.isHiding)) :
    (combineInitial inst initial alpha x ro p).isSome := by
  rw [instanceWF_iff] at hinst
  unfold combineInitial
  simp only [bind, pure]
  apply isSome_bind_some _ id
  apply forIn_option_isSome
  intro bx hbx sum
  have hb := (List.of_mem_zip hbx).1
  apply isSome_bind_some
  apply forIn_option_isSome
  intro pi hpi evals
  obtain ⟨o, ho, hlt⟩ := hinst _ hb pi hpi
  rw [ho]
  simp only [Option.bind_some]
  obtain ⟨hio, hoe⟩ := List.getElem?_eq_some_iff.mp ho
  have hii : pi.oracle < initial.length := by omega
  rw [List.getElem?_eq_getElem hii]
  simp only [Option.bind_some]
  have hz : (initial[pi.oracle], o) ∈ initial.zip inst.oracles := by
    apply List.mem_of_getElem? (i := pi.oracle)
    rw [List.getElem?_zip_eq_some]
    exact ⟨List.getElem?_eq_getElem hii, ho⟩
  have hl := hleaf _ hz
  simp only [] at hl
  have hlt' : pi.poly < (List.take (initial[pi.oracle].fst.length - saltSize (p.isHiding && o.blinding))
      initial[pi.oracle].fst).length := by
    rw [List.length_take, Bool.and_comm, hl]
    omega
  rw [List.getElem?_eq_getElem hlt']
  rfl

/-! ### the reduction loop of `fri_verifier_query_round` -/

theorem stepsFrom_no_panic (proof : Proof) (ch : Challenges) (q : QueryRound) (p : FriParams)
    (hcaps : ∀ cap ∈ proof.commitCaps, cap.length = 2 ^ p.config.capHeight) :
    ∀ (abs : List Nat) (i xIndex bits : Nat) (x : GL) (oldEval : GL2),
      stepsV p (q.steps.drop i) abs bits = none →
      i + abs.length ≤ q.steps.length →
      i + abs.length ≤ ch.betas.length →
      i + abs.length ≤ proof.commitCaps.length →
      xIndex < 2 ^ bits →
      ∀ s, (stepsFrom proof ch q abs i xIndex x oldEval).1 ≠ .panic s := by
  intro abs
  induction abs with
  | nil => intro i xIndex bits x oldEval _ _ _ _ _ s; simp [stepsFrom]
  | cons ab rest ih =>
    intro i xIndex bits x oldEval hV hs hb hc hx s
    simp only [List.length_cons] at hs hb hc
    have hi : i < q.steps.length := by omega
    rw [List.drop_eq_getElem_cons hi] at hV
    simp only [stepsV] at hV
    split at hV
    · cases hV
    · split at hV
      · cases hV
      · split at hV
        · cases hV
        · rename_i h1 h2 h3
          have hev : q.steps[i].evals.length = 2 ^ ab := by omega
          have hmp : q.steps[i].merkleProof.length + p.config.capHeight = bits - ab := by omega
          have hcos : xIndex / 2 ^ ab < 2 ^ (bits - ab) := by
            apply div_pow_lt
            rw [Nat.add_sub_cancel' (by omega)]; exact hx
          rw [stepsFrom]
          simp only []
          rw [List.getElem?_eq_getElem hi]
          simp only []
          have hw : xIndex % 2 ^ ab < q.steps[i].evals.length := by
            rw [hev]; exact Nat.mod_lt _ (Nat.two_pow_pos ab)
          rw [List.getElem?_eq_getElem hw]
          simp only []
          split
          · simp
          · rw [List.getElem?_eq_getElem (show i < ch.betas.length by omega)]
            simp only []
            have hic : i < proof.commitCaps.length := by omega
            rw [List.getElem?_eq_getElem hic]
            simp only []
            have hcl := hcaps _ (List.getElem_mem hic)
            cases hvc : verifyToCap digestHasher (List.flatMap (fun v => [v.a, v.b]) q.steps[i].evals)
                (xIndex / 2 ^ ab) proof.commitCaps[i] q.steps[i].merkleProof with
            | err => simp
            | panic =>
              exfalso
              refine verifyToCap_no_panic _ _ _ _ _ ?_ hvc
              rw [hcl]
              apply div_pow_lt
              rw [hmp]; exact hcos
            | ok =>
              simp only []
              exact ih (i + 1) _ (bits - ab) _ _ hV (by omega) (by omega) (by omega) hcos s

/-! ### one query round -/

theorem queryRound_no_panic (inst : Instance) (ch : Challenges) (reduced : List GL2)
    (initialCaps : List (List Digest)) (proof : Proof) (xi : Nat) (q : QueryRound) (p : FriParams)
    (hq : QueryOK inst p q)
    (hcl : proof.commitCaps.length = p.arityBits.length)
    (hcaps : ∀ cap ∈ proof.commitCaps, cap.length = 2 ^ p.config.capHeight)
    (hbetas : ch.betas.length = proof.commitCaps.length)
    (hxi : xi < 2 ^ p.ldeBits)
    (hicaps : ∀ cap ∈ initialCaps, cap.length = 2 ^ p.config.capHeight)
    (hinst : InstanceWF inst = true) :
    ∀ s, queryRound inst ch reduced initialCaps proof xi q p ≠ .panic s := by
  intro s
  unfold queryRound
  have hfb := firstBad_no_panic _ (initialChecks_no_panic p q.initial inst.oracles initialCaps xi
    hq.initLen (fun y hy => (hq.init y hy).2) hicaps hxi)
  cases hf : firstBad (initialChecks q.initial initialCaps xi) with
  | reject t => simp
  | panic t => exact absurd hf (hfb t)
  | accept =>
    simp only []
    have hci := combineInitial_isSome inst q.initial ch.alpha
      (GL.multGen * GL.pow (GL.primitiveRoot p.ldeBits) (BitRev.bitrev p.ldeBits xi)) reduced p hinst
      hq.initLen (fun y hy => (hq.init y hy).1)
    cases hco : combineInitial inst q.initial ch.alpha
      (GL.multGen * GL.pow (GL.primitiveRoot p.ldeBits) (BitRev.bitrev p.ldeBits xi)) reduced p with
    | none => rw [hco] at hci; cases hci
    | some old0 =>
      simp only []
      have hsf := stepsFrom_no_panic proof ch q p hcaps p.arityBits 0 xi p.ldeBits
        (GL.multGen * GL.pow (GL.primitiveRoot p.ldeBits) (BitRev.bitrev p.ldeBits xi)) old0
        (by rw [List.drop_zero]; exact hq.steps) (by have := hq.stepsLen; omega) (by omega) (by omega) hxi s
      generalize stepsFrom proof ch q p.arityBits 0 xi
        (GL.multGen * GL.pow (GL.primitiveRoot p.ldeBits) (BitRev.bitrev p.ldeBits xi)) old0 = r at hsf
      obtain ⟨v, le, xf⟩ := r
      simp only [] at hsf
      cases v with
      | accept => simp only []; split <;> simp
      | reject t => simp
      | panic t => exact hsf

/-! ### the PLONK layer: challenges, FRI instance, caps -/
open P2.Plonk in
theorem getChallenges_betas_length (c : CommonData) (pih cd : Digest) (pr : Plonk.Proof) :
    (getChallenges c pih cd pr).fri.betas.length = pr.openingProof.commitCaps.length := by
  simp only [getChallenges]
  split <;> simp

open P2.Plonk in
theorem getChallenges_queryIndices_lt (c : CommonData) (pih cd : Digest) (pr : Plonk.Proof) :
    ∀ xi ∈ (getChallenges c pih cd pr).fri.queryIndices, xi < 2 ^ c.friParams.ldeBits := by
  intro xi hxi
  simp only [getChallenges] at hxi
  split at hxi <;>
  · simp only [List.mem_map] at hxi
    obtain ⟨x, _, rfl⟩ := hxi
    exact Nat.mod_lt _ (Nat.two_pow_pos _)

open P2.Plonk in
theorem polyRange_mem (o lo hi : Nat) (pi : PolyInfo) (h : pi ∈ polyRange o lo hi) :
    pi.oracle = o ∧ pi.poly < hi := by
  unfold polyRange at h
  simp only [List.mem_map, List.mem_range] at h
  obtain ⟨i, hi', rfl⟩ := h
  exact ⟨rfl, by show lo + i < hi; omega⟩

open P2.Plonk in
theorem friInstance_wf (c : CommonData) (zeta : GL2) : InstanceWF (friInstance c zeta) = true := by
  rw [instanceWF_iff]
  intro b hb pi hpi
  have hnc : c.config.numChallenges ≤ c.numZsPartialProductsPolys := by
    unfold CommonData.numZsPartialProductsPolys
    exact Nat.le_mul_of_pos_right _ (by omega)
  simp only [friInstance, List.mem_cons, List.not_mem_nil, or_false] at hb
  rcases hb with rfl | rfl
  · simp only [List.mem_append] at hpi
    rcases hpi with (((h | h) | h) | h) | h <;> have := polyRange_mem _ _ _ _ h
    · exact ⟨_, by rw [this.1]; rfl, this.2⟩
    · exact ⟨_, by rw [this.1]; rfl, this.2⟩
    · exact ⟨_, by rw [this.1]; rfl, by simp only []; omega⟩
    · exact ⟨_, by rw [this.1]; rfl, this.2⟩
    · exact ⟨_, by rw [this.1]; rfl, this.2⟩
  · simp only [List.mem_append] at hpi
    rcases hpi with h | h <;> have := polyRange_mem _ _ _ _ h
    · exact ⟨_, by rw [this.1]; rfl, by simp only []; omega⟩
    · exact ⟨_, by rw [this.1]; rfl, this.2⟩

theorem firstBad_accept (vs : List Verdict) (h : firstBad vs = .accept) : ∀ v ∈ vs, v = .accept := by
  induction vs with
  | nil => intro v hv; cases hv
  | cons v rest ih =>
    cases v with
    | accept =>
      simp only [firstBad] at h
      intro w hw
      rcases List.mem_cons.mp hw with rfl | hw
      · rfl
      · exact ih h w hw
    | reject t => simp [firstBad] at h
    | panic t => simp [firstBad] at h

open P2.Plonk in
theorem plonk_shape_caps (c : CommonData) (pp : ProofWithPis)
    (h : Plonk.validateShape c pp = .accept) :
    pp.proof.wiresCap.length = 2 ^ c.friParams.config.capHeight ∧
    pp.proof.zsPartialProductsCap.length = 2 ^ c.friParams.config.capHeight ∧
    pp.proof.quotientPolysCap.length = 2 ^ c.friParams.config.capHeight := by
  have hall := firstBad_accept _ h
  have hcap : ∀ cap, capCheck c.friParams.config.capHeight cap = .accept →
      cap.length = 2 ^ c.friParams.config.capHeight := by
    intro cap hc; unfold capCheck at hc; split at hc
    · assumption
    · cases hc
  refine ⟨hcap _ (hall _ ?_), hcap _ (hall _ ?_), hcap _ (hall _ ?_)⟩ <;>
    simp [shapeChecks]

end P2.Lemmas.FriShape
