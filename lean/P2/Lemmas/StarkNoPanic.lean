/-
Helper lemmas for C09 (h): panic-freedom of the STARK verifier after `recover_degree_bits`.
Core Lean only (through `P2.Props.C18b`).
-/
import P2.Props.C18b
import P2.Lemmas.Stark
import P2.Lemmas.StarkTranscript
namespace P2.Lemmas.StarkNoPanic
open P2 P2.Air P2.Stark P2.Lemmas.Stark P2.Lemmas.FriShape
open P2.Fri (Verdict firstBad)

/-! ### `fri_challenges` -/

theorem foldl_betas_length (caps : List (List Merkle.Digest)) (s : ChSt) (pre : List GL2) :
    (caps.foldl (fun (acc : ChSt × List GL2) cap =>
      let (s, b) := getExt (obs acc.1 (flattenCap cap)); (s, acc.2 ++ [b])) (s, pre)).2.length
      = pre.length + caps.length := by
  induction caps generalizing s pre with
  | nil => rfl
  | cons cap t ih => simp only [List.foldl_cons, ih, List.length_append, List.length_cons, List.length_nil]; omega

theorem friChallenges_betas_length (s : ChSt) (fp : Fri.Proof) (db : Nat) (cfg : Fri.FriConfig)
    (pad : Option PadParams) :
    (friChallenges s fp db cfg pad).betas.length = fp.commitCaps.length := by
  unfold friChallenges
  simp only [foldl_betas_length, List.length_nil, Nat.zero_add]

theorem friChallenges_queryIndices_lt (s : ChSt) (fp : Fri.Proof) (db : Nat) (cfg : Fri.FriConfig)
    (pad : Option PadParams) :
    ∀ xi ∈ (friChallenges s fp db cfg pad).queryIndices, xi < 2 ^ ((db + cfg.rateBits) % 64) := by
  intro xi hxi
  unfold friChallenges at hxi
  simp only [List.mem_map] at hxi
  obtain ⟨x, _, rfl⟩ := hxi
  exact Nat.mod_lt _ (Nat.two_pow_pos _)

/-! ### `fri_instance` -/

theorem polyRange_mem (o lo hi : Nat) (pi : Fri.PolyInfo) (h : pi ∈ polyRange o lo hi) :
    pi.oracle = o ∧ pi.poly < hi ∧ lo < hi := by
  unfold polyRange at h
  simp only [List.mem_map, List.mem_range] at h
  obtain ⟨i, hi', rfl⟩ := h
  exact ⟨rfl, by show lo + i < hi; omega, by omega⟩

def oraclesOf (a : Air) (c : Config) (nlc nh nz : Nat) : List Fri.OracleInfo :=
  [⟨a.cols, false⟩] ++ (if a.usesLookups || a.requiresCtls then [⟨nlc + nh + nz, false⟩] else []) ++
    (if numQuotientPolys a c > 0 then [⟨numQuotientPolys a c, false⟩] else [])

theorem or0 (a : Air) (c : Config) (nlc nh nz : Nat) :
    (oraclesOf a c nlc nh nz)[0]? = some ⟨a.cols, false⟩ := by simp [oraclesOf]

theorem or1 (a : Air) (c : Config) (nlc nh nz : Nat) (h : (a.usesLookups || a.requiresCtls) = true) :
    (oraclesOf a c nlc nh nz)[1]? = some ⟨nlc + nh + nz, false⟩ := by simp [oraclesOf, h]

theorem orQ (a : Air) (c : Config) (nlc nh nz : Nat) (hq : numQuotientPolys a c > 0) :
    (oraclesOf a c nlc nh nz)[if (a.usesLookups || a.requiresCtls) then 2 else 1]? =
      some ⟨numQuotientPolys a c, false⟩ := by
  unfold oraclesOf
  by_cases h : (a.usesLookups || a.requiresCtls) = true <;> simp [h, hq]

theorem friInstance_wf (a : Air) (c : Config) (zeta : GL2) (g : GL) (nlc nh nz : Nat) :
    InstanceWF (friInstance a c zeta g nlc nh nz) = true := by
  rw [instanceWF_iff]
  intro b hb pi hpi
  have hos : (friInstance a c zeta g nlc nh nz).oracles = oraclesOf a c nlc nh nz := rfl
  rw [hos]
  have htr : ∀ pi ∈ polyRange 0 0 a.cols,
      ∃ o, (oraclesOf a c nlc nh nz)[pi.oracle]? = some o ∧ pi.poly < o.numPolys := by
    intro pi h
    obtain ⟨e1, e2, _⟩ := polyRange_mem _ _ _ _ h
    exact ⟨_, by rw [e1]; exact or0 a c nlc nh nz, e2⟩
  have haux : ∀ lo, ∀ pi ∈ (if (a.usesLookups || a.requiresCtls) = true then polyRange 1 lo (nlc + nh + nz) else []),
      ∃ o, (oraclesOf a c nlc nh nz)[pi.oracle]? = some o ∧ pi.poly < o.numPolys := by
    intro lo pi h
    split at h
    · rename_i hA
      obtain ⟨e1, e2, _⟩ := polyRange_mem _ _ _ _ h
      exact ⟨_, by rw [e1]; exact or1 a c nlc nh nz hA, e2⟩
    · cases h
  have hqu : ∀ pi ∈ (if numQuotientPolys a c > 0 then
        polyRange (if (a.usesLookups || a.requiresCtls) = true then 2 else 1) 0 (numQuotientPolys a c) else []),
      ∃ o, (oraclesOf a c nlc nh nz)[pi.oracle]? = some o ∧ pi.poly < o.numPolys := by
    intro pi h
    split at h
    · rename_i hQ
      obtain ⟨e1, e2, _⟩ := polyRange_mem _ _ _ _ h
      exact ⟨_, by rw [e1]; exact orQ a c nlc nh nz hQ, e2⟩
    · cases h
  have hbs : (friInstance a c zeta g nlc nh nz).batches =
      [⟨zeta, polyRange 0 0 a.cols ++
          (if (a.usesLookups || a.requiresCtls) = true then polyRange 1 0 (nlc + nh + nz) else []) ++
          (if numQuotientPolys a c > 0 then
            polyRange (if (a.usesLookups || a.requiresCtls) = true then 2 else 1) 0 (numQuotientPolys a c) else [])⟩,
        ⟨GL2.scalarMul zeta g, polyRange 0 0 a.cols ++
          (if (a.usesLookups || a.requiresCtls) = true then polyRange 1 0 (nlc + nh + nz) else [])⟩] ++
      (if a.requiresCtls = true then [⟨FOps.one, polyRange 1 (nlc + nh) (nlc + nh + nz)⟩] else []) := rfl
  rw [hbs] at hb
  simp only [List.mem_append, List.mem_cons, List.not_mem_nil, or_false] at hb
  rcases hb with (rfl | rfl) | hb
  · simp only [List.mem_append] at hpi
    rcases hpi with (h | h) | h
    · exact htr pi h
    · exact haux 0 pi h
    · exact hqu pi h
  · simp only [List.mem_append] at hpi
    rcases hpi with h | h
    · exact htr pi h
    · exact haux 0 pi h
  · split at hb
    · rename_i hR
      simp only [List.mem_singleton] at hb
      subst hb
      apply haux (nlc + nh) pi
      simp only [hR, Bool.or_true, if_true]
      exact hpi
    · cases hb

/-! ### the consumer keeps one accumulator per α -/

def ConsInv {K : Type} (n : Nat) (s : Consumer K) : Prop := s.accs.length = n ∧ s.alphas.length = n

theorem constraint_inv {K : Type} [FOps K] (n : Nat) (s : Consumer K) (x : K) (h : ConsInv n s) :
    ConsInv n (s.constraint x) := by
  obtain ⟨h1, h2⟩ := h
  refine ⟨?_, h2⟩
  simp only [Consumer.constraint, List.length_map, List.length_zip, h1, h2, Nat.min_self]

theorem emit_inv {K : Type} [FOps K] (n : Nat) (s : Consumer K) (k : Kind) (x : K) (h : ConsInv n s) :
    ConsInv n (s.emit k x) := by
  cases k <;> exact constraint_inv n s _ h

theorem evalConstraints_inv {K : Type} [FOps K] (n : Nat) (a : Air) (lv nv pis : Array K) (s : Consumer K)
    (h : ConsInv n s) : ConsInv n (a.evalConstraints lv nv pis s) := by
  unfold Air.evalConstraints
  generalize a.constraints = cs
  induction cs generalizing s with
  | nil => exact h
  | cons ke t ih => exact ih _ (emit_inv n s ke.1 _ h)

theorem consumerAt_inv (alphas : List GL) (db : Nat) (x : GL2) (s : Consumer GL2)
    (h : consumerAt alphas db x = .ok s) : ConsInv alphas.length s := by
  unfold consumerAt at h
  cases he : evalL0LLast db x with
  | error e => simp [he, bind, Except.bind] at h
  | ok r =>
    obtain ⟨l0, ll, zl⟩ := r
    simp only [he, bind, Except.bind, pure, Except.pure, Except.ok.injEq] at h
    subst h
    exact ⟨by simp [Consumer.new], by simp [Consumer.new]⟩

/-! ### the verifier after `recover_degree_bits` -/

theorem numLookupHelperColumns_nil (a : Air) (c : Config) (h : a.lookups = []) :
    numLookupHelperColumns a c = some 0 := by
  simp [numLookupHelperColumns, h]

theorem friParams_fields (c : Config) (db : Nat) (fp : Fri.FriParams) (h : c.friParams db = some fp) :
    fp.config = c.fri ∧ fp.degreeBits = db := by
  unfold Config.friParams at h
  simp only [Option.map_eq_some_iff] at h
  obtain ⟨ab, _, rfl⟩ := h
  exact ⟨rfl, rfl⟩

theorem friCaps_lengths (a : Air) (c : Config) (pp : ProofWithPis) (db nh nz : Nat)
    (h : validateShape a c pp db nh nz = .accept) :
    ∀ cap ∈ friCaps pp.proof, cap.length = 2 ^ c.fri.capHeight := by
  obtain ⟨_, _, nlc, _, h1, _, h2, _, _, _, _, _, h3⟩ := (validateShape_accept_iff a c pp db nh nz).1 h
  intro cap hcap
  simp only [friCaps, List.mem_append, List.mem_cons, List.not_mem_nil, or_false, Option.mem_toList] at hcap
  rcases hcap with (rfl | hcap) | hcap
  · exact h1
  · unfold AuxOK at h3
    split at h3
    · obtain ⟨cap', _, _, e, _, _, hl, _⟩ := h3
      rw [e] at hcap; cases hcap; exact hl
    · rw [h3.1] at hcap; cases hcap
  · exact h2 cap hcap

theorem identityThenFri_no_panic (a : Air) (c : Config) (pp : ProofWithPis) (ch : Stark.Challenges)
    (vanishing : List GL2) (zpd zH : GL2) (nlc : Nat) (fp : Fri.FriParams) (db nh nz : Nat)
    (hs : validateShape a c pp db nh nz = .accept) (hfp : c.friParams db = some fp)
    (hvan : (quotientChunks a pp.proof.openings).length ≤ vanishing.length)
    (hbetas : ch.fri.betas.length = pp.proof.openingProof.commitCaps.length)
    (hidx : ∀ xi ∈ ch.fri.queryIndices, xi < 2 ^ (db + c.fri.rateBits)) (t : String) :
    verifyWithChallenges.identityThenFri a c pp ch vanishing zpd zH a.quotientDegreeFactor nlc fp db nh nz
      ≠ .panic t := by
  obtain ⟨hcfg, hdb⟩ := friParams_fields c db fp hfp
  unfold verifyWithChallenges.identityThenFri
  simp only []
  have hid : ∀ t, firstBad (((quotientChunks a pp.proof.openings).zipIdx).map fun (chunk, i) =>
      match vanishing[i]? with
      | none => Verdict.panic "vanishing_polys_zeta index"
      | some v => if v == zH * Fri.reduceExt chunk zpd then Verdict.accept else Verdict.reject "identity")
      ≠ .panic t := by
    intro t
    apply firstBad_ensure_no_panic
    intro v hv t'
    simp only [List.mem_map, Prod.exists, List.mem_zipIdx_iff_getElem?] at hv
    obtain ⟨chunk, i, hc, rfl⟩ := hv
    have hi : i < vanishing.length := by
      have := (List.getElem?_eq_some_iff.mp hc).1
      omega
    rw [List.getElem?_eq_getElem hi]
    simp only []
    split <;> simp
  split
  · simp only [friCommitCapsCountChecked, Bool.true_and]
    split
    · simp
    · split
      · simp
      · rename_i hle
        apply P2.Props.C18b.fri_verify_never_panics
        · rw [hdb]; omega
        · exact hbetas
        · intro xi hxi
          have := hidx xi hxi
          simpa [Fri.FriParams.ldeBits, hcfg, hdb] using this
        · intro cap hcap
          rw [hcfg]
          exact friCaps_lengths a c pp db nh nz hs cap hcap
        · exact friInstance_wf _ _ _ _ _ _ _
  · rename_i v hv
    intro hp
    exact hid t hp

theorem evalVanishingPoly_plain (a : Air) (lv nv : List GL2) (pis : List GL) (s : Consumer GL2) :
    evalVanishingPoly a lv nv pis none none s =
      some (a.evalConstraints lv.toArray nv.toArray (pis.map GL2.ofBase).toArray s).accs := rfl

theorem quotientDegreeFactor_pos (a : Air) (h : a.degree ≠ 0) : 0 < a.quotientDegreeFactor := by
  unfold Air.quotientDegreeFactor
  rw [if_neg h]; omega

theorem quotientChunks_length_le (a : Air) (c : Config) (pp : ProofWithPis) (db nh nz : Nat)
    (h : validateShape a c pp db nh nz = .accept) (hq : 0 < a.quotientDegreeFactor) :
    (quotientChunks a pp.proof.openings).length = c.numChallenges := by
  obtain ⟨_, _, _, _, _, _, _, _, _, _, _, h8, _⟩ := (validateShape_accept_iff a c pp db nh nz).1 h
  unfold quotientChunks
  cases hqp : pp.proof.openings.quotientPolys with
  | none =>
    simp only [hqp, Option.getD_none, List.length_nil, numQuotientPolys] at h8 ⊢
    rcases Nat.mul_eq_zero.mp h8.symm with h0 | h0
    · omega
    · exact h0.symm
  | some q =>
    simp only [hqp, Option.getD_some, numQuotientPolys] at h8 ⊢
    simp only [chunksOf, List.length_map, List.length_range, h8]
    rw [Nat.add_sub_assoc hq, Nat.mul_add_div hq]
    rw [Nat.div_eq_of_lt (show a.quotientDegreeFactor - Nat.succ 0 < a.quotientDegreeFactor by omega)]
    rfl

/-- **`verify_stark_proof_with_challenges` cannot panic** on an AIR without lookups and CTLs -/
theorem verifyWithChallenges_no_panic (a : Air) (c : Config) (pp : ProofWithPis) (ch : Stark.Challenges)
    (db : Nat) (fp : Fri.FriParams)
    (hl : a.lookups = []) (hctl : a.requiresCtls = false)
    (hdb : recoverDegreeBits pp.proof c = .ok db) (hfp : c.friParams db = some fp)
    (hcons : ∃ s, consumerAt ch.alphas db ch.zeta = .ok s)
    (hal : ch.alphas.length = c.numChallenges)
    (hbetas : ch.fri.betas.length = pp.proof.openingProof.commitCaps.length)
    (hidx : ∀ xi ∈ ch.fri.queryIndices, xi < 2 ^ (db + c.fri.rateBits)) (t : String) :
    verifyWithChallenges a c pp ch none ≠ .panic t := by
  obtain ⟨s, hs⟩ := hcons
  have hnl := numLookupHelperColumns_nil a c hl
  have hU : a.usesLookups = false := by simp [Air.usesLookups, hl]
  unfold verifyWithChallenges
  simp only [hdb]
  change (match validateShape a c pp db (ctlHelpersCount none) (ctlZsCount none) with
      | .accept => _ | v => v) ≠ _
  cases hsh : validateShape a c pp db (ctlHelpersCount none) (ctlZsCount none) with
  | reject e => simp
  | panic e =>
    have hv : validateShape a c pp db (ctlHelpersCount none) (ctlZsCount none) ≠ .panic e := by
      unfold validateShape
      simp only [hfp, hnl]
      split
      · simp
      · apply firstBad_ensure_no_panic
        intro v hv t'
        have he : ∀ b, ensure b ≠ .panic t' := fun b => by cases b <;> simp [ensure]
        simp only [List.mem_append, List.mem_cons, List.not_mem_nil, or_false] at hv
        rcases hv with (rfl | rfl | rfl | rfl | rfl | rfl) | hv
        · exact he _
        · split
          · simp only [quotientCapMustMatch, if_true]; exact he _
          · split
            · simp
            · exact he _
        · simp only [ctlZsFirstMustMatch, if_true]; exact he _
        · exact he _
        · exact he _
        · split <;> exact he _
        · unfold checkLookupOptions at hv
          simp only [hU, hctl, Bool.or_self, Bool.false_eq_true, if_false, List.mem_cons, List.not_mem_nil,
            or_false] at hv
          rcases hv with rfl | rfl | rfl <;> exact he _
    exact absurd hsh hv
  | accept =>
    simp only [frameCheck_of_shape a c pp db _ _ hsh, hs, hnl, hfp, hU, Bool.false_eq_true, if_false,
      evalVanishingPoly_plain]
    have hinv := evalConstraints_inv ch.alphas.length a pp.proof.openings.localValues.toArray
      pp.proof.openings.nextValues.toArray (pp.publicInputs.map GL2.ofBase).toArray s
      (consumerAt_inv ch.alphas db ch.zeta s hs)
    have hvan : (quotientChunks a pp.proof.openings).length ≤
        (a.evalConstraints pp.proof.openings.localValues.toArray pp.proof.openings.nextValues.toArray
          (pp.publicInputs.map GL2.ofBase).toArray s).accs.length := by
      cases hqp : pp.proof.openings.quotientPolys with
      | none => simp [quotientChunks, hqp]
      | some q =>
        have hz := qdf_ne_zero_of_shape a c pp db _ _ hsh (by rw [hqp]; rfl)
        rw [quotientChunks_length_le a c pp db _ _ hsh (Nat.pos_of_ne_zero hz), hinv.1, hal]
        exact Nat.le_refl _
    split
    · rename_i q hqp
      rw [if_neg (qdf_ne_zero_of_shape a c pp db _ _ hsh (by rw [hqp]; rfl))]
      exact identityThenFri_no_panic a c pp ch _ _ _ 0 fp db _ _ hsh hfp hvan hbetas hidx t
    · exact identityThenFri_no_panic a c pp ch _ _ _ 0 fp db _ _ hsh hfp hvan hbetas hidx t

/-! ### the challenges `get_challenges` returns have the right shapes -/

theorem getN_length (s : ChSt) (n : Nat) : (Stark.getN s n).2.length = n := by
  unfold Stark.getN Challenger.getN
  have : ∀ (l : List Nat) (s : ChSt) (pre : List GL),
      (l.foldl (fun (acc : ChSt × List GL) _ =>
        let (s', c) := Challenger.getChallenge Stark.perm acc.1; (s', acc.2 ++ [c])) (s, pre)).2.length
        = pre.length + l.length := by
    intro l
    induction l with
    | nil => intro s pre; rfl
    | cons x t ih => intro s pre; simp only [List.foldl_cons, ih, List.length_append, List.length_cons,
        List.length_nil]; omega
  rw [this]; simp

theorem getChallengesFrom_shapes (s : ChSt) (a : Air) (c : Config) (pp : ProofWithPis)
    (pad : Option PadParams) (shared : Option (List (GL × GL))) (ctlVars : Option (List CtlVars)) (ign : Bool)
    (ch : Stark.Challenges) (h : getChallengesFrom s a c pp pad shared ctlVars ign = .ok ch) :
    ∃ db, recoverDegreeBits pp.proof c = .ok db ∧ ch.alphas.length = c.numChallenges ∧
      ch.fri.betas.length = pp.proof.openingProof.commitCaps.length ∧
      ∀ xi ∈ ch.fri.queryIndices, xi < 2 ^ ((db + c.fri.rateBits) % 64) := by
  obtain ⟨db, ce, hdb, rfl⟩ := P2.Lemmas.StarkTranscript.getChallengesFrom_ok s a c pp pad shared ctlVars ign ch h
  refine ⟨db, hdb, ?_, ?_, ?_⟩
  · exact getN_length _ _
  · exact friChallenges_betas_length _ _ _ _ _
  · exact friChallenges_queryIndices_lt _ _ _ _ _

end P2.Lemmas.StarkNoPanic
