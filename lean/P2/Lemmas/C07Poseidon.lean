/-
C07, Poseidon gate: the row produced by `PoseidonGenerator` (`genPoseidon`) satisfies every
constraint of `PoseidonGate::eval_unfiltered` (`evalPoseidon`), provided the swap wire is boolean.
Works directly with the executable `instFOpsGL` instance.
-/
import P2.Lemmas.C07

set_option linter.unusedSectionVars false
set_option linter.unusedSimpArgs false
set_option linter.unusedVariables false
set_option linter.style.haveILetI false

namespace P2.Lemmas.C07
open P2 P2.Gates

namespace Pos

/-! ## field facts on `GL = Fin GLP` stated with the `Fin` operations (the ones the model uses) -/

theorem gl_sub_self (x : P2.GL) : x - x = 0 := by letI := glField; exact sub_self x
theorem gl_zero_mul (x : P2.GL) : 0 * x = 0 := by letI := glField; exact zero_mul x
theorem gl_one_mul (x : P2.GL) : 1 * x = x := by letI := glField; exact one_mul x
theorem gl_add_zero (x : P2.GL) : x + 0 = x := by letI := glField; exact add_zero x
theorem gl_sub_zero (x : P2.GL) : x - 0 = x := by letI := glField; exact sub_zero x
theorem gl_add_sub_cancel (a b : P2.GL) : a + (b - a) = b := by
  letI := glField; exact add_sub_cancel a b
theorem gl_sub_sub_cancel (a b : P2.GL) : a - (a - b) = b := by
  letI := glField; exact sub_sub_cancel a b
theorem gl_bool (s : P2.GL) (h : s = 0 ∨ s = 1) : s * (s - 1) = 0 := by
  rcases h with h | h
  · rw [h]; exact gl_zero_mul _
  · rw [h, gl_sub_self]; exact gl_one_mul _

abbrev PS := Array P2.GL × Array P2.GL

theorem hsw : spongeWidth = 12 := rfl

/-! ## all-zero constraint accumulators -/

def AllZero (cs : Array P2.GL) : Prop := ∀ c ∈ cs.toList, c = 0

theorem allZero_push {cs : Array P2.GL} {x : P2.GL} (h : AllZero cs) (hx : x = 0) :
    AllZero (cs.push x) := by
  intro c hc
  rw [Array.toList_push, List.mem_append, List.mem_singleton] at hc
  rcases hc with hc | hc
  · exact h c hc
  · rw [hc, hx]

theorem allZero_foldl_push (f : Nat → P2.GL) :
    ∀ (l : List Nat) (cs : Array P2.GL), (∀ i ∈ l, f i = 0) → AllZero cs →
      AllZero (l.foldl (fun cs i => cs.push (f i)) cs) := by
  intro l
  induction l with
  | nil => intro cs _ h; exact h
  | cons a l ih =>
    intro cs hf h
    rw [List.foldl_cons]
    exact ih _ (fun i hi => hf i (List.mem_cons_of_mem _ hi))
      (allZero_push h (hf a (List.mem_cons_self ..)))

/-! ## folds of writes to a contiguous block -/

theorem foldl_setRange (b : Nat) (val : Nat → P2.GL) (n : Nat) (ws : Array P2.GL) :
    ((List.range n).foldl (fun a i => a.set! (b + i) (val i)) ws).size = ws.size ∧
    ∀ k, ((List.range n).foldl (fun a i => a.set! (b + i) (val i)) ws)[k]! =
      if b ≤ k ∧ k < b + n ∧ k < ws.size then val (k - b) else ws[k]! := by
  induction n with
  | zero =>
    refine ⟨rfl, fun k => ?_⟩
    rw [if_neg (by omega)]; rfl
  | succ n ih =>
    obtain ⟨hs, hg⟩ := ih
    rw [List.range_succ, List.foldl_append]
    simp only [List.foldl_cons, List.foldl_nil]
    refine ⟨by rw [size_set!, hs], fun k => ?_⟩
    rw [getElem!_set!, hs, hg k]
    by_cases h1 : k = b + n
    · subst h1
      by_cases h2 : b + n < ws.size
      · rw [if_pos ⟨rfl, h2⟩, if_pos (by omega), Nat.add_sub_cancel_left]
      · rw [if_neg (by omega), if_neg (by omega), if_neg (by omega)]
    · rw [if_neg (by omega)]
      by_cases h3 : b ≤ k ∧ k < b + n ∧ k < ws.size
      · rw [if_pos h3, if_pos (by omega)]
      · rw [if_neg h3, if_neg (by omega)]

/-- the generator's `setRow` -/
def pSetRow (ws : Array P2.GL) (wire : Nat → Nat) (state : Array P2.GL) : Array P2.GL :=
  (List.range spongeWidth).foldl (fun ws i => ws.set! (wire i) state[i]!) ws

theorem pSetRow_spec (b : Nat) (wire : Nat → Nat) (hw : ∀ i, wire i = b + i)
    (ws st : Array P2.GL) :
    (pSetRow ws wire st).size = ws.size ∧
    ∀ k, (pSetRow ws wire st)[k]! =
      if b ≤ k ∧ k < b + 12 ∧ k < ws.size then st[k - b]! else ws[k]! := by
  have : wire = fun i => b + i := funext hw
  subst this
  exact foldl_setRange b (fun i => st[i]!) 12 ws

theorem map_range_get (f : Nat → P2.GL) (j : Nat) (hj : j < 12) :
    ((Array.range spongeWidth).map f)[j]! = f j := by
  have h : j < ((Array.range spongeWidth).map f).size := by
    rw [Array.size_map, Array.size_range]; exact hj
  rw [getElem!_pos ((Array.range spongeWidth).map f) j h, Array.getElem_map, Array.getElem_range]

theorem map_range_size (f : Nat → P2.GL) : ((Array.range spongeWidth).map f).size = 12 := by
  rw [Array.size_map, Array.size_range]; rfl

theorem map_range_eq (f : Nat → P2.GL) (st : Array P2.GL) (hs : st.size = 12)
    (hf : ∀ i, i < 12 → f i = st[i]!) : (Array.range spongeWidth).map f = st := by
  apply Array.ext
  · rw [map_range_size, hs]
  · intro i h1 h2
    rw [Array.getElem_map, Array.getElem_range, hf i (by omega), getElem!_pos st i h2]

theorem mdsLayer_size (s : Array P2.GL) : (mdsLayer s).size = 12 := map_range_size _
theorem mdsPartialLayerFast_size (s : Array P2.GL) (r : Nat) :
    (mdsPartialLayerFast s r).size = 12 := map_range_size _
theorem mdsPartialLayerInit_size (s : Array P2.GL) : (mdsPartialLayerInit s).size = 12 :=
  map_range_size _
theorem constantLayer_size (s : Array P2.GL) (r : Nat) : (constantLayer s r).size = s.size := by
  unfold constantLayer; exact Array.size_mapIdx

theorem posCheck_spec (st cs : Array P2.GL) (wire : Nat → P2.GL)
    (h : (Array.range spongeWidth).map wire = st) (hz : AllZero cs) :
    (posCheckSboxIn st cs wire).1 = st ∧ AllZero (posCheckSboxIn st cs wire).2 := by
  unfold posCheckSboxIn
  dsimp only
  rw [h]
  exact ⟨rfl, allZero_foldl_push (fun i => st[i]! - st[i]!) _ _ (fun i _ => gl_sub_self _) hz⟩

/-! ## the stages of generator and evaluator as named step functions -/

def gA (g : PS) (r : Nat) : PS :=
  let st := constantLayer g.1 r
  (mdsLayer (sboxLayer st), if r ≠ 0 then pSetRow g.2 (posWireFullSbox0 r) st else g.2)
def eA (w : Nat → P2.GL) (e : PS) (r : Nat) : PS :=
  let st := constantLayer e.1 r
  let p := if r ≠ 0 then posCheckSboxIn st e.2 (fun i => w (posWireFullSbox0 r i)) else (st, e.2)
  (mdsLayer (sboxLayer p.1), p.2)
def gB (g : PS) (r : Nat) : PS :=
  (mdsPartialLayerFast (g.1.set! 0 (sboxMonomial g.1[0]! + kOf fastPartialRoundConstants[r]!)) r,
   g.2.set! (posWirePartialSbox r) g.1[0]!)
def eB (w : Nat → P2.GL) (e : PS) (r : Nat) : PS :=
  (mdsPartialLayerFast (e.1.set! 0 (sboxMonomial (w (posWirePartialSbox r)) +
      kOf fastPartialRoundConstants[r]!)) r,
   e.2.push (e.1[0]! - w (posWirePartialSbox r)))
def gB' (g : PS) : PS :=
  (mdsPartialLayerFast (g.1.set! 0 (sboxMonomial g.1[0]!)) (nPartialRounds - 1),
   g.2.set! (posWirePartialSbox (nPartialRounds - 1)) g.1[0]!)
def eB' (w : Nat → P2.GL) (e : PS) : PS :=
  (mdsPartialLayerFast (e.1.set! 0 (sboxMonomial (w (posWirePartialSbox (nPartialRounds - 1)))))
      (nPartialRounds - 1),
   e.2.push (e.1[0]! - w (posWirePartialSbox (nPartialRounds - 1))))
def gC (g : PS) (r : Nat) : PS :=
  let st := constantLayer g.1 (halfNFullRounds + nPartialRounds + r)
  (mdsLayer (sboxLayer st), pSetRow g.2 (posWireFullSbox1 r) st)
def eC (w : Nat → P2.GL) (e : PS) (r : Nat) : PS :=
  let st := constantLayer e.1 (halfNFullRounds + nPartialRounds + r)
  let p := posCheckSboxIn st e.2 (fun i => w (posWireFullSbox1 r i))
  (mdsLayer (sboxLayer p.1), p.2)
def pInit (g : PS) : PS := (mdsPartialLayerInit (partialFirstConstantLayer g.1), g.2)

def pInputs (ws : Array P2.GL) : Array P2.GL :=
  (Array.range spongeWidth).map fun i => ws[posWireInput i]!
def gDelta (ws : Array P2.GL) : Array P2.GL :=
  (List.range 4).foldl (fun a i =>
    a.set! (posWireDelta i) (ws[posWireSwap]! * ((pInputs ws)[i + 4]! - (pInputs ws)[i]!))) ws
def gState0 (ws : Array P2.GL) : Array P2.GL :=
  let inputs : Array P2.GL := pInputs ws
  if ws[posWireSwap]! = 1 then (Array.range spongeWidth).map fun i =>
      if i < 4 then inputs[i + 4]! else if i < 8 then inputs[i - 4]! else inputs[i]!
    else inputs
def eDelta (w : Nat → P2.GL) : Array P2.GL :=
  (List.range 4).foldl (fun cs i =>
    cs.push (w posWireSwap * (w (posWireInput (i + 4)) - w (posWireInput i)) - w (posWireDelta i)))
    #[w posWireSwap * (w posWireSwap - FOps.one)]
def eState0 (w : Nat → P2.GL) : Array P2.GL :=
  (Array.range spongeWidth).map fun i =>
    if i < 4 then w (posWireInput i) + w (posWireDelta i)
    else if i < 8 then w (posWireInput i) - w (posWireDelta (i - 4))
    else w (posWireInput i)
def eOut (w : Nat → P2.GL) (e : PS) : Array P2.GL :=
  (List.range spongeWidth).foldl (fun cs i => cs.push (e.1[i]! - w (posWireOutput i))) e.2

def G1 (ws : Array P2.GL) : PS := (List.range halfNFullRounds).foldl gA (gState0 ws, gDelta ws)
def G2 (ws : Array P2.GL) : PS := pInit (G1 ws)
def G3 (ws : Array P2.GL) : PS := (List.range (nPartialRounds - 1)).foldl gB (G2 ws)
def G4 (ws : Array P2.GL) : PS := gB' (G3 ws)
def G5 (ws : Array P2.GL) : PS := (List.range halfNFullRounds).foldl gC (G4 ws)
def GW (ws : Array P2.GL) : Array P2.GL := pSetRow (G5 ws).2 posWireOutput (G5 ws).1

def E1 (w : Nat → P2.GL) : PS := (List.range halfNFullRounds).foldl (eA w) (eState0 w, eDelta w)
def E2 (w : Nat → P2.GL) : PS := pInit (E1 w)
def E3 (w : Nat → P2.GL) : PS := (List.range (nPartialRounds - 1)).foldl (eB w) (E2 w)
def E4 (w : Nat → P2.GL) : PS := eB' w (E3 w)
def E5 (w : Nat → P2.GL) : PS := (List.range halfNFullRounds).foldl (eC w) (E4 w)
def EO (w : Nat → P2.GL) : Array P2.GL := eOut w (E5 w)

/-- `genPoseidon` is the staged generator -/
theorem gen_restate (ws : Array P2.GL) : genPoseidon ws = GW ws := by
  unfold genPoseidon GW G5 G4 gB' G3 G2 pInit G1 gA gB gC gState0 gDelta pInputs pSetRow
  dsimp only

/-- `evalPoseidon` is the staged evaluator -/
theorem eval_restate (v : EvalVars P2.GL) :
    GateKind.poseidon.evalUnfiltered v = (EO (fun i => v.wires[i]!)).toList := by
  show evalPoseidon v = _
  unfold evalPoseidon EO eOut E5 E4 eB' E3 E2 pInit E1 eA eB eC eState0 eDelta posSwappedInputs
  dsimp only [EvalVars.w]


/-! ## generic lockstep of a generator fold and an evaluator fold -/

section Lock
variable (w : Nat → P2.GL) (gstep : PS → Nat → PS) (estep : PS → Nat → PS) (lo hi : Nat → Nat)
  (R : Nat)

theorem gfold_frame
    (gsize : ∀ g r, (gstep g r).2.size = g.2.size)
    (gframe : ∀ g r k, (k < lo r ∨ hi r ≤ k) → (gstep g r).2[k]! = g.2[k]!) :
    ∀ n a (g : PS), ((List.range' a n).foldl gstep g).2.size = g.2.size ∧
      ∀ k, (∀ r, a ≤ r → r < a + n → k < lo r ∨ hi r ≤ k) →
        ((List.range' a n).foldl gstep g).2[k]! = g.2[k]! := by
  intro n
  induction n with
  | zero => intro a g; exact ⟨rfl, fun k _ => rfl⟩
  | succ n ih =>
    intro a g
    rw [List.range'_succ, List.foldl_cons]
    obtain ⟨h1, h2⟩ := ih (a + 1) (gstep g a)
    refine ⟨by rw [h1, gsize], fun k hk => ?_⟩
    rw [h2 k (fun r hr1 hr2 => hk r (by omega) (by omega)),
      gframe g a k (hk a (by omega) (by omega))]

theorem lockstep
    (hmono : ∀ r r', r < r' → hi r ≤ lo r')
    (gsize : ∀ g r, (gstep g r).2.size = g.2.size)
    (gframe : ∀ g r k, (k < lo r ∨ hi r ≤ k) → (gstep g r).2[k]! = g.2[k]!)
    (hstep : ∀ (e g : PS) r, r < R → e.1 = g.1 → g.1.size = 12 → 135 ≤ g.2.size → AllZero e.2 →
      (∀ k, lo r ≤ k → k < hi r → w k = (gstep g r).2[k]!) →
      (estep e r).1 = (gstep g r).1 ∧ (gstep g r).1.size = 12 ∧ AllZero (estep e r).2) :
    ∀ n a (e g : PS), a + n ≤ R → e.1 = g.1 → g.1.size = 12 → 135 ≤ g.2.size → AllZero e.2 →
      (∀ r, a ≤ r → r < a + n → ∀ k, lo r ≤ k → k < hi r →
        w k = ((List.range' a n).foldl gstep g).2[k]!) →
      ((List.range' a n).foldl estep e).1 = ((List.range' a n).foldl gstep g).1 ∧
      ((List.range' a n).foldl gstep g).1.size = 12 ∧
      AllZero ((List.range' a n).foldl estep e).2 := by
  intro n
  induction n with
  | zero => intro a e g _ h1 h2 _ h4 _; exact ⟨h1, h2, h4⟩
  | succ n ih =>
    intro a e g hR h1 h2 h3 h4 hw
    rw [List.range'_succ, List.foldl_cons] at hw
    rw [List.range'_succ, List.foldl_cons, List.foldl_cons]
    obtain ⟨f1, f2⟩ := gfold_frame gstep lo hi gsize gframe n (a + 1) (gstep g a)
    obtain ⟨s1, s2, s3⟩ := hstep e g a (by omega) h1 h2 h3 h4 (fun k hk1 hk2 => by
      rw [hw a (by omega) (by omega) k hk1 hk2,
        f2 k (fun r hr1 hr2 => Or.inl (Nat.lt_of_lt_of_le hk2 (hmono a r (by omega))))])
    exact ih (a + 1) _ _ (by omega) s1 s2 (by rw [gsize]; exact h3) s3
      (fun r hr1 hr2 => hw r (by omega) (by omega))

end Lock

/-! ## the three round loops -/

def loA (r : Nat) : Nat := 29 + 12 * (r - 1)
def hiA (r : Nat) : Nat := 29 + 12 * r
def loB (r : Nat) : Nat := 65 + r
def hiB (r : Nat) : Nat := 66 + r
def loC (r : Nat) : Nat := 87 + 12 * r
def hiC (r : Nat) : Nat := 99 + 12 * r

theorem gA_size (g : PS) (r : Nat) : (gA g r).2.size = g.2.size := by
  unfold gA; dsimp only
  by_cases h : r ≠ 0
  · rw [if_pos h]; exact (pSetRow_spec (29 + 12 * (r - 1)) (posWireFullSbox0 r) (fun i => rfl) _ _).1
  · rw [if_neg h]

theorem gA_frame (g : PS) (r k : Nat) (hk : k < loA r ∨ hiA r ≤ k) :
    (gA g r).2[k]! = g.2[k]! := by
  unfold gA; dsimp only
  unfold loA hiA at hk
  by_cases h : r ≠ 0
  · rw [if_pos h, (pSetRow_spec (29 + 12 * (r - 1)) (posWireFullSbox0 r) (fun i => rfl) _ _).2 k, if_neg (by omega)]
  · rw [if_neg h]

theorem gB_size (g : PS) (r : Nat) : (gB g r).2.size = g.2.size := by
  unfold gB; dsimp only; rw [size_set!]

theorem gB_frame (g : PS) (r k : Nat) (hk : k < loB r ∨ hiB r ≤ k) :
    (gB g r).2[k]! = g.2[k]! := by
  unfold gB; dsimp only
  unfold loB hiB at hk
  exact getElem!_set!_ne _ _ _ _ (by show k ≠ 65 + r; omega)

theorem gC_size (g : PS) (r : Nat) : (gC g r).2.size = g.2.size := by
  unfold gC; dsimp only
  exact (pSetRow_spec (87 + 12 * r) (posWireFullSbox1 r) (fun i => rfl) _ _).1

theorem gC_frame (g : PS) (r k : Nat) (hk : k < loC r ∨ hiC r ≤ k) :
    (gC g r).2[k]! = g.2[k]! := by
  unfold gC; dsimp only
  unfold loC hiC at hk
  rw [(pSetRow_spec (87 + 12 * r) (posWireFullSbox1 r) (fun i => rfl) _ _).2 k, if_neg (by omega)]

theorem stepA (w : Nat → P2.GL) (e g : PS) (r : Nat) (hr : r < 4) (h1 : e.1 = g.1)
    (h2 : g.1.size = 12) (h3 : 135 ≤ g.2.size) (h4 : AllZero e.2)
    (hw : ∀ k, loA r ≤ k → k < hiA r → w k = (gA g r).2[k]!) :
    (eA w e r).1 = (gA g r).1 ∧ (gA g r).1.size = 12 ∧ AllZero (eA w e r).2 := by
  obtain ⟨e1, e2⟩ := e; obtain ⟨g1, g2⟩ := g
  dsimp only at h1 h2 h3 h4; subst h1
  unfold gA eA at *; dsimp only at *
  unfold loA hiA at hw
  by_cases h : r ≠ 0
  · rw [if_pos h] at hw ⊢
    have key : (Array.range spongeWidth).map (fun i => w (posWireFullSbox0 r i)) =
        constantLayer e1 r := by
      apply map_range_eq _ _ (by rw [constantLayer_size, h2])
      intro i hi
      show w (29 + 12 * (r - 1) + i) = _
      rw [hw _ (by omega) (by omega),
        (pSetRow_spec (29 + 12 * (r - 1)) (posWireFullSbox0 r) (fun i => rfl) _ _).2, if_pos (by omega),
        Nat.add_sub_cancel_left]
    obtain ⟨p1, p2⟩ := posCheck_spec _ _ _ key h4
    rw [p1]
    exact ⟨rfl, mdsLayer_size _, p2⟩
  · rw [if_neg h]
    exact ⟨rfl, mdsLayer_size _, h4⟩

theorem stepB (w : Nat → P2.GL) (e g : PS) (r : Nat) (hr : r < 21) (h1 : e.1 = g.1)
    (h2 : g.1.size = 12) (h3 : 135 ≤ g.2.size) (h4 : AllZero e.2)
    (hw : ∀ k, loB r ≤ k → k < hiB r → w k = (gB g r).2[k]!) :
    (eB w e r).1 = (gB g r).1 ∧ (gB g r).1.size = 12 ∧ AllZero (eB w e r).2 := by
  unfold loB hiB at hw
  have hwr : w (posWirePartialSbox r) = g.1[0]! := by
    show w (65 + r) = _
    rw [hw _ (by omega) (by omega)]
    unfold gB; dsimp only
    exact getElem!_set!_self _ _ _ (by show 65 + r < _; omega)
  unfold gB eB; dsimp only
  rw [hwr, h1]
  exact ⟨rfl, mdsPartialLayerFast_size _ _, allZero_push h4 (gl_sub_self _)⟩

theorem stepB' (w : Nat → P2.GL) (e g : PS) (h1 : e.1 = g.1)
    (h3 : 135 ≤ g.2.size) (h4 : AllZero e.2)
    (hw : w 86 = (gB' g).2[86]!) :
    (eB' w e).1 = (gB' g).1 ∧ (gB' g).1.size = 12 ∧ AllZero (eB' w e).2 := by
  have hwr : w (posWirePartialSbox (nPartialRounds - 1)) = g.1[0]! := by
    show w 86 = _
    rw [hw]
    unfold gB'; dsimp only
    exact getElem!_set!_self _ _ _ (by show 86 < _; omega)
  unfold gB' eB'; dsimp only
  rw [hwr, h1]
  exact ⟨rfl, mdsPartialLayerFast_size _ _, allZero_push h4 (gl_sub_self _)⟩

theorem stepC (w : Nat → P2.GL) (e g : PS) (r : Nat) (hr : r < 4) (h1 : e.1 = g.1)
    (h2 : g.1.size = 12) (h3 : 135 ≤ g.2.size) (h4 : AllZero e.2)
    (hw : ∀ k, loC r ≤ k → k < hiC r → w k = (gC g r).2[k]!) :
    (eC w e r).1 = (gC g r).1 ∧ (gC g r).1.size = 12 ∧ AllZero (eC w e r).2 := by
  obtain ⟨e1, e2⟩ := e; obtain ⟨g1, g2⟩ := g
  dsimp only at h1 h2 h3 h4; subst h1
  unfold gC eC at *; dsimp only at *
  unfold loC hiC at hw
  have key : (Array.range spongeWidth).map (fun i => w (posWireFullSbox1 r i)) =
      constantLayer e1 (halfNFullRounds + nPartialRounds + r) := by
    apply map_range_eq _ _ (by rw [constantLayer_size, h2])
    intro i hi
    show w (87 + 12 * r + i) = _
    rw [hw _ (by omega) (by omega),
      (pSetRow_spec (87 + 12 * r) (posWireFullSbox1 r) (fun i => rfl) _ _).2, if_pos (by omega),
      Nat.add_sub_cancel_left]
  obtain ⟨p1, p2⟩ := posCheck_spec _ _ _ key h4
  rw [p1]
  exact ⟨rfl, mdsLayer_size _, p2⟩


/-! ## the input/delta stage -/

theorem range4 : List.range halfNFullRounds = List.range' 0 4 := rfl
theorem range21 : List.range (nPartialRounds - 1) = List.range' 0 21 := rfl

theorem gDelta_spec (ws : Array P2.GL) :
    (gDelta ws).size = ws.size ∧ ∀ k, (gDelta ws)[k]! =
      if 25 ≤ k ∧ k < 25 + 4 ∧ k < ws.size then
        ws[24]! * ((pInputs ws)[k - 25 + 4]! - (pInputs ws)[k - 25]!) else ws[k]! :=
  foldl_setRange 25 (fun i => ws[24]! * ((pInputs ws)[i + 4]! - (pInputs ws)[i]!)) 4 ws

theorem pInputs_get (ws : Array P2.GL) (j : Nat) (hj : j < 12) : (pInputs ws)[j]! = ws[j]! :=
  map_range_get _ j hj

theorem gl_zero_ne_one : ¬ ((0 : P2.GL) = 1) := by decide

theorem state0_eq (w : Nat → P2.GL) (ws : Array P2.GL) (hswap : ws[24]! = 0 ∨ ws[24]! = 1)
    (hin : ∀ j, j < 12 → w j = ws[j]!)
    (hd : ∀ i, i < 4 → w (25 + i) = ws[24]! * (ws[i + 4]! - ws[i]!)) :
    eState0 w = gState0 ws ∧ (gState0 ws).size = 12 := by
  have hsz : (gState0 ws).size = 12 := by
    unfold gState0 pInputs; dsimp only
    split <;> exact map_range_size _
  refine ⟨?_, hsz⟩
  unfold eState0
  apply map_range_eq _ _ hsz
  intro i hi
  show (if i < 4 then w i + w (25 + i) else if i < 8 then w i - w (25 + (i - 4)) else w i) = _
  unfold gState0; dsimp only
  rw [show posWireSwap = 24 from rfl]
  rcases hswap with h0 | h1
  · rw [if_neg (show ¬ ws[24]! = 1 by rw [h0]; exact gl_zero_ne_one), pInputs_get ws i hi]
    by_cases c1 : i < 4
    · rw [if_pos c1, hd i c1, h0, gl_zero_mul, gl_add_zero, hin i hi]
    · rw [if_neg c1]
      by_cases c2 : i < 8
      · rw [if_pos c2, hd (i - 4) (by omega), h0, gl_zero_mul, gl_sub_zero, hin i hi]
      · rw [if_neg c2, hin i hi]
  · rw [if_pos h1, map_range_get _ i hi]
    by_cases c1 : i < 4
    · rw [if_pos c1, if_pos c1, hd i c1, h1, gl_one_mul, hin i hi, gl_add_sub_cancel,
        pInputs_get ws (i + 4) (by omega)]
    · rw [if_neg c1, if_neg c1]
      by_cases c2 : i < 8
      · rw [if_pos c2, if_pos c2, hd (i - 4) (by omega), h1, gl_one_mul,
          Nat.sub_add_cancel (by omega : 4 ≤ i), hin i hi, gl_sub_sub_cancel,
          pInputs_get ws (i - 4) (by omega)]
      · rw [if_neg c2, if_neg c2, hin i hi, pInputs_get ws i hi]

theorem eDelta_zero (w : Nat → P2.GL) (ws : Array P2.GL) (hswap : ws[24]! = 0 ∨ ws[24]! = 1)
    (h24 : w 24 = ws[24]!) (hin : ∀ j, j < 12 → w j = ws[j]!)
    (hd : ∀ i, i < 4 → w (25 + i) = ws[24]! * (ws[i + 4]! - ws[i]!)) : AllZero (eDelta w) := by
  unfold eDelta
  apply allZero_foldl_push (fun i =>
    w posWireSwap * (w (posWireInput (i + 4)) - w (posWireInput i)) - w (posWireDelta i))
  · intro i hi
    have hi4 : i < 4 := List.mem_range.1 hi
    show w 24 * (w (i + 4) - w i) - w (25 + i) = 0
    rw [hd i hi4, h24, hin i (by omega), hin (i + 4) (by omega)]
    exact gl_sub_self _
  · intro c hc
    have hc' : c = w 24 * (w 24 - 1) := List.mem_singleton.1 hc
    rw [hc', h24]
    exact gl_bool _ hswap

/-! ## assembly -/

theorem pInit_snd (g : PS) : (pInit g).2 = g.2 := by cases g; rfl
theorem pInit_fst (g : PS) :
    (pInit g).1 = mdsPartialLayerInit (partialFirstConstantLayer g.1) := by cases g; rfl

set_option maxHeartbeats 400000 in
theorem poseidon_core (ws : Array P2.GL) (hsz : 135 ≤ ws.size)
    (hswap : ws[24]! = 0 ∨ ws[24]! = 1) : AllZero (EO (fun i => (GW ws)[i]!)) := by
  obtain ⟨dS, dG⟩ := gDelta_spec ws
  have eG1 : G1 ws = (List.range' 0 4).foldl gA (gState0 ws, gDelta ws) := by
    unfold G1; rw [range4]
  have eG3 : G3 ws = (List.range' 0 21).foldl gB (G2 ws) := by unfold G3; rw [range21]
  have eG5 : G5 ws = (List.range' 0 4).foldl gC (G4 ws) := by unfold G5; rw [range4]
  have fA := gfold_frame gA loA hiA gA_size gA_frame 4 0 (gState0 ws, gDelta ws)
  have fB := gfold_frame gB loB hiB gB_size gB_frame 21 0 (G2 ws)
  have fC := gfold_frame gC loC hiC gC_size gC_frame 4 0 (G4 ws)
  rw [← eG1] at fA
  rw [← eG3] at fB
  rw [← eG5] at fC
  have hW := pSetRow_spec 12 posWireOutput (fun i => rfl) (G5 ws).2 (G5 ws).1
  have s1 : (G1 ws).2.size = ws.size := fA.1.trans dS
  have g2snd : (G2 ws).2 = (G1 ws).2 := pInit_snd (G1 ws)
  have s2 : (G2 ws).2.size = ws.size := by rw [g2snd]; exact s1
  have s3 : (G3 ws).2.size = ws.size := fB.1.trans s2
  have s4 : (G4 ws).2.size = ws.size := by
    unfold G4 gB'; dsimp only; rw [size_set!]; exact s3
  have s5 : (G5 ws).2.size = ws.size := fC.1.trans s4
  have hwk : ∀ k : Nat, (fun i : Nat => (GW ws)[i]!) k = (GW ws)[k]! := fun k => rfl
  generalize (fun i : Nat => (GW ws)[i]!) = w at hwk ⊢
  have hw5 : ∀ k, (k < 12 ∨ 24 ≤ k) → w k = (G5 ws).2[k]! := fun k hk => by
    rw [hwk]; unfold GW; rw [hW.2 k, if_neg (by omega)]
  have hw4 : ∀ k, (k < 12 ∨ 24 ≤ k) → k < 87 → w k = (G4 ws).2[k]! := fun k hk hk2 =>
    (hw5 k hk).trans (fC.2 k (fun r _ _ => Or.inl (by unfold loC; omega)))
  have hw3 : ∀ k, (k < 12 ∨ 24 ≤ k) → k < 86 → w k = (G3 ws).2[k]! := fun k hk hk2 =>
    (hw4 k hk (by omega)).trans (by
      unfold G4 gB'; dsimp only
      exact getElem!_set!_ne _ _ _ _ (by show k ≠ 86; omega))
  have hw1 : ∀ k, (k < 12 ∨ 24 ≤ k) → k < 65 → w k = (G1 ws).2[k]! := fun k hk hk2 =>
    (hw3 k hk (by omega)).trans
      ((fB.2 k (fun r _ _ => Or.inl (by unfold loB; omega))).trans (by rw [g2snd]))
  have hw0 : ∀ k, (k < 12 ∨ 24 ≤ k) → k < 29 → w k = (gDelta ws)[k]! := fun k hk hk2 =>
    (hw1 k hk (by omega)).trans (fA.2 k (fun r _ _ => Or.inl (by unfold loA; omega)))
  have hin : ∀ j, j < 12 → w j = ws[j]! := fun j hj =>
    (hw0 j (Or.inl hj) (by omega)).trans (by rw [dG j, if_neg (by omega)])
  have h24 : w 24 = ws[24]! :=
    (hw0 24 (Or.inr (by omega)) (by omega)).trans (by rw [dG 24, if_neg (by omega)])
  have hd : ∀ i, i < 4 → w (25 + i) = ws[24]! * (ws[i + 4]! - ws[i]!) := fun i hi =>
    (hw0 (25 + i) (Or.inr (by omega)) (by omega)).trans (by
      rw [dG (25 + i), if_pos (by omega), Nat.add_sub_cancel_left,
        pInputs_get ws (i + 4) (by omega), pInputs_get ws i (by omega)])
  obtain ⟨st0, st0s⟩ := state0_eq w ws hswap hin hd
  -- first full rounds
  have eE1 : E1 w = (List.range' 0 4).foldl (eA w) (eState0 w, eDelta w) := by
    unfold E1; rw [range4]
  have L1 := lockstep w gA (eA w) loA hiA 4 (fun r r' h => by unfold hiA loA; omega)
    gA_size gA_frame (stepA w) 4 0 (eState0 w, eDelta w) (gState0 ws, gDelta ws) (by omega)
    st0 st0s (by show 135 ≤ (gDelta ws).size; omega) (eDelta_zero w ws hswap h24 hin hd)
    (fun r _ hr k h1 h2 => by
      unfold loA at h1; unfold hiA at h2
      rw [← eG1]; exact hw1 k (Or.inr (by omega)) (by omega))
  rw [← eE1, ← eG1] at L1
  obtain ⟨a1, a2, a3⟩ := L1
  -- partial rounds
  have b1 : (E2 w).1 = (G2 ws).1 := by
    show (pInit (E1 w)).1 = (pInit (G1 ws)).1
    rw [pInit_fst, pInit_fst, a1]
  have b2 : (G2 ws).1.size = 12 := by
    show (pInit (G1 ws)).1.size = 12
    rw [pInit_fst]; exact mdsPartialLayerInit_size _
  have b4 : AllZero (E2 w).2 := by
    have : (E2 w).2 = (E1 w).2 := pInit_snd (E1 w)
    rw [this]; exact a3
  have eE3 : E3 w = (List.range' 0 21).foldl (eB w) (E2 w) := by unfold E3; rw [range21]
  have L3 := lockstep w gB (eB w) loB hiB 21 (fun r r' h => by unfold hiB loB; omega)
    gB_size gB_frame (stepB w) 21 0 (E2 w) (G2 ws) (by omega) b1 b2 (by omega) b4
    (fun r _ hr k h1 h2 => by
      unfold loB at h1; unfold hiB at h2
      rw [← eG3]; exact hw3 k (Or.inr (by omega)) (by omega))
  rw [← eE3, ← eG3] at L3
  obtain ⟨c1, c2, c3⟩ := L3
  obtain ⟨d1, d2, d3⟩ := stepB' w (E3 w) (G3 ws) c1 (by omega) c3
    (hw4 86 (Or.inr (by omega)) (by omega))
  -- second full rounds
  have eE5 : E5 w = (List.range' 0 4).foldl (eC w) (E4 w) := by unfold E5; rw [range4]
  have L5 := lockstep w gC (eC w) loC hiC 4 (fun r r' h => by unfold hiC loC; omega)
    gC_size gC_frame (stepC w) 4 0 (E4 w) (G4 ws) (by omega) d1 d2 (by omega) d3
    (fun r _ hr k h1 h2 => by
      unfold loC at h1
      rw [← eG5]; exact hw5 k (Or.inr (by omega)))
  rw [← eE5, ← eG5] at L5
  obtain ⟨f1, f2, f3⟩ := L5
  -- outputs
  unfold EO eOut
  apply allZero_foldl_push (fun i => (E5 w).1[i]! - w (posWireOutput i)) _ _ _ f3
  intro i hi
  have hi12 : i < 12 := List.mem_range.1 hi
  show (E5 w).1[i]! - w (12 + i) = 0
  rw [hwk (12 + i)]
  unfold GW
  rw [hW.2 (12 + i), if_pos (by omega), Nat.add_sub_cancel_left, f1]
  exact gl_sub_self _

theorem size_pad135 (wires : Array P2.GL) :
    135 ≤ (wires ++ Array.replicate (135 - wires.size) (0 : P2.GL)).size := by
  rw [Array.size_append, Array.size_replicate]; omega

end Pos

open Pos in
/-- `PoseidonGenerator::run_once` produces a row satisfying every `PoseidonGate` constraint,
provided the swap wire is boolean (the gate's contract) -/
theorem poseidon_generate_sat (consts wires pih : Array P2.GL)
    (hswap : let ws := wires ++ Array.replicate (GateKind.poseidon.numWires - wires.size) 0
      ws[posWireSwap]! = 0 ∨ ws[posWireSwap]! = 1) :
    ∀ c ∈ GateKind.poseidon.evalUnfiltered
      (⟨consts, GateKind.poseidon.generate consts wires, pih⟩ : EvalVars P2.GL), c = 0 := by
  have hgen : GateKind.poseidon.generate consts wires =
      genPoseidon (wires ++ Array.replicate (135 - wires.size) (0 : P2.GL)) := rfl
  rw [eval_restate]
  dsimp only
  rw [hgen, gen_restate]
  exact poseidon_core _ (size_pad135 wires) hswap

section Final
attribute [local instance] glField

/-- the same statement with the numerals `0`, `1` elaborated through the `glField` instance and the
row given as `genRow` (the form used by the other phase-2 theorems) -/
theorem poseidon_generate_sat_field (consts wires pih : Array P2.GL)
    (hswap : let ws := wires ++ Array.replicate (GateKind.poseidon.numWires - wires.size) 0
      ws[posWireSwap]! = 0 ∨ ws[posWireSwap]! = 1) :
    ∀ c ∈ GateKind.poseidon.evalUnfiltered (genRow .poseidon consts wires pih), c = 0 :=
  poseidon_generate_sat consts wires pih hswap

end Final

end P2.Lemmas.C07
