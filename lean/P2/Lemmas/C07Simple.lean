/-
C07 helpers: constant, public-input, arithmetic-extension and multiplication-extension gates over a
Mathlib field: closed forms of the constraints, satisfaction ↔ generator equations, pinning.
-/
import P2.Lemmas.C07
set_option linter.unusedSectionVars false
set_option linter.unusedSimpArgs false
namespace P2.Lemmas.C07
open P2 P2.Gates
section
variable {K : Type} [Field K] [DecidableEq K] [Inhabited K]

/-! ## lists of algebra components -/

theorem getD_flatMap_comps (n : Nat) (A : Nat → Alg K) (i : Nat) :
    (((List.range n).flatMap fun i => (A i).comps).getD (2 * i) 0
        = if i < n then (A i).1 else 0) ∧
    (((List.range n).flatMap fun i => (A i).comps).getD (2 * i + 1) 0
        = if i < n then (A i).2 else 0) := by
  have hf : ∀ i, ((fun i => (A i).comps) i).length = 2 := fun _ => rfl
  by_cases h : i < n
  · rw [List.getD_eq_getElem?_getD, List.getD_eq_getElem?_getD]
    have h0 := getElem?_flatMap_range n 2 (fun i => (A i).comps) hf i 0 h (by omega)
    have h1 := getElem?_flatMap_range n 2 (fun i => (A i).comps) hf i 1 h (by omega)
    rw [Nat.add_zero] at h0
    rw [h0, h1, if_pos h, if_pos h]
    exact ⟨rfl, rfl⟩
  · rw [List.getD_eq_getElem?_getD, List.getD_eq_getElem?_getD,
      getElem?_flatMap_range_of_ge n 2 _ hf _ (by omega),
      getElem?_flatMap_range_of_ge n 2 _ hf _ (by omega), if_neg h, if_neg h]
    exact ⟨rfl, rfl⟩

theorem forall_flatMap_comps_zero (n : Nat) (A : Nat → Alg K) :
    (∀ c ∈ (List.range n).flatMap fun i => (A i).comps, c = 0) ↔
      ∀ i, i < n → (A i).1 = 0 ∧ (A i).2 = 0 := by
  rw [forall_mem_flatMap_range]
  constructor
  · intro h i hi
    exact ⟨h i hi _ (by simp [Alg.comps]), h i hi _ (by simp [Alg.comps])⟩
  · intro h i hi c hc
    simp only [Alg.comps, List.mem_cons, List.not_mem_nil, or_false] at hc
    rcases hc with rfl | rfl
    · exact (h i hi).1
    · exact (h i hi).2

/-! ## constant gate -/

theorem constant_con (n : Nat) (v : EvalVars K) (i : Nat) :
    con (.constant n) v i = if i < n then v.constants[i]! - v.wires[i]! else 0 := by
  simp only [con, evalF, GateKind.evalUnfiltered, evalConstant, getD_map_range]
  rfl

theorem constant_sat_iff (n : Nat) (v : EvalVars K) :
    Sat (.constant n) v ↔ ∀ i, i < n → v.wires[i]! = v.constants[i]! := by
  rw [sat_iff_con]
  constructor
  · intro h i hi
    have := h i
    rw [constant_con, if_pos hi, sub_eq_zero] at this
    exact this.symm
  · intro h i
    rw [constant_con]
    split
    · next hi => rw [sub_eq_zero]; exact (h i hi).symm
    · rfl

theorem constant_pinned (n : Nat) (v v' : EvalVars K) (i : Nat) (hi : i < n)
    (hd : DiffersOnlyAt v v' i) (h0 : con (.constant n) v i = 0) :
    con (.constant n) v' i ≠ 0 := by
  rw [constant_con, if_pos hi] at h0 ⊢
  rw [hd.constants]
  intro h
  apply hd.diff
  rw [sub_eq_zero] at h h0
  rw [← h, ← h0]

theorem constant_others (n : Nat) (v v' : EvalVars K) (i : Nat)
    (hd : DiffersOnlyAt v v' i) (j : Nat) (hj : j ≠ i) :
    con (.constant n) v' j = con (.constant n) v j := by
  rw [constant_con, constant_con, hd.constants, hd.same j hj]

/-! ## public-input gate -/

theorem publicInput_con (v : EvalVars K) (i : Nat) :
    con .publicInput v i = if i < 4 then v.wires[i]! - v.pih[i]! else 0 := by
  simp only [con, evalF, GateKind.evalUnfiltered, evalPublicInput, getD_map_range]
  rfl

theorem publicInput_sat_iff (v : EvalVars K) :
    Sat .publicInput v ↔ ∀ i, i < 4 → v.wires[i]! = v.pih[i]! := by
  rw [sat_iff_con]
  constructor
  · intro h i hi
    have := h i
    rw [publicInput_con, if_pos hi, sub_eq_zero] at this
    exact this
  · intro h i
    rw [publicInput_con]
    split
    · next hi => rw [sub_eq_zero]; exact h i hi
    · rfl

theorem publicInput_pinned (v v' : EvalVars K) (i : Nat) (hi : i < 4)
    (hd : DiffersOnlyAt v v' i) (h0 : con .publicInput v i = 0) :
    con .publicInput v' i ≠ 0 := by
  rw [publicInput_con, if_pos hi] at h0 ⊢
  rw [hd.pih]
  intro h
  apply hd.diff
  rw [sub_eq_zero] at h h0
  rw [h, h0]

theorem publicInput_others (v v' : EvalVars K) (i : Nat)
    (hd : DiffersOnlyAt v v' i) (j : Nat) (hj : j ≠ i) :
    con .publicInput v' j = con .publicInput v j := by
  rw [publicInput_con, publicInput_con, hd.pih, hd.same j hj]

/-! ## arithmetic-extension gate -/

/-- the two components of `(m0·m1)·c0 + addend·c1` in the algebra `K[X]/(X² − 7)`, with
`m0 = (a0,a1)`, `m1 = (b0,b1)`, `addend = (d0,d1)`: what `ArithmeticExtensionGenerator` writes -/
def arithExtOut (a0 a1 b0 b1 d0 d1 c0 c1 : K) : K × K :=
  ((a0 * b0 + 7 * (a1 * b1)) * c0 + d0 * c1, (a0 * b1 + a1 * b0) * c0 + d1 * c1)

/-- the generator's output for operation `i` of the row -/
def arithExtGen (v : EvalVars K) (i : Nat) : K × K :=
  arithExtOut v.wires[8 * i]! v.wires[8 * i + 1]! v.wires[8 * i + 2]! v.wires[8 * i + 2 + 1]!
    v.wires[8 * i + 4]! v.wires[8 * i + 4 + 1]! v.constants[0]! v.constants[1]!

theorem arithmeticExt_eval (n : Nat) (v : EvalVars K) :
    evalF (.arithmeticExt n) v = (List.range n).flatMap fun i =>
      Alg.comps ((v.wires[8 * i + 6]! - (arithExtGen v i).1,
        v.wires[8 * i + 6 + 1]! - (arithExtGen v i).2) : Alg K) := by
  rfl

theorem arithmeticExt_con (n : Nat) (v : EvalVars K) (i : Nat) :
    (con (.arithmeticExt n) v (2 * i)
      = if i < n then v.wires[8 * i + 6]! - (arithExtGen v i).1 else 0) ∧
    (con (.arithmeticExt n) v (2 * i + 1)
      = if i < n then v.wires[8 * i + 7]! - (arithExtGen v i).2 else 0) := by
  simp only [con, arithmeticExt_eval]
  exact getD_flatMap_comps n _ i

theorem arithmeticExt_sat_iff (n : Nat) (v : EvalVars K) :
    Sat (.arithmeticExt n) v ↔ ∀ i, i < n →
      v.wires[8 * i + 6]! = (arithExtGen v i).1 ∧ v.wires[8 * i + 7]! = (arithExtGen v i).2 := by
  unfold Sat
  rw [arithmeticExt_eval]
  refine (forall_flatMap_comps_zero n (fun i => ((v.wires[8 * i + 6]! - (arithExtGen v i).1,
        v.wires[8 * i + 6 + 1]! - (arithExtGen v i).2) : Alg K))).trans ?_
  simp only [sub_eq_zero]

theorem arithExtGen_congr (v v' : EvalVars K) (i k : Nat) (hd : DiffersOnlyAt v v' k)
    (hk : k < 8 * i ∨ 8 * i + 6 ≤ k) : arithExtGen v' i = arithExtGen v i := by
  simp only [arithExtGen]
  rw [hd.constants, hd.same (8 * i) (by omega), hd.same (8 * i + 1) (by omega),
    hd.same (8 * i + 2) (by omega), hd.same (8 * i + 2 + 1) (by omega),
    hd.same (8 * i + 4) (by omega), hd.same (8 * i + 4 + 1) (by omega)]

/-- component `r ∈ {0,1}` of output `i` is pinned by constraint `2i + r` -/
theorem arithmeticExt_pinned (n : Nat) (v v' : EvalVars K) (i r : Nat) (hi : i < n) (hr : r < 2)
    (hd : DiffersOnlyAt v v' (8 * i + 6 + r)) (h0 : con (.arithmeticExt n) v (2 * i + r) = 0) :
    con (.arithmeticExt n) v' (2 * i + r) ≠ 0 := by
  have hg := arithExtGen_congr v v' i _ hd (by omega)
  obtain rfl | rfl : r = 0 ∨ r = 1 := by omega
  · rw [Nat.add_zero] at h0 ⊢
    rw [(arithmeticExt_con n _ i).1, if_pos hi] at h0 ⊢
    rw [hg]
    intro h
    apply hd.diff
    rw [sub_eq_zero] at h h0
    rw [Nat.add_zero, h, h0]
  · rw [(arithmeticExt_con n _ i).2, if_pos hi] at h0 ⊢
    rw [hg]
    intro h
    apply hd.diff
    rw [sub_eq_zero] at h h0
    show v'.wires[8 * i + 7]! = v.wires[8 * i + 7]!
    rw [h, h0]

/-- all other constraints are unaffected -/
theorem arithmeticExt_others (n : Nat) (v v' : EvalVars K) (i r : Nat) (hr : r < 2)
    (hd : DiffersOnlyAt v v' (8 * i + 6 + r)) (j : Nat) (hj : j ≠ 2 * i + r) :
    con (.arithmeticExt n) v' j = con (.arithmeticExt n) v j := by
  obtain ⟨q, rfl | rfl⟩ : ∃ q, j = 2 * q ∨ j = 2 * q + 1 := ⟨j / 2, by omega⟩
  · rw [(arithmeticExt_con n _ q).1, (arithmeticExt_con n _ q).1]
    by_cases hq : q = i
    · subst hq
      rw [arithExtGen_congr v v' q _ hd (by omega), hd.same (8 * q + 6) (by omega)]
    · rw [arithExtGen_congr v v' q _ hd (by omega), hd.same (8 * q + 6) (by omega)]
  · rw [(arithmeticExt_con n _ q).2, (arithmeticExt_con n _ q).2]
    by_cases hq : q = i
    · subst hq
      rw [arithExtGen_congr v v' q _ hd (by omega), hd.same (8 * q + 7) (by omega)]
    · rw [arithExtGen_congr v v' q _ hd (by omega), hd.same (8 * q + 7) (by omega)]

/-! ## multiplication-extension gate -/

/-- the generator's output for operation `i`: `(m0·m1)·c0` with `m0` at wires `6i, 6i+1` and `m1`
at `6i+2, 6i+3` -/
def mulExtGen (v : EvalVars K) (i : Nat) : K × K :=
  ((v.wires[6 * i]! * v.wires[6 * i + 2]! + 7 * (v.wires[6 * i + 1]! * v.wires[6 * i + 2 + 1]!))
      * v.constants[0]!,
   (v.wires[6 * i]! * v.wires[6 * i + 2 + 1]! + v.wires[6 * i + 1]! * v.wires[6 * i + 2]!)
      * v.constants[0]!)

theorem mulExt_eval (n : Nat) (v : EvalVars K) :
    evalF (.mulExt n) v = (List.range n).flatMap fun i =>
      Alg.comps ((v.wires[6 * i + 4]! - (mulExtGen v i).1,
        v.wires[6 * i + 4 + 1]! - (mulExtGen v i).2) : Alg K) := by
  rfl

theorem mulExt_con (n : Nat) (v : EvalVars K) (i : Nat) :
    (con (.mulExt n) v (2 * i) = if i < n then v.wires[6 * i + 4]! - (mulExtGen v i).1 else 0) ∧
    (con (.mulExt n) v (2 * i + 1)
      = if i < n then v.wires[6 * i + 5]! - (mulExtGen v i).2 else 0) := by
  simp only [con, mulExt_eval]
  exact getD_flatMap_comps n _ i

theorem mulExt_sat_iff (n : Nat) (v : EvalVars K) :
    Sat (.mulExt n) v ↔ ∀ i, i < n →
      v.wires[6 * i + 4]! = (mulExtGen v i).1 ∧ v.wires[6 * i + 5]! = (mulExtGen v i).2 := by
  unfold Sat
  rw [mulExt_eval]
  refine (forall_flatMap_comps_zero n (fun i => ((v.wires[6 * i + 4]! - (mulExtGen v i).1,
        v.wires[6 * i + 4 + 1]! - (mulExtGen v i).2) : Alg K))).trans ?_
  simp only [sub_eq_zero]

theorem mulExtGen_congr (v v' : EvalVars K) (i k : Nat) (hd : DiffersOnlyAt v v' k)
    (hk : k < 6 * i ∨ 6 * i + 4 ≤ k) : mulExtGen v' i = mulExtGen v i := by
  simp only [mulExtGen]
  rw [hd.constants, hd.same (6 * i) (by omega), hd.same (6 * i + 1) (by omega),
    hd.same (6 * i + 2) (by omega), hd.same (6 * i + 2 + 1) (by omega)]

theorem mulExt_pinned (n : Nat) (v v' : EvalVars K) (i r : Nat) (hi : i < n) (hr : r < 2)
    (hd : DiffersOnlyAt v v' (6 * i + 4 + r)) (h0 : con (.mulExt n) v (2 * i + r) = 0) :
    con (.mulExt n) v' (2 * i + r) ≠ 0 := by
  have hg := mulExtGen_congr v v' i _ hd (by omega)
  obtain rfl | rfl : r = 0 ∨ r = 1 := by omega
  · rw [Nat.add_zero] at h0 ⊢
    rw [(mulExt_con n _ i).1, if_pos hi] at h0 ⊢
    rw [hg]
    intro h
    apply hd.diff
    rw [sub_eq_zero] at h h0
    rw [Nat.add_zero, h, h0]
  · rw [(mulExt_con n _ i).2, if_pos hi] at h0 ⊢
    rw [hg]
    intro h
    apply hd.diff
    rw [sub_eq_zero] at h h0
    show v'.wires[6 * i + 5]! = v.wires[6 * i + 5]!
    rw [h, h0]

theorem mulExt_others (n : Nat) (v v' : EvalVars K) (i r : Nat) (hr : r < 2)
    (hd : DiffersOnlyAt v v' (6 * i + 4 + r)) (j : Nat) (hj : j ≠ 2 * i + r) :
    con (.mulExt n) v' j = con (.mulExt n) v j := by
  obtain ⟨q, rfl | rfl⟩ : ∃ q, j = 2 * q ∨ j = 2 * q + 1 := ⟨j / 2, by omega⟩
  · rw [(mulExt_con n _ q).1, (mulExt_con n _ q).1]
    by_cases hq : q = i
    · subst hq
      rw [mulExtGen_congr v v' q _ hd (by omega), hd.same (6 * q + 4) (by omega)]
    · rw [mulExtGen_congr v v' q _ hd (by omega), hd.same (6 * q + 4) (by omega)]
  · rw [(mulExt_con n _ q).2, (mulExt_con n _ q).2]
    by_cases hq : q = i
    · subst hq
      rw [mulExtGen_congr v v' q _ hd (by omega), hd.same (6 * q + 5) (by omega)]
    · rw [mulExtGen_congr v v' q _ hd (by omega), hd.same (6 * q + 5) (by omega)]

end
end P2.Lemmas.C07
