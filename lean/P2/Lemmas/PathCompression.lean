/-
C12: compress/decompress round trip of Merkle multi-proofs (`hash/path_compression.rs`)
against an abstract true-node-digest function `node` (heap addressing), for arbitrary index
lists (duplicates allowed).

Structure:
* arithmetic of heap addresses: `nd H i j` (ancestor of leaf `i` at layer `j`), `sib H i j`
  (its sibling), layer separation facts `F1`, `F2`, `F3`;
* `spec node H n is pre suf ℓ`: the list of compressed streams still to be consumed at layer `ℓ`;
* key lemma 1 (`compress_spec`, from `compressOne_spec`/`compress_go_spec`):
  `compress` on honest proofs = `spec` at layer 0;
* key lemma 2 (`fillLayer_spec`, whole-layer form `fillLayer_layer`): one `fillLayer` pass maps `spec` at layer `ℓ` to `spec` at
  layer `ℓ+1` and preserves the invariant `Inv` on `seen`;
* `roundtrip_abstract`: the round trip.
-/
import P2.Model.PathCompression
namespace P2.Lemmas.PathCompression
open P2.Merkle P2.PathCompression

theorem xor_one_eq (x : Nat) : x ^^^ 1 = if x % 2 = 0 then x + 1 else x - 1 := by
  have h1 : (x ^^^ 1) / 2 = x / 2 := by simp [Nat.xor_div_two]
  have h2 := @Nat.xor_mod_two_eq_one x 1
  split <;> omega

/-- ancestor of leaf `i` at layer `j` (heap addressing) -/
def nd (H i j : Nat) : Nat := (i + 2 ^ H) / 2 ^ j
/-- sibling of the ancestor of leaf `i` at layer `j` -/
def sib (H i j : Nat) : Nat := nd H i j ^^^ 1

theorem nd_zero (H i : Nat) : nd H i 0 = i + 2 ^ H := by simp [nd]

theorem nd_succ (H i j : Nat) : nd H i (j + 1) = nd H i j / 2 := by
  simp [nd, Nat.div_div_eq_div_mul, Nat.pow_succ]

theorem onLayer_nd {H i j : Nat} (hi : i < 2 ^ H) (hj : j ≤ H) :
    2 ^ (H - j) ≤ nd H i j ∧ nd H i j < 2 ^ (H - j + 1) := by
  have hp : 2 ^ H = 2 ^ (H - j) * 2 ^ j := by rw [← Nat.pow_add]; congr 1; omega
  have hpos : 0 < 2 ^ j := Nat.two_pow_pos j
  unfold nd
  constructor
  · rw [Nat.le_div_iff_mul_le hpos, ← hp]; omega
  · rw [Nat.div_lt_iff_lt_mul hpos, Nat.pow_succ, Nat.mul_right_comm, ← hp]; omega

theorem onLayer_xor {a x : Nat} (ha : 1 ≤ a) (h : 2 ^ a ≤ x ∧ x < 2 ^ (a + 1)) :
    2 ^ a ≤ x ^^^ 1 ∧ x ^^^ 1 < 2 ^ (a + 1) := by
  obtain ⟨b, rfl⟩ : ∃ b, a = b + 1 := ⟨a - 1, by omega⟩
  rw [xor_one_eq]
  have e1 : 2 ^ (b + 1) = 2 * 2 ^ b := by rw [Nat.pow_succ]; omega
  have e2 : 2 ^ (b + 1 + 1) = 2 * 2 ^ (b + 1) := by rw [Nat.pow_succ]; omega
  split <;> omega

theorem onLayer_uniq {a b x : Nat} (ha : 2 ^ a ≤ x ∧ x < 2 ^ (a + 1))
    (hb : 2 ^ b ≤ x ∧ x < 2 ^ (b + 1)) : a = b := by
  rcases Nat.lt_trichotomy a b with h | h | h
  · have := Nat.pow_le_pow_right (n := 2) (by omega) (show a + 1 ≤ b from h); omega
  · exact h
  · have := Nat.pow_le_pow_right (n := 2) (by omega) (show b + 1 ≤ a from h); omega

theorem onLayer_sib {H i j : Nat} (hi : i < 2 ^ H) (hj : j < H) :
    2 ^ (H - j) ≤ sib H i j ∧ sib H i j < 2 ^ (H - j + 1) :=
  onLayer_xor (by omega) (onLayer_nd hi (by omega))

theorem F1 {H i i' j j' : Nat} (hi : i < 2 ^ H) (hi' : i' < 2 ^ H) (hj : j < H) (hj' : j' < H)
    (e : sib H i j = sib H i' j') : j = j' := by
  have := onLayer_uniq (onLayer_sib hi hj) (e ▸ onLayer_sib hi' hj'); omega

theorem F2 {H i i' j j' : Nat} (hi : i < 2 ^ H) (hi' : i' < 2 ^ H) (hj : j < H) (hj' : j' ≤ H)
    (e : sib H i j = nd H i' j') : j = j' := by
  have := onLayer_uniq (onLayer_sib hi hj) (e ▸ onLayer_nd hi' hj'); omega

theorem F3 (H i j : Nat) : sib H i j ≠ nd H i j := by
  unfold sib; rw [xor_one_eq]; split <;> omega

theorem sib_eq_iff (H i i' j : Nat) : sib H i' j = sib H i j ↔ nd H i' j = nd H i j := by
  unfold sib
  constructor
  · intro e
    have := congrArg (· ^^^ 1) e
    simpa [Nat.xor_assoc] using this
  · intro e; rw [e]

variable {L D : Type}

/-- honest proof of leaf `i`: sibling digests of its ancestors at layers 0..n-1 (heap addressing) -/
def honest (node : Nat → D) (H c i : Nat) : List D :=
  (List.range (H - c)).map fun j => node (((i + 2 ^ H) / 2 ^ j) ^^^ 1)

/-- kept siblings of the proof of leaf `i` from layer `ℓ` on (`m` layers), for keep predicate `k` -/
def strm (node : Nat → D) (H i : Nat) (k : Nat → Bool) : Nat → Nat → List D
  | 0, _ => []
  | m + 1, ℓ => if k ℓ then node (sib H i ℓ) :: strm node H i k m (ℓ + 1) else strm node H i k m (ℓ + 1)

theorem strm_congr (node : Nat → D) (H i : Nat) (k k' : Nat → Bool) :
    ∀ (m ℓ : Nat), (∀ j, ℓ ≤ j → j < ℓ + m → k j = k' j) →
      strm node H i k m ℓ = strm node H i k' m ℓ := by
  intro m
  induction m with
  | zero => intros; rfl
  | succ m ih =>
    intro ℓ hk
    simp only [strm]
    rw [hk ℓ (by omega) (by omega), ih (ℓ + 1) (fun j h1 h2 => hk j (by omega) (by omega))]

/-- the sibling at layer `j` of proof `i` is kept iff it is neither on a queried path nor was
    already produced at the same layer by an earlier proof -/
def kp (H : Nat) (is pre : List Nat) (i j : Nat) : Bool :=
  decide ((∀ i' ∈ is, nd H i' j ≠ sib H i j) ∧ (∀ i' ∈ pre, sib H i' j ≠ sib H i j))

/-- the compressed streams at layer `ℓ` for the proofs `suf`, given earlier proofs `pre` -/
def spec (node : Nat → D) (H n : Nat) (is : List Nat) : List Nat → List Nat → Nat → List (List D)
  | _, [], _ => []
  | pre, i :: suf, ℓ => strm node H i (kp H is pre i) (n - ℓ) ℓ :: spec node H n is (pre ++ [i]) suf ℓ

theorem compressOne_spec (node : Nat → D) (H : Nat) (K : List Nat) (i : Nat) (hi : i < 2 ^ H) :
    ∀ (m ℓ : Nat) (Kcur : List Nat), ℓ + m ≤ H →
      (∀ x, x ∈ Kcur ↔ x ∈ K ∨ ∃ j < ℓ, x = sib H i j ∨ x = nd H i (j + 1)) →
      (compressOne Kcur (nd H i ℓ) ((List.range' ℓ m).map fun j => node (sib H i j))).2
          = strm node H i (fun j => !K.contains (sib H i j)) m ℓ ∧
      ∀ x, x ∈ (compressOne Kcur (nd H i ℓ) ((List.range' ℓ m).map fun j => node (sib H i j))).1
          ↔ x ∈ K ∨ ∃ j < ℓ + m, x = sib H i j ∨ x = nd H i (j + 1) := by
  intro m
  induction m with
  | zero =>
    intro ℓ Kcur _ hK
    simpa [compressOne, strm] using hK
  | succ m ih =>
    intro ℓ Kcur hle hK
    have hdec : (Kcur.contains (sib H i ℓ)) = K.contains (sib H i ℓ) := by
      rw [Bool.eq_iff_iff]
      simp only [List.contains_iff_mem, hK]
      constructor
      · rintro (h | ⟨j, hj, h | h⟩)
        · exact h
        · have := F1 hi hi (by omega) (by omega) h; omega
        · have := F2 hi hi (by omega) (by omega) h
          subst this
          exact absurd h (F3 H i (j+1))
      · exact Or.inl
    have hsplit : ∀ x, (∃ j < ℓ + 1, x = sib H i j ∨ x = nd H i (j + 1)) ↔
        (∃ j < ℓ, x = sib H i j ∨ x = nd H i (j + 1)) ∨ x = sib H i ℓ ∨ x = nd H i (ℓ + 1) := by
      intro x
      constructor
      · rintro ⟨j, hj, h⟩
        by_cases e : j = ℓ
        · subst e; exact Or.inr h
        · exact Or.inl ⟨j, by omega, h⟩
      · rintro (⟨j, hj, h⟩ | h)
        · exact ⟨j, by omega, h⟩
        · exact ⟨ℓ, by omega, h⟩
    have hadd : ℓ + (m + 1) = ℓ + 1 + m := by omega
    rw [List.range'_succ, List.map_cons, compressOne, strm, hadd]
    have hdec' : Kcur.contains (nd H i ℓ ^^^ 1) = K.contains (sib H i ℓ) := hdec
    simp only [hdec']
    cases hb : K.contains (sib H i ℓ)
    · have hK' : ∀ x, x ∈ (nd H i ℓ / 2 :: sib H i ℓ :: Kcur)
          ↔ x ∈ K ∨ ∃ j < ℓ + 1, x = sib H i j ∨ x = nd H i (j + 1) := by
        intro x
        rw [hsplit, ← nd_succ]
        have hK := hK x
        simp only [List.mem_cons]
        grind
      have := ih (ℓ + 1) _ (by omega) hK'
      rw [nd_succ] at this
      simpa [sib, hb] using this
    · have hK' : ∀ x, x ∈ (nd H i ℓ / 2 :: Kcur)
          ↔ x ∈ K ∨ ∃ j < ℓ + 1, x = sib H i j ∨ x = nd H i (j + 1) := by
        intro x
        rw [hsplit, ← nd_succ]
        have hK := hK x
        have hmem : sib H i ℓ ∈ Kcur := by
          rw [← List.contains_iff_mem, hdec]; exact hb
        simp only [List.mem_cons]
        grind
      have := ih (ℓ + 1) _ (by omega) hK'
      rw [nd_succ] at this
      simpa [sib, hb] using this

theorem mem_initialKnown (H c : Nat) (is : List Nat) (x : Nat) :
    x ∈ initialKnown H c is ↔ ∃ i' ∈ is, ∃ j < H - c, x = nd H i' j := by
  simp only [initialKnown, List.mem_flatMap, List.mem_map, List.mem_range, nd]
  constructor
  · rintro ⟨i', hi', j, hj, rfl⟩; exact ⟨i', hi', j, hj, rfl⟩
  · rintro ⟨i', hi', j, hj, rfl⟩; exact ⟨i', hi', j, hj, rfl⟩

theorem honest_eq (node : Nat → D) (H c i : Nat) :
    honest node H c i = (List.range' 0 (H - c)).map fun j => node (sib H i j) := by
  simp [honest, List.range_eq_range', sib, nd]

theorem kp_iff (H : Nat) (is pre : List Nat) (i j : Nat) :
    kp H is pre i j = true ↔
      (∀ i' ∈ is, nd H i' j ≠ sib H i j) ∧ (∀ i' ∈ pre, sib H i' j ≠ sib H i j) := by
  simp [kp]

/-- **Key lemma 1** (for the `compress.go` loop, any split `pre`/`suf`): the output on honest
proofs is `spec` at layer 0. -/
theorem compress_go_spec (node : Nat → D) (H c : Nat) (hc : c ≤ H) (is : List Nat)
    (his : ∀ i ∈ is, i < 2 ^ H) :
    ∀ (suf pre K : List Nat), (∀ i ∈ suf, i ∈ is) → (∀ i ∈ pre, i ∈ is) →
      (∀ x, x ∈ K ↔ x ∈ initialKnown H c is ∨
        ∃ i' ∈ pre, ∃ j < H - c, x = sib H i' j ∨ x = nd H i' (j + 1)) →
      compress.go H K (suf.zip (suf.map (honest node H c))) = spec node H (H - c) is pre suf 0 := by
  intro suf
  induction suf with
  | nil => intros; simp [compress.go, spec]
  | cons i suf ih =>
    intro pre K hsuf hpre hK
    have hi : i < 2 ^ H := his i (hsuf i (by simp))
    rw [List.map_cons, List.zip_cons_cons, compress.go, spec]
    obtain ⟨h1, h2⟩ := compressOne_spec node H K i hi (H - c) 0 K (by omega) (by simp)
    rw [nd_zero, ← honest_eq] at h1 h2
    simp only []
    congr 1
    · rw [h1]
      apply strm_congr
      intro j _ hj
      rw [Bool.eq_iff_iff, kp_iff]
      simp only [Bool.not_eq_true', List.contains_eq_mem, decide_eq_false_iff_not, hK,
        mem_initialKnown]
      have hj' : j < H := by omega
      constructor
      · intro hn
        refine ⟨fun i' hi' e => hn (Or.inl ⟨i', hi', j, by omega, e.symm⟩),
          fun i' hi' e => hn (Or.inr ⟨i', hi', j, by omega, Or.inl e.symm⟩)⟩
      · rintro ⟨ha, hb⟩ (⟨i', hi', j', hj', e⟩ | ⟨i', hi', j', hj', e | e⟩)
        · have := F2 hi (his i' hi') (by omega) (by omega) e; subst this
          exact ha i' hi' e.symm
        · have := F1 hi (his i' (hpre i' hi')) (by omega) (by omega) e; subst this
          exact hb i' hi' e.symm
        · have := F2 hi (his i' (hpre i' hi')) (by omega) (by omega) e; subst this
          exact ha i' (hpre i' hi') e.symm
    · apply ih
      · exact fun i' h => hsuf i' (by simp [h])
      · intro i' h
        rcases List.mem_append.1 h with h | h
        · exact hpre i' h
        · exact hsuf i' (by simp_all)
      · intro x
        rw [h2 x, hK x]
        simp only [Nat.zero_add, List.mem_append, List.mem_singleton]
        grind

/-- **Key lemma 1, top-level form**: `compress` on honest proofs yields `spec` at layer 0. -/
theorem compress_spec (node : Nat → D) (H c : Nat) (hc : c ≤ H) (is : List Nat)
    (his : ∀ i ∈ is, i < 2 ^ H) :
    compress H c is (is.map (honest node H c)) = spec node H (H - c) is [] is 0 := by
  unfold compress
  exact compress_go_spec node H c hc is his is [] _ (fun _ h => h) (by simp) (by simp)


def keys (seen : List (Nat × D)) : List Nat := seen.map (·.1)

theorem lookup_eq_none_iff (seen : List (Nat × D)) (x : Nat) :
    lookup seen x = none ↔ x ∉ keys seen := by
  simp only [lookup, keys, Option.map_eq_none_iff, List.find?_eq_none, List.mem_map, not_exists,
    not_and, beq_iff_eq]

theorem mem_of_lookup_eq_some {seen : List (Nat × D)} {x : Nat} {v : D}
    (e : lookup seen x = some v) : (x, v) ∈ seen := by
  simp only [lookup, Option.map_eq_some_iff] at e
  obtain ⟨p, hp, rfl⟩ := e
  have h1 := List.mem_of_find?_eq_some hp
  have h2 := List.find?_some hp
  simp only [beq_iff_eq] at h2
  subst h2
  exact h1

theorem inv_step_new {A B : Nat → Prop} {pre : List Nat} {i : Nat} {S N : Nat → Nat} (x : Nat) :
    (x = N i ∨ x = S i ∨ A x ∨ B x ∨ ∃ i' ∈ pre, x = S i' ∨ x = N i') ↔
      (A x ∨ B x ∨ ∃ i' ∈ pre ++ [i], x = S i' ∨ x = N i') := by
  constructor
  · rintro (e | e | h | h | ⟨i', hi', e⟩)
    · exact Or.inr (Or.inr ⟨i, by simp, Or.inr e⟩)
    · exact Or.inr (Or.inr ⟨i, by simp, Or.inl e⟩)
    · exact Or.inl h
    · exact Or.inr (Or.inl h)
    · exact Or.inr (Or.inr ⟨i', by simp [hi'], e⟩)
  · rintro (h | h | ⟨i', hi', e⟩)
    · exact Or.inr (Or.inr (Or.inl h))
    · exact Or.inr (Or.inr (Or.inr (Or.inl h)))
    · rcases List.mem_append.1 hi' with hi' | hi'
      · exact Or.inr (Or.inr (Or.inr (Or.inr ⟨i', hi', e⟩)))
      · simp only [List.mem_singleton] at hi'
        subst hi'
        rcases e with e | e
        · exact Or.inr (Or.inl e)
        · exact Or.inl e

theorem inv_step_old {A B : Nat → Prop} {pre : List Nat} {i : Nat} {S N : Nat → Nat}
    (hS : A (S i) ∨ B (S i) ∨ ∃ i' ∈ pre, S i = S i' ∨ S i = N i') (x : Nat) :
    (x = N i ∨ A x ∨ B x ∨ ∃ i' ∈ pre, x = S i' ∨ x = N i') ↔
      (A x ∨ B x ∨ ∃ i' ∈ pre ++ [i], x = S i' ∨ x = N i') := by
  rw [← inv_step_new (A := A) (B := B) (pre := pre) (i := i) (S := S) (N := N) x]
  constructor
  · rintro (e | h)
    · exact Or.inl e
    · exact Or.inr (Or.inr h)
  · rintro (e | e | h)
    · exact Or.inl e
    · exact Or.inr (e ▸ hS)
    · exact Or.inr h

/-- invariant of the `seen` map while layer `ℓ` is being filled, the proofs `pre` already done -/
def Inv (node : Nat → D) (H : Nat) (is : List Nat) (ℓ : Nat) (pre : List Nat)
    (seen : List (Nat × D)) : Prop :=
  (∀ p ∈ seen, p.2 = node p.1) ∧
  ∀ x, x ∈ keys seen ↔
    (∃ i' ∈ is, ∃ j' ≤ ℓ, x = nd H i' j') ∨ (∃ i' ∈ is, ∃ j' < ℓ, x = sib H i' j') ∨
    (∃ i' ∈ pre, x = sib H i' ℓ ∨ x = nd H i' (ℓ + 1))

theorem lookup_of_true {node : Nat → D} {seen : List (Nat × D)}
    (ha : ∀ p ∈ seen, p.2 = node p.1) {x : Nat} (hx : x ∈ keys seen) :
    lookup seen x = some (node x) := by
  cases e : lookup seen x with
  | none => exact absurd hx ((lookup_eq_none_iff seen x).1 e)
  | some v => exact congrArg some (ha _ (mem_of_lookup_eq_some e))

theorem parent_eq (h : Hasher L D) (node : Nat → D) (H : Nat)
    (hnode : ∀ x, 1 ≤ x → x < 2 ^ H → node x = h.two (node (2 * x)) (node (2 * x + 1)))
    (x : Nat) (h1 : 1 ≤ x / 2) (h2 : x / 2 < 2 ^ H) :
    (if x % 2 = 0 then h.two (node x) (node (x ^^^ 1)) else h.two (node (x ^^^ 1)) (node x))
      = node (x / 2) := by
  rw [hnode _ h1 h2, xor_one_eq]
  split
  · have e : 2 * (x / 2) = x := by omega
    rw [e]
  · have e : 2 * (x / 2) = x - 1 := by omega
    have e' : 2 * (x / 2) + 1 = x := by omega
    rw [e', e]

theorem strm_step_true {node : Nat → D} {H i : Nat} {k : Nat → Bool} {n ℓ : Nat} (hℓ : ℓ < n)
    (hk : k ℓ = true) :
    strm node H i k (n - ℓ) ℓ = node (sib H i ℓ) :: strm node H i k (n - (ℓ + 1)) (ℓ + 1) := by
  have : n - ℓ = (n - (ℓ + 1)) + 1 := by omega
  rw [this, strm, hk]; rfl

theorem strm_step_false {node : Nat → D} {H i : Nat} {k : Nat → Bool} {n ℓ : Nat} (hℓ : ℓ < n)
    (hk : k ℓ = false) :
    strm node H i k (n - ℓ) ℓ = strm node H i k (n - (ℓ + 1)) (ℓ + 1) := by
  have : n - ℓ = (n - (ℓ + 1)) + 1 := by omega
  rw [this, strm, hk]; rfl

/-- **Key lemma 2**: one `fillLayer` pass maps `spec` at layer `ℓ` to `spec` at layer `ℓ+1`
and maintains the invariant on `seen`. -/
theorem fillLayer_spec (h : Hasher L D) (node : Nat → D) (H c : Nat)
    (hnode : ∀ x, 1 ≤ x → x < 2 ^ H → node x = h.two (node (2 * x)) (node (2 * x + 1)))
    (is : List Nat) (his : ∀ i ∈ is, i < 2 ^ H) (ℓ : Nat) (hℓ : ℓ < H - c) :
    ∀ (suf pre : List Nat) (seen : List (Nat × D)), (∀ i ∈ suf, i ∈ is) → (∀ i ∈ pre, i ∈ is) →
      Inv node H is ℓ pre seen →
      ∃ seen', fillLayer h ℓ H seen (suf.zip (spec node H (H - c) is pre suf ℓ))
          = some (seen', spec node H (H - c) is pre suf (ℓ + 1)) ∧
        Inv node H is ℓ (pre ++ suf) seen' := by
  intro suf
  induction suf with
  | nil => intro pre seen _ _ hI; exact ⟨seen, by simp [spec, fillLayer], by simpa using hI⟩
  | cons i suf ih =>
    intro pre seen hsuf hpre hI
    obtain ⟨ha, hb⟩ := hI
    have hi : i < 2 ^ H := his i (hsuf i (by simp))
    have hiis : i ∈ is := hsuf i (by simp)
    have hℓH : ℓ < H := by omega
    have hcur : lookup seen (nd H i ℓ) = some (node (nd H i ℓ)) :=
      lookup_of_true ha ((hb _).2 (Or.inl ⟨i, hiis, ℓ, Nat.le_refl _, rfl⟩))
    have hpar := parent_eq h node H hnode (nd H i ℓ)
      (by have := (onLayer_nd hi (show ℓ + 1 ≤ H by omega)).1
          rw [nd_succ] at this
          have := Nat.one_le_two_pow (n := H - (ℓ + 1)); omega)
      (by have := (onLayer_nd hi (show ℓ + 1 ≤ H by omega)).2
          rw [nd_succ] at this
          have := Nat.pow_le_pow_right (n := 2) (by omega) (show H - (ℓ + 1) + 1 ≤ H by omega)
          omega)
    have hkey : sib H i ℓ ∈ keys seen ↔ ¬ (kp H is pre i ℓ = true) := by
      rw [hb, kp_iff]
      constructor
      · rintro (⟨i', hi', j', hj', e⟩ | ⟨i', hi', j', hj', e⟩ | ⟨i', hi', e | e⟩) ⟨h1, h2⟩
        · have := F2 hi (his i' hi') hℓH (by omega) e; subst this
          exact h1 i' hi' e.symm
        · have := F1 hi (his i' hi') hℓH (by omega) e; omega
        · exact h2 i' hi' e.symm
        · have := F2 hi (his i' (hpre i' hi')) hℓH (by omega) e; omega
      · intro hn
        simp only [Classical.not_and_iff_not_or_not, Classical.not_forall,
          Decidable.not_not] at hn
        rcases hn with ⟨i', hi', e⟩ | ⟨i', hi', e⟩
        · exact Or.inl ⟨i', hi', ℓ, Nat.le_refl _, e.symm⟩
        · exact Or.inr (Or.inr ⟨i', hi', Or.inl e.symm⟩)
    have hsuf' : ∀ i' ∈ suf, i' ∈ is := fun i' h => hsuf i' (by simp [h])
    have hpre' : ∀ i' ∈ pre ++ [i], i' ∈ is := by
      intro i' h
      rcases List.mem_append.1 h with h | h
      · exact hpre i' h
      · simp at h; exact h ▸ hiis
    rw [spec, List.zip_cons_cons, fillLayer]
    rw [show (i + 2 ^ H) / 2 ^ ℓ = nd H i ℓ from rfl, hcur]
    cases hk : kp H is pre i ℓ
    · -- sibling already known
      have hs : lookup seen (sib H i ℓ) = some (node (sib H i ℓ)) :=
        lookup_of_true ha (hkey.2 (by simp [hk]))
      have hI' : Inv node H is ℓ (pre ++ [i]) ((nd H i ℓ / 2, node (nd H i ℓ / 2)) :: seen) := by
        refine ⟨?_, ?_⟩
        · intro p hp
          rcases List.mem_cons.1 hp with rfl | hp
          · rfl
          · exact ha p hp
        · intro x
          have hks := hkey.2 (by simp [hk])
          rw [hb] at hks
          simp only [keys, List.map_cons, List.mem_cons]
          rw [← keys, hb x, ← nd_succ]
          exact inv_step_old (A := fun x => ∃ i' ∈ is, ∃ j' ≤ ℓ, x = nd H i' j')
            (B := fun x => ∃ i' ∈ is, ∃ j' < ℓ, x = sib H i' j')
            (S := fun i => sib H i ℓ) (N := fun i => nd H i (ℓ + 1)) hks x
      obtain ⟨seen', e1, e2⟩ := ih (pre ++ [i]) _ hsuf' hpre' hI'
      refine ⟨seen', ?_, by simpa using e2⟩
      rw [strm_step_false hℓ hk]
      simp only [sib] at hs
      simp only [hs, Option.bind_eq_bind, Option.bind_some, hpar, e1, spec]
      rfl
    · -- sibling taken from the stream
      have hs : lookup seen (sib H i ℓ) = none :=
        (lookup_eq_none_iff _ _).2 (fun hm => hkey.1 hm hk)
      have hI' : Inv node H is ℓ (pre ++ [i])
          ((nd H i ℓ / 2, node (nd H i ℓ / 2)) :: (sib H i ℓ, node (sib H i ℓ)) :: seen) := by
        refine ⟨?_, ?_⟩
        · intro p hp
          rcases List.mem_cons.1 hp with rfl | hp
          · rfl
          rcases List.mem_cons.1 hp with rfl | hp
          · rfl
          · exact ha p hp
        · intro x
          simp only [keys, List.map_cons, List.mem_cons]
          rw [← keys, hb x, ← nd_succ]
          exact inv_step_new (A := fun x => ∃ i' ∈ is, ∃ j' ≤ ℓ, x = nd H i' j')
            (B := fun x => ∃ i' ∈ is, ∃ j' < ℓ, x = sib H i' j')
            (S := fun i => sib H i ℓ) (N := fun i => nd H i (ℓ + 1)) x
      obtain ⟨seen', e1, e2⟩ := ih (pre ++ [i]) _ hsuf' hpre' hI'
      refine ⟨seen', ?_, by simpa using e2⟩
      rw [strm_step_true hℓ hk]
      simp only [sib] at hs e1 ⊢
      simp only [hs, Option.bind_eq_bind, Option.bind_some, hpar, e1, spec]
      rfl

theorem Inv_next {node : Nat → D} {H : Nat} {is : List Nat} {ℓ : Nat} {seen : List (Nat × D)}
    (hI : Inv node H is ℓ is seen) : Inv node H is (ℓ + 1) [] seen := by
  refine ⟨hI.1, fun x => ?_⟩
  rw [hI.2 x]
  constructor
  · rintro (⟨i', hi', j', hj', e⟩ | ⟨i', hi', j', hj', e⟩ | ⟨i', hi', e | e⟩)
    · exact Or.inl ⟨i', hi', j', by omega, e⟩
    · exact Or.inr (Or.inl ⟨i', hi', j', by omega, e⟩)
    · exact Or.inr (Or.inl ⟨i', hi', ℓ, by omega, e⟩)
    · exact Or.inl ⟨i', hi', ℓ + 1, by omega, e⟩
  · rintro (⟨i', hi', j', hj', e⟩ | ⟨i', hi', j', hj', e⟩ | ⟨i', hi', _⟩)
    · by_cases hj : j' = ℓ + 1
      · subst hj; exact Or.inr (Or.inr ⟨i', hi', Or.inr e⟩)
      · exact Or.inl ⟨i', hi', j', by omega, e⟩
    · by_cases hj : j' = ℓ
      · subst hj; exact Or.inr (Or.inr ⟨i', hi', Or.inl e⟩)
      · exact Or.inr (Or.inl ⟨i', hi', j', by omega, e⟩)
    · simp at hi'

/-- **Key lemma 2, whole-layer form**: a full `fillLayer` pass over all proofs turns the streams
`spec … ℓ` into `spec … (ℓ+1)` and moves the `seen` invariant from layer `ℓ` to layer `ℓ+1`. -/
theorem fillLayer_layer (h : Hasher L D) (node : Nat → D) (H c : Nat)
    (hnode : ∀ x, 1 ≤ x → x < 2 ^ H → node x = h.two (node (2 * x)) (node (2 * x + 1)))
    (is : List Nat) (his : ∀ i ∈ is, i < 2 ^ H) (ℓ : Nat) (hℓ : ℓ < H - c)
    (seen : List (Nat × D)) (hI : Inv node H is ℓ [] seen) :
    ∃ seen', fillLayer h ℓ H seen (is.zip (spec node H (H - c) is [] is ℓ))
        = some (seen', spec node H (H - c) is [] is (ℓ + 1)) ∧
      Inv node H is (ℓ + 1) [] seen' := by
  obtain ⟨seen1, e1, hI1⟩ := fillLayer_spec h node H c hnode is his ℓ hℓ is [] seen
    (fun _ h => h) (by simp) hI
  exact ⟨seen1, e1, Inv_next (by simpa using hI1)⟩

theorem seen0_eq (h : Hasher L D) (H : Nat) (leafAt : Nat → L) :
    ∀ (l : List Nat) (init : List (Nat × D)),
      (l.zip (l.map leafAt)).foldl (fun s (iv : Nat × L) => (iv.1 + 2 ^ H, h.hashLeaf iv.2) :: s) init
        = (l.map fun i => (i + 2 ^ H, h.hashLeaf (leafAt i))).reverse ++ init := by
  intro l
  induction l with
  | nil => intro init; rfl
  | cons i l ih =>
    intro init
    rw [List.map_cons, List.zip_cons_cons, List.foldl_cons, ih]
    simp

theorem Inv_init (h : Hasher L D) (H : Nat) (leafAt : Nat → L) (node : Nat → D)
    (hleaf : ∀ i, i < 2 ^ H → node (i + 2 ^ H) = h.hashLeaf (leafAt i))
    (is : List Nat) (his : ∀ i ∈ is, i < 2 ^ H) :
    Inv node H is 0 []
      ((is.zip (is.map leafAt)).foldl (fun s (iv : Nat × L) => (iv.1 + 2 ^ H, h.hashLeaf iv.2) :: s) []) := by
  rw [seen0_eq]
  refine ⟨?_, ?_⟩
  · intro p hp
    simp only [List.append_nil, List.mem_reverse, List.mem_map] at hp
    obtain ⟨i, hi, rfl⟩ := hp
    exact (hleaf i (his i hi)).symm
  · intro x
    simp only [keys, List.append_nil, List.map_reverse, List.map_map, List.mem_reverse,
      List.mem_map, Function.comp]
    constructor
    · rintro ⟨i, hi, rfl⟩
      exact Or.inl ⟨i, hi, 0, Nat.le_refl _, (nd_zero H i).symm⟩
    · rintro (⟨i', hi', j', hj', e⟩ | ⟨i', hi', j', hj', e⟩ | ⟨i', hi', _⟩)
      · have : j' = 0 := by omega
        subst this
        exact ⟨i', hi', by rw [e, nd_zero]⟩
      · omega
      · simp at hi'

theorem loop_spec (h : Hasher L D) (node : Nat → D) (H c : Nat)
    (hnode : ∀ x, 1 ≤ x → x < 2 ^ H → node x = h.two (node (2 * x)) (node (2 * x + 1)))
    (is : List Nat) (his : ∀ i ∈ is, i < 2 ^ H)
    (body : List (Nat × D) × List (List D) → Nat → Option (List (Nat × D) × List (List D)))
    (hbody : ∀ s ps layer r, fillLayer h layer H s (is.zip ps) = some r → body (s, ps) layer = some r) :
    ∀ (m ℓ : Nat) (seen : List (Nat × D)), ℓ + m = H - c → Inv node H is ℓ [] seen →
      ∃ seen', (List.range' ℓ m).foldlM body (seen, spec node H (H - c) is [] is ℓ)
          = some (seen', spec node H (H - c) is [] is (H - c)) ∧
        Inv node H is (H - c) [] seen' := by
  intro m
  induction m with
  | zero =>
    intro ℓ seen hm hI
    have : ℓ = H - c := by omega
    subst this
    exact ⟨seen, rfl, hI⟩
  | succ m ih =>
    intro ℓ seen hm hI
    obtain ⟨seen1, e1, hI1⟩ := fillLayer_layer h node H c hnode is his ℓ (by omega) seen hI
    obtain ⟨seen', e2, hI2⟩ := ih (ℓ + 1) seen1 (by omega) hI1
    refine ⟨seen', ?_, hI2⟩
    rw [List.range'_succ, List.foldlM_cons, hbody _ _ _ _ e1]
    exact e2

theorem mapM_some {α β : Type} (f : α → Option β) (g : α → β) :
    ∀ (l : List α), (∀ a ∈ l, f a = some (g a)) → l.mapM f = some (l.map g) := by
  intro l
  induction l with
  | nil => intro _; rfl
  | cons a l ih =>
    intro hl
    rw [List.mapM_cons, hl a (by simp), ih (fun b hb => hl b (by simp [hb]))]
    rfl

theorem roundtrip_abstract (h : Hasher L D) (H c : Nat) (hc : c ≤ H)
    (leafAt : Nat → L) (node : Nat → D)
    (hleaf : ∀ i, i < 2 ^ H → node (i + 2 ^ H) = h.hashLeaf (leafAt i))
    (hnode : ∀ x, 1 ≤ x → x < 2 ^ H → node x = h.two (node (2 * x)) (node (2 * x + 1)))
    (is : List Nat) (his : ∀ i ∈ is, i < 2 ^ H) :
    decompress h (is.map leafAt) is (compress H c is (is.map (honest node H c))) H c
      = some (is.map (honest node H c)) := by
  rw [compress_spec node H c hc is his]
  unfold decompress
  simp only []
  have hI0 := Inv_init h H leafAt node hleaf is his
  obtain ⟨seen', e, hI⟩ := loop_spec h node H c hnode is his
    (fun acc layer => do
      let __x ← fillLayer h layer H acc.fst (is.zip acc.snd)
      pure (__x.fst, __x.snd))
    (by intro s ps layer r e; simp [e]) (H - c) 0 _ (by omega) hI0
  rw [List.range_eq_range', e]
  simp only [Option.bind_eq_bind, Option.bind_some]
  apply mapM_some
  intro i hi
  rw [honest, List.range_eq_range']
  apply mapM_some
  intro j hj
  have hj' : j < H - c := by simpa using hj
  exact lookup_of_true hI.1 ((hI.2 _).2 (Or.inr (Or.inl ⟨i, hi, j, hj', rfl⟩)))

end P2.Lemmas.PathCompression
