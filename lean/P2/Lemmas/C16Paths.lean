/-
C16 (a), Merkle part: `decompress_merkle_proofs` on FIRST-WINS compressed proofs. In a compressed
FRI proof a query whose index (or coset) was reached before carries the compressed path of the first
such query instead of its own (empty) one; `fillLayer` never reads it. Generalises
`P2.Lemmas.PathCompression.roundtrip_abstract`.
-/
import P2.Lemmas.PathCompression
namespace P2.Lemmas.C16
open P2.Merkle P2.PathCompression P2.Lemmas.PathCompression

variable {L D : Type}

/-- like `spec`, but a proof whose index occurred before carries an arbitrary stream `w` -/
def specW (node : Nat → D) (H n : Nat) (is : List Nat) :
    List Nat → List (Nat × List D) → Nat → List (List D)
  | _, [], _ => []
  | pre, (i, w) :: suf, ℓ =>
    (if i ∈ pre then w else strm node H i (kp H is pre i) (n - ℓ) ℓ) ::
      specW node H n is (pre ++ [i]) suf ℓ

theorem kp_false_of_mem (H : Nat) (is pre : List Nat) (i j : Nat) (h : i ∈ pre) :
    kp H is pre i j = false := by
  cases hk : kp H is pre i j with
  | false => rfl
  | true => exact absurd rfl (((kp_iff H is pre i j).1 hk).2 i h)

theorem fillLayer_specW (h : Hasher L D) (node : Nat → D) (H c : Nat)
    (hnode : ∀ x, 1 ≤ x → x < 2 ^ H → node x = h.two (node (2 * x)) (node (2 * x + 1)))
    (is : List Nat) (his : ∀ i ∈ is, i < 2 ^ H) (ℓ : Nat) (hℓ : ℓ < H - c) :
    ∀ (suf : List (Nat × List D)) (pre : List Nat) (seen : List (Nat × D)),
      (∀ iw ∈ suf, iw.1 ∈ is) → (∀ i ∈ pre, i ∈ is) →
      Inv node H is ℓ pre seen →
      ∃ seen', fillLayer h ℓ H seen ((suf.map (·.1)).zip (specW node H (H - c) is pre suf ℓ))
          = some (seen', specW node H (H - c) is pre suf (ℓ + 1)) ∧
        Inv node H is ℓ (pre ++ suf.map (·.1)) seen' := by
  intro suf
  induction suf with
  | nil => intro pre seen _ _ hI; exact ⟨seen, by simp [specW, fillLayer], by simpa using hI⟩
  | cons iw suf ih =>
    intro pre seen hsuf hpre hI
    rcases iw with ⟨i, w⟩
    obtain ⟨ha, hb⟩ := hI
    have hiis : i ∈ is := hsuf (i, w) (by simp)
    have hi : i < 2 ^ H := his i hiis
    have hℓH : ℓ < H := by omega
    have hcur : lookup seen (nd H i ℓ) = some (node (nd H i ℓ)) :=
      lookup_of_true ha ((hb _).2 (Or.inl ⟨i, hiis, ℓ, Nat.le_refl _, rfl⟩))
    have hpar := parent_eq h node H hnode (nd H i ℓ)
      (by have := (onLayer_nd hi (show ℓ + 1 ≤ H by omega)).1
          rw [nd_succ] at this
          have := Nat.one_le_two_pow (n := H - (ℓ + 1)); omega)
      (by have := (onLayer_nd hi (show ℓ + 1 ≤ H by omega)).2
          rw [nd_succ] at this
          have := Nat.pow_le_pow_right (n := 2) (by omega) (show H - (ℓ + 1) + 1 ≤ H by omega)
          omega)
    have hkey : sib H i ℓ ∈ keys seen ↔ ¬ (kp H is pre i ℓ = true) := by
      rw [hb, kp_iff]
      constructor
      · rintro (⟨i', hi', j', hj', e⟩ | ⟨i', hi', j', hj', e⟩ | ⟨i', hi', e | e⟩) ⟨h1, h2⟩
        · have := F2 hi (his i' hi') hℓH (by omega) e; subst this
          exact h1 i' hi' e.symm
        · have := F1 hi (his i' hi') hℓH (by omega) e; omega
        · exact h2 i' hi' e.symm
        · have := F2 hi (his i' (hpre i' hi')) hℓH (by omega) e; omega
      · intro hn
        simp only [Classical.not_and_iff_not_or_not, Classical.not_forall,
          Decidable.not_not] at hn
        rcases hn with ⟨i', hi', e⟩ | ⟨i', hi', e⟩
        · exact Or.inl ⟨i', hi', ℓ, Nat.le_refl _, e.symm⟩
        · exact Or.inr (Or.inr ⟨i', hi', Or.inl e.symm⟩)
    have hsuf' : ∀ iw' ∈ suf, iw'.1 ∈ is := fun iw' h => hsuf iw' (by simp [h])
    have hpre' : ∀ i' ∈ pre ++ [i], i' ∈ is := by
      intro i' h
      rcases List.mem_append.1 h with h | h
      · exact hpre i' h
      · simp at h; exact h ▸ hiis
    have hknown : kp H is pre i ℓ = false →
        ∃ seen', fillLayer h ℓ H ((nd H i ℓ / 2, node (nd H i ℓ / 2)) :: seen)
            ((suf.map (·.1)).zip (specW node H (H - c) is (pre ++ [i]) suf ℓ))
          = some (seen', specW node H (H - c) is (pre ++ [i]) suf (ℓ + 1)) ∧
          Inv node H is ℓ (pre ++ [i] ++ suf.map (·.1)) seen' := by
      intro hk
      have hI' : Inv node H is ℓ (pre ++ [i]) ((nd H i ℓ / 2, node (nd H i ℓ / 2)) :: seen) := by
        refine ⟨?_, ?_⟩
        · intro p hp
          rcases List.mem_cons.1 hp with rfl | hp
          · rfl
          · exact ha p hp
        · intro x
          have hks := hkey.2 (by simp [hk])
          rw [hb] at hks
          simp only [keys, List.map_cons, List.mem_cons]
          rw [← keys, hb x, ← nd_succ]
          exact inv_step_old (A := fun x => ∃ i' ∈ is, ∃ j' ≤ ℓ, x = nd H i' j')
            (B := fun x => ∃ i' ∈ is, ∃ j' < ℓ, x = sib H i' j')
            (S := fun i => sib H i ℓ) (N := fun i => nd H i (ℓ + 1)) hks x
      exact ih (pre ++ [i]) _ hsuf' hpre' hI'
    rw [specW, List.map_cons, List.zip_cons_cons, fillLayer]
    rw [show (i + 2 ^ H) / 2 ^ ℓ = nd H i ℓ from rfl, hcur]
    by_cases hip : i ∈ pre
    · -- a repeated index: its stream is never read
      have hk := kp_false_of_mem H is pre i ℓ hip
      have hs : lookup seen (sib H i ℓ) = some (node (sib H i ℓ)) :=
        lookup_of_true ha (hkey.2 (by simp [hk]))
      obtain ⟨seen', e1, e2⟩ := hknown hk
      refine ⟨seen', ?_, by simpa using e2⟩
      simp only [sib] at hs
      simp only [if_pos hip, hs, Option.bind_eq_bind, Option.bind_some, hpar, e1, specW]
      rfl
    · rw [if_neg hip]
      cases hk : kp H is pre i ℓ
      · have hs : lookup seen (sib H i ℓ) = some (node (sib H i ℓ)) :=
          lookup_of_true ha (hkey.2 (by simp [hk]))
        obtain ⟨seen', e1, e2⟩ := hknown hk
        refine ⟨seen', ?_, by simpa using e2⟩
        rw [strm_step_false hℓ hk]
        simp only [sib] at hs
        simp only [hs, Option.bind_eq_bind, Option.bind_some, hpar, e1, specW, if_neg hip]
        rfl
      · have hs : lookup seen (sib H i ℓ) = none :=
          (lookup_eq_none_iff _ _).2 (fun hm => hkey.1 hm hk)
        have hI' : Inv node H is ℓ (pre ++ [i])
            ((nd H i ℓ / 2, node (nd H i ℓ / 2)) :: (sib H i ℓ, node (sib H i ℓ)) :: seen) := by
          refine ⟨?_, ?_⟩
          · intro p hp
            rcases List.mem_cons.1 hp with rfl | hp
            · rfl
            rcases List.mem_cons.1 hp with rfl | hp
            · rfl
            · exact ha p hp
          · intro x
            simp only [keys, List.map_cons, List.mem_cons]
            rw [← keys, hb x, ← nd_succ]
            exact inv_step_new (A := fun x => ∃ i' ∈ is, ∃ j' ≤ ℓ, x = nd H i' j')
              (B := fun x => ∃ i' ∈ is, ∃ j' < ℓ, x = sib H i' j')
              (S := fun i => sib H i ℓ) (N := fun i => nd H i (ℓ + 1)) x
        obtain ⟨seen', e1, e2⟩ := ih (pre ++ [i]) _ hsuf' hpre' hI'
        refine ⟨seen', ?_, by simpa using e2⟩
        rw [strm_step_true hℓ hk]
        simp only [sib] at hs e1 ⊢
        simp only [hs, Option.bind_eq_bind, Option.bind_some, hpar, e1, specW, if_neg hip]
        rfl

theorem loop_specW (h : Hasher L D) (node : Nat → D) (H c : Nat)
    (hnode : ∀ x, 1 ≤ x → x < 2 ^ H → node x = h.two (node (2 * x)) (node (2 * x + 1)))
    (is : List Nat) (his : ∀ i ∈ is, i < 2 ^ H) (iws : List (Nat × List D))
    (hiws : iws.map (·.1) = is)
    (body : List (Nat × D) × List (List D) → Nat → Option (List (Nat × D) × List (List D)))
    (hbody : ∀ s ps layer r, fillLayer h layer H s (is.zip ps) = some r → body (s, ps) layer = some r) :
    ∀ (m ℓ : Nat) (seen : List (Nat × D)), ℓ + m = H - c → Inv node H is ℓ [] seen →
      ∃ seen', (List.range' ℓ m).foldlM body (seen, specW node H (H - c) is [] iws ℓ)
          = some (seen', specW node H (H - c) is [] iws (H - c)) ∧
        Inv node H is (H - c) [] seen' := by
  intro m
  induction m with
  | zero =>
    intro ℓ seen hm hI
    have : ℓ = H - c := by omega
    subst this
    exact ⟨seen, rfl, hI⟩
  | succ m ih =>
    intro ℓ seen hm hI
    obtain ⟨seen1, e1, hI1⟩ := fillLayer_specW h node H c hnode is his ℓ (by omega) iws [] seen
      (fun iw hiw => by rw [← hiws]; exact List.mem_map.2 ⟨iw, hiw, rfl⟩) (by simp) hI
    rw [hiws] at e1 hI1
    obtain ⟨seen', e2, hI2⟩ := ih (ℓ + 1) seen1 (by omega) (Inv_next (by simpa using hI1))
    refine ⟨seen', ?_, hI2⟩
    rw [List.range'_succ, List.foldlM_cons, hbody _ _ _ _ e1]
    exact e2

/-- streams that agree with `spec` wherever the index is new are `specW` of themselves -/
theorem specW_self (node : Nat → D) (H n : Nat) (is : List Nat) :
    ∀ (sufI : List Nat) (sufW : List (List D)) (pre : List Nat), sufW.length = sufI.length →
      (∀ a (h1 : a < sufI.length) (h2 : a < sufW.length), sufI[a] ∉ pre ++ sufI.take a →
        sufW[a]? = (spec node H n is pre sufI 0)[a]?) →
      specW node H n is pre (sufI.zip sufW) 0 = sufW := by
  intro sufI
  induction sufI with
  | nil => intro sufW pre hl _; cases sufW <;> simp_all [specW]
  | cons i sufI ih =>
    intro sufW pre hl hw
    cases sufW with
    | nil => simp at hl
    | cons w sufW =>
      rw [List.zip_cons_cons, specW]
      congr 1
      · by_cases hip : i ∈ pre
        · rw [if_pos hip]
        · rw [if_neg hip]
          have := hw 0 (by simp) (by simp) (by simpa using hip)
          simp only [spec, List.getElem?_cons_zero, Option.some.injEq] at this
          exact this.symm
      · apply ih sufW (pre ++ [i]) (by simpa using hl)
        intro a h1 h2 hnot
        have := hw (a + 1) (by simp; omega) (by simp; omega) (by
          intro hm
          apply hnot
          simp only [List.getElem_cons_succ, List.take_succ_cons, List.mem_append, List.mem_cons,
            List.not_mem_nil, or_false] at hm ⊢
          rcases hm with hm | hm | hm
          · exact Or.inl (Or.inl hm)
          · exact Or.inl (Or.inr hm)
          · exact Or.inr hm)
        simpa [spec] using this

/-- **Round trip on first-wins compressed proofs**: `ws` are compressed proofs that agree with
`compress_merkle_proofs` at every position whose index has not occurred earlier (the others are
arbitrary); decompressing them gives the honest proofs. -/
theorem roundtrip_firstwins (h : Hasher L D) (H c : Nat) (hc : c ≤ H)
    (leafAt : Nat → L) (node : Nat → D)
    (hleaf : ∀ i, i < 2 ^ H → node (i + 2 ^ H) = h.hashLeaf (leafAt i))
    (hnode : ∀ x, 1 ≤ x → x < 2 ^ H → node x = h.two (node (2 * x)) (node (2 * x + 1)))
    (is : List Nat) (his : ∀ i ∈ is, i < 2 ^ H) (ws : List (List D)) (hl : ws.length = is.length)
    (hws : ∀ a (h1 : a < is.length), is[a] ∉ is.take a →
      ws[a]? = (compress H c is (is.map (honest node H c)))[a]?) :
    decompress h (is.map leafAt) is ws H c = some (is.map (honest node H c)) := by
  rw [compress_spec node H c hc is his] at hws
  have hself : specW node H (H - c) is [] (is.zip ws) 0 = ws :=
    specW_self node H (H - c) is is ws [] hl (fun a h1 _ hn => hws a h1 (by simpa using hn))
  have hiws : (is.zip ws).map (·.1) = is := by
    rw [List.map_fst_zip]; omega
  unfold decompress
  simp only []
  have hI0 := Inv_init h H leafAt node hleaf is his
  obtain ⟨seen', e, hI⟩ := loop_specW h node H c hnode is his (is.zip ws) hiws
    (fun acc layer => do
      let __x ← fillLayer h layer H acc.fst (is.zip acc.snd)
      pure (__x.fst, __x.snd))
    (by intro s ps layer r e; simp [e]) (H - c) 0 _ (by omega) hI0
  rw [hself] at e
  rw [List.range_eq_range', e]
  simp only [Option.bind_eq_bind, Option.bind_some]
  apply mapM_some
  intro i hi
  rw [honest, List.range_eq_range']
  apply mapM_some
  intro j hj
  have hj' : j < H - c := by simpa using hj
  exact lookup_of_true hI.1 ((hI.2 _).2 (Or.inr (Or.inl ⟨i, hi, j, hj', rfl⟩)))

end P2.Lemmas.C16
