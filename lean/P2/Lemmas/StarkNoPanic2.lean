/-
Helper lemmas for C09d: panic-freedom of the STARK verifier after `recover_degree_bits` for AIRs
WITH lookups and cross-table lookups: `evalHelperColumns`, `evalLookups`, `evalCtlChecks` return
`some` under the shape facts and keep one accumulator per α. Core Lean only.
-/
import P2.Lemmas.StarkNoPanic
import P2.Props.C09
namespace P2.Lemmas.StarkNoPanic2
open P2 P2.Air P2.Stark P2.Lemmas.Stark P2.Lemmas.StarkNoPanic
open P2.Fri (Verdict firstBad)

/-! ### `for` loops in the `Option` monad -/

/-- a `for` loop in `Option` whose body always yields and keeps an invariant returns, with the invariant -/
theorem forIn_option_inv {α β : Type} (P : β → Prop) (l : List α) (f : α → β → Option (ForInStep β))
    (b : β) (hb : P b) (hf : ∀ x ∈ l, ∀ b, P b → ∃ b', f x b = some (.yield b') ∧ P b') :
    ∃ r, forIn l b f = some r ∧ P r := by
  induction l generalizing b with
  | nil => exact ⟨b, rfl, hb⟩
  | cons x t ih =>
    obtain ⟨b', h1, h2⟩ := hf x List.mem_cons_self b hb
    rw [List.forIn_cons, h1]
    exact ih b' h2 fun y hy => hf y (List.mem_cons_of_mem _ hy)

/-! ### chunks -/

/-- `chunk_size` of `eval_helper_columns` / `num_helper_columns`: `constraint_degree.checked_sub(1).unwrap_or(1)` -/
def lookupChunk (degree : Nat) : Nat := if degree = 0 then 1 else degree - 1

theorem mem_chunks_zip {α β γ : Type} (n : Nat) (hn : 0 < n) (xs : List α) (ys : List β) (hs : List γ)
    (x : (List α × List β) × γ) (h : x ∈ ((chunksOf n xs).zip (chunksOf n ys)).zip hs) :
    ∃ i, i * n < xs.length ∧ x.1.1 = (xs.drop (i * n)).take n ∧ x.1.2 = (ys.drop (i * n)).take n := by
  obtain ⟨i, hi, rfl⟩ := List.mem_iff_getElem.mp h
  simp only [List.length_zip, chunksOf, List.length_map, List.length_range] at hi
  refine ⟨i, ?_, ?_, ?_⟩
  · have h1 : i < (xs.length + n - 1) / n := by omega
    have h2 := (Nat.lt_div_iff_mul_lt hn).mp h1
    omega
  · simp [chunksOf]
  · simp [chunksOf]

/-! ### `eval_helper_columns` -/

/-- what `eval_helper_columns` needs of the lookup data when there are helper columns: a non-zero
chunk size (`constraint_degree ≠ 1`), chunks of length ≤ 2 (`todo!()` otherwise: `constraint_degree
≤ 3`, or at most two columns), and a filter for every column (`fs[0]`, `fs[1]`) -/
def HelperOK (degree numColumns numFilters : Nat) : Prop :=
  lookupChunk degree ≠ 0 ∧ min (lookupChunk degree) numColumns ≤ 2 ∧ numColumns ≤ numFilters

theorem evalHelperColumns_some (n : Nat) (filters : List FilterSpec) (columns : List (List GL2))
    (lv nv : Array GL2) (helpers : List GL2) (degree : Nat) (beta gamma : GL) (s : Consumer GL2)
    (hs : ConsInv n s) (hok : helpers = [] ∨ HelperOK degree columns.length filters.length) :
    ∃ s', evalHelperColumns filters columns lv nv helpers degree beta gamma s = some s' ∧ ConsInv n s' := by
  unfold evalHelperColumns
  by_cases hh : helpers = []
  · subst hh
    exact ⟨s, by simp, hs⟩
  · have hok' := hok.resolve_left hh
    obtain ⟨hc, hmin, hlen⟩ := hok'
    have hemp : helpers.isEmpty = false := by cases helpers <;> simp_all
    simp only [hemp, Bool.false_eq_true, if_false]
    have hc' : (if degree = 0 then 1 else degree - 1) ≠ 0 := hc
    rw [if_neg hc']
    simp only [bind_pure]
    apply forIn_option_inv (ConsInv n) _ _ s hs
    intro x hx b hb
    obtain ⟨i, hi, h1, h2⟩ := mem_chunks_zip (lookupChunk degree) (Nat.pos_of_ne_zero hc) _ _ _ x hx
    obtain ⟨⟨cs, fs⟩, h⟩ := x
    simp only at h1 h2 ⊢
    have hl1 : cs.length = min (lookupChunk degree) (columns.length - i * lookupChunk degree) := by
      rw [h1]; simp
    have hl2 : fs.length = min (lookupChunk degree) (filters.length - i * lookupChunk degree) := by
      rw [h2]; simp
    have hpos : 0 < lookupChunk degree := Nat.pos_of_ne_zero hc
    have hcs1 : 1 ≤ cs.length := by omega
    have hcs2 : cs.length ≤ 2 := by omega
    have hfs : cs.length ≤ fs.length := by omega
    rcases cs with _ | ⟨c0, _ | ⟨c1, _ | ⟨c2, t⟩⟩⟩
    · simp at hcs1
    · have h0 : fs[0]? = some fs[0] := List.getElem?_eq_getElem (by simp at hfs; omega)
      simp only [h0]
      exact ⟨_, rfl, constraint_inv n b _ hb⟩
    · have h0 : fs[0]? = some (fs[0]'(by simp at hfs; omega)) := List.getElem?_eq_getElem _
      have h1 : fs[1]? = some (fs[1]'(by simp at hfs; omega)) := List.getElem?_eq_getElem _
      simp only [h0, h1]
      exact ⟨_, rfl, constraint_inv n b _ hb⟩
    · simp at hcs2

/-! ### `num_helper_columns` -/

/-- `Lookup::num_helper_columns(constraint_degree)` when it is defined -/
def nhOf (degree : Nat) (l : LookupSpec) : Nat :=
  (l.columns.length + lookupChunk degree - 1) / lookupChunk degree + 1

theorem nhOf_pos (degree : Nat) (l : LookupSpec) : 1 ≤ nhOf degree l := Nat.le_add_left 1 _

theorem numHelperColumns_eq (l : LookupSpec) (degree : Nat) (h : lookupChunk degree ≠ 0) :
    numHelperColumns l degree = some (nhOf degree l) := by
  unfold numHelperColumns
  have h' : (if degree = 0 then 1 else degree - 1) ≠ 0 := h
  simp only [h', if_false]
  rfl

theorem numHelperColumns_none (l : LookupSpec) (degree : Nat) (h : lookupChunk degree = 0) :
    numHelperColumns l degree = none := by
  unfold numHelperColumns
  have h' : (if degree = 0 then 1 else degree - 1) = 0 := h
  simp only [h', if_true]

theorem lookupChunk_eq_zero_iff (degree : Nat) : lookupChunk degree = 0 ↔ degree = 1 := by
  unfold lookupChunk; split <;> omega

/-- `Σ num_helper_columns` over a list of lookups -/
def sumNh (degree : Nat) (ls : List LookupSpec) : Nat := (ls.map (nhOf degree)).foldl (· + ·) 0

theorem foldl_add_init (xs : List Nat) (a : Nat) : xs.foldl (· + ·) a = a + xs.foldl (· + ·) 0 := by
  induction xs generalizing a with
  | nil => rfl
  | cons x t ih => simp only [List.foldl_cons]; rw [ih (a + x), ih (0 + x)]; omega

theorem sumNh_cons (degree : Nat) (l : LookupSpec) (ls : List LookupSpec) :
    sumNh degree (l :: ls) = nhOf degree l + sumNh degree ls := by
  unfold sumNh
  simp only [List.map_cons, List.foldl_cons]
  rw [foldl_add_init]; omega

theorem mapM_numHelperColumns (degree : Nat) (ls : List LookupSpec) (h : lookupChunk degree ≠ 0) :
    ls.mapM (numHelperColumns · degree) = some (ls.map (nhOf degree)) := by
  induction ls with
  | nil => rfl
  | cons l t ih => simp only [List.mapM_cons, numHelperColumns_eq l degree h, ih]; rfl

theorem numLookupHelperColumns_eq (a : Air) (c : Config) (h : a.lookups = [] ∨ lookupChunk a.degree ≠ 0) :
    numLookupHelperColumns a c = some (sumNh a.degree a.lookups * c.numChallenges) := by
  unfold numLookupHelperColumns
  rcases h with h | h
  · simp [h, sumNh]
  · rw [mapM_numHelperColumns a.degree a.lookups h]; rfl

/-- `num_lookup_helper_columns` is undefined (division by zero) exactly for an AIR with lookups and
`constraint_degree = 1` -/
theorem numLookupHelperColumns_none_iff (a : Air) (c : Config) :
    numLookupHelperColumns a c = none ↔ a.lookups ≠ [] ∧ a.degree = 1 := by
  constructor
  · intro hn
    by_cases h : a.lookups = [] ∨ lookupChunk a.degree ≠ 0
    · rw [numLookupHelperColumns_eq a c h] at hn; cases hn
    · have h1 : a.lookups ≠ [] := fun e => h (Or.inl e)
      have h2 : lookupChunk a.degree = 0 := Classical.byContradiction fun e => h (Or.inr e)
      exact ⟨h1, (lookupChunk_eq_zero_iff _).1 h2⟩
  · rintro ⟨h1, h2⟩
    unfold numLookupHelperColumns
    cases hl : a.lookups with
    | nil => exact absurd hl h1
    | cons l t =>
      simp only [List.mapM_cons, numHelperColumns_none l a.degree ((lookupChunk_eq_zero_iff _).2 h2)]
      rfl

/-! ### `eval_packed_lookups_generic` -/

/-- the body of the inner loop of `evalLookups` (one lookup, one challenge) -/
def lookupStep (a : Air) (l : LookupSpec) (nh : Nat) (lv nv : Array GL2) (localAux nextAux : List GL2)
    (challenge : GL) (st : Consumer GL2 × Nat) : Option (ForInStep (Consumer GL2 × Nat)) := do
  let s := st.1
  let start := st.2
  let cols := l.columns.map fun c => c.evalWithNext GL2.ofBase lv nv
  if localAux.length < start + nh - 1 then none
  let helpers := (localAux.drop start).take (nh - 1)
  let s ← evalHelperColumns l.filters (cols.map fun c => [c]) lv nv helpers a.degree 1 challenge s
  let z ← localAux[start + nh - 1]?
  let nextZ ← nextAux[start + nh - 1]?
  let evalCol (col : ColSpec) : GL2 :=
    if lookupTableUsesNext then col.evalWithNext GL2.ofBase lv nv else col.eval GL2.ofBase lv
  let twc := evalCol l.table + GL2.ofBase challenge
  let y := helpers.foldl (· + ·) FOps.zero * twc - evalCol l.freq
  return .yield ((s.firstRow z).constraint ((nextZ - z) * twc - y), start + nh)

/-- the body of the outer loop of `evalLookups` (one lookup) -/
def lookupOuter (a : Air) (lv nv : Array GL2) (localAux nextAux : List GL2) (challenges : List GL)
    (l : LookupSpec) (st : Consumer GL2 × Nat) : Option (ForInStep (Consumer GL2 × Nat)) := do
  let nh ← numHelperColumns l a.degree
  let r ← forIn challenges st (lookupStep a l nh lv nv localAux nextAux)
  return .yield r

theorem evalLookups_eq (a : Air) (lv nv : Array GL2) (localAux nextAux : List GL2) (challenges : List GL)
    (s : Consumer GL2) :
    evalLookups a lv nv localAux nextAux challenges s =
      (forIn a.lookups (s, 0) (lookupOuter a lv nv localAux nextAux challenges)).bind (fun r => some r.1) := by
  rfl

theorem lookupStep_some (n : Nat) (a : Air) (l : LookupSpec) (nh : Nat) (lv nv : Array GL2)
    (localAux nextAux : List GL2) (challenge : GL) (s : Consumer GL2) (start : Nat)
    (hnh : 1 ≤ nh) (hok : HelperOK a.degree l.columns.length l.filters.length) (hs : ConsInv n s)
    (h1 : start + nh ≤ localAux.length) (h2 : start + nh ≤ nextAux.length) :
    ∃ s', lookupStep a l nh lv nv localAux nextAux challenge (s, start) = some (.yield (s', start + nh)) ∧
      ConsInv n s' := by
  unfold lookupStep
  have hlt : ¬ localAux.length < start + nh - 1 := by omega
  obtain ⟨s1, e1, i1⟩ := evalHelperColumns_some n l.filters
    ((l.columns.map fun c => c.evalWithNext GL2.ofBase lv nv).map fun c => [c]) lv nv
    ((localAux.drop start).take (nh - 1)) a.degree 1 challenge s hs
    (Or.inr (by simpa using hok))
  have ez : localAux[start + nh - 1]? = some (localAux[start + nh - 1]'(by omega)) :=
    List.getElem?_eq_getElem _
  have en : nextAux[start + nh - 1]? = some (nextAux[start + nh - 1]'(by omega)) :=
    List.getElem?_eq_getElem _
  simp only [hlt, if_false, e1, ez, en, bind, Option.bind, pure]
  exact ⟨_, rfl, constraint_inv n _ _ (constraint_inv n _ _ i1)⟩

theorem lookupInner_some (n : Nat) (a : Air) (l : LookupSpec) (nh : Nat) (lv nv : Array GL2)
    (localAux nextAux : List GL2) (hnh : 1 ≤ nh) (hok : HelperOK a.degree l.columns.length l.filters.length)
    (chs : List GL) (s : Consumer GL2) (start : Nat) (hs : ConsInv n s)
    (h1 : start + nh * chs.length ≤ localAux.length) (h2 : start + nh * chs.length ≤ nextAux.length) :
    ∃ s', forIn chs (s, start) (lookupStep a l nh lv nv localAux nextAux) = some (s', start + nh * chs.length) ∧
      ConsInv n s' := by
  induction chs generalizing s start with
  | nil => exact ⟨s, rfl, hs⟩
  | cons ch t ih =>
    simp only [List.length_cons, Nat.mul_succ] at h1 h2
    obtain ⟨s1, e1, i1⟩ := lookupStep_some n a l nh lv nv localAux nextAux ch s start hnh hok hs
      (by omega) (by omega)
    rw [List.forIn_cons, e1]
    obtain ⟨s2, e2, i2⟩ := ih s1 (start + nh) i1 (by omega) (by omega)
    refine ⟨s2, ?_, i2⟩
    simp only [bind, Option.bind]
    rw [e2]
    simp only [List.length_cons, Nat.mul_succ]
    congr 2; omega

/-- what `eval_packed_lookups_generic` needs of every lookup of the AIR -/
def LookupsOK (a : Air) : Prop := ∀ l ∈ a.lookups, HelperOK a.degree l.columns.length l.filters.length

theorem lookupOuter_loop (n : Nat) (a : Air) (lv nv : Array GL2) (localAux nextAux : List GL2) (chs : List GL)
    (ls : List LookupSpec) (hok : ∀ l ∈ ls, HelperOK a.degree l.columns.length l.filters.length)
    (s : Consumer GL2) (start : Nat) (hs : ConsInv n s)
    (h1 : start + sumNh a.degree ls * chs.length ≤ localAux.length)
    (h2 : start + sumNh a.degree ls * chs.length ≤ nextAux.length) :
    ∃ r, forIn ls (s, start) (lookupOuter a lv nv localAux nextAux chs) = some r ∧ ConsInv n r.1 := by
  induction ls generalizing s start with
  | nil => exact ⟨(s, start), rfl, hs⟩
  | cons l t ih =>
    have hl := hok l List.mem_cons_self
    rw [sumNh_cons, Nat.add_mul] at h1 h2
    obtain ⟨s1, e1, i1⟩ := lookupInner_some n a l (nhOf a.degree l) lv nv localAux nextAux (nhOf_pos _ _) hl chs
      s start hs (by omega) (by omega)
    rw [List.forIn_cons]
    unfold lookupOuter
    simp only [numHelperColumns_eq l a.degree hl.1, e1, bind, Option.bind, pure]
    exact ih (fun l' h' => hok l' (List.mem_cons_of_mem _ h')) s1 _ i1 (by omega) (by omega)

theorem evalLookups_some (n : Nat) (a : Air) (lv nv : Array GL2) (localAux nextAux : List GL2) (chs : List GL)
    (s : Consumer GL2) (hok : LookupsOK a) (hs : ConsInv n s)
    (h1 : sumNh a.degree a.lookups * chs.length ≤ localAux.length)
    (h2 : sumNh a.degree a.lookups * chs.length ≤ nextAux.length) :
    ∃ s', evalLookups a lv nv localAux nextAux chs s = some s' ∧ ConsInv n s' := by
  rw [evalLookups_eq]
  obtain ⟨r, e, i⟩ := lookupOuter_loop n a lv nv localAux nextAux chs a.lookups hok s 0 hs (by omega) (by omega)
  rw [e]
  exact ⟨r.1, rfl, i⟩

/-! ### `eval_cross_table_lookup_checks` -/

/-- well-formed `CtlCheckVars` for `constraint_degree = degree`: with helper columns, the demands of
`eval_helper_columns`; without, at least one column tuple and a filter for each of the (at most two)
tuples that are looked at -/
def CtlVarsOK (degree : Nat) (v : CtlVars) : Prop :=
  (v.helperColumns ≠ [] → HelperOK degree v.columns.length v.filters.length) ∧
  (v.helperColumns = [] → 1 ≤ v.columns.length ∧ min 2 v.columns.length ≤ v.filters.length)

theorem evalCtlChecks_some (n : Nat) (cv : List CtlVars) (lv nv : Array GL2) (degree : Nat) (s : Consumer GL2)
    (hok : ∀ v ∈ cv, CtlVarsOK degree v) (hs : ConsInv n s) :
    ∃ s', evalCtlChecks cv lv nv degree s = some s' ∧ ConsInv n s' := by
  unfold evalCtlChecks
  simp only [bind_pure]
  apply forIn_option_inv (ConsInv n) _ _ s hs
  intro v hv b hb
  obtain ⟨hA, hB⟩ := hok v hv
  obtain ⟨s1, e1, i1⟩ := evalHelperColumns_some n v.filters
    (v.columns.map fun tuple => tuple.map fun col => col.evalWithNext GL2.ofBase lv nv) lv nv
    v.helperColumns degree v.beta v.gamma b hb
    (by
      by_cases h : v.helperColumns = []
      · exact Or.inl h
      · exact Or.inr (by simpa using hA h))
  simp only [e1, bind, Option.bind]
  by_cases h : v.helperColumns = []
  · obtain ⟨hc1, hc2⟩ := hB h
    simp only [h, List.isEmpty_nil, Bool.not_true, Bool.false_eq_true, if_false]
    by_cases h2 : v.columns.length > 1
    · simp only [h2, if_true]
      have hf : 2 ≤ v.filters.length := by omega
      have e0 : (v.columns.map fun tuple => tuple.map fun col => col.evalWithNext GL2.ofBase lv nv)[0]? =
          some ((v.columns[0]'(by omega)).map fun col => col.evalWithNext GL2.ofBase lv nv) := by
        simp [List.getElem?_eq_getElem (show 0 < v.columns.length by omega)]
      have e1' : (v.columns.map fun tuple => tuple.map fun col => col.evalWithNext GL2.ofBase lv nv)[1]? =
          some ((v.columns[1]'(by omega)).map fun col => col.evalWithNext GL2.ofBase lv nv) := by
        simp [List.getElem?_eq_getElem (show 1 < v.columns.length by omega)]
      have f0 : v.filters[0]? = some (v.filters[0]'(by omega)) := List.getElem?_eq_getElem _
      have f1 : v.filters[1]? = some (v.filters[1]'(by omega)) := List.getElem?_eq_getElem _
      simp only [e0, e1', f0, f1, pure]
      exact ⟨_, rfl, constraint_inv n _ _ (constraint_inv n _ _ i1)⟩
    · simp only [h2, if_false]
      have hf : 1 ≤ v.filters.length := by omega
      have e0 : (v.columns.map fun tuple => tuple.map fun col => col.evalWithNext GL2.ofBase lv nv)[0]? =
          some ((v.columns[0]'(by omega)).map fun col => col.evalWithNext GL2.ofBase lv nv) := by
        simp [List.getElem?_eq_getElem (show 0 < v.columns.length by omega)]
      have f0 : v.filters[0]? = some (v.filters[0]'(by omega)) := List.getElem?_eq_getElem _
      simp only [e0, f0, pure]
      exact ⟨_, rfl, constraint_inv n _ _ (constraint_inv n _ _ i1)⟩
  · have hne : v.helperColumns.isEmpty = false := by
      cases hh : v.helperColumns with
      | nil => exact absurd hh h
      | cons _ _ => rfl
    simp only [hne, Bool.not_false, if_true, pure]
    exact ⟨_, rfl, constraint_inv n _ _ (constraint_inv n _ _ i1)⟩

/-! ### `eval_vanishing_poly` -/

theorem evalVanishingPoly_some (n : Nat) (a : Air) (lv nv : List GL2) (pis : List GL)
    (lookupVars : Option (List GL2 × List GL2 × List GL)) (ctlVars : Option (List CtlVars)) (s : Consumer GL2)
    (hs : ConsInv n s)
    (hlk : ∀ la na chs, lookupVars = some (la, na, chs) → LookupsOK a ∧
      sumNh a.degree a.lookups * chs.length ≤ la.length ∧ sumNh a.degree a.lookups * chs.length ≤ na.length)
    (hctl : ∀ cv, ctlVars = some cv → ∀ v ∈ cv, CtlVarsOK a.degree v) :
    ∃ van, evalVanishingPoly a lv nv pis lookupVars ctlVars s = some van ∧ van.length = n := by
  unfold evalVanishingPoly
  have i0 := evalConstraints_inv n a lv.toArray nv.toArray (pis.map GL2.ofBase).toArray s hs
  simp only []
  generalize a.evalConstraints lv.toArray nv.toArray (pis.map GL2.ofBase).toArray s = s0 at i0 ⊢
  have tail : ∀ s1, ConsInv n s1 → ∃ s2, (match ctlVars with
      | none => some s1
      | some cv => evalCtlChecks cv lv.toArray nv.toArray a.degree s1) = some s2 ∧ ConsInv n s2 := by
    intro s1 i1
    cases ctlVars with
    | none => exact ⟨s1, rfl, i1⟩
    | some cv => exact evalCtlChecks_some n cv _ _ a.degree s1 (hctl cv rfl) i1
  have head : ∃ s1, (match lookupVars with
      | none => some s0
      | some (la, na, chs) => evalLookups a lv.toArray nv.toArray la na chs s0) = some s1 ∧ ConsInv n s1 := by
    cases lookupVars with
    | none => exact ⟨s0, rfl, i0⟩
    | some t =>
      obtain ⟨la, na, chs⟩ := t
      obtain ⟨h1, h2, h3⟩ := hlk la na chs rfl
      exact evalLookups_some n a _ _ la na chs s0 h1 i0 h2 h3
  obtain ⟨s1, e1, i1⟩ := head
  obtain ⟨s2, e2, i2⟩ := tail s1 i1
  refine ⟨s2.accs, ?_, i2.1⟩
  cases lookupVars with
  | none =>
    cases e1
    cases ctlVars with
    | none => cases e2; rfl
    | some cv => simp only [] at e2; simp only [e2, bind, Option.bind, pure]
  | some t =>
    obtain ⟨la, na, chs⟩ := t
    simp only [] at e1
    cases ctlVars with
    | none => cases e2; simp only [e1, bind, Option.bind, pure]
    | some cv => simp only [] at e2; simp only [e1, e2, bind, Option.bind, pure]

/-! ### the verifier after `recover_degree_bits`, any AIR -/

theorem lookupsOK_chunk (a : Air) (h : LookupsOK a) : a.lookups = [] ∨ lookupChunk a.degree ≠ 0 := by
  cases hl : a.lookups with
  | nil => exact Or.inl rfl
  | cons l t => exact Or.inr (h l (by rw [hl]; exact List.mem_cons_self)).1

/-- the lookup variables handed to `eval_vanishing_poly` exist after shape validation when the
lookup challenge set is there, and have the expected lengths -/
theorem lookupVarsOf_ok (a : Air) (c : Config) (pp : ProofWithPis) (ch : Stark.Challenges) (db nh nz nlc : Nat)
    (hsh : validateShape a c pp db nh nz = .accept) (hn : numLookupHelperColumns a c = some nlc)
    (hls : a.usesLookups = true → ∃ ls, ch.lookupSet = some ls ∧ ls.length = c.numChallenges) :
    ∃ lv, lookupVarsOf a ch pp.proof.openings nlc = .ok lv ∧
      ∀ la na chs, lv = some (la, na, chs) → la.length = nlc ∧ na.length = nlc ∧ chs.length = c.numChallenges := by
  obtain ⟨_, _, nlc', hn', _, _, _, _, _, _, _, _, haux⟩ := (validateShape_accept_iff a c pp db nh nz).1 hsh
  rw [hn] at hn'; cases hn'
  unfold lookupVarsOf
  by_cases hU : a.usesLookups = true
  · obtain ⟨ls, e, hlen⟩ := hls hU
    unfold AuxOK at haux
    rw [if_pos (by simp [hU])] at haux
    obtain ⟨cap, aux, auxNext, _, e1, e2, _, l1, l2, _⟩ := haux
    simp only [hU, if_true, e, e1, e2]
    rw [if_neg (by omega)]
    refine ⟨_, rfl, ?_⟩
    intro la na chs h
    simp only [Option.some.injEq, Prod.mk.injEq] at h
    obtain ⟨rfl, rfl, rfl⟩ := h
    refine ⟨?_, ?_, ?_⟩
    · rw [List.length_take]; omega
    · rw [List.length_take]; omega
    · rw [List.length_map]; exact hlen
  · simp only [hU, Bool.false_eq_true, if_false]
    exact ⟨none, rfl, fun _ _ _ h => by cases h⟩

/-- **`verify_stark_proof_with_challenges` cannot panic after `recover_degree_bits`**, for any AIR
whose lookups meet `LookupsOK` and any well-formed CTL variables -/
theorem verifyWithChallenges_no_panic (a : Air) (c : Config) (pp : ProofWithPis) (ch : Stark.Challenges)
    (ctlVars : Option (List CtlVars)) (db : Nat) (fp : Fri.FriParams)
    (hlo : LookupsOK a) (hcv : ∀ cv, ctlVars = some cv → ∀ v ∈ cv, CtlVarsOK a.degree v)
    (hdb : recoverDegreeBits pp.proof c = .ok db) (hfp : c.friParams db = some fp)
    (hcons : ∃ s, consumerAt ch.alphas db ch.zeta = .ok s)
    (hal : ch.alphas.length = c.numChallenges)
    (hls : a.usesLookups = true → ∃ ls, ch.lookupSet = some ls ∧ ls.length = c.numChallenges)
    (hbetas : ch.fri.betas.length = pp.proof.openingProof.commitCaps.length)
    (hidx : ∀ xi ∈ ch.fri.queryIndices, xi < 2 ^ (db + c.fri.rateBits)) (t : String) :
    verifyWithChallenges a c pp ch ctlVars ≠ .panic t := by
  obtain ⟨s, hs⟩ := hcons
  have hnl := numLookupHelperColumns_eq a c (lookupsOK_chunk a hlo)
  unfold verifyWithChallenges
  simp only [hdb]
  change (match validateShape a c pp db (ctlHelpersCount ctlVars) (ctlZsCount ctlVars) with
      | .accept => _ | v => v) ≠ _
  cases hsh : validateShape a c pp db (ctlHelpersCount ctlVars) (ctlZsCount ctlVars) with
  | reject e => simp
  | panic e =>
    exact absurd hsh (P2.Props.C09.validateShape_no_panic a c pp db _ _ e (by rw [hfp]; rfl) (by rw [hnl]; rfl))
  | accept =>
    simp only [frameCheck_of_shape a c pp db _ _ hsh, hs, hnl, hfp]
    change (match lookupVarsOf a ch pp.proof.openings (sumNh a.degree a.lookups * c.numChallenges) with
      | .error e => Verdict.panic e | .ok lv => _) ≠ _
    obtain ⟨lv, elv, hlv⟩ := lookupVarsOf_ok a c pp ch db _ _ _ hsh hnl hls
    rw [elv]
    simp only []
    obtain ⟨van, evan, hvan0⟩ := evalVanishingPoly_some ch.alphas.length a pp.proof.openings.localValues
      pp.proof.openings.nextValues pp.publicInputs lv ctlVars s (consumerAt_inv ch.alphas db ch.zeta s hs)
      (by
        intro la na chs h
        obtain ⟨h1, h2, h3⟩ := hlv la na chs h
        exact ⟨hlo, by rw [h3, h1]; exact Nat.le_refl _, by rw [h3, h2]; exact Nat.le_refl _⟩)
      hcv
    rw [evan]
    simp only []
    have hvan : (quotientChunks a pp.proof.openings).length ≤ van.length := by
      cases hqp : pp.proof.openings.quotientPolys with
      | none => simp [quotientChunks, hqp]
      | some q =>
        have hz := qdf_ne_zero_of_shape a c pp db _ _ hsh (by rw [hqp]; rfl)
        rw [quotientChunks_length_le a c pp db _ _ hsh (Nat.pos_of_ne_zero hz), hvan0, hal]
        exact Nat.le_refl _
    split
    · rename_i q hqp
      rw [if_neg (qdf_ne_zero_of_shape a c pp db _ _ hsh (by rw [hqp]; rfl))]
      exact identityThenFri_no_panic a c pp ch _ _ _ _ fp db _ _ hsh hfp hvan hbetas hidx t
    · exact identityThenFri_no_panic a c pp ch _ _ _ _ fp db _ _ hsh hfp hvan hbetas hidx t

/-! ### the `lookup_challenge_set` of `get_challenges` -/

open P2.Lemmas.StarkTranscript in
/-- `get_challenges` returns only if an AIR with lookups got its lookup challenges: either they were
handed in (`shared`), or the proof carries an auxiliary cap (then they are drawn). Otherwise it
panics on `lookup_challenge_set.unwrap()`. -/
theorem getChallengesFrom_usesLookups (s : ChSt) (a : Air) (c : Config) (pp : ProofWithPis)
    (pad : Option PadParams) (shared : Option (List (GL × GL))) (ctlVars : Option (List CtlVars)) (ign : Bool)
    (ch : Stark.Challenges) (h : getChallengesFrom s a c pp pad shared ctlVars ign = .ok ch)
    (hU : a.usesLookups = true) : shared.isSome = true ∨ pp.proof.auxCap.isSome = true := by
  unfold getChallengesFrom at h
  simp only [bind, Except.bind, pure, Except.pure, hU, if_true] at h
  cases shared with
  | some sh => exact Or.inl rfl
  | none =>
    right
    cases hc : pp.proof.auxCap with
    | some cap => rfl
    | none =>
      exfalso
      simp only [hc] at h
      cases h1 : recoverDegreeBits pp.proof c with
      | error e => rw [h1] at h; cases h
      | ok db =>
        rw [h1] at h
        simp only [] at h
        cases h2 : orPanic "num_helper_columns: division by zero" (numLookupHelperColumns a c) with
        | error e => rw [h2] at h; cases h
        | ok nlc =>
          rw [h2] at h
          simp only [throw, throwThe, MonadExceptOf.throw] at h
          cases h

open P2.Lemmas.StarkTranscript in
/-- **the lookup challenge set `get_challenges` returns**: the one handed in, if any; otherwise
present exactly when the proof carries an auxiliary cap, and then of length `num_challenges`; and
present whenever the AIR uses lookups -/
theorem getChallengesFrom_lookupSet (s : ChSt) (a : Air) (c : Config) (pp : ProofWithPis)
    (pad : Option PadParams) (shared : Option (List (GL × GL))) (ctlVars : Option (List CtlVars)) (ign : Bool)
    (ch : Stark.Challenges) (h : getChallengesFrom s a c pp pad shared ctlVars ign = .ok ch) :
    (∀ sh, shared = some sh → ch.lookupSet = some sh) ∧
    (shared = none → ch.lookupSet.isSome = pp.proof.auxCap.isSome ∧
      ∀ ls, ch.lookupSet = some ls → ls.length = c.numChallenges) ∧
    (a.usesLookups = true → ch.lookupSet.isSome = true) := by
  obtain ⟨db, ce, _, e⟩ := getChallengesFrom_ok s a c pp pad shared ctlVars ign ch h
  have els : ch.lookupSet = (lookupDraw (stage1 s c pp.proof ign) pp.proof c.numChallenges shared).2 := by
    rw [e]; rfl
  have hA : ∀ sh, shared = some sh → ch.lookupSet = some sh := by
    intro sh hsh; rw [els, hsh]; rfl
  have hB : shared = none → ch.lookupSet.isSome = pp.proof.auxCap.isSome ∧
      ∀ ls, ch.lookupSet = some ls → ls.length = c.numChallenges := by
    intro hsh
    rw [els, hsh]
    unfold lookupDraw
    cases hc : pp.proof.auxCap with
    | none => exact ⟨rfl, fun ls h => by cases h⟩
    | some cap =>
      refine ⟨rfl, ?_⟩
      intro ls hls
      simp only [Option.some.injEq] at hls
      rw [← hls, List.length_map, List.length_range]
  refine ⟨hA, hB, ?_⟩
  intro hU
  rcases getChallengesFrom_usesLookups s a c pp pad shared ctlVars ign ch h hU with h1 | h1
  · obtain ⟨sh, hsh⟩ := Option.isSome_iff_exists.mp h1
    rw [hA sh hsh]; rfl
  · cases hsh : shared with
    | some sh => rw [hA sh hsh]; rfl
    | none => rw [(hB hsh).1, h1]

/-! ### `CtlCheckVars::from_proof` builds well-formed CTL variables -/

theorem forIn_except_inv {α β ε : Type} (P : β → Prop) (l : List α) (f : α → β → Except ε (ForInStep β))
    (b r : β) (hb : P b)
    (hf : ∀ x ∈ l, ∀ b b', P b → (f x b = .ok (.yield b') ∨ f x b = .ok (.done b')) → P b')
    (h : forIn l b f = .ok r) : P r := by
  induction l generalizing b with
  | nil => cases h; exact hb
  | cons x t ih =>
    rw [List.forIn_cons] at h
    cases hx : f x b with
    | error e => rw [hx] at h; cases h
    | ok st =>
      rw [hx] at h
      cases st with
      | done b' =>
        cases h
        exact hf x List.mem_cons_self b _ hb (Or.inr hx)
      | yield b' =>
        exact ih b' (hf x List.mem_cons_self b b' hb (Or.inl hx))
          (fun y hy => hf y (List.mem_cons_of_mem _ hy)) h

theorem all_append_singleton {α : Type} (P : α → Prop) (l : List α) (v : α) (h : ∀ x ∈ l, P x) (hv : P v) :
    ∀ x ∈ l ++ [v], P x := by
  intro x hx
  rcases List.mem_append.mp hx with h' | h'
  · exact h x h'
  · rw [List.mem_singleton.mp h']; exact hv


theorem lookedOK (degree : Nat) (z zn : GL2) (β γ : GL) (cols : List ColSpec) (f : FilterSpec) :
    CtlVarsOK degree ⟨[], z, zn, β, γ, [cols], [f]⟩ :=
  ⟨fun h => absurd rfl h, fun _ => ⟨Nat.le_refl _, by simp⟩⟩

theorem getD_zero_of_all_zero (l : List Nat) (i : Nat) (h : ∀ n ∈ l, n = 0) : l.getD i 0 = 0 := by
  rw [List.getD_eq_getElem?_getD]
  cases hi : l[i]? with
  | none => rfl
  | some n => exact h n (List.mem_of_getElem? hi)

theorem mineOK (degree : Nat) (byCtl : List Nat) (i : Nat) (zs : List (GL2 × GL2)) (z zn : GL2) (β γ : GL)
    (mine : List CtlSide) (hm : mine.length > 0)
    (hd : (degree ≠ 1 ∧ degree ≤ 3) ∨ ∀ n ∈ byCtl, n = 0) :
    CtlVarsOK degree ⟨(zs.take (byCtl.getD i 0)).map (·.1), z, zn, β, γ, mine.map (·.columns),
      mine.map (·.filter)⟩ := by
  refine ⟨fun hne => ?_, fun _ => ?_⟩
  · rcases hd with ⟨h1, h3⟩ | h0
    · simp only [List.length_map]
      unfold HelperOK lookupChunk
      by_cases hz : degree = 0
      · subst hz; simp; omega
      · simp only [hz, if_false]; omega
    · exfalso
      apply hne
      simp only [getD_zero_of_all_zero byCtl i h0, List.take_zero, List.map_nil]
  · simp only [List.length_map]; omega

theorem ctlVarsFromProof_ok (degree table : Nat) (p : Stark.Proof) (ctls : List CtlSpec)
    (chs : List (GL × GL)) (nlc total : Nat) (byCtl : List Nat) (out : List CtlVars)
    (hd : (degree ≠ 1 ∧ degree ≤ 3) ∨ ∀ n ∈ byCtl, n = 0)
    (h : ctlVarsFromProof table p ctls chs nlc total byCtl = .ok out) :
    ∀ v ∈ out, CtlVarsOK degree v := by
  unfold ctlVarsFromProof at h
  simp only [bind, Except.bind, pure, Except.pure] at h
  split at h
  · cases h
  split at h
  · cases h
  split at h
  · cases h
  rename_i aux _ auxNext _ st hst
  cases h
  refine forIn_except_inv (fun st : Nat × Nat × List CtlVars => ∀ v ∈ st.2.2, CtlVarsOK degree v) _ _ _ _
    (by intro v hv; cases hv) ?_ hst
  intro x _ b b' hb hfx
  obtain ⟨ctl, i⟩ := x
  simp only at hfx
  split at hfx
  · rcases hfx with hfx | hfx <;> cases hfx
  rename_i st' hin
  have hb' : b' = st' := by
    rcases hfx with hfx | hfx
    · simp only [Except.ok.injEq, ForInStep.yield.injEq] at hfx; exact hfx.symm
    · cases hfx
  subst hb'
  refine forIn_except_inv (fun st : Nat × Nat × List CtlVars => ∀ v ∈ st.2.2, CtlVarsOK degree v) _ _ _ _
    hb ?_ hin
  intro y _ c c' hc hfy
  rcases hfy with hfy | hfy
  · repeat' split at hfy
    all_goals first
      | (cases hfy; done)
      | (simp only [Except.ok.injEq, ForInStep.yield.injEq] at hfy
         subst hfy
         first
           | exact hc
           | exact all_append_singleton _ _ _ hc (lookedOK _ _ _ _ _ _ _)
           | exact all_append_singleton _ _ _ hc (mineOK _ _ _ _ _ _ _ _ _ (by assumption) hd)
           | exact all_append_singleton _ _ _ (all_append_singleton _ _ _ hc
               (mineOK _ _ _ _ _ _ _ _ _ (by assumption) hd)) (lookedOK _ _ _ _ _ _ _))
  · repeat' split at hfy
    all_goals first
      | (cases hfy; done)
      | (simp only [Except.ok.injEq, reduceCtorEq] at hfy)

theorem forIn_option_inv' {α β : Type} (P : β → Prop) (l : List α) (f : α → β → Option (ForInStep β))
    (b r : β) (hb : P b)
    (hf : ∀ x ∈ l, ∀ b b', P b → (f x b = some (.yield b') ∨ f x b = some (.done b')) → P b')
    (h : forIn l b f = some r) : P r := by
  induction l generalizing b with
  | nil => cases h; exact hb
  | cons x t ih =>
    rw [List.forIn_cons] at h
    cases hx : f x b with
    | none => rw [hx] at h; cases h
    | some st =>
      rw [hx] at h
      cases st with
      | done b' =>
        cases h
        exact hf x List.mem_cons_self b _ hb (Or.inr hx)
      | yield b' =>
        exact ih b' (hf x List.mem_cons_self b b' hb (Or.inl hx))
          (fun y hy => hf y (List.mem_cons_of_mem _ hy)) h

theorem numCtlHelpersZsAll_byCtl (ctls : List CtlSpec) (table n degree th tz : Nat) (byCtl : List Nat)
    (h : numCtlHelpersZsAll ctls table n degree = some (th, tz, byCtl)) (hd : degree ≤ 1) :
    ∀ k ∈ byCtl, k = 0 := by
  unfold numCtlHelpersZsAll at h
  simp only [bind, Option.bind, pure] at h
  split at h
  · cases h
  rename_i st hst
  simp only [Option.some.injEq, Prod.mk.injEq] at h
  obtain ⟨_, _, rfl⟩ := h
  refine forIn_option_inv' (fun st : Nat × Nat × List Nat => ∀ k ∈ st.2.2, k = 0) _ _ _ _
    (by intro k hk; cases hk) ?_ hst
  intro x _ b b' hb hfx
  rcases hfx with hfx | hfx
  · repeat' split at hfx
    all_goals first
      | (cases hfx; done)
      | omega
      | (simp only [Option.some.injEq, ForInStep.yield.injEq] at hfx
         subst hfx
         first
           | exact hb
           | exact all_append_singleton _ _ _ hb rfl)
  · repeat' split at hfx
    all_goals first
      | (cases hfx; done)
      | omega
      | (simp only [Option.some.injEq, reduceCtorEq] at hfx)

end P2.Lemmas.StarkNoPanic2
