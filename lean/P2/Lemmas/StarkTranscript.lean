/-
Helper lemmas for C09 (c): a staged restatement `getChallengesFromP` of `Stark.getChallengesFrom`
(proved equal to the model function), the Fiat–Shamir schedule as a list of challenger operations.
Core Lean only.
-/
import P2.Model.Stark
namespace P2.Lemmas.StarkTranscript
open P2 P2.Air P2.Stark P2.Merkle

/-! ### the stages of `get_challenges` -/

/-- config, then (unless the caller did it already) the trace cap -/
def stage1 (s : ChSt) (c : Config) (p : Stark.Proof) (ign : Bool) : ChSt :=
  if ign then obs s c.observed else obs (obs s c.observed) (flattenCap p.traceCap)

/-- the lookup challenge set: handed in, or `2·num_challenges` elements drawn iff there is an aux cap -/
def lookupDraw (s : ChSt) (p : Stark.Proof) (n : Nat) (shared : Option (List (GL × GL))) :
    ChSt × Option (List (GL × GL)) :=
  match shared with
  | some sh => (s, some sh)
  | none =>
    match p.auxCap with
    | none => (s, none)
    | some _ =>
      let (s, xs) := getN s (2 * n)
      (s, some ((List.range n).map fun i => (xs.getD (2 * i) 0, xs.getD (2 * i + 1) 0)))

def obsOpt (s : ChSt) (cap : Option (List Digest)) : ChSt :=
  match cap with
  | some cap => obs s (flattenCap cap)
  | none => s

/-- everything after the constraint-binding step: observe the dummy constraint evaluations `ce`,
draw the αs, observe the quotient cap, draw ζ, observe the openings, then `fri_challenges` -/
def tailFrom (s : ChSt) (ce : List GL2) (lookupSet : Option (List (GL × GL))) (c : Config)
    (p : Stark.Proof) (db : Nat) (pad : Option PadParams) : Stark.Challenges :=
  let s := obs s (flattenExt ce)
  let (s, alphas) := getN s c.numChallenges
  let s := obsOpt s p.quotientCap
  let (s, zeta) := getExt s
  let s := obs s (p.openings.toFriOpenings.flatMap flattenExt)
  ⟨lookupSet, alphas, zeta, friChallenges s p.openingProof db c.fri pad⟩

/-- the challenger state right after ζ′ is drawn, i.e. right before the dummy constraint evaluations
are observed -/
def midState (s : ChSt) (a : Air) (c : Config) (p : Stark.Proof) (shared : Option (List (GL × GL)))
    (ign : Bool) : ChSt :=
  let d := lookupDraw (stage1 s c p ign) p c.numChallenges shared
  let g := getN (obsOpt d.1 p.auxCap) c.numChallenges
  let dp := getDummyPolys g.1 a.cols ((p.openings.auxPolys.map (·.length)).getD 0) (max 2 (a.degree + 1))
  (getExt dp.1).1

set_option maxHeartbeats 1000000 in
/-- **structure of `get_challenges`**: whenever it returns, the result is `tailFrom` applied to the
state `midState` (config, trace cap, lookup challenges, aux cap, α′, dummy ζs, ζ′), some list `ce`
of constraint evaluations, and the lookup challenge set drawn at the beginning -/
theorem getChallengesFrom_ok (s : ChSt) (a : Air) (c : Config) (pp : ProofWithPis) (pad : Option PadParams)
    (shared : Option (List (GL × GL))) (ctlVars : Option (List CtlVars)) (ign : Bool) (ch : Stark.Challenges)
    (h : getChallengesFrom s a c pp pad shared ctlVars ign = .ok ch) :
    ∃ db ce, recoverDegreeBits pp.proof c = .ok db ∧
      ch = tailFrom (midState s a c pp.proof shared ign) ce
        (lookupDraw (stage1 s c pp.proof ign) pp.proof c.numChallenges shared).2 c pp.proof db pad := by
  unfold getChallengesFrom at h
  simp only [bind, Except.bind, pure, Except.pure] at h
  repeat' (first
    | (cases h; done)
    | (cases h; exact ⟨_, _, ‹recoverDegreeBits _ _ = Except.ok _›, rfl⟩)
    | split at h)

end P2.Lemmas.StarkTranscript
