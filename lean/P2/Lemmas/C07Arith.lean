/-
C07 helpers: the arithmetic gate over a Mathlib field (closed form, satisfaction ↔ generator
equations, pinning, other constraints unaffected).
-/
import P2.Lemmas.C07
set_option linter.unusedSectionVars false
namespace P2.Lemmas.C07
open P2 P2.Gates
section
variable {K : Type} [Field K] [DecidableEq K] [Inhabited K]

/-- constraint `i` of the arithmetic gate, in field notation -/
theorem arithmetic_con (n : Nat) (v : EvalVars K) (i : Nat) :
    con (.arithmetic n) v i = if i < n then
      v.wires[4 * i + 3]! - (v.wires[4 * i]! * v.wires[4 * i + 1]! * v.constants[0]!
        + v.wires[4 * i + 2]! * v.constants[1]!) else 0 := by
  simp only [con, evalF, GateKind.evalUnfiltered, evalArithmetic, getD_map_range]
  rfl

theorem arithmetic_sat_iff (n : Nat) (v : EvalVars K) :
    Sat (.arithmetic n) v ↔ ∀ i, i < n →
      v.wires[4 * i + 3]! = v.wires[4 * i]! * v.wires[4 * i + 1]! * v.constants[0]!
        + v.wires[4 * i + 2]! * v.constants[1]! := by
  rw [sat_iff_con]
  constructor
  · intro h i hi
    have := h i
    rw [arithmetic_con, if_pos hi, sub_eq_zero] at this
    exact this
  · intro h i
    rw [arithmetic_con]
    split
    · next hi => rw [sub_eq_zero]; exact h i hi
    · rfl

theorem arithmetic_pinned (n : Nat) (v v' : EvalVars K) (i : Nat) (hi : i < n)
    (hd : DiffersOnlyAt v v' (4 * i + 3)) (h0 : con (.arithmetic n) v i = 0) :
    con (.arithmetic n) v' i ≠ 0 := by
  rw [arithmetic_con, if_pos hi] at h0 ⊢
  rw [hd.constants, hd.same (4 * i) (by omega), hd.same (4 * i + 1) (by omega),
    hd.same (4 * i + 2) (by omega)]
  intro h
  apply hd.diff
  rw [sub_eq_zero] at h h0
  rw [h, h0]

theorem arithmetic_others (n : Nat) (v v' : EvalVars K) (i : Nat)
    (hd : DiffersOnlyAt v v' (4 * i + 3)) (j : Nat) (hj : j ≠ i) :
    con (.arithmetic n) v' j = con (.arithmetic n) v j := by
  rw [arithmetic_con, arithmetic_con]
  rw [hd.constants, hd.same (4 * j) (by omega), hd.same (4 * j + 1) (by omega),
    hd.same (4 * j + 2) (by omega), hd.same (4 * j + 3) (by omega)]
end
end P2.Lemmas.C07
