/-
Helper lemmas for C09d: when `get_challenges` (single table) returns — `get_dummy_polys` always
succeeds, `compute_eval_vanishing_poly` on the dummy openings. Core Lean only.
-/
import P2.Lemmas.StarkNoPanic2
namespace P2.Lemmas.StarkGetChallenges
open P2 P2.Air P2.Stark P2.Lemmas.Stark P2.Lemmas.StarkNoPanic P2.Lemmas.StarkNoPanic2
open P2.Lemmas.StarkTranscript

/-! ### `get_dummy_polys` never fails -/

theorem getExts_fold_length (l : List Nat) (s : ChSt) (pre : List GL2) :
    (l.foldl (fun (acc : ChSt × List GL2) _ => let (s, x) := getExt acc.1; (s, acc.2 ++ [x])) (s, pre)).2.length
      = pre.length + l.length := by
  induction l generalizing s pre with
  | nil => rfl
  | cons x t ih => simp only [List.foldl_cons, ih, List.length_append, List.length_cons, List.length_nil]; omega

theorem getExts_length (s : ChSt) (n : Nat) : (getExts s n).2.length = n := by
  unfold getExts
  rw [getExts_fold_length]; simp

theorem powers_fold_length (pd : Nat) (l : List Nat) (pre : List GL2) (z : GL2) :
    (l.foldl (fun (acc : List GL2 × GL2) _ => (acc.1 ++ [acc.2], FOps.pow acc.2 pd)) (pre, z)).1.length
      = pre.length + l.length := by
  induction l generalizing pre z with
  | nil => rfl
  | cons x t ih => simp only [List.foldl_cons, ih, List.length_append, List.length_cons, List.length_nil]; omega

theorem flatMap_length_const {α β : Type} (f : α → List β) (m : Nat) (h : ∀ x, (f x).length = m) (l : List α) :
    (l.flatMap f).length = l.length * m := by
  induction l with
  | nil => simp
  | cons x t ih => simp only [List.flatMap_cons, List.length_append, h, ih, List.length_cons, Nat.succ_mul]; omega

theorem dummy_count (total k : Nat) (hk : 1 ≤ k) :
    total ≤ ((total + k - 1) / k) * min (k + 1) total := by
  have hq : total ≤ k * ((total + k - 1) / k) := by
    have := Nat.div_add_mod (total + k - 1) k
    have hr := Nat.mod_lt (total + k - 1) (show 0 < k by omega)
    omega
  generalize (total + k - 1) / k = q at hq ⊢
  by_cases h : total ≤ k + 1
  · rw [Nat.min_eq_right h]
    by_cases h0 : total = 0
    · omega
    · have hq1 : 1 ≤ q := by
        rcases Nat.eq_zero_or_pos q with h' | h'
        · rw [h'] at hq; omega
        · exact h'
      calc total = 1 * total := (Nat.one_mul _).symm
        _ ≤ _ := Nat.mul_le_mul_right _ hq1
  · rw [Nat.min_eq_left (by omega), Nat.mul_succ, Nat.mul_comm q k]
    omega

/-- **`get_dummy_polys` always returns**, with `num_trace` local and next values, and auxiliary
values exactly when `num_aux > 0` (then `num_aux` of each) -/
theorem getDummyPolys_some (s : ChSt) (nt na pd : Nat) :
    ∃ dl dn da dan, (getDummyPolys s nt na pd).2 = some (dl, dn, da, dan) ∧ dl.length = nt ∧ dn.length = nt ∧
      (na = 0 → da = none ∧ dan = none) ∧
      (0 < na → ∃ x y, da = some x ∧ dan = some y ∧ x.length = na ∧ na ≤ y.length) := by
  unfold getDummyPolys
  simp only []
  generalize hk : max 1 (50 / log2Ceil pd - 1) = k
  have hk1 : 1 ≤ k := by rw [← hk]; exact Nat.le_max_left _ _
  generalize hz : getExts s ((nt * 2 + na * 2 + k - 1) / k) = gz
  have hzl : gz.2.length = (nt * 2 + na * 2 + k - 1) / k := by rw [← hz]; exact getExts_length _ _
  generalize hev : (gz.2.flatMap fun z =>
    ((List.range (min (k + 1) (nt * 2 + na * 2))).foldl
      (fun (acc : List GL2 × GL2) _ => (acc.1 ++ [acc.2], FOps.pow acc.2 pd)) ([], z)).1) = evals
  have hel : nt * 2 + na * 2 ≤ evals.length := by
    rw [← hev, flatMap_length_const _ (min (k + 1) (nt * 2 + na * 2))
      (fun z => by rw [powers_fold_length]; simp), hzl]
    exact dummy_count _ _ hk1
  rw [if_neg (by omega)]
  refine ⟨_, _, _, _, rfl, ?_, ?_, ?_, ?_⟩
  · rw [List.length_take]; omega
  · rw [List.length_take, List.length_drop]; omega
  · intro h0; simp [h0]
  · intro hp
    have : decide (na > 0) = true := by simpa using hp
    refine ⟨(evals.drop (nt * 2)).take na, evals.drop (nt * 2 + na), by simp [hp], by simp [hp], ?_, ?_⟩
    · rw [List.length_take, List.length_drop]; omega
    · rw [List.length_drop]; omega

theorem getDummyPolys_spec (s : ChSt) (nt na pd : Nat) (gd : ChSt × Option (List GL2 × List GL2 × Option (List GL2) × Option (List GL2)))
    (h : getDummyPolys s nt na pd = gd) :
    ∃ dl dn da dan, gd.2 = some (dl, dn, da, dan) ∧ dl.length = nt ∧ dn.length = nt ∧
      (na = 0 → da = none ∧ dan = none) ∧
      (0 < na → ∃ x y, da = some x ∧ dan = some y ∧ x.length = na ∧ na ≤ y.length) := by
  subst h; exact getDummyPolys_some s nt na pd

/-! ### `compute_eval_vanishing_poly` on the dummy openings -/

theorem computeEvalVanishingPoly_ok (a : Air) (dl dn : List GL2) (da dan : Option (List GL2))
    (lc : Option (List GL)) (ctlVars : Option (List CtlVars)) (pis alphas : List GL) (zeta : GL2) (db nlc : Nat)
    (hcons : ∃ s, consumerAt alphas db zeta = .ok s)
    (hl : dl.length = a.cols) (hn : dn.length = a.cols) (hp : pis.length = a.pis) (hlo : LookupsOK a)
    (hlk : ∀ chs, lc = some chs → sumNh a.degree a.lookups * chs.length ≤ nlc ∧
      ∃ x y, da = some x ∧ dan = some y ∧ nlc ≤ x.length ∧ nlc ≤ y.length)
    (hctl : ∀ cv, ctlVars = some cv → ∀ v ∈ cv, CtlVarsOK a.degree v) :
    ∃ ce, computeEvalVanishingPoly a dl dn da dan lc ctlVars pis alphas zeta db nlc = .ok ce := by
  obtain ⟨s, hs⟩ := hcons
  unfold computeEvalVanishingPoly
  have hf : frameCheck a dl dn pis = .ok () := by unfold frameCheck; rw [if_pos ⟨hl, hn, hp⟩]
  simp only [hs, hf, bind, Except.bind, pure, Except.pure]
  cases lc with
  | none =>
    obtain ⟨van, e, _⟩ := evalVanishingPoly_some alphas.length a dl dn pis none ctlVars s
      (consumerAt_inv alphas db zeta s hs) (fun _ _ _ h => by cases h) hctl
    rw [e]; exact ⟨van, rfl⟩
  | some chs =>
    obtain ⟨hle, x, y, rfl, rfl, hx, hy⟩ := hlk chs rfl
    simp only [orPanic]
    rw [if_neg (by omega)]
    obtain ⟨van, e, _⟩ := evalVanishingPoly_some alphas.length a dl dn pis
      (some (x.take nlc, y.take nlc, chs)) ctlVars s
      (consumerAt_inv alphas db zeta s hs)
      (fun la na chs' h => by
        simp only [Option.some.injEq, Prod.mk.injEq] at h
        obtain ⟨rfl, rfl, rfl⟩ := h
        refine ⟨hlo, ?_, ?_⟩
        · rw [List.length_take]; omega
        · rw [List.length_take]; omega) hctl
    rw [e]; exact ⟨van, rfl⟩

/-! ### `get_challenges` (single table) -/

/-- challenger state of the single-table `get_challenges` right after the α′ are drawn, and the α′ -/
def alphaPrimeDraw (c : Config) (pp : ProofWithPis) : ChSt × List GL :=
  let s0 := obs (Challenger.init perm) pp.publicInputs
  let d := lookupDraw (stage1 s0 c pp.proof false) pp.proof c.numChallenges none
  getN (obsOpt d.1 pp.proof.auxCap) c.numChallenges

/-- the α′ of the constraint-binding step -/
def alphasPrime (c : Config) (pp : ProofWithPis) : List GL := (alphaPrimeDraw c pp).2

/-- the ζ′ of the constraint-binding step (drawn after the dummy ζs) -/
def zetaPrime (a : Air) (c : Config) (pp : ProofWithPis) : GL2 :=
  (getExt (getDummyPolys (alphaPrimeDraw c pp).1 a.cols
    ((pp.proof.openings.auxPolys.map (·.length)).getD 0) (max 2 (a.degree + 1))).1).2

theorem getChallenges_returns (a : Air) (c : Config) (pp : ProofWithPis) (pad : Option PadParams) (db : Nat)
    (hlo : LookupsOK a) (hp : pp.publicInputs.length = a.pis)
    (hdb : recoverDegreeBits pp.proof c = .ok db)
    (haux : a.usesLookups = true → pp.proof.auxCap.isSome = true ∧
      ∃ aux, pp.proof.openings.auxPolys = some aux ∧ 0 < aux.length ∧
        sumNh a.degree a.lookups * c.numChallenges ≤ aux.length)
    (hcons : ∃ s, consumerAt (alphasPrime c pp) db (zetaPrime a c pp) = .ok s) :
    ∃ ch, getChallenges a c pp pad = .ok ch := by
  have hnl := numLookupHelperColumns_eq a c (lookupsOK_chunk a hlo)
  obtain ⟨⟨traceCap, auxCap, quotientCap, openings, openingProof⟩, pis⟩ := pp
  unfold getChallenges getChallengesFrom
  simp only [bind, Except.bind, pure, Except.pure, hdb, hnl, orPanic, Bool.false_eq_true, if_false]
  by_cases hU : a.usesLookups = true
  · obtain ⟨hcap, aux, haux1, haux2, haux3⟩ := haux hU
    cases auxCap with
    | none => cases hcap
    | some cap =>
      simp only [hU, if_true]
      unfold alphasPrime zetaPrime alphaPrimeDraw lookupDraw stage1 obsOpt at hcons
      simp only [Bool.false_eq_true, if_false] at hcons
      generalize hgd : getDummyPolys _ _ _ _ = gd at hcons ⊢
      obtain ⟨dl, dn, da, dan, e, h1, h2, _, h4⟩ := getDummyPolys_spec _ _ _ _ gd hgd
      obtain ⟨gs, gdo⟩ := gd
      simp only at e
      subst e
      simp only []
      generalize hcv : computeEvalVanishingPoly _ _ _ _ _ _ _ _ _ _ _ _ = r
      obtain ⟨ce, hce⟩ : ∃ ce, r = .ok ce := by
        rw [← hcv]
        apply computeEvalVanishingPoly_ok
        · exact hcons
        · exact h1
        · exact h2
        · exact hp
        · exact hlo
        · intro chs hchs
          simp only [Option.some.injEq] at hchs
          subst hchs
          simp only [List.length_map, List.length_range]
          simp only at haux1
          rw [haux1] at h4
          obtain ⟨x, y, rfl, rfl, hx, hy⟩ := h4 haux2
          simp only [Option.map_some, Option.getD_some] at hx hy
          exact ⟨Nat.le_refl _, x, y, rfl, rfl, by omega, by omega⟩
        · intro cv h; cases h
      subst hce
      exact ⟨_, rfl⟩
  · simp only [hU]
    unfold alphasPrime zetaPrime alphaPrimeDraw lookupDraw stage1 obsOpt at hcons
    cases auxCap with
    | none =>
      simp only [Bool.false_eq_true, if_false] at hcons ⊢
      generalize hgd : getDummyPolys _ _ _ _ = gd at hcons ⊢
      obtain ⟨dl, dn, da, dan, e, h1, h2, _, _⟩ := getDummyPolys_spec _ _ _ _ gd hgd
      obtain ⟨gs, gdo⟩ := gd
      simp only at e
      subst e
      simp only []
      generalize hcv : computeEvalVanishingPoly _ _ _ _ _ _ _ _ _ _ _ _ = r
      obtain ⟨ce, hce⟩ : ∃ ce, r = .ok ce := by
        rw [← hcv]
        apply computeEvalVanishingPoly_ok
        · exact hcons
        · exact h1
        · exact h2
        · exact hp
        · exact hlo
        · intro chs hchs; cases hchs
        · intro cv h; cases h
      subst hce
      exact ⟨_, rfl⟩
    | some cap =>
      simp only [Bool.false_eq_true, if_false] at hcons ⊢
      generalize hgd : getDummyPolys _ _ _ _ = gd at hcons ⊢
      obtain ⟨dl, dn, da, dan, e, h1, h2, _, _⟩ := getDummyPolys_spec _ _ _ _ gd hgd
      obtain ⟨gs, gdo⟩ := gd
      simp only at e
      subst e
      simp only []
      generalize hcv : computeEvalVanishingPoly _ _ _ _ _ _ _ _ _ _ _ _ = r
      obtain ⟨ce, hce⟩ : ∃ ce, r = .ok ce := by
        rw [← hcv]
        apply computeEvalVanishingPoly_ok
        · exact hcons
        · exact h1
        · exact h2
        · exact hp
        · exact hlo
        · intro chs hchs; cases hchs
        · intro cv h; cases h
      subst hce
      exact ⟨_, rfl⟩

end P2.Lemmas.StarkGetChallenges
