/-
Helpers for C02b / C01b: the field-generic PLONK pieces of `P2.Model.PlonkAlg` over an arbitrary
Mathlib field (operations through `FOps.ofField K`).
-/
import Mathlib.Tactic.Ring
import Mathlib.Tactic.Linarith
import Mathlib.Tactic.LinearCombination
import Mathlib.Tactic.FieldSimp
import Mathlib.Tactic.NormNum
import Mathlib.Algebra.BigOperators.Fin
import Mathlib.Algebra.BigOperators.Intervals
import Mathlib.Algebra.Polynomial.Roots
import Mathlib.RingTheory.RootsOfUnity.PrimitiveRoots
import Mathlib.Algebra.CharP.Basic
import P2.Lemmas.C15
import P2.Model.PlonkAlg
import P2.Model.Circuit
namespace P2.Circuit

/-- what the builder knows about an operand agrees with its value under the assignment -/
def Operand.Consistent {K : Type} [Zero K] (o : Operand K) : Prop :=
  (∀ c, o.knownConst = some c → o.value = c) ∧ (o.isZeroTarget = true → o.value = 0)

end P2.Circuit

namespace P2.Lemmas.PlonkAlg
open P2 P2.PlonkAlg P2.Circuit

section
variable {K : Type} [Field K] [DecidableEq K]

/-! ## basic bridges -/

theorem beq_iff (a b : K) : (@BEq.beq K (FOps.ofField K).toBEq a b) = true ↔ a = b := by
  show (decide (a = b)) = true ↔ a = b
  simp

theorem prod_eq (xs : List K) : @FOps.prod K (FOps.ofField K) xs = xs.prod := by
  unfold FOps.prod
  rw [List.prod_eq_foldl]
  rfl

/-! ## A. selector filters -/

omit [DecidableEq K] in
theorem foldl_mul_eq_zero {ι : Type} (f : ι → K) (l : List ι) (a : K) :
    l.foldl (fun acc i => acc * f i) a = 0 ↔ a = 0 ∨ ∃ i ∈ l, f i = 0 := by
  induction l generalizing a with
  | nil => simp
  | cons x l ih =>
    rw [List.foldl_cons, ih, mul_eq_zero]
    simp only [List.mem_cons, exists_eq_or_imp]
    tauto

/-- the index list of `compute_filter` -/
def filterIdxs (row : Nat) (group : Nat × Nat) (many : Bool) : List Nat :=
  ((List.range (group.2 - group.1)).map (· + group.1)).filter (· ≠ row) ++
    (if many then [UNUSED_SELECTOR] else [])

theorem mem_filterIdxs (row lo hi : Nat) (many : Bool) (i : Nat) :
    i ∈ filterIdxs row (lo, hi) many ↔
      (lo ≤ i ∧ i < hi ∧ i ≠ row) ∨ (many = true ∧ i = UNUSED_SELECTOR) := by
  unfold filterIdxs
  simp only [List.mem_append, List.mem_filter, List.mem_map, List.mem_range, decide_eq_true_eq]
  constructor
  · rintro (⟨⟨a, ha, rfl⟩, hne⟩ | h)
    · left; omega
    · right
      cases many <;> simp_all
  · rintro (⟨h1, h2, h3⟩ | ⟨h1, h2⟩)
    · left; exact ⟨⟨i - lo, by omega, by omega⟩, h3⟩
    · right; simp [h1, h2]

theorem computeFilter_eq_zero_iff (row : Nat) (group : Nat × Nat) (s : K) (many : Bool) :
    @computeFilter K (FOps.ofField K) row group s many = 0 ↔
      ∃ i ∈ filterIdxs row group many, (i : K) = s := by
  unfold computeFilter
  show List.foldl (fun (acc : K) (i : Nat) => acc * ((i : K) - s)) (1 : K)
    (filterIdxs row group many) = 0 ↔ _
  rw [foldl_mul_eq_zero (fun i : Nat => (i : K) - s)]
  simp [sub_eq_zero]

theorem unused_eq : UNUSED_SELECTOR = 2 ^ 32 - 1 := by decide

/-- A: on a row whose selector value is `j`, the filter of gate index `row` vanishes iff `j ≠ row` -/
theorem computeFilter_selector (lo hi row j : Nat) (many : Bool)
    (hinj : ∀ a b : Nat, a < 2 ^ 32 → b < 2 ^ 32 → (a : K) = (b : K) → a = b)
    (hrow : lo ≤ row ∧ row < hi) (hhi : hi ≤ 2 ^ 32 - 1)
    (hj : (lo ≤ j ∧ j < hi) ∨ (many = true ∧ j = UNUSED_SELECTOR)) :
    @computeFilter K (FOps.ofField K) row (lo, hi) (j : K) many = 0 ↔ j ≠ row := by
  rw [computeFilter_eq_zero_iff]
  have hU := unused_eq
  constructor
  · rintro ⟨i, hi', he⟩
    rw [mem_filterIdxs] at hi'
    have hjlt : j < 2 ^ 32 := by rcases hj with h | h <;> omega
    have hilt : i < 2 ^ 32 := by rcases hi' with h | h <;> omega
    have := hinj i j hilt hjlt he
    subst this
    rcases hi' with h | h <;> omega
  · intro hne
    refine ⟨j, ?_, rfl⟩
    rw [mem_filterIdxs]
    rcases hj with h | h
    · left; omega
    · right; exact h

/-- the excluded case: with a single selector polynomial (`many = false`) the value
`UNUSED_SELECTOR` annihilates nothing -/
theorem computeFilter_unused_single (lo hi row : Nat)
    (hinj : ∀ a b : Nat, a < 2 ^ 32 → b < 2 ^ 32 → (a : K) = (b : K) → a = b)
    (hhi : hi ≤ 2 ^ 32 - 1) :
    @computeFilter K (FOps.ofField K) row (lo, hi) ((UNUSED_SELECTOR : Nat) : K) false ≠ 0 := by
  rw [Ne, computeFilter_eq_zero_iff]
  have hU := unused_eq
  rintro ⟨i, hi', he⟩
  rw [mem_filterIdxs] at hi'
  rcases hi' with h | h
  · have := hinj i UNUSED_SELECTOR (by omega) (by omega) he
    omega
  · simp at h

omit [DecidableEq K] in
theorem hinj_of_charP (p : Nat) [CharP K p] (hp : 2 ^ 32 ≤ p) :
    ∀ a b : Nat, a < 2 ^ 32 → b < 2 ^ 32 → (a : K) = (b : K) → a = b := by
  intro a b ha hb h
  rw [CharP.natCast_eq_natCast K p] at h
  exact Nat.ModEq.eq_of_lt_of_lt h (by omega) (by omega)

/-! ## B. α-combination -/

theorem reduce_eq_eval (terms : List K) (α : K) :
    @reduceWithPowers K (FOps.ofField K) terms α = @Poly.eval K (FOps.ofField K) terms α := rfl

theorem reduce_nil (α : K) : @reduceWithPowers K (FOps.ofField K) [] α = 0 := rfl

theorem reduce_cons (a : K) (l : List K) (α : K) :
    @reduceWithPowers K (FOps.ofField K) (a :: l) α
      = @reduceWithPowers K (FOps.ofField K) l α * α + a := rfl

open Polynomial in
/-- the polynomial with coefficient list `l` (low degree first) -/
noncomputable def listPoly : List K → Polynomial K
  | [] => 0
  | a :: l => listPoly l * X + C a

omit [DecidableEq K] in
theorem listPoly_coeff (l : List K) (i : Nat) : (listPoly l).coeff i = l.getD i 0 := by
  induction l generalizing i with
  | nil => simp [listPoly]
  | cons a l ih =>
    cases i with
    | zero => simp [listPoly]
    | succ i => simp [listPoly, ih]

theorem listPoly_eval (l : List K) (α : K) :
    (listPoly l).eval α = @reduceWithPowers K (FOps.ofField K) l α := by
  induction l with
  | nil => simp [listPoly, reduce_nil]
  | cons a l ih => simp [listPoly, reduce_cons, ih]

omit [DecidableEq K] in
theorem listPoly_degree_lt (l : List K) : (listPoly l).degree < l.length := by
  rw [Polynomial.degree_lt_iff_coeff_zero]
  intro m hm
  rw [listPoly_coeff]
  simp [List.getD_eq_getElem?_getD, List.getElem?_eq_none hm]

omit [DecidableEq K] in
theorem listPoly_ne_zero (l : List K) (h : ∃ t ∈ l, t ≠ 0) : listPoly l ≠ 0 := by
  obtain ⟨t, ht, hne⟩ := h
  obtain ⟨i, hi, rfl⟩ := List.getElem_of_mem ht
  intro h0
  apply hne
  have := listPoly_coeff l i
  rw [h0] at this
  simp [hi] at this
  exact this.symm

omit [DecidableEq K] in
theorem listPoly_natDegree_le (l : List K) (h : ∃ t ∈ l, t ≠ 0) :
    (listPoly l).natDegree ≤ l.length - 1 := by
  have := (Polynomial.natDegree_lt_iff_degree_lt (listPoly_ne_zero l h)).2 (listPoly_degree_lt l)
  omega

theorem reduce_zeros_card (terms : List K) (h : ∃ t ∈ terms, t ≠ 0) (S : Finset K)
    (hS : ∀ α ∈ S, @reduceWithPowers K (FOps.ofField K) terms α = 0) :
    S.card ≤ terms.length - 1 := by
  have hp := listPoly_ne_zero terms h
  refine le_trans (Polynomial.card_le_degree_of_subset_roots (p := listPoly terms) ?_)
    (listPoly_natDegree_le terms h)
  intro α hα
  rw [Polynomial.mem_roots hp, Polynomial.IsRoot, listPoly_eval]
  exact hS α hα

theorem reduce_zero_set_eq (terms : List K) (h : ∃ t ∈ terms, t ≠ 0) :
    {α : K | @reduceWithPowers K (FOps.ofField K) terms α = 0}
      = ↑((listPoly terms).roots.toFinset) := by
  ext α
  simp [Polynomial.mem_roots (listPoly_ne_zero terms h), Polynomial.IsRoot, listPoly_eval]

theorem reduce_zero_set (terms : List K) (h : ∃ t ∈ terms, t ≠ 0) :
    {α : K | @reduceWithPowers K (FOps.ofField K) terms α = 0}.Finite ∧
    {α : K | @reduceWithPowers K (FOps.ofField K) terms α = 0}.ncard ≤ terms.length - 1 := by
  rw [reduce_zero_set_eq terms h]
  refine ⟨Finset.finite_toSet _, ?_⟩
  rw [Set.ncard_coe_finset]
  apply reduce_zeros_card terms h
  intro α hα
  have : α ∈ {α : K | @reduceWithPowers K (FOps.ofField K) terms α = 0} := by
    rw [reduce_zero_set_eq terms h]; exact hα
  exact this

theorem reduce_eq_sum (terms : List K) (α : K) :
    @reduceWithPowers K (FOps.ofField K) terms α = ∑ i : Fin terms.length, terms[i] * α ^ (i : Nat) :=
  C15.eval_eq_sum terms α

theorem reduce_eq_sum_range (terms : List K) (α : K) :
    @reduceWithPowers K (FOps.ofField K) terms α
      = ∑ i ∈ Finset.range terms.length, terms.getD i 0 * α ^ i :=
  C15.eval_eq_sum_range terms α

/-- contrapositive of the root bound: vanishing at `terms.length` distinct points forces every
term to be zero -/
theorem reduce_terms_zero_of_many_zeros (terms : List K) (S : Finset K)
    (hcard : terms.length ≤ S.card)
    (hS : ∀ α ∈ S, @reduceWithPowers K (FOps.ofField K) terms α = 0) :
    ∀ t ∈ terms, t = 0 := by
  by_contra hne
  push Not at hne
  have h1 := reduce_zeros_card terms hne S hS
  obtain ⟨t, ht, _⟩ := hne
  have : 0 < terms.length := List.length_pos_of_mem ht
  omega

/-- F: all terms zero ⇒ the combination is zero for every `α` -/
theorem reduce_of_all_zero (terms : List K) (h : ∀ t ∈ terms, t = 0) (α : K) :
    @reduceWithPowers K (FOps.ofField K) terms α = 0 := by
  induction terms with
  | nil => rfl
  | cons a l ih =>
    rw [reduce_cons, ih (fun t ht => h t (List.mem_cons_of_mem _ ht)), h a List.mem_cons_self]
    simp

/-! ## D. `eval_l_0` -/

theorem evalL0_eq (n : Nat) (x : K) :
    @evalL0 K (FOps.ofField K) n x
      = if x = 1 then 1 else (x ^ n - 1) * ((n : K) * (x - 1))⁻¹ := by
  unfold evalL0
  rw [C15.pow_eq]
  show (if (x == (1 : K)) = true then (1 : K) else (x ^ n - 1) * ((n : K) * (x - 1))⁻¹) = _
  simp only [beq_iff_eq]

theorem evalL0_root (n : Nat) (ω : K) (hω : IsPrimitiveRoot ω n) (k : Nat) :
    @evalL0 K (FOps.ofField K) n (ω ^ k) = if k % n = 0 then 1 else 0 := by
  rw [evalL0_eq]
  have hiff : ω ^ k = 1 ↔ k % n = 0 := by
    rw [hω.pow_eq_one_iff_dvd, Nat.dvd_iff_mod_eq_zero]
  by_cases hk : k % n = 0
  · rw [if_pos hk, if_pos (hiff.2 hk)]
  · have h1 : (ω ^ k) ^ n = 1 := by rw [← pow_mul, mul_comm, pow_mul, hω.pow_eq_one, one_pow]
    rw [if_neg hk, if_neg (fun h => hk (hiff.1 h)), h1]
    simp

theorem evalL0_of_pow_eq_one (n : Nat) (x : K) (hx : x ≠ 1) (hxn : x ^ n = 1) :
    @evalL0 K (FOps.ofField K) n x = 0 := by
  rw [evalL0_eq, if_neg hx, hxn]
  simp

theorem evalL0_mul (n : Nat) (hn : (n : K) ≠ 0) (x : K) (hx : x ≠ 1) :
    @evalL0 K (FOps.ofField K) n x * ((n : K) * (x - 1)) = x ^ n - 1 := by
  rw [evalL0_eq, if_neg hx]
  have : (n : K) * (x - 1) ≠ 0 := mul_ne_zero hn (sub_ne_zero.2 hx)
  field_simp

/-! ## C. partial products -/

theorem chunksOf_length {α : Type} (d : Nat) (hd : 0 < d) (xs : List α) :
    (chunksOf d xs).length = (xs.length + d - 1) / d := by
  simp [chunksOf, Nat.ne_of_gt hd]

theorem chunksOf_getD {α : Type} (d : Nat) (hd : 0 < d) (xs : List α) (i : Nat)
    (hi : i < (xs.length + d - 1) / d) :
    (chunksOf d xs).getD i [] = (xs.drop (i * d)).take d := by
  simp [chunksOf, Nat.ne_of_gt hd, List.getD_eq_getElem?_getD, hi]

theorem numChunks_mul_ge (len d : Nat) (hd : 0 < d) : len ≤ (len + d - 1) / d * d := by
  have h1 := Nat.div_add_mod (len + d - 1) d
  have h2 := Nat.mod_lt (len + d - 1) hd
  rw [Nat.mul_comm] at h1
  omega

omit [DecidableEq K] in
/-- the accumulator list `[z_x] ++ partials ++ [z_gx]` -/
theorem accs_zero (partials : List K) (zx zgx : K) :
    (zx :: partials ++ [zgx]).getD 0 0 = zx := rfl

omit [DecidableEq K] in
theorem accs_succ_lt (partials : List K) (zx zgx : K) (i : Nat) (hi : i < partials.length) :
    (zx :: partials ++ [zgx]).getD (i + 1) 0 = partials.getD i 0 := by
  simp [List.getD_eq_getElem?_getD, List.getElem?_append_left hi]

omit [DecidableEq K] in
theorem accs_last (partials : List K) (zx zgx : K) :
    (zx :: partials ++ [zgx]).getD (partials.length + 1) 0 = zgx := by
  simp [List.getD_eq_getElem?_getD]

theorem check_eq (nums dens partials : List K) (zx zgx : K) (d : Nat) (hd : 0 < d)
    (hlen : nums.length = dens.length) :
    @checkPartialProducts K (FOps.ofField K) nums dens partials zx zgx d
      = (List.range ((nums.length + d - 1) / d)).map fun i =>
          (zx :: partials ++ [zgx]).getD i 0 * ((nums.drop (i * d)).take d).prod
          - (zx :: partials ++ [zgx]).getD (i + 1) 0 * ((dens.drop (i * d)).take d).prod := by
  unfold checkPartialProducts
  simp only [chunksOf_length d hd]
  apply List.map_congr_left
  intro i hi
  rw [List.mem_range] at hi
  rw [chunksOf_getD d hd nums i hi, chunksOf_getD d hd dens i (hlen ▸ hi), prod_eq, prod_eq]
  rfl

/-- C(i) -/
theorem check_all_zero_iff (nums dens partials : List K) (zx zgx : K) (d : Nat) (hd : 0 < d)
    (hlen : nums.length = dens.length) :
    (∀ t ∈ @checkPartialProducts K (FOps.ofField K) nums dens partials zx zgx d, t = 0) ↔
    ∀ i, i < (nums.length + d - 1) / d →
      (zx :: partials ++ [zgx]).getD i 0 * ((nums.drop (i * d)).take d).prod
        = (zx :: partials ++ [zgx]).getD (i + 1) 0 * ((dens.drop (i * d)).take d).prod := by
  rw [check_eq nums dens partials zx zgx d hd hlen]
  simp only [List.mem_map, List.mem_range]
  constructor
  · intro h i hi
    exact sub_eq_zero.1 (h _ ⟨i, hi, rfl⟩)
  · rintro h t ⟨i, hi, rfl⟩
    exact sub_eq_zero.2 (h i hi)

omit [DecidableEq K] in
theorem take_succ_mul_prod (xs : List K) (i d : Nat) :
    (xs.take ((i + 1) * d)).prod = (xs.take (i * d)).prod * ((xs.drop (i * d)).take d).prod := by
  rw [Nat.add_mul, Nat.one_mul, List.take_add, List.prod_append]

/-- prefix form of the telescoping: accumulator `i` relates the products of the first `i` chunks -/
theorem check_prefix (nums dens partials : List K) (zx zgx : K) (d : Nat) (hd : 0 < d)
    (hlen : nums.length = dens.length)
    (h : ∀ t ∈ @checkPartialProducts K (FOps.ofField K) nums dens partials zx zgx d, t = 0)
    (i : Nat) (hi : i ≤ (nums.length + d - 1) / d) :
    (zx :: partials ++ [zgx]).getD i 0 * (dens.take (i * d)).prod
      = zx * (nums.take (i * d)).prod := by
  rw [check_all_zero_iff nums dens partials zx zgx d hd hlen] at h
  induction i with
  | zero => simp
  | succ i ih =>
    have h1 := ih (by omega)
    have h2 := h i (by omega)
    rw [take_succ_mul_prod, take_succ_mul_prod]
    linear_combination ((nums.drop (i * d)).take d).prod * h1 - (dens.take (i * d)).prod * h2

/-- C(ii): telescoping (no hypothesis on `dens` is needed) -/
theorem check_telescope (nums dens partials : List K) (zx zgx : K) (d : Nat) (hd : 0 < d)
    (hlen : nums.length = dens.length) (hp : partials.length + 1 = (nums.length + d - 1) / d)
    (h : ∀ t ∈ @checkPartialProducts K (FOps.ofField K) nums dens partials zx zgx d, t = 0) :
    zgx * dens.prod = zx * nums.prod := by
  have := check_prefix nums dens partials zx zgx d hd hlen h _ (le_refl _)
  rw [← hp, accs_last, hp, List.take_of_length_le (hlen ▸ numChunks_mul_ge nums.length d hd),
    List.take_of_length_le (numChunks_mul_ge nums.length d hd)] at this
  exact this

omit [DecidableEq K] in
theorem chunk_prod_ne_zero (dens : List K) (hne : ∀ x ∈ dens, x ≠ 0) (i d : Nat) :
    ((dens.drop (i * d)).take d).prod ≠ 0 := by
  apply List.prod_ne_zero
  intro h0
  exact hne 0 (List.mem_of_mem_drop (List.mem_of_mem_take h0)) rfl

/-- C(iii): completeness -/
theorem check_complete (nums dens partials : List K) (zx zgx : K) (d : Nat) (hd : 0 < d)
    (hlen : nums.length = dens.length) (hp : partials.length + 1 = (nums.length + d - 1) / d)
    (hne : ∀ x ∈ dens, x ≠ 0)
    (hpart : ∀ i, i < partials.length →
      partials.getD i 0 = zx * ∏ k ∈ Finset.range (i + 1),
        (((nums.drop (k * d)).take d).prod / ((dens.drop (k * d)).take d).prod))
    (hz : zgx = zx * ∏ k ∈ Finset.range ((nums.length + d - 1) / d),
        (((nums.drop (k * d)).take d).prod / ((dens.drop (k * d)).take d).prod)) :
    ∀ t ∈ @checkPartialProducts K (FOps.ofField K) nums dens partials zx zgx d, t = 0 := by
  rw [check_all_zero_iff nums dens partials zx zgx d hd hlen]
  have hacc : ∀ i, i ≤ (nums.length + d - 1) / d →
      (zx :: partials ++ [zgx]).getD i 0 = zx * ∏ k ∈ Finset.range i,
        (((nums.drop (k * d)).take d).prod / ((dens.drop (k * d)).take d).prod) := by
    intro i hi
    rcases i with _ | i
    · simp
    · by_cases hlt : i < partials.length
      · rw [accs_succ_lt _ _ _ _ hlt, hpart i hlt]
      · have : i = partials.length := by omega
        subst this
        rw [accs_last, hz, hp]
  intro i hi
  rw [hacc i (by omega), hacc (i + 1) (by omega), Finset.prod_range_succ]
  have := chunk_prod_ne_zero dens hne i d
  field_simp

/-! ## E. `arithmetic_special_cases` -/

def firstTermZero (c0 : K) (m0 m1 : Operand K) : Bool :=
  (c0 == (0 : K)) || m0.isZeroTarget || m1.isZeroTarget

def secondTermZero (c1 : K) (ad : Operand K) : Bool :=
  (c1 == (0 : K)) || ad.isZeroTarget

def firstTermConst (c0 : K) (m0 m1 : Operand K) : Option K :=
  if firstTermZero c0 m0 m1 then some 0 else
  match m0.knownConst, m1.knownConst with
  | some x, some y => some (x * y * c0)
  | _, _ => none

def secondTermConst (c1 : K) (ad : Operand K) : Option K :=
  if secondTermZero c1 ad then some 0 else ad.knownConst.map fun x => x * c1

/-- the part of the analysis after the "both terms constant" case -/
def specialRest (c0 c1 : K) (m0 m1 ad : Operand K) : Option (Special K) :=
  if firstTermZero c0 m0 m1 && (c1 == (1 : K)) then some .addend else
  if secondTermZero c1 ad then
    match m0.knownConst with
    | some x => if (x * c0) == (1 : K) then some .multiplicand1 else
        (match m1.knownConst with
         | some y => if (y * c0) == (1 : K) then some .multiplicand0 else none
         | none => none)
    | none =>
        (match m1.knownConst with
         | some y => if (y * c0) == (1 : K) then some .multiplicand0 else none
         | none => none)
  else none

theorem arithmeticSpecialCases_eq (c0 c1 : K) (m0 m1 ad : Operand K) :
    @arithmeticSpecialCases K (FOps.ofField K) c0 c1 m0 m1 ad =
      match firstTermConst c0 m0 m1, secondTermConst c1 ad with
      | some x, some y => some (.constant (x + y))
      | _, _ => specialRest c0 c1 m0 m1 ad := rfl

theorem firstTermZero_sound (c0 : K) (m0 m1 : Operand K) (h0 : m0.Consistent) (h1 : m1.Consistent)
    (h : firstTermZero c0 m0 m1 = true) : c0 * m0.value * m1.value = 0 := by
  unfold firstTermZero at h
  simp only [Bool.or_eq_true, beq_iff_eq] at h
  rcases h with (h | h) | h
  · simp [h]
  · simp [h0.2 h]
  · simp [h1.2 h]

theorem secondTermZero_sound (c1 : K) (ad : Operand K) (ha : ad.Consistent)
    (h : secondTermZero c1 ad = true) : c1 * ad.value = 0 := by
  unfold secondTermZero at h
  simp only [Bool.or_eq_true, beq_iff_eq] at h
  rcases h with h | h
  · simp [h]
  · simp [ha.2 h]

theorem firstTermConst_sound (c0 : K) (m0 m1 : Operand K) (h0 : m0.Consistent) (h1 : m1.Consistent)
    (x : K) (h : firstTermConst c0 m0 m1 = some x) : c0 * m0.value * m1.value = x := by
  unfold firstTermConst at h
  split at h
  · next hz =>
    rw [firstTermZero_sound c0 m0 m1 h0 h1 hz]
    exact Option.some.inj h
  · split at h
    · next a b ha hb =>
      rw [h0.1 a ha, h1.1 b hb, ← Option.some.inj h]
      ring
    · exact absurd h (by simp)

theorem secondTermConst_sound (c1 : K) (ad : Operand K) (ha : ad.Consistent)
    (y : K) (h : secondTermConst c1 ad = some y) : c1 * ad.value = y := by
  unfold secondTermConst at h
  split at h
  · next hz =>
    rw [secondTermZero_sound c1 ad ha hz]
    exact Option.some.inj h
  · rw [Option.map_eq_some_iff] at h
    obtain ⟨a, ha', rfl⟩ := h
    rw [ha.1 a ha']
    ring

theorem mult0_case (c0 : K) (m0 m1 : Operand K) (h1 : m1.Consistent) (y : K)
    (hy : m1.knownConst = some y) (r : Special K) (ad : Operand K)
    (h : (if (y * c0) == (1 : K) then some Special.multiplicand0 else none) = some r) :
    Special.denote m0 m1 ad r = c0 * m0.value * m1.value := by
  split at h
  · next hc =>
    rw [beq_iff_eq] at hc
    rw [← Option.some.inj h, h1.1 y hy]
    show m0.value = _
    linear_combination (-m0.value) * hc
  · exact absurd h (by simp)

theorem specialRest_sound (c0 c1 : K) (m0 m1 ad : Operand K)
    (h0 : m0.Consistent) (h1 : m1.Consistent) (ha : ad.Consistent) (r : Special K)
    (h : specialRest c0 c1 m0 m1 ad = some r) :
    Special.denote m0 m1 ad r = c0 * m0.value * m1.value + c1 * ad.value := by
  unfold specialRest at h
  split at h
  · next hc =>
    rw [Bool.and_eq_true, beq_iff_eq] at hc
    rw [firstTermZero_sound c0 m0 m1 h0 h1 hc.1, hc.2, ← Option.some.inj h]
    show ad.value = _
    ring
  · split at h
    · next _ hz =>
      rw [secondTermZero_sound c1 ad ha hz, add_zero]
      split at h
      · next x hx =>
        split at h
        · next hc =>
          rw [beq_iff_eq] at hc
          rw [← Option.some.inj h, h0.1 x hx]
          show m1.value = _
          linear_combination (-m1.value) * hc
        · split at h
          · next y hy => exact mult0_case c0 m0 m1 h1 y hy r ad h
          · exact absurd h (by simp)
      · split at h
        · next y hy => exact mult0_case c0 m0 m1 h1 y hy r ad h
        · exact absurd h (by simp)
    · exact absurd h (by simp)

theorem arithmeticSpecialCases_sound (c0 c1 : K) (m0 m1 ad : Operand K)
    (h0 : m0.Consistent) (h1 : m1.Consistent) (ha : ad.Consistent) (r : Special K)
    (h : @arithmeticSpecialCases K (FOps.ofField K) c0 c1 m0 m1 ad = some r) :
    Special.denote m0 m1 ad r = c0 * m0.value * m1.value + c1 * ad.value := by
  rw [arithmeticSpecialCases_eq] at h
  split at h
  · next x y hx hy =>
    rw [firstTermConst_sound c0 m0 m1 h0 h1 x hx, secondTermConst_sound c1 ad ha y hy,
      ← Option.some.inj h]
    rfl
  · exact specialRest_sound c0 c1 m0 m1 ad h0 h1 ha r h

end
end P2.Lemmas.PlonkAlg
