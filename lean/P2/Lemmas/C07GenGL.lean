/-
C07 helpers: the model's witness generators (`GateKind.generate`, over `GL`) for the arithmetic,
arithmetic-extension and multiplication-extension gates produce rows satisfying the gate.
-/
import P2.Lemmas.C07Arith
import P2.Lemmas.C07Simple
set_option linter.unusedSectionVars false
set_option linter.unusedSimpArgs false
namespace P2.Lemmas.C07
open P2 P2.Gates

/-! ## folds of writes to distinct positions -/

section Folds
variable {α : Type} [Inhabited α]

/-- a fold of writes to pairwise distinct in-range positions `p i`, each value computed from
positions that are never written: position `p i` ends up holding the value computed from the
ORIGINAL array, everything else is unchanged -/
theorem foldl_set!_spec (n : Nat) (p : Nat → Nat) (f : Array α → Nat → α) (ws0 : Array α)
    (hp : ∀ i j, i < n → j < n → p i = p j → i = j)
    (hsz : ∀ i, i < n → p i < ws0.size)
    (hf : ∀ (ws : Array α) i, i < n →
      (∀ j, (∀ k, k < n → j ≠ p k) → ws[j]! = ws0[j]!) → f ws i = f ws0 i) :
    ((List.range n).foldl (fun ws i => ws.set! (p i) (f ws i)) ws0).size = ws0.size ∧
    (∀ i, i < n →
      ((List.range n).foldl (fun ws i => ws.set! (p i) (f ws i)) ws0)[p i]! = f ws0 i) ∧
    (∀ j, (∀ k, k < n → j ≠ p k) →
      ((List.range n).foldl (fun ws i => ws.set! (p i) (f ws i)) ws0)[j]! = ws0[j]!) := by
  have key : ∀ m, m ≤ n →
      ((List.range m).foldl (fun ws i => ws.set! (p i) (f ws i)) ws0).size = ws0.size ∧
      (∀ i, i < m →
        ((List.range m).foldl (fun ws i => ws.set! (p i) (f ws i)) ws0)[p i]! = f ws0 i) ∧
      (∀ j, (∀ k, k < m → j ≠ p k) →
        ((List.range m).foldl (fun ws i => ws.set! (p i) (f ws i)) ws0)[j]! = ws0[j]!) := by
    intro m
    induction m with
    | zero => intro _; exact ⟨rfl, fun i hi => absurd hi (Nat.not_lt_zero _), fun j _ => rfl⟩
    | succ m ih =>
      intro hm
      obtain ⟨h1, h2, h3⟩ := ih (by omega)
      rw [List.range_succ, List.foldl_append]
      simp only [List.foldl_cons, List.foldl_nil]
      set r := (List.range m).foldl (fun ws i => ws.set! (p i) (f ws i)) ws0 with hr
      have hfr : f r m = f ws0 m :=
        hf r m (by omega) (fun j hj => h3 j (fun k hk => hj k (by omega)))
      refine ⟨by rw [size_set!, h1], ?_, ?_⟩
      · intro i hi
        by_cases him : i = m
        · subst him
          rw [getElem!_set!_self _ _ _ (by rw [h1]; exact hsz i (by omega)), hfr]
        · have hne : p i ≠ p m := fun e => him (hp i m (by omega) (by omega) e)
          rw [getElem!_set!_ne _ _ _ _ hne, h2 i (by omega)]
      · intro j hj
        rw [getElem!_set!_ne _ _ _ _ (hj m (by omega)), h3 j (fun k hk => hj k (by omega))]
  exact key n (Nat.le_refl n)

end Folds

/-- the same for writes of an algebra element to positions `p i`, `p i + 1` -/
theorem foldl_setAlg_spec (n : Nat) (p : Nat → Nat) (f : Array P2.GL → Nat → Alg P2.GL)
    (ws0 : Array P2.GL)
    (hp : ∀ i j, i < n → j < n → i ≠ j → p i ≠ p j ∧ p i ≠ p j + 1 ∧ p i + 1 ≠ p j)
    (hsz : ∀ i, i < n → p i + 1 < ws0.size)
    (hf : ∀ (ws : Array P2.GL) i, i < n →
      (∀ j, (∀ k, k < n → j ≠ p k ∧ j ≠ p k + 1) → ws[j]! = ws0[j]!) → f ws i = f ws0 i) :
    ((List.range n).foldl (fun ws i => setAlg ws (p i) (f ws i)) ws0).size = ws0.size ∧
    (∀ i, i < n →
      ((List.range n).foldl (fun ws i => setAlg ws (p i) (f ws i)) ws0)[p i]! = (f ws0 i).1 ∧
      ((List.range n).foldl (fun ws i => setAlg ws (p i) (f ws i)) ws0)[p i + 1]! = (f ws0 i).2) ∧
    (∀ j, (∀ k, k < n → j ≠ p k ∧ j ≠ p k + 1) →
      ((List.range n).foldl (fun ws i => setAlg ws (p i) (f ws i)) ws0)[j]! = ws0[j]!) := by
  have key : ∀ m, m ≤ n →
      ((List.range m).foldl (fun ws i => setAlg ws (p i) (f ws i)) ws0).size = ws0.size ∧
      (∀ i, i < m →
        ((List.range m).foldl (fun ws i => setAlg ws (p i) (f ws i)) ws0)[p i]! = (f ws0 i).1 ∧
        ((List.range m).foldl (fun ws i => setAlg ws (p i) (f ws i)) ws0)[p i + 1]! = (f ws0 i).2) ∧
      (∀ j, (∀ k, k < m → j ≠ p k ∧ j ≠ p k + 1) →
        ((List.range m).foldl (fun ws i => setAlg ws (p i) (f ws i)) ws0)[j]! = ws0[j]!) := by
    intro m
    induction m with
    | zero => intro _; exact ⟨rfl, fun i hi => absurd hi (Nat.not_lt_zero _), fun j _ => rfl⟩
    | succ m ih =>
      intro hm
      obtain ⟨h1, h2, h3⟩ := ih (by omega)
      rw [List.range_succ, List.foldl_append]
      simp only [List.foldl_cons, List.foldl_nil]
      set r := (List.range m).foldl (fun ws i => setAlg ws (p i) (f ws i)) ws0 with hr
      have hfr : f r m = f ws0 m :=
        hf r m (by omega) (fun j hj => h3 j (fun k hk => hj k (by omega)))
      have hs := hsz m (by omega)
      refine ⟨by simp only [setAlg, size_set!]; exact h1, ?_, ?_⟩
      · intro i hi
        by_cases him : i = m
        · subst him
          simp only [setAlg]
          rw [getElem!_set!_ne _ _ _ _ (by omega),
            getElem!_set!_self _ _ _ (by rw [h1]; omega),
            getElem!_set!_self _ _ _ (by rw [size_set!, h1]; omega), hfr]
          exact ⟨rfl, rfl⟩
        · obtain ⟨a1, a2, a3⟩ := hp i m (by omega) (by omega) him
          simp only [setAlg]
          rw [getElem!_set!_ne _ _ _ _ a2, getElem!_set!_ne _ _ _ _ a1,
            getElem!_set!_ne _ _ _ _ (by omega), getElem!_set!_ne _ _ _ _ a3]
          exact h2 i (by omega)
      · intro j hj
        obtain ⟨b1, b2⟩ := hj m (by omega)
        simp only [setAlg]
        rw [getElem!_set!_ne _ _ _ _ b2, getElem!_set!_ne _ _ _ _ b1,
          h3 j (fun k hk => hj k (by omega))]
  exact key n (Nat.le_refl n)

/-- the zero-padded row `generate` starts from has at least `numWires` columns -/
theorem size_pad (wires : Array P2.GL) (m : Nat) :
    m ≤ (wires ++ Array.replicate (m - wires.size) (0 : P2.GL)).size := by
  simp only [Array.size_append, Array.size_replicate]; omega

section OverGL
attribute [local instance] glField

/-- `ArithmeticBaseGenerator`: the generated row satisfies every constraint of the arithmetic gate,
for all `numOps`, constants, input rows and public-input hashes -/
theorem arithmetic_generate_sat (n : Nat) (consts wires pih : Array P2.GL) :
    ∀ c ∈ (GateKind.arithmetic n).evalUnfiltered (genRow (.arithmetic n) consts wires pih),
      c = 0 := by
  rw [evalGL_arithmetic]
  apply (arithmetic_sat_iff n _).2
  intro i hi
  have hpad := size_pad wires (GateKind.arithmetic n).numWires
  set ws0 := wires ++ Array.replicate ((GateKind.arithmetic n).numWires - wires.size) (0 : P2.GL)
    with hws0
  have hnw : (GateKind.arithmetic n).numWires = n * 4 := rfl
  obtain ⟨_, h2, h3⟩ := foldl_set!_spec n (fun i => 4 * i + 3)
    (fun ws i => ws[4 * i]! * ws[4 * i + 1]! * consts[0]! + ws[4 * i + 2]! * consts[1]!) ws0
    (fun i j _ _ h => by omega) (fun i hi => by omega)
    (fun ws i _ h => by
      rw [h (4 * i) (fun k _ => by omega), h (4 * i + 1) (fun k _ => by omega),
        h (4 * i + 2) (fun k _ => by omega)])
  show ((GateKind.arithmetic n).generate consts wires)[4 * i + 3]! =
    ((GateKind.arithmetic n).generate consts wires)[4 * i]! *
      ((GateKind.arithmetic n).generate consts wires)[4 * i + 1]! * consts[0]! +
    ((GateKind.arithmetic n).generate consts wires)[4 * i + 2]! * consts[1]!
  have hgen : (GateKind.arithmetic n).generate consts wires =
      (List.range n).foldl (fun ws i => ws.set! (4 * i + 3)
        (ws[4 * i]! * ws[4 * i + 1]! * consts[0]! + ws[4 * i + 2]! * consts[1]!)) ws0 := rfl
  rw [hgen, h2 i hi, h3 (4 * i) (fun k _ => by omega), h3 (4 * i + 1) (fun k _ => by omega),
    h3 (4 * i + 2) (fun k _ => by omega)]

/-- the generator only writes the output columns `4i+3` -/
theorem arithmetic_generate_inputs (n : Nat) (consts wires : Array P2.GL) (j : Nat)
    (hj : ∀ k, k < n → j ≠ 4 * k + 3) :
    ((GateKind.arithmetic n).generate consts wires)[j]! =
      (wires ++ Array.replicate ((GateKind.arithmetic n).numWires - wires.size) (0 : P2.GL))[j]! := by
  have hpad := size_pad wires (GateKind.arithmetic n).numWires
  have hnw : (GateKind.arithmetic n).numWires = n * 4 := rfl
  obtain ⟨_, _, h3⟩ := foldl_set!_spec n (fun i => 4 * i + 3)
    (fun ws i => ws[4 * i]! * ws[4 * i + 1]! * consts[0]! + ws[4 * i + 2]! * consts[1]!)
    (wires ++ Array.replicate ((GateKind.arithmetic n).numWires - wires.size) (0 : P2.GL))
    (fun i j _ _ h => by omega) (fun i hi => by omega)
    (fun ws i _ h => by
      rw [h (4 * i) (fun k _ => by omega), h (4 * i + 1) (fun k _ => by omega),
        h (4 * i + 2) (fun k _ => by omega)])
  exact h3 j hj

/-- `ArithmeticExtensionGenerator`: the generated row satisfies every constraint -/
theorem arithmeticExt_generate_sat (n : Nat) (consts wires pih : Array P2.GL) :
    ∀ c ∈ (GateKind.arithmeticExt n).evalUnfiltered (genRow (.arithmeticExt n) consts wires pih),
      c = 0 := by
  rw [evalGL_arithmeticExt]
  apply (arithmeticExt_sat_iff n _).2
  intro i hi
  have hpad := size_pad wires (GateKind.arithmeticExt n).numWires
  set ws0 := wires ++ Array.replicate ((GateKind.arithmeticExt n).numWires - wires.size) (0 : P2.GL)
    with hws0
  have hnw : (GateKind.arithmeticExt n).numWires = n * 4 * 2 := rfl
  obtain ⟨_, h2, h3⟩ := foldl_setAlg_spec n (fun i => 8 * i + 6)
    (fun ws i => (getAlg ws (8 * i) * getAlg ws (8 * i + 2)).smul consts[0]!
      + (getAlg ws (8 * i + 4)).smul consts[1]!) ws0
    (fun i j _ _ h => by omega) (fun i hi => by omega)
    (fun ws i _ h => by
      simp only [getAlg]
      rw [h (8 * i) (fun k _ => by omega), h (8 * i + 1) (fun k _ => by omega),
        h (8 * i + 2) (fun k _ => by omega), h (8 * i + 2 + 1) (fun k _ => by omega),
        h (8 * i + 4) (fun k _ => by omega), h (8 * i + 4 + 1) (fun k _ => by omega)])
  have hgen : (GateKind.arithmeticExt n).generate consts wires =
      (List.range n).foldl (fun ws i => setAlg ws (8 * i + 6)
        ((getAlg ws (8 * i) * getAlg ws (8 * i + 2)).smul consts[0]!
          + (getAlg ws (8 * i + 4)).smul consts[1]!)) ws0 := rfl
  have hv : arithExtGen (genRow (.arithmeticExt n) consts wires pih) i =
      arithExtOut ws0[8 * i]! ws0[8 * i + 1]! ws0[8 * i + 2]! ws0[8 * i + 2 + 1]!
        ws0[8 * i + 4]! ws0[8 * i + 4 + 1]! consts[0]! consts[1]! := by
    simp only [arithExtGen, genRow]
    rw [hgen, h3 (8 * i) (fun k _ => by omega), h3 (8 * i + 1) (fun k _ => by omega),
      h3 (8 * i + 2) (fun k _ => by omega), h3 (8 * i + 2 + 1) (fun k _ => by omega),
      h3 (8 * i + 4) (fun k _ => by omega), h3 (8 * i + 4 + 1) (fun k _ => by omega)]
  rw [hv]
  show ((GateKind.arithmeticExt n).generate consts wires)[8 * i + 6]! = _ ∧
    ((GateKind.arithmeticExt n).generate consts wires)[8 * i + 6 + 1]! = _
  rw [hgen, (h2 i hi).1, (h2 i hi).2]
  exact ⟨rfl, rfl⟩

/-- `MulExtensionGenerator`: the generated row satisfies every constraint -/
theorem mulExt_generate_sat (n : Nat) (consts wires pih : Array P2.GL) :
    ∀ c ∈ (GateKind.mulExt n).evalUnfiltered (genRow (.mulExt n) consts wires pih), c = 0 := by
  rw [evalGL_mulExt]
  apply (mulExt_sat_iff n _).2
  intro i hi
  have hpad := size_pad wires (GateKind.mulExt n).numWires
  set ws0 := wires ++ Array.replicate ((GateKind.mulExt n).numWires - wires.size) (0 : P2.GL)
    with hws0
  have hnw : (GateKind.mulExt n).numWires = n * 3 * 2 := rfl
  obtain ⟨_, h2, h3⟩ := foldl_setAlg_spec n (fun i => 6 * i + 4)
    (fun ws i => (getAlg ws (6 * i) * getAlg ws (6 * i + 2)).smul consts[0]!) ws0
    (fun i j _ _ h => by omega) (fun i hi => by omega)
    (fun ws i _ h => by
      simp only [getAlg]
      rw [h (6 * i) (fun k _ => by omega), h (6 * i + 1) (fun k _ => by omega),
        h (6 * i + 2) (fun k _ => by omega), h (6 * i + 2 + 1) (fun k _ => by omega)])
  have hgen : (GateKind.mulExt n).generate consts wires =
      (List.range n).foldl (fun ws i => setAlg ws (6 * i + 4)
        ((getAlg ws (6 * i) * getAlg ws (6 * i + 2)).smul consts[0]!)) ws0 := rfl
  have hv : mulExtGen (genRow (.mulExt n) consts wires pih) i =
      ((ws0[6 * i]! * ws0[6 * i + 2]! + 7 * (ws0[6 * i + 1]! * ws0[6 * i + 2 + 1]!)) * consts[0]!,
       (ws0[6 * i]! * ws0[6 * i + 2 + 1]! + ws0[6 * i + 1]! * ws0[6 * i + 2]!) * consts[0]!) := by
    simp only [mulExtGen, genRow]
    rw [hgen, h3 (6 * i) (fun k _ => by omega), h3 (6 * i + 1) (fun k _ => by omega),
      h3 (6 * i + 2) (fun k _ => by omega), h3 (6 * i + 2 + 1) (fun k _ => by omega)]
  rw [hv]
  show ((GateKind.mulExt n).generate consts wires)[6 * i + 4]! = _ ∧
    ((GateKind.mulExt n).generate consts wires)[6 * i + 4 + 1]! = _
  rw [hgen, (h2 i hi).1, (h2 i hi).2]
  exact ⟨rfl, rfl⟩

end OverGL
end P2.Lemmas.C07
