/-
Helpers for the delayed-reduction extension multiplication (`u128 + u32` accumulators).
Core Lean only.
-/
import P2.Lemmas.GL0

namespace P2.L0

local notation "Wl" => 18446744073709551616
local notation "Pl" => 18446744069414584321
local notation "W32l" => 4294967296
local notation "W128l" => 340282366920938463463374607431768211456
local notation "W160l" => 1461501637330902918203684832716283019655932542976

/-! ### u128 primitives -/

theorem oadd128_of_lt {a b : Nat} (h : a + b < W128l) : oadd128 a b = (a + b, false) := by
  have h1 : (a + b) % W128l = a + b := Nat.mod_eq_of_lt h
  have h2 : ¬ W128l ≤ a + b := by omega
  simp only [oadd128, W128, h1, h2, decide_false]

theorem oadd128_of_ge {a b : Nat} (h : W128l ≤ a + b)
    (h' : a + b < 680564733841876926926749214863536422912) :
    oadd128 a b = (a + b - W128l, true) := by
  have h1 : (a + b) % W128l = a + b - W128l := by omega
  simp only [oadd128, W128, h1, h, decide_true]

theorem osub128_of_le {a b : Nat} (h : b ≤ a) : osub128 a b = (a - b, false) := by
  simp only [osub128, h, if_true]

theorem osub128_of_lt {a b : Nat} (h : a < b) : osub128 a b = (a + W128l - b, true) := by
  have h1 : ¬ b ≤ a := by omega
  simp only [osub128, W128, h1, if_false]

/-! ### the accumulator -/

/-- the accumulator holds exactly the natural number `v` (no wrap so far) -/
def AccGood (c : Acc) (v : Nat) : Prop :=
  c.trap = false ∧ c.lo < W128l ∧ c.hi < W32l ∧ c.lo + c.hi * W128l = v

theorem Acc.zero_good : AccGood ⟨0, 0, false⟩ 0 := ⟨rfl, by decide, by decide, rfl⟩

theorem Acc.add_eq (c : Acc) (p : Nat) : c.add p =
    ⟨(oadd128 c.lo p).1, (c.hi + if (oadd128 c.lo p).2 = true then 1 else 0) % W32l,
      c.trap || decide (W32l ≤ c.hi + if (oadd128 c.lo p).2 = true then 1 else 0)⟩ := rfl

theorem Acc.add_spec {c : Acc} {v : Nat} (p : Nat) (h : AccGood c v) (hp : p < W128l)
    (hb : v + p < W160l) : AccGood (c.add p) (v + p) := by
  obtain ⟨lo, hi, t⟩ := c
  obtain ⟨h1, h2, h3, h4⟩ := h
  dsimp only at h1 h2 h3 h4
  subst h1
  unfold AccGood
  rw [Acc.add_eq]
  dsimp only
  by_cases hc : W128l ≤ lo + p
  · have hd : ¬ W32l ≤ hi + 1 := by omega
    rw [oadd128_of_ge hc (by omega), if_pos rfl, Nat.mod_eq_of_lt (show hi + 1 < W32l by omega)]
    simp only [hd, decide_false, Bool.or_false, true_and]
    omega
  · have hd : ¬ W32l ≤ hi + 0 := by omega
    rw [oadd128_of_lt (by omega), if_neg Bool.false_ne_true,
      Nat.mod_eq_of_lt (show hi + 0 < W32l by omega)]
    simp only [hd, decide_false, Bool.or_false, true_and]
    omega

theorem Acc.times3_eq (c : Acc) : c.times3 =
    ⟨(oadd128 c.lo ((c.lo * 2) % W128l)).1,
      (3 * c.hi + c.lo / 170141183460469231731687303715884105728 +
        if (oadd128 c.lo ((c.lo * 2) % W128l)).2 = true then 1 else 0) % W32l,
      c.trap || decide (W32l ≤ 3 * c.hi + c.lo / 170141183460469231731687303715884105728 +
        if (oadd128 c.lo ((c.lo * 2) % W128l)).2 = true then 1 else 0)⟩ := rfl

theorem Acc.times3_spec {c : Acc} {v : Nat} (h : AccGood c v) (hb : 3 * v < W160l) :
    AccGood c.times3 (3 * v) := by
  obtain ⟨lo, hi, t⟩ := c
  obtain ⟨h1, h2, h3, h4⟩ := h
  dsimp only at h1 h2 h3 h4
  subst h1
  unfold AccGood
  rw [Acc.times3_eq]
  dsimp only
  by_cases hc : W128l ≤ lo + (lo * 2) % W128l
  · have hh : 3 * hi + lo / 170141183460469231731687303715884105728 + 1 < W32l := by omega
    have hd : ¬ W32l ≤ 3 * hi + lo / 170141183460469231731687303715884105728 + 1 := by omega
    rw [oadd128_of_ge hc (by omega), if_pos rfl, Nat.mod_eq_of_lt hh]
    simp only [hd, decide_false, Bool.or_false, true_and]
    omega
  · have hh : 3 * hi + lo / 170141183460469231731687303715884105728 + 0 < W32l := by omega
    have hd : ¬ W32l ≤ 3 * hi + lo / 170141183460469231731687303715884105728 + 0 := by omega
    rw [oadd128_of_lt (by omega), if_neg Bool.false_ne_true, Nat.mod_eq_of_lt hh]
    simp only [hd, decide_false, Bool.or_false, true_and]
    omega

theorem Acc.times7_eq (c : Acc) : c.times7 =
    ⟨(osub128 ((c.lo * 8) % W128l) c.lo).1,
      (7 * c.hi + c.lo / 42535295865117307932921825928971026432 + W32l -
        if (osub128 ((c.lo * 8) % W128l) c.lo).2 = true then 1 else 0) % W32l,
      c.trap || decide (W32l ≤ 7 * c.hi + c.lo / 42535295865117307932921825928971026432) ||
        decide (7 * c.hi + c.lo / 42535295865117307932921825928971026432 <
          if (osub128 ((c.lo * 8) % W128l) c.lo).2 = true then 1 else 0)⟩ := rfl

theorem Acc.times7_spec {c : Acc} {v : Nat} (h : AccGood c v) (hb : 8 * v < W160l) :
    AccGood c.times7 (7 * v) := by
  obtain ⟨lo, hi, t⟩ := c
  obtain ⟨h1, h2, h3, h4⟩ := h
  dsimp only at h1 h2 h3 h4
  subst h1
  unfold AccGood
  rw [Acc.times7_eq]
  dsimp only
  have hd : ¬ W32l ≤ 7 * hi + lo / 42535295865117307932921825928971026432 := by omega
  by_cases hc : lo ≤ (lo * 8) % W128l
  · have hh : 7 * hi + lo / 42535295865117307932921825928971026432 + W32l - 0 =
        (7 * hi + lo / 42535295865117307932921825928971026432) + W32l := by omega
    have hd' : ¬ 7 * hi + lo / 42535295865117307932921825928971026432 < 0 := by omega
    rw [osub128_of_le hc, if_neg Bool.false_ne_true, hh, Nat.add_mod_right,
      Nat.mod_eq_of_lt (show 7 * hi + lo / 42535295865117307932921825928971026432 < W32l by omega)]
    simp only [hd, hd', decide_false, Bool.or_false, true_and]
    omega
  · have hh : 7 * hi + lo / 42535295865117307932921825928971026432 + W32l - 1 =
        (7 * hi + lo / 42535295865117307932921825928971026432 - 1) + W32l := by omega
    have hd' : ¬ 7 * hi + lo / 42535295865117307932921825928971026432 < 1 := by omega
    rw [osub128_of_lt (by omega), if_pos rfl, hh, Nat.add_mod_right,
      Nat.mod_eq_of_lt
        (show 7 * hi + lo / 42535295865117307932921825928971026432 - 1 < W32l by omega)]
    simp only [hd, hd', decide_false, Bool.or_false, true_and]
    omega

/-- final `reduce160` of `ext*_add_prods` -/
def finish (acc : Acc) : Res :=
  ⟨(reduce160 acc.lo acc.hi).val, (reduce160 acc.lo acc.hi).trap || acc.trap⟩

theorem finish_good {c : Acc} {v : Nat} (h : AccGood c v)
    (hv : v < 1461501636990620551361974531767172749817708281856) : Good (finish c) v := by
  obtain ⟨h1, h2, h3, h4⟩ := h
  subst h4
  obtain ⟨r1, r2, r3⟩ := reduce160_good c.lo c.hi h2 h3 hv
  refine ⟨?_, r2, r3⟩
  show ((reduce160 c.lo c.hi).trap || c.trap) = false
  rw [r1, h1]
  rfl

end P2.L0
