/-
Helper lemmas about `P2.Model.Merkle`: level-wise hashing, the digest-buffer layout of
`fillSubtree`, chunking of `build`, and folding of sibling paths.
-/
import P2.Model.Merkle
namespace P2.Lemmas.Merkle
open P2.Merkle

variable {L D : Type}

/-! ### arithmetic -/

theorem xor_one_eq (x : Nat) : x ^^^ 1 = if x % 2 = 0 then x + 1 else x - 1 := by
  have h1 : (x ^^^ 1) / 2 = x / 2 := by simp [Nat.xor_div_two]
  have h2 := @Nat.xor_mod_two_eq_one x 1
  split <;> omega

theorem two_pow_split {k j : Nat} (hj : j ≤ k) : 2 ^ k = 2 ^ (k - j) * 2 ^ j := by
  rw [← Nat.pow_add]; congr 1; omega

theorem div_shift {k j : Nat} (hj : j ≤ k) (p : Nat) :
    (2 ^ k + p) / 2 ^ j = 2 ^ (k - j) + p / 2 ^ j := by
  rw [two_pow_split hj, Nat.add_comm, Nat.add_mul_div_right _ _ (Nat.two_pow_pos j), Nat.add_comm]

/-! ### `j` rounds of pairwise hashing -/

/-- `j` rounds of `levelUp` -/
def lv (h : Hasher L D) : Nat → List D → List D
  | 0, l => l
  | j + 1, l => levelUp h (lv h j l)

theorem capOf_eq_lv (h : Hasher L D) (k c : Nat) (leaves : List L) :
    capOf h k c leaves = lv h (k - c) (leaves.map h.hashLeaf) := by
  unfold capOf
  generalize k - c = n
  induction n with
  | zero => simp [lv]
  | succ n ih => rw [List.range_succ, List.foldl_append, ih]; simp [lv]

theorem levelUp_length (h : Hasher L D) (l : List D) : (levelUp h l).length = l.length / 2 := by
  fun_induction levelUp h l with
  | case1 a b rest ih => simp [ih]; omega
  | case2 l hne =>
    match l, hne with
    | [], _ => simp
    | [_], _ => simp
    | a :: b :: rest, hne => exact absurd rfl (hne a b rest)

theorem levelUp_append (h : Hasher L D) (a b : List D) (ha : a.length % 2 = 0) :
    levelUp h (a ++ b) = levelUp h a ++ levelUp h b := by
  fun_induction levelUp h a with
  | case1 x y rest ih =>
    have : rest.length % 2 = 0 := by simp at ha; omega
    simp [levelUp, ih this]
  | case2 l hne =>
    match l, hne with
    | [], _ => simp
    | [_], _ => simp at ha
    | x :: y :: rest, hne => exact absurd rfl (hne x y rest)

theorem levelUp_getElem? (h : Hasher L D) (l : List D) (p : Nat) (a b : D)
    (ha : l[2 * p]? = some a) (hb : l[2 * p + 1]? = some b) :
    (levelUp h l)[p]? = some (h.two a b) := by
  fun_induction levelUp h l generalizing p with
  | case1 x y rest ih =>
    cases p with
    | zero => simp at ha hb; simp [ha, hb]
    | succ p =>
      have e1 : 2 * (p + 1) = 2 * p + 1 + 1 := by omega
      have e2 : 2 * (p + 1) + 1 = 2 * p + 1 + 1 + 1 := by omega
      rw [e1] at ha; rw [e2] at hb
      simp only [List.getElem?_cons_succ] at ha hb ⊢
      exact ih p ha hb
  | case2 l hne =>
    match l, hne with
    | [], _ => simp at ha
    | [_], _ => simp at hb
    | x :: y :: rest, hne => exact absurd rfl (hne x y rest)

theorem lv_succ_comm (h : Hasher L D) (j : Nat) (l : List D) :
    lv h (j + 1) l = lv h j (levelUp h l) := by
  induction j with
  | zero => simp [lv]
  | succ j ih => rw [lv, ih]; simp [lv]

theorem lv_nil (h : Hasher L D) (j : Nat) : lv h j ([] : List D) = [] := by
  induction j with
  | zero => rfl
  | succ j ih => simp [lv, ih, levelUp]

theorem lv_length (h : Hasher L D) (k : Nat) :
    ∀ (j : Nat) (l : List D), l.length = 2 ^ k → j ≤ k → (lv h j l).length = 2 ^ (k - j) := by
  intro j
  induction j with
  | zero => intro l hl _; simpa [lv] using hl
  | succ j ih =>
    intro l hl hj
    rw [lv, levelUp_length, ih l hl (by omega)]
    have : k - j = (k - (j + 1)) + 1 := by omega
    rw [this, Nat.pow_succ]; omega

theorem lv_append (h : Hasher L D) (k : Nat) (a b : List D) (ha : a.length = 2 ^ k) :
    ∀ j, j ≤ k → lv h j (a ++ b) = lv h j a ++ lv h j b := by
  intro j
  induction j with
  | zero => intro _; rfl
  | succ j ih =>
    intro hj
    rw [lv, ih (by omega), levelUp_append]
    · rfl
    · rw [lv_length h k j a ha (by omega)]
      have : k - j = (k - (j + 1)) + 1 := by omega
      rw [this, Nat.pow_succ]; omega

/-! ### `fillSubtree`: root and buffer length -/

theorem fillSubtree_spec (h : Hasher L D) :
    ∀ (k : Nat) (leaves : List L), leaves.length = 2 ^ k →
      ∃ buf r, fillSubtree h k leaves = (buf, some r) ∧
        lv h k (leaves.map h.hashLeaf) = [r] ∧ buf.length = 2 * (2 ^ k - 1) := by
  intro k
  induction k with
  | zero =>
    intro leaves hl
    match leaves, hl with
    | [x], _ => exact ⟨[], h.hashLeaf x, by simp [fillSubtree], by simp [lv], by simp⟩
  | succ k ih =>
    intro leaves hl
    have hhalf : leaves.length / 2 = 2 ^ k := by rw [hl, Nat.pow_succ]; omega
    have hL : (leaves.take (2 ^ k)).length = 2 ^ k := by
      rw [List.length_take, hl, Nat.pow_succ]; omega
    have hR : (leaves.drop (2 ^ k)).length = 2 ^ k := by
      rw [List.length_drop, hl, Nat.pow_succ]; omega
    obtain ⟨lb, a, e1, l1, n1⟩ := ih _ hL
    obtain ⟨rb, b, e2, l2, n2⟩ := ih _ hR
    refine ⟨lb ++ [a] ++ [b] ++ rb, h.two a b, ?_, ?_, ?_⟩
    · simp only [fillSubtree, hhalf, e1, e2]
    · have : leaves.map h.hashLeaf =
          (leaves.take (2 ^ k)).map h.hashLeaf ++ (leaves.drop (2 ^ k)).map h.hashLeaf := by
        rw [← List.map_append, List.take_append_drop]
      rw [lv, this, lv_append h k _ _ (by simpa using hL) k (Nat.le_refl _), l1, l2]
      simp [levelUp]
    · simp only [List.length_append, n1, n2, List.length_cons, List.length_nil]
      have := Nat.two_pow_pos k
      rw [Nat.pow_succ]; omega

/-! ### `fillSubtree`: buffer layout -/

/-- the buffer index read by `merkle_tree_prove` at layer `j` for position `p` of a subtree -/
def idx (p j : Nat) : Nat :=
  2 * ((p / 2 ^ (j + 1)) * 2 ^ (j + 1) + 2 ^ j - 1) + (1 - (p / 2 ^ j) % 2)

theorem idx_shift {k j : Nat} (hj : j < k) (p : Nat) : idx (2 ^ k + p) j = 2 * 2 ^ k + idx p j := by
  unfold idx
  rw [div_shift (show j + 1 ≤ k by omega), div_shift (show j ≤ k by omega), Nat.add_mul,
    ← two_pow_split (show j + 1 ≤ k by omega)]
  have e : k - j = (k - (j + 1)) + 1 := by omega
  have hpar : (2 ^ (k - j) + p / 2 ^ j) % 2 = (p / 2 ^ j) % 2 := by
    rw [e, Nat.pow_succ]; omega
  rw [hpar]
  have := Nat.two_pow_pos j
  omega

theorem buf_left {lb rb : List D} {a b : D} {i : Nat} {v : D} (hi : lb[i]? = some v) :
    (lb ++ [a] ++ [b] ++ rb)[i]? = some v := by
  have hlt : i < lb.length := (List.getElem?_eq_some_iff.mp hi).1
  simp only [List.append_assoc]
  rw [List.getElem?_append_left hlt]; exact hi

theorem buf_a {lb rb : List D} {a b : D} {m : Nat} (hm : lb.length = m) :
    (lb ++ [a] ++ [b] ++ rb)[m]? = some a := by
  subst hm; simp

theorem buf_b {lb rb : List D} {a b : D} {m : Nat} (hm : lb.length = m) :
    (lb ++ [a] ++ [b] ++ rb)[m + 1]? = some b := by
  subst hm
  simp only [List.append_assoc]
  rw [List.getElem?_append_right (by omega)]
  simp

theorem buf_right {lb rb : List D} {a b : D} {m i : Nat} (hm : lb.length = m) :
    (lb ++ [a] ++ [b] ++ rb)[m + 2 + i]? = rb[i]? := by
  subst hm
  simp only [List.append_assoc]
  rw [List.getElem?_append_right (by omega)]
  have : lb.length + 2 + i - lb.length = i + 1 + 1 := by omega
  rw [this]; simp

theorem fillSubtree_layout (h : Hasher L D) :
    ∀ (k : Nat) (leaves : List L), leaves.length = 2 ^ k → ∀ p j, p < 2 ^ k → j < k →
      ∃ v, (fillSubtree h k leaves).1[idx p j]? = some v ∧
        (lv h j (leaves.map h.hashLeaf))[(p / 2 ^ j) ^^^ 1]? = some v := by
  intro k
  induction k with
  | zero => intro _ _ _ j _ hj; omega
  | succ k ih =>
    intro leaves hl p j hp hj
    have hhalf : leaves.length / 2 = 2 ^ k := by rw [hl, Nat.pow_succ]; omega
    have hL : (leaves.take (2 ^ k)).length = 2 ^ k := by
      rw [List.length_take, hl, Nat.pow_succ]; omega
    have hR : (leaves.drop (2 ^ k)).length = 2 ^ k := by
      rw [List.length_drop, hl, Nat.pow_succ]; omega
    obtain ⟨lb, a, e1, l1, n1⟩ := fillSubtree_spec h k _ hL
    obtain ⟨rb, b, e2, l2, n2⟩ := fillSubtree_spec h k _ hR
    have ebuf : (fillSubtree h (k + 1) leaves).1 = lb ++ [a] ++ [b] ++ rb := by
      simp only [fillSubtree, hhalf, e1, e2]
    have hsplit : leaves.map h.hashLeaf =
        (leaves.take (2 ^ k)).map h.hashLeaf ++ (leaves.drop (2 ^ k)).map h.hashLeaf := by
      rw [← List.map_append, List.take_append_drop]
    have hLm : ((leaves.take (2 ^ k)).map h.hashLeaf).length = 2 ^ k := by simpa using hL
    have hjk : j ≤ k := by omega
    rw [ebuf, hsplit, lv_append h k _ _ hLm j hjk]
    have hlenL := lv_length h k j _ hLm hjk
    have hpk : 0 < 2 ^ k := Nat.two_pow_pos k
    rw [xor_one_eq]
    by_cases hjk' : j = k
    · -- top layer: the two subtree roots
      subst hjk'
      rw [l1, l2]
      have h0 : p / 2 ^ (j + 1) = 0 := Nat.div_eq_of_lt hp
      by_cases hpl : p < 2 ^ j
      · have hq : p / 2 ^ j = 0 := Nat.div_eq_of_lt hpl
        refine ⟨b, ?_, by simp [hq]⟩
        have : idx p j = 2 * (2 ^ j - 1) + 1 := by unfold idx; rw [h0, hq]; omega
        rw [this]; exact buf_b n1
      · have hq : p / 2 ^ j = 1 := by
          have : p = 2 ^ j + (p - 2 ^ j) := by omega
          rw [this, div_shift (Nat.le_refl j), Nat.div_eq_of_lt (by rw [Nat.pow_succ] at hp; omega)]
          simp
        refine ⟨a, ?_, by simp [hq]⟩
        have : idx p j = 2 * (2 ^ j - 1) := by unfold idx; rw [h0, hq]; omega
        rw [this]; exact buf_a n1
    · have hjlt : j < k := by omega
      by_cases hpl : p < 2 ^ k
      · -- left half
        obtain ⟨v, hv1, hv2⟩ := ih _ hL p j hpl hjlt
        rw [e1] at hv1
        rw [xor_one_eq] at hv2
        refine ⟨v, buf_left hv1, ?_⟩
        have hlt := (List.getElem?_eq_some_iff.mp hv2).1
        rw [List.getElem?_append_left hlt]; exact hv2
      · -- right half
        have hp' : p - 2 ^ k < 2 ^ k := by rw [Nat.pow_succ] at hp; omega
        obtain ⟨v, hv1, hv2⟩ := ih _ hR (p - 2 ^ k) j hp' hjlt
        rw [e2] at hv1
        rw [xor_one_eq] at hv2
        have hpe : p = 2 ^ k + (p - 2 ^ k) := by omega
        refine ⟨v, ?_, ?_⟩
        · rw [hpe, idx_shift hjlt]
          have : 2 * 2 ^ k + idx (p - 2 ^ k) j = 2 * (2 ^ k - 1) + 2 + idx (p - 2 ^ k) j := by omega
          rw [this, buf_right n1]; exact hv1
        · have hq : p / 2 ^ j = 2 ^ (k - j) + (p - 2 ^ k) / 2 ^ j := by
            conv => lhs; rw [hpe]
            exact div_shift hjk _
          have e : k - j = (k - (j + 1)) + 1 := by omega
          have hev : 2 ^ (k - j) % 2 = 0 := by rw [e, Nat.pow_succ]; omega
          rw [hq]
          generalize (p - 2 ^ k) / 2 ^ j = q at hv2 ⊢
          generalize 2 ^ (k - j) = E at hev hlenL ⊢
          have : (if (E + q) % 2 = 0 then E + q + 1 else E + q - 1) =
              E + (if q % 2 = 0 then q + 1 else q - 1) := by
            split <;> split <;> omega
          rw [this, List.getElem?_append_right (by omega), hlenL, Nat.add_sub_cancel_left]
          exact hv2

/-! ### folding a path of textbook siblings gives the textbook root -/

theorem foldPath_lv (h : Hasher L D) :
    ∀ (k : Nat) (l : List D) (p : Nat) (c : D) (π : List D), l.length = 2 ^ k → p < 2 ^ k →
      l[p]? = some c → π.length = k → (∀ j, j < k → π[j]? = (lv h j l)[(p / 2 ^ j) ^^^ 1]?) →
      ∃ r, lv h k l = [r] ∧ foldPath h c p π = (r, 0) := by
  intro k
  induction k with
  | zero =>
    intro l p c π hl hp hc hπ _
    match l, hl, π, hπ with
    | [x], _, [], _ =>
      have : p = 0 := by omega
      subst this
      simp at hc
      exact ⟨c, by simp [lv, hc], by simp [foldPath]⟩
  | succ k ih =>
    intro l p c π hl hp hc hπ hsib
    match π, hπ with
    | s :: rest, hπ =>
      have hs : l[p ^^^ 1]? = some s := by
        have := hsib 0 (by omega)
        simpa [lv] using this.symm
      rw [xor_one_eq] at hs
      have hp2 : p / 2 < 2 ^ k := by rw [Nat.pow_succ] at hp; omega
      have hl2 : (levelUp h l).length = 2 ^ k := by
        rw [levelUp_length, hl, Nat.pow_succ]; omega
      have hnxt : (levelUp h l)[p / 2]? =
          some (if p % 2 = 1 then h.two s c else h.two c s) := by
        by_cases hpar : p % 2 = 1
        · rw [if_pos hpar]
          have : ¬ p % 2 = 0 := by omega
          rw [if_neg this] at hs
          apply levelUp_getElem?
          · rw [show 2 * (p / 2) = p - 1 by omega]; exact hs
          · rw [show 2 * (p / 2) + 1 = p by omega]; exact hc
        · rw [if_neg hpar]
          have : p % 2 = 0 := by omega
          rw [if_pos this] at hs
          apply levelUp_getElem?
          · rw [show 2 * (p / 2) = p by omega]; exact hc
          · rw [show 2 * (p / 2) + 1 = p + 1 by omega]; exact hs
      obtain ⟨r, hr1, hr2⟩ := ih (levelUp h l) (p / 2) _ rest hl2 hp2 hnxt (by simpa using hπ)
        (by
          intro j hj
          have := hsib (j + 1) (by omega)
          rw [List.getElem?_cons_succ, lv_succ_comm, Nat.pow_succ, Nat.mul_comm,
            ← Nat.div_div_eq_div_mul] at this
          exact this)
      exact ⟨r, by rw [lv_succ_comm]; exact hr1, by simp only [foldPath]; exact hr2⟩

theorem foldPath_snd (h : Hasher L D) :
    ∀ (π : List D) (c : D) (i : Nat), (foldPath h c i π).2 = i / 2 ^ π.length := by
  intro π
  induction π with
  | nil => intro c i; simp [foldPath]
  | cons s rest ih =>
    intro c i
    simp only [foldPath, ih, List.length_cons]
    rw [Nat.div_div_eq_div_mul, Nat.pow_succ, Nat.mul_comm]

/-- the folded digest depends only on the low `π.length` bits of the index -/
theorem foldPath_fst_mod (h : Hasher L D) :
    ∀ (π : List D) (c : D) (i : Nat),
      (foldPath h c i π).1 = (foldPath h c (i % 2 ^ π.length) π).1 := by
  intro π
  induction π with
  | nil => intro c i; simp [foldPath]
  | cons s rest ih =>
    intro c i
    simp only [foldPath, List.length_cons]
    have e1 : i % 2 ^ (rest.length + 1) % 2 = i % 2 := by
      rw [Nat.pow_succ, Nat.mul_comm]; exact Nat.mod_mul_right_mod i 2 _
    have e2 : i % 2 ^ (rest.length + 1) / 2 = i / 2 % 2 ^ rest.length := by
      rw [Nat.pow_succ, Nat.mul_comm]; exact Nat.mod_mul_right_div_self i 2 _
    simp only [e1, e2]
    rw [ih _ (i / 2)]

/-! ### Option `mapM` -/

theorem mapM_option_exists {α β : Type} (f : α → Option β) :
    ∀ (l : List α), (∀ a ∈ l, ∃ b, f a = some b) →
      ∃ π, l.mapM f = some π ∧ π.length = l.length ∧
        ∀ q (hq : q < l.length), π[q]? = f l[q] := by
  intro l
  induction l with
  | nil => intro _; exact ⟨[], by simp, rfl, by intro q hq; simp at hq⟩
  | cons a l ih =>
    intro hall
    obtain ⟨b, hb⟩ := hall a (by simp)
    obtain ⟨π, h1, h2, h3⟩ := ih (fun x hx => hall x (by simp [hx]))
    refine ⟨b :: π, by simp [List.mapM_cons, hb, h1], by simp [h2], ?_⟩
    intro q hq
    cases q with
    | zero => simp [hb]
    | succ q => simpa using h3 q (by simpa using hq)

theorem mapM_option_map {α β : Type} (f : α → Option β) (g : α → β) :
    ∀ (l : List α), (∀ a ∈ l, f a = some (g a)) → l.mapM f = some (l.map g) := by
  intro l
  induction l with
  | nil => intro _; simp
  | cons a l ih =>
    intro hall
    simp [List.mapM_cons, hall a (by simp), ih (fun x hx => hall x (by simp [hx]))]

/-! ### equal-length chunks of a `flatMap` -/

theorem flatMap_chunk {α β : Type} (f : α → List β) (T : Nat) :
    ∀ (xs : List α) (t : Nat) (ht : t < xs.length), (∀ x ∈ xs, (f x).length = T) →
      ((xs.flatMap f).drop (T * t)).take T = f xs[t] := by
  intro xs
  induction xs with
  | nil => intro t ht; simp at ht
  | cons x xs ih =>
    intro t ht hall
    have hx : (f x).length = T := hall x (by simp)
    cases t with
    | zero =>
      simp only [List.flatMap_cons, Nat.mul_zero, List.drop_zero, List.getElem_cons_zero]
      rw [List.take_append_of_le_length (by omega), List.take_of_length_le (by omega)]
    | succ t =>
      simp only [List.flatMap_cons, List.getElem_cons_succ]
      have : T * (t + 1) = (f x).length + T * t := by rw [hx, Nat.mul_succ]; omega
      rw [this, List.drop_append, List.drop_of_length_le (by omega), List.nil_append,
        Nat.add_sub_cancel_left]
      exact ih t (by simpa using ht) (fun y hy => hall y (by simp [hy]))

theorem flatMap_length_const {α β : Type} (f : α → List β) (T : Nat) :
    ∀ (xs : List α), (∀ x ∈ xs, (f x).length = T) → (xs.flatMap f).length = xs.length * T := by
  intro xs
  induction xs with
  | nil => intro _; simp
  | cons x xs ih =>
    intro hall
    simp only [List.flatMap_cons, List.length_append, List.length_cons,
      hall x (by simp), ih (fun y hy => hall y (by simp [hy]))]
    rw [Nat.succ_mul]; omega

/-! ### one subtree: `merkle_tree_prove`'s reads are the textbook siblings, and they verify -/

theorem subtree_prove (h : Hasher L D) (n : Nat) (leaves : List L) (hl : leaves.length = 2 ^ n)
    (p : Nat) (hp : p < 2 ^ n) :
    ∃ π, (List.range n).mapM (fun j => (fillSubtree h n leaves).1[idx p j]?) = some π ∧
      π.length = n ∧
      ∀ j, j < n → π[j]? = (lv h j (leaves.map h.hashLeaf))[(p / 2 ^ j) ^^^ 1]? := by
  obtain ⟨π, h1, h2, h3⟩ := mapM_option_exists
    (fun j => (fillSubtree h n leaves).1[idx p j]?) (List.range n) (by
      intro j hj
      obtain ⟨v, hv, _⟩ := fillSubtree_layout h n leaves hl p j hp (by simpa using hj)
      exact ⟨v, hv⟩)
  refine ⟨π, h1, by simpa using h2, ?_⟩
  intro j hj
  obtain ⟨v, hv1, hv2⟩ := fillSubtree_layout h n leaves hl p j hp hj
  rw [h3 j (by simpa using hj), hv2]
  simpa using hv1

theorem subtree_fold (h : Hasher L D) (n : Nat) (leaves : List L) (hl : leaves.length = 2 ^ n)
    (p : Nat) (hp : p < 2 ^ n) (x : L) (hx : leaves[p]? = some x) (π : List D) (hπ : π.length = n)
    (hsib : ∀ j, j < n → π[j]? = (lv h j (leaves.map h.hashLeaf))[(p / 2 ^ j) ^^^ 1]?) :
    ∃ r, lv h n (leaves.map h.hashLeaf) = [r] ∧ foldPath h (h.hashLeaf x) p π = (r, 0) :=
  foldPath_lv h n _ p _ π (by simpa using hl) hp (by simp [hx]) hπ hsib

/-! ### `build`: chunks -/

theorem build_eq (h : Hasher L D) (k c : Nat) (leaves : List L) (hl : leaves.length = 2 ^ k)
    (hc : c ≤ k) :
    build h k c leaves =
      (((List.range (2 ^ c)).map fun t =>
          fillSubtree h (k - c) ((leaves.drop (t * 2 ^ (k - c))).take (2 ^ (k - c)))).flatMap (·.1),
       ((List.range (2 ^ c)).map fun t =>
          fillSubtree h (k - c) ((leaves.drop (t * 2 ^ (k - c))).take (2 ^ (k - c)))).map (·.2)) := by
  unfold build
  simp only [hl, Nat.pow_div hc (by decide : 0 < 2)]

theorem chunk_length (n m t : Nat) (leaves : List L) (hl : leaves.length = m * 2 ^ n) (ht : t < m) :
    ((leaves.drop (t * 2 ^ n)).take (2 ^ n)).length = 2 ^ n := by
  rw [List.length_take, List.length_drop, hl]
  have : (t + 1) * 2 ^ n ≤ m * 2 ^ n := Nat.mul_le_mul_right _ ht
  rw [Nat.succ_mul] at this
  omega

/-- the roots of the `m` chunks of size `2^n` are the `n`-th level of the whole list -/
theorem chunk_roots (h : Hasher L D) (n : Nat) :
    ∀ (m : Nat) (leaves : List L), leaves.length = m * 2 ^ n →
      (List.range m).map (fun t =>
        (fillSubtree h n ((leaves.drop (t * 2 ^ n)).take (2 ^ n))).2) =
      (lv h n (leaves.map h.hashLeaf)).map some := by
  intro m
  induction m with
  | zero =>
    intro leaves hl
    have : leaves = [] := by
      apply List.eq_nil_of_length_eq_zero; simpa using hl
    subst this; simp [lv_nil]
  | succ m ih =>
    intro leaves hl
    have hL : (leaves.take (2 ^ n)).length = 2 ^ n := by
      rw [List.length_take, hl, Nat.succ_mul]; omega
    have hR : (leaves.drop (2 ^ n)).length = m * 2 ^ n := by
      rw [List.length_drop, hl, Nat.succ_mul]; omega
    obtain ⟨lb, a, e1, l1, _⟩ := fillSubtree_spec h n _ hL
    have hsplit : leaves.map h.hashLeaf =
        (leaves.take (2 ^ n)).map h.hashLeaf ++ (leaves.drop (2 ^ n)).map h.hashLeaf := by
      rw [← List.map_append, List.take_append_drop]
    rw [hsplit, lv_append h n _ _ (by simpa using hL) n (Nat.le_refl _), l1, List.map_append,
      ← ih _ hR, List.range_succ_eq_map, List.map_cons, List.map_map]
    simp only [Nat.zero_mul, List.drop_zero, e1, List.map_cons, List.map_nil, List.cons_append,
      List.nil_append, List.cons.injEq, true_and]
    apply List.map_congr_left
    intro t _
    simp only [Function.comp, List.drop_drop, Nat.succ_mul]
    rw [Nat.add_comm]

theorem merkleTreeProve_eq (i k c T : Nat) (digests : List D) (hlen : digests.length = 2 ^ c * T)
    (hT : 2 * (2 ^ k - 2 ^ c) = 2 ^ c * T) :
    merkleTreeProve i (2 ^ k) k c digests =
      (List.range (k - c)).mapM fun j =>
        ((digests.drop (T * (i / 2 ^ (k - c)))).take T)[idx (i % 2 ^ (k - c)) j]? := by
  unfold merkleTreeProve
  have hdiv : 2 ^ c * T / 2 ^ c = T := by
    rw [Nat.mul_comm, Nat.mul_div_cancel _ (Nat.two_pow_pos c)]
  simp only [hT, hdiv, hlen, ne_eq, not_true_eq_false, if_false, idx]

/-! ### `build` + `merkleTreeProve` + `verifyToCap` -/

theorem chunk_getElem? (n t p : Nat) (leaves : List L) (hp : p < 2 ^ n) :
    ((leaves.drop (t * 2 ^ n)).take (2 ^ n))[p]? = leaves[t * 2 ^ n + p]? := by
  rw [List.getElem?_take, if_pos hp, List.getElem?_drop]

/-- the whole-tree statement behind `prove_verifies`: the proof returned for leaf `i` consists of
the textbook sibling digests inside the subtree `i / 2^n` (`n = k − capHeight`), and folds to the
cap entry `i / 2^n`. -/
theorem prove_spec [DecidableEq D] (h : Hasher L D) (k c : Nat) (leaves : List L)
    (hl : leaves.length = 2 ^ k) (hc : c ≤ k) (i : Nat) (hi : i < 2 ^ k)
    (cap : List D) (hcap : (build h k c leaves).2 = cap.map some) :
    ∃ π, merkleTreeProve i (2 ^ k) k c (build h k c leaves).1 = some π ∧
      π.length = k - c ∧
      (∀ j, j < k - c → π[j]? =
        (lv h j (((leaves.drop (i / 2 ^ (k - c) * 2 ^ (k - c))).take (2 ^ (k - c))).map
          h.hashLeaf))[(i % 2 ^ (k - c) / 2 ^ j) ^^^ 1]?) ∧
      verifyToCap h (leaves[i]'(by omega)) i cap π = .ok := by
  have hpow : 2 ^ k = 2 ^ c * 2 ^ (k - c) := by
    rw [← Nat.pow_add]; congr 1; omega
  have hl' : leaves.length = 2 ^ c * 2 ^ (k - c) := by rw [hl, hpow]
  rw [build_eq h k c leaves hl hc] at hcap ⊢
  generalize hn : k - c = n at *
  have hnpos : 0 < 2 ^ n := Nat.two_pow_pos n
  have ht : i / 2 ^ n < 2 ^ c := by
    rw [Nat.div_lt_iff_lt_mul hnpos, ← hpow]; exact hi
  have hp0 : i % 2 ^ n < 2 ^ n := Nat.mod_lt _ hnpos
  generalize ht' : i / 2 ^ n = t at *
  generalize hp' : i % 2 ^ n = p at *
  have hip : t * 2 ^ n + p = i := by
    rw [← ht', ← hp', Nat.mul_comm]; exact Nat.div_add_mod i (2 ^ n)
  let g : Nat → List D × Option D := fun t =>
    fillSubtree h n ((leaves.drop (t * 2 ^ n)).take (2 ^ n))
  have hg : ∀ t, t < 2 ^ c → ∃ buf r, g t = (buf, some r) ∧
      lv h n (((leaves.drop (t * 2 ^ n)).take (2 ^ n)).map h.hashLeaf) = [r] ∧
      buf.length = 2 * (2 ^ n - 1) := fun t ht =>
    fillSubtree_spec h n _ (chunk_length n (2 ^ c) t leaves hl' ht)
  change ∃ π, merkleTreeProve i (2 ^ k) k c (((List.range (2 ^ c)).map g).flatMap (·.1)) = some π ∧ _
  change ((List.range (2 ^ c)).map g).map (·.2) = cap.map some at hcap
  have hall : ∀ x ∈ (List.range (2 ^ c)).map g, (x.1).length = 2 * (2 ^ n - 1) := by
    intro x hx
    obtain ⟨t, ht, rfl⟩ := List.mem_map.mp hx
    obtain ⟨buf, r, e, _, hb⟩ := hg t (by simpa using ht)
    rw [e]; exact hb
  have hT : 2 * (2 ^ k - 2 ^ c) = 2 ^ c * (2 * (2 ^ n - 1)) := by
    have e : 2 ^ c * (2 ^ n - 1) = 2 ^ c * 2 ^ n - 2 ^ c := by rw [Nat.mul_sub, Nat.mul_one]
    rw [hpow, Nat.mul_left_comm, e]
  have hlen : (((List.range (2 ^ c)).map g).flatMap (·.1)).length = 2 ^ c * (2 * (2 ^ n - 1)) := by
    rw [flatMap_length_const _ _ _ hall]; simp
  rw [merkleTreeProve_eq i k c _ _ hlen hT, hn, ht', hp',
    flatMap_chunk (fun x : List D × Option D => x.1) _ _ t (by simpa using ht) hall]
  simp only [List.getElem_map, List.getElem_range]
  have hcl := chunk_length n (2 ^ c) t leaves hl' ht
  obtain ⟨π, hπ1, hπ2, hπ3⟩ := subtree_prove h n _ hcl p hp0
  refine ⟨π, hπ1, hπ2, hπ3, ?_⟩
  have hx : ((leaves.drop (t * 2 ^ n)).take (2 ^ n))[p]? = some (leaves[i]'(by omega)) := by
    rw [chunk_getElem? n t p leaves hp0]
    simp only [hip]
    exact List.getElem?_eq_getElem _
  obtain ⟨r, hr1, hr2⟩ := subtree_fold h n _ hcl p hp0 _ hx π hπ2 hπ3
  obtain ⟨buf, r', e, hr', _⟩ := hg t ht
  have hrr : r' = r := by rw [hr1] at hr'; simpa using hr'.symm
  subst hrr
  have hcapt : cap[t]? = some r' := by
    have := congrArg (·[t]?) hcap
    simp only [List.getElem?_map, List.getElem?_range ht, Option.map_some, e] at this
    cases hct : cap[t]? with
    | none => simp [hct] at this
    | some v => simp [hct] at this; rw [this]
  unfold verifyToCap
  have hfst := foldPath_fst_mod h π (h.hashLeaf (leaves[i]'(by omega))) i
  have hsnd := foldPath_snd h π (h.hashLeaf (leaves[i]'(by omega))) i
  rw [hπ2, hp', hr2] at hfst
  rw [hπ2, ht'] at hsnd
  generalize foldPath h (h.hashLeaf (leaves[i]'(by omega))) i π = res at hfst hsnd
  obtain ⟨d, ix⟩ := res
  simp only at hfst hsnd
  subst hfst hsnd
  simp [hcapt]

/-! ### levels of a chunk inside the levels of the whole list -/

theorem lv_chunk_getElem? (h : Hasher L D) (n j : Nat) (hj : j ≤ n) :
    ∀ (t m : Nat) (l : List D), l.length = m * 2 ^ n → t < m → ∀ q, q < 2 ^ (n - j) →
      (lv h j l)[t * 2 ^ (n - j) + q]? = (lv h j ((l.drop (t * 2 ^ n)).take (2 ^ n)))[q]? := by
  intro t
  induction t with
  | zero =>
    intro m l hl hm q hq
    have hL : (l.take (2 ^ n)).length = 2 ^ n := by
      rw [List.length_take, hl]
      have : 1 * 2 ^ n ≤ m * 2 ^ n := Nat.mul_le_mul_right _ hm
      omega
    conv => lhs; rw [← List.take_append_drop (2 ^ n) l, lv_append h n _ _ hL j hj]
    simp only [Nat.zero_mul, Nat.zero_add, List.drop_zero]
    rw [List.getElem?_append_left (by rw [lv_length h n j _ hL hj]; exact hq)]
  | succ t ih =>
    intro m l hl hm q hq
    have hL : (l.take (2 ^ n)).length = 2 ^ n := by
      rw [List.length_take, hl]
      have : 1 * 2 ^ n ≤ m * 2 ^ n := Nat.mul_le_mul_right _ (by omega)
      omega
    have hR : (l.drop (2 ^ n)).length = (m - 1) * 2 ^ n := by
      rw [List.length_drop, hl, Nat.sub_mul]; omega
    conv => lhs; rw [← List.take_append_drop (2 ^ n) l, lv_append h n _ _ hL j hj]
    rw [List.getElem?_append_right (by rw [lv_length h n j _ hL hj, Nat.succ_mul]; omega),
      lv_length h n j _ hL hj]
    have e1 : (t + 1) * 2 ^ (n - j) + q - 2 ^ (n - j) = t * 2 ^ (n - j) + q := by
      rw [Nat.succ_mul]; omega
    have e2 : l.drop ((t + 1) * 2 ^ n) = (l.drop (2 ^ n)).drop (t * 2 ^ n) := by
      rw [List.drop_drop, Nat.succ_mul, Nat.add_comm]
    rw [e1, e2]
    exact ih (m - 1) _ hR (by omega) q hq

/-- position arithmetic: the sibling of the `j`-th ancestor of leaf `t·2^n + p` -/
theorem sib_pos_split {n j : Nat} (hj : j < n) (t p : Nat) (hp : p < 2 ^ n) :
    ((t * 2 ^ n + p) / 2 ^ j) ^^^ 1 = t * 2 ^ (n - j) + ((p / 2 ^ j) ^^^ 1) ∧
      (p / 2 ^ j) ^^^ 1 < 2 ^ (n - j) := by
  have hdiv : (t * 2 ^ n + p) / 2 ^ j = t * 2 ^ (n - j) + p / 2 ^ j := by
    rw [two_pow_split (show j ≤ n by omega), ← Nat.mul_assoc, Nat.add_comm,
      Nat.add_mul_div_right _ _ (Nat.two_pow_pos j), Nat.add_comm]
  have hq : p / 2 ^ j < 2 ^ (n - j) := by
    rw [Nat.div_lt_iff_lt_mul (Nat.two_pow_pos j), ← two_pow_split (show j ≤ n by omega)]
    exact hp
  have e : n - j = (n - (j + 1)) + 1 := by omega
  have hE : 2 ^ (n - j) = 2 * 2 ^ (n - (j + 1)) := by rw [e, Nat.pow_succ, Nat.mul_comm]
  have htE : t * 2 ^ (n - j) = 2 * (t * 2 ^ (n - (j + 1))) := by rw [hE, Nat.mul_left_comm]
  rw [hdiv, xor_one_eq, xor_one_eq, htE]
  rw [hE] at hq ⊢
  generalize t * 2 ^ (n - (j + 1)) = M
  generalize 2 ^ (n - (j + 1)) = E at hq ⊢
  generalize p / 2 ^ j = q at hq ⊢
  constructor
  · split <;> split <;> omega
  · split <;> omega

/-- whole-tree form of `prove_spec`: entry `j` of the proof for leaf `i` is entry `(i >> j) ^ 1` of
level `j` of the textbook tree. -/
theorem prove_spec_whole [DecidableEq D] (h : Hasher L D) (k c : Nat) (leaves : List L)
    (hl : leaves.length = 2 ^ k) (hc : c ≤ k) (i : Nat) (hi : i < 2 ^ k)
    (cap : List D) (hcap : (build h k c leaves).2 = cap.map some) :
    ∃ π, merkleTreeProve i (2 ^ k) k c (build h k c leaves).1 = some π ∧
      π.length = k - c ∧
      (∀ j, j < k - c → π[j]? = (lv h j (leaves.map h.hashLeaf))[(i / 2 ^ j) ^^^ 1]?) ∧
      verifyToCap h (leaves[i]'(by omega)) i cap π = .ok := by
  obtain ⟨π, h1, h2, h3, h4⟩ := prove_spec h k c leaves hl hc i hi cap hcap
  refine ⟨π, h1, h2, ?_, h4⟩
  intro j hj
  have hpow : 2 ^ k = 2 ^ c * 2 ^ (k - c) := by
    rw [← Nat.pow_add]; congr 1; omega
  have hnpos : 0 < 2 ^ (k - c) := Nat.two_pow_pos _
  have hp0 : i % 2 ^ (k - c) < 2 ^ (k - c) := Nat.mod_lt _ hnpos
  have ht : i / 2 ^ (k - c) < 2 ^ c := by
    rw [Nat.div_lt_iff_lt_mul hnpos, ← hpow]; exact hi
  have hip : i / 2 ^ (k - c) * 2 ^ (k - c) + i % 2 ^ (k - c) = i := by
    rw [Nat.mul_comm]; exact Nat.div_add_mod i _
  obtain ⟨e1, e2⟩ := sib_pos_split hj (i / 2 ^ (k - c)) _ hp0
  rw [hip] at e1
  rw [h3 j hj, e1, List.map_take, List.map_drop]
  exact (lv_chunk_getElem? h (k - c) j (by omega) _ (2 ^ c) _
    (by rw [List.length_map, hl, hpow]) ht _ e2).symm

end P2.Lemmas.Merkle
