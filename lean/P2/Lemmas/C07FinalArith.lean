/-
C07 on the model's own generated row, arithmetic gate (template for the other gates).
-/
import P2.Lemmas.C07On
import P2.Lemmas.C07GenGL
set_option linter.unusedSectionVars false
namespace P2.Lemmas.C07
open P2 P2.Gates
attribute [local instance] glField

theorem arithmetic_generate_size (n : Nat) (consts wires : Array P2.GL) :
    (GateKind.arithmetic n).numWires ≤ ((GateKind.arithmetic n).generate consts wires).size := by
  have hgen : (GateKind.arithmetic n).generate consts wires =
      (List.range n).foldl (fun ws i => ws.set! (4 * i + 3)
        (ws[4 * i]! * ws[4 * i + 1]! * consts[0]! + ws[4 * i + 2]! * consts[1]!))
        (wires ++ Array.replicate ((GateKind.arithmetic n).numWires - wires.size) (0 : P2.GL)) := rfl
  rw [hgen, foldl_size_preserved _ (fun ws a => size_set! _ _ _)]
  exact size_pad_ge wires _

/-- C07 for the arithmetic gate, every `numOps`, constants, input row and public-input hash -/
theorem arithmetic_C07On (n : Nat) (consts wires pih : Array P2.GL) :
    C07On (.arithmetic n) consts wires pih := by
  refine ⟨arithmetic_generate_sat n consts wires pih, ?_⟩
  intro k hk x hx
  simp only [GateKind.generatedWires, List.mem_map, List.mem_range] at hk
  obtain ⟨i, hi, rfl⟩ := hk
  have hsz := arithmetic_generate_size n consts wires
  have hnw : (GateKind.arithmetic n).numWires = n * 4 := rfl
  have hsat : Sat (.arithmetic n) (genRow (.arithmetic n) consts wires pih) := by
    have := arithmetic_generate_sat n consts wires pih
    rw [evalGL_arithmetic] at this
    exact this
  refine replaced_violates (.arithmetic n) consts _ pih (evalGL_arithmetic n) (4 * i + 3) i
    (by omega) (fun v' hd => ?_) x hx
  exact arithmetic_pinned n _ v' i hi hd (con_eq_zero_of_sat _ _ hsat i)

end P2.Lemmas.C07
