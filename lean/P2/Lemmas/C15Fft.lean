/-
Helpers for C15 (FFT part): the model's `dft` as a finite sum, orthogonality of primitive roots,
inverse transform, Cooley–Tukey round invariant.
-/
import Mathlib.RingTheory.RootsOfUnity.PrimitiveRoots
import Mathlib.Algebra.Ring.GeomSum
import P2.Lemmas.C15
import P2.Model.Fft
set_option linter.unusedSectionVars false
namespace P2.Lemmas.C15
open P2 P2.BitRev P2.Fft

section
variable {K : Type} [Field K] [DecidableEq K] [Inhabited K]

/-! ### arrays -/

theorem array_ext! {a b : Array K} (hs : a.size = b.size) (h : ∀ i, i < a.size → a[i]! = b[i]!) :
    a = b := by
  apply Array.ext hs
  intro i h1 h2
  have := h i h1
  simpa [h1, h2] using this

theorem toList_getD (c : Array K) (j : Nat) (h : j < c.size) : c.toList.getD j 0 = c[j]! := by
  simp [h]

/-! ### the transform as a sum -/

/-- `Σ_{j<n} f j · ω^(i·j)` -/
def dftFn (ω : K) (f : Nat → K) (n i : Nat) : K := ∑ j ∈ Finset.range n, f j * ω ^ (i * j)

theorem dft_size (ω : K) (c : Array K) : (@dft K (FOps.ofField K) ω c).size = c.size := by
  simp [dft]

theorem dft_getElem! (ω : K) (c : Array K) (i : Nat) (h : i < c.size) :
    (@dft K (FOps.ofField K) ω c)[i]! = dftFn ω (fun j => c[j]!) c.size i := by
  unfold dft
  rw [getElem!_map_range _ _ _ h]
  show Array.foldr (fun cj acc => acc * (@FOps.pow K (FOps.ofField K) ω i) + cj) (0 : K) c = _
  rw [← Array.foldr_toList]
  have := eval_eq_sum_range c.toList (@FOps.pow K (FOps.ofField K) ω i)
  unfold Poly.eval at this
  erw [this]
  unfold dftFn
  rw [Array.length_toList]
  apply Finset.sum_congr rfl
  intro j hj
  rw [toList_getD c j (Finset.mem_range.mp hj), pow_eq, pow_mul]

/-! ### orthogonality -/

theorem geom_sum_pow_root {n : Nat} (ζ : K) (hζ : ζ ^ n = 1) :
    ∑ m ∈ Finset.range n, ζ ^ m = if ζ = 1 then (n : K) else 0 := by
  split
  · next h => simp [h]
  · next h =>
    have h1 : (ζ - 1) * ∑ m ∈ Finset.range n, ζ ^ m = 0 := by
      rw [mul_geom_sum, hζ, sub_self]
    rcases mul_eq_zero.mp h1 with h2 | h2
    · exact absurd (sub_eq_zero.mp h2) h
    · exact h2

theorem dftFn_congr (ω : K) (f g : Nat → K) (n i : Nat) (h : ∀ j, j < n → f j = g j) :
    dftFn ω f n i = dftFn ω g n i := by
  unfold dftFn
  exact Finset.sum_congr rfl fun j hj => by rw [h j (Finset.mem_range.mp hj)]

theorem dftFn_smul (ω : K) (g : Nat → K) (s : K) (n i : Nat) :
    dftFn ω (fun m => g m * s) n i = dftFn ω g n i * s := by
  unfold dftFn
  rw [Finset.sum_mul]
  exact Finset.sum_congr rfl fun j _ => by ring

/-- transform with `ζ = ω⁻¹` after transform with `ω` is multiplication by `n` -/
theorem dftFn_dftFn {ω ζ : K} {n : Nat} (hω : IsPrimitiveRoot ω n) (hζ : ζ * ω = 1) (f : Nat → K)
    (i : Nat) (hi : i < n) :
    dftFn ζ (fun m => dftFn ω f n m) n i = (n : K) * f i := by
  unfold dftFn
  simp only [Finset.sum_mul]
  rw [Finset.sum_comm]
  have inner : ∀ j, j ∈ Finset.range n →
      ∑ m ∈ Finset.range n, f j * ω ^ (m * j) * ζ ^ (i * m) = if j = i then f j * (n : K) else 0 := by
    intro j hj
    have hj' := Finset.mem_range.mp hj
    have e : ∀ m, f j * ω ^ (m * j) * ζ ^ (i * m) = f j * (ω ^ j * ζ ^ i) ^ m := by
      intro m
      rw [mul_pow, ← pow_mul, ← pow_mul, Nat.mul_comm j m, mul_assoc]
    simp only [e]
    rw [← Finset.mul_sum, geom_sum_pow_root]
    · have hz : ζ ^ i * ω ^ i = 1 := by rw [← mul_pow, hζ, one_pow]
      have : ω ^ j * ζ ^ i = 1 ↔ j = i := by
        constructor
        · intro h
          apply hω.pow_inj hj' hi
          calc ω ^ j = ω ^ j * (ζ ^ i * ω ^ i) := by rw [hz, mul_one]
            _ = (ω ^ j * ζ ^ i) * ω ^ i := by ring
            _ = ω ^ i := by rw [h, one_mul]
        · rintro rfl
          rw [mul_comm]; exact hz
      by_cases hji : j = i
      · rw [if_pos (this.mpr hji), if_pos hji]
      · have h1 : ¬ (ω ^ j * ζ ^ i = 1) := fun h => hji (this.mp h)
        rw [if_neg h1, if_neg hji, mul_zero]
    · rw [mul_pow, ← pow_mul, ← pow_mul, Nat.mul_comm j n, Nat.mul_comm i n, pow_mul, pow_mul,
        hω.pow_eq_one]
      have : ζ ^ n = 1 := by
        have h := congrArg (· ^ n) hζ
        simp only [mul_pow, hω.pow_eq_one, mul_one, one_pow] at h
        exact h
      rw [this]; simp
  rw [Finset.sum_congr rfl inner, Finset.sum_ite_eq' (Finset.range n) i]
  simp [hi, mul_comm]

theorem pow_neg_index {ω : K} {n : Nat} (hω : IsPrimitiveRoot ω n) (i : Nat) (hi : i < n) :
    ω ^ ((n - i) % n) = (ω⁻¹) ^ i := by
  have h : ω ^ ((n - i) % n) * ω ^ i = 1 := by
    rw [← pow_add, hω.pow_eq_one_iff_dvd]
    by_cases h0 : i = 0
    · subst h0; simp
    · rw [Nat.mod_eq_of_lt (by omega)]
      have : n - i + i = n := by omega
      rw [this]
  rw [inv_pow]
  exact eq_inv_of_mul_eq_one_left h

theorem dftFn_neg_index {ω : K} {n : Nat} (hω : IsPrimitiveRoot ω n) (f : Nat → K) (i : Nat)
    (hi : i < n) : dftFn ω f n ((n - i) % n) = dftFn ω⁻¹ f n i := by
  unfold dftFn
  apply Finset.sum_congr rfl
  intro j _
  rw [pow_mul, pow_neg_index hω i hi, ← pow_mul]

theorem ifftPost_size (buf : Array K) (s : K) : (@ifftPost K (FOps.ofField K) _ buf s).size = buf.size := by
  simp [ifftPost]

theorem ifftPost_getElem! (buf : Array K) (s : K) (i : Nat) (h : i < buf.size) :
    (@ifftPost K (FOps.ofField K) _ buf s)[i]! = buf[(buf.size - i) % buf.size]! * s := by
  unfold ifftPost
  rw [getElem!_map_range _ _ _ h]

/-- post-processing a forward transform gives the (scaled) transform with the inverse root -/
theorem ifftPost_dft_getElem! {ω : K} (c : Array K) (hω : IsPrimitiveRoot ω c.size) (s : K) (i : Nat)
    (h : i < c.size) :
    (@ifftPost K (FOps.ofField K) _ (@dft K (FOps.ofField K) ω c) s)[i]!
      = dftFn ω⁻¹ (fun j => c[j]!) c.size i * s := by
  rw [ifftPost_getElem! _ _ _ (by rw [dft_size]; exact h), dft_size,
    dft_getElem! _ _ _ (Nat.mod_lt _ (by omega)), dftFn_neg_index hω _ _ h]

theorem ifft_of_dft {ω : K} (c : Array K) (hω : IsPrimitiveRoot ω c.size) (hn : (c.size : K) ≠ 0) :
    @ifftPost K (FOps.ofField K) _ (@dft K (FOps.ofField K) ω (@dft K (FOps.ofField K) ω c))
      ((c.size : K))⁻¹ = c := by
  apply array_ext!
  · rw [ifftPost_size, dft_size, dft_size]
  · intro i hi
    rw [ifftPost_size, dft_size, dft_size] at hi
    have hω' : IsPrimitiveRoot ω (@dft K (FOps.ofField K) ω c).size := by rw [dft_size]; exact hω
    rw [ifftPost_dft_getElem! _ hω' _ _ (by rw [dft_size]; exact hi), dft_size,
      dftFn_congr _ _ (fun m => dftFn ω (fun j => c[j]!) c.size m) _ _
        (fun j hj => dft_getElem! ω c j hj),
      dftFn_dftFn hω (inv_mul_cancel₀ (hω.ne_zero (by omega))) _ i hi]
    field_simp

theorem dft_of_ifft {ω : K} (c : Array K) (hω : IsPrimitiveRoot ω c.size) (hn : (c.size : K) ≠ 0) :
    @dft K (FOps.ofField K) ω (@ifftPost K (FOps.ofField K) _ (@dft K (FOps.ofField K) ω c)
      ((c.size : K))⁻¹) = c := by
  apply array_ext!
  · rw [dft_size, ifftPost_size, dft_size]
  · intro i hi
    rw [dft_size, ifftPost_size, dft_size] at hi
    rw [dft_getElem! _ _ _ (by rw [ifftPost_size, dft_size]; exact hi), ifftPost_size, dft_size,
      dftFn_congr _ _ (fun m => dftFn ω⁻¹ (fun j => c[j]!) c.size m * (c.size : K)⁻¹) _ _
        (fun j hj => ifftPost_dft_getElem! c hω _ j hj)]
    rw [dftFn_smul, dftFn_dftFn hω.inv (mul_inv_cancel₀ (hω.ne_zero (by omega))) (fun j => c[j]!) i hi]
    field_simp

/-! ### Cooley–Tukey -/

theorem sum_range_even_odd (h : Nat → K) (m : Nat) :
    ∑ i ∈ Finset.range (2 * m), h i
      = ∑ s ∈ Finset.range m, h (2 * s) + ∑ s ∈ Finset.range m, h (2 * s + 1) := by
  induction m with
  | zero => simp
  | succ m ih =>
    rw [show 2 * (m + 1) = 2 * m + 1 + 1 from by ring, Finset.sum_range_succ, Finset.sum_range_succ,
      ih, Finset.sum_range_succ, Finset.sum_range_succ]
    ring

/-- radix-2 decimation in time, lower half -/
theorem dftFn_butterfly_lo (ζ : K) (g : Nat → K) (m j : Nat) :
    dftFn ζ g (2 * m) j
      = dftFn (ζ ^ 2) (fun s => g (2 * s)) m j + ζ ^ j * dftFn (ζ ^ 2) (fun s => g (2 * s + 1)) m j := by
  unfold dftFn
  rw [sum_range_even_odd, Finset.mul_sum]
  congr 1
  · apply Finset.sum_congr rfl; intro s _
    rw [← pow_mul]; congr 2; ring
  · apply Finset.sum_congr rfl; intro s _
    rw [← pow_mul, mul_left_comm, ← pow_add]; congr 2; ring

/-- radix-2 decimation in time, upper half (`ζ^m = −1`) -/
theorem dftFn_butterfly_hi (ζ : K) (g : Nat → K) (m j : Nat) (hζ : ζ ^ m = -1) :
    dftFn ζ g (2 * m) (j + m)
      = dftFn (ζ ^ 2) (fun s => g (2 * s)) m j - ζ ^ j * dftFn (ζ ^ 2) (fun s => g (2 * s + 1)) m j := by
  rw [dftFn_butterfly_lo]
  have h2 : (ζ ^ 2) ^ m = 1 := by rw [← pow_mul, Nat.mul_comm, pow_mul, hζ]; simp
  have e : ∀ f : Nat → K, dftFn (ζ ^ 2) f m (j + m) = dftFn (ζ ^ 2) f m j := by
    intro f
    unfold dftFn
    apply Finset.sum_congr rfl; intro s _
    rw [Nat.add_mul, pow_add, pow_mul (ζ ^ 2) m s, h2, one_pow, mul_one]
  rw [e, e, pow_add, hζ]
  ring

theorem primitive_half {ω : K} {lgN : Nat} (hω : IsPrimitiveRoot ω (2 ^ lgN)) (h : 0 < lgN) :
    ω ^ (2 ^ (lgN - 1)) = -1 := by
  have e : 2 ^ lgN = 2 ^ (lgN - 1) * 2 := by rw [← pow_succ]; congr 1; omega
  exact (hω.pow (Nat.two_pow_pos lgN) e).eq_neg_one_of_two_right

theorem round_size (v : Array K) (table : Array (Array K)) (t : Nat) :
    (@round K (FOps.ofField K) _ v table t).size = v.size := by
  simp [round]

theorem round_lo (v : Array K) (table : Array (Array K)) (t q j : Nat) (hj : j < 2 ^ t)
    (h : q * (2 * 2 ^ t) + j < v.size) :
    (@round K (FOps.ofField K) _ v table t)[q * (2 * 2 ^ t) + j]!
      = v[(2 * q) * 2 ^ t + j]! + (table[t]!)[j]! * v[(2 * q + 1) * 2 ^ t + j]! := by
  unfold round
  rw [getElem!_map_range _ _ _ h]
  have dm := divmod_of_eq (q * (2 * 2 ^ t) + j) q (2 * 2 ^ t) j rfl (by omega)
  simp only [dm.1, dm.2, if_pos hj]
  have e1 : q * (2 * 2 ^ t) + j = 2 * q * 2 ^ t + j := by ring
  have e2 : q * (2 * 2 ^ t) + 2 ^ t + j = (2 * q + 1) * 2 ^ t + j := by ring
  rw [e1, e2]

theorem round_hi (v : Array K) (table : Array (Array K)) (t q j : Nat) (hj : j < 2 ^ t)
    (h : q * (2 * 2 ^ t) + (j + 2 ^ t) < v.size) :
    (@round K (FOps.ofField K) _ v table t)[q * (2 * 2 ^ t) + (j + 2 ^ t)]!
      = v[(2 * q) * 2 ^ t + j]! - (table[t]!)[j]! * v[(2 * q + 1) * 2 ^ t + j]! := by
  unfold round
  rw [getElem!_map_range _ _ _ h]
  have dm := divmod_of_eq (q * (2 * 2 ^ t) + (j + 2 ^ t)) q (2 * 2 ^ t) (j + 2 ^ t) rfl (by omega)
  have hn : ¬ (j + 2 ^ t < 2 ^ t) := by omega
  simp only [dm.1, dm.2, if_neg hn]
  have e1 : q * (2 * 2 ^ t) + (j + 2 ^ t) - 2 ^ t = 2 * q * 2 ^ t + j := by
    have : q * (2 * 2 ^ t) + (j + 2 ^ t) = 2 * q * 2 ^ t + j + 2 ^ t := by ring
    omega
  have e2 : q * (2 * 2 ^ t) + (j + 2 ^ t) = (2 * q + 1) * 2 ^ t + j := by ring
  have e3 : j + 2 ^ t - 2 ^ t = j := by omega
  rw [e1, e2, e3]

/-- state after `t` rounds: the block of size `2^t` number `q` holds the size-`2^t` transform (root
`ω^(2^(lgN−t))`) of the decimated subsequence `values[s·2^(lgN−t) + bitrev (lgN−t) q]`, `s < 2^t` -/
def RoundInv (ω : K) (values : Array K) (lgN t : Nat) (v : Array K) : Prop :=
  v.size = 2 ^ lgN ∧ ∀ q j, q < 2 ^ (lgN - t) → j < 2 ^ t →
    v[q * 2 ^ t + j]! = dftFn (ω ^ (2 ^ (lgN - t)))
      (fun s => values[s * 2 ^ (lgN - t) + bitrev (lgN - t) q]!) (2 ^ t) j

theorem round_invariant {ω : K} {lgN : Nat} (hω : IsPrimitiveRoot ω (2 ^ lgN)) (values v : Array K)
    (table : Array (Array K)) (t : Nat) (ht : t < lgN)
    (htab : ∀ j, j < 2 ^ t → (table[t]!)[j]! = (ω ^ (2 ^ (lgN - t - 1))) ^ j)
    (hv : RoundInv ω values lgN t v) :
    RoundInv ω values lgN (t + 1) (@round K (FOps.ofField K) _ v table t) := by
  obtain ⟨hsz, hv⟩ := hv
  refine ⟨by rw [round_size, hsz], ?_⟩
  obtain ⟨L, rfl⟩ : ∃ L, lgN = t + 1 + L := ⟨lgN - (t + 1), by omega⟩
  have h1 : t + 1 + L - t = L + 1 := by omega
  have h2 : t + 1 + L - (t + 1) = L := by omega
  have h3 : t + 1 + L - t - 1 = L := by omega
  rw [h1] at hv
  rw [h3] at htab
  rw [h2]
  have hN : 2 ^ (t + 1 + L) = 2 ^ L * (2 * 2 ^ t) := by rw [pow_add, pow_succ]; ring
  have hζ : (ω ^ 2 ^ L) ^ 2 ^ t = -1 := by
    rw [← pow_mul, ← pow_add]
    have := primitive_half hω (by omega)
    rwa [show t + 1 + L - 1 = L + t by omega] at this
  have hζ2 : ω ^ 2 ^ (L + 1) = (ω ^ 2 ^ L) ^ 2 := by rw [← pow_mul, pow_succ]
  have e : (2 : Nat) ^ (t + 1) = 2 * 2 ^ t := by ring
  intro q j hq hj
  have hq0 : 2 * q < 2 ^ (L + 1) := by rw [pow_succ]; omega
  have hq1 : 2 * q + 1 < 2 ^ (L + 1) := by rw [pow_succ]; omega
  have b0 : bitrev (L + 1) (2 * q) = bitrev L q := by
    simp only [bitrev]
    rw [Nat.mul_mod_right, Nat.mul_div_cancel_left _ (by decide : 0 < 2)]; simp
  have b1 : bitrev (L + 1) (2 * q + 1) = 2 ^ L + bitrev L q := by
    simp only [bitrev]
    rw [show (2 * q + 1) % 2 = 1 by omega, show (2 * q + 1) / 2 = q by omega]; simp
  have hbound : q * (2 * 2 ^ t) + j < v.size := by
    rw [hsz, hN]
    calc q * (2 * 2 ^ t) + j < q * (2 * 2 ^ t) + 2 * 2 ^ t := by omega
      _ = (q + 1) * (2 * 2 ^ t) := by ring
      _ ≤ 2 ^ L * (2 * 2 ^ t) := Nat.mul_le_mul_right _ hq
  have f0 : (fun s => values[s * 2 ^ (L + 1) + bitrev (L + 1) (2 * q)]!)
      = (fun s => values[2 * s * 2 ^ L + bitrev L q]!) := by
    funext s; rw [b0]; congr 2; rw [pow_succ]; ring
  have f1 : (fun s => values[s * 2 ^ (L + 1) + bitrev (L + 1) (2 * q + 1)]!)
      = (fun s => values[(2 * s + 1) * 2 ^ L + bitrev L q]!) := by
    funext s; rw [b1]; congr 1; rw [pow_succ]; ring
  rw [e]
  by_cases hlo : j < 2 ^ t
  · rw [round_lo v table t q j hlo hbound, hv _ _ hq0 hlo, hv _ _ hq1 hlo, htab j hlo,
      dftFn_butterfly_lo, hζ2, f0, f1]
  · obtain ⟨j', rfl⟩ : ∃ j', j = j' + 2 ^ t := ⟨j - 2 ^ t, by omega⟩
    have hlo' : j' < 2 ^ t := by omega
    rw [round_hi v table t q j' hlo' hbound, hv _ _ hq0 hlo', hv _ _ hq1 hlo', htab j' hlo',
      dftFn_butterfly_hi _ _ _ _ hζ, hζ2, f0, f1]

theorem rootTable_size (pr : Nat → K) (lgN : Nat) :
    (@rootTable K (FOps.ofField K) pr lgN).size = lgN := by
  simp [rootTable]

theorem rootTable_getElem! (pr : Nat → K) (lgN t j : Nat) (ht : t < lgN) (hj : j < 2 ^ t) :
    ((@rootTable K (FOps.ofField K) pr lgN)[t]!)[j]! = (pr lgN ^ (2 ^ (lgN - t - 1))) ^ j := by
  unfold rootTable
  rw [getElem!_map_range _ _ _ ht]
  simp only []
  rw [getElem!_map_range _ _ _ (by simp; omega), pow_eq, pow_eq]
  rfl

theorem roundInv_zero (ω : K) (values : Array K) (lgN : Nat) (hs : values.size = 2 ^ lgN) :
    RoundInv ω values lgN 0 (reverseIndexBitsSpec values lgN) := by
  refine ⟨by simp [reverseIndexBitsSpec, hs], ?_⟩
  intro q j hq hj
  have hj0 : j = 0 := by simpa using hj
  subst hj0
  unfold reverseIndexBitsSpec
  rw [getElem!_map_range _ _ _ (by rw [hs]; simpa using hq)]
  simp [dftFn]

theorem roundInv_fold {ω : K} {lgN : Nat} (hω : IsPrimitiveRoot ω (2 ^ lgN)) (values : Array K)
    (hs : values.size = 2 ^ lgN) (table : Array (Array K))
    (htab : ∀ t j, t < lgN → j < 2 ^ t → (table[t]!)[j]! = (ω ^ (2 ^ (lgN - t - 1))) ^ j)
    (t : Nat) (ht : t ≤ lgN) :
    RoundInv ω values lgN t
      ((List.range t).foldl (fun v t => @round K (FOps.ofField K) _ v table (0 + t))
        (reverseIndexBitsSpec values lgN)) := by
  induction t with
  | zero => exact roundInv_zero ω values lgN hs
  | succ t ih =>
    rw [List.range_succ, List.foldl_append]
    simp only [List.foldl_cons, List.foldl_nil, Nat.zero_add]
    have := ih (by omega)
    simp only [Nat.zero_add] at this
    exact round_invariant hω values _ table t (by omega) (fun j hj => htab t j (by omega) hj) this

theorem roundInv_final {ω : K} {lgN : Nat} (values v : Array K) (hs : values.size = 2 ^ lgN)
    (h : RoundInv ω values lgN lgN v) : v = @dft K (FOps.ofField K) ω values := by
  apply array_ext!
  · rw [dft_size, h.1, hs]
  · intro i hi
    rw [h.1] at hi
    have := h.2 0 i (by simp) hi
    simp only [Nat.sub_self, pow_zero, pow_one, Nat.zero_mul, Nat.zero_add, Nat.mul_one, bitrev,
      Nat.add_zero] at this
    rw [this, dft_getElem! _ _ _ (by rw [hs]; exact hi), hs]

/-- `fft_classic` with `r = 0` over any table holding the right twiddles -/
theorem fftClassic_eq_dft_of_table {ω : K} {lgN : Nat} (hω : IsPrimitiveRoot ω (2 ^ lgN))
    (values : Array K) (hs : values.size = 2 ^ lgN) (table : Array (Array K))
    (hsize : table.size = lgN)
    (htab : ∀ t j, t < lgN → j < 2 ^ t → (table[t]!)[j]! = (ω ^ (2 ^ (lgN - t - 1))) ^ j) :
    @fftClassic K (FOps.ofField K) _ values lgN 0 table = .ok (@dft K (FOps.ofField K) ω values) := by
  unfold fftClassic
  simp only [hsize, ne_eq, not_true_eq_false, if_false, gt_iff_lt, Nat.lt_irrefl, Nat.sub_zero]
  congr 1
  exact roundInv_final values _ hs (roundInv_fold hω values hs table htab lgN (Nat.le_refl _))

theorem fftClassic_eq_dft {ω : K} {lgN : Nat} (hω : IsPrimitiveRoot ω (2 ^ lgN))
    (values : Array K) (hs : values.size = 2 ^ lgN) :
    @fftClassic K (FOps.ofField K) _ values lgN 0 (@rootTable K (FOps.ofField K) (fun _ => ω) lgN)
      = .ok (@dft K (FOps.ofField K) ω values) :=
  fftClassic_eq_dft_of_table hω values hs _ (rootTable_size _ _)
    (fun t j ht hj => rootTable_getElem! _ lgN t j ht hj)

end

/-! ### coefficient identity of synthetic division; counterexample -/

section
variable {K : Type} [Field K] [DecidableEq K]

theorem synth_getD (c : List K) (z : K) (i : Nat) :
    (synth c z).getD i 0 = @Poly.eval K (FOps.ofField K) (c.drop i) z := by
  induction c generalizing i with
  | nil => simp [synth, eval_nil]
  | cons a c ih =>
    cases i with
    | zero => simp [synth]
    | succ i => simpa [synth] using ih i

theorem getD_eq_eval_drop (p : List K) (z : K) (i : Nat) :
    p.getD i 0 = @Poly.eval K (FOps.ofField K) (p.drop i) z
      - @Poly.eval K (FOps.ofField K) (p.drop (i + 1)) z * z := by
  by_cases h : i < p.length
  · rw [List.drop_eq_getElem_cons h, eval_cons]
    simp [h]
  · have h1 : p.drop i = [] := List.drop_eq_nil_of_le (by omega)
    have h2 : p.drop (i + 1) = [] := List.drop_eq_nil_of_le (by omega)
    rw [h1, h2, eval_nil]
    simp [List.getElem?_eq_none (by omega : p.length ≤ i)]

theorem divideByLinear_getD (c : List K) (z : K) (i : Nat) :
    (@Poly.divideByLinear K (FOps.ofField K) c z).getD i 0
      = @Poly.eval K (FOps.ofField K) (c.drop (i + 1)) z := by
  cases c with
  | nil => simp [divideByLinear_nil, eval_nil]
  | cons a c => rw [divideByLinear_cons, synth_getD]; simp

end

section
variable {K : Type} [Field K] [DecidableEq K] [Inhabited K]

theorem ifft_as_stated_false (h2 : (2 : K) ≠ 0) :
    ∃ (ω : K) (c : Array K), c.size = 2 ∧ IsPrimitiveRoot ω 2 ∧
      @ifftPost K (FOps.ofField K) _ (@dft K (FOps.ofField K) ω c) ((2 : K))⁻¹ ≠ c := by
  have hp : IsPrimitiveRoot (-1 : K) 2 := by
    apply IsPrimitiveRoot.mk_of_lt _ (by decide) (by simp)
    intro l h0 hl
    obtain rfl : l = 1 := by omega
    intro h
    apply h2
    have : (1 : K) + 1 = 0 := by
      nth_rewrite 1 [← h]; simp
    rw [← this]; norm_num
  refine ⟨-1, #[0, 1], rfl, hp, ?_⟩
  intro h
  have h0 : (@ifftPost K (FOps.ofField K) _ (@dft K (FOps.ofField K) (-1) #[0, 1]) ((2 : K))⁻¹)[0]!
      = (#[0, 1] : Array K)[0]! := by rw [h]
  rw [ifftPost_dft_getElem! _ hp _ 0 (by simp)] at h0
  simp [dftFn, Finset.sum_range_succ] at h0
  exact h2 h0

end
end P2.Lemmas.C15
