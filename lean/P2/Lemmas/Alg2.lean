/-
Helpers for C05b / C08b: list folds as `Finset` sums/products, `Poly.lagrangeEval` as a closed
formula, coefficient lists as Mathlib polynomials, the FRI split/fold polynomials.
-/
import Mathlib.Tactic.Ring
import Mathlib.Tactic.Linarith
import Mathlib.Tactic.LinearCombination
import Mathlib.Tactic.FieldSimp
import Mathlib.Algebra.BigOperators.Fin
import Mathlib.Algebra.Polynomial.Roots
import Mathlib.Algebra.Polynomial.Div
import Mathlib.LinearAlgebra.Lagrange
import Mathlib.RingTheory.RootsOfUnity.PrimitiveRoots
import P2.Model.Poly
import P2.Lemmas.C15
namespace P2.Lemmas.Alg2
open P2 Polynomial

/-! ## list folds -/

theorem zipIdx_eq_ofFn {α : Type} (l : List α) :
    l.zipIdx = List.ofFn (fun i : Fin l.length => (l[i], (i : Nat))) := by
  apply List.ext_getElem <;> simp

section
variable {K : Type} [Field K]

theorem foldl_add_form {α : Type} (l : List α) (F : K → α → K) (f : α → K)
    (hF : ∀ acc p, F acc p = acc + f p) (a : K) :
    l.foldl F a = a + (l.map f).sum := by
  induction l generalizing a with
  | nil => simp
  | cons b l ih => simp [ih, hF, add_assoc]

theorem foldl_mul_form {α : Type} (l : List α) (F : K → α → K) (f : α → K)
    (hF : ∀ acc p, F acc p = acc * f p) (a : K) :
    l.foldl F a = a * (l.map f).prod := by
  induction l generalizing a with
  | nil => simp
  | cons b l ih => simp [ih, hF, mul_assoc]

theorem sum_map_zipIdx {α : Type} (l : List α) (f : α × Nat → K) :
    (l.zipIdx.map f).sum = ∑ i : Fin l.length, f (l[i], (i : Nat)) := by
  rw [zipIdx_eq_ofFn, List.map_ofFn, List.sum_ofFn]
  rfl

theorem prod_map_zipIdx {α : Type} (l : List α) (f : α × Nat → K) :
    (l.zipIdx.map f).prod = ∏ i : Fin l.length, f (l[i], (i : Nat)) := by
  rw [zipIdx_eq_ofFn, List.map_ofFn, List.prod_ofFn]
  rfl

variable [DecidableEq K]

/-- the model's `lagrangeEval` as a closed formula (no hypothesis on the points) -/
theorem lagrangeEval_formula (pts : List (K × K)) (x : K) :
    @Poly.lagrangeEval K (FOps.ofField K) pts x
      = ∑ i : Fin pts.length, pts[i].2
          * (∏ j : Fin pts.length, if (i : Nat) = j then 1 else (x - pts[j].1))
          * (∏ j : Fin pts.length, if (i : Nat) = j then 1 else (pts[i].1 - pts[j].1))⁻¹ := by
  unfold Poly.lagrangeEval
  have hprod : ∀ (i : Nat) (y : K),
      pts.zipIdx.foldl (fun a (p : (K × K) × Nat) =>
        match p with
        | ((xj, _), j) => if i = j then a else a * (y - xj)) (1 : K)
      = ∏ j : Fin pts.length, if i = (j : Nat) then 1 else (y - pts[j].1) := by
    intro i y
    rw [foldl_mul_form (f := fun p : (K × K) × Nat => if i = p.2 then 1 else (y - p.1.1)),
      prod_map_zipIdx, one_mul]
    rintro acc ⟨⟨xj, yj⟩, j⟩
    by_cases h : i = j <;> simp [h]
  rw [foldl_add_form (f := fun p : (K × K) × Nat => p.1.2
      * (∏ j : Fin pts.length, if p.2 = (j : Nat) then 1 else (x - pts[j].1))
      * (∏ j : Fin pts.length, if p.2 = (j : Nat) then 1 else (p.1.1 - pts[j].1))⁻¹),
    sum_map_zipIdx]
  · show (0 : K) + _ = _
    rw [zero_add]
  · rintro acc ⟨⟨xi, yi⟩, i⟩
    simp only
    erw [hprod i x, hprod i xi]
    rfl

/-- … which is Mathlib's Lagrange interpolant, evaluated at `x` -/
theorem lagrangeEval_eq_interpolate_univ (pts : List (K × K)) (x : K) :
    @Poly.lagrangeEval K (FOps.ofField K) pts x
      = (Lagrange.interpolate Finset.univ (fun i : Fin pts.length => pts[i].1)
          (fun i : Fin pts.length => pts[i].2)).eval x := by
  rw [lagrangeEval_formula, Lagrange.interpolate_apply, eval_finsetSum]
  apply Finset.sum_congr rfl
  intro i _
  rw [eval_mul, eval_C, mul_assoc]
  congr 1
  unfold Lagrange.basis Lagrange.basisDivisor
  rw [eval_prod, ← Finset.prod_inv_distrib, ← Finset.prod_mul_distrib,
    ← Finset.filter_ne Finset.univ i, Finset.prod_filter]
  apply Finset.prod_congr rfl
  intro j _
  by_cases h : i = j
  · subst h; simp
  · have h' : (i : Nat) ≠ j := fun e => h (Fin.ext e)
    simp [h, h', mul_comm]

/-- interpolating the values of a polynomial of degree `< #nodes` at pairwise distinct nodes and
evaluating at `x` gives `p(x)` -/
theorem lagrangeEval_of_poly (nodes : List K) (hn : nodes.Nodup) (p : K[X])
    (hp : p.degree < nodes.length) (x : K) :
    @Poly.lagrangeEval K (FOps.ofField K) (nodes.map fun a => (a, p.eval a)) x = p.eval x := by
  rw [lagrangeEval_eq_interpolate_univ]
  congr 1
  symm
  apply Lagrange.eq_interpolate_of_eval_eq
  · intro i _ j _ h
    simp only [Fin.getElem_fin, List.getElem_map] at h
    apply Fin.ext
    exact (List.Nodup.getElem_inj_iff hn).1 h
  · simpa using hp
  · intro i _
    simp

/-! ## coefficient lists as polynomials -/

/-- the polynomial with coefficient list `c` (low degree first) -/
noncomputable def ofList : List K → K[X]
  | [] => 0
  | a :: c => C a + X * ofList c

omit [DecidableEq K] in
theorem ofList_coeff (c : List K) (i : Nat) : (ofList c).coeff i = c.getD i 0 := by
  induction c generalizing i with
  | nil => simp [ofList]
  | cons a c ih =>
    cases i with
    | zero => simp [ofList]
    | succ i => simp [ofList, ih, coeff_C_succ]

omit [DecidableEq K] in
theorem ofList_degree_lt (c : List K) : (ofList c).degree < c.length := by
  rw [degree_lt_iff_coeff_zero]
  intro m hm
  rw [ofList_coeff]
  simp [hm]

theorem ofList_eval (c : List K) (x : K) :
    (ofList c).eval x = @Poly.eval K (FOps.ofField K) c x := by
  induction c with
  | nil => simp [ofList, Lemmas.C15.eval_nil]
  | cons a c ih => rw [Lemmas.C15.eval_cons, ← ih]; simp [ofList]; ring

omit [DecidableEq K] in
theorem ofList_injective_of_length {c c' : List K} (hl : c.length = c'.length)
    (h : ofList c = ofList c') : c = c' := by
  apply List.ext_getElem hl
  intro i h1 h2
  have := congrArg (fun p => p.coeff i) h
  simpa [ofList_coeff, h1, h2] using this

/-- polynomial form of `synth_spec` -/
theorem ofList_synth (c : List K) (z : K) :
    ofList c * X = ofList (Lemmas.C15.synth c z) * (X - C z)
      + C (@Poly.eval K (FOps.ofField K) c z * z) := by
  induction c with
  | nil => simp [Lemmas.C15.synth, ofList, Lemmas.C15.eval_nil]
  | cons a c ih =>
    simp only [Lemmas.C15.synth, ofList, Lemmas.C15.eval_cons, C_add, C_mul] at ih ⊢
    linear_combination (X) * ih

/-- `divide_by_linear` is Mathlib's `/ₘ (X − C z)` on coefficient lists -/
theorem ofList_divideByLinear (c : List K) (z : K) :
    ofList (@Poly.divideByLinear K (FOps.ofField K) c z) = ofList c /ₘ (X - C z) := by
  symm
  refine (div_modByMonic_unique _ (C (@Poly.eval K (FOps.ofField K) c z)) (monic_X_sub_C z)
    ⟨?_, ?_⟩).1
  · cases c with
    | nil => simp [Lemmas.C15.divideByLinear_nil, ofList, Lemmas.C15.eval_nil]
    | cons a c =>
      rw [Lemmas.C15.divideByLinear_cons]
      have := ofList_synth c z
      simp only [ofList, Lemmas.C15.eval_cons, C_add, C_mul] at this ⊢
      linear_combination (-1 : K[X]) * this
  · rw [degree_X_sub_C]
    exact lt_of_le_of_lt degree_C_le (by norm_num)

/-! ## the FRI split and fold polynomials -/

/-- `P = Σ_{i<r} X^i · P_i(X^r)` -/
noncomputable def splitPoly {r : Nat} (Pi : Fin r → K[X]) : K[X] :=
  ∑ i : Fin r, X ^ (i : Nat) * (Pi i).comp (X ^ r)

/-- `Q_y(Y) = Σ_{i<r} P_i(y) · Y^i`: with `y = x^r`, the restriction of `P` to the coset `x·⟨g⟩`,
and `Q_y(β)` is the folded polynomial `Σ β^i P_i` evaluated at `y` -/
noncomputable def cosetPoly {r : Nat} (Pi : Fin r → K[X]) (y : K) : K[X] :=
  ∑ i : Fin r, C ((Pi i).eval y) * X ^ (i : Nat)

/-- the prover's fold `Σ_{i<r} β^i · P_i` -/
noncomputable def foldPoly {r : Nat} (Pi : Fin r → K[X]) (β : K) : K[X] :=
  ∑ i : Fin r, C (β ^ (i : Nat)) * Pi i

omit [DecidableEq K] in
theorem cosetPoly_degree_lt {r : Nat} (Pi : Fin r → K[X]) (y : K) :
    (cosetPoly Pi y).degree < r := degree_sum_fin_lt _

omit [DecidableEq K] in
theorem cosetPoly_eval {r : Nat} (Pi : Fin r → K[X]) (y β : K) :
    (cosetPoly Pi y).eval β = ∑ i : Fin r, β ^ (i : Nat) * (Pi i).eval y := by
  simp only [cosetPoly, eval_finsetSum, eval_mul, eval_C, eval_pow, eval_X]
  exact Finset.sum_congr rfl fun i _ => mul_comm _ _

omit [DecidableEq K] in
theorem foldPoly_eval {r : Nat} (Pi : Fin r → K[X]) (y β : K) :
    (foldPoly Pi β).eval y = ∑ i : Fin r, β ^ (i : Nat) * (Pi i).eval y := by
  simp [foldPoly, eval_finsetSum]

omit [DecidableEq K] in
theorem splitPoly_eval {r : Nat} (Pi : Fin r → K[X]) (w : K) :
    (splitPoly Pi).eval w = ∑ i : Fin r, w ^ (i : Nat) * (Pi i).eval (w ^ r) := by
  simp [splitPoly, eval_finsetSum, eval_comp]

omit [DecidableEq K] in
theorem coset_pow {r : Nat} {g : K} (hg : g ^ r = 1) (x : K) (j : Nat) :
    (x * g ^ j) ^ r = x ^ r := by
  rw [mul_pow, ← pow_mul, mul_comm j r, pow_mul, hg, one_pow, mul_one]

omit [DecidableEq K] in
theorem splitPoly_eval_coset {r : Nat} (Pi : Fin r → K[X]) {g : K} (hg : g ^ r = 1) (x : K)
    (j : Nat) :
    (splitPoly Pi).eval (x * g ^ j) = (cosetPoly Pi (x ^ r)).eval (x * g ^ j) := by
  rw [splitPoly_eval, cosetPoly_eval, coset_pow hg]

omit [DecidableEq K] in
theorem coset_nodup {r : Nat} {g x : K} (hg : IsPrimitiveRoot g r) (hx : x ≠ 0) :
    ((List.range r).map fun j => x * g ^ j).Nodup := by
  refine List.Nodup.map_on ?_ List.nodup_range
  intro i hi j hj h
  exact hg.pow_inj (List.mem_range.1 hi) (List.mem_range.1 hj) (mul_left_cancel₀ hx h)

omit [DecidableEq K] in
/-- every polynomial of degree `< d·r` splits as `Σ_{i<r} X^i·P_i(X^r)` with `deg P_i < d` -/
theorem exists_splitPoly_of_natDegree_lt (P : K[X]) (d r : Nat) (hlt : P.natDegree < d * r) :
    ∃ Pi : Fin r → K[X], splitPoly Pi = P ∧ ∀ i, (Pi i).degree < d := by
  refine ⟨fun i => ∑ k : Fin d, C (P.coeff ((i : Nat) + r * k)) * X ^ (k : Nat), ?_,
    fun i => degree_sum_fin_lt _⟩
  conv_rhs => rw [P.as_sum_range' (d * r) hlt]
  rw [← Fin.sum_univ_eq_sum_range (fun n => monomial n (P.coeff n)) (d * r),
    ← Fintype.sum_equiv finProdFinEquiv
      (fun x : Fin d × Fin r => monomial ((x.2 : Nat) + r * x.1) (P.coeff ((x.2 : Nat) + r * x.1)))
      (fun n : Fin (d * r) => monomial (n : Nat) (P.coeff n)) (fun x => rfl),
    Fintype.sum_prod_type, Finset.sum_comm]
  unfold splitPoly
  apply Finset.sum_congr rfl
  intro i _
  simp only []
  rw [Polynomial.sum_comp, Finset.mul_sum]
  apply Finset.sum_congr rfl
  intro k _
  rw [mul_comp, C_comp, X_pow_comp, ← C_mul_X_pow_eq_monomial, pow_add, pow_mul]
  ring

omit [DecidableEq K] in
theorem exists_splitPoly (P : K[X]) {r : Nat} (hr : 0 < r) :
    ∃ Pi : Fin r → K[X], splitPoly Pi = P := by
  obtain ⟨Pi, h, _⟩ := exists_splitPoly_of_natDegree_lt P (P.natDegree + 1) r (by
    have : (P.natDegree + 1) * 1 ≤ (P.natDegree + 1) * r := Nat.mul_le_mul_left _ hr
    omega)
  exact ⟨Pi, h⟩

omit [DecidableEq K] in
/-- folding divides the degree bound by `r` -/
theorem foldPoly_degree_lt {r : Nat} (Pi : Fin r → K[X]) (β : K) (d : Nat)
    (h : ∀ i, (Pi i).degree < d) : (foldPoly Pi β).degree < d := by
  unfold foldPoly
  refine (degree_sum_le _ _).trans_lt ((Finset.sup_lt_iff (WithBot.bot_lt_coe _)).2 fun i _ => ?_)
  rw [← smul_eq_C_mul]
  exact (degree_smul_le _ _).trans_lt (h i)

/-! ## logUp: the cleared-denominator polynomial `Σ_a w(a)·∏_{b ∈ S∖{a}} (X − b)` -/

/-- `Σ_{a∈S} w(a) · ∏_{b∈S, b≠a} (X − b)`: the sum `Σ_a w(a)/(X − a)` multiplied by `∏_{b∈S}(X − b)` -/
noncomputable def logupPoly (S : Finset K) (w : K → K) : K[X] :=
  ∑ a ∈ S, w a • ∏ b ∈ S.erase a, (X - C b)

theorem logupPoly_eval (S : Finset K) (w : K → K) (x : K) :
    (logupPoly S w).eval x = ∑ a ∈ S, w a * ∏ b ∈ S.erase a, (x - b) := by
  simp [logupPoly, eval_finsetSum, eval_prod]

/-- at a node only one summand survives -/
theorem logupPoly_eval_node (S : Finset K) (w : K → K) {a : K} (ha : a ∈ S) :
    (logupPoly S w).eval a = w a * ∏ b ∈ S.erase a, (a - b) := by
  rw [logupPoly_eval, Finset.sum_eq_single a]
  · intro c _ hca
    rw [Finset.prod_eq_zero (i := a) (Finset.mem_erase.2 ⟨fun h => hca h.symm, ha⟩) (sub_self a),
      mul_zero]
  · intro h; exact absurd ha h

theorem prod_erase_ne_zero (S : Finset K) (a : K) : ∏ b ∈ S.erase a, (a - b) ≠ 0 := by
  rw [Finset.prod_ne_zero_iff]
  intro b hb
  exact sub_ne_zero.2 (Finset.mem_erase.1 hb).1.symm

theorem logupPoly_degree_lt (S : Finset K) (w : K → K) (hS : S.Nonempty) :
    (logupPoly S w).degree < S.card := by
  unfold logupPoly
  refine (degree_sum_le _ _).trans_lt ((Finset.sup_lt_iff (WithBot.bot_lt_coe _)).2 fun a ha => ?_)
  refine (degree_smul_le _ _).trans_lt ?_
  have : (∏ b ∈ S.erase a, (X - C b) : K[X]) = Lagrange.nodal (S.erase a) id := rfl
  rw [this, Lagrange.degree_nodal, Finset.card_erase_of_mem ha]
  have := Finset.card_pos.2 hS
  exact_mod_cast Nat.sub_lt this Nat.one_pos

/-- off the nodes, the polynomial is the rational sum times the vanishing product -/
theorem logupPoly_eval_off (S : Finset K) (w : K → K) {x : K} (hx : x ∉ S) :
    (logupPoly S w).eval x = (∏ b ∈ S, (x - b)) * ∑ a ∈ S, w a / (x - a) := by
  rw [logupPoly_eval, Finset.mul_sum]
  apply Finset.sum_congr rfl
  intro a ha
  have hne : x - a ≠ 0 := sub_ne_zero.2 (fun h => hx (h ▸ ha))
  rw [← Finset.mul_prod_erase S (fun b => x - b) ha]
  field_simp

/-- if the rational identity holds at `≥ #S` points off `S`, the polynomial identity holds -/
theorem logupPoly_eq_of_evals (S T : Finset K) (w w' : K → K) (hdisj : Disjoint T S)
    (hcard : S.card ≤ T.card)
    (h : ∀ x ∈ T, ∑ a ∈ S, w a / (x - a) = ∑ a ∈ S, w' a / (x - a)) :
    logupPoly S w = logupPoly S w' := by
  rcases S.eq_empty_or_nonempty with rfl | hS
  · simp [logupPoly]
  · apply eq_of_degrees_lt_of_eval_finset_eq T
    · exact (logupPoly_degree_lt S w hS).trans_le (by exact_mod_cast hcard)
    · exact (logupPoly_degree_lt S w' hS).trans_le (by exact_mod_cast hcard)
    · intro x hx
      have hxS : x ∉ S := Finset.disjoint_left.1 hdisj hx
      rw [logupPoly_eval_off S w hxS, logupPoly_eval_off S w' hxS, h x hx]

/-- equal cleared-denominator polynomials have equal weights on `S` -/
theorem logupPoly_inj (S : Finset K) (w w' : K → K) (h : logupPoly S w = logupPoly S w') :
    ∀ a ∈ S, w a = w' a := by
  intro a ha
  have := congrArg (eval a) h
  rw [logupPoly_eval_node S w ha, logupPoly_eval_node S w' ha] at this
  exact mul_right_cancel₀ (prod_erase_ne_zero S a) this

/-- `Σ_j g(f_j)` over a list as a count-weighted sum over any finset containing the entries -/
theorem sum_map_eq_count_sum (f : List K) (S : Finset K) (hS : f.toFinset ⊆ S) (g : K → K) :
    (f.map g).sum = ∑ a ∈ S, (f.count a : K) * g a := by
  rw [Finset.sum_list_map_count, ← Finset.sum_subset hS]
  · apply Finset.sum_congr rfl; intro a _; rw [nsmul_eq_mul]
  · intro a _ ha
    rw [List.mem_toFinset] at ha
    simp [List.count_eq_zero_of_not_mem ha]

/-- `Σ_i h(t_i)` over a duplicate-free list as a sum over any finset containing the entries -/
theorem sum_map_eq_ite_sum (t : List K) (ht : t.Nodup) (S : Finset K) (hS : t.toFinset ⊆ S)
    (g : K → K) :
    (t.map g).sum = ∑ a ∈ S, if a ∈ t then g a else 0 := by
  rw [← List.sum_toFinset g ht, ← Finset.sum_subset hS]
  · apply Finset.sum_congr rfl; intro a ha; rw [if_pos (List.mem_toFinset.1 ha)]
  · intro a _ ha
    rw [List.mem_toFinset] at ha
    simp [ha]

end

end P2.Lemmas.Alg2
