/-
C16 (d) applied to `FriProof::compress`: the initial-tree map of the compressed proof is the sorted
first-wins map of the per-query entries, so a lookup returns the entry of the FIRST query with that
index.
-/
import P2.Lemmas.C16Maps
namespace P2.Lemmas.C16
open P2 P2.Fri P2.Merkle P2.Compress P2.Decompress

theorem foldl_fst {α β γ : Type} (f : α × β → γ → α × β) (g : α → γ → α)
    (hf : ∀ a b x, (f (a, b) x).1 = g a x) :
    ∀ (l : List γ) (a : α) (b : β), (l.foldl f (a, b)).1 = l.foldl g a := by
  intro l
  induction l with
  | nil => intros; rfl
  | cons x l ih =>
    intro a b
    rw [List.foldl_cons, List.foldl_cons]
    have : f (a, b) x = ((f (a, b) x).1, (f (a, b) x).2) := rfl
    rw [this, ih, hf]

/-- the compressed Merkle paths of initial tree `t`, per query position (as in `compress`) -/
def initialCompressed (π : Fri.Proof) (idx : List Nat) (p : FriParams) (t : Nat) : List (List Digest) :=
  let qs := idx.zip π.queries
  let ps := qs.map fun (_, q) => (q.initial.getD t ([], [])).2
  PathCompression.compress (p.config.capHeight + (ps.headD []).length) p.config.capHeight (qs.map (·.1)) ps

/-- the `(index, entry)` pairs offered to the initial map, in query order -/
def initKVs (π : Fri.Proof) (idx : List Nat) (p : FriParams) (numInitial : Nat) :
    List (Nat × List (List GL × List Digest)) :=
  ((idx.zip π.queries).zipIdx).map fun ((index, q), qi) =>
    (index, (List.range numInitial).map fun t =>
      ((q.initial.getD t ([], [])).1, (initialCompressed π idx p t).getD qi []))

theorem compress_initial_eq (π : Fri.Proof) (idx : List Nat) (p : FriParams) (cp : CompressedFriProof)
    (h : Compress.compress π idx p = some cp) :
    ∃ q0, π.queries[0]? = some q0 ∧
      cp.rounds.initial = sortByKey (foldIns [] (initKVs π idx p q0.initial.length)) := by
  unfold Compress.compress at h
  cases hq : π.queries[0]? with
  | none => simp [hq] at h
  | some q0 =>
    refine ⟨q0, rfl, ?_⟩
    simp only [hq, Option.bind_eq_bind, Option.bind_some, Option.pure_def, Option.some.injEq] at h
    subst h
    simp only []
    congr 1
    rw [foldl_fst _ (fun (m : List (Nat × List (List GL × List Digest))) (x : (Nat × QueryRound) × Nat) =>
      insertFirstWins m x.1.1 ((List.range q0.initial.length).map fun t =>
        ((x.1.2.initial.getD t ([], [])).1, (initialCompressed π idx p t).getD x.2 [])))]
    · unfold foldIns initKVs
      rw [List.foldl_map]
    · intro a b x
      rcases x with ⟨⟨index, q⟩, qi⟩
      show insertFirstWins a index _ = insertFirstWins a index _
      congr 1
      apply List.map_congr_left
      intro t ht
      have ht' : t < q0.initial.length := List.mem_range.1 ht
      simp [initialCompressed, List.getElem?_range ht']

/-- **(d) for `compress`**: under index `k` the compressed proof stores the initial-tree entry
(leaves and compressed paths) of the FIRST query whose index is `k` -/
theorem compress_initial_lookup (π : Fri.Proof) (idx : List Nat) (p : FriParams) (cp : CompressedFriProof)
    (h : Compress.compress π idx p = some cp) :
    ∃ q0, π.queries[0]? = some q0 ∧
      ∀ k, lookupKey cp.rounds.initial k = lookupKey (initKVs π idx p q0.initial.length) k := by
  obtain ⟨q0, hq, e⟩ := compress_initial_eq π idx p cp h
  exact ⟨q0, hq, fun k => by rw [e, lookupKey_sorted_foldIns]⟩

end P2.Lemmas.C16
