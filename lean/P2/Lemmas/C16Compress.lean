/-
C16 (d) applied to `FriProof::compress`: the initial-tree map of the compressed proof is the sorted
first-wins map of the per-query entries, so a lookup returns the entry of the FIRST query with that
index.
-/
import P2.Lemmas.C16Maps
namespace P2.Lemmas.C16
open P2 P2.Fri P2.Merkle P2.Compress P2.Decompress

theorem foldl_fst {α β γ : Type} (f : α × β → γ → α × β) (g : α → γ → α)
    (hf : ∀ a b x, (f (a, b) x).1 = g a x) :
    ∀ (l : List γ) (a : α) (b : β), (l.foldl f (a, b)).1 = l.foldl g a := by
  intro l
  induction l with
  | nil => intros; rfl
  | cons x l ih =>
    intro a b
    rw [List.foldl_cons, List.foldl_cons]
    have : f (a, b) x = ((f (a, b) x).1, (f (a, b) x).2) := rfl
    rw [this, ih, hf]

/-- the compressed Merkle paths of initial tree `t`, per query position (as in `compress`) -/
def initialCompressed (π : Fri.Proof) (idx : List Nat) (p : FriParams) (t : Nat) : List (List Digest) :=
  let qs := idx.zip π.queries
  let ps := qs.map fun (_, q) => (q.initial.getD t ([], [])).2
  PathCompression.compress (p.config.capHeight + (ps.headD []).length) p.config.capHeight (qs.map (·.1)) ps

/-- the `(index, entry)` pairs offered to the initial map, in query order -/
def initKVs (π : Fri.Proof) (idx : List Nat) (p : FriParams) (numInitial : Nat) :
    List (Nat × List (List GL × List Digest)) :=
  ((idx.zip π.queries).zipIdx).map fun ((index, q), qi) =>
    (index, (List.range numInitial).map fun t =>
      ((q.initial.getD t ([], [])).1, (initialCompressed π idx p t).getD qi []))

theorem compress_initial_eq (π : Fri.Proof) (idx : List Nat) (p : FriParams) (cp : CompressedFriProof)
    (h : Compress.compress π idx p = some cp) :
    ∃ q0, π.queries[0]? = some q0 ∧
      cp.rounds.initial = sortByKey (foldIns [] (initKVs π idx p q0.initial.length)) := by
  unfold Compress.compress at h
  cases hq : π.queries[0]? with
  | none => simp [hq] at h
  | some q0 =>
    refine ⟨q0, rfl, ?_⟩
    simp only [hq, Option.bind_eq_bind, Option.bind_some, Option.pure_def, Option.some.injEq] at h
    subst h
    simp only []
    congr 1
    rw [foldl_fst _ (fun (m : List (Nat × List (List GL × List Digest))) (x : (Nat × QueryRound) × Nat) =>
      insertFirstWins m x.1.1 ((List.range q0.initial.length).map fun t =>
        ((x.1.2.initial.getD t ([], [])).1, (initialCompressed π idx p t).getD x.2 [])))]
    · unfold foldIns initKVs
      rw [List.foldl_map]
    · intro a b x
      rcases x with ⟨⟨index, q⟩, qi⟩
      show insertFirstWins a index _ = insertFirstWins a index _
      congr 1
      apply List.map_congr_left
      intro t ht
      have ht' : t < q0.initial.length := List.mem_range.1 ht
      simp [initialCompressed, List.getElem?_range ht']

/-- **(d) for `compress`**: under index `k` the compressed proof stores the initial-tree entry
(leaves and compressed paths) of the FIRST query whose index is `k` -/
theorem compress_initial_lookup (π : Fri.Proof) (idx : List Nat) (p : FriParams) (cp : CompressedFriProof)
    (h : Compress.compress π idx p = some cp) :
    ∃ q0, π.queries[0]? = some q0 ∧
      ∀ k, lookupKey cp.rounds.initial k = lookupKey (initKVs π idx p q0.initial.length) k := by
  obtain ⟨q0, hq, e⟩ := compress_initial_eq π idx p cp h
  exact ⟨q0, hq, fun k => by rw [e, lookupKey_sorted_foldIns]⟩

theorem getD_range_map {β : Type} (n : Nat) (B : Nat → β) (d : β) (j : Nat) (hj : j < n) :
    ((List.range n).map B).getD j d = B j := by
  simp [List.getD_eq_getElem?_getD, List.getElem?_map, List.getElem?_range hj]

theorem foldl_snd_range {α β γ : Type} (n : Nat) (f : α × List β → γ → α × List β)
    (g : Nat → β → γ → β) (d : β)
    (hf : ∀ a b x, (f (a, b) x).2 = (List.range n).map (fun j => g j (b.getD j d) x)) :
    ∀ (l : List γ) (a : α) (B : Nat → β),
      (l.foldl f (a, (List.range n).map B)).2 = (List.range n).map (fun j => l.foldl (g j) (B j)) := by
  intro l
  induction l with
  | nil => intros; rfl
  | cons x l ih =>
    intro a B
    rw [List.foldl_cons]
    have e : f (a, (List.range n).map B) x
        = ((f (a, (List.range n).map B) x).1, (List.range n).map (fun j => g j (B j) x)) := by
      apply Prod.ext
      · rfl
      · rw [hf]
        apply List.map_congr_left
        intro j hj
        rw [getD_range_map n B d j (List.mem_range.1 hj)]
    rw [e, ih]
    rfl

/-- the compressed Merkle paths of reduction layer `j`, per query position (as in `compress`) -/
def stepsCompressed (π : Fri.Proof) (idx : List Nat) (p : FriParams) (j : Nat) : List (List Digest) :=
  let qs := idx.zip π.queries
  let ps := qs.map fun (_, q) => (q.steps.getD j default).merkleProof
  PathCompression.compress (p.config.capHeight + (ps.headD []).length) p.config.capHeight
    (qs.map fun (i, _) => (layerIndex p.arityBits i j).1) ps

/-- the `(coset index, entry)` pairs offered to the step map of layer `j`, in query order -/
def stepKVs (π : Fri.Proof) (idx : List Nat) (p : FriParams) (j : Nat) : List (Nat × QueryStep) :=
  ((idx.zip π.queries).zipIdx).map fun ((index, q), qi) =>
    ((layerIndex p.arityBits index j).1,
      (⟨removeAt (q.steps.getD j default).evals (layerIndex p.arityBits index j).2,
        (stepsCompressed π idx p j).getD qi []⟩ : QueryStep))

theorem compress_steps_eq (π : Fri.Proof) (idx : List Nat) (p : FriParams) (cp : CompressedFriProof)
    (h : Compress.compress π idx p = some cp) :
    cp.rounds.steps = (List.range p.arityBits.length).map fun j =>
      sortByKey (foldIns [] (stepKVs π idx p j)) := by
  unfold Compress.compress at h
  cases hq : π.queries[0]? with
  | none => simp [hq] at h
  | some q0 =>
    simp only [hq, Option.bind_eq_bind, Option.bind_some, Option.pure_def, Option.some.injEq] at h
    subst h
    simp only []
    rw [show ((List.range p.arityBits.length).map fun j => sortByKey (foldIns [] (stepKVs π idx p j)))
      = ((List.range p.arityBits.length).map fun j => foldIns [] (stepKVs π idx p j)).map sortByKey by
        rw [List.map_map]; rfl]
    congr 1
    have hrep : List.replicate p.arityBits.length ([] : List (Nat × QueryStep))
        = (List.range p.arityBits.length).map (fun _ => []) := by
      apply List.ext_getElem <;> simp
    rw [hrep]
    rw [foldl_snd_range p.arityBits.length _
      (fun j (m : List (Nat × QueryStep)) (x : (Nat × QueryRound) × Nat) =>
        insertFirstWins m (layerIndex p.arityBits x.1.1 j).1
          (⟨removeAt (x.1.2.steps.getD j default).evals (layerIndex p.arityBits x.1.1 j).2,
            (stepsCompressed π idx p j).getD x.2 []⟩ : QueryStep)) []]
    · apply List.map_congr_left
      intro j hj
      unfold foldIns stepKVs
      rw [List.foldl_map]
    · intro a b x
      rcases x with ⟨⟨index, q⟩, qi⟩
      simp only []
      apply List.map_congr_left
      intro j hj
      have hj' : j < p.arityBits.length := List.mem_range.1 hj
      simp [stepsCompressed, List.getElem?_range hj']

/-- **(d) for `compress`, step maps**: for every layer `j`, under coset index `k` the compressed
proof stores the entry built from the FIRST query whose layer-`j` coset index is `k` -/
theorem compress_step_lookup (π : Fri.Proof) (idx : List Nat) (p : FriParams) (cp : CompressedFriProof)
    (h : Compress.compress π idx p = some cp) (j : Nat) (hj : j < p.arityBits.length) :
    ∃ m, cp.rounds.steps[j]? = some m ∧ ∀ k, lookupKey m k = lookupKey (stepKVs π idx p j) k := by
  refine ⟨sortByKey (foldIns [] (stepKVs π idx p j)), ?_, fun k => lookupKey_sorted_foldIns _ k⟩
  rw [compress_steps_eq π idx p cp h, List.getElem?_map, List.getElem?_range hj]
  rfl

end P2.Lemmas.C16
