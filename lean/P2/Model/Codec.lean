/-
L6: the binary encoding of `plonky2/src/util/serialization/mod.rs` (`Read` / `Write` traits over
`Buffer` / `Vec<u8>`): a small codec combinator language and, written in it, the codecs of
`FriProof`, `Proof`, `ProofWithPublicInputs`, `CompressedFriProof`, `CompressedProof`,
`CompressedProofWithPublicInputs`, `OpeningSet`, `MerkleCap`, `MerkleProof`, `FriQueryRound` ….

Every vector length comes from the COMMON DATA, exactly as in the Rust readers, except the three
places where the Rust code reads a length (or its equivalent) from the input:
  * `read_merkle_proof`: a ONE-BYTE sibling count (`read_u8`), so at most 255 siblings;
  * `read_proof_with_public_inputs`: a `usize` (8 bytes LE) count of public inputs — the elements
    are then read one by one, so the count is bounded by the remaining bytes / 8 (no allocation
    ahead of the data: `read_field_vec` collects an iterator, it does not `with_capacity`);
  * `read_compressed_proof_with_public_inputs`: NO count at all — the public inputs are "whatever
    is left", `remaining() / 8` elements; a trailing fragment of < 8 bytes is ignored;
plus, in compressed proofs, the number of initial-tree proofs and of query steps per layer, which is
the number of DISTINCT (shifted) query indices read from the input — at most `num_query_rounds`.

Core Lean only (linked into the driver executable).
-/
import P2.Model.Plonk
import P2.Model.Compress
namespace P2.Codec
open P2 P2.Merkle

abbrev Bytes := List UInt8

/-! ### little-endian words -/

/-- `x.to_le_bytes()` for a `k`-byte unsigned integer (the value is truncated to `k` bytes, like an
`as u8` / `as u32` / `as u64` cast) -/
def leBytes : Nat → Nat → Bytes
  | 0, _ => []
  | k + 1, n => (n % 256).toUInt8 :: leBytes k (n / 256)

/-- `read_exact` of `k` bytes followed by `uN::from_le_bytes`; `none` = `Err(IoError)` (too short) -/
def readLE : Nat → Bytes → Option (Nat × Bytes)
  | 0, bs => some (0, bs)
  | _ + 1, [] => none
  | k + 1, b :: bs =>
    match readLE k bs with
    | some (v, r) => some (b.toNat + 256 * v, r)
    | none => none

/-! ### the combinator language -/

/-- A codec for values of type `α`. Five primitives; everything else is derived.
* `nat k`   : `k`-byte little-endian unsigned (`u8`, `u16`, `u32`, `usize`-as-`u64`);
* `bool`    : `read_bool` — one byte, only `0` and `1` are accepted;
* `dep c k` : a `c`, then a `k a` where `a` is the value just read (sequencing; `pair` when `k` is constant);
* `seq n k` : exactly `n` items, item `i` with codec `k i` (no length is written);
* `map f g c` : transport along `f : α → β` / `g : β → α`; a value `b` is encodable iff `f (g b) = b`. -/
inductive Codec : Type → Type 1 where
  | nat (k : Nat) : Codec Nat
  | bool : Codec Bool
  | dep {α β : Type} (c : Codec α) (k : α → Codec β) : Codec (α × β)
  | seq {α : Type} (n : Nat) (k : Nat → Codec α) : Codec (List α)
  | map {α β : Type} [DecidableEq β] (f : α → β) (g : β → α) (c : Codec α) : Codec β

/-- items `i, i+1, …` written back to back -/
def writeSeq {α} (w : Nat → α → Bytes) : Nat → List α → Bytes
  | _, [] => []
  | i, x :: xs => w i x ++ writeSeq w (i + 1) xs

/-- read `n` items, the first one being item number `i` -/
def readSeq {α} (r : Nat → Bytes → Option (α × Bytes)) : Nat → Nat → Bytes → Option (List α × Bytes)
  | 0, _, bs => some ([], bs)
  | n + 1, i, bs =>
    match r i bs with
    | none => none
    | some (x, rest) =>
      match readSeq r n (i + 1) rest with
      | none => none
      | some (xs, rest') => some (x :: xs, rest')

/-- every item `x` at position `i + j` satisfies `p (i + j) x` -/
def allSeq {α} (p : Nat → α → Bool) : Nat → List α → Bool
  | _, [] => true
  | i, x :: xs => p i x && allSeq p (i + 1) xs

namespace Codec

/-- the `Write` side -/
def write : {α : Type} → Codec α → α → Bytes
  | _, nat k, n => leBytes k n
  | _, bool, b => [if b then 1 else 0]
  | _, dep c k, (a, b) => write c a ++ write (k a) b
  | _, seq _ k, xs => writeSeq (fun i x => write (k i) x) 0 xs
  | _, map _ g c, b => write c (g b)

/-- the `Read` side: the decoded value and the unread bytes, `none` = `Err(IoError)` -/
def read : {α : Type} → Codec α → Bytes → Option (α × Bytes)
  | _, nat k, bs => readLE k bs
  | _, bool, bs =>
    match bs with
    | [] => none
    | b :: r => if b = 0 then some (false, r) else if b = 1 then some (true, r) else none
  | _, dep c k, bs =>
    match read c bs with
    | none => none
    | some (a, r) =>
      match read (k a) r with
      | none => none
      | some (b, r') => some ((a, b), r')
  | _, seq n k, bs => readSeq (fun i => read (k i)) n 0 bs
  | _, map f _ c, bs =>
    match read c bs with
    | none => none
    | some (a, r) => some (f a, r)

/-- the decidable side condition under which a value round-trips: naturals fit their width, lists
have the prescribed length, and transported values are in the image of their `map` -/
def wf : {α : Type} → Codec α → α → Bool
  | _, nat k, n => decide (n < 256 ^ k)
  | _, bool, _ => true
  | _, dep c k, (a, b) => wf c a && wf (k a) b
  | _, seq n k, xs => (xs.length == n) && allSeq (fun i x => wf (k i) x) 0 xs
  | _, @map _ _ _ f g c, b => decide (f (g b) = b) && wf c (g b)

/-- `WF c v`: `v` is encodable by `c` (decidable: `WF c v ↔ wf c v = true` by definition) -/
def WF {α : Type} (c : Codec α) (v : α) : Prop := wf c v = true

instance {α : Type} (c : Codec α) (v : α) : Decidable (WF c v) := by unfold WF; infer_instance

end Codec
open Codec

/-! ### derived combinators (the vocabulary of `serialization/mod.rs`) -/

/-- `read_u8` / `write_u8` -/
def u8 : Codec Nat := .nat 1
/-- `read_u16` / `write_u16` -/
def u16 : Codec Nat := .nat 2
/-- `read_u32` / `write_u32` -/
def u32 : Codec Nat := .nat 4
/-- `read_usize` / `write_usize`: always 8 bytes (`x as u64`) -/
def usize : Codec Nat := .nat 8
/-- two items one after the other -/
def pair {α β : Type} (a : Codec α) (b : Codec β) : Codec (α × β) := .dep a (fun _ => b)
/-- `n` items of the same kind, no length written (`read_field_vec(length)`, `read_hash_vec`, …) -/
def vecN {α : Type} (n : Nat) (c : Codec α) : Codec (List α) := .seq n (fun _ => c)
/-- a list behind a `k`-byte item count -/
def vecLenK {α : Type} [DecidableEq α] (k : Nat) (c : Codec α) : Codec (List α) :=
  .map (fun p => p.2) (fun xs => (xs.length, xs)) (.dep (.nat k) (fun n => vecN n c))
/-- a list behind a `usize` count (`write_usize(v.len())` then the items) -/
def vecLen {α : Type} [DecidableEq α] (c : Codec α) : Codec (List α) := vecLenK 8 c
/-- a list behind a ONE-BYTE count (`write_merkle_proof`) -/
def vecLenU8 {α : Type} [DecidableEq α] (c : Codec α) : Codec (List α) := vecLenK 1 c

/-- `read_field` / `write_field`: 8 bytes LE. The writer emits `to_canonical_u64()`; the reader does
`F::from_canonical_u64(word)` WITHOUT a range check, so a word `≥ p` is accepted and denotes
`word mod p` (it would be re-encoded as `word − p`). -/
def field : Codec GL := .map GL.ofNat (fun x => x.val) (.nat 8)
/-- `read_field_ext::<F, 2>` / `write_field_ext`: the two base-field coordinates -/
def fieldExt : Codec GL2 := .map (fun p => ⟨p.1, p.2⟩) (fun x => (x.a, x.b)) (pair field field)
/-- `read_hash` / `write_hash` for `HashOut` (`HASH_SIZE = 32`): four field elements -/
def hash : Codec Digest := vecN 4 field
/-- `read_merkle_cap(cap_height)` / `write_merkle_cap`: `1 << cap_height` hashes, no length -/
def merkleCap (capHeight : Nat) : Codec (List Digest) := vecN (2 ^ capHeight) hash
/-- `read_merkle_proof` / `write_merkle_proof`: `u8` sibling count, then the siblings -/
def merkleProof : Codec (List Digest) := vecLenU8 hash

/-! ### proofs -/
open P2.Fri P2.Plonk P2.Compress

deriving instance DecidableEq for Fri.QueryStep
deriving instance DecidableEq for Fri.QueryRound
deriving instance DecidableEq for Fri.Proof
deriving instance DecidableEq for Plonk.OpeningSet
deriving instance DecidableEq for Plonk.Proof
deriving instance DecidableEq for Plonk.ProofWithPis
deriving instance DecidableEq for Compress.CompressedQueryRounds
deriving instance DecidableEq for Compress.CompressedFriProof

/-- the lengths the readers take from `CommonCircuitData`.
`config.fri_config` of the Rust common data is `friParams.config` here (the two coincide in every
common data the builder produces; the flat dump carries only the latter). -/
structure Shape where
  capHeight : Nat
  numConstants : Nat
  numRoutedWires : Nat
  numWires : Nat
  numChallenges : Nat
  numPartialProducts : Nat
  numLookupPolys : Nat
  quotientDegreeFactor : Nat
  numQueryRounds : Nat
  arityBits : List Nat
  /-- `fri_params.final_poly_len() = 1 << (degree_bits - total_arities)` -/
  finalPolyLen : Nat
  /-- `salt_size(fri_params.hiding)` -/
  salt : Nat
deriving Repr, Inhabited

def Shape.ofCommon (c : CommonData) : Shape where
  capHeight := c.friParams.config.capHeight
  numConstants := c.numConstants
  numRoutedWires := c.config.numRoutedWires
  numWires := c.config.numWires
  numChallenges := c.config.numChallenges
  numPartialProducts := c.numPartialProducts
  numLookupPolys := c.numLookupPolys
  quotientDegreeFactor := c.quotientDegreeFactor
  numQueryRounds := c.friParams.config.numQueryRounds
  arityBits := c.friParams.arityBits
  finalPolyLen := 2 ^ (c.friParams.degreeBits - c.friParams.totalArities)
  salt := Fri.saltSize c.friParams.isHiding

/-- `read_opening_set` / `write_opening_set`. NOTE the order on the wire: constants, sigmas, wires,
zs, zs_next, LOOKUP zs, LOOKUP zs_next, partial products, quotient polys. -/
def openingSet (s : Shape) : Codec OpeningSet :=
  let ch := s.numChallenges
  .map
    (fun (p : List GL2 × List GL2 × List GL2 × List GL2 × List GL2 × List GL2 × List GL2 × List GL2 × List GL2) =>
      let (cs, sg, ws, zs, zn, lz, ln, pp, qp) := p
      (⟨cs, sg, ws, zs, zn, pp, qp, lz, ln⟩ : OpeningSet))
    (fun o => (o.constants, o.plonkSigmas, o.wires, o.plonkZs, o.plonkZsNext, o.lookupZs, o.lookupZsNext,
      o.partialProducts, o.quotientPolys))
    (pair (vecN s.numConstants fieldExt) <| pair (vecN s.numRoutedWires fieldExt) <|
     pair (vecN s.numWires fieldExt) <| pair (vecN ch fieldExt) <| pair (vecN ch fieldExt) <|
     pair (vecN (ch * s.numLookupPolys) fieldExt) <| pair (vecN (ch * s.numLookupPolys) fieldExt) <|
     pair (vecN (s.numPartialProducts * ch) fieldExt) (vecN (s.quotientDegreeFactor * ch) fieldExt))

/-- leaf length of the `i`-th oracle in `read_fri_initial_proof`: constants+sigmas (never salted),
wires, Z / partial products / lookup polys, quotient chunks -/
def leafLen (s : Shape) : Nat → Nat
  | 0 => s.numConstants + s.numRoutedWires
  | 1 => s.numWires + s.salt
  | 2 => s.numChallenges * (1 + s.numPartialProducts + s.numLookupPolys) + s.salt
  | _ => s.numChallenges * s.quotientDegreeFactor + s.salt

/-- `read_fri_initial_proof` / `write_fri_initial_proof`: always FOUR (leaf, Merkle proof) pairs -/
def initialTreeProof (s : Shape) : Codec (List (List GL × List Digest)) :=
  .seq 4 (fun i => pair (vecN (leafLen s i) field) merkleProof)

/-- `read_fri_query_step(arity, compressed)` / `write_fri_query_step`: `numEvals` extension elements
(`arity`, or `arity − 1` in a compressed proof) and a Merkle proof -/
def queryStep (numEvals : Nat) : Codec QueryStep :=
  .map (fun p => ⟨p.1, p.2⟩) (fun q => (q.evals, q.merkleProof)) (pair (vecN numEvals fieldExt) merkleProof)

/-- one round of `read_fri_query_rounds` / `write_fri_query_rounds` -/
def queryRound (s : Shape) : Codec QueryRound :=
  .map (fun p => ⟨p.1, p.2⟩) (fun q => (q.initial, q.steps))
    (pair (initialTreeProof s) (.seq s.arityBits.length (fun j => queryStep (2 ^ s.arityBits.getD j 0))))

/-- `read_fri_proof` / `write_fri_proof` -/
def friProof (s : Shape) : Codec Fri.Proof :=
  .map (fun (p : List (List Digest) × List QueryRound × List GL2 × GL) => ⟨p.1, p.2.1, p.2.2.1, p.2.2.2⟩)
    (fun q => (q.commitCaps, q.queries, q.finalPoly, q.powWitness))
    (pair (vecN s.arityBits.length (merkleCap s.capHeight)) <|
     pair (vecN s.numQueryRounds (queryRound s)) <| pair (vecN s.finalPolyLen fieldExt) field)

/-- `read_proof` / `write_proof` -/
def proof (s : Shape) : Codec Plonk.Proof :=
  .map (fun (p : List Digest × List Digest × List Digest × OpeningSet × Fri.Proof) =>
      ⟨p.1, p.2.1, p.2.2.1, p.2.2.2.1, p.2.2.2.2⟩)
    (fun q => (q.wiresCap, q.zsPartialProductsCap, q.quotientPolysCap, q.openings, q.openingProof))
    (pair (merkleCap s.capHeight) <| pair (merkleCap s.capHeight) <| pair (merkleCap s.capHeight) <|
     pair (openingSet s) (friProof s))

/-- `read_proof_with_public_inputs` / `write_proof_with_public_inputs`
(`ProofWithPublicInputs::{to_bytes, from_bytes}`): the proof, then a `usize`-prefixed list of
public inputs -/
def proofWithPis (s : Shape) : Codec ProofWithPis :=
  .map (fun p => ⟨p.1, p.2⟩) (fun q => (q.proof, q.publicInputs)) (pair (proof s) (vecLen field))

/-! ### compressed proofs -/

/-- `Vec::dedup`: drop consecutive repetitions -/
def dedup : List Nat → List Nat
  | [] => []
  | [x] => [x]
  | x :: y :: r => if x = y then dedup (y :: r) else x :: dedup (y :: r)

/-- `indices.sort_unstable(); indices.dedup()` -/
def sortDedup (xs : List Nat) : List Nat := dedup (xs.toArray.qsort (· < ·)).toList

/-- the key sets of the per-layer maps, as `read_compressed_fri_query_rounds` computes them:
`indices.iter_mut().for_each(|x| *x >>= a); indices.dedup()` for every arity in turn -/
def layerKeys : List Nat → List Nat → List (List Nat)
  | _, [] => []
  | keys, a :: as =>
    let keys' := dedup (keys.map (· / 2 ^ a))
    keys' :: layerKeys keys' as

/-- `read_compressed_fri_query_rounds` / `write_compressed_fri_query_rounds`.
Wire format: the query indices as `u32` (`i as u32`), then the initial-tree proofs of the DISTINCT
indices in increasing index order (the writer sorts the `HashMap` entries by key), then for every
layer the query steps in increasing (shifted) index order, each with `arity − 1` evaluations.
The keys are not written: the reader recomputes them from the indices, so a value is encodable only
if its maps carry exactly the recomputed keys in sorted order (that is what `f (g r) = r` says). -/
def compressedQueryRounds (s : Shape) : Codec CompressedQueryRounds :=
  .map
    (fun (p : List Nat × List (List (List GL × List Digest)) × List (List QueryStep)) =>
      let keys0 := sortDedup p.1
      (⟨p.1, keys0.zip p.2.1, List.zipWith List.zip (layerKeys keys0 s.arityBits) p.2.2⟩ : CompressedQueryRounds))
    (fun r => (r.indices, r.initial.map (·.2), r.steps.map (·.map (·.2))))
    (.dep (vecN s.numQueryRounds u32) fun idx =>
      let keys0 := sortDedup idx
      let lk := layerKeys keys0 s.arityBits
      pair (vecN keys0.length (initialTreeProof s))
        (.seq s.arityBits.length fun j =>
          vecN (lk.getD j []).length (queryStep (2 ^ s.arityBits.getD j 0 - 1))))

/-- `read_compressed_fri_proof` / `write_compressed_fri_proof` -/
def compressedFriProof (s : Shape) : Codec CompressedFriProof :=
  .map (fun (p : List (List Digest) × CompressedQueryRounds × List GL2 × GL) => ⟨p.1, p.2.1, p.2.2.1, p.2.2.2⟩)
    (fun q => (q.commitCaps, q.rounds, q.finalPoly, q.powWitness))
    (pair (vecN s.arityBits.length (merkleCap s.capHeight)) <|
     pair (compressedQueryRounds s) <| pair (vecN s.finalPolyLen fieldExt) field)

/-- `CompressedProof` of `plonk/proof.rs` -/
structure CompressedProof where
  wiresCap : List Digest
  zsPartialProductsCap : List Digest
  quotientPolysCap : List Digest
  openings : OpeningSet
  openingProof : CompressedFriProof
deriving Inhabited, DecidableEq

/-- `CompressedProofWithPublicInputs` -/
structure CompressedProofWithPis where
  proof : CompressedProof
  publicInputs : List GL
deriving Inhabited, DecidableEq

/-- `read_compressed_proof` / `write_compressed_proof` -/
def compressedProof (s : Shape) : Codec CompressedProof :=
  .map (fun (p : List Digest × List Digest × List Digest × OpeningSet × CompressedFriProof) =>
      ⟨p.1, p.2.1, p.2.2.1, p.2.2.2.1, p.2.2.2.2⟩)
    (fun q => (q.wiresCap, q.zsPartialProductsCap, q.quotientPolysCap, q.openings, q.openingProof))
    (pair (merkleCap s.capHeight) <| pair (merkleCap s.capHeight) <| pair (merkleCap s.capHeight) <|
     pair (openingSet s) (compressedFriProof s))

/-- `read_field_vec(self.remaining() / 8)`: as many field elements as fit; the fragment of `< 8`
bytes left over stays unread -/
def readFieldsGreedy : Bytes → List GL × Bytes
  | b0 :: b1 :: b2 :: b3 :: b4 :: b5 :: b6 :: b7 :: rest =>
    let (xs, r) := readFieldsGreedy rest
    (GL.ofNat (b0.toNat + 256 * (b1.toNat + 256 * (b2.toNat + 256 * (b3.toNat + 256 * (b4.toNat +
      256 * (b5.toNat + 256 * (b6.toNat + 256 * b7.toNat))))))) :: xs, r)
  | bs => ([], bs)

/-- `write_compressed_proof_with_public_inputs` (`CompressedProofWithPublicInputs::to_bytes`): the
public inputs follow the proof WITHOUT a count -/
def writeCompressedProofWithPis (s : Shape) (p : CompressedProofWithPis) : Bytes :=
  (compressedProof s).write p.proof ++ (vecN p.publicInputs.length field).write p.publicInputs

/-- `read_compressed_proof_with_public_inputs` (`CompressedProofWithPublicInputs::from_bytes`):
this encoding is not self-delimiting — everything after the proof is public inputs -/
def readCompressedProofWithPis (s : Shape) (bs : Bytes) : Option (CompressedProofWithPis × Bytes) :=
  match (compressedProof s).read bs with
  | none => none
  | some (p, rest) =>
    let (pis, rest') := readFieldsGreedy rest
    some (⟨p, pis⟩, rest')

end P2.Codec
