/-
L2: overwrite-mode sponge of `plonky2/src/hash/hashing.rs` (hash_n_to_m_no_pad, compress,
hash_or_noop) generic in the permutation, and the Poseidon instances.
-/
import P2.Model.Poseidon
namespace P2.Sponge
open P2

structure Perm where
  width : Nat
  rate : Nat
  permute : Array GL → Array GL

def poseidonPerm : Perm := ⟨12, 8, Poseidon.permute⟩

/-- `set_from_slice(chunk, start)` -/
def setFrom (s : Array GL) (xs : List GL) (start : Nat) : Array GL :=
  (xs.zipIdx).foldl (fun st (x, i) => st.set! (start + i) x) s

def chunks (xs : List GL) (n : Nat) : List (List GL) :=
  if h : n = 0 then [] else
  if hx : xs = [] then [] else
  have : (xs.drop n).length < xs.length := by
    cases xs with
    | nil => exact absurd rfl hx
    | cons a t => simp [List.length_drop]; omega
  xs.take n :: chunks (xs.drop n) n
termination_by xs.length

/-- absorb all chunks (overwrite, permute after each) -/
def absorbAll (p : Perm) (xs : List GL) : Array GL :=
  (chunks xs p.rate).foldl (fun st c => p.permute (setFrom st c 0)) (Array.replicate p.width 0)

/-- squeeze `n` outputs, re-permuting every `rate` outputs -/
def squeeze (p : Perm) (st : Array GL) (n : Nat) : List GL :=
  let rec go (fuel : Nat) (st : Array GL) (need : Nat) (acc : List GL) : List GL :=
    match fuel with
    | 0 => acc
    | fuel + 1 =>
      let out := (st.toList.take p.rate)
      if need ≤ out.length then acc ++ out.take need
      else go fuel (p.permute st) (need - out.length) (acc ++ out)
  go (n + 1) st n []

def hashNToMNoPad (p : Perm) (xs : List GL) (m : Nat) : List GL := squeeze p (absorbAll p xs) m
def hashNoPad (p : Perm) (xs : List GL) : List GL := hashNToMNoPad p xs 4

/-- `compress(x, y)`: two digests into the rate part, one permutation, first 4 outputs -/
def twoToOne (p : Perm) (x y : List GL) : List GL :=
  let st := setFrom (setFrom (Array.replicate p.width 0) x 0) y 4
  (p.permute st).toList.take 4

/-- `hash_or_noop`: inputs of at most 4 elements are zero-padded instead of hashed -/
def hashOrNoop (p : Perm) (xs : List GL) : List GL :=
  if xs.length ≤ 4 then xs ++ List.replicate (4 - xs.length) 0 else hashNoPad p xs

/-- `hash_pad`: pad10*1 to a multiple of the rate, then `hash_no_pad` -/
def hashPad (p : Perm) (xs : List GL) : List GL :=
  let l := xs.length + 1
  let zeros := (p.rate - (l + 1) % p.rate) % p.rate
  hashNoPad p (xs ++ [1] ++ List.replicate zeros 0 ++ [1])

end P2.Sponge
