/-
L1: the quadratic extension `GL[X]/(X² − 7)` as a structure with an `FOps` instance
(the instance protocol-level code runs on).
-/
import P2.Model.Fp
namespace P2

structure GL2 where
  a : GL
  b : GL
deriving DecidableEq, Inhabited, Repr

namespace GL2
def W : GL := GL.ofNat 7
def zero : GL2 := ⟨0, 0⟩
def one : GL2 := ⟨1, 0⟩
def ofBase (x : GL) : GL2 := ⟨x, 0⟩
def add (x y : GL2) : GL2 := ⟨x.a + y.a, x.b + y.b⟩
def sub (x y : GL2) : GL2 := ⟨x.a - y.a, x.b - y.b⟩
def neg (x : GL2) : GL2 := ⟨-x.a, -x.b⟩
def mul (x y : GL2) : GL2 := ⟨x.a * y.a + W * (x.b * y.b), x.a * y.b + x.b * y.a⟩
def scalarMul (x : GL2) (s : GL) : GL2 := ⟨x.a * s, x.b * s⟩
/-- inverse via the norm `a² − 7b²` (`0 ↦ 0`; callers guard) — equals `try_inverse`'s
Frobenius/norm formula: conj(x) / (x·conj(x)) -/
def inv (x : GL2) : GL2 :=
  let n := x.a * x.a - W * (x.b * x.b)
  let ni := GL.inv n
  ⟨x.a * ni, -(x.b * ni)⟩
end GL2

instance : FOps GL2 where
  add := GL2.add
  mul := GL2.mul
  sub := GL2.sub
  neg := GL2.neg
  beq := fun x y => x.a == y.a && x.b == y.b
  zero := GL2.zero
  one := GL2.one
  ofNat := fun n => GL2.ofBase (GL.ofNat n)
  inv := GL2.inv

end P2
