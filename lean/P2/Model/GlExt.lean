/-
L0: delayed-reduction extension multiplication of `field/src/goldilocks_extensions.rs`
(`u160_times_3/7`, `ext{2,4,5}_add_prods*`, `ext{2,4,5}_mul`) on `u128 + u32` accumulators.
-/
import P2.Model.Goldilocks
namespace P2.L0

/-- the `(cumul_lo : u128, cumul_hi : u32)` accumulator with a trap flag for `u32` overflow -/
structure Acc where
  lo : Nat
  hi : Nat
  trap : Bool
deriving Repr, DecidableEq, Inhabited

/-- `(cumul_lo, cy) = cumul_lo.overflowing_add(p); cumul_hi += cy as u32` -/
def Acc.add (c : Acc) (p : Nat) : Acc :=
  let s := oadd128 c.lo p
  let h := c.hi + (if s.2 then 1 else 0)
  ⟨s.1, h % W32, c.trap || decide (W32 ≤ h)⟩

/-- `u160_times_3` -/
def Acc.times3 (c : Acc) : Acc :=
  let s := oadd128 c.lo ((c.lo * 2) % W128)
  let h := 3 * c.hi + c.lo / 170141183460469231731687303715884105728 + (if s.2 then 1 else 0)
  ⟨s.1, h % W32, c.trap || decide (W32 ≤ h)⟩

/-- `u160_times_7` -/
def Acc.times7 (c : Acc) : Acc :=
  let d := osub128 ((c.lo * 8) % W128) c.lo
  let h := 7 * c.hi + c.lo / 42535295865117307932921825928971026432
  let br := if d.2 then 1 else 0
  ⟨d.1, (h + W32 - br) % W32, c.trap || decide (W32 ≤ h) || decide (h < br)⟩

/-- multiply the accumulator by the extension constant `W ∈ {3, 7}` -/
def Acc.timesW (w : Nat) (c : Acc) : Acc := if w = 3 then c.times3 else c.times7

/-- coefficient `k` of the product in `GF(p)[X]/(X^D − w)`, as `extD_add_prods<k>` computes it:
wrapped products (`i + j = k + D`, ascending `i`) first, multiplied by `w`, then the direct ones
(`i + j = k`, ascending `i`), one `reduce160` at the end. -/
def extAddProds (d w k : Nat) (a b : Array Nat) : Res :=
  let wrapped := (List.range (d - 1 - k)).map fun t => a[k + 1 + t]! * b[d - 1 - t]!
  let direct := (List.range (k + 1)).map fun i => a[i]! * b[k - i]!
  let acc0 : Acc := wrapped.foldl Acc.add ⟨0, 0, false⟩
  let acc1 := if wrapped.isEmpty then acc0 else acc0.timesW w
  let acc2 := direct.foldl Acc.add acc1
  let r := reduce160 acc2.lo acc2.hi
  ⟨r.val, r.trap || acc2.trap⟩

/-- `ext{2,4,5}_mul` -/
def extMul (d w : Nat) (a b : Array Nat) : List Res :=
  (List.range d).map fun k => extAddProds d w k a b

end P2.L0
