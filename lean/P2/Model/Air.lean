/-
L6a: AIR data — the constraint language the harness' `DslStark` interprets
(harness/src/stark_dsl.rs), with an evaluator generic over `FOps K`; the `ConstraintConsumer` of
`starky/src/constraint_consumer.rs`; lookup declarations (`Column`, `Filter`, `Lookup` of
`starky/src/lookup.rs`) with their evaluators; and the row-by-row semantics of an AIR on a trace
(what "the trace satisfies the constraints" means, independently of any proof system).
-/
import P2.Model.GL2
namespace P2.Air
open P2

/-- polynomial expressions over the current row, the next row, the public inputs and constants -/
inductive Expr where
  | const (c : Nat)
  | loc (i : Nat)
  | nxt (i : Nat)
  | pub (i : Nat)
  | add (a b : Expr)
  | sub (a b : Expr)
  | mul (a b : Expr)
deriving Repr, Inhabited

/-- where a constraint applies: `constraint_first_row`, `constraint_last_row`,
`constraint_transition`, `constraint` -/
inductive Kind where
  | first | last | transition | all
deriving Repr, DecidableEq, Inhabited

section
variable {K : Type} [FOps K]

/-- evaluation of an expression on a frame (`local_values`, `next_values`, `public_inputs`).
Indices are checked by `Air.wf`; an out-of-range index (a Rust index panic) reads as zero here. -/
def Expr.eval (lv nv pis : Array K) : Expr → K
  | .const c => FOps.ofNat c
  | .loc i => lv.getD i FOps.zero
  | .nxt i => nv.getD i FOps.zero
  | .pub i => pis.getD i FOps.zero
  | .add a b => a.eval lv nv pis + b.eval lv nv pis
  | .sub a b => a.eval lv nv pis - b.eval lv nv pis
  | .mul a b => a.eval lv nv pis * b.eval lv nv pis
end

/-- every index of the expression is within the frame -/
def Expr.wf (cols pis : Nat) : Expr → Bool
  | .const _ => true
  | .loc i => i < cols
  | .nxt i => i < cols
  | .pub i => i < pis
  | .add a b => a.wf cols pis && b.wf cols pis
  | .sub a b => a.wf cols pis && b.wf cols pis
  | .mul a b => a.wf cols pis && b.wf cols pis

/-! ### `ConstraintConsumer` -/

/-- `ConstraintConsumer<P>`: one accumulator per α -/
structure Consumer (K : Type) where
  alphas : List K
  accs : List K
  zLast : K
  lagrangeFirst : K
  lagrangeLast : K

section
variable {K : Type} [FOps K]

/-- `ConstraintConsumer::new` -/
def Consumer.new (alphas : List K) (zLast l0 lLast : K) : Consumer K :=
  ⟨alphas, alphas.map fun _ => FOps.zero, zLast, l0, lLast⟩

/-- `constraint`: `acc ← acc·α + c` for every α -/
def Consumer.constraint (s : Consumer K) (c : K) : Consumer K :=
  { s with accs := (s.alphas.zip s.accs).map fun (a, acc) => acc * a + c }

/-- `constraint_transition`: multiplied by `z_last` -/
def Consumer.transition (s : Consumer K) (c : K) : Consumer K := s.constraint (c * s.zLast)
/-- `constraint_first_row`: multiplied by `lagrange_basis_first` -/
def Consumer.firstRow (s : Consumer K) (c : K) : Consumer K := s.constraint (c * s.lagrangeFirst)
/-- `constraint_last_row`: multiplied by `lagrange_basis_last` -/
def Consumer.lastRow (s : Consumer K) (c : K) : Consumer K := s.constraint (c * s.lagrangeLast)

def Consumer.emit (s : Consumer K) (k : Kind) (c : K) : Consumer K :=
  match k with
  | .first => s.firstRow c
  | .last => s.lastRow c
  | .transition => s.transition c
  | .all => s.constraint c
end

/-! ### lookup declarations -/

/-- `lookup::Column`: `Σ cᵢ·local[i] + Σ dⱼ·next[j] + constant` -/
structure ColSpec where
  lc : List (Nat × GL)
  next : List (Nat × GL)
  c : GL
deriving Inhabited

/-- `lookup::Filter`: `Σ colA·colB + Σ col` -/
structure FilterSpec where
  products : List (ColSpec × ColSpec)
  constants : List ColSpec
deriving Inhabited

/-- `lookup::Lookup` -/
structure LookupSpec where
  columns : List ColSpec
  table : ColSpec
  freq : ColSpec
  filters : List FilterSpec
deriving Inhabited

section
variable {K : Type} [FOps K]
variable (ofBase : GL → K)

/-- `Column::eval`: the next-row part is IGNORED (the table and frequencies columns are evaluated
with this function in `eval_packed_lookups_generic`) -/
def ColSpec.eval (c : ColSpec) (lv : Array K) : K :=
  c.lc.foldl (fun acc (i, f) => acc + lv.getD i FOps.zero * ofBase f) FOps.zero + ofBase c.c

/-- `Column::eval_with_next` -/
def ColSpec.evalWithNext (c : ColSpec) (lv nv : Array K) : K :=
  c.lc.foldl (fun acc (i, f) => acc + lv.getD i FOps.zero * ofBase f) FOps.zero +
  c.next.foldl (fun acc (i, f) => acc + nv.getD i FOps.zero * ofBase f) FOps.zero + ofBase c.c

/-- `Filter::eval_filter` -/
def FilterSpec.eval (f : FilterSpec) (lv nv : Array K) : K :=
  f.products.foldl (fun acc (a, b) => acc + a.evalWithNext ofBase lv nv * b.evalWithNext ofBase lv nv) FOps.zero +
  f.constants.foldl (fun acc c => acc + c.evalWithNext ofBase lv nv) FOps.zero
end

def ColSpec.wf (cols : Nat) (c : ColSpec) : Bool :=
  c.lc.all (fun p => p.1 < cols) && c.next.all (fun p => p.1 < cols)
def FilterSpec.wf (cols : Nat) (f : FilterSpec) : Bool :=
  f.products.all (fun p => p.1.wf cols && p.2.wf cols) && f.constants.all (·.wf cols)
def LookupSpec.wf (cols : Nat) (l : LookupSpec) : Bool :=
  l.columns.all (·.wf cols) && l.table.wf cols && l.freq.wf cols && l.filters.all (·.wf cols)

/-! ### the AIR -/

/-- a STARK definition as data: what the `Stark` trait's methods return -/
structure Air where
  cols : Nat                               -- `COLUMNS`
  pis : Nat                                -- `PUBLIC_INPUTS`
  degree : Nat                             -- `constraint_degree()`
  constraints : List (Kind × Expr)         -- in the order `eval_packed_generic` emits them
  lookups : List LookupSpec                -- `lookups()`
  requiresCtls : Bool                      -- `requires_ctls()`
deriving Inhabited

def Air.wf (a : Air) : Bool :=
  a.constraints.all (fun c => c.2.wf a.cols a.pis) && a.lookups.all (·.wf a.cols)

/-- `Stark::quotient_degree_factor` -/
def Air.quotientDegreeFactor (a : Air) : Nat :=
  if a.degree = 0 then 0 else max 1 (a.degree - 1)

/-- `Stark::uses_lookups` -/
def Air.usesLookups (a : Air) : Bool := !a.lookups.isEmpty

/-- `eval_packed_generic` of the interpreted AIR: every constraint evaluated on the frame and
handed to the consumer according to its kind -/
def Air.evalConstraints {K : Type} [FOps K] (a : Air) (lv nv pis : Array K) (s : Consumer K) : Consumer K :=
  a.constraints.foldl (fun s (k, e) => s.emit k (e.eval lv nv pis)) s

/-! ### row semantics -/

/-- is constraint kind `k` active on row `r` of an `n`-row trace? (transitions skip the
wrap-around row `n − 1`) -/
def Kind.activeAt (k : Kind) (r n : Nat) : Bool :=
  match k with
  | .first => r == 0
  | .last => r + 1 == n
  | .transition => r + 1 != n
  | .all => true

/-- first violated (row, constraint index), rows outermost; `none` = the trace satisfies the AIR -/
def Air.firstViolation (a : Air) (rows : Array (Array GL)) (pis : Array GL) : Option (Nat × Nat) :=
  let n := rows.size
  (List.range n).findSome? fun r =>
    let lv := rows.getD r #[]
    let nv := rows.getD ((r + 1) % n) #[]
    (a.constraints.zipIdx).findSome? fun ((k, e), ci) =>
      if k.activeAt r n && !((e.eval lv nv pis : GL) == 0) then some (r, ci) else none

def Air.satisfied (a : Air) (rows : Array (Array GL)) (pis : Array GL) : Bool :=
  (a.firstViolation rows pis).isNone

/-! ### lookup semantics on a trace -/

/-- add `w` to the weight of key `k` in an association list -/
def bump (m : List (GL × GL)) (k w : GL) : List (GL × GL) :=
  if m.any (fun p => p.1 == k) then m.map (fun p => if p.1 == k then (p.1, p.2 + w) else p)
  else (k, w) :: m

/-- What a lookup declaration means on a trace, independently of the protocol: summed over all
rows, every looking column contributes its value with its filter value as multiplicity, the table
column takes its value away with the frequency as multiplicity (next rows taken cyclically, as
`Column::eval_table` does); the lookup holds iff every value ends with total weight 0.
Returns the index of the first lookup that does not hold. -/
def Air.firstBadLookup (a : Air) (rows : Array (Array GL)) : Option Nat :=
  let n := rows.size
  let id : GL → GL := fun x => x
  (a.lookups.zipIdx).findSome? fun (l, li) =>
    let m := (List.range n).foldl (fun (m : List (GL × GL)) r =>
      let lv := rows.getD r #[]
      let nv := rows.getD ((r + 1) % n) #[]
      let m := (l.columns.zip l.filters).foldl (fun m (c, f) =>
        bump m (c.evalWithNext id lv nv) (f.eval id lv nv)) m
      bump m (l.table.evalWithNext id lv nv) (0 - l.freq.evalWithNext id lv nv)) []
    if m.all (fun p => p.2 == 0) then none else some li

/-! ### cross-table lookup semantics -/

/-- `TableWithColumns`: a table index, the column combinations forming the looked-up tuple, and
the filter -/
structure CtlSide where
  table : Nat
  columns : List ColSpec
  filter : FilterSpec
deriving Inhabited

/-- `CrossTableLookup` -/
structure CtlSpec where
  looking : List CtlSide
  looked : CtlSide
deriving Inhabited

def bumpTuple (m : List (List GL × GL)) (k : List GL) (w : GL) : List (List GL × GL) :=
  if m.any (fun p => p.1 == k) then m.map (fun p => if p.1 == k then (p.1, p.2 + w) else p)
  else (k, w) :: m

/-- What a cross-table lookup means on the traces of a multi-table system: the filtered rows of
the looking tables (tuple of column values, filter value as multiplicity) form the same weighted
multiset as the filtered rows of the looked table. -/
def CtlSpec.holds (c : CtlSpec) (traces : Array (Array (Array GL))) : Bool :=
  let id : GL → GL := fun x => x
  let addSide (m : List (List GL × GL)) (s : CtlSide) (neg : Bool) : List (List GL × GL) :=
    let rows := traces.getD s.table #[]
    let n := rows.size
    (List.range n).foldl (fun m r =>
      let lv := rows.getD r #[]
      let nv := rows.getD ((r + 1) % n) #[]
      let w := s.filter.eval id lv nv
      bumpTuple m (s.columns.map fun col => col.evalWithNext id lv nv) (if neg then 0 - w else w)) m
  let m := c.looking.foldl (fun m s => addSide m s false) []
  let m := addSide m c.looked true
  m.all fun p => p.2 == 0

end P2.Air
