/-
L1: `field/src/fft.rs` — root table, `fft_classic` (bit reversal, zero-tail copy loop `r`, radix-2
rounds over the root table), `ifft_with_options`, coset variants, `lde`; and the O(n²) definition.
Generic over `FOps K`.
-/
import P2.Model.Fp
import P2.Model.BitRev
namespace P2.Fft
open P2 P2.BitRev

variable {K : Type} [FOps K] [Inhabited K]

/-- the definition: `out[i] = Σ_j c[j] · ω^(i·j)` -/
def dft (omega : K) (c : Array K) : Array K :=
  (Array.range c.size).map fun i =>
    let x := FOps.pow omega i
    c.foldr (fun cj acc => acc * x + cj) FOps.zero

/-- `fft_root_table(n)`: row `lg_m − 1` holds the powers `base^0 … base^(max(half_m,2) − 1)` of the
primitive `m`-th root, `m = 2^lg_m` -/
def rootTable (primitiveRoot : Nat → K) (lgN : Nat) : Array (Array K) :=
  (Array.range lgN).map fun t =>
    let lgM := t + 1
    let halfM := 2 ^ (lgM - 1)
    let base := FOps.pow (primitiveRoot lgN) (2 ^ (lgN - lgM))
    (Array.range (max halfM 2)).map fun j => FOps.pow base j

/-- one radix-2 round with half block size `2^lgHalfM` -/
def round (values : Array K) (table : Array (Array K)) (lgHalfM : Nat) : Array K :=
  let halfM := 2 ^ lgHalfM
  let m := 2 * halfM
  (Array.range values.size).map fun idx =>
    let k := idx / m * m
    let j := idx % m
    if j < halfM then
      values[k + j]! + table[lgHalfM]![j]! * values[k + halfM + j]!
    else
      values[k + j - halfM]! - table[lgHalfM]![j - halfM]! * values[k + j]!

inductive FftOut (K : Type) where
  | ok (v : Array K)
  | panic
deriving Inhabited

/-- `fft_classic(values, r, root_table)` -/
def fftClassic (values : Array K) (lgN r : Nat) (table : Array (Array K)) : FftOut K :=
  if table.size ≠ lgN then .panic else
  let v0 := reverseIndexBitsSpec values lgN
  let v1 := if r > 0 then (Array.range v0.size).map fun i => v0[i / 2 ^ r * 2 ^ r]! else v0
  .ok ((List.range (lgN - r)).foldl (fun v t => round v table (r + t)) v1)

/-- `ifft_with_options`: forward transform, scale by `n⁻¹`, reverse the order of indices 1..n−1 -/
def ifftPost (buf : Array K) (nInv : K) : Array K :=
  let n := buf.size
  (Array.range n).map fun i => buf[(n - i) % n]! * nInv

end P2.Fft
