/-
L2: Keccak-f[1600], Keccak-256 with the ORIGINAL Keccak padding (`keccak_hash::keccak`, i.e.
`0x01 … 0x80`, rate 136 — not SHA3-256), and the hasher `KeccakHash<N>` / permutation
`KeccakPermutation` of `plonky2/src/hash/keccak.rs` together with the default methods of
`plonk/config.rs::Hasher` that `KeccakHash<N>` inherits (`hash_or_noop`, `hash_pad`) and
`BytesHash<N>` (`hash/hash_types.rs`).  Digests are byte lists (`List Nat`, every entry < 256).
Core Lean only (linked into the driver executable).
-/
import P2.Model.Merkle
namespace P2.Keccak
open P2

/-! ### Keccak-f[1600] (state: 25 lanes, lane (x, y) at index `x + 5 y`) -/

/-- the 24 round constants of ι -/
def RC : Array UInt64 := #[
  0x0000000000000001, 0x0000000000008082, 0x800000000000808A, 0x8000000080008000,
  0x000000000000808B, 0x0000000080000001, 0x8000000080008081, 0x8000000000008009,
  0x000000000000008A, 0x0000000000000088, 0x0000000080008009, 0x000000008000000A,
  0x000000008000808B, 0x800000000000008B, 0x8000000000008089, 0x8000000000008003,
  0x8000000000008002, 0x8000000000000080, 0x000000000000800A, 0x800000008000000A,
  0x8000000080008081, 0x8000000000008080, 0x0000000080000001, 0x8000000080008008]

/-- the rotation offsets of ρ, indexed `x + 5 y` -/
def ROT : Array UInt64 := #[
   0,  1, 62, 28, 27,
  36, 44,  6, 55, 20,
   3, 10, 43, 25, 39,
  41, 45, 15, 21,  8,
  18,  2, 61, 56, 14]

/-- rotate left (`n < 64`; Lean's `UInt64` shifts reduce the amount mod 64, so `n = 0` is fine) -/
@[inline] def rotl (x n : UInt64) : UInt64 := (x <<< n) ||| (x >>> (64 - n))

/-- θ -/
def theta (a : Array UInt64) : Array UInt64 :=
  let c : Array UInt64 := Array.ofFn (n := 5) fun x =>
    a[x.val]! ^^^ a[x.val + 5]! ^^^ a[x.val + 10]! ^^^ a[x.val + 15]! ^^^ a[x.val + 20]!
  let d : Array UInt64 := Array.ofFn (n := 5) fun x =>
    c[(x.val + 4) % 5]! ^^^ rotl c[(x.val + 1) % 5]! 1
  Array.ofFn (n := 25) fun i => a[i.val]! ^^^ d[i.val % 5]!

/-- ρ and π: `B[y, 2x+3y] = rot(A[x, y], r[x, y])`, written as a gather:
`B[X, Y] = rot(A[(X + 3Y) mod 5, X], …)` -/
def rhoPi (a : Array UInt64) : Array UInt64 :=
  Array.ofFn (n := 25) fun j =>
    let X := j.val % 5
    let Y := j.val / 5
    let src := (X + 3 * Y) % 5 + 5 * X
    rotl a[src]! ROT[src]!

/-- χ -/
def chi (b : Array UInt64) : Array UInt64 :=
  Array.ofFn (n := 25) fun j =>
    let x := j.val % 5
    let y5 := 5 * (j.val / 5)
    b[j.val]! ^^^ ((~~~ b[(x + 1) % 5 + y5]!) &&& b[(x + 2) % 5 + y5]!)

/-- one round (θ, ρ, π, χ, ι) -/
def round (a : Array UInt64) (rc : UInt64) : Array UInt64 :=
  let c := chi (rhoPi (theta a))
  c.set! 0 (c[0]! ^^^ rc)

/-- Keccak-f[1600]: 24 rounds -/
def keccakF (a : Array UInt64) : Array UInt64 := RC.foldl round a

/-! ### the sponge: rate 136 bytes, capacity 64 bytes, padding `0x01 0x00… 0x80`, 32 output bytes -/

def rateBytes : Nat := 136

/-- pad10*1 with the original Keccak domain byte: always at least one byte of padding -/
def pad (msg : Array UInt8) : Array UInt8 :=
  let n := msg.size
  let padLen := rateBytes - n % rateBytes
  let a := msg ++ Array.replicate padLen (0 : UInt8)
  let a := a.set! n (a[n]! ||| 0x01)
  a.set! (n + padLen - 1) (a[n + padLen - 1]! ||| 0x80)

/-- little-endian lane at byte offset `off` -/
@[inline] def laneAt (a : Array UInt8) (off : Nat) : UInt64 :=
  (List.range 8).foldl (fun acc i => acc ||| ((a[off + i]!).toUInt64 <<< (8 * i).toUInt64)) 0

/-- XOR one rate-sized block (starting at byte `off`) into the state and permute -/
def absorbBlock (a : Array UInt8) (st : Array UInt64) (blk : Nat) : Array UInt64 :=
  let off := blk * rateBytes
  keccakF ((List.range 17).foldl (fun s i => s.set! i (s[i]! ^^^ laneAt a (off + 8 * i))) st)

def laneBytes (w : UInt64) : List UInt8 :=
  (List.range 8).map fun i => (w >>> (8 * i).toUInt64).toUInt8

/-- `keccak_hash::keccak` (Keccak-256) -/
def keccak256 (msg : List UInt8) : List UInt8 :=
  let a := pad msg.toArray
  let st := (List.range (a.size / rateBytes)).foldl (absorbBlock a) (Array.replicate 25 (0 : UInt64))
  (List.range 4).flatMap fun i => laneBytes st[i]!

/-- the same on bytes given as naturals (reduced mod 256) -/
def keccakNat (msg : List Nat) : List Nat :=
  (keccak256 (msg.map fun b => UInt8.ofNat b)).map (·.toNat)

/-! ### `KeccakHash<N>` -/

/-- `u64::to_le_bytes` -/
def leBytes8 (v : Nat) : List Nat := (List.range 8).map fun i => (v / 256 ^ i) % 256

/-- `u64::from_le_bytes` on up to 8 bytes -/
def ofLeBytes (bs : List Nat) : Nat := bs.foldr (fun b acc => b + 256 * acc) 0

/-- `Write::write_field_vec`: every element as 8 little-endian bytes of its canonical value -/
def fieldBytes (xs : List GL) : List Nat := xs.flatMap fun x => leBytes8 x.val

/-- `KeccakHash::<N>::hash_no_pad` -/
def hashNoPad (N : Nat) (xs : List GL) : List Nat := (keccakNat (fieldBytes xs)).take N

/-- `KeccakHash::<N>::two_to_one` -/
def twoToOne (N : Nat) (l r : List Nat) : List Nat := (keccakNat (l ++ r)).take N

/-- the default `Hasher::hash_or_noop` (plonk/config.rs): `inputs.len() * 8 <= HASH_SIZE` ⇒ the
inputs' bytes zero-padded to `N` bytes -/
def hashOrNoop (N : Nat) (xs : List GL) : List Nat :=
  if xs.length * 8 ≤ N then
    let bs := fieldBytes xs
    bs ++ List.replicate (N - bs.length) 0
  else hashNoPad N xs

/-- the default `Hasher::hash_pad` with `Permutation::RATE = 8` -/
def hashPad (N : Nat) (xs : List GL) : List Nat :=
  let l := xs.length + 1
  let zeros := (8 - (l + 1) % 8) % 8
  hashNoPad N (xs ++ [1] ++ List.replicate zeros 0 ++ [1])

/-- chunks of `n` entries (the last one may be shorter): `slice::chunks` -/
def chunksOf (n : Nat) (xs : List Nat) : List (List Nat) :=
  if n = 0 then [] else
  (List.range ((xs.length + n - 1) / n)).map fun i => (xs.drop (i * n)).take n

/-- `BytesHash::<N>::to_vec`: chunks of 7 bytes, little-endian -/
def toVec (d : List Nat) : List GL := (chunksOf 7 d).map fun c => GL.ofNat (ofLeBytes c)

/-- the Merkle hasher `KeccakHash<N>` (leaf hash = `hash_or_noop`) -/
def keccakHasher (N : Nat) : Merkle.Hasher (List GL) (List Nat) :=
  ⟨hashOrNoop N, twoToOne N⟩

/-! ### `KeccakPermutation::permute` -/

/-- the hash onion: `H(s) ‖ H(H(s)) ‖ …` read as little-endian u64 words, words `≥ ORDER` are
skipped, the first 12 survivors are the new state.  `fuel` bounds the number of hashes (each hash
yields 4 words, each rejected with probability 2⁻³²; the code loops forever only if every word is
rejected forever). -/
def onion : Nat → List Nat → List GL → List GL
  | 0, _, acc => acc
  | fuel + 1, bytes, acc =>
    if acc.length ≥ 12 then acc else
    let out := keccakNat bytes
    let words := (chunksOf 8 out).map ofLeBytes
    let good := (words.filter (· < GLP)).map GL.ofNat
    onion fuel out (acc ++ good)

def permute (st : Array GL) : Array GL :=
  let els := (onion 64 (fieldBytes st.toList) []).take 12
  (els ++ List.replicate (12 - els.length) 0).toArray

/-- `KeccakPermutation` as a sponge permutation (`RATE = 8`, `WIDTH = 12`) -/
def keccakPerm : Sponge.Perm := ⟨12, 8, permute⟩

end P2.Keccak
