/-
L6b: the STARK verifier of `starky/src` on an AIR given as data (`P2.Air`): configuration and
proof structures, `recover_degree_bits`, the Fiat–Shamir schedule of `get_challenges.rs` (with the
constraint-binding step: dummy openings, `compute_eval_vanishing_poly`; both padding modes of
`fri_challenges`), `eval_l_0_and_l_last`, `eval_vanishing_poly` with the lookup terms of
`lookup.rs`, `validate_proof_shape` / `check_lookup_options`, the quotient identity, `fri_instance`
and `verify_stark_proof`. Every index / unwrap / assertion that can panic on a malformed proof is
modelled (`Except String _` = the code panics; e.g. `recover_degree_bits` runs before any shape
validation: known finding F-C18-3).

Cross-table lookups (`cross_table_lookup.rs`): `CtlCheckVars::from_proof`,
`eval_cross_table_lookup_checks`, `num_ctl_helpers_zs_all`, `verify_cross_table_lookups`, and the
per-table verifier with `ctl_vars = Some(..)`, shared challenges and `ignore_trace_cap`. The glue
that ties the tables of a multi-table system together is not part of starky; `verifyMulti`
transcribes the one of the harness (`harness/src/c10.rs::ctl::verify_multi`).
-/
import P2.Model.Fri
import P2.Model.Challenger
import P2.Model.Air
namespace P2.Stark
open P2 P2.Fri P2.Merkle P2.Air

/-- `StarkConfig` -/
structure Config where
  securityBits : Nat
  numChallenges : Nat
  fri : FriConfig
deriving Inhabited

/-- `StarkOpeningSet` -/
structure OpeningSet where
  localValues : List GL2
  nextValues : List GL2
  auxPolys : Option (List GL2)
  auxPolysNext : Option (List GL2)
  ctlZsFirst : Option (List GL)
  quotientPolys : Option (List GL2)
deriving Inhabited

/-- `StarkProof` -/
structure Proof where
  traceCap : List Digest
  auxCap : Option (List Digest)
  quotientCap : Option (List Digest)
  openings : OpeningSet
  openingProof : Fri.Proof
deriving Inhabited

/-- `StarkProofWithPublicInputs` -/
structure ProofWithPis where
  proof : Proof
  publicInputs : List GL
deriving Inhabited

/-- `StarkProofChallenges` (`lookup_challenge_set` as (β, γ) pairs) -/
structure Challenges where
  lookupSet : Option (List (GL × GL))
  alphas : List GL
  zeta : GL2
  fri : Fri.Challenges
deriving Inhabited

/-- what `verifier_circuit_fri_params` contributes: its `degree_bits` and `reduction_arity_bits` -/
structure PadParams where
  degreeBits : Nat
  arityBits : List Nat
deriving Inhabited

def usizeModulus : Nat := 2 ^ 64

/-! ### FRI parameters from the configuration -/

/-- `relative_proof_size`; `none` = the `assert!(current_layer_bits >= rate_bits)` fails (or the
subtraction underflows) -/
def relativeProofSize (degreeBits rateBits numQueries : Nat) (arities : List Nat) : Option Nat := do
  let mut cur := degreeBits + rateBits
  let mut total := 0
  for a in arities do
    total := total + (2 ^ a - 1) * 4 * numQueries + cur * 4 * numQueries
    if cur < a then none
    cur := cur - a
  if cur < rateBits then none
  return total + 4 * 2 ^ (cur - rateBits)

/-- `min_size_arity_bits_helper`: exhaustive search over non-increasing arity sequences -/
def minSizeHelper (degreeBits rateBits numQueries : Nat) :
    Nat → Nat → List Nat → Option (List Nat × Nat)
  | 0, _, _ => none
  | fuel + 1, globalMax, pre => do
    let sum := pre.foldl (· + ·) 0
    if degreeBits + rateBits < sum then none
    let cur := degreeBits + rateBits - sum
    if cur < rateBits then none
    let size0 ← relativeProofSize degreeBits rateBits numQueries pre
    let maxA := min (pre.getLast?.getD globalMax) (cur - rateBits)
    let mut best := (pre, size0)
    for next in (List.range maxA).map (· + 1) do
      let r ← minSizeHelper degreeBits rateBits numQueries fuel maxA (pre ++ [next])
      if r.2 < best.2 then best := r
    return best

/-- `FriReductionStrategy::reduction_arity_bits`; `none` = panic -/
def reductionArityBits (s : Strategy) (degreeBits rateBits capHeight numQueries : Nat) : Option (List Nat) :=
  match s with
  | .fixed as => some as
  | .constantArityBits a f => constantArityBits a f rateBits capHeight (degreeBits + 2) degreeBits
  | .minSize m => (minSizeHelper degreeBits rateBits numQueries (degreeBits + 2) (m.getD 4) []).map (·.1)

/-- `StarkConfig::fri_params(degree_bits)` -/
def Config.friParams (c : Config) (degreeBits : Nat) : Option FriParams :=
  (reductionArityBits c.fri.strategy degreeBits c.fri.rateBits c.fri.capHeight c.fri.numQueryRounds).map
    fun ab => ⟨c.fri, false, degreeBits, ab⟩

/-! ### quantities of the `Stark` trait -/

/-- `Lookup::num_helper_columns(constraint_degree)`; `none` = division by zero
(`constraint_degree = 1`: `checked_sub(1) = Some(0)`) -/
def numHelperColumns (l : LookupSpec) (degree : Nat) : Option Nat :=
  let chunk := if degree = 0 then 1 else degree - 1
  if chunk = 0 then none else some ((l.columns.length + chunk - 1) / chunk + 1)

/-- `Stark::num_lookup_helper_columns(config)` -/
def numLookupHelperColumns (a : Air) (c : Config) : Option Nat := do
  let ns ← a.lookups.mapM (numHelperColumns · a.degree)
  return ns.foldl (· + ·) 0 * c.numChallenges

/-- `Stark::num_quotient_polys(config)` -/
def numQuotientPolys (a : Air) (c : Config) : Nat := a.quotientDegreeFactor * c.numChallenges

/-- `recover_degree_bits`: read off the first Merkle path of the first query round (index panics
if there is none), `usize` arithmetic (the subtraction wraps in release) -/
def recoverDegreeBits (p : Proof) (c : Config) : Except String Nat :=
  match p.openingProof.queries with
  | [] => .error "query_round_proofs[0]"
  | q :: _ =>
    match q.initial with
    | [] => .error "evals_proofs[0]"
    | (_, siblings) :: _ =>
      .ok ((c.fri.capHeight + siblings.length + usizeModulus - c.fri.rateBits) % usizeModulus)

/-! ### vanishing polynomial -/

/-- `eval_l_0_and_l_last(log_n, x)` together with `z_last = x − g⁻¹`. The code takes
`primitive_root_of_unity(log_n)` in the extension (two-adicity 33) and then in the base field
(two-adicity 32): a panic for `log_n > 32`. For `log_n ≤ 32` both roots coincide. A zero
denominator panics in `batch_multiplicative_inverse`. -/
def evalL0LLast (logN : Nat) (x : GL2) : Except String (GL2 × GL2 × GL2) :=
  if logN > 32 then .error "primitive_root_of_unity: n_log > TWO_ADICITY" else
  let n := GL2.ofBase (GL.ofNat (2 ^ logN))
  let g := GL.primitiveRoot logN
  let zx := FOps.pow x (2 ^ logN) - FOps.one
  let d0 := n * (x - FOps.one)
  let d1 := n * (GL2.scalarMul x g - FOps.one)
  if (d0 * d1 : GL2) == FOps.zero then .error "batch_multiplicative_inverse of zero" else
  .ok (zx * FOps.inv d0, zx * FOps.inv d1, x - GL2.ofBase (GL.inv g))

/-- `slice::chunks(n)` for `n > 0` -/
def chunksOf {α} (n : Nat) (xs : List α) : List (List α) :=
  (List.range ((xs.length + n - 1) / n)).map fun i => (xs.drop (i * n)).take n

/-- `GrandProductChallenge::combine`: `reduce_with_powers(terms, β) + γ` -/
def combine (beta gamma : GL) (terms : List GL2) : GL2 :=
  Fri.reduceExt terms (GL2.ofBase beta) + GL2.ofBase gamma

/-- `eval_helper_columns` (shared by lookups — one-element tuples, β = 1 — and CTLs); `none` = a
panic (`todo!()` for chunks longer than 2, a filter index out of range, chunk size 0) -/
def evalHelperColumns (filters : List FilterSpec) (columns : List (List GL2)) (lv nv : Array GL2)
    (helpers : List GL2) (degree : Nat) (beta gamma : GL) (s : Consumer GL2) : Option (Consumer GL2) := do
  if helpers.isEmpty then return s
  let chunk := if degree = 0 then 1 else degree - 1
  if chunk = 0 then none
  let mut s := s
  -- `columns.chunks(k).zip(filter.chunks(k).zip(helper_columns))`
  for ((cs, fs), h) in ((chunksOf chunk columns).zip (chunksOf chunk filters)).zip helpers do
    match cs with
    | [c0, c1] =>
      let combin0 := combine beta gamma c0
      let combin1 := combine beta gamma c1
      let f0 ← fs[0]?
      let f1 ← fs[1]?
      let f0v := f0.eval GL2.ofBase lv nv
      let f1v := f1.eval GL2.ofBase lv nv
      s := s.constraint (combin1 * combin0 * h - f0v * combin1 - f1v * combin0)
    | [c0] =>
      let combin := combine beta gamma c0
      let f0 ← fs[0]?
      s := s.constraint (combin * h - f0.eval GL2.ofBase lv nv)
    | _ => none
  return s

/-- `CtlCheckVars`: what one cross-table-lookup Z polynomial of a table is checked against -/
structure CtlVars where
  helperColumns : List GL2
  localZ : GL2
  nextZ : GL2
  beta : GL
  gamma : GL
  columns : List (List ColSpec)     -- one tuple of column combinations per appearance of the table
  filters : List FilterSpec
deriving Inhabited

/-- `eval_cross_table_lookup_checks`; `none` = panic -/
def evalCtlChecks (ctlVars : List CtlVars) (lv nv : Array GL2) (degree : Nat) (s : Consumer GL2) :
    Option (Consumer GL2) := do
  let mut s := s
  for v in ctlVars do
    let evals := v.columns.map fun tuple => tuple.map fun col => col.evalWithNext GL2.ofBase lv nv
    s ← evalHelperColumns v.filters evals lv nv v.helperColumns degree v.beta v.gamma s
    if !v.helperColumns.isEmpty then
      let hSum := v.helperColumns.foldl (· + ·) FOps.zero
      s := s.lastRow (v.localZ - hSum)
      s := s.transition (v.localZ - v.nextZ - hSum)
    else if v.columns.length > 1 then
      let e0 ← evals[0]?
      let e1 ← evals[1]?
      let combin0 := combine v.beta v.gamma e0
      let combin1 := combine v.beta v.gamma e1
      let f0 := (← v.filters[0]?).eval GL2.ofBase lv nv
      let f1 := (← v.filters[1]?).eval GL2.ofBase lv nv
      s := s.lastRow (combin0 * combin1 * v.localZ - f0 * combin1 - f1 * combin0)
      s := s.transition (combin0 * combin1 * (v.localZ - v.nextZ) - f0 * combin1 - f1 * combin0)
    else
      let e0 ← evals[0]?
      let combin0 := combine v.beta v.gamma e0
      let f0 := (← v.filters[0]?).eval GL2.ofBase lv nv
      s := s.lastRow (combin0 * v.localZ - f0)
      s := s.transition (combin0 * (v.localZ - v.nextZ) - f0)
  return s

/-- SWITCH for finding F-C10-2. `false` = the code as it is: `eval_packed_lookups_generic` evaluates
the table and frequencies columns with `Column::eval`, which ignores their next-row terms, while
the prover builds the helper columns with `eval_table` (next row included), so an honest proof of
a lookup whose table/frequencies column has a next-row term is rejected. `true` = repaired: both
are evaluated with `eval_with_next`. -/
def lookupTableUsesNext : Bool := true

/-- `eval_packed_lookups_generic`: for every lookup and every challenge, the helper-column
constraints, `Z(first) = 0` and the running-sum constraint. `localAux`/`nextAux` are the first
`num_lookup_columns` auxiliary openings. `none` = panic. -/
def evalLookups (a : Air) (lv nv : Array GL2) (localAux nextAux : List GL2) (challenges : List GL)
    (s : Consumer GL2) : Option (Consumer GL2) := do
  let mut s := s
  let mut start := 0
  for l in a.lookups do
    let nh ← numHelperColumns l a.degree
    for challenge in challenges do
      let cols := l.columns.map fun c => c.evalWithNext GL2.ofBase lv nv
      if localAux.length < start + nh - 1 then none   -- slice out of range
      let helpers := (localAux.drop start).take (nh - 1)
      s ← evalHelperColumns l.filters (cols.map fun c => [c]) lv nv helpers a.degree 1 challenge s
      let z ← localAux[start + nh - 1]?
      let nextZ ← nextAux[start + nh - 1]?
      let evalCol (col : ColSpec) : GL2 :=
        if lookupTableUsesNext then col.evalWithNext GL2.ofBase lv nv else col.eval GL2.ofBase lv
      let twc := evalCol l.table + GL2.ofBase challenge
      let y := helpers.foldl (· + ·) FOps.zero * twc - evalCol l.freq
      s := s.firstRow z
      s := s.constraint ((nextZ - z) * twc - y)
      start := start + nh
  return s

/-- `eval_vanishing_poly` followed by `accumulators()`: table constraints, lookup terms, CTL terms -/
def evalVanishingPoly (a : Air) (lv nv : List GL2) (pis : List GL)
    (lookupVars : Option (List GL2 × List GL2 × List GL)) (ctlVars : Option (List CtlVars))
    (s : Consumer GL2) : Option (List GL2) := do
  let lvA := lv.toArray
  let nvA := nv.toArray
  let s := a.evalConstraints lvA nvA (pis.map GL2.ofBase).toArray s
  let s ← match lookupVars with
    | none => pure s
    | some (la, na, chs) => evalLookups a lvA nvA la na chs s
  let s ← match ctlVars with
    | none => pure s
    | some cv => evalCtlChecks cv lvA nvA a.degree s
  return s.accs

/-- the consumer both `compute_eval_vanishing_poly` and `verify_stark_proof_with_challenges` set
up at a point `x` -/
def consumerAt (alphas : List GL) (degreeBits : Nat) (x : GL2) : Except String (Consumer GL2) := do
  let (l0, lLast, zLast) ← evalL0LLast degreeBits x
  return Consumer.new (alphas.map GL2.ofBase) zLast l0 lLast

def orPanic {α} (what : String) : Option α → Except String α
  | some x => .ok x
  | none => .error what

/-- `StarkEvaluationFrame::from_values`: `assert_eq!` on the three lengths -/
def frameCheck (a : Air) (lv nv : List GL2) (pis : List GL) : Except String Unit :=
  if lv.length = a.cols ∧ nv.length = a.cols ∧ pis.length = a.pis then .ok () else .error "from_values length"

/-- `compute_eval_vanishing_poly` on the dummy opening set -/
def computeEvalVanishingPoly (a : Air) (lv nv : List GL2) (aux auxNext : Option (List GL2))
    (lookupChallenges : Option (List GL)) (ctlVars : Option (List CtlVars)) (pis : List GL) (alphas : List GL)
    (zeta : GL2) (degreeBits numLookupColumns : Nat) : Except String (List GL2) := do
  let s ← consumerAt alphas degreeBits zeta
  frameCheck a lv nv pis
  let lookupVars ← match lookupChallenges with
    | none => pure none
    | some lc => do
      let la ← orPanic "auxiliary_polys unwrap" aux
      let na ← orPanic "auxiliary_polys_next unwrap" auxNext
      if la.length < numLookupColumns ∨ na.length < numLookupColumns then throw "aux slice"
      pure (some (la.take numLookupColumns, na.take numLookupColumns, lc))
  orPanic "eval_vanishing_poly" (evalVanishingPoly a lv nv pis lookupVars ctlVars s)

/-! ### Fiat–Shamir -/

def flattenExt (xs : List GL2) : List GL := xs.flatMap fun x => [x.a, x.b]
def flattenCap (cap : List Digest) : List GL := cap.flatMap id
def mkExt (xs : List GL) : GL2 := ⟨xs.getD 0 0, xs.getD 1 0⟩

/-- `log2_ceil` -/
def log2Ceil (n : Nat) : Nat := if n ≤ 1 then 0 else Nat.log2 (n - 1) + 1

/-- `StarkConfig::observe` followed by `FriConfig::observe` -/
def Config.observed (c : Config) : List GL :=
  ([c.securityBits, c.numChallenges, c.fri.rateBits, c.fri.capHeight, c.fri.powBits] ++
    c.fri.strategy.serialize ++ [c.fri.numQueryRounds]).map GL.ofNat

/-- `to_fri_openings` -/
def OpeningSet.toFriOpenings (o : OpeningSet) : List (List GL2) :=
  [o.localValues ++ (o.auxPolys.getD []) ++ (o.quotientPolys.getD []),
   o.nextValues ++ (o.auxPolysNext.getD [])] ++
  (match o.ctlZsFirst with
   | some zs => [zs.map GL2.ofBase]
   | none => [])

/-- `final_poly_coeff_len(degree_bits, arities)` (`usize` arithmetic; the shift is masked in release) -/
def finalPolyCoeffLen (degreeBits : Nat) (arities : List Nat) : Nat :=
  let d := arities.foldl (fun d a => (d + usizeModulus - a % usizeModulus) % usizeModulus) degreeBits
  2 ^ (d % 64) % usizeModulus

abbrev ChSt := Challenger.St
def perm := Sponge.poseidonPerm
def obs (s : ChSt) (xs : List GL) : ChSt := Challenger.observeMany perm s xs
def getN (s : ChSt) (n : Nat) : ChSt × List GL := Challenger.getN perm s n
def getExt (s : ChSt) : ChSt × GL2 := let (s, xs) := getN s 2; (s, mkExt xs)
def getExts (s : ChSt) (n : Nat) : ChSt × List GL2 :=
  (List.range n).foldl (fun (acc : ChSt × List GL2) _ => let (s, x) := getExt acc.1; (s, acc.2 ++ [x])) (s, [])

/-- `get_dummy_polys`: simulated openings `c, c^p, c^(p²), …` from a few extension challenges;
returns (local, next, aux, aux_next). `none` = a slice out of range. -/
def getDummyPolys (s : ChSt) (numTrace numAux powDegree : Nat) :
    ChSt × Option (List GL2 × List GL2 × Option (List GL2) × Option (List GL2)) :=
  let logPow := log2Ceil powDegree
  -- `50 / log_pow_degree - 1`: pow_degree ≥ 2, so no division by zero; ≥ 1 after the max
  let numExtPowers := max 1 (50 / logPow - 1)
  let total := numTrace * 2 + numAux * 2
  let (s, zetas) := getExts s ((total + numExtPowers - 1) / numExtPowers)
  let perZeta := min (numExtPowers + 1) total
  let evals := zetas.flatMap fun z =>
    ((List.range perZeta).foldl (fun (acc : List GL2 × GL2) _ => (acc.1 ++ [acc.2], FOps.pow acc.2 powDegree)) ([], z)).1
  let auxStart := numTrace * 2
  let auxNextStart := auxStart + numAux
  if evals.length < auxNextStart then (s, none) else
  let isAux := numAux > 0
  (s, some (evals.take numTrace, (evals.drop numTrace).take numTrace,
    (if isAux then some ((evals.drop auxStart).take numAux) else none),
    (if isAux then some (evals.drop auxNextStart) else none)))

/-- `Challenger::fri_challenges` with the optional padding of the transcript
(`max_num_query_steps`: zero caps and dummy betas; `final_poly_coeff_len`: zero coefficients) -/
def friChallenges (s : ChSt) (fp : Fri.Proof) (degreeBits : Nat) (c : FriConfig) (pad : Option PadParams) :
    Fri.Challenges :=
  let (s, alpha) := getExt s
  let (s, betas) := fp.commitCaps.foldl (fun (acc : ChSt × List GL2) cap =>
    let (s, b) := getExt (obs acc.1 (flattenCap cap)); (s, acc.2 ++ [b])) (s, [])
  let s := match pad with
    | none => s
    | some p =>
      let zeroCap := List.replicate (2 ^ c.capHeight * 4) (0 : GL)
      (List.range (p.arityBits.length - fp.commitCaps.length)).foldl (fun s _ => (getExt (obs s zeroCap)).1) s
  let s := obs s (flattenExt fp.finalPoly)
  let s := match pad with
    | none => s
    | some p => obs s (List.replicate (2 * (finalPolyCoeffLen p.degreeBits p.arityBits - fp.finalPoly.length)) 0)
  let s := obs s [fp.powWitness]
  let (s, pow) := getN s 1
  let (_, idx) := getN s c.numQueryRounds
  -- `1 << (degree_bits + rate_bits)` (masked shift; degree_bits ≤ 32 here)
  let ldeSize := 2 ^ ((degreeBits + c.rateBits) % 64)
  ⟨alpha, betas, pow.getD 0 0, idx.map fun x => x.val % ldeSize⟩

/-- `StarkProof::get_challenges` from a given challenger state. `shared`: the challenge set handed
in by a multi-table system (then none is drawn here); `ctlVars`: the table's CTL check variables
(only their shapes, challenges and column data matter: their openings are replaced by dummy ones);
`ignoreTraceCap`: the trace cap was observed by the caller already. -/
def getChallengesFrom (s : ChSt) (a : Air) (c : Config) (pp : ProofWithPis) (pad : Option PadParams)
    (shared : Option (List (GL × GL))) (ctlVars : Option (List CtlVars)) (ignoreTraceCap : Bool) :
    Except String Challenges := do
  let p := pp.proof
  let n := c.numChallenges
  let degreeBits ← recoverDegreeBits p c
  let s := obs s c.observed
  let s := if ignoreTraceCap then s else obs s (flattenCap p.traceCap)
  -- own lookup challenges exist iff the proof carries an auxiliary cap
  let (s, lookupSet) := match shared with
    | some sh => (s, some sh)
    | none =>
      match p.auxCap with
      | none => (s, none)
      | some _ =>
        let (s, xs) := getN s (2 * n)
        (s, some ((List.range n).map fun i => (xs.getD (2 * i) 0, xs.getD (2 * i + 1) 0)))
  let s := match p.auxCap with
    | some cap => obs s (flattenCap cap)
    | none => s
  let numLookupColumns ← orPanic "num_helper_columns: division by zero" (numLookupHelperColumns a c)
  let lookupChallenges ← if a.usesLookups then
      match lookupSet with
      | some ls => pure (some (ls.map (·.1)))
      | none => throw "lookup_challenge_set unwrap"
    else pure none
  let (s, alphasPrime) := getN s n
  let powDegree := max 2 (a.degree + 1)
  let numAux := (p.openings.auxPolys.map (·.length)).getD 0
  let (s, dummy) := getDummyPolys s a.cols numAux powDegree
  let (dl, dn, da, dan) ← orPanic "dummy evals slice" dummy
  -- dummy CTL variables: helper columns and Z values taken from the dummy auxiliary openings
  let dummyCtl ← match ctlVars with
    | none => pure none
    | some cv => do
      let total := cv.foldl (fun acc v => acc + v.helperColumns.length) 0
      let aux ← orPanic "dummy auxiliary_polys unwrap" da
      let auxNext ← orPanic "dummy auxiliary_polys_next unwrap" dan
      let mut start := 0
      let mut out : List CtlVars := []
      for (v, i) in cv.zipIdx do
        let nh := v.helperColumns.length
        if aux.length < numLookupColumns + start + nh then throw "dummy helper slice"
        let lz ← orPanic "dummy local_z index" aux[numLookupColumns + total + i]?
        let nz ← orPanic "dummy next_z index" auxNext[numLookupColumns + total + i]?
        out := out ++ [{ v with helperColumns := (aux.drop (numLookupColumns + start)).take nh, localZ := lz, nextZ := nz }]
        start := start + nh
      pure (some out)
  let (s, zetaPrime) := getExt s
  let constraintEvals ← computeEvalVanishingPoly a dl dn da dan lookupChallenges dummyCtl pp.publicInputs
    alphasPrime zetaPrime degreeBits numLookupColumns
  let s := obs s (flattenExt constraintEvals)
  let (s, alphas) := getN s n
  let s := match p.quotientCap with
    | some cap => obs s (flattenCap cap)
    | none => s
  let (s, zeta) := getExt s
  let s := obs s (p.openings.toFriOpenings.flatMap flattenExt)
  return ⟨lookupSet, alphas, zeta, friChallenges s p.openingProof degreeBits c.fri pad⟩

/-- `StarkProofWithPublicInputs::get_challenges` for a single table: the public inputs are
observed first; no shared challenges, no CTL variables, the trace cap is observed -/
def getChallenges (a : Air) (c : Config) (pp : ProofWithPis) (pad : Option PadParams) :
    Except String Challenges :=
  getChallengesFrom (obs (Challenger.init perm) pp.publicInputs) a c pp pad none none false

/-! ### shape validation -/

/-- SWITCH for finding F-C09-2. `false` = the code as it is: `validate_proof_shape` only checks
`quotient_polys_cap.is_none() || len == 1 << cap_height`, so a proof may omit the quotient cap of
a STARK that has quotient polynomials (ζ then precedes any quotient commitment and the quotient
oracle's Merkle paths go unchecked). `true` = the repaired check: the cap is present iff
`num_quotient_polys(config) > 0`, and has the right length. -/
def quotientCapMustMatch : Bool := true

/-- SWITCH for finding F-C09-1. `false` = the code as it is: `ctl_zs_first` of a proof is only
looked at when the STARK has lookups/CTLs (`len == num_ctl_zs`), so `Some([])` passes everywhere.
`true` = a possible one-line repair `ensure!(ctl_zs_first.is_some() == stark.requires_ctls())`. -/
def ctlZsFirstMustMatch : Bool := true

/-- SWITCH for a repair of `plonky2/src/fri/validate_shape.rs` that appeared in the working tree
of /repo while this model was written: `ensure!(commit_phase_merkle_caps.len() ==
params.reduction_arity_bits.len())` as the first check of `validate_batch_fri_proof_shape`.
`true` = that check exists (applied here just before `Fri.verify`, whose own `validateShape` may or
may not have it already — the result is the same); `false` = the code without it. -/
def friCommitCapsCountChecked : Bool := true

def ensure (ok : Bool) : Verdict := if ok then .accept else .reject "shape"

/-- `check_lookup_options` -/
def checkLookupOptions (a : Air) (c : Config) (p : Proof) (numLookupColumns numCtlHelpers numCtlZs : Nat) :
    List Verdict :=
  let o := p.openings
  if a.usesLookups || a.requiresCtls then
    let numAux := numLookupColumns + numCtlHelpers + numCtlZs
    match p.auxCap, o.auxPolys, o.auxPolysNext with
    | some cap, some aux, some auxNext =>
      [ (match o.ctlZsFirst with
         | some zs => ensure (zs.length == numCtlZs)
         | none => .accept),
        ensure (cap.length == 2 ^ c.fri.capHeight),
        ensure (aux.length == numAux), ensure (auxNext.length == numAux) ]
    | _, _, _ => [.reject "shape"]
  else
    [ensure p.auxCap.isNone, ensure o.auxPolys.isNone, ensure o.auxPolysNext.isNone]

/-- `validate_proof_shape` (the checks in the order of the code; `fri_params` may panic) -/
def validateShape (a : Air) (c : Config) (pp : ProofWithPis) (degreeBits numCtlHelpers numCtlZs : Nat) : Verdict :=
  let p := pp.proof
  let o := p.openings
  if pp.publicInputs.length ≠ a.pis then .reject "shape" else
  match c.friParams degreeBits with
  | none => .panic "fri_params"
  | some _ =>
    match numLookupHelperColumns a c with
    | none => .panic "num_helper_columns"
    | some nlc =>
      firstBad ([ ensure (p.traceCap.length == 2 ^ c.fri.capHeight),
        (match p.quotientCap with
         | none => if quotientCapMustMatch then ensure (numQuotientPolys a c == 0) else .accept
         | some q =>
           if quotientCapMustMatch && numQuotientPolys a c == 0 then .reject "shape"
           else ensure (q.length == 2 ^ c.fri.capHeight)),
        (if ctlZsFirstMustMatch then ensure (o.ctlZsFirst.isSome == a.requiresCtls) else .accept),
        ensure (o.localValues.length == a.cols), ensure (o.nextValues.length == a.cols),
        (match o.quotientPolys with
         -- F-C18-6 repaired in /repo: quotient openings are present iff there are quotient polynomials
         | some q => ensure (0 < numQuotientPolys a c && q.length == numQuotientPolys a c)
         | none => ensure (numQuotientPolys a c == 0)) ] ++ checkLookupOptions a c p nlc numCtlHelpers numCtlZs)

/-! ### FRI instance and verification -/

def polyRange (oracle lo hi : Nat) : List PolyInfo :=
  (List.range (hi - lo)).map fun i => ⟨oracle, lo + i⟩

/-- `Stark::fri_instance(zeta, g, num_ctl_helpers, num_ctl_zs, config)` -/
def friInstance (a : Air) (c : Config) (zeta : GL2) (g : GL) (numLookupColumns numCtlHelpers numCtlZs : Nat) :
    Fri.Instance :=
  let hasAux := a.usesLookups || a.requiresCtls
  let numAux := numLookupColumns + numCtlHelpers + numCtlZs
  let traceInfo := polyRange 0 0 a.cols
  let auxInfo := if hasAux then polyRange 1 0 numAux else []
  let nq := numQuotientPolys a c
  let quotOracle := if hasAux then 2 else 1
  let quotInfo := if nq > 0 then polyRange quotOracle 0 nq else []
  { oracles := [⟨a.cols, false⟩] ++ (if hasAux then [⟨numAux, false⟩] else []) ++
      (if nq > 0 then [⟨nq, false⟩] else []),
    batches := [⟨zeta, traceInfo ++ auxInfo ++ quotInfo⟩, ⟨GL2.scalarMul zeta g, traceInfo ++ auxInfo⟩] ++
      -- the CTL Z polynomials opened at 1 (always oracle 1)
      (if a.requiresCtls then [⟨FOps.one, polyRange 1 (numLookupColumns + numCtlHelpers) numAux⟩] else []) }

/-- `verify_stark_proof_with_challenges` -/
def verifyWithChallenges (a : Air) (c : Config) (pp : ProofWithPis) (ch : Challenges)
    (ctlVars : Option (List CtlVars) := none) : Verdict :=
  let p := pp.proof
  let o := p.openings
  -- `num_ctl_z_polys = ctls.len()`, `num_ctl_polys = Σ helper_columns.len()`
  let numCtlZs := (ctlVars.map (·.length)).getD 0
  let numCtlHelpers := (ctlVars.map fun cv => cv.foldl (fun acc v => acc + v.helperColumns.length) 0).getD 0
  -- `recover_degree_bits` cannot fail any more: `get_challenges` already went through it
  match recoverDegreeBits p c with
  | .error e => .panic e
  | .ok degreeBits =>
  match validateShape a c pp degreeBits numCtlHelpers numCtlZs with
  | .accept =>
    match frameCheck a o.localValues o.nextValues pp.publicInputs, consumerAt ch.alphas degreeBits ch.zeta,
        numLookupHelperColumns a c, c.friParams degreeBits with
    | .ok (), .ok s, some nlc, some friParams =>
      let lookupVars : Except String (Option (List GL2 × List GL2 × List GL)) :=
        if a.usesLookups then
          match ch.lookupSet, o.auxPolys, o.auxPolysNext with
          | some ls, some aux, some auxNext =>
            if aux.length < nlc ∨ auxNext.length < nlc then .error "aux slice" else
            .ok (some (aux.take nlc, auxNext.take nlc, ls.map (·.1)))
          | _, _, _ => .error "unwrap"
        else .ok none
      match lookupVars with
      | .error e => .panic e
      | .ok lv =>
        match evalVanishingPoly a o.localValues o.nextValues pp.publicInputs lv ctlVars s with
        | none => .panic "eval_vanishing_poly"
        | some vanishing =>
          let zetaPowDeg := FOps.pow ch.zeta (2 ^ degreeBits)
          let zH := zetaPowDeg - FOps.one
          let qdf := a.quotientDegreeFactor
          -- `quotient_polys.iter().flat_map(|x| x.chunks(qdf))`: `chunks(0)` panics
          match o.quotientPolys with
          | some _ => if qdf = 0 then .panic "chunks(0)" else identityThenFri vanishing zetaPowDeg zH qdf nlc friParams degreeBits numCtlHelpers numCtlZs
          | none => identityThenFri vanishing zetaPowDeg zH qdf nlc friParams degreeBits numCtlHelpers numCtlZs
    | .error e, _, _, _ => .panic e
    | _, .error e, _, _ => .panic e
    | _, _, _, _ => .panic "fri_params / num_helper_columns"
  | v => v
where
  identityThenFri (vanishing : List GL2) (zetaPowDeg zH : GL2) (qdf nlc : Nat) (friParams : FriParams)
      (degreeBits numCtlHelpers numCtlZs : Nat) : Verdict :=
    let p := pp.proof
    let chunks := match p.openings.quotientPolys with
      | some q => chunksOf qdf q
      | none => []
    let identity : Verdict := firstBad ((chunks.zipIdx).map fun (chunk, i) =>
      match vanishing[i]? with
      | none => .panic "vanishing_polys_zeta index"
      | some v => if v == zH * Fri.reduceExt chunk zetaPowDeg then .accept else .reject "identity")
    match identity with
    | .accept =>
      let caps := [p.traceCap] ++ p.auxCap.toList ++ p.quotientCap.toList
      -- A `Fixed` schedule may sum to more than `degree_bits` (nothing on the verifier's side
      -- excludes it). `validate_fri_proof_shape` then computes `degree_bits − total_arities` (and
      -- possibly `codeword_len_bits −= arity_bits`) on `usize`: in the release build the harness
      -- runs, the subtraction wraps and `1 << _` masks its shift amount, so `final_poly.len()` is
      -- compared with `2^(64 − d)` and the proof is rejected as mis-shaped (`Fri.validateShape`
      -- describes the debug build, where the same subtraction panics).
      if friCommitCapsCountChecked && p.openingProof.commitCaps.length != friParams.arityBits.length then
        .reject "shape" else
      if degreeBits < friParams.totalArities then .reject "shape" else
      Fri.verify (friInstance a c ch.zeta (GL.primitiveRoot degreeBits) nlc numCtlHelpers numCtlZs) p.openings.toFriOpenings ch.fri
        caps p.openingProof friParams
    | v => v

/-- `verify_stark_proof` -/
def verify (a : Air) (c : Config) (pp : ProofWithPis) (pad : Option PadParams) : Verdict :=
  if pp.publicInputs.length ≠ a.pis then .reject "shape" else
  match getChallenges a c pp pad with
  | .error e => .panic e
  | .ok ch => verifyWithChallenges a c pp ch

/-! ### multi-table systems with cross-table lookups -/

/-- `CrossTableLookup::num_ctl_helpers_zs_all(ctls, table, num_challenges, constraint_degree)`:
(total helper columns, total Z polynomials, helper columns per CTL); `none` = division by zero -/
def numCtlHelpersZsAll (ctls : List CtlSpec) (table numChallenges degree : Nat) : Option (Nat × Nat × List Nat) := do
  let mut numHelpers := 0
  let mut numCtls := 0
  let mut byCtl : List Nat := []
  for ctl in ctls do
    let appearances := ((ctl.looked :: ctl.looking).filter (·.table == table)).length
    if appearances > 1 then
      if degree ≤ 1 then none    -- `constraint_degree - 1` is zero (or underflows)
      let h := (appearances + (degree - 1) - 1) / (degree - 1)
      byCtl := byCtl ++ [h]
      numHelpers := numHelpers + h
    else
      byCtl := byCtl ++ [0]
    if appearances > 0 then numCtls := numCtls + 1
  return (numHelpers * numChallenges, numCtls * numChallenges, byCtl)

/-- `CtlCheckVars::from_proof` -/
def ctlVarsFromProof (table : Nat) (p : Proof) (ctls : List CtlSpec) (ctlChallenges : List (GL × GL))
    (numLookupColumns totalNumHelpers : Nat) (helpersByCtl : List Nat) : Except String (List CtlVars) := do
  let aux ← orPanic "We cannot have CTLs without auxiliary polynomials." p.openings.auxPolys
  let auxNext ← orPanic "We cannot have CTLs without auxiliary polynomials." p.openings.auxPolysNext
  let ctlZs := (aux.drop numLookupColumns).zip (auxNext.drop numLookupColumns)
  let mut zIndex := 0
  let mut startIndex := 0
  let mut out : List CtlVars := []
  for (ctl, i) in ctls.zipIdx do
    for (beta, gamma) in ctlChallenges do
      let mine := ctl.looking.filter (·.table == table)
      if mine.length > 0 then
        let (z, zNext) ← orPanic "ctl_zs index" ctlZs[totalNumHelpers + zIndex]?
        let nh := helpersByCtl.getD i 0
        if ctlZs.length < startIndex + nh then throw "ctl_zs helper slice"
        let helpers := ((ctlZs.drop startIndex).take nh).map (·.1)
        startIndex := startIndex + nh
        zIndex := zIndex + 1
        out := out ++ [⟨helpers, z, zNext, beta, gamma, mine.map (·.columns), mine.map (·.filter)⟩]
      if ctl.looked.table == table then
        let (z, zNext) ← orPanic "ctl_zs index" ctlZs[totalNumHelpers + zIndex]?
        zIndex := zIndex + 1
        out := out ++ [⟨[], z, zNext, beta, gamma, [ctl.looked.columns], [ctl.looked.filter]⟩]
  return out

/-- `verify_cross_table_lookups` (no extra looking sums): per CTL and challenge, the first-row
openings of the looking tables' Z polynomials add up to the looked table's -/
def verifyCrossTableLookups (ctls : List CtlSpec) (zsFirst : List (List GL)) (numChallenges : Nat) : Verdict := Id.run do
  -- one cursor per table into its `ctl_zs_first`
  let mut cursors : Array (List GL) := zsFirst.toArray
  for ctl in ctls do
    let lookingTables := ctl.looking.foldl (fun (acc : List Nat) s => if acc.contains s.table then acc else acc ++ [s.table]) []
    for _ in [0:numChallenges] do
      let mut sum : GL := 0
      for t in lookingTables do
        match cursors.getD t [] with
        | [] => return .panic "ctl_zs_openings next().unwrap()"
        | z :: rest => sum := sum + z; cursors := cursors.setIfInBounds t rest
      match cursors.getD ctl.looked.table [] with
      | [] => return .panic "ctl_zs_openings next().unwrap()"
      | z :: rest =>
        cursors := cursors.setIfInBounds ctl.looked.table rest
        if sum != z then return .reject "ctl"
  return .accept

/-- The multi-table verifier of the harness (`c10.rs::ctl::verify_multi`): observe every trace cap,
draw the CTL challenges, verify each table from a copy of that challenger state (shared challenges,
trace cap not observed again, public inputs not observed), then the cross-table sums. -/
def verifyMulti (tables : List (Air × ProofWithPis)) (ctls : List CtlSpec) (c : Config) : Verdict := Id.run do
  let s0 := tables.foldl (fun s t => obs s (flattenCap t.2.proof.traceCap)) (Challenger.init perm)
  let (s0, xs) := getN s0 (2 * c.numChallenges)
  let ctlChallenges := (List.range c.numChallenges).map fun i => (xs.getD (2 * i) 0, xs.getD (2 * i + 1) 0)
  for ((a, pp), i) in tables.zipIdx do
    let some (totalHelpers, _, byCtl) := numCtlHelpersZsAll ctls i c.numChallenges a.degree
      | return .panic "num_ctl_helpers_zs_all"
    -- the table's own lookup helper columns precede the CTL columns among the auxiliary polynomials
    let nlc := (numLookupHelperColumns a c).getD 0
    let ctlVars ← match ctlVarsFromProof i pp.proof ctls ctlChallenges nlc totalHelpers byCtl with
      | .error e => return .panic e
      | .ok v => pure v
    match getChallengesFrom s0 a c pp none (some ctlChallenges) (some ctlVars) true with
    | .error e => return .panic e
    | .ok ch =>
      match verifyWithChallenges a c pp ch (some ctlVars) with
      | .accept => pure ()
      | v => return v
  return verifyCrossTableLookups ctls (tables.map fun t => t.2.proof.openings.ctlZsFirst.getD []) c.numChallenges

end P2.Stark
