/-
L5: `FriProof::compress` of `plonky2/src/fri/proof.rs`: transpose per Merkle tree, drop the
inferable evaluation of every coset, compress the Merkle paths per tree
(`P2.PathCompression.compress`), and store per-index entries in first-wins maps.
Maps are association lists sorted by key (canonical form of the `HashMap`s).
-/
import P2.Model.Fri
import P2.Model.PathCompression
namespace P2.Compress
open P2 P2.Fri P2.Merkle

structure CompressedQueryRounds where
  indices : List Nat
  initial : List (Nat × List (List GL × List Digest))
  steps : List (List (Nat × QueryStep))
deriving Inhabited

structure CompressedFriProof where
  commitCaps : List (List Digest)
  rounds : CompressedQueryRounds
  finalPoly : List GL2
  powWitness : GL
deriving Inhabited

/-- `entry(k).or_insert(v)` on an association list -/
def insertFirstWins {α} (m : List (Nat × α)) (k : Nat) (v : α) : List (Nat × α) :=
  if m.any (·.1 == k) then m else m ++ [(k, v)]

def sortByKey {α} (m : List (Nat × α)) : List (Nat × α) :=
  (m.toArray.qsort (fun a b => a.1 < b.1)).toList

def removeAt {α} (xs : List α) (i : Nat) : List α := xs.take i ++ xs.drop (i + 1)

/-- index of query `q` at reduction layer `j` (after `j+1` shifts) and its position within the coset -/
def layerIndex (arityBits : List Nat) (index : Nat) : Nat → Nat × Nat
  | 0 => (index / 2 ^ arityBits.getD 0 0, index % 2 ^ arityBits.getD 0 0)
  | j + 1 =>
    let prev := (layerIndex arityBits index j).1
    (prev / 2 ^ arityBits.getD (j + 1) 0, prev % 2 ^ arityBits.getD (j + 1) 0)

/-- `FriProof::compress(indices, params)`; `none` = panic (`query_round_proofs[0]`, `proofs[0]`) -/
def compress (proof : Fri.Proof) (indices : List Nat) (p : FriParams) : Option CompressedFriProof := do
  let capHeight := p.config.capHeight
  let numReductions := p.arityBits.length
  let q0 ← proof.queries[0]?
  let numInitial := q0.initial.length
  let qs := indices.zip proof.queries
  -- per initial tree: indices, paths
  let initialCompressed : List (List (List Digest)) := (List.range numInitial).map fun t =>
    let is := qs.map (·.1)
    let ps := qs.map fun (_, q) => (q.initial.getD t ([], [])).2
    let height := capHeight + (ps.headD []).length
    PathCompression.compress height capHeight is ps
  let stepsCompressed : List (List (List Digest)) := (List.range numReductions).map fun j =>
    let is := qs.map fun (i, _) => (layerIndex p.arityBits i j).1
    let ps := qs.map fun (_, q) => (q.steps.getD j default).merkleProof
    let height := capHeight + (ps.headD []).length
    PathCompression.compress height capHeight is ps
  let (initMap, stepMaps) := (qs.zipIdx).foldl
    (fun (acc : List (Nat × List (List GL × List Digest)) × List (List (Nat × QueryStep))) ((index, q), qi) =>
      let initProof := (List.range numInitial).map fun t =>
        ((q.initial.getD t ([], [])).1, (initialCompressed.getD t []).getD qi [])
      let im := insertFirstWins acc.1 index initProof
      let sm := (List.range numReductions).map fun j =>
        let (idx, within) := layerIndex p.arityBits index j
        let st := q.steps.getD j default
        let entry : QueryStep := ⟨removeAt st.evals within, (stepsCompressed.getD j []).getD qi []⟩
        insertFirstWins (acc.2.getD j []) idx entry
      (im, sm))
    ([], List.replicate numReductions [])
  pure ⟨proof.commitCaps, ⟨indices, sortByKey initMap, stepMaps.map sortByKey⟩, proof.finalPoly, proof.powWitness⟩

end P2.Compress
