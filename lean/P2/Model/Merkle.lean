/-
L3: Merkle trees of `plonky2/src/hash/merkle_tree.rs` and verification of
`merkle_proofs.rs`, parametric in the leaf hash and the two-to-one compression.
`fillSubtree` reproduces the digest-buffer layout of the code
(`left buffer ‖ left digest ‖ right digest ‖ right buffer`), `merkleTreeProve` its index arithmetic.
-/
import P2.Model.Sponge
namespace P2.Merkle

/-- an abstract hasher; `D` is the digest type -/
structure Hasher (L D : Type) where
  hashLeaf : L → D
  two : D → D → D

inductive Outcome where
  | ok | err | panic
deriving Repr, DecidableEq, Inhabited

variable {L D : Type}

/-- `fill_subtree`: returns (digest buffer in the code's layout, root of the subtree).
`leaves.length` must be a power of two; `height` is its log. -/
def fillSubtree (h : Hasher L D) : Nat → List L → List D × Option D
  | 0, leaves => ([], leaves.head?.map h.hashLeaf)
  | k + 1, leaves =>
    let half := leaves.length / 2
    let (lb, ld) := fillSubtree h k (leaves.take half)
    let (rb, rd) := fillSubtree h k (leaves.drop half)
    match ld, rd with
    | some a, some b => (lb ++ [a] ++ [b] ++ rb, some (h.two a b))
    | _, _ => ([], none)

/-- `fill_digests_buf` / `MerkleTree::new`: (digests, cap) for `2^k` leaves and `capHeight ≤ k` -/
def build (h : Hasher L D) (k capHeight : Nat) (leaves : List L) : List D × List (Option D) :=
  let sub := leaves.length / 2 ^ capHeight
  let parts := (List.range (2 ^ capHeight)).map fun i =>
    fillSubtree h (k - capHeight) ((leaves.drop (i * sub)).take sub)
  (parts.flatMap (·.1), parts.map (·.2))

/-- `merkle_tree_prove` (index arithmetic as in the code); `none` = out-of-bounds panic -/
def merkleTreeProve (leafIndex leavesLen k capHeight : Nat) (digests : List D) : Option (List D) :=
  let numLayers := k - capHeight
  let digestLen := 2 * (leavesLen - 2 ^ capHeight)
  if digestLen ≠ digests.length then none else
  let treeIndex := leafIndex / 2 ^ numLayers
  let treeLen := digestLen / 2 ^ capHeight
  let tree := (digests.drop (treeLen * treeIndex)).take treeLen
  let pair0 := leafIndex % 2 ^ numLayers
  (List.range numLayers).mapM fun i =>
    let parity := (pair0 / 2 ^ i) % 2
    let pairIndex := pair0 / 2 ^ (i + 1)
    let siblingsIndex := pairIndex * 2 ^ (i + 1) + 2 ^ i - 1
    tree[2 * siblingsIndex + (1 - parity)]?

/-- the digest obtained by folding a proof from a leaf digest: `(root candidate, remaining index)` -/
def foldPath (h : Hasher L D) (cur : D) (index : Nat) : List D → D × Nat
  | [] => (cur, index)
  | s :: rest =>
    let nxt := if index % 2 = 1 then h.two s cur else h.two cur s
    foldPath h nxt (index / 2) rest

/-- `verify_merkle_proof_to_cap` (single leaf): `merkle_cap.0[leaf_index]` out of range panics -/
def verifyToCap [DecidableEq D] (h : Hasher L D) (leaf : L) (index : Nat) (cap : List D)
    (proof : List D) : Outcome :=
  let (d, idx) := foldPath h (h.hashLeaf leaf) index proof
  match cap[idx]? with
  | none => .panic
  | some c => if d = c then .ok else .err

/-- textbook cap: hash the leaves, then hash pairwise level by level `k − capHeight` times -/
def levelUp (h : Hasher L D) : List D → List D
  | a :: b :: rest => h.two a b :: levelUp h rest
  | _ => []

def capOf (h : Hasher L D) (k capHeight : Nat) (leaves : List L) : List D :=
  (List.range (k - capHeight)).foldl (fun lvl _ => levelUp h lvl) (leaves.map h.hashLeaf)

/-! ### the concrete Poseidon instance -/
open P2 P2.Sponge
abbrev Digest := List GL

def poseidonHasher : Hasher (List GL) Digest :=
  ⟨hashOrNoop poseidonPerm, twoToOne poseidonPerm⟩

end P2.Merkle
