/-
L2: the built-in gates of plonky2 (`/repo/plonky2/src/gates/*.rs`) as executable constraint
evaluators, written ONCE over the operations record `FOps K` and instantiated at `K = GL`
(`eval_unfiltered_base_*`), `K = GL2` (`eval_unfiltered`, and what `eval_unfiltered_circuit`
computes in-circuit) and any Mathlib field in proof files.

Extension-algebra wires.  When the Rust code evaluates over the extension field it reads D = 2
consecutive wires as an `ExtensionAlgebra<F::Extension, 2>` (`get_local_ext_algebra`); when it
evaluates over the base field it reads them as an `F::Extension` (`get_local_ext`).  Both are
"pairs over K with (a0,a1)·(b0,b1) = (a0·b0 + 7·a1·b1, a0·b1 + a1·b0)", so one type `Alg K`
serves both; the constraints of an algebra-valued equation are its two components
(`to_basefield_array`).

Every function is total: out-of-range reads give `default` (the Rust code would panic; the
harness never sends such rows).
-/
import P2.Model.Fp
import P2.Model.GL2
import P2.Gen.Poseidon
namespace P2.Gates
open P2

/-! ## `Alg K` : `ExtensionAlgebra<F::Extension, 2>` / `QuadraticExtension<F>` over `K` -/

/-- pairs over `K`, multiplication modulo `X² − 7` (`field/src/extension/algebra.rs`,
`field/src/extension/quadratic.rs`) -/
def Alg (K : Type) : Type := K × K

namespace Alg
variable {K : Type} [FOps K]
/-- `F::W` = 7 for Goldilocks, embedded in `K` -/
def W : K := FOps.ofNat 7
def mk (a b : K) : Alg K := (a, b)
def zero : Alg K := (FOps.zero, FOps.zero)
/-- `From<F>` / `ExtensionAlgebra::one`: the scalar goes to component 0 -/
def ofK (x : K) : Alg K := (x, FOps.zero)
def one : Alg K := ofK FOps.one
def add (x y : Alg K) : Alg K := (x.1 + y.1, x.2 + y.2)
def sub (x y : Alg K) : Alg K := (x.1 - y.1, x.2 - y.2)
/-- `Mul for ExtensionAlgebra` with D = 2: `res[(i+j)%2] += (i+j<2 ? 1 : w)·a[i]·b[j]` -/
def mul (x y : Alg K) : Alg K := (x.1 * y.1 + W * (x.2 * y.2), x.1 * y.2 + x.2 * y.1)
/-- `scalar_mul` -/
def smul (x : Alg K) (s : K) : Alg K := (x.1 * s, x.2 * s)
/-- `to_basefield_array` -/
def comps (x : Alg K) : List K := [x.1, x.2]
instance : Add (Alg K) := ⟨add⟩
instance : Sub (Alg K) := ⟨sub⟩
instance : Mul (Alg K) := ⟨mul⟩
instance [Inhabited K] : Inhabited (Alg K) := ⟨(default, default)⟩
end Alg

/-! ## gate descriptors and evaluation variables -/

inductive GateKind where
  | arithmetic (numOps : Nat)
  | arithmeticExt (numOps : Nat)
  | mulExt (numOps : Nat)
  | baseSum (base numLimbs : Nat)
  | constant (numConsts : Nat)
  | cosetInterpolation (subgroupBits degree : Nat) (barycentricWeights : List Nat)
  | exponentiation (numPowerBits : Nat)
  | lookup (numSlots : Nat)
  | lookupTable (numSlots : Nat)
  | noop
  | poseidon
  | poseidonMds
  | publicInput
  | randomAccess (bits numCopies numExtraConstants : Nat)
  | reducing (numCoeffs : Nat)
  | reducingExt (numCoeffs : Nat)
deriving Repr, DecidableEq, Inhabited

/-- `EvaluationVars` / `EvaluationVarsBase`: the gate's own constants (selectors already
stripped), the local wires, and the public-inputs hash embedded into `K` -/
structure EvalVars (K : Type) where
  constants : Array K
  wires : Array K
  pih : Array K

section Eval
variable {K : Type} [FOps K] [Inhabited K]

/-- `vars.local_wires[i]` -/
@[inline] def EvalVars.w (v : EvalVars K) (i : Nat) : K := v.wires[i]!
/-- `vars.local_constants[i]` -/
@[inline] def EvalVars.c (v : EvalVars K) (i : Nat) : K := v.constants[i]!
/-- `get_local_ext_algebra(i..i+2)` / `get_local_ext(i..i+2)` -/
@[inline] def EvalVars.alg (v : EvalVars K) (i : Nat) : Alg K := (v.wires[i]!, v.wires[i + 1]!)

@[inline] def kOf (n : Nat) : K := FOps.ofNat n

/-! ### arithmetic_base.rs -/

/-- `ArithmeticGate::eval_unfiltered`: `output − (m0·m1·c0 + addend·c1)` per operation;
wires `4i, 4i+1, 4i+2, 4i+3` -/
def evalArithmetic (numOps : Nat) (v : EvalVars K) : List K :=
  (List.range numOps).map fun i =>
    v.w (4 * i + 3) - (v.w (4 * i) * v.w (4 * i + 1) * v.c 0 + v.w (4 * i + 2) * v.c 1)

/-! ### arithmetic_extension.rs -/

/-- `ArithmeticExtensionGate::eval_unfiltered`: algebra wires at `8i, 8i+2, 8i+4, 8i+6`;
`output − ((m0·m1).scalar_mul(c0) + addend.scalar_mul(c1))`, two components each -/
def evalArithmeticExt (numOps : Nat) (v : EvalVars K) : List K :=
  (List.range numOps).flatMap fun i =>
    let m0 := v.alg (8 * i); let m1 := v.alg (8 * i + 2)
    let addend := v.alg (8 * i + 4); let output := v.alg (8 * i + 6)
    (output - ((m0 * m1).smul (v.c 0) + addend.smul (v.c 1))).comps

/-! ### multiplication_extension.rs -/

/-- `MulExtensionGate::eval_unfiltered`: algebra wires at `6i, 6i+2, 6i+4`;
`output − (m0·m1).scalar_mul(c0)` -/
def evalMulExt (numOps : Nat) (v : EvalVars K) : List K :=
  (List.range numOps).flatMap fun i =>
    let m0 := v.alg (6 * i); let m1 := v.alg (6 * i + 2); let output := v.alg (6 * i + 4)
    (output - (m0 * m1).smul (v.c 0)).comps

/-! ### base_sum.rs -/

/-- `BaseSumGate<B>::eval_unfiltered`: `reduce_with_powers(limbs, B) − sum`, then per limb the
range check `∏_{i<B} (limb − i)`; `WIRE_SUM = 0`, limbs at `1 .. 1+numLimbs` -/
def evalBaseSum (base numLimbs : Nat) (v : EvalVars K) : List K :=
  let limbs := (List.range numLimbs).map fun i => v.w (1 + i)
  let computedSum := FOps.reduceWithPowers limbs (kOf base)
  (computedSum - v.w 0) ::
    limbs.map fun limb => FOps.prod ((List.range base).map fun i => limb - kOf i)

/-! ### constant.rs -/

/-- `ConstantGate::eval_unfiltered`: `constants[i] − wires[i]` -/
def evalConstant (numConsts : Nat) (v : EvalVars K) : List K :=
  (List.range numConsts).map fun i => v.c i - v.w i

/-! ### coset_interpolation.rs -/

/-- `F::two_adic_subgroup(bits)`: powers of `primitive_root_of_unity(bits)`, as naturals -/
def twoAdicSubgroup (bits : Nat) : List Nat :=
  let g := GL.primitiveRoot bits
  ((List.range (2 ^ bits)).foldl (fun (acc : List Nat × GL) _ => (acc.2.val :: acc.1, acc.2 * g))
    ([], (1 : GL))).1.reverse

/-- `partial_interpolate` / `partial_interpolate_ext_algebra`: one barycentric pass over
`(domain, value, weight)` triples from `(initial_eval, initial_partial_prod)` -/
def partialInterpolate (pts : List (Nat × Alg K × Nat)) (x : Alg K) (init : Alg K × Alg K) :
    Alg K × Alg K :=
  pts.foldl (fun (acc : Alg K × Alg K) (p : Nat × Alg K × Nat) =>
    let (eval, prod) := acc
    let val := p.2.1.smul (kOf p.2.2)          -- value.scalar_mul(weight)
    let term := x - Alg.ofK (kOf p.1)          -- x − x_i
    (eval * term + val * prod, prod * term)) init

/-- number of points, intermediates and the wire layout of `CosetInterpolationGate` (D = 2) -/
def cosetNumPoints (bits : Nat) : Nat := 2 ^ bits
def cosetNumIntermediates (bits degree : Nat) : Nat := (cosetNumPoints bits - 2) / (degree - 1)
def cosetStartValues : Nat := 1
def cosetStartEvaluationPoint (bits : Nat) : Nat := cosetStartValues + cosetNumPoints bits * 2
def cosetStartEvaluationValue (bits : Nat) : Nat := cosetStartEvaluationPoint bits + 2
def cosetStartIntermediates (bits : Nat) : Nat := cosetStartEvaluationValue bits + 2
def cosetWiresIntermediateEval (bits i : Nat) : Nat := cosetStartIntermediates bits + 2 * i
def cosetWiresIntermediateProd (bits degree i : Nat) : Nat :=
  cosetStartIntermediates bits + 2 * (cosetNumIntermediates bits degree + i)
def cosetWiresShiftedEvaluationPoint (bits degree : Nat) : Nat :=
  cosetStartIntermediates bits + 2 * 2 * cosetNumIntermediates bits degree
def cosetEnd (bits degree : Nat) : Nat :=
  cosetStartIntermediates bits + 2 * (2 * cosetNumIntermediates bits degree + 1)

/-- `(domain[i], values[i], weights[i])` for `i ∈ [lo, hi)` -/
def cosetTriples (domain : Array Nat) (values : Array (Alg K)) (weights : Array Nat)
    (lo hi : Nat) : List (Nat × Alg K × Nat) :=
  (List.range (hi - lo)).map fun k => (domain[lo + k]!, values[lo + k]!, weights[lo + k]!)

/-- `CosetInterpolationGate::eval_unfiltered` -/
def evalCosetInterpolation (bits degree : Nat) (weights : List Nat) (v : EvalVars K) : List K :=
  let n := cosetNumPoints bits
  let shift := v.w 0
  let evaluationPoint := v.alg (cosetStartEvaluationPoint bits)
  let shifted := v.alg (cosetWiresShiftedEvaluationPoint bits degree)
  let c0 := (evaluationPoint - shifted.smul shift).comps
  let domain := (twoAdicSubgroup bits).toArray
  let values : Array (Alg K) := (Array.range n).map fun i => v.alg (cosetStartValues + 2 * i)
  let ws := weights.toArray
  let first := partialInterpolate (cosetTriples domain values ws 0 degree) shifted (Alg.zero, Alg.one)
  let (cs, last) := (List.range (cosetNumIntermediates bits degree)).foldl
    (fun (acc : List K × (Alg K × Alg K)) i =>
      let (cs, (computedEval, computedProd)) := acc
      let intermediateEval := v.alg (cosetWiresIntermediateEval bits i)
      let intermediateProd := v.alg (cosetWiresIntermediateProd bits degree i)
      let cs := cs ++ (intermediateEval - computedEval).comps ++ (intermediateProd - computedProd).comps
      let startIndex := 1 + (degree - 1) * (i + 1)
      let endIndex := min (startIndex + degree - 1) n
      (cs, partialInterpolate (cosetTriples domain values ws startIndex endIndex) shifted
        (intermediateEval, intermediateProd)))
    (c0, first)
  let evaluationValue := v.alg (cosetStartEvaluationValue bits)
  cs ++ (evaluationValue - last.1).comps

/-! ### exponentiation.rs -/

/-- `ExponentiationGate::eval_unfiltered`: base at 0, power bits (LE) at `1+i`, output at `1+n`,
intermediate values at `2+n+i` -/
def evalExponentiation (n : Nat) (v : EvalVars K) : List K :=
  let base := v.w 0
  let powerBit := fun i => v.w (1 + i)
  let intermediate := fun i => v.w (2 + n + i)
  let output := v.w (1 + n)
  let cs := (List.range n).map fun i =>
    let prev := if i = 0 then FOps.one else intermediate (i - 1) * intermediate (i - 1)
    let curBit := powerBit (n - i - 1)
    let notCurBit := FOps.one - curBit
    prev * (curBit * base + notCurBit) - intermediate i
  cs ++ [output - intermediate (n - 1)]

/-! ### poseidon.rs (gate) over `hash/poseidon.rs` (`*_field` layer functions) -/

def spongeWidth : Nat := Gen.SPONGE_RATE + Gen.SPONGE_CAPACITY
def halfNFullRounds : Nat := Gen.HALF_N_FULL_ROUNDS
def nPartialRounds : Nat := Gen.N_PARTIAL_ROUNDS
def nFullRoundsTotal : Nat := 2 * halfNFullRounds

def allRoundConstants : Array Nat := Gen.ALL_ROUND_CONSTANTS.toArray
def mdsMatrixCirc : Array Nat := Gen.MDS_MATRIX_CIRC.toArray
def mdsMatrixDiag : Array Nat := Gen.MDS_MATRIX_DIAG.toArray
def fastPartialFirstRoundConstant : Array Nat := Gen.FAST_PARTIAL_FIRST_ROUND_CONSTANT.toArray
def fastPartialRoundConstants : Array Nat := Gen.FAST_PARTIAL_ROUND_CONSTANTS.toArray
def fastPartialRoundVs : Array (Array Nat) := (Gen.FAST_PARTIAL_ROUND_VS.map List.toArray).toArray
def fastPartialRoundWHats : Array (Array Nat) := (Gen.FAST_PARTIAL_ROUND_W_HATS.map List.toArray).toArray
def fastPartialRoundInitialMatrix : Array (Array Nat) :=
  (Gen.FAST_PARTIAL_ROUND_INITIAL_MATRIX.map List.toArray).toArray

/-- `sbox_monomial`: x ↦ x⁷ as `x2 = x², x4 = x2², x3 = x·x2, x3·x4` -/
def sboxMonomial (x : K) : K :=
  let x2 := x * x
  let x4 := x2 * x2
  let x3 := x * x2
  x3 * x4

/-- `constant_layer_field(state, round_ctr)` -/
def constantLayer (s : Array K) (roundCtr : Nat) : Array K :=
  s.mapIdx fun i x => x + kOf allRoundConstants[i + spongeWidth * roundCtr]!

/-- `sbox_layer_field` -/
def sboxLayer (s : Array K) : Array K := s.map sboxMonomial

/-- `mds_row_shf_field(r, v)` -/
def mdsRowShf (r : Nat) (v : Array K) : K :=
  let res := (List.range spongeWidth).foldl
    (fun acc i => acc + v[(i + r) % spongeWidth]! * kOf mdsMatrixCirc[i]!) FOps.zero
  res + v[r]! * kOf mdsMatrixDiag[r]!

/-- `mds_layer_field` -/
def mdsLayer (s : Array K) : Array K := (Array.range spongeWidth).map fun r => mdsRowShf r s

/-- `partial_first_constant_layer` -/
def partialFirstConstantLayer (s : Array K) : Array K :=
  s.mapIdx fun i x => x + kOf fastPartialFirstRoundConstant[i]!

/-- `mds_partial_layer_init`: `result[0] = state[0]`,
`result[c] = Σ_{r ≥ 1} state[r] · M[r−1][c−1]` for `c ≥ 1` -/
def mdsPartialLayerInit (s : Array K) : Array K :=
  (Array.range spongeWidth).map fun c =>
    if c = 0 then s[0]! else
      (List.range (spongeWidth - 1)).foldl
        (fun acc r => acc + s[r + 1]! * kOf (fastPartialRoundInitialMatrix[r]!)[c - 1]!) FOps.zero

/-- `mds_partial_layer_fast_field(state, r)` -/
def mdsPartialLayerFast (s : Array K) (r : Nat) : Array K :=
  let s0 := s[0]!
  let mds0to0 := mdsMatrixCirc[0]! + mdsMatrixDiag[0]!
  let d := (List.range (spongeWidth - 1)).foldl
    (fun d i => d + s[i + 1]! * kOf (fastPartialRoundWHats[r]!)[i]!) (s0 * kOf mds0to0)
  (Array.range spongeWidth).map fun i =>
    if i = 0 then d else s0 * kOf (fastPartialRoundVs[r]!)[i - 1]! + s[i]!

/-- wire layout of `PoseidonGate` -/
def posWireInput (i : Nat) : Nat := i
def posWireOutput (i : Nat) : Nat := spongeWidth + i
def posWireSwap : Nat := 2 * spongeWidth
def posStartDelta : Nat := 2 * spongeWidth + 1
def posWireDelta (i : Nat) : Nat := posStartDelta + i
def posStartFull0 : Nat := posStartDelta + 4
def posWireFullSbox0 (round i : Nat) : Nat := posStartFull0 + spongeWidth * (round - 1) + i
def posStartPartial : Nat := posStartFull0 + spongeWidth * (halfNFullRounds - 1)
def posWirePartialSbox (round : Nat) : Nat := posStartPartial + round
def posStartFull1 : Nat := posStartPartial + nPartialRounds
def posWireFullSbox1 (round i : Nat) : Nat := posStartFull1 + spongeWidth * round + i
def posEnd : Nat := posStartFull1 + spongeWidth * halfNFullRounds

/-- the possibly-swapped input layer: `state[i] = in[i] + δ_i`, `state[i+4] = in[i+4] − δ_i`
for `i < 4`, `state[i] = in[i]` for `i ≥ 8` -/
def posSwappedInputs (v : EvalVars K) : Array K :=
  (Array.range spongeWidth).map fun i =>
    if i < 4 then v.w (posWireInput i) + v.w (posWireDelta i)
    else if i < 8 then v.w (posWireInput i) - v.w (posWireDelta (i - 4))
    else v.w (posWireInput i)

/-- one "S-box input is a wire" step: constraints `state[i] − sbox_in[i]`, state replaced -/
def posCheckSboxIn (state : Array K) (cs : Array K) (wire : Nat → K) : Array K × Array K :=
  let sboxIn := (Array.range spongeWidth).map wire
  (sboxIn, (List.range spongeWidth).foldl (fun cs i => cs.push (state[i]! - sboxIn[i]!)) cs)

/-- `PoseidonGate::eval_unfiltered` (the fast partial-round tables, exactly as the gate uses
them) -/
def evalPoseidon (v : EvalVars K) : List K :=
  -- swap is binary; delta_i = swap · (rhs − lhs)
  let swap := v.w posWireSwap
  let cs : Array K := #[swap * (swap - FOps.one)]
  let cs := (List.range 4).foldl (fun cs i =>
    cs.push (swap * (v.w (posWireInput (i + 4)) - v.w (posWireInput i)) - v.w (posWireDelta i))) cs
  let state := posSwappedInputs v
  -- first set of full rounds (round 0's S-box inputs are not wires)
  let (state, cs) := (List.range halfNFullRounds).foldl (fun (acc : Array K × Array K) r =>
    let (state, cs) := acc
    let state := constantLayer state r
    let (state, cs) := if r ≠ 0 then posCheckSboxIn state cs (fun i => v.w (posWireFullSbox0 r i))
                       else (state, cs)
    (mdsLayer (sboxLayer state), cs)) (state, cs)
  -- partial rounds
  let state := mdsPartialLayerInit (partialFirstConstantLayer state)
  let (state, cs) := (List.range (nPartialRounds - 1)).foldl (fun (acc : Array K × Array K) r =>
    let (state, cs) := acc
    let sboxIn := v.w (posWirePartialSbox r)
    let cs := cs.push (state[0]! - sboxIn)
    let s0 := sboxMonomial sboxIn + kOf fastPartialRoundConstants[r]!
    (mdsPartialLayerFast (state.set! 0 s0) r, cs)) (state, cs)
  let sboxIn := v.w (posWirePartialSbox (nPartialRounds - 1))
  let cs := cs.push (state[0]! - sboxIn)
  let state := mdsPartialLayerFast (state.set! 0 (sboxMonomial sboxIn)) (nPartialRounds - 1)
  -- second set of full rounds
  let roundCtr := halfNFullRounds + nPartialRounds
  let (state, cs) := (List.range halfNFullRounds).foldl (fun (acc : Array K × Array K) r =>
    let (state, cs) := acc
    let state := constantLayer state (roundCtr + r)
    let (state, cs) := posCheckSboxIn state cs (fun i => v.w (posWireFullSbox1 r i))
    (mdsLayer (sboxLayer state), cs)) (state, cs)
  let cs := (List.range spongeWidth).foldl (fun cs i => cs.push (state[i]! - v.w (posWireOutput i))) cs
  cs.toList

/-! ### poseidon_mds.rs -/

/-- `mds_row_shf_algebra` -/
def mdsRowShfAlg (r : Nat) (v : Array (Alg K)) : Alg K :=
  let res := (List.range spongeWidth).foldl
    (fun acc i => acc + (v[(i + r) % spongeWidth]!).smul (kOf mdsMatrixCirc[i]!)) Alg.zero
  res + (v[r]!).smul (kOf mdsMatrixDiag[r]!)

/-- `PoseidonMdsGate::eval_unfiltered`: inputs at `2i`, outputs at `2(12+i)`;
`out − mds_layer_algebra(inputs)` componentwise -/
def evalPoseidonMds (v : EvalVars K) : List K :=
  let inputs : Array (Alg K) := (Array.range spongeWidth).map fun i => v.alg (2 * i)
  (List.range spongeWidth).flatMap fun i =>
    (v.alg (2 * (spongeWidth + i)) - mdsRowShfAlg i inputs).comps

/-! ### public_input.rs -/

/-- `PublicInputGate::eval_unfiltered`: `wires[i] − public_inputs_hash[i]`, `i < 4` -/
def evalPublicInput (v : EvalVars K) : List K :=
  (List.range 4).map fun i => v.w i - v.pih[i]!

/-! ### random_access.rs -/

def raVecSize (bits : Nat) : Nat := 2 ^ bits
def raWireAccessIndex (bits copy : Nat) : Nat := (2 + raVecSize bits) * copy
def raWireClaimedElement (bits copy : Nat) : Nat := (2 + raVecSize bits) * copy + 1
def raWireListItem (bits i copy : Nat) : Nat := (2 + raVecSize bits) * copy + 2 + i
def raStartExtraConstants (bits numCopies : Nat) : Nat := (2 + raVecSize bits) * numCopies
def raWireExtraConstant (bits numCopies i : Nat) : Nat := raStartExtraConstants bits numCopies + i
def raNumRoutedWires (bits numCopies numExtra : Nat) : Nat :=
  raStartExtraConstants bits numCopies + numExtra
def raWireBit (bits numCopies numExtra i copy : Nat) : Nat :=
  raNumRoutedWires bits numCopies numExtra + copy * bits + i

/-- `.tuples().map(|(x, y)| x + b·(y − x))`: fold adjacent pairs (a trailing odd element is
dropped, as `tuples` does) -/
def raFoldPairs (b : K) : List K → List K
  | x :: y :: rest => (x + b * (y - x)) :: raFoldPairs b rest
  | _ => []

/-- `RandomAccessGate::eval_unfiltered` -/
def evalRandomAccess (bits numCopies numExtra : Nat) (v : EvalVars K) : List K :=
  let perCopy := (List.range numCopies).flatMap fun copy =>
    let accessIndex := v.w (raWireAccessIndex bits copy)
    let listItems := (List.range (raVecSize bits)).map fun i => v.w (raWireListItem bits i copy)
    let claimed := v.w (raWireClaimedElement bits copy)
    let bs := (List.range bits).map fun i => v.w (raWireBit bits numCopies numExtra i copy)
    let boolean := bs.map fun b => b * (b - FOps.one)
    let reconstructed := bs.reverse.foldl (fun acc b => (acc + acc) + b) FOps.zero
    let folded := bs.foldl (fun items b => raFoldPairs b items) listItems
    boolean ++ [reconstructed - accessIndex] ++ [folded.headD default - claimed]
  perCopy ++ (List.range numExtra).map fun i => v.c i - v.w (raWireExtraConstant bits numCopies i)

/-! ### reducing.rs -/

/-- `ReducingGate::wires_accs(i)`: the last accumulator is the output (wires 0..2) -/
def redWiresAccs (n i : Nat) : Nat := if i = n - 1 then 0 else (6 + n) + 2 * i

/-- `ReducingGate::eval_unfiltered`: output 0..2, alpha 2..4, old_acc 4..6, coeffs `6+i`
(base-field wires), accumulators after;  `acc·alpha + coeff − accs[i]` -/
def evalReducing (n : Nat) (v : EvalVars K) : List K :=
  let alpha := v.alg 2
  let oldAcc := v.alg 4
  ((List.range n).foldl (fun (st : Alg K × List K) i =>
    let accI := v.alg (redWiresAccs n i)
    (accI, st.2 ++ (st.1 * alpha + Alg.ofK (v.w (6 + i)) - accI).comps)) (oldAcc, [])).2

/-! ### reducing_extension.rs -/

/-- `ReducingExtensionGate::wires_accs(i)` -/
def redExtWiresAccs (n i : Nat) : Nat := if i = n - 1 then 0 else (6 + 2 * n) + 2 * i

/-- `ReducingExtensionGate::eval_unfiltered`: coefficients are algebra wires at `6+2i` -/
def evalReducingExt (n : Nat) (v : EvalVars K) : List K :=
  let alpha := v.alg 2
  let oldAcc := v.alg 4
  ((List.range n).foldl (fun (st : Alg K × List K) i =>
    let accI := v.alg (redExtWiresAccs n i)
    (accI, st.2 ++ (st.1 * alpha + v.alg (6 + 2 * i) - accI).comps)) (oldAcc, [])).2

/-! ## dispatch -/

/-- `Gate::eval_unfiltered` (= `eval_unfiltered_base_*` at `K = GL`) -/
def GateKind.evalUnfiltered (g : GateKind) (v : EvalVars K) : List K :=
  match g with
  | .arithmetic n => evalArithmetic n v
  | .arithmeticExt n => evalArithmeticExt n v
  | .mulExt n => evalMulExt n v
  | .baseSum b n => evalBaseSum b n v
  | .constant n => evalConstant n v
  | .cosetInterpolation bits d ws => evalCosetInterpolation bits d ws v
  | .exponentiation n => evalExponentiation n v
  | .lookup _ => []          -- `LookupGate`: "No main trace constraints for lookups."
  | .lookupTable _ => []     -- `LookupTableGate`: same
  | .noop => []
  | .poseidon => evalPoseidon v
  | .poseidonMds => evalPoseidonMds v
  | .publicInput => evalPublicInput v
  | .randomAccess bits copies extra => evalRandomAccess bits copies extra v
  | .reducing n => evalReducing n v
  | .reducingExt n => evalReducingExt n v

end Eval

/-! ## declared shape: `num_constraints`, `degree`, `num_wires`, `num_constants` -/

/-- `Gate::num_constraints` -/
def GateKind.numConstraints : GateKind → Nat
  | .arithmetic n => n
  | .arithmeticExt n => n * 2
  | .mulExt n => n * 2
  | .baseSum _ n => 1 + n
  | .constant n => n
  | .cosetInterpolation bits d _ => 2 + 2 + 2 * 2 * cosetNumIntermediates bits d
  | .exponentiation n => n + 1
  | .lookup _ => 0
  | .lookupTable _ => 0
  | .noop => 0
  | .poseidon => spongeWidth * (nFullRoundsTotal - 1) + nPartialRounds + spongeWidth + 1 + 4
  | .poseidonMds => spongeWidth * 2
  | .publicInput => 4
  | .randomAccess bits copies extra => copies * (bits + 2) + extra
  | .reducing n => 2 * n
  | .reducingExt n => 2 * n

/-- `Gate::degree` -/
def GateKind.degree : GateKind → Nat
  | .arithmetic _ => 3
  | .arithmeticExt _ => 3
  | .mulExt _ => 3
  | .baseSum b _ => b
  | .constant _ => 1
  | .cosetInterpolation _ d _ => d
  | .exponentiation _ => 4
  | .lookup _ => 0
  | .lookupTable _ => 0
  | .noop => 0
  | .poseidon => 7
  | .poseidonMds => 1
  | .publicInput => 1
  | .randomAccess bits _ _ => bits + 1
  | .reducing _ => 2
  | .reducingExt _ => 2

/-- `Gate::num_wires`.  `RandomAccessGate::num_wires` is `wire_bit(bits − 1, num_copies − 1) + 1`
in `usize` arithmetic; with wrapping subtraction (release builds) that is
`num_routed_wires + num_copies · bits` for ALL parameters, which is what is modelled here; with
overflow checks it panics when `bits = 0` or `num_copies = 0` (see `numWiresChecked`).
`ExponentiationGate::num_wires` is `wire_intermediate_value(n − 1) + 1 = 2 + n + (n − 1) + 1`,
likewise `2 + 2n` with wrapping arithmetic and a panic for `n = 0` with overflow checks. -/
def GateKind.numWires : GateKind → Nat
  | .arithmetic n => n * 4
  | .arithmeticExt n => n * 4 * 2
  | .mulExt n => n * 3 * 2
  | .baseSum _ n => 1 + n
  | .constant n => n
  | .cosetInterpolation bits d _ => cosetEnd bits d
  | .exponentiation n => 2 + 2 * n
  | .lookup n => n * 2
  | .lookupTable n => n * 3
  | .noop => 0
  | .poseidon => posEnd
  | .poseidonMds => 2 * 2 * spongeWidth
  | .publicInput => 4
  | .randomAccess bits copies extra => raNumRoutedWires bits copies extra + copies * bits
  | .reducing n => 2 * 2 + n * (2 + 1)
  | .reducingExt n => 2 * 2 + 2 * 2 * n

/-- `num_wires` under overflow checks: `none` where the `usize` subtraction underflows -/
def GateKind.numWiresChecked (g : GateKind) : Option Nat :=
  match g with
  | .randomAccess bits copies _ => if bits = 0 ∨ copies = 0 then none else some g.numWires
  | .exponentiation n => if n = 0 then none else some g.numWires
  | _ => some g.numWires

/-- `Gate::num_constants` -/
def GateKind.numConstants : GateKind → Nat
  | .arithmetic _ => 2
  | .arithmeticExt _ => 2
  | .mulExt _ => 1
  | .constant n => n
  | .randomAccess _ _ extra => extra
  | _ => 0

/-! ## witness generators (`Gate::generators`, `SimpleGenerator::run_once`) over `GL` -/

/-- write an algebra value to wires `i, i+1` (`set_extension_target` / `set_ext_wires`) -/
def setAlg (ws : Array GL) (i : Nat) (x : Alg GL) : Array GL := (ws.set! i x.1).set! (i + 1) x.2
def getAlg (ws : Array GL) (i : Nat) : Alg GL := (ws[i]!, ws[i + 1]!)

/-- `PoseidonGenerator::run_once` -/
def genPoseidon (ws : Array GL) : Array GL :=
  let inputs : Array GL := (Array.range spongeWidth).map fun i => ws[posWireInput i]!
  let swap := ws[posWireSwap]!
  let ws := (List.range 4).foldl (fun ws i =>
    ws.set! (posWireDelta i) (swap * (inputs[i + 4]! - inputs[i]!))) ws
  let state : Array GL :=
    if swap = 1 then (Array.range spongeWidth).map fun i =>
      if i < 4 then inputs[i + 4]! else if i < 8 then inputs[i - 4]! else inputs[i]!
    else inputs
  let setRow (ws : Array GL) (wire : Nat → Nat) (state : Array GL) : Array GL :=
    (List.range spongeWidth).foldl (fun ws i => ws.set! (wire i) state[i]!) ws
  let (state, ws) := (List.range halfNFullRounds).foldl (fun (acc : Array GL × Array GL) r =>
    let (state, ws) := acc
    let state := constantLayer state r
    let ws := if r ≠ 0 then setRow ws (posWireFullSbox0 r) state else ws
    (mdsLayer (sboxLayer state), ws)) (state, ws)
  let state := mdsPartialLayerInit (partialFirstConstantLayer state)
  let (state, ws) := (List.range (nPartialRounds - 1)).foldl (fun (acc : Array GL × Array GL) r =>
    let (state, ws) := acc
    let ws := ws.set! (posWirePartialSbox r) state[0]!
    let s0 := sboxMonomial state[0]! + kOf fastPartialRoundConstants[r]!
    (mdsPartialLayerFast (state.set! 0 s0) r, ws)) (state, ws)
  let ws := ws.set! (posWirePartialSbox (nPartialRounds - 1)) state[0]!
  let state := mdsPartialLayerFast (state.set! 0 (sboxMonomial state[0]!)) (nPartialRounds - 1)
  let roundCtr := halfNFullRounds + nPartialRounds
  let (state, ws) := (List.range halfNFullRounds).foldl (fun (acc : Array GL × Array GL) r =>
    let (state, ws) := acc
    let state := constantLayer state (roundCtr + r)
    let ws := setRow ws (posWireFullSbox1 r) state
    (mdsLayer (sboxLayer state), ws)) (state, ws)
  setRow ws posWireOutput state

/-- `InterpolationGenerator::run_once` (`shift.inverse()` panics on 0 in Rust; here `inv 0 = 0`) -/
def genCosetInterpolation (bits degree : Nat) (weights : List Nat) (ws : Array GL) : Array GL :=
  let n := cosetNumPoints bits
  let evaluationPoint := getAlg ws (cosetStartEvaluationPoint bits)
  let shift := ws[0]!
  let shifted := evaluationPoint.smul (FOps.inv shift)
  let ws := setAlg ws (cosetWiresShiftedEvaluationPoint bits degree) shifted
  let domain := (twoAdicSubgroup bits).toArray
  let values : Array (Alg GL) := (Array.range n).map fun i => getAlg ws (cosetStartValues + 2 * i)
  let wts := weights.toArray
  let first := partialInterpolate (cosetTriples domain values wts 0 degree) shifted (Alg.zero, Alg.one)
  let (ws, last) := (List.range (cosetNumIntermediates bits degree)).foldl
    (fun (acc : Array GL × (Alg GL × Alg GL)) i =>
      let (ws, (computedEval, computedProd)) := acc
      let ws := setAlg ws (cosetWiresIntermediateEval bits i) computedEval
      let ws := setAlg ws (cosetWiresIntermediateProd bits degree i) computedProd
      let startIndex := 1 + (degree - 1) * (i + 1)
      let endIndex := min (startIndex + degree - 1) n
      (ws, partialInterpolate (cosetTriples domain values wts startIndex endIndex) shifted
        (computedEval, computedProd)))
    (ws, first)
  setAlg ws (cosetStartEvaluationValue bits) last.1

/-- the row after running the gate's generators on it: the input wires are read from `wires`,
the generator-written wires are overwritten.  Gates without generators (`ConstantGate`,
`PublicInputGate`, `NoopGate`) and the lookup gates (whose generators depend on the table, not
on the row's constraints) return the row unchanged. -/
def GateKind.generate (g : GateKind) (consts : Array GL) (wires : Array GL) : Array GL :=
  let ws := wires ++ Array.replicate (g.numWires - wires.size) 0
  match g with
  | .arithmetic n =>
    -- `ArithmeticBaseGenerator::run_once`
    (List.range n).foldl (fun ws i =>
      ws.set! (4 * i + 3) (ws[4 * i]! * ws[4 * i + 1]! * consts[0]! + ws[4 * i + 2]! * consts[1]!)) ws
  | .arithmeticExt n =>
    -- `ArithmeticExtensionGenerator::run_once`
    (List.range n).foldl (fun ws i =>
      let m0 := getAlg ws (8 * i); let m1 := getAlg ws (8 * i + 2); let addend := getAlg ws (8 * i + 4)
      setAlg ws (8 * i + 6) ((m0 * m1).smul consts[0]! + addend.smul consts[1]!)) ws
  | .mulExt n =>
    -- `MulExtensionGenerator::run_once`
    (List.range n).foldl (fun ws i =>
      setAlg ws (6 * i + 4) ((getAlg ws (6 * i) * getAlg ws (6 * i + 2)).smul consts[0]!)) ws
  | .baseSum b n =>
    -- `BaseSplitGenerator::run_once`: little-endian base-B digits of the canonical sum
    let sum := (ws[0]!).val
    (List.range n).foldl (fun ws i => ws.set! (1 + i) (GL.ofNat ((sum / b ^ i) % b))) ws
  | .exponentiation n =>
    -- `ExponentiationGenerator::run_once`
    let base := ws[0]!
    let (ws, _) := (List.range n).foldl (fun (acc : Array GL × GL) i =>
      let (ws, cur) := acc
      let cur := if ws[1 + (n - i - 1)]! = 1 then cur * base else cur
      (ws.set! (2 + n + i) cur, cur * cur)) (ws, (1 : GL))
    ws.set! (1 + n) ws[2 + n + (n - 1)]!
  | .randomAccess bits copies extra =>
    -- `RandomAccessGenerator::run_once`
    (List.range copies).foldl (fun ws copy =>
      let accessIndex := (ws[raWireAccessIndex bits copy]!).val
      let ws := ws.set! (raWireClaimedElement bits copy) ws[raWireListItem bits accessIndex copy]!
      (List.range bits).foldl (fun ws i =>
        ws.set! (raWireBit bits copies extra i copy) (GL.ofNat ((accessIndex / 2 ^ i) % 2))) ws) ws
  | .reducing n =>
    -- `ReducingGenerator::run_once` (reducing.rs)
    let alpha := getAlg ws 2
    ((List.range n).foldl (fun (st : Alg GL × Array GL) i =>
      let computed := st.1 * alpha + Alg.ofK ws[6 + i]!
      (computed, setAlg st.2 (redWiresAccs n i) computed)) (getAlg ws 4, ws)).2
  | .reducingExt n =>
    -- `ReducingGenerator::run_once` (reducing_extension.rs)
    let alpha := getAlg ws 2
    ((List.range n).foldl (fun (st : Alg GL × Array GL) i =>
      let computed := st.1 * alpha + getAlg ws (6 + 2 * i)
      (computed, setAlg st.2 (redExtWiresAccs n i) computed)) (getAlg ws 4, ws)).2
  | .poseidon => genPoseidon ws
  | .poseidonMds =>
    -- `PoseidonMdsGenerator::run_once`
    let inputs : Array (Alg GL) := (Array.range spongeWidth).map fun i => getAlg ws (2 * i)
    (List.range spongeWidth).foldl (fun ws i =>
      setAlg ws (2 * (spongeWidth + i)) (mdsRowShfAlg i inputs)) ws
  | .cosetInterpolation bits d wts => genCosetInterpolation bits d wts ws
  | _ => ws

/-- the columns written by the gate's generators (`out_buffer.set_*` in the `run_once`s above),
in increasing order: exactly the values C07 says are pinned by the gate's constraints.
The lookup gates' generators also write columns (`LookupGate`: the looked-up outputs,
`LookupTableGate`: the table entries) but those gates have NO constraints of their own — their
values are pinned by the lookup argument, not by `eval_unfiltered` — so they are not listed. -/
def GateKind.generatedWires : GateKind → List Nat
  | .arithmetic n => (List.range n).map fun i => 4 * i + 3
  | .arithmeticExt n => (List.range n).flatMap fun i => [8 * i + 6, 8 * i + 7]
  | .mulExt n => (List.range n).flatMap fun i => [6 * i + 4, 6 * i + 5]
  | .baseSum _ n => (List.range n).map fun i => 1 + i
  | .cosetInterpolation bits d _ =>
    -- evaluation value, intermediate evals, intermediate prods, shifted evaluation point
    let ni := cosetNumIntermediates bits d
    (List.range (2 + 2 * (2 * ni + 1))).map fun k => cosetStartEvaluationValue bits + k
  | .exponentiation n => (List.range (n + 1)).map fun i => 1 + n + i
  | .poseidon => (List.range spongeWidth).map posWireOutput ++
      (List.range (posEnd - posStartDelta)).map fun k => posStartDelta + k
  | .poseidonMds => (List.range (2 * spongeWidth)).map fun k => 2 * spongeWidth + k
  | .randomAccess bits copies extra =>
    (List.range copies).map (raWireClaimedElement bits) ++
      (List.range (copies * bits)).map fun k => raNumRoutedWires bits copies extra + k
  | .reducing n => if n = 0 then [] else
      [0, 1] ++ (List.range (2 * (n - 1))).map fun k => 6 + n + k
  | .reducingExt n => if n = 0 then [] else
      [0, 1] ++ (List.range (2 * (n - 1))).map fun k => 6 + 2 * n + k
  | _ => []

end P2.Gates
