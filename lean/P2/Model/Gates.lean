/-
L4: gates (interface stub — replaced by the full transcription of plonky2/src/gates/*.rs).
-/
import P2.Model.Fp
import P2.Model.GL2
namespace P2.Gates
open P2

inductive GateKind where
  | arithmetic (numOps : Nat) | arithmeticExt (numOps : Nat) | mulExt (numOps : Nat)
  | baseSum (base numLimbs : Nat) | constant (numConsts : Nat)
  | cosetInterpolation (subgroupBits degree : Nat) (barycentricWeights : List Nat)
  | exponentiation (numPowerBits : Nat)
  | lookup (numSlots : Nat) | lookupTable (numSlots : Nat)
  | noop | poseidon | poseidonMds | publicInput
  | randomAccess (bits numCopies numExtraConstants : Nat)
  | reducing (numCoeffs : Nat) | reducingExt (numCoeffs : Nat)
deriving Repr, Inhabited

structure EvalVars (K : Type) where
  constants : Array K
  wires : Array K
  pih : Array K

variable {K : Type} [FOps K] [Inhabited K]

def GateKind.evalUnfiltered (g : GateKind) (v : EvalVars K) : List K :=
  match g with
  | .arithmetic n => (List.range n).map fun i =>
      v.wires[4 * i + 3]! - (v.wires[4 * i]! * v.wires[4 * i + 1]! * v.constants[0]! + v.wires[4 * i + 2]! * v.constants[1]!)
  | .constant n => (List.range n).map fun i => v.constants[i]! - v.wires[i]!
  | .publicInput => (List.range 4).map fun i => v.wires[i]! - v.pih[i]!
  | .noop => []
  | _ => []

end P2.Gates
