/-
L5: the variable-degree gadgets of the in-circuit STARK verifier
(`starky/src/recursive_verifier.rs::verify_stark_proof_with_challenges_circuit`,
`starky/src/vanishing_poly.rs::compute_eval_vanishing_poly_circuit`,
`plonky2/src/fri/recursive_verifier.rs::fri_verifier_query_round_with_multiple_degree_bits`,
`plonky2/src/hash/merkle_proofs.rs::verify_merkle_proof_to_cap_with_cap_indices`,
`plonky2/src/fri/witness_util.rs::set_fri_proof_target`) as small pure functions: what the emitted
constraints force the output targets to be, given the values of the input targets (`none` = the
constraints are unsatisfiable, i.e. the circuit rejects).
-/
import P2.Model.CircuitVerifier
namespace P2.StarkCircuit
open P2 P2.Merkle P2.CircuitVerifier

variable {K : Type}

/-! ### (i) `degree = 2^degree_bits` from the `degree_bits` target -/

/-- `split_le(x, n)`: the `BaseSum<2>` limbs are constrained to `{0,1}` and their weighted sum is
connected to `x`. For `2^n ≤ p` this is satisfiable iff `x < 2^n`, and then the limbs are the
little-endian bits of `x`. -/
def splitLe (x n : Nat) : Option (List Bool) :=
  if x < 2 ^ n then some (lowBits n x) else none

/-- `exp_from_bits` = one `ExponentiationGate`: "power_bits is in LE order, but we accumulate in BE
order": from the most significant bit down `acc ← acc² · (bit·base + (1 − bit))`, starting from 1 -/
def expFromBits [Mul K] (one base : K) (bitsLE : List Bool) : K :=
  bitsLE.reverse.foldl (fun acc b => acc * acc * (if b then base else one)) one

/-- `builder.exp(base, exponent, num_bits)`: `split_le(exponent, num_bits)`, then `exp_from_bits` -/
def expGadget [Mul K] (one base : K) (exponent numBits : Nat) : Option K :=
  (splitLe exponent numBits).map (expFromBits one base)

/-- `let degree = builder.exp(two, proof.degree_bits, width)` — over the integers: every value is
below `2^64 − 2^32 + 1` for `degree_bits ≤ 63`, so no reduction takes place. The code passes
`width = max_num_of_bits_in_degree = degree_bits(circuit) + 1`. -/
def degreeGadget (width degreeBits : Nat) : Option Nat := expGadget 1 2 degreeBits width

/-- `let degree_bits_vec = builder.split_le(degree, max_num_of_bits_in_degree)` with
`max_num_of_bits_in_degree = maxBits + 1` -/
def degreeBitsVec (width maxBits degreeBits : Nat) : Option (List Bool) :=
  (degreeGadget width degreeBits).bind fun deg => splitLe deg (maxBits + 1)

/-- `exp_extension_from_bits(base, bits)`: from the least significant bit up,
`res ← bit ? res·base : res; base ← base²` -/
def expExtFromBits [Mul K] : K → List Bool → K → K
  | _, [], res => res
  | base, b :: bs, res => expExtFromBits (base * base) bs (if b then res * base else res)

/-- `zeta_pow_deg = exp_extension_from_bits(zeta, degree_bits_vec)` -/
def zetaPowDeg [Mul K] (one zeta : K) (width maxBits degreeBits : Nat) : Option K :=
  (degreeBitsVec width maxBits degreeBits).map fun bits => expExtFromBits zeta bits one

/-- native `exp_power_of_2(d)`: `d` squarings -/
def expPowerOf2 [Mul K] : K → Nat → K
  | x, 0 => x
  | x, d + 1 => expPowerOf2 (x * x) d

/-- `plonky2_util::log2_ceil` (the width seeded change C11-m1 uses): bits of `n − 1` -/
def log2Ceil (n : Nat) : Nat := if n ≤ 1 then 0 else Nat.log2 (n - 1) + 1

/-! ### (ii) recombining the quotient chunks; (iv) evaluating a zero-padded final polynomial -/

/-- `ReducingFactorTarget::reduce(terms)`: the terms — followed by `pad` zeros filling up the last
`ReducingExtensionGate` (`pad = 0` on the `reduce_arithmetic` path) — are reversed and folded with
`acc ← α·acc + term` from zero -/
def reducingReduce [Add K] [Mul K] (zero alpha : K) (terms : List K) (pad : Nat) : K :=
  (terms ++ List.replicate pad zero).reverse.foldl (fun acc t => alpha * acc + t) zero

/-- the identity check on one chunk of quotient openings, in the circuit:
`connect_extension(vanishing_polys_zeta[i], z_h_zeta · scale.reduce(chunk))` -/
def quotientCheckCircuit [FOps K] (vanishing zH zetaPow : K) (chunk : List K) : Bool :=
  vanishing == zH * reducingReduce FOps.zero zetaPow chunk 0

/-- … and natively: `vanishing_polys_zeta[i] == z_h_zeta * reduce_with_powers(chunk, zeta_pow_deg)` -/
def quotientCheckNative [FOps K] (vanishing zH zetaPow : K) (chunk : List K) : Bool :=
  vanishing == zH * FOps.reduceWithPowers chunk zetaPow

/-- seeded change C11-m2: `chunk[1..].fold(chunk[0], |acc, t| mul_add(acc, zeta_pow_deg, t))` -/
def seededM2Reduce [Add K] [Mul K] (alpha : K) : List K → Option K
  | [] => none
  | c0 :: rest => some (rest.foldl (fun acc t => acc * alpha + t) c0)

/-- `set_fri_proof_target`: "Set remaining elements in target to ZERO if target is longer", then
`final_poly.eval_scalar(subgroup_x)` = `ReducingFactorTarget::new(x).reduce(coeffs)` -/
def paddedFinalPolyEval [Add K] [Mul K] (zero x : K) (coeffs : List K) (targetLen pad : Nat) : K :=
  reducingReduce zero x (coeffs ++ List.replicate (targetLen - coeffs.length) zero) pad

/-! ### (iii) conditional Merkle verification of a path whose length is selected by the degree -/

variable {L D : Type}

/-- one layer: `permute_swapped(state ‖ sibling, bit)` -/
def layer (h : Hasher L D) (st : D) (bs : Bool × D) : D :=
  if bs.1 then h.two bs.2 st else h.two st bs.2

/-- `final_states` of `verify_merkle_proof_to_cap_with_cap_indices`: a window of `num` states,
all the leaf hash at first; after each layer every entry moves one place down and the new state
enters at the top -/
def windowStates (h : Hasher L D) (leaf : L) (bits : List Bool) (proof : List D) (num : Nat) : List D :=
  ((bits.zip proof).foldl (fun (sw : D × List D) bs =>
      let s := layer h sw.1 bs
      (s, sw.2.drop 1 ++ [s])) (h.hashLeaf leaf, List.replicate num (h.hashLeaf leaf))).2

/-- what the gadget asserts: `condition = 1` forces
`random_access(cap_index, cap) = random_access(n_index, final_states)` (both random accesses force
their index into range whatever the condition) -/
def condMerkleHolds [DecidableEq D] (h : Hasher L D) (condition : Bool) (leaf : L) (bits : List Bool)
    (num nIndex capIndex : Nat) (cap : List D) (proof : List D) : Bool :=
  match cap[capIndex]?, (windowStates h leaf bits proof num)[nIndex]? with
  | some c, some s => !condition || c == s
  | _, _ => false

/-! ### (v) skipped FRI steps -/

/-- `degree_sub_one_bits_vec = split_le(degree − 1, maxBits)` -/
def degreeSubOneBits (maxBits degreeBits : Nat) : Option (List Bool) := splitLe (2 ^ degreeBits - 1) maxBits

/-- `step_active` of step `j` in `fri_verifier_query_round_with_multiple_degree_bits`: bit
`index_in_degree_sub_one_bits_vec = (maxBits − Σ arities) + j·a` of `degree − 1`, where the circuit's
own schedule (for `maxBits`) leaves `maxBits − Σ arities = finalBits` -/
def stepActive (bitsVec : List Bool) (finalBits a j : Nat) : Bool := bitsVec.getD (finalBits + j * a) false

end P2.StarkCircuit
