/-
L5: denotations of the gadgets the recursive verifier is assembled from
(`hash/merkle_proofs.rs::verify_merkle_proof_to_cap_with_cap_index`,
`gadgets/split_base.rs::assert_leading_zeros`, `gadgets/select.rs::select`): what the emitted
constraints say about the values assigned to the targets.
-/
import P2.Model.Merkle
import P2.Model.Fri
namespace P2.CircuitVerifier
open P2 P2.Merkle

variable {L D : Type}

/-- the state after hashing up the path: one `permute_swapped(state ‖ sibling, bit)` per layer —
with `bit = 1` the inputs are swapped, i.e. `two sibling state` -/
def circuitPathState (h : Hasher L D) (leaf : L) (bits : List Bool) (proof : List D) : D :=
  (bits.zip proof).foldl (fun st (bs : Bool × D) => if bs.1 then h.two bs.2 st else h.two st bs.2)
    (h.hashLeaf leaf)

/-- what `verify_merkle_proof_to_cap_with_cap_index` asserts: random access into the cap at
`capIndex` (which forces `capIndex < cap.length`) returns the hashed-up state -/
def circuitMerkleHolds [DecidableEq D] (h : Hasher L D) (leaf : L) (bits : List Bool)
    (capIndex : Nat) (cap : List D) (proof : List D) : Bool :=
  cap[capIndex]? == some (circuitPathState h leaf bits proof)

/-- little-endian bits of `i`, `n` of them -/
def lowBits : Nat → Nat → List Bool
  | 0, _ => []
  | n + 1, i => (i % 2 == 1) :: lowBits n (i / 2)

/-- `assert_leading_zeros(x, k)` is `range_check(x, 64 − k)`: `x < 2^(64 − k)` -/
def assertLeadingZeros (x : GL) (k : Nat) : Bool := x.val < 2 ^ (64 - k)

/-- `select(b, x, y)` for a boolean target `b` -/
def select {α} (b : Bool) (x y : α) : α := if b then x else y

end P2.CircuitVerifier

/-! ### cyclic recursion: verifier data embedded in the public inputs
(`recursion/cyclic_recursion.rs`: `VerifierOnlyCircuitData::from_slice`,
`check_cyclic_proof_verifier_data`) -/
namespace P2.CircuitVerifier
open P2

/-- `from_slice`: the public inputs end with `circuit_digest (4) ‖ constants_sigmas_cap (4·capLen)` -/
def vdFromSlice (pis : List GL) (capLen : Nat) : Option (List GL × List GL) :=
  if pis.length < 4 + 4 * capLen then none else
  let tail := pis.drop (pis.length - (4 + 4 * capLen))
  some (tail.take 4, tail.drop 4)

/-- `check_cyclic_proof_verifier_data`: `true` iff the embedded data equal the circuit's -/
def checkCyclicVd (pis : List GL) (capLen : Nat) (digest cap : List GL) : Bool :=
  match vdFromSlice pis capLen with
  | none => false
  | some (d, c) => d == digest && c == cap

end P2.CircuitVerifier
