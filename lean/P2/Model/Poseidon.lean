/-
L2: the textbook Poseidon permutation over Goldilocks (width 12, 8 full + 22 partial rounds,
S-box x^7, MDS = circulant + diagonal), with the constants extracted from /repo on this run.
This is the *specification*: round by round, dense matrix, no optimisation.
-/
import P2.Model.Fp
import P2.Gen.Poseidon
namespace P2.Poseidon
open P2

abbrev State := Array GL

def width : Nat := Gen.SPONGE_RATE + Gen.SPONGE_CAPACITY
def nFullHalf : Nat := Gen.HALF_N_FULL_ROUNDS
def nPartial : Nat := Gen.N_PARTIAL_ROUNDS

def roundConstants : Array GL := (Gen.ALL_ROUND_CONSTANTS.map GL.ofNat).toArray
def mdsCirc : Array GL := (Gen.MDS_MATRIX_CIRC.map GL.ofNat).toArray
def mdsDiag : Array GL := (Gen.MDS_MATRIX_DIAG.map GL.ofNat).toArray

/-- entry `(r, c)` of the MDS matrix: `circ[(c − r) mod 12] + (r = c ? diag[r] : 0)` -/
def mdsEntry (r c : Nat) : GL :=
  mdsCirc[(c + width - r) % width]! + (if r = c then mdsDiag[r]! else 0)

def constantLayer (s : State) (round : Nat) : State :=
  (Array.range width).map fun i => s[i]! + roundConstants[i + width * round]!

def sbox (x : GL) : GL :=
  let x2 := x * x
  let x4 := x2 * x2
  let x3 := x * x2
  x3 * x4

def sboxLayer (s : State) : State := s.map sbox

def mdsLayer (s : State) : State :=
  (Array.range width).map fun r =>
    (List.range width).foldl (fun acc c => acc + mdsEntry r c * s[c]!) 0

def fullRound (s : State) (round : Nat) : State := mdsLayer (sboxLayer (constantLayer s round))

def partialRound (s : State) (round : Nat) : State :=
  let t := constantLayer s round
  mdsLayer (t.set! 0 (sbox t[0]!))

/-- the permutation: 4 full, 22 partial, 4 full rounds -/
def permute (input : State) : State :=
  let s1 := (List.range nFullHalf).foldl (fun s i => fullRound s i) input
  let s2 := (List.range nPartial).foldl (fun s i => partialRound s (nFullHalf + i)) s1
  (List.range nFullHalf).foldl (fun s i => fullRound s (nFullHalf + nPartial + i)) s2

end P2.Poseidon
