/-
L4b: batch FRI as in `plonky2/src/batch_fri/verifier.rs`: one FRI proof for several instances whose
polynomials have different (strictly decreasing) degrees. The instances share the initial oracles
(`BatchMerkleTree`: one leaf row per degree group, the smaller groups hashed in on the way up:
`verify_batch_merkle_proof_to_cap` of `hash/merkle_proofs.rs`), the combined value of a smaller group
is mixed into the folded value when the reduction reaches the size of its domain.

Everything that the Rust code shares with the single-degree verifier is reused from `P2.Model.Fri`
(`combineInitial`, `computeEvaluation`, `reduceExt`, `powOk`, `firstBad`, `verifyToCap`).

`usize` subtractions that can underflow (`current_height -= 1`, `n -= arity_bits`,
`codeword_len_bits -= arity_bits`) are PANIC outcomes here, as in `P2.Model.Fri` (debug semantics; a
release build wraps and goes on with a meaningless value). The correspondence harness does not
generate inputs on which they underflow.
-/
import P2.Model.Fri
namespace P2.BatchFri
open P2 P2.Fri P2.Merkle

/-! ### shape validation -/

/-- the `leaf_len[i] += oracle.num_polys + salt_size(oracle.blinding && params.hiding)` loop of
`validate_batch_fri_proof_shape` over the instances; `none` = an instance whose number of oracles is
not `oracle_count` (`ensure!(oracle_count == inst.oracles.len())`) -/
def leafLens (isHiding : Bool) (oracleCount : Nat) : List Instance → List Nat → Option (List Nat)
  | [], acc => some acc
  | inst :: rest, acc =>
    if oracleCount ≠ inst.oracles.length then none else
    leafLens isHiding oracleCount rest
      ((acc.zip inst.oracles).map fun (l, o) => l + (o.numPolys + saltSize (o.blinding && isHiding)))

/-- `validate_batch_fri_proof_shape` (fri/validate_shape.rs) -/
def validateShape (proof : Proof) (insts : List Instance) (p : FriParams) : Verdict := Id.run do
  let capHeight := p.config.capHeight
  -- `ensure!(commit_phase_merkle_caps.len() == params.reduction_arity_bits.len())` (fix 87fe0ad)
  if proof.commitCaps.length ≠ p.arityBits.length then return .reject "shape"
  for cap in proof.commitCaps do
    if cap.length ≠ 2 ^ capHeight then return .reject "shape"
  for q in proof.queries do
    match leafLens p.isHiding q.initial.length insts (List.replicate q.initial.length 0) with
    | none => return .reject "shape"
    | some lens =>
      for ((leaf, mp), l) in q.initial.zip lens do
        if leaf.length ≠ l then return .reject "shape"
        if mp.length + capHeight ≠ p.ldeBits then return .reject "shape"
    if q.steps.length ≠ p.arityBits.length then return .reject "shape"
    let mut bits := p.ldeBits
    for (st, ab) in q.steps.zip p.arityBits do
      -- `codeword_len_bits -= arity_bits` (usize underflow = panic in debug, wrap in release)
      if bits < ab then return .panic "codeword_len_bits underflow"
      bits := bits - ab
      if st.evals.length ≠ 2 ^ ab then return .reject "shape"
      if st.merkleProof.length + capHeight ≠ bits then return .reject "shape"
  if p.degreeBits < p.totalArities then return .panic "final_poly_bits underflow"
  if proof.finalPoly.length ≠ 2 ^ (p.degreeBits - p.totalArities) then return .reject "shape"
  return .accept

/-! ### the batched Merkle opening -/

/-- the sibling loop of `verify_batch_merkle_proof_to_cap`: state = (current digest, current height,
remaining leaf index, index of the next leaf row to hash in). `none` = `current_height -= 1`
underflows. Row `k` is hashed in (`hash_or_noop(current_digest ‖ leaf_data[k])`) right after the
step that brings the height down to `leaf_heights[k]`. -/
def batchFold (h : Hasher (List GL) Digest) (leafData : List (List GL)) (heights : List Nat) :
    Digest → Nat → Nat → Nat → List Digest → Option (Digest × Nat × Nat)
  | cur, _, idx, k, [] => some (cur, idx, k)
  | cur, height, idx, k, s :: rest =>
    let nxt := if idx % 2 = 1 then h.two s cur else h.two cur s
    if height = 0 then none else
    let height' := height - 1
    match heights[k]?, leafData[k]? with
    | some hk, some row =>
      if height' = hk then batchFold h leafData heights (h.hashLeaf (nxt ++ row)) height' (idx / 2) (k + 1) rest
      else batchFold h leafData heights nxt height' (idx / 2) k rest
    | _, _ => batchFold h leafData heights nxt height' (idx / 2) k rest

/-- outcome of the batched Merkle check, with the reason of a panic -/
inductive BOutcome where
  | ok | err
  | panic (what : String)
deriving Repr, DecidableEq, Inhabited

/-- `verify_batch_merkle_proof_to_cap` (hash/merkle_proofs.rs) as a total function.
PANIC: `assert_eq!(leaf_data.len(), leaf_heights.len())`, `leaf_data[0]`, the height underflow,
`assert_eq!(leaf_data_index, leaf_data.len())` (a row was never reached), `merkle_cap.0[leaf_index]`. -/
def verifyBatchToCap (h : Hasher (List GL) Digest) (leafData : List (List GL)) (heights : List Nat)
    (index : Nat) (cap : List Digest) (proof : List Digest) : BOutcome :=
  if leafData.length ≠ heights.length then .panic "leaf_data.len() != leaf_heights.len()" else
  match leafData, heights with
  | row0 :: _, h0 :: _ =>
    match batchFold h leafData heights (h.hashLeaf row0) h0 index 1 proof with
    | none => .panic "current_height underflow"
    | some (d, idx, k) =>
      if k ≠ leafData.length then .panic "leaf_data_index != leaf_data.len()" else
      match cap[idx]? with
      | none => .panic "cap index out of range"
      | some c => if d = c then .ok else .err
  | _, _ => .panic "leaf_data[0]"

/-- the `scan` of `batch_fri_verify_initial_proof`: cut the flat leaf of oracle `oi` into one row per
instance, `inst.oracles[oi].num_polys` values each, consecutively (salt columns are not skipped:
that is what the code does). `none` = index panic. -/
def splitLeaf (oi : Nat) (evals : List GL) : List Instance → Nat → Option (List (List GL))
  | [], _ => some []
  | inst :: rest, start =>
    match inst.oracles[oi]? with
    | none => none
    | some o =>
      if o.numPolys ≠ 0 ∧ evals.length < start + o.numPolys then none else
      (splitLeaf oi evals rest (start + o.numPolys)).map (((evals.drop start).take o.numPolys) :: ·)

/-- `batch_fri_verify_initial_proof`: one batched Merkle check per oracle (zip with the caps);
`heights` are the `degree_bits[k] + rate_bits` -/
def initialChecks (insts : List Instance) (heights : List Nat)
    (initial : List (List GL × List Digest)) (initialCaps : List (List Digest)) (xIndex : Nat) :
    List Verdict :=
  ((initial.zip initialCaps).zipIdx).map fun (((leaf, mp), cap), oi) =>
    match splitLeaf oi leaf insts 0 with
    | none => .panic "initial leaf index"
    | some rows =>
      match verifyBatchToCap digestHasher rows heights xIndex cap mp with
      | .ok => .accept
      | .err => .reject "merkle-initial"
      | .panic w => .panic w

/-! ### the query round -/

/-- the point `g · ω_n^{rev_n(x_index)}` of the size-`2^n` LDE domain -/
def subgroupX (n xIndex : Nat) : GL :=
  GL.multGen * GL.pow (GL.primitiveRoot n) (BitRev.bitrev n xIndex)

/-- `batch_fri_combine_initial` for instance `k`: `fri_combine_initial` of that instance with its
own reduced openings. `none` = index panic (`instances[k]`, `precomputed_reduced_evals[k]` or inside). -/
def combineAt (insts : List Instance) (reduced : List (List GL2)) (k : Nat)
    (initial : List (List GL × List Digest)) (alpha : GL2) (x : GL) (p : FriParams) : Option GL2 :=
  match insts[k]?, reduced[k]? with
  | some inst, some ro => combineInitial inst initial alpha x ro p
  | _, _ => none

/-- the reduction loop of `batch_fri_verifier_query_round` from layer `i` on. State: the current
index `xIndex`, the point `x`, the folded value, the bit size `n` of the current domain and the
index `k` of the next instance to fold in. Returns the verdict and, when every layer passes, the last
folded value, the final point and the number of instances folded in. -/
def stepsFrom (insts : List Instance) (reduced : List (List GL2)) (heights : List Nat)
    (proof : Proof) (ch : Challenges) (q : QueryRound) (p : FriParams) :
    List Nat → Nat → Nat → GL → GL2 → Nat → Nat → Verdict × GL2 × GL × Nat
  | [], _, _, x, oldEval, _, k => (.accept, oldEval, x, k)
  | ab :: rest, i, xIndex, x, oldEval, n, k =>
    let arity := 2 ^ ab
    match q.steps[i]? with
    | none => (.panic "steps index", oldEval, x, k)
    | some st =>
      let cosetIndex := xIndex / arity
      let within := xIndex % arity
      match st.evals[within]? with
      | none => (.panic "evals index", oldEval, x, k)
      | some e =>
        if !(e == oldEval) then (.reject "consistency", oldEval, x, k) else
        match ch.betas[i]? with
        | none => (.panic "betas index", oldEval, x, k)
        | some beta =>
          let newEval := computeEvaluation x within ab st.evals beta
          match proof.commitCaps[i]? with
          | none => (.panic "commit cap index", oldEval, x, k)
          | some cap =>
            match verifyToCap digestHasher (st.evals.flatMap fun v => [v.a, v.b]) cosetIndex cap st.merkleProof with
            | .err => (.reject "merkle-layer", oldEval, x, k)
            | .panic => (.panic "cap index out of range", oldEval, x, k)
            | .ok =>
              -- `n -= arity_bits`
              if n < ab then (.panic "n underflow", oldEval, x, k) else
              let n' := n - ab
              let x' := GL.pow x arity
              -- `if batch_index < degree_bits.len() && n == degree_bits[batch_index]`
              match heights[k]? with
              | some hk =>
                if n' = hk then
                  match combineAt insts reduced k q.initial ch.alpha (subgroupX n' cosetIndex) p with
                  | none => (.panic "fri_combine_initial index", oldEval, x, k)
                  | some ev =>
                    stepsFrom insts reduced heights proof ch q p rest (i + 1) cosetIndex x'
                      (newEval * beta + ev) n' (k + 1)
                else stepsFrom insts reduced heights proof ch q p rest (i + 1) cosetIndex x' newEval n' k
              | none => stepsFrom insts reduced heights proof ch q p rest (i + 1) cosetIndex x' newEval n' k

/-- `batch_fri_verifier_query_round`; `heights` are the `degree_bits[k] + rate_bits` -/
def queryRound (insts : List Instance) (ch : Challenges) (reduced : List (List GL2))
    (heights : List Nat) (initialCaps : List (List Digest)) (proof : Proof) (xIndex0 : Nat)
    (q : QueryRound) (p : FriParams) : Verdict :=
  match firstBad (initialChecks insts heights q.initial initialCaps xIndex0) with
  | .accept =>
    match heights with
    | [] => .panic "degree_bits[0]"
    | n :: _ =>
      let x0 := subgroupX n xIndex0
      match combineAt insts reduced 0 q.initial ch.alpha x0 p with
      | none => .panic "fri_combine_initial index"
      | some old0 =>
        match stepsFrom insts reduced heights proof ch q p p.arityBits 0 xIndex0 x0 old0 n 1 with
        | (.accept, lastEval, xf, k) =>
          -- `assert_eq!(batch_index, instances.len(), "Wrong number of folded instances.")`
          if k ≠ insts.length then .panic "Wrong number of folded instances" else
          if Poly.eval proof.finalPoly (GL2.ofBase xf) == lastEval then .accept else .reject "final"
        | (v, _, _, _) => v
  | v => v

/-- `verify_batch_fri_proof` -/
def verifyBatch (insts : List Instance) (openings : List (List (List GL2))) (ch : Challenges)
    (degreeBits : List Nat) (initialCaps : List (List Digest)) (proof : Proof) (p : FriParams) :
    Verdict :=
  match validateShape proof insts p with
  | .accept =>
    if !(powOk ch.powResponse p.config.powBits) then .reject "pow" else
    if p.config.numQueryRounds ≠ proof.queries.length then .reject "num-queries" else
    -- `PrecomputedReducedOpenings::from_os_and_alpha` per instance
    let reduced := openings.map fun op => op.map fun vals => reduceExt vals ch.alpha
    let heights := degreeBits.map (· + p.config.rateBits)
    firstBad ((ch.queryIndices.zip proof.queries).map fun (xi, q) =>
      queryRound insts ch reduced heights initialCaps proof xi q p)
  | v => v

end P2.BatchFri
