/-
L5: the PLONK verifier of `plonky2/src/plonk` — common data, proof, Fiat–Shamir schedule
(`get_challenges`), shape validation, `eval_vanishing_poly` (L₀(Z−1), partial products, lookup
terms, filtered gate constraints, α-reduction), the quotient identity, the FRI instance and
`verify`.
-/
import P2.Model.Fri
import P2.Model.Challenger
import P2.Model.Gates
import P2.Model.PlonkAlg
namespace P2.Plonk
open P2 P2.Fri P2.Merkle P2.Gates

structure CircuitConfig where
  numWires : Nat
  numRoutedWires : Nat
  numConstants : Nat
  securityBits : Nat
  numChallenges : Nat
  zeroKnowledge : Bool
  maxQuotientDegreeFactor : Nat
deriving Repr, Inhabited

structure CommonData where
  config : CircuitConfig
  friParams : FriParams
  gates : List GateKind
  selectorIndices : List Nat
  groups : List (Nat × Nat)        -- half-open ranges of gate indices
  quotientDegreeFactor : Nat
  numGateConstraints : Nat
  numConstants : Nat
  numPublicInputs : Nat
  kIs : List GL
  numPartialProducts : Nat
  numLookupPolys : Nat
  numLookupSelectors : Nat
  luts : List (List (Nat × Nat))
deriving Inhabited

def CommonData.degreeBits (c : CommonData) : Nat := c.friParams.degreeBits
def CommonData.numSelectors (c : CommonData) : Nat := c.groups.length
def CommonData.numQuotientPolys (c : CommonData) : Nat := c.config.numChallenges * c.quotientDegreeFactor
def CommonData.numAllLookupPolys (c : CommonData) : Nat := c.config.numChallenges * c.numLookupPolys
def CommonData.numZsPartialProductsPolys (c : CommonData) : Nat :=
  c.config.numChallenges * (1 + c.numPartialProducts)
def CommonData.numPreprocessedPolys (c : CommonData) : Nat := c.numConstants + c.config.numRoutedWires

structure VerifierOnly where
  constantsSigmasCap : List Digest
  circuitDigest : Digest
deriving Inhabited

structure OpeningSet where
  constants : List GL2
  plonkSigmas : List GL2
  wires : List GL2
  plonkZs : List GL2
  plonkZsNext : List GL2
  partialProducts : List GL2
  quotientPolys : List GL2
  lookupZs : List GL2
  lookupZsNext : List GL2
deriving Inhabited

structure Proof where
  wiresCap : List Digest
  zsPartialProductsCap : List Digest
  quotientPolysCap : List Digest
  openings : OpeningSet
  openingProof : Fri.Proof
deriving Inhabited

structure ProofWithPis where
  proof : Proof
  publicInputs : List GL
deriving Inhabited

structure Challenges where
  betas : List GL
  gammas : List GL
  alphas : List GL
  deltas : List GL
  zeta : GL2
  fri : Fri.Challenges
deriving Inhabited

def NUM_COINS_LOOKUP : Nat := 4

/-- `to_fri_openings` -/
def OpeningSet.toFriOpenings (o : OpeningSet) : List (List GL2) :=
  let zetaBatch := o.constants ++ o.plonkSigmas ++ o.wires ++ o.plonkZs ++ o.partialProducts ++
    o.quotientPolys ++ (if o.lookupZs.isEmpty then [] else o.lookupZs)
  let nextBatch := if o.lookupZs.isEmpty then o.plonkZsNext else o.plonkZsNext ++ o.lookupZsNext
  [zetaBatch, nextBatch]

/-! ### Fiat–Shamir schedule: the transcript as a list of challenger operations -/

/-- `FriParams::observe` -/
def friParamsObserved (p : FriParams) : List GL :=
  ([p.config.rateBits, p.config.capHeight, p.config.powBits] ++ p.config.strategy.serialize ++
    [p.config.numQueryRounds, (if p.isHiding then 1 else 0), p.degreeBits] ++ p.arityBits).map GL.ofNat

def flattenExt (xs : List GL2) : List GL := xs.flatMap fun x => [x.a, x.b]
def flattenCap (cap : List Digest) : List GL := cap.flatMap id

/-- the events of `get_challenges` up to ζ and the openings (everything before `fri_challenges`) -/
def plonkSchedule (c : CommonData) (pih : Digest) (circuitDigest : Digest) (p : Proof) :
    List Challenger.Op :=
  let n := c.config.numChallenges
  [ .obs (friParamsObserved c.friParams), .obs circuitDigest, .obs pih,
    .obs (flattenCap p.wiresCap), .get n, .get n ] ++
  (if c.numLookupPolys ≠ 0 then [.get (NUM_COINS_LOOKUP * n - 2 * n)] else []) ++
  [ .obs (flattenCap p.zsPartialProductsCap), .get n,
    .obs (flattenCap p.quotientPolysCap), .get 2,
    .obs (p.openings.toFriOpenings.flatMap flattenExt) ]

/-- the events of `Challenger::fri_challenges` (no padding modes: `None, None`) -/
def friSchedule (fp : Fri.Proof) (numQueries : Nat) : List Challenger.Op :=
  [.get 2] ++ (fp.commitCaps.flatMap fun cap => [.obs (flattenCap cap), .get 2]) ++
  [.obs (flattenExt fp.finalPoly), .obs [fp.powWitness], .get 1, .get numQueries]

/-- split a flat list of squeezed challenges according to a list of counts -/
def splitBy : List Nat → List GL → List (List GL)
  | [], _ => []
  | n :: ns, xs => xs.take n :: splitBy ns (xs.drop n)

def mkExt (xs : List GL) : GL2 := ⟨xs.getD 0 0, xs.getD 1 0⟩

/-- `get_challenges` -/
def getChallenges (c : CommonData) (pih : Digest) (circuitDigest : Digest) (p : Proof) : Challenges :=
  let perm := Sponge.poseidonPerm
  let n := c.config.numChallenges
  let hasLookup := c.numLookupPolys ≠ 0
  let ops := plonkSchedule c pih circuitDigest p ++ friSchedule p.openingProof c.friParams.config.numQueryRounds
  let outs := Challenger.run perm ops
  let nCaps := p.openingProof.commitCaps.length
  let counts := [n, n] ++ (if hasLookup then [NUM_COINS_LOOKUP * n - 2 * n] else []) ++ [n, 2, 2] ++
    List.replicate nCaps 2 ++ [1, c.friParams.config.numQueryRounds]
  let parts := splitBy counts outs
  let betas := parts.getD 0 []
  let gammas := parts.getD 1 []
  let (extra, k) := if hasLookup then (parts.getD 2 [], 3) else ([], 2)
  let deltas := if hasLookup then betas ++ gammas ++ extra else []
  let alphas := parts.getD k []
  let zeta := mkExt (parts.getD (k + 1) [])
  let friAlpha := mkExt (parts.getD (k + 2) [])
  let friBetas := (List.range nCaps).map fun i => mkExt (parts.getD (k + 3 + i) [])
  let powResp := (parts.getD (k + 3 + nCaps) []).getD 0 0
  let ldeSize := 2 ^ (c.degreeBits + c.friParams.config.rateBits)
  let idx := (parts.getD (k + 4 + nCaps) []).map fun x => x.val % ldeSize
  ⟨betas, gammas, alphas, deltas, zeta, ⟨friAlpha, friBetas, powResp, idx⟩⟩

/-! ### shape validation -/

/-- `cap.len() == 1 << cap_height` (after the repair of F-C18-1; before it the code called
`MerkleCap::height()`, which panics on a cap whose length is not a power of two) -/
def capCheck (capHeight : Nat) (cap : List Digest) : Verdict :=
  if cap.length = 2 ^ capHeight then .accept else .reject "shape"

def lenCheck (ok : Bool) (stage : String) : Verdict := if ok then .accept else .reject stage

/-- the checks of `validate_proof_with_pis_shape`, in the order the code performs them -/
def shapeChecks (c : CommonData) (pp : ProofWithPis) : List Verdict :=
  let p := pp.proof
  let o := p.openings
  let capHeight := c.friParams.config.capHeight
  [ capCheck capHeight p.wiresCap, capCheck capHeight p.zsPartialProductsCap,
    capCheck capHeight p.quotientPolysCap,
    lenCheck (o.constants.length == c.numConstants) "shape",
    lenCheck (o.plonkSigmas.length == c.config.numRoutedWires) "shape",
    lenCheck (o.wires.length == c.config.numWires) "shape",
    lenCheck (o.plonkZs.length == c.config.numChallenges) "shape",
    lenCheck (o.plonkZsNext.length == c.config.numChallenges) "shape",
    lenCheck (o.partialProducts.length == c.config.numChallenges * c.numPartialProducts) "shape",
    lenCheck (o.quotientPolys.length == c.numQuotientPolys) "shape",
    lenCheck (o.lookupZs.length == c.numAllLookupPolys) "shape",
    lenCheck (o.lookupZsNext.length == c.numAllLookupPolys) "shape",
    lenCheck (pp.publicInputs.length == c.numPublicInputs) "shape-pis" ]

/-- `validate_proof_with_pis_shape` -/
def validateShape (c : CommonData) (pp : ProofWithPis) : Verdict := firstBad (shapeChecks c pp)

/-! ### vanishing polynomial -/

/-- `compute_filter` at `K = GL2` (generic definition in `P2.PlonkAlg`) -/
def computeFilter (row : Nat) (group : Nat × Nat) (s : GL2) (manySelectors : Bool) : GL2 :=
  PlonkAlg.computeFilter row group s manySelectors

/-- `evaluate_gate_constraints`: filtered constraints of every gate type summed per index -/
def evaluateGateConstraints (c : CommonData) (constants wires : List GL2) (pih : Digest) : List GL2 :=
  let numSel := c.numSelectors
  let gateConsts := (constants.drop (numSel + c.numLookupSelectors)).toArray
  let vars : EvalVars GL2 := ⟨gateConsts, wires.toArray, (pih.map GL2.ofBase).toArray⟩
  let init : Array GL2 := Array.replicate c.numGateConstraints FOps.zero
  let acc := (c.gates.zipIdx).foldl (fun (acc : Array GL2) (g, i) =>
    let selIdx := c.selectorIndices.getD i 0
    let filter := computeFilter i (c.groups.getD selIdx (0, 0)) (constants.getD selIdx FOps.zero) (numSel > 1)
    let cs := g.evalUnfiltered vars
    (cs.zipIdx).foldl (fun a (cv, j) => if j < a.size then a.set! j (a[j]! + filter * cv) else a) acc) init
  acc.toList

/-- `eval_l_0(n, x)` at `K = GL2` -/
def evalL0 (n : Nat) (x : GL2) : GL2 := PlonkAlg.evalL0 n x

def chunksOf {α} (n : Nat) (xs : List α) : List (List α) := PlonkAlg.chunksOf n xs

/-- `check_partial_products` at `K = GL2` -/
def checkPartialProducts (nums dens partials : List GL2) (zx zgx : GL2) (maxDegree : Nat) : List GL2 :=
  PlonkAlg.checkPartialProducts nums dens partials zx zgx maxDegree

/-- `get_lut_poly(...).eval(delta)` for table `lut` -/
def lutPolyEval (lut : List (Nat × Nat)) (nbSlots degree : Nat) (b delta : GL) : GL :=
  let n := lut.length
  let nbPadded := (nbSlots - n % nbSlots) % nbSlots
  let pad := lut.headD (0, 0)
  let coeffs := (lut.map fun (i, o) => GL.ofNat i + b * GL.ofNat o) ++
    List.replicate nbPadded (GL.ofNat pad.1 + b * GL.ofNat pad.2) ++
    List.replicate (degree - (n + nbPadded)) 0
  Poly.eval coeffs.reverse delta

/-- `check_lookup_constraints` for one challenge index -/
def checkLookupConstraints (c : CommonData) (wires : List GL2) (localZs nextZs lookupSelectors : List GL2)
    (deltas : List GL) : List GL2 :=
  let w (i : Nat) : GL2 := wires.getD i FOps.zero
  let sel (i : Nat) : GL2 := lookupSelectors.getD i FOps.zero
  let numLuSlots := c.config.numRoutedWires / 2
  let numLutSlots := c.config.numRoutedWires / 3
  let luDegree := c.quotientDegreeFactor - 1
  let numSldc := localZs.length - 1
  let lutDegree := if numSldc = 0 then 0 else (numLutSlots + numSldc - 1) / numSldc
  let zRe := localZs.getD 0 FOps.zero
  let nextZRe := nextZs.getD 0 FOps.zero
  let zx (i : Nat) : GL2 := localZs.getD (i + 1) FOps.zero
  let zgx (i : Nat) : GL2 := nextZs.getD (i + 1) FOps.zero
  let dA := GL2.ofBase (deltas.getD 0 0)
  let dB := GL2.ofBase (deltas.getD 1 0)
  let dAlpha := GL2.ofBase (deltas.getD 2 0)
  let dDelta := GL2.ofBase (deltas.getD 3 0)
  let looked (s : Nat) : GL2 := w (3 * s) + dA * w (3 * s + 1)
  let looking (s : Nat) : GL2 := w (2 * s) + dA * w (2 * s + 1)
  let lookupCombo (s : Nat) : GL2 := w (3 * s) + dB * w (3 * s + 1)
  let c1 := sel 3 * zx (numSldc - 1)
  -- F-C08-1 repaired in /repo: the initial Sum constraint pins the LAST SLDC polynomial of the row
  -- after the first LUT row (the value the first LUT row's running sum starts from), not the first
  let c2 := sel 2 * zx (numSldc - 1)
  let c3 := sel 2 * zRe
  let ends := (List.range (c.numLookupSelectors - 4)).map fun t =>
    let lut := c.luts.getD t []
    let rows := (lut.length + numLutSlots - 1) / numLutSlots
    let ev := lutPolyEval lut numLutSlots (numLutSlots * rows) (deltas.getD 1 0) (deltas.getD 3 0)
    sel (4 + t) * (zRe - GL2.ofBase ev)
  let curSum := (List.range numLutSlots).foldl (fun acc s => acc * dDelta + lookupCombo s) nextZRe
  let cRe := sel 0 * (zRe - curSum)
  let perPoly := (List.range numSldc).flatMap fun poly =>
    let lutRange := (List.range (min ((poly + 1) * lutDegree) numLutSlots - poly * lutDegree)).map (· + poly * lutDegree)
    let luRange := (List.range (min ((poly + 1) * luDegree) numLuSlots - poly * luDegree)).map (· + poly * luDegree)
    let lutProd := lutRange.foldl (fun acc i => acc * (dAlpha - looked i)) FOps.one
    let luProd := luRange.foldl (fun acc i => acc * (dAlpha - looking i)) FOps.one
    let lutProdI (i : Nat) : GL2 := lutRange.foldl (fun acc j => if j ≠ i then acc * (dAlpha - looked j) else acc) FOps.one
    let luProdI (i : Nat) : GL2 := luRange.foldl (fun acc j => if j ≠ i then acc * (dAlpha - looking j) else acc) FOps.one
    let luSumProds := luRange.foldl (fun acc i => acc + luProdI i) FOps.zero
    let lutSumProdsMul := lutRange.foldl (fun acc i => acc + w (3 * i + 2) * lutProdI i) FOps.zero
    let prev := if poly = 0 then zgx (numSldc - 1) else zx (poly - 1)
    [ sel 0 * (lutProd * (zx poly - prev) - lutSumProdsMul),
      sel 1 * (luProd * (zx poly - prev) + luSumProds) ]
  [c1, c2, c3] ++ ends ++ [cRe] ++ perPoly

/-- `eval_vanishing_poly` at the point `x` (the verifier's use: `x = ζ`) -/
def evalVanishingPoly (c : CommonData) (x : GL2) (o : OpeningSet) (pih : Digest) (ch : Challenges) : List GL2 :=
  let hasLookup := c.numLookupPolys ≠ 0
  let numSel := c.numSelectors
  let lookupSelectors := (o.constants.drop numSel).take c.numLookupSelectors
  let gateTerms := evaluateGateConstraints c o.constants o.wires pih
  let l0 := evalL0 (2 ^ c.degreeBits) x
  let nR := c.config.numRoutedWires
  let perChallenge := (List.range c.config.numChallenges).map fun i =>
    let zx := o.plonkZs.getD i FOps.zero
    let zgx := o.plonkZsNext.getD i FOps.zero
    let beta := ch.betas.getD i 0
    let gamma := ch.gammas.getD i 0
    let z1 := l0 * (zx - FOps.one)
    let lookupTerms :=
      if hasLookup then
        checkLookupConstraints c o.wires
          ((o.lookupZs.drop (c.numLookupPolys * i)).take c.numLookupPolys)
          ((o.lookupZsNext.drop (c.numLookupPolys * i)).take c.numLookupPolys)
          lookupSelectors ((ch.deltas.drop (NUM_COINS_LOOKUP * i)).take NUM_COINS_LOOKUP)
      else []
    let nums := (List.range nR).map fun j =>
      o.wires.getD j FOps.zero + GL2.scalarMul (GL2.scalarMul x (c.kIs.getD j 0)) beta + GL2.ofBase gamma
    let dens := (List.range nR).map fun j =>
      o.wires.getD j FOps.zero + GL2.scalarMul (o.plonkSigmas.getD j FOps.zero) beta + GL2.ofBase gamma
    let pps := checkPartialProducts nums dens
      ((o.partialProducts.drop (i * c.numPartialProducts)).take c.numPartialProducts) zx zgx c.quotientDegreeFactor
    (z1, pps, lookupTerms)
  let terms := perChallenge.map (·.1) ++ perChallenge.flatMap (·.2.1) ++ perChallenge.flatMap (·.2.2) ++ gateTerms
  ch.alphas.map fun a => Fri.reduceExt terms (GL2.ofBase a)

/-! ### FRI instance and verification -/

def polyRange (oracle : Nat) (lo hi : Nat) : List PolyInfo :=
  (List.range (hi - lo)).map fun i => ⟨oracle, lo + i⟩

/-- `get_fri_instance(zeta)` -/
def friInstance (c : CommonData) (zeta : GL2) : Fri.Instance :=
  let nZsPP := c.numZsPartialProductsPolys
  let lookupPolys := polyRange 2 nZsPP (nZsPP + c.numAllLookupPolys)
  let all := polyRange 0 0 c.numPreprocessedPolys ++ polyRange 1 0 c.config.numWires ++
    polyRange 2 0 nZsPP ++ polyRange 3 0 c.numQuotientPolys ++ lookupPolys
  let g := GL.primitiveRoot c.degreeBits
  let next := polyRange 2 0 c.config.numChallenges ++ lookupPolys
  { oracles := [⟨c.numPreprocessedPolys, false⟩, ⟨c.config.numWires, true⟩,
                ⟨nZsPP + c.numAllLookupPolys, true⟩, ⟨c.numQuotientPolys, true⟩],
    batches := [⟨zeta, all⟩, ⟨GL2.scalarMul zeta g, next⟩] }

/-- `get_public_inputs_hash` -/
def publicInputsHash (pis : List GL) : Digest := Sponge.hashNoPad Sponge.poseidonPerm pis

/-- the polynomial identity `vanishing(ζ) = Z_H(ζ)·t(ζ)` for every challenge index, as
`verify_with_challenges` checks it (`t(ζ)` recombined from its degree-`n` chunks) -/
def identityHolds (c : CommonData) (p : Proof) (pih : Digest) (ch : Challenges) : Bool :=
  let vanishing := evalVanishingPoly c ch.zeta p.openings pih ch
  let zetaPowDeg := FOps.pow ch.zeta (2 ^ c.degreeBits)
  let zH := zetaPowDeg - FOps.one
  ((chunksOf c.quotientDegreeFactor p.openings.quotientPolys).zipIdx).all fun (chunk, i) =>
    match vanishing[i]? with
    | none => false          -- index panic in the code; unreachable after shape validation
    | some v => v == zH * Fri.reduceExt chunk zetaPowDeg

/-- `verify_with_challenges` -/
def verifyWithChallenges (c : CommonData) (vd : VerifierOnly) (p : Proof) (pih : Digest)
    (ch : Challenges) : Verdict :=
  if !identityHolds c p pih ch then .reject "identity" else
  Fri.verify (friInstance c ch.zeta) p.openings.toFriOpenings ch.fri
    [vd.constantsSigmasCap, p.wiresCap, p.zsPartialProductsCap, p.quotientPolysCap]
    p.openingProof c.friParams

/-- `verify` -/
def verify (c : CommonData) (vd : VerifierOnly) (pp : ProofWithPis) : Verdict :=
  match validateShape c pp with
  | .accept =>
    let pih := publicInputsHash pp.publicInputs
    let ch := getChallenges c pih vd.circuitDigest pp.proof
    verifyWithChallenges c vd pp.proof pih ch
  | v => v

end P2.Plonk
