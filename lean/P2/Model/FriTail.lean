/-
The "bound the final polynomial by the ACTUAL degree" block of the variable-degree in-circuit FRI
verifier (`plonky2/src/fri/recursive_verifier.rs`, repair of finding F-C11-3), as pure functions.

`d = current_degree_bits` is a witness, `degree_sub_one_bits_vec` has length `dmax` and
`degree_sub_one_bits_vec[pos] = [pos < d]`; `arities = params.reduction_arity_bits`.
Core Lean only.
-/
namespace P2.FriTail

/-- `a_0 + … + a_{m-1}` (`shift` in the Rust loop; all of `arities` for `m ≥ arities.length`) -/
def prefixSum (arities : List Nat) (m : Nat) : Nat := (arities.take m).sum

/-- `step_bit[m] = (degree_sub_one_bits_vec.len() − total_arities) + a_0 + … + a_{m-1}` -/
def stepBit (dmax : Nat) (arities : List Nat) (m : Nat) : Nat :=
  (dmax - arities.sum) + prefixSum arities m

/-- `degree_sub_one_bits_vec[pos]` for a proof of `2^d` rows -/
def bit (d pos : Nat) : Bool := decide (pos < d)

/-- reduction step `m` (one of the `arities.length` steps of the schedule) is active iff the bit at
`step_bit[m]` is set -/
def active (dmax : Nat) (arities : List Nat) (d m : Nat) : Bool :=
  decide (m < arities.length) && bit d (stepBit dmax arities m)

/-- number of active reduction steps -/
def numActive (dmax : Nat) (arities : List Nat) (d : Nat) : Nat :=
  (List.range arities.length).countP (active dmax arities d)

/-- `exactly_first[m] = and(prev_active, next_inactive)`, `m = 0..=arities.len()` -/
def exactlyFirst (dmax : Nat) (arities : List Nat) (d m : Nat) : Bool :=
  (decide (m = 0) || bit d (stepBit dmax arities (m - 1))) &&
  (decide (m = arities.length) || !bit d (stepBit dmax arities m))

/-- the term the Rust loop adds to `in_use` for `m` (nothing when `t + shift` is out of range) -/
def inUseTerm (dmax : Nat) (arities : List Nat) (d t m : Nat) : Nat :=
  if t + prefixSum arities m < dmax then
    (if exactlyFirst dmax arities d m && bit d (t + prefixSum arities m) then 1 else 0)
  else 0

/-- `in_use` for coefficient block `t` (positions `2^t ≤ j < 2^(t+1)`): the SUM of the terms -/
def inUse (dmax : Nat) (arities : List Nat) (d t : Nat) : Nat :=
  ((List.range (arities.length + 1)).map (inUseTerm dmax arities d t)).sum

/-- what the native shape validation enforces: `final_poly.len() = 2^finalBits` with
`finalBits = degree_bits − (arities of the reduction steps that take place)` -/
def finalBits (dmax : Nat) (arities : List Nat) (d : Nat) : Nat :=
  d - prefixSum arities (numActive dmax arities d)

/-- `max_final_bits = log2_strict(proof.final_poly.len())`: the circuit carries the final polynomial
of the largest supported degree -/
def maxFinalBits (dmax : Nat) (arities : List Nat) : Nat := dmax - arities.sum

/-- position `j` of the final polynomial is multiplied by `unused = 1 − in_use` of its block and
the product connected to zero: over a field (of characteristic above `arities.len() + 1`) this says
`in_use = 1 ∨ coeff = 0`, so the coefficient is forced to zero iff `in_use ≠ 1`
(position 0 is in no block) -/
def forcedZero (dmax : Nat) (arities : List Nat) (d j : Nat) : Bool :=
  decide (1 ≤ j) && decide (inUse dmax arities d (Nat.log2 j) ≠ 1)

/-- the new constraints on the coefficient list of the final-polynomial target (of length
`2^maxFinalBits`), written as the Rust loops run: for every block `t < max_final_bits` and every
position of the block, `in_use ≠ 1` (i.e. `unused ≠ 0`) forces the coefficient to zero -/
def tailConstraints {K : Type} (zero : K) (dmax : Nat) (arities : List Nat) (d : Nat)
    (coeffs : List K) : Prop :=
  ∀ t, t < maxFinalBits dmax arities → ∀ j, 2 ^ t ≤ j → j < 2 ^ (t + 1) →
    inUse dmax arities d t ≠ 1 → coeffs.getD j zero = zero

end P2.FriTail
