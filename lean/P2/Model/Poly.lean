/-
L1: coefficient-form polynomial algebra of `field/src/polynomial` and `interpolation.rs`:
evaluation (Horner), schoolbook product, long division, division by a linear factor, trimming,
barycentric interpolation.
-/
import P2.Model.Fp
namespace P2.Poly
open P2

variable {K : Type} [FOps K] [Inhabited K]

def eval (c : List K) (x : K) : K := c.foldr (fun ci acc => acc * x + ci) FOps.zero

def degreePlusOne (c : List K) : Nat :=
  match (c.zipIdx.reverse.find? fun (ci, _) => !(ci == FOps.zero)) with
  | some (_, i) => i + 1
  | none => 0

def trim (c : List K) : List K := c.take (degreePlusOne c)

def add (a b : List K) : List K :=
  (List.range (max a.length b.length)).map fun i => a.getD i FOps.zero + b.getD i FOps.zero

def sub (a b : List K) : List K :=
  (List.range (max a.length b.length)).map fun i => a.getD i FOps.zero - b.getD i FOps.zero

/-- schoolbook product (length `|a| + |b| − 1`, empty if either is empty) -/
def mul (a b : List K) : List K :=
  if a.isEmpty || b.isEmpty then [] else
  (List.range (a.length + b.length - 1)).map fun k =>
    (List.range (k + 1)).foldl (fun acc i =>
      if i < a.length ∧ k - i < b.length then acc + a.getD i FOps.zero * b.getD (k - i) FOps.zero else acc)
      FOps.zero

/-- `divide_by_linear(z)`: synthetic division, remainder dropped -/
def divideByLinear (c : List K) (z : K) : List K :=
  let bs := (c.reverse.foldl (fun (acc : K × List K) ci =>
      let v := acc.1 * z + ci
      (v, acc.2 ++ [v])) (FOps.zero, [])).2
  bs.dropLast.reverse

/-- long division; `none` when the divisor is zero (Rust: panic "Division by zero polynomial").
Returns trimmed quotient and remainder. -/
def divRem (a b : List K) : Option (List K × List K) :=
  let bt := trim b
  let da := degreePlusOne a
  let db := bt.length
  if da = 0 then some ([], []) else
  if db = 0 then none else
  if da < db then some ([], trim a) else
  let leadInv := FOps.inv (bt.getLast?.getD FOps.one)
  let rec go (fuel : Nat) (q : Array K) (r : List K) : Array K × List K :=
    match fuel with
    | 0 => (q, r)
    | fuel + 1 =>
      let dr := degreePlusOne r
      if dr < db then (q, r) else
      let coef := (r.getD (dr - 1) FOps.zero) * leadInv
      let deg := dr - db
      let r' := (r.zipIdx.map fun (ri, i) =>
        if deg ≤ i ∧ i < deg + db then ri - coef * bt.getD (i - deg) FOps.zero else ri)
      go fuel (q.set! deg coef) (trim r')
  let (q, r) := go (da + 1) (Array.replicate (da - db + 1) FOps.zero) (trim a)
  some (trim q.toList, trim r)

/-- `barycentric_weights` -/
def barycentricWeights (xs : List K) : List K :=
  xs.zipIdx.map fun (xi, i) =>
    FOps.inv ((xs.zipIdx.foldl (fun acc (xj, j) => if i = j then acc else acc * (xi - xj)) FOps.one))

/-- Lagrange interpolation through `points`, evaluated at `x` (the definition) -/
def lagrangeEval (points : List (K × K)) (x : K) : K :=
  points.zipIdx.foldl (fun acc ((xi, yi), i) =>
    let num := points.zipIdx.foldl (fun a ((xj, _), j) => if i = j then a else a * (x - xj)) FOps.one
    let den := points.zipIdx.foldl (fun a ((xj, _), j) => if i = j then a else a * (xi - xj)) FOps.one
    acc + yi * num * FOps.inv den) FOps.zero

end P2.Poly
