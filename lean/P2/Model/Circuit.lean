/-
L5: a circuit-program language over the builder's gadgets with a direct denotational semantics
over `GL` (`evalProg`). A program is a list of operations referring to earlier variables by index;
`none` means the assignment violates a gadget's contract (division by zero, non-boolean condition,
failed range check, lookup input absent from its table, …), i.e. the circuit is not satisfiable
with these inputs.
-/
import P2.Model.Sponge
namespace P2.Circuit
open P2

inductive Op where
  | input (v : Nat) | const (v : Nat)
  | add (a b : Nat) | sub (a b : Nat) | mul (a b : Nat) | mulAdd (a b c : Nat)
  | arith (c0 c1 : Nat) (x y z : Nat)          -- c0·x·y + c1·z
  | neg (a : Nat) | div (a b : Nat)
  | isEqual (a b : Nat) | select (c x y : Nat) | not (a : Nat) | and (a b : Nat) | or (a b : Nat)
  | splitSum (a n : Nat) | rangeCheck (a n : Nat)
  | randomAccess (i : Nat) (vs : List Nat)
  | expU64 (a e : Nat) | expBits (a e n : Nat)
  | hash (xs : List Nat)
  | lookup (t a : Nat)
  | extMulNorm (a b : Nat)                      -- first coordinate of (a + bX)²  in GL[X]/(X²−7)
  | splitBase4 (a l : Nat)                      -- lowest base-4 limb
  | pub (a : Nat)
  | connect (a b : Nat)                        -- satisfiable iff equal
deriving Repr, Inhabited

structure Prog where
  tables : List (List (Nat × Nat))
  ops : List Op
deriving Inhabited

def isBool (x : GL) : Bool := x == 0 || x == 1

/-- one step: the value of the new variable (and whether it is a public input) -/
def stepOp (tables : List (List (Nat × Nat))) (v : Array GL) (op : Op) : Option GL :=
  let g (i : Nat) : Option GL := v[i]?
  match op with
  | .input x | .const x => some (GL.ofNat x)
  | .add a b => do pure ((← g a) + (← g b))
  | .sub a b => do pure ((← g a) - (← g b))
  | .mul a b => do pure ((← g a) * (← g b))
  | .mulAdd a b c => do pure ((← g a) * (← g b) + (← g c))
  | .arith c0 c1 x y z => do pure (GL.ofNat c0 * (← g x) * (← g y) + GL.ofNat c1 * (← g z))
  | .neg a => do pure (-(← g a))
  | .div a b => do
      let d ← g b
      if d == 0 then none else pure ((← g a) * GL.inv d)
  | .isEqual a b => do pure (if (← g a) == (← g b) then 1 else 0)
  | .select c x y => do
      let cv ← g c
      if !isBool cv then none else do
        let xv ← g x
        let yv ← g y
        pure (if cv == 1 then xv else yv)
  | .not a => do pure (1 - (← g a))
  | .and a b => do pure ((← g a) * (← g b))
  | .or a b => do let x ← g a; let y ← g b; pure (x + y - x * y)
  | .splitSum a n => do let x ← g a; if x.val < 2 ^ n then pure x else none
  | .rangeCheck a n => do let x ← g a; if x.val < 2 ^ n then pure x else none
  | .randomAccess i vs => do
      let iv ← g i
      let j ← vs[iv.val]?
      g j
  | .expU64 a e => do pure (GL.pow (← g a) e)
  | .expBits a e n => do
      let ev ← g e
      if ev.val < 2 ^ n then pure (GL.pow (← g a) ev.val) else none
  | .hash xs => do
      let inp ← xs.mapM g
      (Sponge.hashNoPad Sponge.poseidonPerm inp)[0]?
  | .lookup t a => do
      let tb ← tables[t]?
      let x ← g a
      let ent ← tb.find? (fun p => p.1 == x.val)
      pure (GL.ofNat ent.2)
  | .extMulNorm a b => do let x ← g a; let y ← g b; pure (x * x + GL.ofNat 7 * y * y)
  | .splitBase4 a l => do let x ← g a; if x.val < 4 ^ l then pure (GL.ofNat (x.val % 4)) else none
  | .pub a => g a
  | .connect a b => do let x ← g a; let y ← g b; if x == y then pure x else none

/-- values of all variables and the public inputs, or `none` if some contract is violated -/
def evalProg (p : Prog) : Option (Array GL × List GL) :=
  p.ops.foldlM (fun (acc : Array GL × List GL) op => do
    let x ← stepOp p.tables acc.1 op
    let pis := match op with | .pub _ => acc.2 ++ [x] | _ => acc.2
    pure (acc.1.push x, pis)) (#[], [])

end P2.Circuit

/-! ### `CircuitBuilder::arithmetic_special_cases` (gadgets/arithmetic.rs)

An operand is described by its value under the assignment, the constant the builder knows it to be
(`target_as_constant`), and whether it *is* the builder's zero target. -/
namespace P2.Circuit

structure Operand (K : Type) where
  value : K
  knownConst : Option K
  isZeroTarget : Bool

/-- what the special-case analysis returns: a constant target, or one of the operands -/
inductive Special (K : Type) where
  | constant (c : K)
  | addend
  | multiplicand0
  | multiplicand1

variable {K : Type} [FOps K]

/-- `arithmetic_special_cases(const_0, const_1, m0, m1, addend)`; `none` = a gate is needed -/
def arithmeticSpecialCases (c0 c1 : K) (m0 m1 ad : Operand K) : Option (Special K) :=
  let firstTermZero := (c0 == FOps.zero) || m0.isZeroTarget || m1.isZeroTarget
  let secondTermZero := (c1 == FOps.zero) || ad.isZeroTarget
  let firstTermConst : Option K :=
    if firstTermZero then some FOps.zero else
    match m0.knownConst, m1.knownConst with
    | some x, some y => some (x * y * c0)
    | _, _ => none
  let secondTermConst : Option K :=
    if secondTermZero then some FOps.zero else ad.knownConst.map fun x => x * c1
  match firstTermConst, secondTermConst with
  | some x, some y => some (.constant (x + y))
  | _, _ =>
    if firstTermZero && (c1 == FOps.one) then some .addend else
    if secondTermZero then
      match m0.knownConst with
      | some x => if (x * c0) == FOps.one then some .multiplicand1 else
          (match m1.knownConst with
           | some y => if (y * c0) == FOps.one then some .multiplicand0 else none
           | none => none)
      | none =>
          (match m1.knownConst with
           | some y => if (y * c0) == FOps.one then some .multiplicand0 else none
           | none => none)
    else none

/-- the value denoted by a special-case result -/
def Special.denote (m0 m1 ad : Operand K) : Special K → K
  | .constant c => c
  | .addend => ad.value
  | .multiplicand0 => m0.value
  | .multiplicand1 => m1.value

end P2.Circuit
