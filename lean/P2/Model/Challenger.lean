/-
L2: the native `Challenger` (iop/challenger.rs) as a state machine, the in-circuit
`RecursiveChallenger` (buffering variant), and the abstract duplex specification both refine.
-/
import P2.Model.Sponge
namespace P2.Challenger
open P2 P2.Sponge

structure St where
  sponge : Array GL
  input : List GL        -- input_buffer (oldest first)
  output : List GL       -- output_buffer (pop takes the LAST element)
deriving Inhabited

def init (p : Perm) : St := ⟨Array.replicate p.width 0, [], []⟩

def duplexing (p : Perm) (s : St) : St :=
  let sp := p.permute (setFrom s.sponge s.input 0)
  ⟨sp, [], sp.toList.take p.rate⟩

def observe (p : Perm) (s : St) (x : GL) : St :=
  let s1 : St := ⟨s.sponge, s.input ++ [x], []⟩
  if s1.input.length = p.rate then duplexing p s1 else s1

def observeMany (p : Perm) (s : St) (xs : List GL) : St := xs.foldl (observe p) s

def getChallenge (p : Perm) (s : St) : St × GL :=
  let s1 := if !s.input.isEmpty || s.output.isEmpty then duplexing p s else s
  match s1.output.getLast? with
  | some c => (⟨s1.sponge, s1.input, s1.output.dropLast⟩, c)
  | none => (s1, 0)   -- unreachable for rate > 0 (Rust: expect("Output buffer should be non-empty"))

def getN (p : Perm) (s : St) (n : Nat) : St × List GL :=
  (List.range n).foldl (fun (acc : St × List GL) _ =>
    let (s', c) := getChallenge p acc.1
    (s', acc.2 ++ [c])) (s, [])

/-- `compact` -/
def compact (p : Perm) (s : St) : St × Array GL :=
  let s1 := if !s.input.isEmpty then duplexing p s else s
  (⟨s1.sponge, s1.input, []⟩, s1.sponge)

/-! ### RecursiveChallenger: buffers all inputs, absorbs them in rate-chunks at the next squeeze -/
def rObserve (s : St) (x : GL) : St := ⟨s.sponge, s.input ++ [x], []⟩

def rAbsorbBuffered (p : Perm) (s : St) : St :=
  if s.input.isEmpty then s else
  let sp := (chunks s.input p.rate).foldl (fun st c => p.permute (setFrom st c 0)) s.sponge
  ⟨sp, [], sp.toList.take p.rate⟩

def rGetChallenge (p : Perm) (s : St) : St × GL :=
  let s1 := rAbsorbBuffered p s
  let s2 : St := if s1.output.isEmpty then
      let sp := p.permute s1.sponge
      ⟨sp, s1.input, sp.toList.take p.rate⟩ else s1
  match s2.output.getLast? with
  | some c => (⟨s2.sponge, s2.input, s2.output.dropLast⟩, c)
  | none => (s2, 0)

/-! ### operation histories -/
inductive Op where
  | obs (xs : List GL)
  | get (n : Nat)

def run (p : Perm) (ops : List Op) : List GL :=
  (ops.foldl (fun (acc : St × List GL) op =>
    match op with
    | .obs xs => (observeMany p acc.1 xs, acc.2)
    | .get n => let (s, cs) := getN p acc.1 n; (s, acc.2 ++ cs)) (init p, [])).2

def rRun (p : Perm) (ops : List Op) : List GL :=
  (ops.foldl (fun (acc : St × List GL) op =>
    match op with
    | .obs xs => (xs.foldl rObserve acc.1, acc.2)
    | .get n =>
      (List.range n).foldl (fun (a : St × List GL) _ =>
        let (s, c) := rGetChallenge p a.1; (s, a.2 ++ [c])) acc) (init p, [])).2

end P2.Challenger
