/-
L3: `compress_merkle_proofs` / `decompress_merkle_proofs` of `hash/path_compression.rs`.
Heap addressing as in the code: leaf `i` is node `i + 2^height`, parent `node >> 1`,
sibling `node ^ 1`. `known` (a bitmap in the code) is a list of node indices, `seen`
(a hash map in the code) an association list whose newest binding wins.
-/
import P2.Model.Merkle
namespace P2.PathCompression
open P2.Merkle

variable {L D : Type}

/-- the nodes on the paths from the queried leaves up to (excluding) the cap -/
def initialKnown (height capHeight : Nat) (indices : List Nat) : List Nat :=
  indices.flatMap fun i => (List.range (height - capHeight)).map fun j => (i + 2 ^ height) / 2 ^ j

/-- one proof of `compress_merkle_proofs`: returns the new `known` set and the kept siblings -/
def compressOne (known : List Nat) (node : Nat) : List D → List Nat × List D
  | [] => (known, [])
  | s :: rest =>
    let sib := node ^^^ 1
    let keep := !known.contains sib
    let known1 := if keep then sib :: known else known
    let known2 := (node / 2) :: known1
    let (kn, kept) := compressOne known2 (node / 2) rest
    (kn, if keep then s :: kept else kept)

/-- `compress_merkle_proofs(cap_height, indices, proofs)`; `height = cap_height + proofs[0].len` -/
def compress (height capHeight : Nat) (indices : List Nat) (proofs : List (List D)) : List (List D) :=
  let rec go (known : List Nat) : List (Nat × List D) → List (List D)
    | [] => []
    | (i, p) :: rest =>
      let (kn, kept) := compressOne known (i + 2 ^ height) p
      kept :: go kn rest
  go (initialKnown height capHeight indices) (indices.zip proofs)

def lookup (seen : List (Nat × D)) (k : Nat) : Option D := (seen.find? (·.1 == k)).map (·.2)

/-- one layer of the fill loop of `decompress_merkle_proofs`; `none` = panic
(`seen[&index]` missing or `p.next().unwrap()` on an exhausted iterator) -/
def fillLayer (h : Hasher L D) (layer height : Nat) :
    List (Nat × D) → List (Nat × List D) → Option (List (Nat × D) × List (List D))
  | seen, [] => some (seen, [])
  | seen, (i, p) :: rest => do
    let index := (i + 2 ^ height) / 2 ^ layer
    let cur ← lookup seen index
    let sib := index ^^^ 1
    let (sibHash, p', seen1) ← (match lookup seen sib with
      | some v => some (v, p, seen)
      | none => match p with
        | [] => none
        | s :: p' => some (s, p', (sib, s) :: seen))
    let parent := if index % 2 = 0 then h.two cur sibHash else h.two sibHash cur
    let (seenN, ps) ← fillLayer h layer height ((index / 2, parent) :: seen1) rest
    pure (seenN, p' :: ps)

/-- `decompress_merkle_proofs(leaves_data, leaves_indices, compressed_proofs, height, cap_height)` -/
def decompress (h : Hasher L D) (leaves : List L) (indices : List Nat) (compressed : List (List D))
    (height capHeight : Nat) : Option (List (List D)) := do
  let seen0 : List (Nat × D) :=
    (indices.zip leaves).foldl (fun s (i, v) => (i + 2 ^ height, h.hashLeaf v) :: s) []
  let layers := List.range (height - capHeight)
  let (seen, _) ← layers.foldlM (fun (acc : List (Nat × D) × List (List D)) layer => do
      let (s, ps) ← fillLayer h layer height acc.1 (indices.zip acc.2)
      pure (s, ps)) (seen0, compressed)
  indices.mapM fun i =>
    layers.mapM fun j => lookup seen (((i + 2 ^ height) / 2 ^ j) ^^^ 1)

end P2.PathCompression
