/-
L1: the Goldilocks field as `Fin P` (definitionally `ZMod P`'s carrier and ring operations),
and the operations record `FOps` over which protocol-level model code is written once.
-/
import P2.Model.Goldilocks
namespace P2

/-- the field order as a reducible literal; `GLP = L0.P` by `rfl` -/
abbrev GLP : Nat := 18446744069414584321
theorem GLP_eq : GLP = L0.P := rfl

abbrev GL := Fin GLP

instance : NeZero GLP := ⟨by decide⟩

/-- operations a model function may use; instantiated by `GL`, `GL2`, … (executable) and by any
Mathlib `Field` in proof files -/
class FOps (K : Type) extends Add K, Mul K, Sub K, Neg K, BEq K where
  zero : K
  one : K
  ofNat : Nat → K
  inv : K → K

namespace FOps
variable {K : Type} [FOps K]
/-- square-and-multiply, LSB first (same loop shape as `exp_u64`) -/
def powAux : Nat → K → Nat → K → K
  | 0, _, _, acc => acc
  | fuel + 1, b, e, acc =>
    if e = 0 then acc else
    powAux fuel (b * b) (e / 2) (if e % 2 = 1 then acc * b else acc)
def pow (b : K) (e : Nat) : K := powAux (e + 1) b e FOps.one
def sum (xs : List K) : K := xs.foldl (· + ·) FOps.zero
def prod (xs : List K) : K := xs.foldl (· * ·) FOps.one
/-- `reduce_with_powers`: Horner from the last element -/
def reduceWithPowers (xs : List K) (alpha : K) : K :=
  xs.foldr (fun x acc => acc * alpha + x) FOps.zero
def isZero (x : K) : Bool := x == FOps.zero
end FOps

namespace GL
@[inline] def ofNat (n : Nat) : GL := Fin.ofNat GLP n
def pow (b : GL) (e : Nat) : GL := Id.run do
  let mut acc : GL := 1
  let mut base := b
  let mut ex := e
  for _ in [0:Nat.log2 e + 1] do
    if ex % 2 = 1 then acc := acc * base
    base := base * base
    ex := ex / 2
  return acc
/-- inverse by Fermat (`0 ↦ 0`; callers guard) -/
def inv (a : GL) : GL := pow a (GLP - 2)
end GL

instance : FOps GL where
  zero := 0
  one := 1
  ofNat := GL.ofNat
  inv := GL.inv

/-- `MULTIPLICATIVE_GROUP_GENERATOR`, `POWER_OF_TWO_GENERATOR`, `TWO_ADICITY` (checked against the
extracted constants in `P2.Gen.Consts`) -/
def GL.multGen : GL := GL.ofNat 14293326489335486720
def GL.pow2Gen : GL := GL.ofNat 7277203076849721926
def GL.twoAdicity : Nat := 32

/-- `primitive_root_of_unity(n_log)` = `POWER_OF_TWO_GENERATOR ^ (2^(32 - n_log))` -/
def GL.primitiveRoot (nLog : Nat) : GL := GL.pow GL.pow2Gen (2 ^ (32 - nLog))

end P2
