/-
L5: `CompressedFriProof::decompress` of `plonky2/src/fri/proof.rs` (l. 238–361), the computation of
the omitted coset evaluations `get_inferred_elements` of `plonky2/src/plonk/get_challenges.rs`
(l. 185–258), and the PLONK-level wrappers `CompressedProofWithPublicInputs::{decompress, verify}`
of `plonky2/src/plonk/proof.rs` (l. 188–231).

Maps are association lists (`P2.Compress`: sorted by key when they come from `compress` or from a
dump; lookups do not depend on the order as long as keys are distinct). `none` = the Rust code
panics: a missing map key (`map[&k]`), an index out of range, `Vec::insert` past the end,
`next().unwrap()` on the exhausted iterator of inferred elements, `usize` underflow of a height.
-/
import P2.Model.Compress
import P2.Model.Codec
namespace P2.Decompress
open P2 P2.Fri P2.Merkle P2.Compress

/-- `map[&k]` on an association list; `none` = "no entry found for key" panic -/
def lookupKey {α} (m : List (Nat × α)) (k : Nat) : Option α := (m.find? (·.1 == k)).map (·.2)

/-- `Vec::insert(i, x)`; `none` = the `insertion index (is i) should be <= len` panic -/
def insertAt {α} (xs : List α) (i : Nat) (x : α) : Option (List α) :=
  if i ≤ xs.length then some (xs.take i ++ x :: xs.drop i) else none

/-- subgroup point of leaf `xIndex` (`get_challenges.rs` l. 214–215, same as `fri_verifier_query_round`) -/
def subgroupX (p : FriParams) (xIndex : Nat) : GL :=
  GL.multGen * GL.pow (GL.primitiveRoot p.ldeBits) (BitRev.bitrev p.ldeBits xIndex)

/-! ### `get_inferred_elements` -/

/-- the reduction loop of `get_inferred_elements` (`get_challenges.rs` l. 228–255) for one query,
from layer `i` on. `seen` = `seen_indices_by_depth`, `out` = `fri_inferred_elements` (pushed at the
end). A coset index already seen at depth `i` ends the loop (`break`, l. 235–238).
`compute_evaluation` is called on the stored evaluations with `old_eval` re-inserted at
`x_index_within_coset` (l. 241–252); an evaluation vector of the wrong length trips its
`debug_assert_eq!(evals.len(), arity)` (and `reverse_index_bits_in_place` panics in release unless
the length is another power of two): `none`. -/
def inferLayers (steps : List (List (Nat × QueryStep))) (betas : List GL2) :
    List Nat → Nat → Nat → GL → GL2 → List (List Nat) → List GL2 → Option (List (List Nat) × List GL2)
  | [], _, _, _, _, seen, out => some (seen, out)
  | ab :: rest, i, xIndex, x, oldEval, seen, out =>
    let cosetIndex := xIndex / 2 ^ ab            -- `x_index >> arity_bits`
    let seenI := seen.getD i []
    if seenI.contains cosetIndex then some (seen, out) else do
      let seen' := seen.set i (cosetIndex :: seenI)
      let out' := out ++ [oldEval]
      let m ← steps[i]?                           -- `steps[i]`
      let st ← lookupKey m cosetIndex             -- `[&coset_index]`
      let within := xIndex % 2 ^ ab               -- `x_index & (arity - 1)`
      let evals ← insertAt st.evals within oldEval
      if evals.length ≠ 2 ^ ab then none else
      let beta ← betas[i]?                        -- `fri_betas[i]`
      let newEval := computeEvaluation x within ab evals beta
      inferLayers steps betas rest (i + 1) cosetIndex (GL.pow x (2 ^ ab)) newEval seen' out'

/-- one iteration of the outer loop of `get_inferred_elements` (l. 213–256) -/
def inferQuery (cp : CompressedFriProof) (ch : Fri.Challenges) (reduced : List GL2)
    (inst : Fri.Instance) (p : FriParams) (acc : List (List Nat) × List GL2) (xIndex : Nat) :
    Option (List (List Nat) × List GL2) := do
  let x0 := subgroupX p xIndex
  let initial ← lookupKey cp.rounds.initial xIndex        -- `initial_trees_proofs[&x_index]`
  let old0 ← combineInitial inst initial ch.alpha x0 reduced p
  inferLayers cp.rounds.steps ch.betas p.arityBits 0 xIndex x0 old0 acc.1 acc.2

/-- `get_inferred_elements` with the PLONK-specific inputs abstracted: `openings` are the FRI
openings (`to_fri_openings`), `inst` the FRI instance, `ch` the FRI challenges
(`PrecomputedReducedOpenings::from_os_and_alpha` = `reduceExt` per batch, as in `Fri.verify`). -/
def inferredElements (cp : CompressedFriProof) (ch : Fri.Challenges) (openings : List (List GL2))
    (inst : Fri.Instance) (p : FriParams) : Option (List GL2) := do
  let reduced := openings.map fun vals => reduceExt vals ch.alpha
  let r ← ch.queryIndices.foldlM (inferQuery cp ch reduced inst p)
    (List.replicate p.arityBits.length [], [])
  pure r.2

/-! ### `CompressedFriProof::decompress` -/

/-- per query: the data collected by the first loop of `decompress` (`fri/proof.rs` l. 288–316) -/
structure Rebuilt where
  /-- `(leaves_data, compressed proof)` per initial tree -/
  initial : List (List GL × List Digest)
  /-- `(index, evals with the inferred element re-inserted, compressed proof)` per layer -/
  steps : List (Nat × List GL2 × List Digest)
deriving Inhabited

/-- the inner loop (`fri/proof.rs` l. 297–315) for one query from layer `i` on. `byDepth` =
`evals_by_depth`, `inferred` = the rest of the iterator `fri_inferred_elements`. -/
def rebuildLayers (steps : List (List (Nat × QueryStep))) :
    List Nat → Nat → Nat → List (List (Nat × List GL2)) → List GL2 →
    Option (List (Nat × List GL2 × List Digest) × List (List (Nat × List GL2)) × List GL2)
  | [], _, _, byDepth, inferred => some ([], byDepth, inferred)
  | ab :: rest, i, index, byDepth, inferred => do
    let within := index % 2 ^ ab                  -- `index & ((1 << bits) - 1)`
    let index' := index / 2 ^ ab                  -- `index >>= bits`
    let m ← steps[i]?                             -- `query_round_proofs.steps[i]`
    let st ← lookupKey m index'                   -- `[&index]`
    let cache := byDepth.getD i []
    let (evals, byDepth', inferred') ← (match lookupKey cache index' with
      | some v => some (v, byDepth, inferred)     -- already seen: take `evals` from the map
      | none => match inferred with
        | [] => none                              -- `fri_inferred_elements.next().unwrap()`
        | e :: inferred' => do
          let ev ← insertAt st.evals within e
          some (ev, byDepth.set i ((index', ev) :: cache), inferred'))
    let (tl, bd, inf) ← rebuildLayers steps rest (i + 1) index' byDepth' inferred'
    pure ((index', evals, st.merkleProof) :: tl, bd, inf)

/-- the first loop of `decompress` over the query indices. An entry of the initial map whose number
of trees differs from `num_initial_trees` makes the code panic (an index past
`initial_trees_indices`, or later `initial_trees_leaves[j][i]` past a short column): `none`. -/
def rebuildAll (cp : CompressedFriProof) (p : FriParams) (numInitial : Nat) :
    List Nat → List (List (Nat × List GL2)) → List GL2 → Option (List Rebuilt)
  | [], _, _ => some []
  | index :: rest, byDepth, inferred => do
    let ini ← lookupKey cp.rounds.initial index   -- `initial_trees_proofs[&index]`
    if ini.length ≠ numInitial then none else
    let (st, bd, inf) ← rebuildLayers cp.rounds.steps p.arityBits 0 index byDepth inferred
    let tl ← rebuildAll cp p numInitial rest bd inf
    pure (⟨ini, st⟩ :: tl)

/-- `heights` (l. 276–283): the tree height of every reduction layer; `none` = `usize` underflow -/
def layerHeights : Nat → List Nat → Option (List Nat)
  | _, [] => some []
  | h, ab :: rest => if h < ab then none else (layerHeights (h - ab) rest).map ((h - ab) :: ·)

/-- `decompress_merkle_proofs(ls, is, &ps, height, cap_height)`; `0..height - cap_height` on `usize`
underflows when `height < cap_height`: `none` -/
def decompressPaths {L} (h : Hasher L Digest) (leaves : List L) (indices : List Nat)
    (compressed : List (List Digest)) (height capHeight : Nat) : Option (List (List Digest)) :=
  if height < capHeight then none else
  PathCompression.decompress h leaves indices compressed height capHeight

def flattenEvals (evals : List GL2) : List GL := evals.flatMap fun v => [v.a, v.b]

/-- `CompressedFriProof::decompress(challenges, fri_inferred_elements, params)`; of the challenges
only `fri_query_indices` is used (l. 253–256). `num_initial_trees` is read off
`initial_trees_proofs.values().next().unwrap()` (an arbitrary entry; every other entry must agree,
see `rebuildAll`): here the entry with the smallest key. -/
def decompressFri (cp : CompressedFriProof) (indices : List Nat) (inferred : List GL2)
    (p : FriParams) : Option Fri.Proof := do
  let capHeight := p.config.capHeight
  let numReductions := p.arityBits.length
  let first ← cp.rounds.initial.head?             -- `.values().next().unwrap()`
  let numInitial := first.2.length
  let height := p.ldeBits
  let heights ← layerHeights height p.arityBits
  let qs ← rebuildAll cp p numInitial indices (List.replicate numReductions []) inferred
  -- decompress all Merkle proofs (l. 318–328)
  let initialPaths ← (List.range numInitial).mapM fun t =>
    decompressPaths digestHasher (qs.map fun q => (q.initial.getD t default).1) indices
      (qs.map fun q => (q.initial.getD t default).2) height capHeight
  let stepPaths ← ((List.range numReductions).zip heights).mapM fun (j, h) =>
    decompressPaths digestHasher (qs.map fun q => flattenEvals (q.steps.getD j default).2.1)
      (qs.map fun q => (q.steps.getD j default).1)
      (qs.map fun q => (q.steps.getD j default).2.2) h capHeight
  -- reassemble the query rounds (l. 330–352)
  let queries := qs.zipIdx.map fun (q, i) =>
    ({ initial := (List.range numInitial).map fun t =>
         ((q.initial.getD t default).1, (initialPaths.getD t []).getD i [])
       steps := (List.range numReductions).map fun j =>
         ⟨(q.steps.getD j default).2.1, (stepPaths.getD j []).getD i []⟩ } : QueryRound)
  pure ⟨cp.commitCaps, queries, cp.finalPoly, cp.powWitness⟩

/-- `get_inferred_elements` followed by `decompress` — what `CompressedProofWithPublicInputs::
decompress`/`verify` do with the FRI part -/
def decompress (cp : CompressedFriProof) (ch : Fri.Challenges) (openings : List (List GL2))
    (inst : Fri.Instance) (p : FriParams) : Option Fri.Proof := do
  let inferred ← inferredElements cp ch openings inst p
  decompressFri cp ch.queryIndices inferred p

/-! ### PLONK level -/
open P2.Plonk P2.Codec

/-- `ProofWithPublicInputs::compress` (`plonk/proof.rs` l. 91–102 with `Proof::compress` l. 58–74):
the FRI proof is compressed at the Fiat–Shamir query indices, the rest is kept -/
def compressProof (c : CommonData) (circuitDigest : Digest) (pp : ProofWithPis) :
    Option CompressedProofWithPis := do
  let pih := publicInputsHash pp.publicInputs
  let ch := getChallenges c pih circuitDigest pp.proof
  let cfp ← Compress.compress pp.proof.openingProof ch.fri.queryIndices c.friParams
  pure ⟨⟨pp.proof.wiresCap, pp.proof.zsPartialProductsCap, pp.proof.quotientPolysCap,
    pp.proof.openings, cfp⟩, pp.publicInputs⟩

/-- the uncompressed proof carrying everything `get_challenges` reads from a compressed proof
(`get_challenges.rs` l. 151–183: caps, openings, commit-phase caps, final polynomial, PoW witness) -/
def challengeView (cp : CompressedProof) : Plonk.Proof :=
  ⟨cp.wiresCap, cp.zsPartialProductsCap, cp.quotientPolysCap, cp.openings,
    ⟨cp.openingProof.commitCaps, [], cp.openingProof.finalPoly, cp.openingProof.powWitness⟩⟩

/-- the decompression shared by `decompress` and `verify` of `CompressedProofWithPublicInputs` -/
def decompressWith (c : CommonData) (ch : Plonk.Challenges) (cp : CompressedProof) : Option Plonk.Proof := do
  let fp ← decompress cp.openingProof ch.fri cp.openings.toFriOpenings (friInstance c ch.zeta) c.friParams
  pure ⟨cp.wiresCap, cp.zsPartialProductsCap, cp.quotientPolysCap, cp.openings, fp⟩

/-- `CompressedProofWithPublicInputs::decompress` (`plonk/proof.rs` l. 188–203) -/
def decompressProof (c : CommonData) (circuitDigest : Digest) (cpp : CompressedProofWithPis) :
    Option ProofWithPis := do
  let pih := publicInputsHash cpp.publicInputs
  let ch := getChallenges c pih circuitDigest (challengeView cpp.proof)
  let proof ← decompressWith c ch cpp.proof
  pure ⟨proof, cpp.publicInputs⟩

/-- `CompressedProofWithPublicInputs::verify` (`plonk/proof.rs`): the number of public inputs is
checked, the proof is decompressed, and — since the repair of F-C16-1 — the shape of the DECOMPRESSED
proof is validated before `verify_with_challenges` (before the repair nothing validated it, and the
number of quotient identities checked was taken from the proof: forged proofs were accepted) -/
def verifyCompressed (c : CommonData) (vd : VerifierOnly) (cpp : CompressedProofWithPis) : Verdict :=
  if cpp.publicInputs.length ≠ c.numPublicInputs then .reject "shape-pis" else
  let pih := publicInputsHash cpp.publicInputs
  let ch := getChallenges c pih vd.circuitDigest (challengeView cpp.proof)
  match decompressWith c ch cpp.proof with
  | none => .panic "decompress"
  | some proof =>
    match Plonk.validateShape c ⟨proof, cpp.publicInputs⟩ with
    | .accept => verifyWithChallenges c vd proof pih ch
    | v => v

end P2.Decompress
