/-
L4: FRI as in `plonky2/src/fri`: reduction strategies, parameters, shape validation, the
verifier (`verify_fri_proof`: PoW, initial Merkle proofs, `fri_combine_initial`,
`compute_evaluation` by barycentric interpolation on the bit-reversed coset, per-layer consistency
and Merkle checks, final polynomial), with named rejection stages.
-/
import P2.Model.GL2
import P2.Model.Merkle
import P2.Model.BitRev
import P2.Model.Poly
namespace P2.Fri
open P2 P2.Merkle

inductive Strategy where
  | fixed (arities : List Nat)
  | constantArityBits (arityBits finalPolyBits : Nat)
  | minSize (maxArityBits : Option Nat)
deriving Repr, Inhabited

structure FriConfig where
  rateBits : Nat
  capHeight : Nat
  powBits : Nat
  strategy : Strategy
  numQueryRounds : Nat
deriving Repr, Inhabited

structure FriParams where
  config : FriConfig
  isHiding : Bool
  degreeBits : Nat
  arityBits : List Nat
deriving Repr, Inhabited

def FriParams.ldeBits (p : FriParams) : Nat := p.degreeBits + p.config.rateBits
def FriParams.totalArities (p : FriParams) : Nat := p.arityBits.foldl (· + ·) 0

/-- `ConstantArityBits(a, f)` schedule; `none` = the `assert!(degree_bits >= arity_bits)` panic -/
def constantArityBits (a f rateBits capHeight : Nat) : Nat → Nat → Option (List Nat)
  | 0, _ => some []
  | fuel + 1, degreeBits =>
    -- `degree_bits + rate_bits - arity_bits >= cap_height` on `usize`: an underflow panics in debug
    -- and wraps to a huge value in release, where the following `assert!` then fails — a panic
    -- either way (covered by the `degreeBits < a` branch below)
    if degreeBits > f ∧ (degreeBits + rateBits < a ∨ degreeBits + rateBits ≥ capHeight + a) then
      if degreeBits < a then none else
      -- a = 0 would loop forever in the code; fuel bounds it here
      (constantArityBits a f rateBits capHeight fuel (degreeBits - a)).map (a :: ·)
    else some []

/-- `FriReductionStrategy::serialize` -/
def Strategy.serialize : Strategy → List Nat
  | .fixed as => 0 :: as
  | .constantArityBits a f => [1, a, f]
  | .minSize m => [2, m.getD 0]

structure OracleInfo where
  numPolys : Nat
  blinding : Bool
deriving Repr, Inhabited

structure PolyInfo where
  oracle : Nat
  poly : Nat
deriving Repr, Inhabited

structure BatchInfo where
  point : GL2
  polys : List PolyInfo
deriving Inhabited

structure Instance where
  oracles : List OracleInfo
  batches : List BatchInfo
deriving Inhabited

structure Challenges where
  alpha : GL2
  betas : List GL2
  powResponse : GL
  queryIndices : List Nat
deriving Inhabited

structure QueryStep where
  evals : List GL2
  merkleProof : List Digest
deriving Inhabited

structure QueryRound where
  initial : List (List GL × List Digest)
  steps : List QueryStep
deriving Inhabited

structure Proof where
  commitCaps : List (List Digest)
  queries : List QueryRound
  finalPoly : List GL2
  powWitness : GL
deriving Inhabited

/-- verdict with the stage at which the Rust verifier returns `Err` (or panics) -/
inductive Verdict where
  | accept
  | reject (stage : String)
  | panic (what : String)
deriving Repr, DecidableEq, Inhabited

def SALT_SIZE : Nat := 4
def saltSize (salted : Bool) : Nat := if salted then SALT_SIZE else 0

/-- `log2_strict` on a length: `none` = panic (not a power of two / zero) -/
def log2Strict (n : Nat) : Option Nat :=
  if n = 0 then none else
  let k := Nat.log2 n
  if 2 ^ k = n then some k else none

/-- `validate_fri_proof_shape` -/
def validateShape (proof : Proof) (inst : Instance) (p : FriParams) : Verdict := Id.run do
  let capHeight := p.config.capHeight
  -- F-C18-5 repaired in /repo: one commit-phase cap per reduction step
  if proof.commitCaps.length ≠ p.arityBits.length then return .reject "shape"
  for cap in proof.commitCaps do
    -- `cap.len() == 1 << cap_height` (F-C18-1 repaired: no `MerkleCap::height()` panic any more)
    if cap.length ≠ 2 ^ capHeight then return .reject "shape"
  for q in proof.queries do
    if q.initial.length ≠ inst.oracles.length then return .reject "shape"
    for ((leaf, mp), o) in q.initial.zip inst.oracles do
      if leaf.length ≠ o.numPolys + saltSize (o.blinding && p.isHiding) then return .reject "shape"
      if mp.length + capHeight ≠ p.ldeBits then return .reject "shape"
    if q.steps.length ≠ p.arityBits.length then return .reject "shape"
    let mut bits := p.ldeBits
    for (st, ab) in q.steps.zip p.arityBits do
      -- `codeword_len_bits -= arity_bits` (usize underflow = panic in debug, wrap in release)
      if bits < ab then return .panic "codeword_len_bits underflow"
      bits := bits - ab
      if st.evals.length ≠ 2 ^ ab then return .reject "shape"
      if st.merkleProof.length + capHeight ≠ bits then return .reject "shape"
  if p.degreeBits < p.totalArities then return .panic "final_poly_bits underflow"
  if proof.finalPoly.length ≠ 2 ^ (p.degreeBits - p.totalArities) then return .reject "shape"
  return .accept

/-- `reduce_with_powers` over the extension: `Σ xs[i]·α^i` (Horner from the end) -/
def reduceExt (xs : List GL2) (alpha : GL2) : GL2 :=
  xs.foldr (fun x acc => acc * alpha + x) FOps.zero

/-- `fri_verify_proof_of_work`: leading zeros of the canonical response ≥ pow_bits + (64 − 64) -/
def powOk (resp : GL) (powBits : Nat) : Bool :=
  resp.val < 2 ^ (64 - powBits)

/-- `fri_combine_initial`. `ReducingFactor` keeps a running count: `reduce` of `k` values multiplies
the later `shift` by `α^k`. `none` = index panic. -/
def combineInitial (inst : Instance) (initial : List (List GL × List Digest)) (alpha : GL2)
    (subgroupX : GL) (reducedOpenings : List GL2) (p : FriParams) : Option GL2 := do
  let x := GL2.ofBase subgroupX
  let mut sum : GL2 := FOps.zero
  for (batch, ro) in inst.batches.zip reducedOpenings do
    let mut evals : List GL2 := []
    for pi in batch.polys do
      let o ← inst.oracles[pi.oracle]?
      let (leaf, _) ← initial[pi.oracle]?
      let salted := p.isHiding && o.blinding
      let unsalted := leaf.take (leaf.length - saltSize salted)
      let v ← unsalted[pi.poly]?
      evals := evals ++ [GL2.ofBase v]
    let reduced := reduceExt evals alpha
    let numerator := reduced - ro
    let denominator := x - batch.point
    -- `alpha.shift(sum)` multiplies by α^(count of the preceding reduce)
    sum := sum * FOps.pow alpha evals.length
    sum := sum + numerator * FOps.inv denominator
  return sum

/-- `compute_evaluation`: interpolate the (bit-reversed) coset evaluations and evaluate at β -/
def computeEvaluation (x : GL) (xIndexWithinCoset arityBits : Nat) (evals : List GL2) (beta : GL2) : GL2 :=
  let arity := 2 ^ arityBits
  let g := GL.primitiveRoot arityBits
  let ev := (List.range arity).map fun i => evals.getD (BitRev.bitrev arityBits i) FOps.zero
  let rev := BitRev.bitrev arityBits xIndexWithinCoset
  let cosetStart := x * GL.pow g (arity - rev)
  let points : List (GL2 × GL2) := (List.range arity).map fun i =>
    (GL2.ofBase (cosetStart * GL.pow g i), ev.getD i FOps.zero)
  -- `interpolate`: if β is one of the points return its value, else barycentric formula
  match points.find? (fun pt => pt.1 == beta) with
  | some pt => pt.2
  | none => Poly.lagrangeEval points beta

def digestHasher : Hasher (List GL) Digest := poseidonHasher

/-- first non-accepting verdict of a list of checks performed in order -/
def firstBad : List Verdict → Verdict
  | [] => .accept
  | .accept :: rest => firstBad rest
  | v :: _ => v

/-- `fri_verify_initial_proof`: one Merkle check per oracle (zip with the caps) -/
def initialChecks (initial : List (List GL × List Digest)) (initialCaps : List (List Digest))
    (xIndex : Nat) : List Verdict :=
  (initial.zip initialCaps).map fun ((leaf, mp), cap) =>
    match verifyToCap digestHasher leaf xIndex cap mp with
    | .ok => .accept
    | .err => .reject "merkle-initial"
    | .panic => .panic "cap index out of range"

/-- the reduction loop of `fri_verifier_query_round` from layer `i` on; returns the verdict and, when
every layer passes, the last folded value and the final point -/
def stepsFrom (proof : Proof) (ch : Challenges) (q : QueryRound) :
    List Nat → Nat → Nat → GL → GL2 → Verdict × GL2 × GL
  | [], _, _, x, oldEval => (.accept, oldEval, x)
  | ab :: rest, i, xIndex, x, oldEval =>
    let arity := 2 ^ ab
    match q.steps[i]? with
    | none => (.panic "steps index", oldEval, x)
    | some st =>
      let cosetIndex := xIndex / arity
      let within := xIndex % arity
      match st.evals[within]? with
      | none => (.panic "evals index", oldEval, x)
      | some e =>
        if !(e == oldEval) then (.reject "consistency", oldEval, x) else
        match ch.betas[i]? with
        | none => (.panic "betas index", oldEval, x)
        | some beta =>
          let newEval := computeEvaluation x within ab st.evals beta
          match proof.commitCaps[i]? with
          | none => (.panic "commit cap index", oldEval, x)
          | some cap =>
            match verifyToCap digestHasher (st.evals.flatMap fun v => [v.a, v.b]) cosetIndex cap st.merkleProof with
            | .err => (.reject "merkle-layer", oldEval, x)
            | .panic => (.panic "cap index out of range", oldEval, x)
            | .ok => stepsFrom proof ch q rest (i + 1) cosetIndex (GL.pow x arity) newEval

/-- one query round; returns `accept` or the first failing stage -/
def queryRound (inst : Instance) (ch : Challenges) (reducedOpenings : List GL2)
    (initialCaps : List (List Digest)) (proof : Proof) (xIndex0 : Nat) (q : QueryRound)
    (p : FriParams) : Verdict :=
  match firstBad (initialChecks q.initial initialCaps xIndex0) with
  | .accept =>
    let logN := p.ldeBits
    let x0 := GL.multGen * GL.pow (GL.primitiveRoot logN) (BitRev.bitrev logN xIndex0)
    match combineInitial inst q.initial ch.alpha x0 reducedOpenings p with
    | none => .panic "fri_combine_initial index"
    | some old0 =>
      match stepsFrom proof ch q p.arityBits 0 xIndex0 x0 old0 with
      | (.accept, lastEval, xf) =>
        if Poly.eval proof.finalPoly (GL2.ofBase xf) == lastEval then .accept else .reject "final"
      | (v, _, _) => v
  | v => v

/-- `verify_fri_proof` -/
def verify (inst : Instance) (openings : List (List GL2)) (ch : Challenges)
    (initialCaps : List (List Digest)) (proof : Proof) (p : FriParams) : Verdict :=
  match validateShape proof inst p with
  | .accept =>
    if !(powOk ch.powResponse p.config.powBits) then .reject "pow" else
    if p.config.numQueryRounds ≠ proof.queries.length then .reject "num-queries" else
    let reduced := openings.map fun vals => reduceExt vals ch.alpha
    firstBad ((ch.queryIndices.zip proof.queries).map fun (xi, q) =>
      queryRound inst ch reduced initialCaps proof xi q p)
  | v => v

end P2.Fri
