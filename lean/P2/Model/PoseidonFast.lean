/-
L0/L2: the *optimised* Poseidon of plonky2 as the code computes it, on raw `u64` representations
with trap flags: generic `mds_row_shf`/`mds_layer` (u128 accumulation + reduce96), the Goldilocks
override (lo/hi split + frequency-domain `mds_multiply_freq` over i64), `add_u160_u128`,
`reduce_u160`, `mds_partial_layer_init`, `mds_partial_layer_fast`, `partial_first_constant_layer`,
the fast partial rounds and `poseidon`.
-/
import P2.Model.Goldilocks
import P2.Gen.Poseidon
namespace P2.PoseidonFast
open P2 P2.L0

/-- values + one accumulated trap flag -/
structure RS where
  st : Array Nat
  trap : Bool
deriving Inhabited

def I64MIN : Int := -9223372036854775808
def I64MAX : Int := 9223372036854775807
def inI64 (x : Int) : Bool := decide (I64MIN ≤ x) && decide (x ≤ I64MAX)

def circ (i : Nat) : Nat := Gen.MDS_MATRIX_CIRC[i]!
def diag (i : Nat) : Nat := Gen.MDS_MATRIX_DIAG[i]!
def b1 (i : Nat) : Int := Gen.MDS_FREQ_BLOCK_ONE[i]!
def b2 (i j : Nat) : Int := (Gen.MDS_FREQ_BLOCK_TWO[i]!)[j]!
def b3 (i : Nat) : Int := Gen.MDS_FREQ_BLOCK_THREE[i]!

/-! ### frequency-domain circulant multiplication (`poseidon12_mds`) over `Int`;
`mdsMultiplyFreqChecked` also reports whether every i64 intermediate stays in range and every
result is a valid `u64` (the casts are value-preserving). -/

/-- `fft4_real` -/
def fft4 (x0 x1 x2 x3 : Int) : Int × (Int × Int) × Int :=
  let z0 := x0 + x2; let z2 := x0 - x2
  let z1 := x1 + x3; let z3 := x1 - x3
  (z0 + z1, (z2, -z3), z0 - z1)

/-- `ifft4_real_unreduced` -/
def ifft4 (y0 : Int) (y1 : Int × Int) (y2 : Int) : Int × Int × Int × Int :=
  let z0 := y0 + y2; let z1 := y0 - y2
  let z2 := y1.1; let z3 := -y1.2
  (z0 + z2, z1 + z3, z0 - z2, z1 - z3)

def block1 (x0 x1 x2 y0 y1 y2 : Int) : Int × Int × Int :=
  (x0 * y0 + x1 * y2 + x2 * y1, x0 * y1 + x1 * y0 + x2 * y2, x0 * y2 + x1 * y1 + x2 * y0)

def block3 (x0 x1 x2 y0 y1 y2 : Int) : Int × Int × Int :=
  (x0 * y0 - x1 * y2 - x2 * y1, x0 * y1 + x1 * y0 - x2 * y2, x0 * y2 + x1 * y1 + x2 * y0)

/-- `block2` with the Karatsuba complex products exactly as written -/
def block2 (x0 x1 x2 y0 y1 y2 : Int × Int) : (Int × Int) × (Int × Int) × (Int × Int) :=
  let (x0r, x0i) := x0; let (x1r, x1i) := x1; let (x2r, x2i) := x2
  let (y0r, y0i) := y0; let (y1r, y1i) := y1; let (y2r, y2i) := y2
  let x0s := x0r + x0i; let x1s := x1r + x1i; let x2s := x2r + x2i
  let y0s := y0r + y0i; let y1s := y1r + y1i; let y2s := y2r + y2i
  let m0 := (x0r * y0r, x0i * y0i); let m1 := (x1r * y2r, x1i * y2i); let m2 := (x2r * y1r, x2i * y1i)
  let z0r := (m0.1 - m0.2) + (x1s * y2s - m1.1 - m1.2) + (x2s * y1s - m2.1 - m2.2)
  let z0i := (x0s * y0s - m0.1 - m0.2) + (-m1.1 + m1.2) + (-m2.1 + m2.2)
  let n0 := (x0r * y1r, x0i * y1i); let n1 := (x1r * y0r, x1i * y0i); let n2 := (x2r * y2r, x2i * y2i)
  let z1r := (n0.1 - n0.2) + (n1.1 - n1.2) + (x2s * y2s - n2.1 - n2.2)
  let z1i := (x0s * y1s - n0.1 - n0.2) + (x1s * y0s - n1.1 - n1.2) + (-n2.1 + n2.2)
  let k0 := (x0r * y2r, x0i * y2i); let k1 := (x1r * y1r, x1i * y1i); let k2 := (x2r * y0r, x2i * y0i)
  let z2r := (k0.1 - k0.2) + (k1.1 - k1.2) + (k2.1 - k2.2)
  let z2i := (x0s * y2s - k0.1 - k0.2) + (x1s * y1s - k1.1 - k1.2) + (x2s * y0s - k2.1 - k2.2)
  ((z0r, z0i), (z1r, z1i), (z2r, z2i))

/-- `mds_multiply_freq` on exact integers -/
def mdsMultiplyFreq (s : Array Int) : List Int :=
  let g (i : Nat) : Int := s[i]!
  let (u0, u1, u2) := fft4 (g 0) (g 3) (g 6) (g 9)
  let (u4, u5, u6) := fft4 (g 1) (g 4) (g 7) (g 10)
  let (u8, u9, u10) := fft4 (g 2) (g 5) (g 8) (g 11)
  let (v0, v4, v8) := block1 u0 u4 u8 (b1 0) (b1 1) (b1 2)
  let (v1, v5, v9) := block2 u1 u5 u9 (b2 0 0, b2 0 1) (b2 1 0, b2 1 1) (b2 2 0, b2 2 1)
  let (v2, v6, v10) := block3 u2 u6 u10 (b3 0) (b3 1) (b3 2)
  let (s0, s3, s6, s9) := ifft4 v0 v1 v2
  let (s1, s4, s7, s10) := ifft4 v4 v5 v6
  let (s2, s5, s8, s11) := ifft4 v8 v9 v10
  [s0, s1, s2, s3, s4, s5, s6, s7, s8, s9, s10, s11]

/-- the integer circulant product the routine is meant to compute:
`out[r] = Σ_i circ[i] · s[(i + r) mod 12]` -/
def circulant (s : Array Int) (r : Nat) : Int :=
  (List.range 12).foldl (fun acc i => acc + (circ i : Int) * s[(i + r) % 12]!) 0

/-- generic `mds_row_shf` (u128 accumulation) -/
def mdsRowShf (r : Nat) (v : Array Nat) : Res :=
  let acc := (List.range 12).foldl (fun (a : Nat) i => a + v[(i + r) % 12]! * circ i) 0
  let res := acc + v[r]! * diag r
  ⟨res % W128, decide (W128 ≤ res)⟩

/-- generic `mds_layer`: per row `from_noncanonical_u96((sum as u64, (sum >> 64) as u32))` -/
def mdsLayerGeneric (s : Array Nat) : RS :=
  let rows := (List.range 12).map fun r =>
    let sum := mdsRowShf r s
    let hi := sum.val / W64
    let rr := reduce96 (sum.val % W64) (hi % W32)
    (rr.val, sum.trap || rr.trap || decide (W32 ≤ hi))
  ⟨(rows.map (·.1)).toArray, rows.any (·.2)⟩

/-- Goldilocks `mds_layer` override: lo/hi split, two frequency-domain products, recombination -/
def mdsLayer (s : Array Nat) : RS :=
  let sh : Array Int := s.map fun x => ((x / W32 : Nat) : Int)
  let sl : Array Int := s.map fun x => ((x % W32 : Nat) : Int)
  let mh := mdsMultiplyFreq sh
  let ml := mdsMultiplyFreq sl
  let okRange := (mh ++ ml).all fun x => decide (0 ≤ x) && decide (x < (W64 : Int))
  let rows := (List.range 12).map fun r =>
    let v : Nat := (ml[r]!).toNat + (mh[r]!).toNat * W32
    let rr := reduce96 (v % W64) ((v / W64) % W32)
    (rr.val, rr.trap || decide (W32 ≤ v / W64))
  let s0 := diag 0 * s[0]!
  let d0 := reduce96 (s0 % W64) ((s0 / W64) % W32)
  let r0 := glAdd (rows[0]!).1 d0.val
  let vals := (rows.map (·.1)).toArray.set! 0 r0.val
  ⟨vals, rows.any (·.2) || !okRange || d0.trap || r0.trap || decide (W32 ≤ s0 / W64)⟩

def constantLayer (s : Array Nat) (round : Nat) : RS :=
  let rs := (List.range 12).map fun i => addCanonicalU64 s[i]! (Gen.ALL_ROUND_CONSTANTS[i + 12 * round]!)
  ⟨(rs.map (·.val)).toArray, rs.any (·.trap)⟩

/-- `sbox_monomial`: x2 = x², x4 = x2², x3 = x·x2, x3·x4 -/
def sbox (x : Nat) : Res :=
  (glSquare x).bind fun x2 => (glSquare x2).bind fun x4 => (glMul x x2).bind fun x3 => glMul x3 x4

def sboxLayer (s : Array Nat) : RS :=
  let rs := s.toList.map sbox
  ⟨(rs.map (·.val)).toArray, rs.any (·.trap)⟩

def RS.andThen (a : RS) (f : Array Nat → RS) : RS :=
  let b := f a.st
  ⟨b.st, a.trap || b.trap⟩

def fullRound (s : Array Nat) (round : Nat) : RS :=
  (constantLayer s round).andThen fun a => (sboxLayer a).andThen mdsLayer

def fullRounds (s : RS) (start : Nat) : RS :=
  (List.range Gen.HALF_N_FULL_ROUNDS).foldl (fun st i => st.andThen fun a => fullRound a (start + i)) s

/-- `partial_first_constant_layer`: `state[i] += from_canonical_u64(c[i])` (field addition) -/
def partialFirstConstantLayer (s : Array Nat) : RS :=
  let rs := (List.range 12).map fun i => glAdd s[i]! (Gen.FAST_PARTIAL_FIRST_ROUND_CONSTANT[i]!)
  ⟨(rs.map (·.val)).toArray, rs.any (·.trap)⟩

/-- `mds_partial_layer_init`: result[0] = state[0]; result[c] += state[r] * M[r-1][c-1] -/
def mdsPartialLayerInit (s : Array Nat) : RS := Id.run do
  let mut res : Array Nat := (Array.replicate 12 0).set! 0 s[0]!
  let mut trap := false
  for r in [1:12] do
    for c in [1:12] do
      let t := (Gen.FAST_PARTIAL_ROUND_INITIAL_MATRIX[r - 1]!)[c - 1]!
      let m := glMul s[r]! t
      let a := glAdd res[c]! m.val
      res := res.set! c a.val
      trap := trap || m.trap || a.trap
  return ⟨res, trap⟩

/-- `add_u160_u128` (u32 `+` is overflow-checked) -/
def addU160U128 (x : Nat × Nat × Bool) (y : Nat) : Nat × Nat × Bool :=
  let s := oadd128 x.1 y
  let h := x.2.1 + (if s.2 then 1 else 0)
  (s.1, h % W32, x.2.2 || decide (W32 ≤ h))

/-- `reduce_u160` -/
def reduceU160 (lo hi : Nat) : Res :=
  let nLoHi := lo / W64
  let nLoLo := lo % W64
  let rh := reduce96 nLoHi hi
  let r128 := rh.val * W64 + nLoLo
  let r := reduce128 r128
  ⟨r.val, rh.trap || r.trap⟩

/-- `mds_partial_layer_fast(state, r)` -/
def mdsPartialLayerFast (s : Array Nat) (r : Nat) : RS :=
  let acc0 : Nat × Nat × Bool := (0, 0, false)
  let acc1 := (List.range 11).foldl (fun acc i =>
      addU160U128 acc (s[i + 1]! * (Gen.FAST_PARTIAL_ROUND_W_HATS[r]!)[i]!)) acc0
  let mds00 := circ 0 + diag 0
  let acc2 := addU160U128 acc1 (s[0]! * mds00)
  let d := reduceU160 acc2.1 acc2.2.1
  let rest := (List.range 11).map fun i =>
      glMulAcc s[i + 1]! s[0]! ((Gen.FAST_PARTIAL_ROUND_VS[r]!)[i]!)
  ⟨(d.val :: rest.map (·.val)).toArray,
    d.trap || acc2.2.2 || rest.any (·.trap) || decide (W64 ≤ mds00)⟩

/-- fast `partial_rounds` -/
def partialRounds (s : Array Nat) : RS :=
  let s1 := (partialFirstConstantLayer s).andThen mdsPartialLayerInit
  (List.range Gen.N_PARTIAL_ROUNDS).foldl (fun (st : RS) i =>
    st.andThen fun a =>
      let sb := sbox a[0]!
      let c := addCanonicalU64 sb.val (Gen.FAST_PARTIAL_ROUND_CONSTANTS[i]!)
      let r := mdsPartialLayerFast (a.set! 0 c.val) i
      ⟨r.st, r.trap || sb.trap || c.trap⟩) s1

/-- `partial_rounds_naive` -/
def partialRoundsNaive (s : Array Nat) (start : Nat) : RS :=
  (List.range Gen.N_PARTIAL_ROUNDS).foldl (fun (st : RS) i =>
    st.andThen fun a => (constantLayer a (start + i)).andThen fun b =>
      let sb := sbox b[0]!
      let r := mdsLayer (b.set! 0 sb.val)
      ⟨r.st, r.trap || sb.trap⟩) ⟨s, false⟩

/-- `poseidon` (fast partial rounds) -/
def poseidon (input : Array Nat) : RS :=
  let a := fullRounds ⟨input, false⟩ 0
  let b := a.andThen partialRounds
  fullRounds b (Gen.HALF_N_FULL_ROUNDS + Gen.N_PARTIAL_ROUNDS)

/-- `poseidon_naive` -/
def poseidonNaive (input : Array Nat) : RS :=
  let a := fullRounds ⟨input, false⟩ 0
  let b := a.andThen fun s => partialRoundsNaive s Gen.HALF_N_FULL_ROUNDS
  fullRounds b (Gen.HALF_N_FULL_ROUNDS + Gen.N_PARTIAL_ROUNDS)

end P2.PoseidonFast
