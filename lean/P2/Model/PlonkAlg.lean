/-
L4: the field-generic pieces of the PLONK vanishing polynomial (`plonk_common.rs`,
`util/partial_products.rs`, `gates/gate.rs::compute_filter`), written once over `FOps K` so that
the executable verifier uses them at `K = GL2` and the algebraic theorems apply to them over any
Mathlib field.
-/
import P2.Model.Fp
namespace P2.PlonkAlg
open P2

variable {K : Type} [FOps K]

def UNUSED_SELECTOR : Nat := 4294967295

/-- `compute_filter(row, group_range, s, many_selector)`:
`∏_{i ∈ group, i ≠ row} (i − s)`, times `(UNUSED_SELECTOR − s)` when there are several selectors -/
def computeFilter (row : Nat) (group : Nat × Nat) (s : K) (manySelectors : Bool) : K :=
  let idxs := ((List.range (group.2 - group.1)).map (· + group.1)).filter (· ≠ row) ++
    (if manySelectors then [UNUSED_SELECTOR] else [])
  idxs.foldl (fun acc i => acc * (FOps.ofNat i - s)) FOps.one

/-- `eval_l_0(n, x) = (x^n − 1) / (n·(x − 1))`, with `L_0(1) = 1` -/
def evalL0 (n : Nat) (x : K) : K :=
  if x == FOps.one then FOps.one else
  (FOps.pow x n - FOps.one) * FOps.inv (FOps.ofNat n * (x - FOps.one))

def chunksOf {α} (n : Nat) (xs : List α) : List (List α) :=
  if n = 0 then [] else
  (List.range ((xs.length + n - 1) / n)).map fun i => (xs.drop (i * n)).take n

/-- `check_partial_products`: for chunk `i`, `acc_i · ∏ nums_i − acc_{i+1} · ∏ dens_i`
with accumulators `[z_x] ++ partials ++ [z_gx]` -/
def checkPartialProducts (nums dens partials : List K) (zx zgx : K) (maxDegree : Nat) : List K :=
  let accs := [zx] ++ partials ++ [zgx]
  let nc := chunksOf maxDegree nums
  let dc := chunksOf maxDegree dens
  (List.range nc.length).map fun i =>
    let prev := accs.getD i FOps.zero
    let next := accs.getD (i + 1) FOps.zero
    prev * FOps.prod (nc.getD i []) - next * FOps.prod (dc.getD i [])

/-- `reduce_with_powers(terms, α) = Σ terms[i]·α^i` -/
def reduceWithPowers (terms : List K) (alpha : K) : K := FOps.reduceWithPowers terms alpha

end P2.PlonkAlg
