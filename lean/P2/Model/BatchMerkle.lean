/-
L3: batch Merkle trees of `plonky2/src/hash/batch_merkle_tree.rs` (`BatchMerkleTree::new`,
`open_batch`, `values`) and `verify_batch_merkle_proof_to_cap` of `hash/merkle_proofs.rs`,
parametric in the hasher (leaves are `List GL`) and in the embedding `toVec : D → List GL`
(`GenericHashOut::to_vec`: the identity for `HashOut`, 7-byte chunks for `BytesHash<N>`).
Core Lean only (linked into the driver executable).
-/
import P2.Model.Merkle
namespace P2.BatchMerkle
open P2 P2.Merkle

variable {D : Type}

/-- `log2_strict`: `some k` iff `n = 2^k` (the Rust function panics otherwise) -/
def log2Strict (n : Nat) : Option Nat :=
  if n ≠ 0 ∧ 2 ^ n.log2 = n then some n.log2 else none

/-- one call of `fill_digests_buf` on `leaves` (`2^k` of them) down to `2^nextCapH` roots:
(digests written to the buffer, cap).  `fill_digests_buf`'s `digests_buf.is_empty()` branch
(`k = nextCapH`: every leaf is hashed straight into the cap) is `Merkle.build` with subtrees of
height 0. -/
def stage (h : Hasher (List GL) D) (k nextCapH : Nat) (leaves : List (List GL)) :
    Option (List D × List D) :=
  let (ds, capO) := build h k nextCapH leaves
  (capO.mapM id).map fun cap => (ds, cap)

/-- the loop of `BatchMerkleTree::new` over `leaves.windows(2)` after the first window:
`mats` are the remaining matrices (`cur`), `cap` the cap of the previous stage
(`cap.len() = cur.len()`), `nexts` the heights (log) of the following cap for every stage. -/
def laterStages (h : Hasher (List GL) D) (toVec : D → List GL) :
    List (List (List GL)) → List Nat → List D → List D → Option (List D × List D)
  | [], _, digs, cap => some (digs, cap)
  | cur :: mats, nextH :: nexts, digs, cap =>
    -- `new_leaves[i] = cap[i].to_vec() ++ cur[i]`
    let newLeaves := (cap.zip cur).map fun (c, row) => toVec c ++ row
    match log2Strict cur.length with
    | none => none
    | some k =>
      match stage h k nextH newLeaves with
      | none => none
      | some (ds, cap') => laterStages h toVec mats nexts (digs ++ ds) cap'
  | _ :: _, [], _, _ => none

/-- the assertions at the top of `BatchMerkleTree::new`; returns the `leaf_heights` -/
def checkShape (mats : List (List (List GL))) (capHeight : Nat) : Option (List Nat) :=
  match mats.mapM (fun m => log2Strict m.length) with
  | none => none                       -- `leaf.len().is_power_of_two()`
  | some hs =>
    match hs.getLast? with
    | none => none                     -- `!leaves.is_empty()`
    | some last =>
      -- `pair[0].len() > pair[1].len()` for all windows; `cap_height <= last_leaves_cap_height`
      if (hs.zip hs.tail).all (fun (a, b) => decide (b < a)) && decide (capHeight ≤ last)
      then some hs else none

/-- `BatchMerkleTree::new`: `none` = one of its assertions fails (panic); otherwise
`(digests, cap, leaf_heights)`.  The dummy matrix of `2^capHeight` rows pushed by the code only
supplies the last `next_cap_height = capHeight`. -/
def batchBuild (h : Hasher (List GL) D) (toVec : D → List GL) (mats : List (List (List GL)))
    (capHeight : Nat) : Option (List D × List D × List Nat) :=
  match checkShape mats capHeight with
  | none => none
  | some hs =>
    let nexts := hs.tail ++ [capHeight]
    match mats, hs, nexts with
    | m0 :: rest, k0 :: _, n0 :: nexts' =>
      -- the bottom leaf layer
      match stage h k0 n0 m0 with
      | none => none
      | some (ds, cap) =>
        (laterStages h toVec rest nexts' ds cap).map fun (digs, cap') => (digs, cap', hs)
    | _, _, _ => none

/-- `open_batch`: the concatenation of `merkle_tree_prove` over the stages
(`cap_heights.windows(2)`); `none` = out-of-bounds panic -/
def batchOpen (leafIndex : Nat) (leafHeights : List Nat) (capLen : Nat) (digests : List D) :
    Option (List D) :=
  match log2Strict capLen, leafHeights.head? with
  | some capH, some initial =>
    let capHeights := leafHeights ++ [capH]
    let step := fun (acc : Option (List D × Nat)) (w : Nat × Nat) =>
      match acc with
      | none => none
      | some (sibs, pos) =>
        let (cur, next) := w
        let num := 2 * (2 ^ cur - 2 ^ next)
        if digests.length < pos + num then none else
        match merkleTreeProve (leafIndex / 2 ^ (initial - cur)) (2 ^ cur) cur next
            ((digests.drop pos).take num) with
        | none => none
        | some p => some (sibs ++ p, pos + num)
    ((capHeights.zip capHeights.tail).foldl step (some ([], 0))).map (·.1)
  | _, _ => none

/-- `values`: the row of every matrix above leaf `leafIndex`; `none` = index out of range -/
def values (mats : List (List (List GL))) (leafHeights : List Nat) (leafIndex : Nat) :
    Option (List (List GL)) :=
  match leafHeights.head? with
  | none => some []
  | some h0 => (mats.zip leafHeights).mapM fun (m, hh) => m[leafIndex / 2 ^ (h0 - hh)]?

/-- `usize::MAX` after a wrapping decrement of 0 -/
def usizeMax : Nat := 2 ^ 64 - 1

/-- the loop of `verify_batch_merkle_proof_to_cap` over `proof.siblings`.
State: `current_digest`, `current_height`, `leaf_index`, and — instead of `leaf_data_index` — the
list `rest` of the not yet folded `(leaf_data[j], leaf_heights[j])` for `j ≥ leaf_data_index`
(`leaf_data_index < leaf_heights.len()` ⇔ `rest ≠ []`).
`ovf = true`: the crate is compiled with overflow checks, `current_height -= 1` at 0 panics
(`none`); `ovf = false` (release): it wraps to `usize::MAX`.
Result: `(current_digest, leaf_index, rest)` after the loop. -/
def batchFold (h : Hasher (List GL) D) (toVec : D → List GL) (ovf : Bool) :
    D → Nat → Nat → List (List GL × Nat) → List D → Option (D × Nat × List (List GL × Nat))
  | cur, _, idx, rest, [] => some (cur, idx, rest)
  | cur, ht, idx, rest, s :: sibs =>
    let nxt := if idx % 2 = 1 then h.two s cur else h.two cur s
    if ht = 0 ∧ ovf = true then none else
    let ht' := if ht = 0 then usizeMax else ht - 1
    match rest with
    | (row, hh) :: rest' =>
      if ht' = hh then
        -- `current_digest = H::hash_or_noop(current_digest.to_vec() ++ leaf_data[leaf_data_index])`
        batchFold h toVec ovf (h.hashLeaf (toVec nxt ++ row)) ht' (idx / 2) rest' sibs
      else batchFold h toVec ovf nxt ht' (idx / 2) rest sibs
    | [] => batchFold h toVec ovf nxt ht' (idx / 2) [] sibs

/-- `verify_batch_merkle_proof_to_cap`.  PANIC: `assert_eq!(leaf_data.len(), leaf_heights.len())`,
`leaf_data[0]` on an empty slice, the decrement (if `ovf`), `assert_eq!(leaf_data_index,
leaf_data.len())`, `merkle_cap.0[leaf_index]` out of range. -/
def verifyBatch [DecidableEq D] (h : Hasher (List GL) D) (toVec : D → List GL) (ovf : Bool)
    (leafData : List (List GL)) (leafHeights : List Nat) (index : Nat) (cap proof : List D) :
    Outcome :=
  if leafData.length ≠ leafHeights.length then .panic else
  match leafData.zip leafHeights with
  | [] => .panic
  | (d0, h0) :: rest =>
    match batchFold h toVec ovf (h.hashLeaf d0) h0 index rest proof with
    | none => .panic
    | some (d, idx, rest') =>
      if !rest'.isEmpty then .panic else
      match cap[idx]? with
      | none => .panic
      | some c => if d = c then .ok else .err

end P2.BatchMerkle
