/-
L1: bit reversal helpers of `util/src/lib.rs` as index maps: `reverse_bits`, `reverse_index_bits`
(small: 6-bit table shifted; large: table for the low 6 bits + reversed chunk index), the in-place
small variant (swap iff `src < dst`) and the chunked variant (reverse chunks; transpose the square
(or the two squares for odd `lb_n`); reverse chunks).
-/
import P2.Gen.Util
namespace P2.BitRev

/-- reverse the low `bits` bits of `i` -/
def bitrev : Nat → Nat → Nat
  | 0, _ => 0
  | b + 1, i => (i % 2) * 2 ^ b + bitrev b (i / 2)

def table6 (i : Nat) : Nat := Gen.BIT_REVERSE_6BIT[i]!

/-- source index used by `reverse_index_bits_small` for destination `i` (`n_power ≤ 6`) -/
def srcSmall (nPower i : Nat) : Nat := table6 i / 2 ^ (6 - nPower)

/-- source index used by `reverse_index_bits_large` for destination `i` (`n_power > 6`):
`src_hi + src_lo` with `src_lo = reverse(i_chunk) >> (64 − (n_power − 6))`,
`src_hi = table[i_lo] << (n_power − 6)` -/
def srcLarge (nPower i : Nat) : Nat :=
  let iChunk := i / 64
  let iLo := i % 64
  bitrev (nPower - 6) iChunk + table6 iLo * 2 ^ (nPower - 6)

/-- `reverse_index_bits(arr)` as the code computes it -/
def reverseIndexBits {α : Type} [Inhabited α] (arr : Array α) (nPower : Nat) : Array α :=
  (Array.range arr.size).map fun i =>
    arr[if nPower ≤ 6 then srcSmall nPower i else srcLarge nPower i]!

/-- the specification: `out[i] = arr[bitrev lb_n i]` -/
def reverseIndexBitsSpec {α : Type} [Inhabited α] (arr : Array α) (nPower : Nat) : Array α :=
  (Array.range arr.size).map fun i => arr[bitrev nPower i]!

/-- in-place small variant: for each `src` in order, swap with `dst` iff `src < dst` -/
def reverseInPlaceSmall {α : Type} [Inhabited α] (arr : Array α) (lbN : Nat) : Array α :=
  (List.range arr.size).foldl (fun a src =>
    let dst := if lbN ≤ 6 then srcSmall lbN src else
      -- dst_hi + dst_lo with dst_lo = reverse(src_chunk), dst_hi = table[src_lo] << (lb_n − 6)
      srcLarge lbN src
    if src < dst then (a.set! src a[dst]!).set! dst a[src]! else a) arr

/-- index map of the chunked variant: reverse the high `lbNumChunks` bits (chunk index), then the
transpose (swap low `lbNumChunks` bits with the high `lbNumChunks` bits, the middle bit of an odd
`lb_n` staying in place), then reverse the chunk index again -/
def chunkedMap (lbN i : Nat) : Nat :=
  let nc := lbN / 2            -- lb_num_chunks
  let cs := lbN - nc           -- lb_chunk_size
  let rev1 := fun (x : Nat) => bitrev nc (x / 2 ^ cs) * 2 ^ cs + x % 2 ^ cs
  let transpose := fun (x : Nat) =>
    let hi := x / 2 ^ cs
    let lo := x % 2 ^ nc
    let mid := (x / 2 ^ nc) % 2 ^ (cs - nc)
    lo * 2 ^ cs + mid * 2 ^ nc + hi
  rev1 (transpose (rev1 i))

end P2.BitRev
