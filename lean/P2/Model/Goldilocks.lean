/-
L0: 64-bit Goldilocks arithmetic exactly as `field/src/goldilocks_field.rs` computes it.
Machine words are `Nat`s; every wrapping step is explicit and every unchecked assumption of the
Rust code (`assume(..)`, "cannot overflow", "cannot underflow") raises `trap` when false.
Core Lean only (this file is linked into the driver executable).
-/
namespace P2.L0

/-- 2^64 -/
def W64 : Nat := 18446744073709551616
/-- 2^128 -/
def W128 : Nat := 340282366920938463463374607431768211456
/-- 2^32 -/
def W32 : Nat := 4294967296
/-- `GoldilocksField::ORDER` -/
def P : Nat := 18446744069414584321
/-- `EPSILON` -/
def EPS : Nat := 4294967295

/-- a machine result: value and "an unchecked assumption was violated" flag -/
structure Res where
  val : Nat
  trap : Bool
deriving Repr, DecidableEq, Inhabited

/-- `u64::overflowing_add` -/
def oadd64 (a b : Nat) : Nat × Bool := ((a + b) % W64, decide (W64 ≤ a + b))
/-- `u64::overflowing_sub` -/
def osub64 (a b : Nat) : Nat × Bool := if b ≤ a then (a - b, false) else (a + W64 - b, true)
/-- `u128::overflowing_add` -/
def oadd128 (a b : Nat) : Nat × Bool := ((a + b) % W128, decide (W128 ≤ a + b))
/-- `u128::overflowing_sub` -/
def osub128 (a b : Nat) : Nat × Bool := if b ≤ a then (a - b, false) else (a + W128 - b, true)

/-- checked `u64 + u64` (overflow = trap; the value is the wrapped one, as in release) -/
def cadd64 (a b : Nat) : Res := ⟨(a + b) % W64, decide (W64 ≤ a + b)⟩
/-- checked `u64 - u64` -/
def csub64 (a b : Nat) : Res := if b ≤ a then ⟨a - b, false⟩ else ⟨a + W64 - b, true⟩

/-- `impl Add for GoldilocksField` -/
def glAdd (a b : Nat) : Res :=
  let s1 := oadd64 a b
  let s2 := oadd64 s1.1 (if s1.2 then EPS else 0)
  if s2.2 then
    let r := cadd64 s2.1 EPS
    ⟨r.val, r.trap || !(decide (P < a) && decide (P < b))⟩
  else ⟨s2.1, false⟩

/-- `impl Sub for GoldilocksField` -/
def glSub (a b : Nat) : Res :=
  let d1 := osub64 a b
  let d2 := osub64 d1.1 (if d1.2 then EPS else 0)
  if d2.2 then
    let r := csub64 d2.1 EPS
    ⟨r.val, r.trap || !(decide (a < EPS - 1) && decide (P < b))⟩
  else ⟨d2.1, false⟩

/-- `to_canonical_u64` -/
def toCanonical (a : Nat) : Nat := if P ≤ a then a - P else a

/-- `impl Neg` (`is_zero` compares canonical forms) -/
def glNeg (a : Nat) : Res :=
  if toCanonical a = 0 then ⟨0, false⟩ else csub64 P (toCanonical a)

/-- `add_no_canonicalize_trashing_input` (documented semantics; the non-x86 twin) -/
def addNoCanon (x y : Nat) : Res :=
  let s := oadd64 x y
  cadd64 s.1 (if s.2 then EPS else 0)

/-- `reduce96((x_lo, x_hi))` -/
def reduce96 (xlo xhi : Nat) : Res :=
  let t1 := xhi * EPS
  let r := addNoCanon xlo (t1 % W64)
  ⟨r.val, r.trap || decide (W64 ≤ t1)⟩

/-- `reduce128(x)` -/
def reduce128 (x : Nat) : Res :=
  let xlo := x % W64
  let xhi := x / W64
  let xhihi := xhi / W32
  let xhilo := xhi % W32
  let b := osub64 xlo xhihi
  let t0 : Res := if b.2 then csub64 b.1 EPS else ⟨b.1, false⟩
  let t1 := xhilo * EPS
  let r := addNoCanon t0.val (t1 % W64)
  ⟨r.val, r.trap || t0.trap || decide (W64 ≤ t1)⟩

/-- `reduce160(x_lo : u128, x_hi : u32)` -/
def reduce160 (xlo128 xhi32 : Nat) : Res :=
  let xhi := xlo128 / 79228162514264337593543950336 + xhi32 * W32   -- (x_lo >> 96) + (x_hi << 32)
  let xmid := (xlo128 / W64) % W32
  let xlo := xlo128 % W64
  let b := osub64 xlo (xhi % W64)
  let t0 : Res := if b.2 then csub64 b.1 EPS else ⟨b.1, false⟩
  let t1 := xmid * EPS
  let r := addNoCanon t0.val (t1 % W64)
  ⟨r.val, r.trap || t0.trap || decide (W64 ≤ t1) || decide (W64 ≤ xhi)⟩

/-- `impl Mul` -/
def glMul (a b : Nat) : Res := reduce128 (a * b)
/-- `Square` -/
def glSquare (a : Nat) : Res := reduce128 (a * a)
/-- `multiply_accumulate`: `reduce128(self + x*y)` -/
def glMulAcc (s x y : Nat) : Res :=
  let v := s + x * y
  let r := reduce128 (v % W128)
  ⟨r.val, r.trap || decide (W128 ≤ v)⟩

/-- `add_canonical_u64` -/
def addCanonicalU64 (a rhs : Nat) : Res :=
  let s := oadd64 a rhs
  cadd64 s.1 (if s.2 then EPS else 0)
/-- `sub_canonical_u64` -/
def subCanonicalU64 (a rhs : Nat) : Res :=
  let s := osub64 a rhs
  csub64 s.1 (if s.2 then EPS else 0)

/-- `from_noncanonical_i64` on the two's-complement word `n : u64` (negative iff `n ≥ 2^63`).
The `debug_assert!(n < ORDER)` of `from_canonical_u64` is the trap. -/
def fromNoncanonicalI64 (n : Nat) : Res :=
  let v := if 9223372036854775808 ≤ n then (P + n) % W64 else n
  ⟨v, decide (P ≤ v)⟩

/-- sequencing of trapping computations -/
@[inline] def Res.bind (r : Res) (f : Nat → Res) : Res :=
  let s := f r.val
  ⟨s.val, r.trap || s.trap⟩

/-- `exp_power_of_2` : square `k` times -/
def expPow2 (a : Nat) : Nat → Res
  | 0 => ⟨a, false⟩
  | k + 1 => (glSquare a).bind (fun s => expPow2 s k)

/-- `exp_acc::<N>(base, tail)` -/
def expAcc (n : Nat) (base tail : Nat) : Res := (expPow2 base n).bind (fun s => glMul s tail)

/-- `try_inverse` (72-multiplication chain); `none` iff the operand is zero -/
def tryInverse (a : Nat) : Option Res :=
  if toCanonical a = 0 then none else some <|
    (glSquare a).bind fun sq => (glMul sq a).bind fun t2 =>
    (glSquare t2).bind fun sq2 => (glMul sq2 a).bind fun t3 =>
    (expAcc 3 t3 t3).bind fun t6 =>
    (expAcc 6 t6 t6).bind fun t12 =>
    (expAcc 12 t12 t12).bind fun t24 =>
    (expAcc 6 t24 t6).bind fun t30 =>
    (glSquare t30).bind fun sq30 => (glMul sq30 a).bind fun t31 =>
    (expAcc 32 t31 t31).bind fun t63 =>
    (glSquare t63).bind fun sq63 => glMul sq63 a

/-- `exp_u64`: square-and-multiply over `bits_u64(power)` bits, LSB first -/
def expU64Loop : Nat → Nat → Nat → Nat → Bool → Res
  | 0, _, _, product, t => ⟨product, t⟩
  | k + 1, power, current, product, t =>
    let pr : Res := if power % 2 = 1 then glMul product current else ⟨product, false⟩
    let cu := glSquare current
    expU64Loop k (power / 2) cu.val pr.val (t || pr.trap || cu.trap)

def bitsU64 (n : Nat) : Nat := if n = 0 then 0 else Nat.log2 n + 1

def expU64 (a power : Nat) : Res := expU64Loop (bitsU64 power) power a 1 false

end P2.L0
