/-
L1: optimal extension fields `GL[X]/(X^D − W)` as in `field/src/extension/*` (generic `OEF` code:
schoolbook multiplication, Frobenius via `DTH_ROOT`, inversion via Frobenius/norm).
An element is an `Array GL` of size `D`.
-/
import P2.Model.Fp
namespace P2

structure ExtParams where
  d : Nat
  w : GL
  dthRoot : GL
deriving Repr

def ext2P : ExtParams := ⟨2, GL.ofNat 7, GL.ofNat 18446744069414584320⟩
def ext4P : ExtParams := ⟨4, GL.ofNat 7, GL.ofNat 281474976710656⟩
def ext5P : ExtParams := ⟨5, GL.ofNat 3, GL.ofNat 1041288259238279555⟩

namespace Ext
abbrev E := Array GL
def zero (p : ExtParams) : E := Array.replicate p.d 0
def ofBase (p : ExtParams) (x : GL) : E := (zero p).set! 0 x
def add (a b : E) : E := Array.zipWith (· + ·) a b
def sub (a b : E) : E := Array.zipWith (· - ·) a b
def neg (a : E) : E := a.map (fun x => -x)
def scalarMul (a : E) (s : GL) : E := a.map (· * s)
/-- schoolbook product modulo `X^D − W` -/
def mul (p : ExtParams) (a b : E) : E := Id.run do
  let d := p.d
  let mut c : E := zero p
  for i in [0:d] do
    for j in [0:d] do
      let t := a[i]! * b[j]!
      if i + j < d then c := c.set! (i + j) (c[i + j]! + t)
      else c := c.set! (i + j - d) (c[i + j - d]! + p.w * t)
  return c
def isZero (a : E) : Bool := a.all (· == 0)
/-- `repeated_frobenius(count)` -/
def repeatedFrobenius (p : ExtParams) (a : E) (count : Nat) : E :=
  let c := count % p.d
  if c = 0 then a else
  let z0 := GL.pow p.dthRoot c
  (Array.range p.d).map fun i => a[i]! * GL.pow z0 i
def frobenius (p : ExtParams) (a : E) : E := repeatedFrobenius p a 1
/-- `try_inverse` of the quadratic / quartic / quintic extension -/
def tryInverse (p : ExtParams) (a : E) : Option E :=
  if isZero a then none else
  let aPowRm1 : E :=
    if p.d = 2 then frobenius p a
    else if p.d = 4 then
      let ap := frobenius p a
      let ap1 := mul p ap a
      let ap32 := repeatedFrobenius p ap1 2
      mul p ap32 ap
    else
      let d := frobenius p a                              -- a^p
      let e := mul p d (frobenius p d)                    -- a^(p + p^2)
      mul p e (repeatedFrobenius p e 2)                   -- a^(p + p^2 + p^3 + p^4)
  let aPowR := mul p aPowRm1 a
  some (scalarMul aPowRm1 (GL.inv aPowR[0]!))
end Ext
end P2
