/-
Known finding F-C14-1 (NOT an obligation of any check — it asserts a defect of the unchanged tree, and a
repair of the constants must not raise an alarm; build it by hand with `lake build P2.Findings.FC14_1`).
`Field::MULTIPLICATIVE_GROUP_GENERATOR` is documented as a generator of the entire multiplicative group;
for D = 2 and D = 4 the constant is a monomial `c·X`, and `X^D = 7` is in the base field, so its order
divides `D(p−1)`. The theorems are the NEGATION of "g generates", with a concrete witness: a prime `q`
dividing `|E| − 1` with `g^((|E|−1)/q) = 1`, evaluated by the kernel on the constants extracted from /repo.
The same witnesses are replayed on the implementation on every run of C14 (harness/src/c14.rs
`generator_orders`), which is what prints the KNOWN-FINDING line.
-/
import P2.Props.C14GenB
namespace P2.Findings.FC14_1
open P2 P2.Props.C14Gen P2.Props.C14GenB

theorem ext2_mult_gen_not_generator :
    (Gen.ORDER ^ 2 - 1) % 7 = 0 ∧
    extPow ext2P (extOfList Gen.EXT2_MULT_GEN) ((Gen.ORDER ^ 2 - 1) / 7) = Ext.ofBase ext2P 1 := by
  decide +kernel

theorem ext4_mult_gen_not_generator :
    (Gen.ORDER ^ 4 - 1) % 13 = 0 ∧
    extPow ext4P (extOfList Gen.EXT4_MULT_GEN) ((Gen.ORDER ^ 4 - 1) / 13) = Ext.ofBase ext4P 1 := by
  decide +kernel


end P2.Findings.FC14_1
