import P2.Drv.Util
import P2.Drv.C14
import P2.Drv.C13
import P2.Drv.C12
import P2.Drv.C15
import P2.Drv.C05
import P2.Drv.C04
import P2.Drv.C16
import P2.Drv.C07
import P2.Drv.C03
import P2.Drv.C01
import P2.Drv.C17
import P2.Drv.C19
import P2.Drv.Stark
/- p2driver: one request per line (`<prop> <op> <nat args…>`), one answer per line. -/
open P2.Drv

def dispatch (line : String) : String :=
  match words line with
  | prop :: op :: args =>
    match natsOf args with
    | none => "BAD-ARGS"
    | some ns =>
      let r : Option String :=
        if prop = "c14" then C14.handle op ns
        else if prop = "c13" then C13.handle op ns
        else if prop = "c12" then C12.handle op ns
        else if prop = "c15" then C15.handle op ns
        else if prop = "c05" then C05.handle op ns
        else if prop = "c04" then (if op = "schallenges" then Stark.handle "challenges" ns else C04.handle op ns)
        else if prop = "c16" then C16.handle op ns
        else if prop = "c07" then C07.handle op ns
        else if (prop = "c01" || prop = "c08") && op = "prog" then C01.handle op ns
        else if prop = "c03" || prop = "c01" || prop = "c02" || prop = "c08" || prop = "c06" || prop = "c20" then C03.handle op ns
        else if prop = "c17" then C17.handle op ns
        else if prop = "c19" then C19.handle op ns
        else if prop = "c09" || prop = "c10" || prop = "c11" then Stark.handle op ns
        else if prop = "c18" then (if op = "sverify" then Stark.handle "verify" ns else C03.handle op ns).map fun v =>
          if v = "ACCEPT" then "OK" else if v.startsWith "REJECT" then "ERR" else v
        else none
      r.getD "BAD-OP"
  | _ => "BAD-LINE"

partial def loop (h : IO.FS.Stream) (out : IO.FS.Stream) : IO Unit := do
  let line ← h.getLine
  if line.isEmpty then return ()
  out.putStrLn (dispatch line)
  loop h out

def main (args : List String) : IO Unit := do
  let out ← IO.getStdout
  match args with
  | [path] =>
    let hnd ← IO.FS.Handle.mk path .read
    loop (IO.FS.Stream.ofHandle hnd) out
  | _ => loop (← IO.getStdin) out
  out.flush
