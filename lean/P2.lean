import P2.Model.Goldilocks
import P2.Model.GlExt
