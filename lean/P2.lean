import P2.Model.Goldilocks
import P2.Model.GlExt
import P2.Model.Fp
import P2.Model.Ext
import P2.Drv.Util
import P2.Drv.C14
