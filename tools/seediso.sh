#!/bin/sh
# usage: tools/seediso.sh <seed-id e.g. C14-m1> [check-ID] [tier]
# Runs a check against a seeded change WITHOUT touching /repo: a scratch worktree of /repo's HEAD gets
# seeded/<seed-id>/patch.diff, a scratch copy of /verif (tools, lean incl. build output, harness sources)
# is pointed at it (VERIF_REPO + harness path dependencies), the check runs there, the outcome is appended
# to /verif/seeded/detections.jsonl, and everything scratch is removed.
SID=$1; ID=${2:-${SID%%-*}}; TIER=${3:-quick}
N=/tmp/sw/$SID-$ID-$$
mkdir -p "$N" || exit 2
git -C /repo worktree add -q --detach "$N/repo" HEAD || exit 2
cleanup() { git -C /repo worktree remove --force "$N/repo" 2>/dev/null; rm -rf "$N"; git -C /repo worktree prune; }
( cd "$N/repo" && { git apply /verif/seeded/$SID/patch.diff || git apply -3 /verif/seeded/$SID/patch.diff; } ) || { echo "patch does not apply"; cleanup; exit 2; }
rsync -a --exclude /run --exclude /harness/target --exclude /.git --exclude /seeded /verif/ "$N/verif/"
sed -i "s|\"/repo/|\"$N/repo/|" "$N/verif/harness/Cargo.toml"
LOG="$N/log.txt"
( cd "$N/verif" && VERIF_REPO="$N/repo" python3 tools/check.py "$ID" --tier "$TIER" ) > "$LOG" 2>&1; RC=$?
tail -12 "$LOG"
python3 - "$SID" "$ID" "$TIER" "$RC" "$LOG" "$N" <<'PY'
import sys, json, re, time, os, fcntl
sid, cid, tier, rc, log, n = sys.argv[1:7]
out = open(log).read()
viol = [l.replace(n, "<scratch>") for l in out.splitlines() if l.startswith("VIOLATION")]
rec = {"seed": sid, "check": cid, "tier": tier, "verif_seed": os.environ.get("VERIF_SEED", "20260922"), "rc": int(rc),
       "detected": int(rc) == 1 and bool(viol), "violation_lines": viol[:6], "summary": [l for l in out.splitlines() if "obligations" in l][-1:],
       "when": time.strftime("%Y-%m-%dT%H:%M:%SZ", time.gmtime()), "mode": "scratch worktree + scratch copy of /verif"}
for l in out.splitlines():
    m = re.search(r"^VIOLATION.*replay=(\S+)", l)
    if m:
        try: rec["replay_head"] = open(m.group(1)).read()[:1500].replace(n, "<scratch>")
        except Exception: pass
        break
if "harness build failed" in (rec.get("replay_head") or ""):
    # the scratch harness did not compile (e.g. /repo HEAD and the harness were out of step): not a detection
    print("seediso: harness build failed in the scratch copy; run NOT recorded"); raise SystemExit(0)
with open("/verif/seeded/detections.jsonl", "a") as f:
    fcntl.flock(f, fcntl.LOCK_EX)
    f.write(json.dumps(rec) + "\n")
print("seediso", sid, cid, tier, "rc=", rc, "detected=", rec["detected"])
PY
cleanup
exit 0
