#!/usr/bin/env python3
"""Write MANIFEST.json from tools/props.py (claimed properties) — keeps the interface consistent."""
import json, os, sys
ROOT = os.path.dirname(os.path.dirname(os.path.abspath(__file__)))
sys.path.insert(0, os.path.join(ROOT, "tools"))
from props import PROPS, NOT_CLAIMED
ids = [json.loads(l)["id"] for l in open(os.path.join(ROOT, "properties.jsonl"))]
checks = []
for pid in ids:
    if pid not in PROPS:
        continue
    c = PROPS[pid]
    checks.append({
        "property_id": pid,
        "quick_cmd": f"python3 tools/check.py {pid} --tier quick",
        "thorough_cmd": f"python3 tools/check.py {pid} --tier thorough",
        "evidence_file": f"/verif/evidence/{pid}.json",
        "engine": "lean4-proof+correspondence",
        "level_claimed": {"category": "proof", "text": c["level_text"], "design_ref": f"DESIGN.md §4 {pid}"},
        "level_note": c["level_note"],
        "technique": c.get("technique", "Lean 4 theorems about an executable model + translator-regenerated constants + differential correspondence with the Rust code"),
    })
na = [{"property_id": p, "reason": NOT_CLAIMED.get(p, "not yet claimed: model/theorems for this property are still under construction in this increment (see DESIGN.md §7 order)")}
      for p in ids if p not in PROPS]
man = {
    "version": 1,
    "setup_cmd": "sh tools/setup.sh",
    "hooks": {
        "guard": "cargo feature `verif_hooks` of the plonky2 crate (off by default)",
        "enable": "the harness crate depends on /repo/plonky2 with features=[\"verif_hooks\"]; one hook exists: plonky2::plonk::prover::verif_hooks::SLDC_COMPENSATE (an adversarial-prover knob: the lookup Sum/LDC accumulator is started from the value that makes it end at zero), compiled only with the feature and inactive unless the harness switches it on at run time; with the feature off (the default, used by the baseline suite) nothing changes. Every other /repo commit beyond the pinned one is an unguarded `fix:` repair listed in known_findings.jsonl",
        "baseline_off_cmd": "cd /repo && cargo test --workspace --no-fail-fast --offline",
        "source_commits": ["4c91423"],
        "add_only": True,
    },
    "engines": [{"name": "lean4-proof+correspondence", "path": "/verif/tools/check.py",
                 "serves_properties": [c["property_id"] for c in checks],
                 "kind_free_text": "Lean 4 library P2 (model + theorems, kernel-checked, axiom audit), translator tools/extract.py regenerating P2/Gen from /repo, Rust harness p2h driving the real code, Lean driver p2driver answering the same request lines"}],
    "checks": checks,
    "not_applicable": na,
    "notes": "See DESIGN.md (section 10 = current state). Every check rebuilds the harness from /repo's working tree and re-runs the translator. Genuine unrepaired defects are listed in known_findings.jsonl (status known) and printed as KNOWN-FINDING lines; repaired ones (status fixed, one fix: commit each) suppress nothing. seeded/ holds the seeded changes used to test the checks (tools/seediso.sh runs a check against one without touching /repo).",
}
json.dump(man, open(os.path.join(ROOT, "MANIFEST.json"), "w"), indent=1)
print("MANIFEST.json:", len(checks), "checks,", len(na), "not claimed")
