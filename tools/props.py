"""Per-property configuration for tools/check.py."""

KERNEL_TB = [
    "Lean 4.33 kernel (lake build) and the axioms listed per theorem (propext, Classical.choice, Quot.sound only)",
    "tools/extract.py (regex translator of constants/tables from /repo into lean/P2/Gen; fails closed)",
    "harness/ (Rust, calls the real code in-process) + lean/Driver.lean + tools/check.py diff (differential tie of the hand-written model)",
]


def canon_trap(s):
    return "TRAP" if s.strip() == "PANIC" else s.strip()


def judge_c14(d):
    a, b = d["impl"], d["model"]
    if a == "TRAP" and b != "TRAP":
        return "implementation violated an internal unchecked assumption / overflowed (panic under debug-assertions+overflow-checks) on operands where the model proves none is violated"
    if b == "TRAP":
        return None
    # second field (after '|' for extension products) is the canonical value
    def val(s):
        if "|" in s:
            return s.split("|", 1)[1].split()
        parts = s.split()
        return parts[1:] if len(parts) == 2 else parts
    if val(a) != val(b):
        return "implementation returns a residue different from exact arithmetic modulo p"
    return None


PROPS = {
    "C14": {
        "lean_modules": ["P2.Props.C14Gen"],
        "audit_module": "P2.Audit.C14",
        "harness_prop": "c14",
        "profile": "verif",
        "canon": canon_trap,
        "judge": judge_c14,
        "trusted_base": KERNEL_TB + [
            "modelled, not verified: Rust control flow of goldilocks_field.rs / goldilocks_extensions.rs transcribed by hand into P2/Model/Goldilocks.lean, GlExt.lean (bit-exact tie by correspondence)",
            "x86 inline asm add_no_canonicalize_trashing_input modelled by its documented semantics",
            "packed AVX2/AVX-512 lanes: not modelled (partial)",
        ],
        "level_text": "Machine-checked Lean 4 theorems: the bit-exact model of every scalar Goldilocks operator and of the delayed-reduction extension multiplications returns the exact residue for ALL operands with no unchecked assumption violated; constants re-extracted from /repo each run; model tied to the Rust code bit-exactly by correspondence",
        "level_note": "Trusted: Lean kernel; axioms propext/Classical.choice/Quot.sound; extract.py; hand transcription of the Rust control flow tied by differential correspondence (bit-exact raw representation + canonical value vs Nat arithmetic); x86 asm by documented semantics; packed SIMD lanes not covered (partial).",
        "assumptions": ["harness built with debug-assertions and overflow-checks so violated assume()/overflow panics"],
        "rule": "operator requests on boundary pairs, branch witnesses (double overflow/underflow, reduce128 borrow), carry-shaped and random canonical/non-canonical words; distinct = distinct request lines; non-trivial = every request exercises one operator on the real code and on the L0 model (bit-exact) and on Nat arithmetic mod p",
    },
}

NOT_CLAIMED = {}
