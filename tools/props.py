"""Per-property configuration for tools/check.py."""

KERNEL_TB = [
    "Lean 4.33 kernel (lake build) and the axioms listed per theorem (propext, Classical.choice, Quot.sound only)",
    "tools/extract.py (regex translator of constants/tables from /repo into lean/P2/Gen; fails closed)",
    "harness/ (Rust, calls the real code in-process) + lean/Driver.lean + tools/check.py diff (differential tie of the hand-written model)",
]


def canon_trap(s):
    return "TRAP" if s.strip() == "PANIC" else s.strip()


def judge_c14(d):
    a, b = d["impl"], d["model"]
    if a == "TRAP" and b != "TRAP":
        return "implementation violated an internal unchecked assumption / overflowed (panic under debug-assertions+overflow-checks) on operands where the model proves none is violated"
    if b == "TRAP":
        return None
    # second field (after '|' for extension products) is the canonical value
    def val(s):
        if "|" in s:
            return s.split("|", 1)[1].split()
        parts = s.split()
        return parts[1:] if len(parts) == 2 else parts
    if val(a) != val(b):
        return "implementation returns a residue different from exact arithmetic modulo p"
    return None


PROPS = {
    "C14": {
        "lean_modules": ["P2.Props.C14Gen", "P2.Props.C14GenB", "P2.Props.C14"],
        "audit_module": "P2.Audit.C14",
        "extra_audit_modules": ["P2.Audit.GL2Field", "P2.Audit.C14GenB"],
        "harness_prop": "c14",
        "profile": "verif",
        "canon": canon_trap,
        "judge": judge_c14,
        "trusted_base": KERNEL_TB + [
            "modelled, not verified: Rust control flow of goldilocks_field.rs / goldilocks_extensions.rs transcribed by hand into P2/Model/Goldilocks.lean, GlExt.lean (bit-exact tie by correspondence)",
            "x86 inline asm add_no_canonicalize_trashing_input modelled by its documented semantics",
            "packed AVX2/AVX-512 lanes: not modelled (partial)",
        ],
        "level_text": "(GL2Field: 7 is a quadratic non-residue mod p (Euler criterion, kernel-evaluated modular power), hence the model's quadratic extension GL2 with ITS OWN add/mul/sub/neg/inv is a field; instFOpsGL2 = FOps.ofField GL2 and instFOpsGL = FOps.ofField GL, so every field-generic theorem of this development instantiates at the model's types; pow2Gen has order 2^32 and primitiveRoot k is a primitive 2^k-th root) Machine-checked Lean 4 theorems: the bit-exact model of every scalar Goldilocks operator and of the delayed-reduction extension multiplications returns the exact residue for ALL operands with no unchecked assumption violated; constants re-extracted from /repo each run; model tied to the Rust code bit-exactly by correspondence",
        "level_note": "Trusted: Lean kernel; axioms propext/Classical.choice/Quot.sound; extract.py; hand transcription of the Rust control flow tied by differential correspondence (bit-exact raw representation + canonical value vs Nat arithmetic); x86 asm by documented semantics; packed SIMD lanes not covered (partial). Known finding F-C14-1: the quadratic and quartic EXT_MULTIPLICATIVE_GROUP_GENERATOR constants are not generators (kernel-checked negation in P2/Findings/FC14_1.lean — deliberately not an obligation — with the witnesses q = 7 and q = 13, replayed on the implementation by the generator-order probes of the harness); the two-adic generators, which is what the code uses, have exactly their declared orders.",
        "assumptions": ["harness built with debug-assertions and overflow-checks so violated assume()/overflow panics"],
        "rule": "operator requests on boundary pairs, branch witnesses (double overflow/underflow, reduce128 borrow), carry-shaped and random canonical/non-canonical words; distinct = distinct request lines; non-trivial = every request exercises one operator on the real code and on the L0 model (bit-exact) and on Nat arithmetic mod p",
    },
}

def judge_c13(d):
    a, b = d["impl"], d["model"]
    if a == "TRAP" and b != "TRAP":
        return "implementation violated an internal unchecked assumption / overflowed on a state where the model raises none"
    if b == "TRAP" or a == "TRAP":
        return None
    def val(s):
        return s.split("|", 1)[1].split() if "|" in s else s.split()
    if val(a) != val(b):
        return "implementation output differs from the textbook Poseidon / overwrite-mode sponge specification"
    return None


PROPS["C13"] = {
    "lean_modules": ["P2.Props.C13Gen", "P2.Props.C13"],
    "audit_module": "P2.Audit.C13",
    "harness_prop": "c13",
    "profile": "verif",
    "canon": canon_trap,
    "judge": judge_c13,
    "trusted_base": KERNEL_TB + [
        "modelled, not verified: control flow of poseidon.rs / poseidon_goldilocks.rs / hashing.rs / challenger.rs transcribed by hand (P2/Model/PoseidonFast.lean bit-exact, Poseidon.lean = textbook spec, Sponge.lean, Challenger.lean)",
        "Keccak configuration and SIMD lanes not modelled (partial); no packed Poseidon is compiled in this tree",
    ],
    "level_text": "Lean 4: textbook Poseidon specification built from the tables extracted from /repo each run; kernel-checked facts on those tables (canonical round constants, table shapes, small MDS entries, frequency-domain blocks = circulant on the basis); the optimised routines' bit-exact model and the sponge/challenger state machines tied to the Rust code by correspondence on canonical, non-canonical and carry-shaped states and random absorb/squeeze histories (native and in-circuit challenger)",
    "level_note": "Trusted: Lean kernel, standard axioms, extract.py, hand transcription tied by differential correspondence against the *textbook* model (so agreement is with the specification). Theorems fast=spec for all states and challenger refinement are being added (see DESIGN.md §C13); until then that part rests on the correspondence. SIMD/Keccak partial.",
    "assumptions": ["harness built with debug-assertions and overflow-checks"],
    "rule": "layer/permutation requests on all-max, half-ones, non-canonical, boundary, canonical and mixed states; sponge for every length 0..40 and longer; random challenger histories (native) and in-circuit challenger histories through witness generation; distinct = distinct request lines",
}

def judge_c12(d):
    a, b = d["impl"], d["model"]
    rq = d["request"]
    if rq.startswith("c12 verify"):
        return f"verification verdict of the implementation ({a}) differs from the Merkle model ({b}): a proof/leaf/position/cap combination is accepted or rejected wrongly"
    if rq.startswith("c12 tree"):
        pa, pb = a.split("|"), b.split("|")
        if len(pa) == 3 and len(pb) == 3 and pa[0].split() != pb[0].split():
            return "the cap differs from hashing the leaves pairwise level by level"
        if len(pa) == 3 and len(pb) == 3 and pa[2].split() != pb[2].split():
            return "a membership proof differs from the siblings of the committed path"
    return None


PROPS["C12"] = {
    "lean_modules": ["P2.Props.C12", "P2.Props.C12b", "P2.Props.C12c", "P2.Props.C12d"],
    "audit_module": "P2.Audit.C12",
    "extra_audit_modules": ["P2.Audit.C12d"],
    "harness_prop": "c12",
    "profile": "release",
    "judge": judge_c12,
    "trusted_base": KERNEL_TB + [
        "modelled, not verified: merkle_tree.rs / merkle_proofs.rs control flow transcribed by hand (P2/Model/Merkle.lean), rayon joins as sequential recursion, MaybeUninit buffers as lists",
        "hash functions are parameters of the theorems; collision-freeness appears only as an explicit disjunct (a returned collision witness)",
        "thread schedules: runtime fact, exercised with rayon pools of 1/2/16 threads (partial)",
        "Keccak: Keccak-f[1600] / keccak256 / KeccakHash<N> (hash_no_pad, two_to_one, hash_or_noop, BytesHash::to_vec, the permutation 'onion' with rejection sampling) and batch Merkle trees (batch_merkle_tree.rs, verify_batch_merkle_proof_to_cap) transcribed by hand (P2/Model/Keccak.lean, BatchMerkle.lean); the harness uses the keccak-hash crate (same version as plonky2) for raw Keccak-256 on byte strings",
    ],
    "level_text": "(C12d: batch Merkle completeness for ANY number of matrices of strictly decreasing heights above the cap) (Keccak hasher and batch Merkle trees included: theorems C12c for any hasher and embedding to_vec — verifyBatch on one matrix = verifyToCap, batch openings bind rows and siblings or exhibit a collision (EmbedsTwo discharged for sponge hashers and for KeccakHash<N>), completeness for two matrices of different heights) Lean 4 theorems for every tree height, cap height, position and abstract hasher: binding of verification (two accepted openings at one position of one cap entry coincide or exhibit an explicit hash collision), completeness of prove/verify and cap = level-by-level hashing on the model; model tied to MerkleTree::new / prove / verify_merkle_proof_to_cap by correspondence incl. negative requests and panics",
    "level_note": "Trusted: Lean kernel, standard axioms, hand transcription tied by differential correspondence (digest buffer layout, caps, proofs, verdict classes OK/ERR/PANIC). Thread interleavings of the MaybeUninit fill cannot be exhibited by the model (partial).",
    "assumptions": [],
    "rule": "Keccak: every input length 0..300 + block boundaries, KeccakHash<25/32> on widths around the no-op boundary, permutation states incl. rejection-sampling corpus, Keccak trees under 1/2/16 threads with 9 negative classes; batch trees: 23 shapes (1-4 matrices, heights 2^0..2^6) x cap heights x Poseidon/Keccak with 15 negative classes; trees for k=0..6 (thorough 9), every cap height, widths shorter/longer than a digest, all or sampled positions, 8 negative request classes per position; distinct = distinct request lines",
}

def judge_c15(d):
    a, b = d["impl"], d["model"]
    if "MODEL-SELF-MISMATCH" in b:
        return None
    rq = d["request"].split()[1]
    names = {"fft": "the transform differs from direct evaluation on the subgroup", "ifft": "the inverse transform does not invert the transform",
             "cosetfft": "coset transform differs from evaluation on the coset", "cosetifft": "coset inverse transform wrong",
             "lde": "low-degree extension does not preserve the polynomial", "revperm": "reverse_index_bits is not the bit-reversal permutation",
             "revinplace": "in-place bit reversal is not the bit-reversal permutation", "transpose": "transpose wrong",
             "eval": "evaluation differs from Horner/sum definition", "polymul": "product differs from schoolbook multiplication",
             "divrem": "quotient/remainder violate a = q*b + r with deg r < deg b (or division panicked)",
             "divlin": "division by a linear factor violates q*(X - z) + p(z) = p", "interp": "interpolation differs from the Lagrange interpolant",
             "zpoly": "zero polynomial on coset differs from (g w^i)^n - 1"}
    return names.get(rq)


PROPS["C15"] = {
    "lean_modules": ["P2.Props.C15Gen", "P2.Props.C15", "P2.Props.C15b"],
    "audit_module": "P2.Audit.C15",
    "extra_audit_modules": ["P2.Audit.C15b"],
    "harness_prop": "c15",
    "profile": "release",
    "judge": judge_c15,
    "trusted_base": KERNEL_TB + [
        "modelled, not verified: fft.rs / polynomial/*.rs / interpolation.rs / util bit reversal transcribed by hand (P2/Model/Fft.lean, Poly.lean, BitRev.lean); the driver answers with the O(n^2) definition (sizes <= 2^7) and the round-by-round model, schoolbook product and long division (unique q, r)",
        "packed (SIMD) butterflies: same scalar semantics assumed, exercised only through the build's default packing (partial)",
    ],
    "level_text": "(C15b, polynomial algebra of the model = Mathlib's K[X]: trim/degree normal form, add/sub/mul as polynomial operations (schoolbook product = convolution), divRem IS Euclidean division (quotient and remainder equal a / b and a % b, trimmed; none exactly for a nonzero dividend over the zero divisor; the fuel suffices), coset FFT evaluates on shift*omega^i and cosetIfft inverts it, LDE evaluates the same polynomial on the larger domain and sub-samples to the original values, barycentric weights = Lagrange nodal weights and the barycentric interpolation formula = Lagrange interpolation for distinct nodes, Z_H on a coset is periodic with period 2^rate) Lean 4: kernel-checked facts on the extracted 6-bit reversal table and index arithmetic (all n_power <= 6 exhaustively, chunked in-place map for lb_n <= 10), executable definitions (DFT by definition, schoolbook product, long division, Lagrange interpolant) against which every fast routine of the real code is compared for all small sizes and sampled larger ones; general theorems (bit reversal for every size, divide_by_linear identity, round invariant) being added",
    "level_note": "Trusted: Lean kernel, standard axioms, extract.py, hand-written definitions tied by correspondence. Found and repaired two genuine defects of div_rem on this tree (known_findings.jsonl F-C15-1/2).",
    "assumptions": [],
    "rule": "fft/ifft/coset/lde for every size 2^0..2^10 (thorough 2^13) with every zero_factor, with/without (larger) root tables; bit reversal out of place and in place for element sizes 8B..16KiB on both sides of the chunking thresholds; polynomial operand kinds empty/zero/constant/dense/leading-zeros/sparse incl. sparse divisors; distinct = distinct request lines",
}

def judge_c05(d):
    a, b = d["impl"], d["model"]
    rq = d["request"]
    if rq.startswith("c05 verify"):
        if a == "ACCEPT" and b != "ACCEPT":
            return f"the implementation ACCEPTS an opening proof that the FRI verifier model rejects ({b}) with the challenges held fixed"
        if b == "ACCEPT" and a != "ACCEPT":
            return f"the implementation rejects ({a}) an opening proof the FRI verifier model accepts (honest proofs must be accepted)"
        if a == "PANIC" and b != "PANIC":
            return f"the implementation panics where the model returns {b}"
        return f"verdict stage differs: implementation {a}, model {b}"
    if rq.startswith("c05 constarity"):
        return "ConstantArityBits schedule differs from the model (sum of arities / cap-height guard)"
    return None


PROPS["C05"] = {
    "lean_modules": ["P2.Props.C05", "P2.Props.C05b", "P2.Props.C05c", "P2.Props.GL2Inst"],
    "audit_module": "P2.Audit.C05",
    "extra_audit_modules": ["P2.Audit.GL2Inst"],
    "harness_prop": "c05",
    "profile": "release",
    "judge": judge_c05,
    "trusted_base": KERNEL_TB + [
        "modelled, not verified: fri/verifier.rs, fri/validate_shape.rs, reduction_strategies.rs transcribed by hand (P2/Model/Fri.lean); Poseidon hasher only; batch FRI: batch_fri/verifier.rs, validate_batch_fri_proof_shape, verify_batch_merkle_proof_to_cap transcribed in P2/Model/BatchFri.lean",
        "NOT proved (cryptographic idealisation): proximity soundness of the FRI query phase; the theorems cover decision logic and the algebraic identities each check relies on",
    ],
    "level_text": "(GL2Inst: computeEvaluation_fold — the model's Fri.computeEvaluation on GL2, bit reversal and coset start included, returns the beta-fold of the coset polynomials; combine_soundness at GL2) (incl. batch FRI: BatchFri.verifyBatch with the per-layer mix-in of lower-degree groups, batch Merkle openings, shape validation; theorems: acceptance decomposition, exact mix-in rule per layer, and verifyBatch on one instance = Fri.verify when no oracle is salted) Lean 4 model of the complete FRI verifier (shape, PoW, initial Merkle openings, combination of openings, per-layer interpolation/consistency/Merkle checks, final polynomial) with theorems on its decision logic and the arity schedule; tied to verify_fri_proof by exact verdict-and-stage agreement on honest opening proofs and on a deviation catalogue with challenges held fixed",
    "level_note": "Trusted: Lean kernel, standard axioms, hand transcription tied by correspondence (exact agreement of two deterministic verifiers, no probabilistic slack). FRI proximity soundness is assumed, not proved.",
    "assumptions": ["FRI proximity soundness", "collision resistance of Poseidon appears only as an explicit disjunct in C12's theorems"],
    "rule": "batch FRI: 1-4 strictly decreasing degree groups x Fixed/ConstantArity schedules (inner / last-exact / no-reduction joins) x per-group and batch-specific deviations (shifted num_polys, swapped instances/openings/degree bits, dropped instance, wrong degree) + single-degree catalogue; honest opening proofs for random oracle shapes (1-4 oracles, 1-6 polys, blinding), degrees 2^1..2^7 (thorough 2^9), rate 1-4, cap 0-4, Fixed/ConstantArity/MinSize strategies, 1-5 queries (thorough 12) x 17 deviation classes with challenges fixed; ConstantArityBits schedule for all small parameters; distinct = distinct request lines",
}

def judge_c04(d):
    return "a Fiat-Shamir challenge computed by the implementation differs from the transcript model (a statement/proof component is absorbed differently, in a different order, or not at all)"


PROPS["C04"] = {
    "lean_modules": ["P2.Props.C04", "P2.Props.C04b", "P2.Props.C09c"],
    "audit_module": "P2.Audit.C04",
    "harness_prop": "c04",
    "profile": "release",
    "judge": judge_c04,
    "trusted_base": KERNEL_TB + [
        "modelled, not verified: plonk/get_challenges.rs, fri/challenges.rs, FriParams::observe, iop/challenger.rs transcribed by hand (P2/Model/Plonk.lean getChallenges/plonkSchedule/friSchedule, Challenger.lean)",
        "STARK transcripts not modelled yet (partial); Keccak configuration not modelled (partial)",
        "cryptographic idealisation: reading 'changes all later challenges' as a random-oracle statement; the theorems state coverage/order of absorption and state dependence",
    ],
    "level_text": "(STARK transcripts included: C09c theorems on the order of absorptions and draws of starky's get_challenges incl. the inside of fri_challenges, with injectivity of the observed history; correspondence on every challenge of plain and padded/variable-degree STARK proofs, incl. a proof whose final polynomial is longer than the verifier circuit's, and the oracle 'altering any absorbed component — first, middle, last element of each class — changes the challenge vector') Lean 4: the PLONK Fiat-Shamir schedule as an explicit event list with theorems that every statement component and prover message is absorbed, in order, before the challenges drawn after it (any proof shape); the challenger state machine (C13 refinement theorems); every challenge of real proofs (with/without lookups, zk, several FRI layer counts) is recomputed by the Lean model from the dumped statement+proof and must equal get_challenges; plus the property's own oracle on the implementation (alter one component => every later challenge group changes, no earlier one does)",
    "level_note": "Trusted: Lean kernel, standard axioms, hand transcription tied by exact agreement of all challenges on honest and altered transcripts. Random-oracle reading is an idealisation; STARK schedule partial.",
    "assumptions": ["Poseidon as a random oracle for the reading 'changes all challenges'"],
    "rule": "proofs of generated circuit programs under generated configs x 9+ altered transcript components each; all challenges compared; distinct = distinct request lines",
}

def judge_c16(d):
    rq = d["request"]
    if rq.startswith("c16 compress"):
        return "FriProof::compress output differs from the compression model (transposition, inferable element removal, path compression or first-wins maps)"
    if rq.startswith("c16 paths"):
        return None
    return None


PROPS["C16"] = {
    "lean_modules": ["P2.Props.C16a", "P2.Props.C16b"],
    "audit_module": "P2.Audit.C16",
    "extra_audit_modules": ["P2.Audit.C16b"],
    "harness_prop": "c16",
    "profile": "release",
    "judge": judge_c16,
    "trusted_base": KERNEL_TB + [
        "modelled, not verified: hash/path_compression.rs and FriProof::compress transcribed by hand (P2/Model/PathCompression.lean, Compress.lean); FriProof decompression and verify_compressed are exercised on the implementation only (round trip + verdict equivalence oracle), their Lean model is partial",
    ],
    "level_text": "(C16b: Lean model of get_inferred_elements and CompressedFriProof::decompress and of the PLONK-level compress / decompress / verify_compressed, tied to the real code by requests decompress / vcompressed / pcompress incl. edited compressed proofs; theorems: first-wins maps — lookup in the compressed map returns the entry of the FIRST query with that index, sorting by key preserves lookups (qsort permutation lemma proved from scratch); acceptance by Fri.verify implies every omitted coset evaluation equals the inferred one (consistent_of_accept); per query round, for all layers incl. repeated indices and shared cosets, re-insertion of the inferred evaluations rebuilds the original evaluation vectors (decompress_query_aligned_partial); compression keeps every transcript part, so the challenges of the compressed proof are those of the original; verify_compressed accepts an accepted proof GIVEN the round trip (verifyCompressed_of_roundtrip); conversely acceptance by the compressed verifier implies that the decompressed proof passed the full shape validation and verify_with_challenges (verifyCompressed_accept_imp; a mis-shaped decompressed proof is never accepted — F-C16-1 as repaired); towards the closed round trip: step maps are first-wins per layer (compress_step_first_wins), for a well-formed accepted proof inferredElements succeeds and the evaluation part of decompress rebuilds exactly the evaluation vectors of every query round incl. duplicates and shared cosets (inferred_and_rebuilt_of_accept, rebuilt_evals), combineInitial reads only leaves, Merkle paths of the initial trees round-trip under an honest-tree witness with first-wins compressed paths (merkle_roundtrip_first_wins, initial_tree_paths_roundtrip) — the per-layer tree instance and the final reassembly into decompress(compress p) = p are NOT proved) Lean 4 theorem: Merkle multi-proof compression followed by decompression returns the original proofs for EVERY tree, cap height and index multiset (repeats and shared cosets included), against the actual prove function of the Merkle model; FriProof::compress tied to its Lean model by exact equality of the compressed proof on real proofs with colliding query indices; decompress/verify_compressed checked by the property's own oracle on the implementation (lossless, verdict-equivalent, also on tampered proofs)",
    "level_note": "Found (independent audit agents, reproduced here with harness/src/forge.rs) and repaired in /repo: F-C16-1 — verify_compressed accepted FORGED proofs for any circuit and any public inputs (no shape validation on the compressed path; the number of quotient identities was taken from the proof). The forged-shape generator stays in the check (plain and compressed verification must both reject). Trusted: Lean kernel, standard axioms, hand transcription tied by correspondence; generators force repeated indices and shared cosets (tiny LDE domains, 28-40 queries, arities 1-4, cap heights 0-4, zk on/off).",
    "assumptions": [],
    "rule": "accepted proofs of generated programs under collision-forcing configs; per proof: compress/decompress/verify_compressed oracle, model-vs-real compressed FRI proof, 3 path-roundtrip requests on real Merkle paths with chosen index multisets, 2 tampered variants; distinct = distinct request lines",
}

def judge_c07(d):
    a, b = d["impl"], d["model"]
    rq = d["request"]
    if "MISMATCH" in a:
        return "the gate's evaluators (base / packed batch / extension / in-circuit) disagree on identical inputs: " + a[:200]
    if rq.startswith("c07 eval"):
        return "constraint values of the implementation differ from the gate model on this row"
    if rq.startswith("c07 meta"):
        return "declared num_constraints/degree/num_wires/num_constants differ from the gate model"
    if rq.startswith("c07 gen"):
        return "the row filled in by the gate's generators differs from the generator model"
    return None


PROPS["C07"] = {
    "lean_modules": ["P2.Props.C07", "P2.Props.C07b", "P2.Props.GL2Inst"],
    "audit_module": "P2.Audit.C07",
    "extra_audit_modules": ["P2.Audit.GL2Inst"],
    "harness_prop": "c07",
    "profile": "release",
    "judge": judge_c07,
    "trusted_base": KERNEL_TB + [
        "modelled, not verified: eval_unfiltered and the generators of all 16 gates of plonky2/src/gates transcribed by hand (P2/Model/Gates.lean), generic over the field so that the same model answers base-field and extension-field evaluation",
        "packed evaluators only at the build's default packing width (partial)",
    ],
    "level_text": "(GL2Inst: arithmetic_sat_iff, baseSum_pinned_sat, exponentiation_semantics instantiated at the model's own base field GL for GateKind.evalUnfiltered) Lean 4 model of every built-in gate (constraints, declared counts/degrees, generators) with theorems for all parameter values; tied to the four Rust evaluators (base batch 1/2/33, extension, in-circuit) and to the gates' own generators by exact equality on random, boundary and generator-filled rows for a sweep of all parameters; the property's own oracles run on the implementation: generated rows satisfy all constraints, every generator-written wire replaced by v+1/0/random is detected, constraint counts and low degree as declared",
    "level_note": "Trusted: Lean kernel, standard axioms, hand transcription tied by correspondence. Gadget contracts respected when generating rows (boolean power bits, index < 2^bits, sum < B^limbs, shift != 0). Lookup gates have no constraints of their own (decided under C08).",
    "assumptions": [],
    "rule": "all 16 gate types x parameter sweep x (random, boundary, generated, perturbed) rows x evaluators; distinct = distinct request lines",
}

def judge_plonk_verdict(d):
    a, b = d["impl"], d["model"]
    if a == "ACCEPT" and b != "ACCEPT":
        return f"the implementation ACCEPTS a proof that the PLONK verifier model rejects ({b}): a check is missing or weakened"
    if b == "ACCEPT" and a != "ACCEPT":
        return f"the implementation rejects ({a}) a proof the verifier model accepts"
    if a == "PANIC" and b != "PANIC":
        return f"the implementation panics where the model returns {b}"
    return f"verdict/stage differs: implementation {a}, model {b}"


PLONK_TB = KERNEL_TB + [
    "modelled, not verified: plonk/verifier.rs, validate_shape.rs, get_challenges.rs, vanishing_poly.rs (eval_vanishing_poly, check_lookup_constraints), util/partial_products.rs, gates/gate.rs filters, circuit_data.rs get_fri_instance, fri/verifier.rs transcribed by hand (P2/Model/Plonk.lean, Fri.lean, Gates.lean); Poseidon config only",
    "NOT proved (cryptographic idealisations): FRI proximity soundness, Fiat-Shamir in the random-oracle model, collision resistance of Poseidon (explicit disjunct in C12's theorems)",
]

PROPS["C03"] = {
    "lean_modules": ["P2.Props.C03"],
    "audit_module": "P2.Audit.C03",
    "harness_prop": "c03",
    "profile": "release",
    "judge": judge_plonk_verdict,
    "trusted_base": PLONK_TB,
    "level_text": "Lean 4 model of the complete PLONK verifier with theorems on its decision logic (acceptance = shape AND identity for challenges recomputed from statement+proof AND every FRI/Merkle check; shape acceptance pins every list length; the preprocessed cap is taken from the verifier data); tied to CircuitData::verify by exact verdict-and-stage agreement on honest proofs and on per-element tampering / list surgery / foreign verifier data generated by a generic walk over the proof's serde tree; plus the property's oracle on the implementation at standard strength (every edited element rejected)",
    "level_note": "Trusted: Lean kernel, standard axioms, hand transcription tied by exact agreement of two deterministic verifiers. Acceptance 'by luck' is excluded by comparing exact verdicts on weak configs and asserting REJECT only at standard strength. Compressed-form tampering is covered under C16/C18.",
    "assumptions": ["FRI proximity soundness", "random oracle", "collision resistance (explicit disjunct)"],
    "rule": "accepted proofs of generated programs (>= 2^6 rows, with hashing/lookups/random access per feature bits) under few-query configs: for every class of JSON leaf (caps, each opening list, leaves, siblings, step evals, final poly, pow witness, public inputs) a few positions x {+1, 0/1, random}; 3 surgeries per array class; foreign verifier data; standard-strength sweep of every 7th element (thorough: every element); distinct = distinct request lines",
}

def judge_c18(d):
    a, b = d["impl"], d["model"]
    if a == "PANIC":
        return "verification of a malformed plain proof PANICS"
    if a == "OK":
        return "a malformed plain proof is accepted"
    return f"outcome class differs: implementation {a}, model {b}"


PROPS["C18"] = {
    "lean_modules": ["P2.Props.C18", "P2.Props.C18b"],
    "audit_module": "P2.Audit.C18",
    "harness_prop": "c18",
    "profile": "release",
    "judge": judge_c18,
    "trusted_base": PLONK_TB + [
        "byte decoders (from_bytes) are exercised on the implementation only (outcome classes); their codec model is part of C17 (partial)",
        "STARK entry point verify_stark_proof: structural mutants compared with the Lean STARK verifier model (P2/Model/Stark.lean), which reproduces the panics that precede shape validation (known findings F-C18-3a/b)",
    ],
    "level_text": "Lean 4: three-valued verifier model (accept / reject / panic) in which every index, lookup and subtraction of verify is a partial operation; theorems: PLONK shape validation is total and panic-free on structurally arbitrary proofs, a wrong shape is a clean error; tied to CircuitData::verify by outcome-class agreement (OK/ERR/PANIC) on structural mutants of every array of the proof's serde tree; the property's oracle runs on the implementation for plain and compressed verification, decompression and both byte decoders (truncations, bit flips, 8-byte field overwrites incl. huge lengths, random bytes); theorems C18b: once Fri.validateShape accepts, NO panic point of the FRI verifier model is reachable (fri_verify_never_panics) and, under common-data well-formedness (total arity <= degree_bits) and a verifier-data cap of the right length, Plonk.verify never panics on ANY proof value (plonk_verify_never_panics) — stating this theorem exposed F-C18-5; re-ground mutants (pow witness searched so that commit-phase-cap / final-polynomial surgery gets past the pow and Merkle checks) and STARK proof mutants are part of the correspondence",
    "level_note": "F-C18-1 (panic on caps of non-power-of-two length) and F-C18-5 (missing commit-phase cap => index panic, surplus cap accepted) were found with this model and repaired in /repo (fix: commits). STARK: F-C18-3a/b (panics before shape validation) are genuine and recorded as known findings. The compressed form has no shape validation: F-C18-2 / F-C18-4 are genuine and recorded in known_findings.jsonl (not a small repair); any OTHER panic or wrongly accepted malformed input is reported as a violation.",
    "assumptions": [],
    "rule": "per accepted proof: 5 surgeries x every array class (plain), 3 surgeries x every array class + map entry removal/addition + numeric edits (compressed), byte mutants of both encodings; distinct = distinct request lines",
}

def judge_c01(d):
    rq = d["request"]
    if rq.startswith("c01 prog"):
        return "the program's public inputs computed by the reference semantics (evalProg) differ from the harness's direct evaluation"
    return judge_plonk_verdict(d)


PROPS["C01"] = {
    "lean_modules": ["P2.Props.C01", "P2.Props.C01b", "P2.Props.C01c", "P2.Props.C03"],
    "audit_module": "P2.Audit.C01",
    "extra_audit_modules": ["P2.Audit.C01c"],
    "harness_prop": "c01",
    "profile": "release",
    "judge": judge_c01,
    "trusted_base": PLONK_TB + [
        "the gadget compiler (CircuitBuilder gadgets -> gates and copy constraints) is NOT modelled: its correctness is tied only by the end-to-end correspondence (public inputs carried by real proofs = evalProg; Lean verifier accepts) — partial",
    ],
    "level_text": "Lean 4: denotational semantics evalProg of a circuit-program language over the builder's gadgets, the complete PLONK verifier model; every generated satisfiable program is built, proved, verified (plain and compressed) by the real code under generated admissible configurations, its public inputs must equal evalProg computed in Lean, and the Lean verifier must accept the dumped proof; C01c: the exponentiation gadgets (exp_from_bits with its chunk loop for exponents wider than one ExponentiationGate, the arithmetic-gate path of exp_from_bits_const_base, exp_u64) are modelled as algorithms and proved equal to base^exponent over any commutative ring for every bit list and gate width (the gate's own pinning is C07)",
    "level_note": "Admissible := check_config passes and build returns; configurations the builder refuses loudly are counted only. F-C01-1 (honest proof rejected under Fixed arities exceeding the degree) found with this check and repaired in /repo. F-C01-3 (32-bit shift in exp_from_bits_const_base) and F-C01-4 (exponent bits beyond one gate landing on the output wire; 64-bit shifts) were found by audit agents, reproduced with the wide/narrow-row gadget cases of this check and repaired in /repo; C01c states what the repaired algorithms compute. F-C01-2 (zk with Fixed/small MinSize schedules never fits blinding) is avoided by the generator and recorded in DESIGN.md.",
    "assumptions": ["negligible-probability prover failures (zeta in H, PoW search exhausted) are not expected within the explored cases"],
    "rule": "generated programs (6-300 ops; arithmetic, boolean, select, split/range-check, random access, exponentiation, hashing, lookups with 1-3 tables of 1-60 entries, extension arithmetic) x configs (zk, narrow/wide rows, Fixed/Constant/MinSize, rate 3-4, cap 0-4, 1-3 challenges, standard and cheap strength); distinct = distinct request lines",
}

PROPS["C02"] = {
    "lean_modules": ["P2.Props.C03", "P2.Props.C07b", "P2.Props.C02b", "P2.Props.C02c"],
    "audit_module": "P2.Audit.C02",
    "extra_audit_modules": ["P2.Audit.GL2Field"],
        "harness_prop": "c02",
    "profile": "release",
    "judge": judge_plonk_verdict,
    "trusted_base": PLONK_TB + [
        "adversarial prover strategies behind hooks (Z override, quotient perturbation, grinding override) are not built yet: only the honest algorithm on an invalid witness through the public prove_with_partition_witness (partial)",
    ],
    "level_text": "(instantiated at the model's own GL2 via GL2Field: if the alpha-combination computed by the verifier model vanishes for more base-field alphas than there are terms, every term is zero) (C02c, glue between the algebra and the verifier model itself: evalVanishingPoly = alphas.map (Horner of vanishingTerms) where vanishingTerms = L0*(Z_i-1) terms ++ partial-product checks ++ lookup checks ++ gate constraints in the code's order; every family is a member — none can be silently dropped; evaluateGateConstraints[j] = sum of filter_i * constraint_j over the gates, a single term when the other filters vanish; Plonk.verify = accept implies, for every challenge i, Horner(vanishingTerms, alpha_i) = (zeta^n - 1) * Horner(quotient chunk i, zeta^n); over a field, vanishing of the combination for more alphas than terms forces every family to zero) Lean 4: verifier decision logic (acceptance forces the quotient identity for challenges recomputed from the proof) and the gate pinning theorems (a generator-written output changed alone makes its gate's constraint non-zero, all parameters); tied by exact verdict agreement of the Lean verifier with CircuitData::verify on proofs the real prover emits for certainly-violating witnesses (gate output changed alone, one routed member of a copy class made to differ, class-wide change of a produced-and-consumed variable), incl. routed-wire counts that are not a multiple of the quotient degree factor; REJECT asserted at standard strength",
    "level_note": "The algebraic soundness core (violation => identity fails off an explicit small challenge set) is being added as theorems over P2/Model/PlonkAlg.lean; FRI proximity and the random oracle are assumed. Virtual targets are names, not trace cells: only routed wire cells are corrupted.",
    "assumptions": ["FRI proximity soundness", "random oracle"],
    "rule": "generated programs x configs (every second circuit with 28/37/45/50/61 routed wires) x 6 certain-to-violate corruptions; every emitted proof verified by both verifiers; distinct = distinct request lines",
}

PROPS["C08"] = {
    "lean_modules": ["P2.Props.C03", "P2.Props.C01", "P2.Props.C08b", "P2.Props.C08c"],
    "audit_module": "P2.Audit.C08",
    "extra_audit_modules": ["P2.Audit.C08c"],
    "harness_prop": "c08",
    "profile": "release",
    "judge": judge_c01,
    "trusted_base": PLONK_TB + ["the prover-side lookup columns (RE/Sum/LDC, multiplicities) are not modelled: tied through the verifier model's check_lookup_constraints and the honest-flow oracle (partial)"],
    "level_text": "(C08c, the ROW-LEVEL lookup argument, which the earlier theorems did not capture and where F-C08-1 lived: a model of one table's rows, the four selectors as selectors_lookup sets them, the s SLDC polynomials and the constraint system with the pinned index as a parameter; with the repaired pin (s-1) the constraints telescope to sum of table terms = sum of lookup terms, the system is satisfiable IFF the totals agree, and if the verifier's cleared-denominator row constraints are satisfiable for more challenges alpha than there are combinations then every looked-up combination is a table combination with non-zero multiplicity and the multisets agree (lookup_trace_sound, _mem, _multiset), conversely valid lookups are always provable (lookup_trace_complete); with the ORIGINAL pin (index 0) and s >= 2 the system is satisfiable for ARBITRARY terms (original_pin_unsound: the witness is the honest accumulator shifted by minus its final value — exactly the adversarial prover), for s = 1 both pins coincide; Plonk.checkLookupConstraints is shown term by term to be this system at GL2 (checkLookupConstraints_structure, model_rows_iff_verifier_rows, model_lookup_trace_sound). Not covered: the RE chain binding the LUT rows to the declared table, several tables sharing selectors, row-level vanishing from the quotient check) Lean 4: check_lookup_constraints / get_lut_poly inside the verifier model, lookup semantics in evalProg; dedicated lookup circuits (1-4 tables of 1..2 rows' worth, duplicate outputs, an input shared by all tables with different outputs; lookup counts at exact multiples of the slot count, +-1, heavy repetition, single used entry; 80 and 50 routed wires, 2-3 challenges) must prove, verify and carry the table's values (Rust evaluation, Lean evalProg, Lean verifier accepts); lookup outputs replaced class-wide by a wrong value or by ANOTHER table's value for the same input must be rejected by both verifiers",
    "level_note": "Found with this machinery and repaired in /repo: F-C08-1, a SOUNDNESS break of the lookup argument (initial Sum/LDC accumulator value not pinned: an adversarial prover got wrong (input, output) pairs accepted at the standard configuration); the adversarial prover is the guarded hook verif_hooks::SLDC_COMPENSATE and stays part of the check. logUp / RE-polynomial / telescoping theorems are being added; until then the lookup algebra is tied by correspondence only. Tables with duplicate inputs are outside the property (a table is a function).",
    "assumptions": ["FRI proximity soundness", "random oracle"],
    "rule": "adversarial prover (hook): per lookup circuit 2 wrong looked-up pairs x {honest prover, accumulator-offset prover}; 8 (thorough 40) lookup circuits x positive flow + 4-6 lookup-specific corruptions; distinct = distinct request lines",
}

def judge_c17(d):
    a, b = d["impl"], d["model"]
    if a == "PANIC":
        return "a proof decoder panics on this byte string"
    rq = d["request"].split()[1]
    if rq in ("proof", "cproof"):
        return "decoding/re-encoding of a valid encoding differs between the implementation and the codec model (consumed bytes / re-encoding equality)"
    if rq in ("proofeq", "cproofeq"):
        return "the decoded value differs from the value the bytes were written from"
    return "decodability of a mutated encoding differs between the implementation and the codec model"


PROPS["C17"] = {
    "lean_modules": ["P2.Props.C17"],
    "audit_module": "P2.Audit.C17",
    "harness_prop": "c17",
    "profile": "release",
    "judge": judge_c17,
    "trusted_base": KERNEL_TB + [
        "modelled, not verified: the proof / compressed-proof codecs of util/serialization/mod.rs transcribed by hand into a codec combinator language (P2/Model/Codec.lean); circuit/prover/verifier/common data encodings and the gate/generator serializers are exercised on the implementation only (round trip, re-encoding, digests, interchangeability) — partial",
    ],
    "level_text": "Lean 4: a codec combinator language with the generic theorems read(write v ++ rest) = (v, rest) for every well-formed value (by induction on the codec), decoders consume a prefix (no unbounded allocation: the three input-driven lengths are bounded by the input), the u8 length guard is necessary and sharp; instances for every proof codec with lengths taken from the common data; tied to to_bytes/from_bytes by exact agreement on valid encodings (bytes consumed, byte-identical re-encoding, decoded value) and on mutated encodings (decodability); the property's oracle on the implementation: every data type round-trips for circuits containing all 16 gate and 24 generator types, restored circuits have equal digests and prove/verify interchangeably (four-way)",
    "level_note": "Witness generation is not deterministic (randomised spare PI wires), so 'restored proof equals original proof' is not an oracle; agreement on deterministic wires is. BaseSumGate<4> is outside the default registry: clean Err, counted. Circuit-data decoders (not proof decoders) pre-allocate from input lengths and can abort on damaged bytes: noted in DESIGN.md, outside C17/C18's statements.",
    "assumptions": [],
    "rule": "kitchen-sink circuit (all gadgets, tables of 5/26/40 entries, random access 2..64) with and without zk, generated programs, two recursion circuits; proofs and compressed proofs; valid + mutated encodings (truncations, bit flips, 8-byte windows, sibling counts, public-input counts, query indices, appended bytes, random strings); distinct = distinct request lines",
}

PROPS["C06"] = {
    "lean_modules": ["P2.Props.C06", "P2.Props.C03"],
    "audit_module": "P2.Audit.C06",
    "harness_prop": "c06",
    "profile": "release",
    "judge": judge_plonk_verdict,
    "trusted_base": PLONK_TB + [
        "the recursive verifier circuit (recursion/recursive_verifier.rs, fri/recursive_verifier.rs) is NOT modelled as a whole: component denotations only (Merkle check, PoW check, selection); the whole-verifier equivalence is tied by the three-way agreement native = in-circuit = Lean model on every inner proof variant (partial)",
    ],
    "level_text": "Lean 4: component equivalences (in-circuit Merkle verification with canonical index bits <=> verify_merkle_proof_to_cap = Ok for every path length/position/cap; in-circuit proof-of-work check <=> native check) and the native verifier's decision logic; for generated inner circuits (lookups, zk, several degrees and FRI arities) and inner proofs valid / tampered in every element class / false statements from violated gates / bad grinding / foreign verifier data, the OUTER circuit's verdict (library assignment routines, witness generation, outer prove + verify, public inputs re-exposed) must equal the native verdict, which must equal the Lean verifier model's verdict",
    "level_note": "Genuine finding F-C06-1 (known): the assignment routines zip over the targets, so mis-shaped inner proofs (surplus cap entries / opening values, a final polynomial that lost a trailing zero) are assigned and satisfy the circuit although the native verifier rejects their shape; no false statement becomes provable. Weak grinding with everything else valid, surplus/missing public inputs and list surgery are part of the variants. The in-circuit verifier is a deterministic function of the inner proof, so exact agreement is required at any strength. A misshapen proof that the assignment routines cannot place into the fixed-shape target counts as not accepted.",
    "assumptions": [],
    "rule": "3 (thorough 10) inner circuits x (honest + 1-3 tampered elements per JSON leaf class + bad grinding + false statements + foreign verifier data); every variant judged natively, in-circuit and by the Lean model; distinct = distinct request lines",
}

PROPS["C20"] = {
    "lean_modules": ["P2.Props.C20", "P2.Props.C06"],
    "audit_module": "P2.Audit.C20",
    "harness_prop": "c20",
    "profile": "release",
    "judge": judge_plonk_verdict,
    "trusted_base": PLONK_TB + [
        "conditional / cyclic recursion circuits are not modelled as a whole: selection logic and the verifier-data check are modelled and proved; the composed behaviour is tied by the implementation-side oracle (partial)",
    ],
    "level_text": "Lean 4: selection denotes if on every component; conditional verification of the element-wise selection = verification of the selected pair (the other branch does not occur); check_cyclic_proof_verifier_data accepts iff the public inputs end with the circuit's digest and cap, and any alteration of the embedded data is rejected; implementation oracle: both condition values x 9 validity combinations of the two branches (valid / tampered / valid under foreign verifier data) must give outer-accept <=> selected pair natively valid (also judged by the Lean verifier); dummy proofs verify for their dummy circuit with identical common data; cyclic chains from both base cases verify at every step, carry the verifier data, compute the repeated hash, refuse a tampered predecessor, and the vd check rejects every altered embedded element",
    "level_note": "Chain length 2 (thorough 4) per base case; the chain theorem for arbitrary length is not proved (partial).",
    "assumptions": [],
    "rule": "1 (thorough 4) conditional setups x 18 condition/validity combinations, 2-6 dummy circuits, 2 cyclic chains with vd alterations of every 7th (thorough: every) embedded element; distinct = distinct request lines",
}

def post_c19(res, cfg, rundir, sh, harn):
    """second process with another thread count; thorough: alternative builds (hash seed, SIMD)"""
    import os, shutil
    out = []
    meta = os.path.join(rundir, "meta.json")
    binp = os.path.join(harn, "target", "release", "p2h")
    runs = [("second process, RAYON_NUM_THREADS=3", binp, {"RAYON_NUM_THREADS": "3"}),
            ("third process, RAYON_NUM_THREADS=1", binp, {"RAYON_NUM_THREADS": "1"})]
    builds = []
    if res.tier == "thorough":
        builds = [("hash seed A", {"CONST_RANDOM_SEED": "verif-seed-a"}, "target-alt-seed-a"),
                  ("hash seed B", {"CONST_RANDOM_SEED": "verif-seed-b"}, "target-alt-seed-b"),
                  ("AVX2", {"RUSTFLAGS": "-C target-feature=+avx2"}, "target-alt-avx2"),
                  ("AVX-512", {"RUSTFLAGS": "-C target-cpu=native"}, "target-alt-native")]
    for name, env, tdir in builds:
        e = dict(env); e["CARGO_TARGET_DIR"] = os.path.join(harn, tdir)
        rc, o = sh(["cargo", "build", "--offline", "--release"], cwd=harn, timeout=3600, env=e)
        if rc != 0:
            res.notes.append(f"alternative build {name} failed to compile: {o[-300:]}")
            continue
        runs.append((f"alternative build: {name}", os.path.join(harn, tdir, "release", "p2h"), {}))
    res.cov["cross_runs"] = []
    for name, b, env in runs:
        rc, o = sh([b, "c19verify", meta, res.tier], timeout=1800, env=env)
        lines = [l for l in o.splitlines() if l.startswith(("KEY-MISMATCH", "CROSS-VERIFY-FAIL", "CROSS-DECODE-FAIL"))]
        res.cov["cross_runs"].append({"run": name, "mismatches": len(lines)})
        for l in lines:
            out.append(f"{name}: {l}")
        if rc != 0 and not lines:
            out.append(f"{name}: c19verify exited with status {rc}: {o[-300:]}")
    for _, _, tdir in builds:
        shutil.rmtree(os.path.join(harn, tdir), ignore_errors=True)
    return out


def judge_c19(d):
    rq = d["request"]
    if rq.startswith("c19 digest"):
        return "the circuit digest is not hash(preprocessed cap, domain separator digest, degree bits)"
    if rq.startswith("c19 cap"):
        return "the preprocessed cap differs from the Merkle cap of the low-degree extension of the constant and sigma polynomials"
    return None


PROPS["C19"] = {
    "lean_modules": ["P2.Props.C19"],
    "audit_module": "P2.Audit.C19",
    "harness_prop": "c19",
    "profile": "release",
    "judge": judge_c19,
    "post": post_c19,
    "trusted_base": KERNEL_TB + [
        "runtime facts the model cannot exhibit (thread interleavings, compile-time hash seeds, SIMD lane arithmetic) are tied only by comparing real runs: rayon pools of 1/2/5/16 threads, separate processes, and in the thorough tier harness builds with two CONST_RANDOM_SEEDs, AVX2 and native (AVX-512) target features (partial, by nature)",
        "the builder's key pipeline (gate ordering, selectors, sigma map) is not modelled as a whole: order-independence lemmas + recomputation of the digest and of the preprocessed cap from its polynomials",
    ],
    "level_text": "Lean 4: sorting with an injective key is independent of the input order (what makes gate order, selector indices and constant placement functions of the SET of gates/constants despite hash-container iteration), and the copy-constraint neighbour table built by get_sigma_map is the same for every order in which the hash map yields the classes of the wire partition (neighbor_order_indep); the circuit digest and the preprocessed Merkle cap (LDE on the coset, bit-reversed leaves) are recomputed by the model; implementation oracle: a fixed family of programs yields byte-identical verifier-only and common data, FFT outputs and Merkle caps under 4 thread counts and in separate processes (thorough: under different hash-map seeds and SIMD builds), and proofs made under one condition verify under every other",
    "level_note": "Schedules, seeds and lanes are runtime facts: partial by nature; the theorem part covers the order-independence logic only.",
    "assumptions": [],
    "rule": "6 (thorough 14) fixed programs x 4 thread counts in-process + 2 further processes (+4 alternative builds in thorough) with cross-verification of proofs; digest/cap recomputation requests; distinct = distinct request lines",
}

STARK_TB = KERNEL_TB + [
    "modelled, not verified: starky verifier.rs, get_challenges.rs, proof.rs (recover_degree_bits), config.rs (fri_params incl. MinSize search), vanishing_poly.rs, constraint_consumer.rs, lookup.rs (eval_packed_lookups_generic, helper columns), cross_table_lookup.rs (CtlCheckVars::from_proof, eval_cross_table_lookup_checks, verify_cross_table_lookups), stark.rs fri_instance — transcribed by hand (P2/Model/Air.lean, Stark.lean) on top of the FRI/Merkle/Challenger models",
    "STARK definitions are interpreted AIR data (harness/src/stark_dsl.rs DslStark: eval_packed_generic and eval_ext_circuit interpret the same expression trees the Lean model evaluates); the three toy STARKs of the crate are reproduced as AIR data; generated AIRs are checked with the library's own test_stark_low_degree / test_stark_circuit_constraints",
    "the STARK PROVER is not modelled: completeness is tied by the implementation oracle only (satisfying trace => prove succeeds and verify accepts; violating trace => no accepted proof), soundness arguments are the verifier-model theorems + cryptographic idealisations",
    "NOT proved (cryptographic idealisations): FRI proximity soundness, Fiat-Shamir in the random-oracle model, collision resistance of Poseidon",
]

def judge_stark(d):
    a, b = d["impl"], d["model"]
    rq = d["request"]
    if " sat " in rq[:12] or " lookupsat " in rq[:16] or " ctlsat " in rq[:14]:
        return f"row semantics differ: the harness's evaluator says {a}, the Lean AIR semantics says {b}"
    if a == "ACCEPT" and b != "ACCEPT":
        return f"the implementation ACCEPTS a STARK proof that the verifier model rejects ({b}): a check is missing or weakened"
    if b == "ACCEPT" and a != "ACCEPT":
        return f"the implementation rejects ({a}) a STARK proof the verifier model accepts"
    if a == "PANIC" and b != "PANIC":
        return f"the implementation panics where the model returns {b}"
    return f"verdict / challenges differ: implementation {a[:80]}, model {b[:80]}"


PROPS["C09"] = {
    "lean_modules": ["P2.Props.C09", "P2.Props.C09b", "P2.Props.C09c", "P2.Props.C09d"],
    "audit_module": "P2.Audit.C09",
    "extra_audit_modules": ["P2.Audit.GL2Field", "P2.Audit.C09d"],
        "harness_prop": "c09",
    "profile": "release",
    "judge": judge_stark,
    "trusted_base": STARK_TB,
    "level_text": "(C09d: the STARK verifier model NEVER panics after shape validation, lookups and cross-table lookups included, for AIRs whose lookup declarations satisfy LookupsOK (degree != 1, at most 2 columns per helper beyond degree 3, no more columns than filters) — the three remaining panics are loud refusals of the AIR definition and are exhibited; the lookup_challenge_set unwrap is tied to getChallenges; explicit panic surface of verify_stark_proof before shape validation) (instantiated at the model's own GL2 via GL2Field: consumer_all_zero_of_many_base_alphas, air_constraints_zero_of_many_alphas, evalL0LLast_ok_spec for Stark.evalL0LLast itself) Lean 4 model of the complete STARK verifier (degree recovery, FRI parameters for all three reduction strategies, full challenge derivation incl. both transcript padding modes, L_0/L_last, constraint consumer, quotient identity, FRI instance, FRI verifier) and of what 'the trace satisfies the AIR' means row by row; theorems: Stark.verify accepts IFF public-input count, degree recovery, every shape fact (validateShape_accept_iff: all opening-list lengths, quotient commitment AND quotient openings present iff the AIR has quotient polynomials, ctl_zs_first present iff CTLs, auxiliary data iff lookups/CTLs), the quotient identity for every chunk and FRI acceptance hold (verifyWithChallenges_accept_iff / verify_accept_iff); the constraint consumer is one Horner accumulator per challenge = sum c_i*alpha^(n-1-i) and over a field it vanishes for more than n-1 alphas only if every constraint value is zero (C09b); L_0 / L_last / z_last are the Lagrange selectors of the first and last row (C09b); satisfied <-> every active constraint is zero on every row (transitions skip the wrap-around row); transcript order and injectivity for the STARK challenger incl. the inside of fri_challenges (C09c: trace cap before lookup challenges, auxiliary cap before alphas, quotient cap before zeta, openings before FRI alpha, each commit cap before its beta, final polynomial and pow witness before the pow response and the query indices); no-panic: after shape validation no panic point is reachable for AIRs without lookups (…_partial), the panics BEFORE shape validation are characterised exactly (recoverDegreeBits_error_iff = known finding F-C18-3a); tied to starky by exact agreement of verdicts and of every challenge on honest proofs, on proofs of corrupted traces, on per-element tampering / list surgery / option toggling of accepted proofs and on forged proofs (dishonest prover without quotient commitment), plus the property's oracle on the implementation: satisfying trace => proof accepted, violating trace (single-cell corruption in first / last / interior / wrap-around rows, wrong public inputs) => no accepted proof, at standard strength every tampered proof rejected",
    "level_note": "Found and repaired in /repo with this machinery: F-C09-2 (forged proofs accepted: missing quotient commitment allowed), F-C09-1 (ctl_zs_first None/Some([]) malleability), F-C09-3 (Fixed schedule longer than the degree: honest proof rejected). The prover is not modelled (implementation oracle only).",
    "assumptions": ["FRI proximity soundness", "random oracle", "collision resistance"],
    "rule": "AIRs: fibonacci / permutation / unconstrained + generated (1..8 columns, degree 0..3, with/without public inputs, first/last/transition/unconditional constraints) x trace lengths 2^1..2^8 x StarkConfig (rate 1..3, cap height 0..4, grinding, 2..6 queries, Fixed / ConstantArityBits / MinSize, padded transcripts) + one standard-strength instance; corruptions: 5 row classes x columns, wrong public inputs, row exchange; tampering: every class of JSON leaf, 3 surgeries per array class, option toggles, public inputs, other transcript mode; forgery per instance; distinct = distinct request lines",
}

PROPS["C10"] = {
    "lean_modules": ["P2.Props.C10", "P2.Props.C10b", "P2.Props.C09", "P2.Props.C09d", "P2.Props.GL2Inst"],
    "audit_module": "P2.Audit.C10",
    "extra_audit_modules": ["P2.Audit.C09d", "P2.Audit.GL2Inst"],
    "harness_prop": "c10",
    "profile": "release",
    "judge": judge_stark,
    "trusted_base": STARK_TB + [
        "multi-table glue: starky ships no multi-table verifier, so harness/src/c10.rs mod ctl composes get_ctl_data / prove_with_commitment / CtlCheckVars::from_proof / verify_stark_proof_with_challenges / verify_cross_table_lookups the way the documented consumer does, and Stark.verifyMulti mirrors that glue",
    ],
    "level_text": "(GL2Inst: helper_pair_iff, running_sum_telescopes, logup_running_sum instantiated at the model's own GL2; C09d: evalLookups / evalCtlChecks return and keep the accumulator count under LookupsOK / CtlVarsOK) Lean 4 model of the STARK verifier with column lookups (helper columns, Z running sum, first-row and wrap-around constraints) and cross-table lookups (CtlCheckVars::from_proof, eval_cross_table_lookup_checks, verify_cross_table_lookups, multi-table verifier) and of the MEANING of a lookup / cross-table lookup on traces as weighted multisets (Air.firstBadLookup, CtlSpec.holds); theorems: Air.firstBadLookup = none IFF for every value v the filter-weighted number of looking occurrences equals the frequency-weighted number of table occurrences (firstBadLookup_none_iff_sums; weights in GL, i.e. mod p), CtlSpec.holds IFF the weighted multisets of tuples agree (holds_iff_sums); logUp algebra over any field (C10b): the helper-column constraint pins h = f1/(x+a) + f2/(y+a), the running-sum constraint on a cyclic domain telescopes to sum(helpers - freq/(t+a)) = 0, tied to the model's evalHelperColumns / evalLookups terms; plus the C09 verifier theorems (acceptance decomposition, shape facts); tied to starky by exact agreement of verdicts/challenges on honest and tampered single- and multi-table proofs and of the multiset semantics with the harness's evaluator; implementation oracle: lookups hold on the trace => proof accepted, a single missing / extra / altered value on the looking side, the table, the frequencies, a filter, a helper or running-sum opening => no accepted proof",
    "level_note": "F-C10-5 (verify_cross_table_lookups_circuit added VirtualTarget 0 to the looking sum; found by an audit agent, reproduced by ctl_circuit_vs_native, repaired in /repo). F-C10-2b (self-lookup, non-adjacent repeated looking tables, CTL tables of declared degree 2: honest systems rejected) is a known finding with demos under findings/audit-C10. Found with this machinery: F-C10-2 (next-row terms of table/frequencies columns ignored by the constraints: honest proof rejected; repaired in /repo), F-C10-1 (lookups with constraint_degree 0 are never enforced; known finding, not a small repair).",
    "assumptions": ["FRI proximity soundness", "random oracle", "collision resistance", "logUp soundness over the challenge space (Schwartz-Zippel)"],
    "rule": "column lookups: 1..4 looking columns, single / linear-combination / next-row / combined column forms, 5 filter kinds, degree 2 and 3, corruptions of looking side, table, frequencies, filters, noise cells; cross-table lookups: 2- and 3-table systems, a table looking twice, linear and next-row columns, product filters, 6 corruption kinds on either side, tampering of auxiliary cap/openings; distinct = distinct request lines",
}

def judge_c11(d):
    return judge_stark(d)

PROPS["C11"] = {
    "lean_modules": ["P2.Props.C11", "P2.Props.C09", "P2.Props.C11b"],
    "audit_module": "P2.Audit.C11",
    "extra_audit_modules": ["P2.Audit.C11b"],
    "harness_prop": "c11",
    "profile": "release",
    "judge": judge_c11,
    "trusted_base": STARK_TB + [
        "the in-circuit STARK verifier as a whole is NOT modelled: the circuit's verdict is obtained from the real code (assignment through set_stark_proof_with_pis_target, witness generation, outer prove + verify) and compared with the native verifier and with the Lean native-verifier model; the Lean theorems are component-level (P2/Model/StarkCircuit.lean models the variable-degree gadgets as pure functions)",
        "algebraic component theorems take the monoid/commutation laws as hypotheses rather than instantiating them for GL2",
    ],
    "level_text": "(C11b, the repair of F-C11-3 as a theorem: a pure model (P2/Model/FriTail.lean) of the constraint added to the variable-degree in-circuit FRI verifier — the active reduction steps are a prefix, exactly one 'exactly the first m steps are active' selector fires, the computed mask inUse(t) is 1 exactly for t < r = degree_bits - (arities of the active steps), so the constraints hold iff every final-polynomial coefficient at a position >= 2^r is zero, and for ConstantArityBits r is the native schedule's final-polynomial size) Lean 4 component theorems for the gadgets that distinguish the recursive STARK verifier from the native one: degree = 2^degree_bits from bits is correct exactly when degree_bits < 2^width and unsatisfiable otherwise (degreeGadget_eq / degreeGadget_too_narrow), quotient chunks recombined with ReducingFactorTarget(zeta^n) = native reduce_with_powers (reducingReduce_eq_native; the reversed fold is a different function), conditional Merkle verification with a path selected by the degree bits = native verification of the selected prefix (condMerkle_iff_native), padded final polynomial evaluation = unpadded (paddedFinalPolyEval_eq_native), the circuit's step_active flags = the native ConstantArityBits schedule (constantArityBits_var); three-way agreement on every case: native verify_stark_proof = in-circuit verdict (real recursive circuit, built once per (AIR, config, mode), real assignment routines) = Lean STARK verifier model, in fixed-degree mode (degree_bits 2..8 incl. exact powers of two) and variable-degree mode (one circuit for max degree M, proofs of every length m..M with padded transcripts), for honest proofs, per-class tampering, wrong/surplus/missing public inputs, bad and weak grinding, proofs of violating traces, wrong degree (wrong pis_degree_bits, proof for another length), lookup AIRs",
    "level_note": "F-C11-4 (audit agent, repaired): with min_degree_bits_to_support = max the degree_bits witness was free (random access into one element); an explicit range check was added and a singleton-range circuit with an all-zero trace exercises it here. F-C11-3 (found by two audit agents, repaired): the variable-degree in-circuit FRI verifier did not bound the final polynomial by the actual degree — forged proofs of false statements were accepted in circuit; this check does NOT contain the cheating prover needed to reproduce it (demos under findings/audit-C06, audit-C04), it only confirms honest proofs of every length are still accepted after the repair. F-C11-2 (found and repaired): the fixed-degree circuit did not pin its degree_bits witness — a wrong pis_degree_bits was accepted (an audit agent demonstrated a false statement accepted this way); the check's wrong-degree assertion is strict in both modes and an all-zero-trace instance exercises it deterministically. F-C11-2 (found and repaired): the fixed-degree circuit did not pin its degree_bits witness — a wrong pis_degree_bits was accepted (an audit agent demonstrated a false statement accepted this way); the check's wrong-degree assertion is strict in both modes and an all-zero-trace instance exercises it deterministically. Genuine finding F-C11-1a/b/c (known): the assignment routines do not validate proof shape (surplus elements dropped, opening lists flattened, short final polynomial zero-padded), so some natively mis-shaped proofs satisfy the circuit; no false statement becomes provable. Everything else must agree exactly.",
    "assumptions": ["the outer PLONK proof system is sound (C01-C03)", "FRI proximity soundness", "random oracle"],
    "rule": "fixed mode: circuit pairs (3,4), (7,8), (5,6), (2,3) + random pairs, AIR kinds rotating (fibonacci, generated degree 1/2/3, permutation, generated lookup AIRs); variable mode: 5 (thorough 15) groups with ConstantArityBits configs, every length m..M; variants per proof: honest, one tampered element per serde class, public inputs wrong/surplus/missing, bad + weak grinding, violating traces, wrong degree, malformed shapes; distinct = distinct request lines",
}

NOT_CLAIMED = {}
