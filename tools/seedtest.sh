#!/bin/sh
# usage: tools/seedtest.sh <ID> <patch.diff> [tier]   — apply a seeded change to /repo, run the check, revert.
ID=$1; PATCH=$2; TIER=${3:-quick}
cd /repo || exit 2
git diff --quiet || { echo "/repo not clean"; exit 2; }
git apply "$PATCH" || git apply -3 "$PATCH" || { echo "patch does not apply"; exit 2; }
cd /verif && python3 tools/check.py "$ID" --tier "$TIER"; RC=$?
cd /repo && git checkout -- . && git status --short | head -3
echo "seedtest rc=$RC"
exit 0
