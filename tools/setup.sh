#!/bin/sh
# Build the framework from files on disk only (offline). Run once after a fresh restore.
set -e
cd "$(dirname "$0")/.."
export CARGO_NET_OFFLINE=true
python3 tools/extract.py
(cd lean && lake build P2 p2driver) 
(cd harness && cargo build --offline --release && cargo build --offline --profile verif)
echo "setup done"
