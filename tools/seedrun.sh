#!/bin/sh
# usage: tools/seedrun.sh <seed-id e.g. C14-m1> [check-ID] [tier]
# applies seeded/<seed-id>/patch.diff to /repo, runs the check, reverts /repo, appends the outcome to seeded/detections.jsonl
SID=$1; ID=${2:-${SID%%-*}}; TIER=${3:-quick}
PATCH=/verif/seeded/$SID/patch.diff
cd /repo || exit 2
git diff --quiet || { echo "/repo not clean"; exit 2; }
git apply "$PATCH" || git apply -3 "$PATCH" || { echo "patch does not apply"; exit 2; }
LOG=$(mktemp)
cd /verif && python3 tools/check.py "$ID" --tier "$TIER" > "$LOG" 2>&1; RC=$?
cd /repo && git checkout -- . && git status --short | head -3
tail -15 "$LOG"
python3 - "$SID" "$ID" "$TIER" "$RC" "$LOG" <<'PY'
import sys, json, re, time
sid, cid, tier, rc, log = sys.argv[1:6]
out = open(log).read()
viol = [l for l in out.splitlines() if l.startswith("VIOLATION")]
rec = {"seed": sid, "check": cid, "tier": tier, "verif_seed": __import__("os").environ.get("VERIF_SEED", "20260922"), "rc": int(rc),
       "detected": int(rc) == 1 and bool(viol), "violation_lines": viol[:6], "when": time.strftime("%Y-%m-%dT%H:%M:%SZ", time.gmtime())}
for v in viol[:1]:
    m = re.search(r"replay=(\S+)", v)
    if m:
        try: rec["replay_head"] = open(m.group(1)).read()[:1500]
        except Exception: pass
open("/verif/seeded/detections.jsonl", "a").write(json.dumps(rec) + "\n")
print("seedrun", sid, cid, tier, "rc=", rc, "detected=", rec["detected"])
PY
rm -f "$LOG"
exit 0
