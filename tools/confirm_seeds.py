#!/usr/bin/env python3
"""Confirm seeded changes in a scratch worktree of /repo: the demonstration passes on the current
tree and fails with the change; the existing suite (release: plonky2 lib, starky, field, util) still
passes with the change.  Results go to /tmp/seedchk/results.jsonl (one line per mutation)."""
import json, os, re, subprocess, sys, glob, shutil
SRC = "/tmp/mut_out"
WT = "/tmp/seedchk/wt"
ENV = dict(os.environ, CARGO_NET_OFFLINE="true", CARGO_TARGET_DIR="/tmp/seedchk/target")

def sh(cmd, cwd=WT, timeout=3600):
    p = subprocess.run(cmd, cwd=cwd, shell=True, stdout=subprocess.PIPE, stderr=subprocess.STDOUT, text=True, timeout=timeout, env=ENV)
    return p.returncode, p.stdout

def main(only=None):
    if not os.path.exists(WT):
        subprocess.run(["git", "-C", "/repo", "worktree", "add", "--detach", WT, "HEAD"], check=True)
    done = set()
    if os.path.exists("/tmp/seedchk/results.jsonl"):
        for l in open("/tmp/seedchk/results.jsonl"):
            done.add(json.loads(l)["key"])
    for d in sorted(glob.glob(SRC + "/C*")):
        pid = os.path.basename(d)
        if only and pid not in only:
            continue
        for m in ("m1", "m2"):
            key = f"{pid}_{m}"
            diff, demo, meta = (os.path.join(d, f"{m}.diff"), os.path.join(d, f"{m}_demo.rs"), os.path.join(d, f"{m}.json"))
            if key in done or not (os.path.exists(diff) and os.path.exists(demo)):
                continue
            text = open(demo).read() + (open(meta).read() if os.path.exists(meta) else "")
            mp = re.search(r"((?:plonky2|field|starky|util|maybe_rayon)/(?:tests|examples)/demo_%s\.rs)" % m, text)
            mc = re.search(r"cargo (?:test|run)[^\n\"`]*demo_%s[^\n\"`]*" % m, text)
            if not mp or not mc:
                res = {"key": key, "error": "cannot parse demo placement/command"}
            else:
                place, cmd = mp.group(1), mc.group(0).strip().rstrip(".,)")
                if "--offline" not in cmd:
                    cmd = cmd.replace("cargo test", "cargo test --offline").replace("cargo run", "cargo run --offline")
                sh("git checkout -- . && git clean -fdq -e target")
                os.makedirs(os.path.dirname(os.path.join(WT, place)), exist_ok=True)
                shutil.copy(demo, os.path.join(WT, place))
                rc0, o0 = sh(cmd)
                rca, oa = sh(f"git apply {diff} || git apply -3 {diff}")
                rc1, o1 = sh(cmd) if rca == 0 else (None, "patch does not apply")
                suite = {}
                if rca == 0:
                    os.remove(os.path.join(WT, place))
                    for name, c in [("plonky2_lib", "cargo test --offline --release -p plonky2 --lib"), ("starky", "cargo test --offline --release -p starky"),
                                    ("field", "cargo test --offline --release -p plonky2_field"), ("util", "cargo test --offline --release -p plonky2_util")]:
                        r, o = sh(c, timeout=5400)
                        suite[name] = {"rc": r, "summary": re.findall(r"test result: [^\n]*", o)}
                res = {"key": key, "demo_place": place, "demo_cmd": cmd, "demo_without_change_rc": rc0, "patch_applies": rca == 0,
                       "demo_with_change_rc": rc1, "demo_with_change_tail": (o1 or "")[-600:], "suite_with_change": suite}
                sh("git checkout -- . && git clean -fdq -e target")
            with open("/tmp/seedchk/results.jsonl", "a") as f:
                f.write(json.dumps(res) + "\n")
            print(key, {k: res.get(k) for k in ("demo_without_change_rc", "patch_applies", "demo_with_change_rc", "error")}, flush=True)

if __name__ == "__main__":
    main(set(sys.argv[1:]) or None)
