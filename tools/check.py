#!/usr/bin/env python3
"""Decide one property on /repo's current working tree.

  tools/check.py <ID> [--tier quick|thorough]

1. translator: regenerate lean/P2/Gen from /repo (tools/extract.py)
2. proof obligations: lake build the property's theorem modules + axiom audit
3. correspondence: rebuild the Rust harness against /repo, run the real code and the Lean model on
   the same request lines, diff
4. on any break: search for a concrete failing input (property oracle), write a replay file,
   print `VIOLATION property=<id> replay=<path>[ no-failing-input-found]`
5. write evidence/<id>.json

Exit 0 iff the property held on everything explored (KNOWN-FINDING lines do not fail the run).
"""
import argparse, json, os, re, subprocess, sys, time, hashlib

ROOT = os.path.dirname(os.path.dirname(os.path.abspath(__file__)))
LEAN = os.path.join(ROOT, "lean")
HARN = os.path.join(ROOT, "harness")
RUN = os.path.join(ROOT, "run")
EVID = os.path.join(ROOT, "evidence")
REPO = os.environ.get("VERIF_REPO", "/repo")
ALLOWED_AXIOMS = {"propext", "Classical.choice", "Quot.sound"}
FORBIDDEN = re.compile(r"\b(sorry|admit|native_decide|bv_decide|implemented_by|unsafe)\b|^\s*axiom\s|maxHeartbeats\s+0\b", re.M)

sys.path.insert(0, os.path.join(ROOT, "tools"))
from props import PROPS  # noqa: E402


def sh(cmd, cwd=None, timeout=None, env=None):
    e = dict(os.environ)
    e["CARGO_NET_OFFLINE"] = "true"
    if env:
        e.update(env)
    p = subprocess.run(cmd, cwd=cwd, shell=isinstance(cmd, str), stdout=subprocess.PIPE,
                       stderr=subprocess.STDOUT, text=True, timeout=timeout, env=e)
    return p.returncode, p.stdout


def strip_lean_comments(s):
    s = re.sub(r"/-.*?-/", "", s, flags=re.S)
    return re.sub(r"--[^\n]*", "", s)


class Result:
    def __init__(self, pid, tier, seed):
        self.pid, self.tier, self.seed = pid, tier, seed
        self.violations = []      # (replay_path, found_input: bool, text)
        self.known = []
        self.obligations = 0
        self.discharged = 0
        self.theorems = []
        self.cov = {}
        self.notes = []
        self.t0 = time.time()

    def violation(self, kind, detail, found_input):
        os.makedirs(os.path.join(RUN, "replay"), exist_ok=True)
        h = hashlib.sha1(json.dumps(detail, sort_keys=True, default=str).encode()).hexdigest()[:10]
        path = os.path.join(RUN, "replay", f"{self.pid}_{kind}_{h}.json")
        with open(path, "w") as f:
            json.dump({"property": self.pid, "kind": kind, "seed": self.seed, "tier": self.tier,
                       "failing_input_found": found_input, "detail": detail}, f, indent=1, default=str)
        self.violations.append((path, found_input, kind))


def load_known():
    out = []
    p = os.path.join(ROOT, "known_findings.jsonl")
    if os.path.exists(p):
        for line in open(p):
            line = line.strip()
            if line and not line.startswith("#"):
                out.append(json.loads(line))
    return out


# ---------------------------------------------------------------- step 1+2: translator and proofs
def run_translator(res):
    rc, out = sh([sys.executable, os.path.join(ROOT, "tools", "extract.py")])
    if rc != 0:
        res.notes.append("translator failed: " + out.strip()[-400:])
        return False, out
    return True, out


def lean_sources(mods):
    """all files under lean/P2 that the given modules transitively import (within P2)"""
    seen, todo = set(), list(mods)
    while todo:
        m = todo.pop()
        if m in seen or not m.startswith("P2"):
            continue
        path = os.path.join(LEAN, *m.split(".")) + ".lean"
        if not os.path.exists(path):
            continue
        seen.add(m)
        for im in re.findall(r"^import\s+(\S+)", open(path).read(), flags=re.M):
            todo.append(im)
    return sorted(seen)


def run_proofs(res, cfg):
    """returns list of broken obligations (strings)"""
    broken = []
    mods = cfg["lean_modules"]
    audits = cfg["audit_module"]
    if isinstance(audits, str):
        audits = [audits]
    audits = list(audits) + list(cfg.get("extra_audit_modules", []))
    targets = mods + audits + ["p2driver"]
    rc, out = sh(["lake", "build"] + targets, cwd=LEAN, timeout=3600)
    if rc != 0:
        errs = re.findall(r"^error: (.*)$", out, flags=re.M)
        broken.append({"what": "lake build failed", "targets": targets, "errors": errs[:20],
                       "log_tail": out[-3000:]})
    # forbidden tokens
    for m in lean_sources(mods + audits):
        path = os.path.join(LEAN, *m.split(".")) + ".lean"
        txt = strip_lean_comments(open(path).read())
        hit = FORBIDDEN.search(txt)
        if hit:
            broken.append({"what": "forbidden token", "file": path, "token": hit.group(0).strip()})
    # axiom audit
    res.obligations = 0
    for audit in audits:
        apath = os.path.join(LEAN, *audit.split(".")) + ".lean"
        wanted = re.findall(r"^#print axioms\s+(\S+)", open(apath).read(), flags=re.M)
        res.obligations += len(wanted)
        if rc != 0:
            continue
        # lake replays the stored log of an up-to-date module, so the `#print axioms` output is
        # available without re-elaborating; fall back to running lean on the file directly
        rc2, out2 = sh(["lake", "build", audit], cwd=LEAN, timeout=1800)
        if "depends on axioms" not in out2 and "does not depend on any axioms" not in out2:
            rc2, out2 = sh(["lake", "env", "lean", apath], cwd=LEAN, timeout=1800)
        got = {}
        for m in re.finditer(r"'(\S+?)' depends on axioms: \[([^\]]*)\]", out2):
            got[m.group(1)] = {a.strip() for a in m.group(2).replace("\n", " ").split(",") if a.strip()}
        for m in re.finditer(r"'(\S+?)' does not depend on any axioms", out2):
            got[m.group(1)] = set()
        for w in wanted:
            full = [k for k in got if k == w or k.endswith("." + w)]
            if not full:
                broken.append({"what": "theorem missing from audit output", "theorem": w, "audit": audit})
                continue
            ax = got[full[0]]
            if ax - ALLOWED_AXIOMS:
                broken.append({"what": "inadmissible axioms", "theorem": w, "axioms": sorted(ax)})
            else:
                res.discharged += 1
                res.theorems.append({"theorem": full[0], "axioms": sorted(ax)})
        if rc2 != 0:
            broken.append({"what": "audit file failed", "audit": audit, "log_tail": out2[-1500:]})
    return broken


# ---------------------------------------------------------------- step 3: correspondence
def build_harness(profile):
    args = ["cargo", "build", "--offline"]
    args += ["--release"] if profile == "release" else ["--profile", profile]
    rc, out = sh(args, cwd=HARN, timeout=3600)
    return rc, out


def run_correspondence(res, cfg, rundir):
    """returns (ok, diffs) where diffs is a list of dicts (request, impl, model, class)"""
    profile = cfg.get("profile", "release")
    rc, out = build_harness(profile)
    if rc != 0:
        return None, {"what": "harness build failed (does /repo compile?)", "log_tail": out[-3000:]}
    binp = os.path.join(HARN, "target", profile, "p2h")
    os.makedirs(rundir, exist_ok=True)
    env = dict(cfg.get("env", {}))
    try:
        rc, out = sh([binp, "emit", cfg["harness_prop"], str(res.seed), res.tier, rundir],
                     timeout=cfg.get("emit_timeout", 1800 if res.tier == "quick" else 10800), env=env)
    except subprocess.TimeoutExpired:
        rc, out = -999, "emit timed out"
        subprocess.run(["pkill", "-f", f"p2h emit {cfg['harness_prop']} "])
    if rc != 0:
        err = {"what": "harness emit failed", "rc": rc, "log_tail": out[-3000:]}
        try:
            last = open(os.path.join(rundir, "req.txt")).read().rstrip("\n").split("\n")[-1]
            stage = ""
            try:
                stage = open(os.path.join(rundir, "stage.txt")).read().rstrip(" ")
            except Exception:
                pass
            if stage == "case":
                err["crashing_request"] = last[:4000]
                err["what"] = f"the implementation crashed the harness process (exit status {rc}) while answering the last request written"
            else:
                err["what"] = f"the harness process died or hung (exit status {rc}; -999 = time limit) outside a request, while: {stage or 'unknown'}"
                if stage.startswith("impl:"):
                    # the real code was running on an input the stage text describes
                    err["crashing_request"] = stage[:4000]
        except Exception:
            pass
        return None, err
    drv = os.path.join(LEAN, ".lake", "build", "bin", "p2driver")
    with open(os.path.join(rundir, "model.txt"), "w") as mo:
        p = subprocess.run([drv, os.path.join(rundir, "req.txt")], stdout=mo, stderr=subprocess.PIPE,
                           text=True, timeout=cfg.get("driver_timeout", 3600))
    if p.returncode != 0:
        return None, {"what": "Lean driver failed", "stderr": p.stderr[-2000:]}
    reqs = open(os.path.join(rundir, "req.txt")).read().split("\n")
    impl = open(os.path.join(rundir, "impl.txt")).read().split("\n")
    model = open(os.path.join(rundir, "model.txt")).read().split("\n")
    canon = cfg.get("canon", lambda s: s)
    diffs = []
    n = 0
    distinct = set()
    for i, rq in enumerate(reqs):
        if not rq:
            continue
        n += 1
        a = canon(impl[i]) if i < len(impl) else "<missing>"
        b = canon(model[i]) if i < len(model) else "<missing>"
        distinct.add(rq)
        if a != b:
            diffs.append({"line": i + 1, "request": rq, "impl": a, "model": b})
    meta = json.load(open(os.path.join(rundir, "meta.json")))
    res.cov["evaluations"] = n
    res.cov["distinct_requests"] = len(distinct)
    res.cov["input_distribution"] = meta.get("histogram", {})
    res.cov["samples"] = meta.get("samples", [])[:12]
    res.cov["harness_extra"] = meta.get("extra", {})
    return diffs, None


# ---------------------------------------------------------------- main
def main():
    ap = argparse.ArgumentParser()
    ap.add_argument("pid")
    ap.add_argument("--tier", default=os.environ.get("VERIF_TIER", "quick"))
    args = ap.parse_args()
    pid = args.pid.upper()
    tier = args.tier if args.tier in ("quick", "thorough") else "quick"
    seed = int(os.environ.get("VERIF_SEED", "20260922"))
    cfg = PROPS[pid]
    res = Result(pid, tier, seed)
    rundir = os.path.join(RUN, f"{pid}_{tier}")
    known = [k for k in load_known() if k.get("property") == pid and k.get("status") == "known"]

    ok_tr, tr_out = run_translator(res)
    broken = []
    if not ok_tr:
        broken.append({"what": "translator could not parse the current sources", "detail": tr_out[-800:]})
    broken += run_proofs(res, cfg)

    diffs, err = run_correspondence(res, cfg, rundir)
    corr_broken = []
    crash = None
    if err is not None:
        if "crashing_request" in err and cfg.get("crash_is_violation", True):
            crash = err
        else:
            corr_broken.append(err)
        diffs = []

    # property-specific judgement of the differences: concrete property violations vs. broken tie
    judge = cfg.get("judge")
    concrete, unexplained = [], []
    for d in diffs:
        verdict = judge(d) if judge else None
        if verdict:
            d["why"] = verdict
            concrete.append(d)
        else:
            unexplained.append(d)

    if crash is not None:
        concrete.append({"request": crash["crashing_request"], "impl": f"process died (status {crash['rc']})",
                         "model": "(total function)", "why": crash["what"]})
    # property-specific extra stage (e.g. C19: other processes / alternative builds)
    post = cfg.get("post")
    if post and err is None:
        for f in post(res, cfg, rundir, sh, HARN):
            concrete.append({"oracle_failure": f})
    # implementation-side oracle failures reported by the harness itself (meta.extra.oracle_failures)
    for of in res.cov.get("harness_extra", {}).get("oracle_failures", []):
        concrete.append({"oracle_failure": of})

    # known findings
    def is_known(d):
        for k in known:
            pat = k.get("match")
            if pat and re.search(pat, json.dumps(d, default=str)):
                return k
        return None

    new_concrete = []
    seen_known = {}
    for d in concrete:
        k = is_known(d)
        if k:
            seen_known[k["id"]] = k
        else:
            new_concrete.append(d)
    for k in known:
        # listed findings are always printed (they are properties of the unchanged tree)
        print(f"KNOWN-FINDING: property={pid} {k['what']}")
        res.known.append(k["id"])

    if new_concrete:
        res.violation("failing-input", {"cases": new_concrete[:50], "count": len(new_concrete)}, True)
    if (broken or corr_broken or unexplained) and not new_concrete:
        # a proof obligation or the correspondence broke; run the property's own search
        found = None
        search = cfg.get("search")
        if search:
            found = search(res, cfg, rundir)
        if found:
            res.violation("failing-input", found, True)
        else:
            res.violation("broken-tie", {"proof_obligations_broken": broken,
                                         "correspondence_errors": corr_broken,
                                         "model_vs_implementation_differences": unexplained[:50],
                                         "difference_count": len(unexplained)}, False)

    wall = time.time() - res.t0
    cov = dict(res.cov)
    cov.update({
        "obligations": max(res.obligations, 1),
        "discharged": res.discharged if not broken else min(res.discharged, max(res.obligations - 1, 0)),
        "checker_cmd": "cd /verif/lean && lake build " + " ".join(cfg["lean_modules"] + [cfg["audit_module"]])
                       + " && lake env lean " + "/".join(cfg["audit_module"].split(".")) + ".lean",
        "trusted_base": cfg["trusted_base"],
        "theorems": res.theorems,
        "distinct_nontrivial": res.cov.get("distinct_requests", 0),
        "rule": cfg.get("rule", "requests generated from VERIF_SEED by the harness; distinct = distinct request lines; "
                                "every request runs the real code and the Lean model"),
        "model_vs_impl_differences": len(diffs),
        "proof_obligations_broken": len(broken),
    })
    cov.setdefault("evaluations", 0)
    cov.setdefault("samples", [])
    if not cov["samples"]:
        cov["samples"] = [t["theorem"] for t in res.theorems[:5]] or ["(no samples)"]
    ev = {"property_id": pid, "tier": tier, "seed": seed, "level": "proof", "coverage": cov,
          "assumptions": cfg.get("assumptions", []), "wall_s": round(wall, 2),
          "violations": len(res.violations), "known_findings": res.known, "notes": res.notes}
    os.makedirs(EVID, exist_ok=True)
    with open(os.path.join(EVID, f"{pid}.json"), "w") as f:
        json.dump(ev, f, indent=1, default=str)
    for path, found, kind in res.violations:
        tail = "" if found else " no-failing-input-found"
        print(f"VIOLATION property={pid} replay={path}{tail}")
    print(f"{pid} {tier}: obligations {res.discharged}/{res.obligations}, requests {cov['evaluations']}, "
          f"differences {len(diffs)}, violations {len(res.violations)}, {wall:.1f}s")
    sys.exit(1 if res.violations else 0)


if __name__ == "__main__":
    main()
