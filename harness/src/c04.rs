//! C04: Fiat–Shamir challenges of real proofs, recomputed by the Lean model from the dumped
//! statement and proof; and the property's own oracle on the implementation (alter any transcript
//! component ⇒ every later challenge changes).
use plonky2::field::types::Field;
use plonky2::fri::reduction_strategies::FriReductionStrategy;
use plonky2::plonk::proof::ProofWithPublicInputs;

use crate::dump::*;
use crate::progs::*;
use crate::util::*;

fn show_ext(x: FE) -> String {
    use plonky2::field::types::PrimeField64;
    format!("{} {}", x.0[0].to_canonical_u64(), x.0[1].to_canonical_u64())
}

pub fn challenges_string(ch: &plonky2::plonk::proof::ProofChallenges<F, 2>) -> String {
    use plonky2::field::types::PrimeField64;
    let gl = |xs: &[F]| join(xs.iter().map(|x| x.to_canonical_u64()));
    format!(
        "betas {} gammas {} alphas {} deltas {} zeta {} fri_alpha {} fri_betas {} pow {} idx {}",
        gl(&ch.plonk_betas), gl(&ch.plonk_gammas), gl(&ch.plonk_alphas), gl(&ch.plonk_deltas),
        show_ext(ch.plonk_zeta), show_ext(ch.fri_challenges.fri_alpha),
        ch.fri_challenges.fri_betas.iter().map(|b| show_ext(*b)).collect::<Vec<_>>().join(" "),
        ch.fri_challenges.fri_pow_response.to_canonical_u64(),
        join(ch.fri_challenges.fri_query_indices.iter())
    )
}

pub fn request(kind: &str, data: &plonky2::plonk::circuit_data::CircuitData<F, C, 2>, proof: &ProofWithPublicInputs<F, C, 2>) -> String {
    request_parts(kind, &data.common, &data.verifier_only, proof)
}

pub fn request_parts(kind: &str, common: &plonky2::plonk::circuit_data::CommonCircuitData<F, 2>, vd: &plonky2::plonk::circuit_data::VerifierOnlyCircuitData<C, 2>, proof: &ProofWithPublicInputs<F, C, 2>) -> String {
    let mut t = Toks::default();
    t.common(common);
    t.verifier_only(vd);
    t.proof_with_pis(proof);
    format!("{kind} {}", t.line())
}

/// STARK transcripts: for accepted STARK proofs (plain and padded/variable-degree transcript mode,
/// incl. the case where the proof's own final polynomial is LONGER than the verifier circuit's, so
/// that padding must not truncate) every challenge is compared with the Lean model
/// (`get_challenges`), and every absorbed component is altered in turn — first, middle and LAST
/// element of each class — after which the challenge vector must differ from the honest one.
fn stark_transcripts(e: &mut Emitter, r: &mut Rng, thorough: bool) {
    use std::sync::Arc;
    use plonky2::field::types::Field;
    use plonky2::fri::FriConfig;
    use serde_json::Value;
    use starky::config::StarkConfig;
    use crate::c03::{at, class_of, walk};
    use crate::stark_dsl::*;
    let n_inst = if thorough { 10 } else { 4 };
    for k in 0..n_inst {
        // k = 0: ConstantArityBits(4, 2), cap height 4, rate 1: a 2^6-row proof has no reduction step
        // (6 + 1 − 4 < 4) and a 64-coefficient final polynomial, the verifier circuit of degree 3 has 8
        let (config, vp, log_n, lookups) = if k == 0 {
            let c = StarkConfig::new(4, 2, FriConfig { rate_bits: 1, cap_height: 4, proof_of_work_bits: 1, reduction_strategy: FriReductionStrategy::ConstantArityBits(4, 2), num_query_rounds: 2 });
            let vp = padded_params(&c, 0);
            (c, vp, 6usize, false)
        } else {
            let c = gen_stark_config(r, true, 2);
            let vp = if k % 2 == 1 { padded_params(&c, r.range(0, 3) as usize) } else { None };
            (c, vp, r.range(3, 6) as usize, k % 3 == 2)
        };
        let (air, rows, pis) = if lookups {
            let (rows, pis) = permutation_trace(1 << log_n, F::from_canonical_u64(r.below(1 << 30)));
            (Arc::new(permutation_air(3)), rows, pis)
        } else {
            let (rows, pis) = fibonacci_trace(1 << log_n, F::from_canonical_u64(r.below(P)), F::from_canonical_u64(r.below(P)));
            (Arc::new(fibonacci_air()), rows, pis)
        };
        e.stage(&format!("proving a STARK instance for transcript tests (config {:?}, padded {:?})", config, vp.as_ref().map(|p| (p.degree_bits, p.reduction_arity_bits.clone()))));
        let Ok(Ok(proof)) = std::panic::catch_unwind(std::panic::AssertUnwindSafe(|| prove_air(&air, &config, &rows, &pis, vp.clone()))) else { e.count("stark transcript: inadmissible config"); continue; };
        if verdict_air(&air, &config, &proof, vp.clone()) != "ACCEPT" { e.count("stark transcript: honest proof not accepted (covered by C09)"); continue; }
        let final_len = proof.proof.opening_proof.final_poly.coeffs.len();
        e.count(&format!("stark transcript instance: padded={} final_poly_len={} circuit_final_len={:?} lookups={}", vp.is_some(), final_len,
            vp.as_ref().map(|p| 1usize << (p.degree_bits - p.reduction_arity_bits.iter().sum::<usize>())), lookups));
        let honest = challenges_air(&air, &config, &proof, vp.clone());
        let h2 = honest.clone();
        e.case("stark challenges (honest)", proof_request("c04 schallenges", &air, &config, &vp, &proof), || h2);
        let json = serde_json::to_value(&proof).unwrap();
        let (mut leaves, mut arrays) = (vec![], vec![]);
        walk(&json, &mut vec![], &mut leaves, &mut arrays);
        let mut by_class: std::collections::BTreeMap<String, Vec<Vec<String>>> = Default::default();
        for l in leaves { by_class.entry(class_of(&l)).or_default().push(l); }
        for (cls, ls) in &by_class {
            // the answers to the queries are the last prover message: nothing is drawn after them
            if cls.contains("query_round_proofs") { continue; }
            let mut picks = vec![ls[0].clone(), ls[ls.len() - 1].clone(), ls[ls.len() / 2].clone()];
            if thorough { for _ in 0..3 { picks.push(r.pick(ls).clone()); } }
            picks.dedup();
            for path in picks {
                let mut j = json.clone();
                let cell = at(&mut j, &path);
                let old = cell.as_u64().unwrap() % P;
                *cell = Value::from((old + 1 + r.below(P - 1)) % P);
                let Ok(p2) = serde_json::from_value::<SProof>(j) else { continue };
                let c2 = std::panic::catch_unwind(std::panic::AssertUnwindSafe(|| challenges_air(&air, &config, &p2, vp.clone()))).unwrap_or("PANIC".into());
                if c2 == honest {
                    e.oracle_failures.push(format!("STARK transcript does not bind {cls} (element {}): every challenge is unchanged after altering it; config {:?}, padded {:?}",
                        path.join("/"), config, vp.as_ref().map(|p| p.degree_bits)));
                }
                let c3 = c2.clone();
                e.case(&format!("stark challenges after altering {cls}"), proof_request("c04 schallenges", &air, &config, &vp, &p2), || c3);
            }
        }
    }
}

/// Byte-oriented digests (`KeccakHash<25>`, the hasher of `KeccakGoldilocksConfig`): every byte of an
/// observed digest / cap entry must reach the transcript (`BytesHash::to_vec` packs 7 bytes per field
/// element, the last chunk holds `N mod 7` bytes), for both challenger flavours that can observe it.
fn byte_digest_binding(e: &mut Emitter, r: &mut Rng) {
    use plonky2::hash::hash_types::BytesHash;
    use plonky2::hash::keccak::KeccakHash;
    use plonky2::hash::merkle_tree::MerkleCap;
    use plonky2::hash::poseidon::PoseidonHash;
    use plonky2::iop::challenger::Challenger;
    e.stage("impl: byte-digest binding of the transcript");
    let mut a = [0u8; 25];
    for x in a.iter_mut() { *x = r.below(256) as u8; }
    let ch_k = |h: [u8; 25]| { let mut c = Challenger::<F, KeccakHash<25>>::new(); c.observe_hash::<KeccakHash<25>>(BytesHash(h)); c.get_challenge() };
    let ch_p = |h: [u8; 25]| { let mut c = Challenger::<F, PoseidonHash>::new(); c.observe_hash::<KeccakHash<25>>(BytesHash(h)); c.get_challenge() };
    let ch_cap = |h: [u8; 25]| { let mut c = Challenger::<F, KeccakHash<25>>::new(); c.observe_cap::<KeccakHash<25>>(&MerkleCap(vec![BytesHash([7u8; 25]), BytesHash(h)])); c.get_challenge() };
    let (k0, p0, c0) = (ch_k(a), ch_p(a), ch_cap(a));
    for k in 0..25 {
        let mut b = a;
        b[k] ^= 1 << (k % 8);
        e.count("byte-digest binding probe");
        if ch_k(b) == k0 { e.oracle_failures.push(format!("the challenge after observing a KeccakHash<25> digest does not depend on byte {k} of the digest (Keccak challenger)")); }
        if ch_p(b) == p0 { e.oracle_failures.push(format!("the challenge after observing a KeccakHash<25> digest does not depend on byte {k} of the digest (Poseidon challenger)")); }
        if ch_cap(b) == c0 { e.oracle_failures.push(format!("the challenge after observing a Merkle cap of KeccakHash<25> digests does not depend on byte {k} of its last entry")); }
    }
}

pub fn emit(e: &mut Emitter, seed: u64, thorough: bool) {
    let mut r = Rng::new(seed ^ 0x04);
    { let mut rb = Rng::new(seed ^ 0x0404); byte_digest_binding(e, &mut rb); }
    stark_transcripts(e, &mut r, thorough);
    let n_circuits = if thorough { 40 } else { 8 };
    let mut made = 0;
    let mut tries = 0;
    while made < n_circuits && tries < 6 * n_circuits {
        tries += 1;
        let features = r.below(16);
        let nops = r.range(8, 60) as usize;
        let prog = gen_prog(&mut r, nops, features);
        let mut config = gen_config(&mut r, true);
        if config.zero_knowledge && matches!(config.fri_config.reduction_strategy, FriReductionStrategy::Fixed(_)) {
            // blinding never fits a Fixed schedule (F-C01-2): outside the admissible configurations
            config.zero_knowledge = false;
        }
        e.stage(&format!("building+proving a generated circuit ({} ops, config {:?})", prog.ops.len(), config));
        let built = std::panic::catch_unwind(std::panic::AssertUnwindSafe(|| {
            let (data, pw) = prog.build(config.clone());
            let proof = data.prove(pw);
            (data, proof)
        }));
        let (data, proof) = match built {
            Ok((d, Ok(p))) => (d, p),
            Ok((_, Err(_))) => { e.oracle_failures.push(format!("C01-style: satisfiable program failed to prove: {:?} / {:?}", prog.ops, config)); continue; }
            Err(_) => { e.count("inadmissible-config-or-build-panic"); continue; }
        };
        made += 1;
        let pih = proof.get_public_inputs_hash();
        let ch = proof.get_challenges(pih, &data.verifier_only.circuit_digest, &data.common).unwrap();
        let chs = challenges_string(&ch);
        let class = format!("plonk lookups={} zk={} caps={}", data.common.num_lookup_polys != 0, data.common.config.zero_knowledge, proof.proof.opening_proof.commit_phase_merkle_caps.len());
        e.case(&class, request("c04 plonk", &data, &proof), || chs.clone());

        // property oracle on the implementation: alter one transcript component, every challenge
        // drawn after it must change (compared group-wise: betas/gammas, alphas, zeta, fri_alpha,
        // fri_betas[i..], pow response + query indices)
        let groups = |c: &plonky2::plonk::proof::ProofChallenges<F, 2>| -> Vec<String> {
            use plonky2::field::types::PrimeField64;
            let mut g = vec![
                join(c.plonk_betas.iter().chain(c.plonk_gammas.iter()).map(|x| x.to_canonical_u64())),
                join(c.plonk_alphas.iter().map(|x| x.to_canonical_u64())),
                show_ext(c.plonk_zeta),
                show_ext(c.fri_challenges.fri_alpha),
            ];
            for b in &c.fri_challenges.fri_betas { g.push(show_ext(*b)); }
            g.push(format!("{} {}", c.fri_challenges.fri_pow_response.to_canonical_u64(), join(c.fri_challenges.fri_query_indices.iter())));
            g
        };
        let base = groups(&ch);
        let ncaps = proof.proof.opening_proof.commit_phase_merkle_caps.len();
        // (description, first group index that must change, mutated proof / digest / pis)
        let mut variants: Vec<(String, usize, ProofWithPublicInputs<F, C, 2>, bool)> = vec![];
        let mut p = proof.clone(); p.public_inputs[0] += F::ONE; variants.push(("public input".into(), 0, p, false));
        let mut p = proof.clone(); let k = r.below(p.proof.wires_cap.0.len() as u64) as usize; p.proof.wires_cap.0[k].elements[r.below(4) as usize] += F::ONE; variants.push(("wires cap entry".into(), 0, p, false));
        let mut p = proof.clone(); let k = r.below(p.proof.plonk_zs_partial_products_cap.0.len() as u64) as usize; p.proof.plonk_zs_partial_products_cap.0[k].elements[0] += F::ONE; variants.push(("zs/partial-products cap entry".into(), 1, p, false));
        let mut p = proof.clone(); let k = r.below(p.proof.quotient_polys_cap.0.len() as u64) as usize; p.proof.quotient_polys_cap.0[k].elements[3] += F::ONE; variants.push(("quotient cap entry".into(), 2, p, false));
        {
            let mut p = proof.clone();
            let o = &mut p.proof.openings;
            let lists: Vec<&mut Vec<FE>> = vec![&mut o.constants, &mut o.plonk_sigmas, &mut o.wires, &mut o.plonk_zs, &mut o.plonk_zs_next, &mut o.partial_products, &mut o.quotient_polys, &mut o.lookup_zs, &mut o.lookup_zs_next];
            let mut nonempty: Vec<&mut Vec<FE>> = lists.into_iter().filter(|l| !l.is_empty()).collect();
            let li = r.below(nonempty.len() as u64) as usize;
            let k = r.below(nonempty[li].len() as u64) as usize;
            nonempty[li][k] += FE::ONE;
            variants.push((format!("opening (list {li})"), 3, p, false));
        }
        for i in 0..ncaps {
            let mut p = proof.clone();
            let k = r.below(p.proof.opening_proof.commit_phase_merkle_caps[i].0.len() as u64) as usize;
            p.proof.opening_proof.commit_phase_merkle_caps[i].0[k].elements[1] += F::ONE;
            variants.push((format!("commit-phase cap {i}"), 4 + i, p, false));
        }
        let mut p = proof.clone(); let k = r.below(p.proof.opening_proof.final_poly.coeffs.len() as u64) as usize; p.proof.opening_proof.final_poly.coeffs[k] += FE::ONE; variants.push(("final polynomial coefficient".into(), 4 + ncaps, p, false));
        let mut p = proof.clone(); p.proof.opening_proof.pow_witness += F::ONE; variants.push(("pow witness".into(), 4 + ncaps, p, false));
        variants.push(("circuit digest".into(), 0, proof.clone(), true));
        for (what, first, p, alter_digest) in variants {
            let mut dg = data.verifier_only.circuit_digest;
            if alter_digest { dg.elements[2] += F::ONE; }
            let c2 = p.get_challenges(p.get_public_inputs_hash(), &dg, &data.common).unwrap();
            let g2 = groups(&c2);
            e.count("transcript-component-altered");
            for gi in 0..base.len() {
                if gi < first && g2[gi] != base[gi] {
                    e.oracle_failures.push(format!("altering {what} changed an EARLIER challenge group {gi}"));
                }
                // empty groups (e.g. no alphas is impossible; fri_betas may be absent) are skipped
                if gi >= first && !base[gi].is_empty() && g2[gi] == base[gi] {
                    e.oracle_failures.push(format!("altering {what} left challenge group {gi} unchanged (program {:?})", prog.ops.len()));
                }
            }
            // the model must agree on the altered transcripts too
            if !alter_digest {
                let s2 = challenges_string(&c2);
                e.case("altered-transcript", request("c04 plonk", &data, &p), || s2.clone());
            }
        }
        // altered FRI/degree parameters (statement): every challenge must change
        let mut cd = data.common.clone();
        cd.fri_params.config.proof_of_work_bits += 1;
        let c3 = proof.get_challenges(pih, &data.verifier_only.circuit_digest, &cd).unwrap();
        if groups(&c3)[0] == base[0] { e.oracle_failures.push("altering a FRI parameter left beta/gamma unchanged".into()); }
        let mut cd = data.common.clone();
        cd.fri_params.degree_bits += 1;
        let c3 = proof.get_challenges(pih, &data.verifier_only.circuit_digest, &cd).unwrap();
        if groups(&c3)[0] == base[0] { e.oracle_failures.push("altering degree_bits left beta/gamma unchanged".into()); }
    }
}
