//! C13: the optimised Poseidon layers, the sponge functions and both challengers on canonical,
//! non-canonical and carry-shaped states / arbitrary operation histories.
use plonky2::field::goldilocks_field::GoldilocksField as F;
use plonky2::field::types::{Field, PrimeField64};
use plonky2::hash::hash_types::HashOut;
use plonky2::hash::hashing::hash_n_to_m_no_pad;
use plonky2::hash::poseidon::{Poseidon, PoseidonHash, PoseidonPermutation, N_PARTIAL_ROUNDS};
use plonky2::iop::challenger::{Challenger, RecursiveChallenger};
use plonky2::iop::witness::{PartialWitness, WitnessWrite};
use plonky2::plonk::circuit_builder::CircuitBuilder;
use plonky2::plonk::circuit_data::CircuitConfig;
use plonky2::plonk::config::{Hasher, PoseidonGoldilocksConfig};

use crate::util::*;

fn raw_can(xs: &[F]) -> String {
    format!(
        "{} | {}",
        join(xs.iter().map(|x| x.0)),
        join(xs.iter().map(|x| x.to_canonical_u64()))
    )
}
fn can(xs: &[F]) -> String {
    join(xs.iter().map(|x| x.to_canonical_u64()))
}
fn raw(xs: &[F]) -> String {
    join(xs.iter().map(|x| x.0))
}

fn state(r: &mut Rng, kind: u64) -> [u64; 12] {
    let mut s = [0u64; 12];
    for x in s.iter_mut() {
        *x = match kind {
            0 => u64::MAX,
            1 => (r.next() << 32) | 0xFFFF_FFFF,
            2 => 0xFFFF_FFFF_0000_0000 | (r.next() & 0xFFFF_FFFF),
            3 => P + r.below(EPS),
            4 => *r.pick(&boundary()),
            5 => r.below(P),
            _ => word(r),
        };
    }
    s
}

fn layers(e: &mut Emitter, class: &str, s: [u64; 12], r: &mut Rng) {
    let fs: [F; 12] = s.map(F);
    let ss = join(s.iter());
    e.case(class, format!("c13 perm {ss}"), || raw_can(&F::poseidon(fs)));
    e.case(class, format!("c13 naive {ss}"), || raw_can(&F::poseidon_naive(fs)));
    e.case(class, format!("c13 mds {ss}"), || raw_can(&F::mds_layer(&fs)));
    let rd = r.below(30);
    e.case(class, format!("c13 constl {rd} {ss}"), || {
        let mut t = fs;
        F::constant_layer(&mut t, rd as usize);
        raw_can(&t)
    });
    e.case(class, format!("c13 sboxl {ss}"), || {
        let mut t = fs;
        F::sbox_layer(&mut t);
        raw_can(&t)
    });
    let pr = r.below(N_PARTIAL_ROUNDS as u64);
    e.case(class, format!("c13 mdsfast {pr} {ss}"), || raw(&F::mds_partial_layer_fast(&fs, pr as usize)));
    e.case(class, format!("c13 mdsinit {ss}"), || raw(&F::mds_partial_layer_init::<F, 1>(&fs)));
    e.case(class, format!("c13 prounds {ss}"), || {
        let mut t = fs;
        let mut ctr = 4;
        F::partial_rounds(&mut t, &mut ctr);
        raw_can(&t)
    });
    e.case(class, format!("c13 proundsnaive {ss}"), || {
        let mut t = fs;
        let mut ctr = 4;
        F::partial_rounds_naive(&mut t, &mut ctr);
        raw_can(&t)
    });
}

/// A random challenger history as the flat encoding `1 k x.. | 2 n`.
fn history(r: &mut Rng, max_ops: u64) -> Vec<u64> {
    let mut enc = vec![];
    let nops = r.range(1, max_ops);
    for _ in 0..nops {
        if r.below(5) < 3 {
            let k = match r.below(6) { 0 => 0, 1 => 8, 2 => 16, 3 => r.range(7, 9), _ => r.below(21) };
            enc.push(1);
            enc.push(k);
            for _ in 0..k {
                enc.push(if r.below(4) == 0 { word(r) % P } else { r.below(P) });
            }
        } else {
            enc.push(2);
            enc.push(match r.below(5) { 0 => 0, 1 => 8, 2 => 9, _ => r.below(21) });
        }
    }
    enc
}

fn run_native(enc: &[u64]) -> Vec<F> {
    let mut ch = Challenger::<F, PoseidonHash>::new();
    let mut out = vec![];
    let mut i = 0;
    while i < enc.len() {
        if enc[i] == 1 {
            let k = enc[i + 1] as usize;
            let xs: Vec<F> = enc[i + 2..i + 2 + k].iter().map(|&x| F::from_canonical_u64(x)).collect();
            // mix the API entry points: element-wise and slice-wise must agree
            if (k + i) % 3 != 0 {
                ch.observe_elements(&xs);
            } else {
                for x in xs {
                    ch.observe_element(x);
                }
            }
            i += 2 + k;
        } else {
            out.extend(ch.get_n_challenges(enc[i + 1] as usize));
            i += 2;
        }
    }
    out
}

fn run_recursive(enc: &[u64]) -> Vec<F> {
    const D: usize = 2;
    type C = PoseidonGoldilocksConfig;
    let config = CircuitConfig::standard_recursion_config();
    let mut builder = CircuitBuilder::<F, D>::new(config);
    let mut ch = RecursiveChallenger::<F, PoseidonHash, D>::new(&mut builder);
    let mut pw = PartialWitness::new();
    let mut i = 0;
    while i < enc.len() {
        if enc[i] == 1 {
            let k = enc[i + 1] as usize;
            for &x in &enc[i + 2..i + 2 + k] {
                let t = builder.add_virtual_target();
                pw.set_target(t, F::from_canonical_u64(x)).unwrap();
                ch.observe_element(t);
            }
            i += 2 + k;
        } else {
            let cs = ch.get_n_challenges(&mut builder, enc[i + 1] as usize);
            builder.register_public_inputs(&cs);
            i += 2;
        }
    }
    let data = builder.build::<C>();
    let proof = data.prove(pw).unwrap();
    proof.public_inputs
}

pub fn emit(e: &mut Emitter, seed: u64, thorough: bool) {
    let mut r = Rng::new(seed ^ 0x13);
    // published vectors first (corpus)
    for s in [[0u64; 12], [0, 1, 2, 3, 4, 5, 6, 7, 8, 9, 10, 11], [P - 1; 12]] {
        layers(e, "published-vector-inputs", s, &mut r);
    }
    let n = if thorough { 12_000 } else { 700 };
    for i in 0..n {
        let kind = i % 7;
        let s = state(&mut r, kind);
        let class = ["all-max", "low-half-ones", "high-half-ones", "noncanonical", "boundary", "canonical", "mixture"][kind as usize];
        layers(e, class, s, &mut r);
    }
    // carry-shaped MDS inputs: solve lane 1 so that the reduced row sum of lane 0 lands just below
    // 2^64 while 8*state[0] is non-canonical as well (the double-carry of the final addition)
    let circ: [u128; 12] = [17, 15, 41, 16, 2, 28, 13, 13, 39, 18, 34, 20];
    let mut made = 0;
    let mut tries = 0;
    while made < (if thorough { 400 } else { 60 }) && tries < 100_000 {
        tries += 1;
        let mut s = [0u64; 12];
        for x in s.iter_mut() { *x = if r.coin() { r.next() } else { r.below(P) }; }
        s[0] = (1u64 << 61) - 1 - r.below(1 << 20);
        let others: u128 = (0..12).filter(|&i| i != 1).map(|i| circ[i] * s[i] as u128).sum();
        let h = r.range(1, 120) as u128;
        let t = (u64::MAX - r.below(1 << 24)) as u128;            // wanted reduced value
        let lo = t.wrapping_sub(h * EPS as u128) & (u64::MAX as u128);
        let target = lo + (h << 64);
        if target <= others { continue; }
        let diff = target - others;
        let s1 = diff / 15;
        if s1 > u64::MAX as u128 { continue; }
        s[1] = s1 as u64;
        layers(e, "mds-lane0-double-carry", s, &mut r);
        made += 1;
    }
    // carry-shaped inputs of the fast partial layer: d = Σ state[i]·w_hat[r][i−1] + state[0]·(M00) is a sum
    // of twelve 128-bit products. Solve one lane so that the HIGH words of the products sum to a value
    // whose 96-bit reduction lands just below 2^64 (a non-canonical word) while the LOW words sum past
    // 2^64 — the recombination `(reduced_hi << 64) + low_sum` then needs its 129th bit.
    {
        let mut made = 0;
        let mut tries = 0;
        while made < (if thorough { 300 } else { 40 }) && tries < 100_000 {
            tries += 1;
            let pr = r.below(N_PARTIAL_ROUNDS as u64) as usize;
            let w: Vec<u128> = (0..11).map(|i| <F as Poseidon>::FAST_PARTIAL_ROUND_W_HATS[pr][i] as u128).collect();
            let mut st = [0u64; 12];
            for x in st.iter_mut() { *x = if r.coin() { r.next() } else { r.below(P) }; }
            let j = 1 + r.below(11) as usize;            // the lane that is solved (multiplier w[j-1])
            let tj = w[j - 1];
            if tj < (1u128 << 40) { continue; }
            let m00 = (<F as Poseidon>::MDS_MATRIX_CIRC[0] + <F as Poseidon>::MDS_MATRIX_DIAG[0]) as u128;
            let prod = |i: usize, v: u64| -> u128 { if i == 0 { v as u128 * m00 } else { v as u128 * w[i - 1] } };
            let h_rest: u128 = (0..12).filter(|&i| i != j).map(|i| prod(i, st[i]) >> 64).sum();
            let k = 1 + r.below(11) as u128;             // reduced high word = 2^64 − k
            // total high sum N = c·2^64 + X with X + c·EPS = 2^64 − k (no wrap)
            let c0 = h_rest >> 64;
            let mut done = false;
            for c in c0..c0 + 3 {
                let Some(x) = ((1u128 << 64) - k).checked_sub(c * EPS as u128) else { continue };
                let n = (c << 64) + x;
                if n < h_rest { continue; }
                let h = n - h_rest;
                if h >= tj { continue; }
                let sj = ((h << 64) + tj - 1) / tj;
                if sj > u64::MAX as u128 || (sj * tj) >> 64 != h { continue; }
                st[j] = sj as u64;
                done = true;
                break;
            }
            if !done { continue; }
            let fs: [F; 12] = st.map(F);
            let ss = join(st.iter());
            e.case("mdsfast-high-sum-just-below-2^64", format!("c13 mdsfast {pr} {ss}"), || raw(&F::mds_partial_layer_fast(&fs, pr)));
            made += 1;
        }
        e.count(&format!("mdsfast boundary states made: {made}"));
    }
    // sponge: every length 0..=40 and some longer; outputs beyond one squeeze
    let lens: Vec<usize> = (0..=40).chain([63, 64, 65, 100, 135, 200]).collect();
    for &len in &lens {
        for rep in 0..(if thorough { 6 } else { 2 }) {
            let xs: Vec<u64> = (0..len).map(|_| r.below(P)).collect();
            let fx: Vec<F> = xs.iter().map(|&x| F::from_canonical_u64(x)).collect();
            let m = [4usize, 1, 8, 9, 17, 0][rep % 6].max(if rep == 0 { 4 } else { 0 });
            if m > 0 {
                e.case("hash-n-to-m", format!("c13 hashm {m} {}", join(xs.iter())), || {
                    can(&hash_n_to_m_no_pad::<F, PoseidonPermutation<F>>(&fx, m))
                });
            }
            e.case("hash-no-pad", format!("c13 hashm 4 {}", join(xs.iter())), || {
                can(&PoseidonHash::hash_no_pad(&fx).elements)
            });
            e.case("hash-or-noop", format!("c13 hornoop {}", join(xs.iter())), || {
                can(&PoseidonHash::hash_or_noop(&fx).elements)
            });
            e.case("hash-pad", format!("c13 hpad {}", join(xs.iter())), || {
                can(&PoseidonHash::hash_pad(&fx).elements)
            });
        }
    }
    for _ in 0..(if thorough { 2000 } else { 200 }) {
        let a: Vec<u64> = (0..8).map(|_| if r.below(8) == 0 { *r.pick(&[0, 1, P - 1]) } else { r.below(P) }).collect();
        let h = |v: &[u64]| HashOut { elements: [F(v[0]), F(v[1]), F(v[2]), F(v[3])] };
        let (l, rr) = (h(&a[..4]), h(&a[4..]));
        e.case("two-to-one", format!("c13 two2one {}", join(a.iter())), || {
            can(&PoseidonHash::two_to_one(l, rr).elements)
        });
    }
    // challenger histories
    for _ in 0..(if thorough { 3000 } else { 300 }) {
        let enc = history(&mut r, 40);
        e.case("challenger-history", format!("c13 chal {}", join(enc.iter())), || can(&run_native(&enc)));
    }
    // targeted: a partial block, then one call that completes it and adds whole blocks, then more
    // than one rate's worth of squeezes (and variations with further absorbs in between)
    for _ in 0..(if thorough { 600 } else { 80 }) {
        let mut enc = vec![];
        let p = r.range(1, 7);
        enc.push(1); enc.push(p);
        for _ in 0..p { enc.push(r.below(P)); }
        let m = r.range(0, 3);
        let len = (8 - p) + 8 * m;
        enc.push(1); enc.push(len);
        for _ in 0..len { enc.push(r.below(P)); }
        enc.push(2); enc.push(r.range(7, 20));
        if r.coin() {
            let k = r.range(1, 17);
            enc.push(1); enc.push(k);
            for _ in 0..k { enc.push(r.below(P)); }
            enc.push(2); enc.push(r.range(1, 18));
        }
        e.case("challenger-partial-then-aligned", format!("c13 chal {}", join(enc.iter())), || can(&run_native(&enc)));
    }
    // in-circuit challenger on the same kind of histories (through witness generation + proof)
    for _ in 0..(if thorough { 60 } else { 8 }) {
        let enc = history(&mut r, 8);
        let total: u64 = {
            let mut t = 0;
            let mut i = 0;
            while i < enc.len() {
                if enc[i] == 1 { i += 2 + enc[i + 1] as usize } else { t += enc[i + 1]; i += 2 }
            }
            t
        };
        if total == 0 {
            continue;
        }
        e.case("recursive-challenger-history", format!("c13 rchal {}", join(enc.iter())), || can(&run_recursive(&enc)));
    }
}
