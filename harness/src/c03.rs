//! C03: starting from accepted proofs, edit every kind of element (generic walk over the proof's
//! serde_json tree), perform list surgery, and present foreign verifier data; verdicts of the real
//! verifier are compared with the Lean verifier model (exact, stage included) on few-query
//! configurations, and must be REJECT at standard strength.
use plonky2::field::types::Field;
use plonky2::plonk::circuit_data::{CircuitConfig, CircuitData};
use plonky2::plonk::proof::ProofWithPublicInputs;
use serde_json::Value;

use crate::c04::request;
use crate::dump::*;
use crate::progs::*;
use crate::util::*;

type Pwpi = ProofWithPublicInputs<F, C, 2>;

/// paths to every numeric leaf and to every array of the JSON tree
pub fn walk(v: &Value, path: &mut Vec<String>, leaves: &mut Vec<Vec<String>>, arrays: &mut Vec<Vec<String>>) {
    match v {
        Value::Number(_) => leaves.push(path.clone()),
        Value::Array(xs) => {
            arrays.push(path.clone());
            for (i, x) in xs.iter().enumerate() {
                path.push(i.to_string());
                walk(x, path, leaves, arrays);
                path.pop();
            }
        }
        Value::Object(m) => {
            for (k, x) in m {
                path.push(k.clone());
                walk(x, path, leaves, arrays);
                path.pop();
            }
        }
        _ => {}
    }
}

pub fn at<'a>(v: &'a mut Value, path: &[String]) -> &'a mut Value {
    let mut cur = v;
    for p in path {
        cur = match cur {
            Value::Array(xs) => &mut xs[p.parse::<usize>().unwrap()],
            Value::Object(m) => m.get_mut(p).unwrap(),
            _ => unreachable!(),
        };
    }
    cur
}

/// coarse class of a leaf: the path with indices removed
pub fn class_of(path: &[String]) -> String {
    path.iter().filter(|s| s.parse::<usize>().is_err()).cloned().collect::<Vec<_>>().join(".")
}

/// class of an ARRAY: indices become `#`, so an array, its element arrays and their element arrays
/// (`evals_proofs`, `evals_proofs.#` = a (leaf, proof) pair, `evals_proofs.#.#` = a leaf) are
/// different classes and each gets its own share of the surgery budget
pub fn class_of_arr(path: &[String]) -> String {
    path.iter().map(|s| if s.parse::<usize>().is_ok() { "#".to_string() } else { s.clone() }).collect::<Vec<_>>().join(".")
}

pub fn verdict(data: &CircuitData<F, C, 2>, p: &Pwpi) -> String {
    match std::panic::catch_unwind(std::panic::AssertUnwindSafe(|| data.verify(p.clone()))) {
        Ok(r) => plonk_verdict(r),
        Err(_) => "PANIC".into(),
    }
}

pub fn build_and_prove(prog: &Prog, config: &CircuitConfig) -> Option<(CircuitData<F, C, 2>, Pwpi)> {
    let r = std::panic::catch_unwind(std::panic::AssertUnwindSafe(|| {
        let (data, pw) = prog.build(config.clone());
        let proof = data.prove(pw);
        (data, proof)
    }));
    match r {
        Ok((d, Ok(p))) => Some((d, p)),
        _ => None,
    }
}

pub fn emit(e: &mut Emitter, seed: u64, thorough: bool) {
    let mut r = Rng::new(seed ^ 0x03);
    // ---- part A: few-query configurations, exact verdict agreement with the Lean verifier
    let n_circuits = if thorough { 12 } else { 3 };
    let per_class = if thorough { 6 } else { 2 };
    let mut made = 0;
    let mut tries = 0;
    while made < n_circuits && tries < 8 * n_circuits {
        tries += 1;
        let features = r.below(8);
        // at least 2^6 rows so that FRI reduction layers (commit-phase elements) exist
        let nops = r.range(40, 120) as usize;
        let prog = gen_prog(&mut r, nops, features | 2);
        let mut config = gen_config(&mut r, true);
        if config.zero_knowledge && made % 2 == 0 { config.zero_knowledge = false; }
        // one circuit always runs without grinding: the PoW witness must still be bound to the proof
        if made == 0 { config.fri_config.proof_of_work_bits = 0; }
        e.stage(&format!("building+proving a generated circuit ({} ops)", prog.ops.len()));
        let Some((data, proof)) = build_and_prove(&prog, &config) else { e.count("inadmissible-config-or-build-panic"); continue; };
        made += 1;
        let v0 = verdict(&data, &proof);
        e.case("honest", request("c03 verify", &data, &proof), || v0.clone());
        if v0 != "ACCEPT" { e.oracle_failures.push("honest proof rejected".into()); }
        let json = serde_json::to_value(&proof).unwrap();
        let (mut leaves, mut arrays) = (vec![], vec![]);
        walk(&json, &mut vec![], &mut leaves, &mut arrays);
        // group leaves by class and take a few of each
        let mut by_class: std::collections::BTreeMap<String, Vec<Vec<String>>> = Default::default();
        for l in leaves { by_class.entry(class_of(&l)).or_default().push(l); }
        for (cls, ls) in &by_class {
            for _ in 0..per_class {
                let path = r.pick(ls).clone();
                let mut j = json.clone();
                let cell = at(&mut j, &path);
                let old = cell.as_u64().unwrap();
                let newv = match r.below(3) { 0 => (old + 1) % P, 1 => if old == 0 { 1 } else { 0 }, _ => r.below(P) };
                if newv % P == old % P { continue; }
                *cell = Value::from(newv);
                let Ok(p2) = serde_json::from_value::<Pwpi>(j) else { e.count("edit-not-deserialisable"); continue; };
                let vi = verdict(&data, &p2);
                // the compressed form's redundant index list does not exist in the plain form
                if vi == "ACCEPT" { e.oracle_failures.push(format!("tampered proof ACCEPTED: element {} changed {}→{}", path.join("/"), old, newv)); }
                e.case(&format!("edit {cls}"), request("c03 verify", &data, &p2), || vi.clone());
            }
        }
        // targeted: query rounds that revisit an index / a coset already visited by an earlier round
        // (the later visit must be checked as strictly as the first)
        {
            let pih = proof.get_public_inputs_hash();
            let ch = proof.get_challenges(pih, &data.verifier_only.circuit_digest, &data.common).unwrap();
            let idx = &ch.fri_challenges.fri_query_indices;
            let arities = &data.common.fri_params.reduction_arity_bits;
            for q in 1..idx.len() {
                // initial trees: same index as an earlier round
                if idx[..q].contains(&idx[q]) {
                    let mut p2 = proof.clone();
                    let ep = &mut p2.proof.opening_proof.query_round_proofs[q].initial_trees_proof.evals_proofs;
                    let o = r.below(ep.len() as u64) as usize;
                    if r.coin() || ep[o].1.siblings.is_empty() { let k = r.below(ep[o].0.len() as u64) as usize; ep[o].0[k] += F::ONE; }
                    else { let k = r.below(ep[o].1.siblings.len() as u64) as usize; ep[o].1.siblings[k].elements[0] += F::ONE; }
                    let vi = verdict(&data, &p2);
                    if vi == "ACCEPT" { e.oracle_failures.push(format!("tampered initial opening of a query round that repeats index {} ACCEPTED", idx[q])); }
                    e.case("edit in a round repeating an earlier index", request("c03 verify", &data, &p2), || vi.clone());
                }
                // steps: coset index at layer j already visited by an earlier round
                let mut shift = 0;
                for (j, a) in arities.iter().enumerate() {
                    shift += a;
                    if idx[..q].iter().any(|&i| i >> shift == idx[q] >> shift) {
                        let mut p2 = proof.clone();
                        let st = &mut p2.proof.opening_proof.query_round_proofs[q].steps[j];
                        if r.coin() && !st.merkle_proof.siblings.is_empty() {
                            let k = r.below(st.merkle_proof.siblings.len() as u64) as usize;
                            st.merkle_proof.siblings[k].elements[r.below(4) as usize] += F::ONE;
                        } else {
                            let k = r.below(st.evals.len() as u64) as usize;
                            st.evals[k] += FE::ONE;
                        }
                        let vi = verdict(&data, &p2);
                        if vi == "ACCEPT" { e.oracle_failures.push(format!("tampered step {j} of a query round revisiting a coset ACCEPTED")); }
                        e.case("edit in a round revisiting a coset", request("c03 verify", &data, &p2), || vi.clone());
                    }
                }
            }
        }
        // list surgery on every array class
        let mut arr_by_class: std::collections::BTreeMap<String, Vec<Vec<String>>> = Default::default();
        for a in arrays { arr_by_class.entry(class_of_arr(&a)).or_default().push(a); }
        for (cls, als) in &arr_by_class {
            for surgery in 0..3 {
                let path = r.pick(als).clone();
                let mut j = json.clone();
                let Value::Array(xs) = at(&mut j, &path) else { continue };
                if xs.is_empty() { continue; }
                match surgery {
                    0 => { xs.pop(); }
                    1 => { xs.clear(); }
                    _ => { let l = xs.last().unwrap().clone(); xs.push(l); }
                }
                let Ok(p2) = serde_json::from_value::<Pwpi>(j) else { e.count("surgery-not-deserialisable (fixed-size digest)"); continue; };
                let vi = verdict(&data, &p2);
                if vi == "ACCEPT" { e.oracle_failures.push(format!("proof with list surgery {surgery} on {} ACCEPTED", path.join("/"))); }
                e.case(&format!("surgery{surgery} {cls}"), request("c03 verify", &data, &p2), || vi.clone());
            }
        }
        // foreign verifier data: the same program with one more constant gate ⇒ different preprocessed cap/digest
        let mut prog2 = prog.clone();
        prog2.ops.push(Op::Const(1234567 + made as u64));
        prog2.ops.push(Op::Public(prog2.ops.len() - 1));
        if let Some((data2, _)) = build_and_prove(&prog2, &config) {
            if data2.common == data.common || data2.common.degree_bits() == data.common.degree_bits() {
                let mixed = CircuitData { prover_only: data2.prover_only, verifier_only: data2.verifier_only, common: data.common.clone() };
                let vi = verdict(&mixed, &proof);
                if vi == "ACCEPT" { e.oracle_failures.push("proof accepted under the verifier data of a different circuit".into()); }
                e.case("foreign-verifier-data", request("c03 verify", &mixed, &proof), || vi.clone());
            }
        }
    }
    // ---- part B: standard strength, every element position must be rejected (implementation only)
    let n_std = if thorough { 3 } else { 1 };
    for _ in 0..n_std {
        let features = r.below(8);
        let prog = gen_prog(&mut r, 100, features | 2);
        let mut config = gen_config(&mut r, false);
        config.zero_knowledge = false;
        e.stage("building+proving a standard-strength circuit");
        let Some((data, proof)) = build_and_prove(&prog, &config) else { e.count("inadmissible-config-or-build-panic"); continue; };
        let json = serde_json::to_value(&proof).unwrap();
        let (mut leaves, mut arrays) = (vec![], vec![]);
        walk(&json, &mut vec![], &mut leaves, &mut arrays);
        let step = if thorough { 1 } else { 7 };
        let mut n = 0;
        for (k, path) in leaves.iter().enumerate() {
            if k % step != 0 { continue; }
            let mut j = json.clone();
            let cell = at(&mut j, path);
            let old = cell.as_u64().unwrap();
            *cell = Value::from((old + 1 + r.below(P - 1)) % P);
            let Ok(p2) = serde_json::from_value::<Pwpi>(j) else { continue };
            let vi = verdict(&data, &p2);
            n += 1;
            if vi == "ACCEPT" { e.oracle_failures.push(format!("standard-strength: tampered element {} ACCEPTED", path.join("/"))); }
            if vi == "PANIC" { e.count("standard-strength: panic on a single-element edit"); }
        }
        e.hist.insert("standard-strength single-element edits rejected".into(), n);
    }
}
